import Rivaas.Spec.Lifecycle
import Rivaas.Model.Lifecycle
/-
C09 — helper lemmas, part 1: event kinds, and how the functions of the oracle behave on a log that
is a concatenation of segments each of which contains events of a few known kinds only.
-/
namespace Rivaas.Lifecycle
open Spec

inductive Kind where
  | start | ready | reload | reqIn | reqFin | sig | shut | flush | stop | ret
  deriving DecidableEq, Repr

def kind : Ev → Kind
  | .startIn .. => .start | .startOut .. => .start
  | .ready .. => .ready
  | .reloadIn .. => .reload | .reloadOut .. => .reload
  | .reqIn .. => .reqIn
  | .reqFin .. => .reqFin
  | .sig => .sig
  | .shutIn .. => .shut | .shutOut .. => .shut
  | .flush => .flush
  | .stopIn .. => .stop | .stopOut .. => .stop
  | .ret => .ret

/-- every event of `l` has one of the kinds `ks` -/
def kindsIn (ks : List Kind) (l : List Ev) : Prop := ∀ e ∈ l, kind e ∈ ks

theorem kindsIn_nil (ks : List Kind) : kindsIn ks [] := by intro e he; cases he

theorem kindsIn_cons {ks : List Kind} {e : Ev} {l : List Ev} (h1 : kind e ∈ ks) (h2 : kindsIn ks l) :
    kindsIn ks (e :: l) := by
  intro x hx
  rcases List.mem_cons.mp hx with rfl | hx
  · exact h1
  · exact h2 x hx

theorem kindsIn_append {ks : List Kind} {a b : List Ev} (h1 : kindsIn ks a) (h2 : kindsIn ks b) :
    kindsIn ks (a ++ b) := by
  intro x hx
  rcases List.mem_append.mp hx with hx | hx
  · exact h1 x hx
  · exact h2 x hx

theorem kindsIn_mono {ks ks' : List Kind} {l : List Ev} (h : kindsIn ks l) (hs : ∀ k ∈ ks, k ∈ ks') :
    kindsIn ks' l := fun e he => hs _ (h e he)

theorem kindsIn_take {ks : List Kind} {l : List Ev} (h : kindsIn ks l) (n : Nat) : kindsIn ks (l.take n) :=
  fun e he => h e (List.mem_of_mem_take he)

theorem kindsIn_drop {ks : List Kind} {l : List Ev} (h : kindsIn ks l) (n : Nat) : kindsIn ks (l.drop n) :=
  fun e he => h e (List.mem_of_mem_drop he)

/-! ### parts: a log as a list of (allowed kinds, segment) -/

abbrev Parts := List (List Kind × List Ev)

def Parts.log (ps : Parts) : List Ev := ps.flatMap (·.2)

def Parts.WK (ps : Parts) : Prop := ∀ p ∈ ps, kindsIn p.1 p.2

theorem Parts.WK_cons {p : List Kind × List Ev} {ps : Parts} (h : Parts.WK (p :: ps)) :
    kindsIn p.1 p.2 ∧ Parts.WK ps :=
  ⟨h p (List.mem_cons_self ..), fun q hq => h q (List.mem_cons_of_mem _ hq)⟩

@[simp] theorem Parts.log_nil : Parts.log [] = [] := rfl
@[simp] theorem Parts.log_cons (p : List Kind × List Ev) (ps : Parts) :
    Parts.log (p :: ps) = p.2 ++ Parts.log ps := by
  simp [Parts.log]

/-- the parts in which events of kind `k` may occur -/
def Parts.home (k : Kind) (ps : Parts) : Parts := ps.filter (fun p => decide (k ∈ p.1))

@[simp] theorem Parts.home_nil (k : Kind) : Parts.home k [] = [] := rfl
theorem Parts.home_cons (k : Kind) (p : List Kind × List Ev) (ps : Parts) :
    Parts.home k (p :: ps) = if k ∈ p.1 then p :: Parts.home k ps else Parts.home k ps := by
  simp only [Parts.home, List.filter_cons, decide_eq_true_eq]

/-- a `filterMap` that is `none` off kind `k` only sees the home parts of `k` -/
theorem Parts.filterMap_home {α} (g : Ev → Option α) (k : Kind) (hg : ∀ e, kind e ≠ k → g e = none)
    (ps : Parts) (h : ps.WK) : ps.log.filterMap g = (Parts.home k ps).log.filterMap g := by
  induction ps with
  | nil => rfl
  | cons p ps ih =>
    obtain ⟨hp, hps⟩ := Parts.WK_cons h
    rw [Parts.home_cons]
    by_cases hk : k ∈ p.1
    · simp only [hk, if_true, Parts.log_cons, List.filterMap_append, ih hps]
    · simp only [hk, if_false, Parts.log_cons, List.filterMap_append, ih hps]
      have : p.2.filterMap g = [] := by
        apply List.filterMap_eq_nil_iff.mpr
        intro e he
        apply hg
        intro hke
        exact hk (hke ▸ hp e he)
      rw [this, List.nil_append]

/-- a predicate that is true off kind `k` only has to be checked on the home parts of `k` -/
theorem Parts.all_home (P : Ev → Bool) (k : Kind) (hP : ∀ e, kind e ≠ k → P e = true)
    (ps : Parts) (h : ps.WK) : ps.log.all P = (Parts.home k ps).log.all P := by
  induction ps with
  | nil => rfl
  | cons p ps ih =>
    obtain ⟨hp, hps⟩ := Parts.WK_cons h
    rw [Parts.home_cons]
    by_cases hk : k ∈ p.1
    · simp only [hk, if_true, Parts.log_cons, List.all_append, ih hps]
    · simp only [hk, if_false, Parts.log_cons, List.all_append, ih hps]
      have : p.2.all P = true := by
        apply List.all_eq_true.mpr
        intro e he
        apply hP
        intro hke
        exact hk (hke ▸ hp e he)
      rw [this, Bool.true_and]

/-- a predicate that is false off kind `k` can only be met in the home parts of `k` -/
theorem Parts.any_home (P : Ev → Bool) (k : Kind) (hP : ∀ e, kind e ≠ k → P e = false)
    (ps : Parts) (h : ps.WK) : ps.log.any P = (Parts.home k ps).log.any P := by
  induction ps with
  | nil => rfl
  | cons p ps ih =>
    obtain ⟨hp, hps⟩ := Parts.WK_cons h
    rw [Parts.home_cons]
    by_cases hk : k ∈ p.1
    · simp only [hk, if_true, Parts.log_cons, List.any_append, ih hps]
    · simp only [hk, if_false, Parts.log_cons, List.any_append, ih hps]
      have : p.2.any P = false := by
        apply List.any_eq_false.mpr
        intro e he
        have := hP e (fun hke => hk (hke ▸ hp e he))
        simp [this]
      rw [this, Bool.false_or]

theorem Parts.count_home (x : Ev) (ps : Parts) (h : ps.WK) :
    ps.log.count x = (Parts.home (kind x) ps).log.count x := by
  induction ps with
  | nil => rfl
  | cons p ps ih =>
    obtain ⟨hp, hps⟩ := Parts.WK_cons h
    rw [Parts.home_cons]
    by_cases hk : kind x ∈ p.1
    · simp only [hk, if_true, Parts.log_cons, List.count_append, ih hps]
    · simp only [hk, if_false, Parts.log_cons, List.count_append, ih hps]
      have : p.2.count x = 0 := by
        apply List.count_eq_zero.mpr
        intro hx
        exact hk (hp x hx)
      omega

end Rivaas.Lifecycle
