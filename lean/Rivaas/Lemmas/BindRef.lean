import Rivaas.Model.Bind
import Rivaas.Lemmas.BindPath
import Rivaas.Lemmas.BindFlatten
/-
C04: the bind loop over cached index paths equals the *structural* binder `refFs`, which walks the
struct type field by field, descends into embedded structs in place and never mentions an index
path (`lemma_loop_eq_ref`). This is the bind-level content of K04a for every shape and depth:
each promoted field is handled with its own current value and its own key.
-/
set_option linter.unusedSimpArgs false
set_option linter.unusedVariables false
namespace Rivaas.Bind

variable (P : Params) (cfg : Cfg) (nest : Nest) (tag : Tag)

/-- the loop body on a field that is not an embedded struct, acting on the field's value -/
def refLeaf (g : Getter) (d : Nat) (h : FieldHdr) (t : Ty) (v : Val) : Val ⊕ Stop :=
  match mkInfo P tag [] h t with
  | none => .inl v
  | some f => if !wants g f then .inl v else fieldAction P cfg nest g d f v

mutual
def refFld (g : Getter) (d : Nat) (h : FieldHdr) : Ty → Val → Val ⊕ Stop
  | .struct sub, v =>
    if !h.exported then .inl v
    else if h.anon then
      match v with
      | .struct cs => match refFs g d sub cs with
        | .inl cs' => .inl (.struct cs')
        | .inr o => .inr o
      | _ => .inr .panic
    else refLeaf P cfg nest tag g d h (.struct sub) v
  | .ptr (.struct sub), v =>
    if !h.exported then .inl v
    else if h.anon then
      match v with
      | .ptr (.struct cs) => match refFs g d sub cs with
        | .inl cs' => .inl (.ptr (.struct cs'))
        | .inr o => .inr o
      | .nil =>
        -- allocated when — and only when — a promoted field below it receives a value
        if (flatten P tag sub).any (wants g) then
          match refFs g d sub (zeroFs sub) with
          | .inl cs' => .inl (.ptr (.struct cs'))
          | .inr o => .inr o
        else .inl .nil
      | _ => .inr .panic
    else refLeaf P cfg nest tag g d h (.ptr (.struct sub)) v
  | t, v => if !h.exported then .inl v else refLeaf P cfg nest tag g d h t v
def refFs (g : Getter) (d : Nat) : List Fld → List Val → List Val ⊕ Stop
  | [], _ => .inl []
  | (h, t) :: fs, v :: vs =>
    match refFld g d h t v with
    | .inr o => .inr o
    | .inl v' => match refFs g d fs vs with
      | .inr o => .inr o
      | .inl vs' => .inl (v' :: vs')
  | _ :: _, [] => .inr .panic
end

def refOut (pre : List Val) : List Val ⊕ Stop → Outcome
  | .inl ws => .ok (.struct (pre ++ ws))
  | .inr o => o.out


def fldOut (vs : List Val) (i : Nat) : Val ⊕ Stop → Outcome
  | .inl v' => .ok (.struct (vs.set i v'))
  | .inr o => o.out

theorem lemma_mkInfo_idx (idx : List Nat) (h : FieldHdr) (t : Ty) :
    mkInfo P tag idx h t = (mkInfo P tag [] h t).map (fun f => { f with index := idx }) := by
  unfold mkInfo
  simp only
  split
  · simp
  · split
    · simp
    · simp

/-- a field that is not an embedded struct: one iteration on the field's own value -/
theorem lemma_loop_leaf (sty : List Fld) (g : Getter) (d i : Nat) (h : FieldHdr) (t : Ty) (vs : List Val) (v : Val)
    (hs : sty[i]? = some (h, t)) (hv : vs[i]? = some v) :
    loopWith P cfg nest sty ((mkInfo P tag [i] h t).toList) (.struct vs) g d =
      fldOut vs i (refLeaf P cfg nest tag g d h t v) := by
  rw [lemma_mkInfo_idx P tag [i] h t]
  unfold refLeaf
  cases hm : mkInfo P tag [] h t with
  | none => simp [loopWith, fldOut, lemma_set_self vs i v hv]
  | some f =>
    simp only [Option.map_some, Option.toList_some, loopWith, lemma_reach_one, hv]
    have hw : wants g { f with index := [i] } = wants g f := rfl
    rw [hw]
    by_cases hwf : wants g f = true
    · simp only [hwf, Bool.not_true, Bool.false_eq_true, if_false]
      rw [lemma_updAt_one sty vs i h t v id hs hv]
      simp only [id, lemma_set_self vs i v hv, lemma_reach_one, hv]
      have ha : fieldAction P cfg nest g d { f with index := [i] } v = fieldAction P cfg nest g d f v := rfl
      rw [ha]
      cases fieldAction P cfg nest g d f v with
      | inl nv => simp [lemma_updAt_one sty vs i h t v _ hs hv, loopWith, fldOut]
      | inr o => simp [fldOut]
    · have hwf' : wants g f = false := by simpa using hwf
      simp [hwf', fldOut, loopWith, lemma_set_self vs i v hv]


theorem lemma_wts_length : ∀ (fs : List Fld) (vs : List Val), wts fs vs = true → fs.length = vs.length
  | [], [], _ => rfl
  | [], _ :: _, h => by simp [wts] at h
  | _ :: _, [], h => by simp [wts] at h
  | (_, _) :: fs, _ :: vs, h => by
    simp only [wts, Bool.and_eq_true] at h
    simp [lemma_wts_length fs vs h.2]

theorem lemma_zero_struct (sub : List Fld) : zero (.struct sub) = .struct (zeroFs sub) := by simp [zero]

mutual
/-- the loop over what `parseStructType` produced for field `i` acts on the value of field `i`
    exactly as the structural binder does -/
theorem lemma_loop_fld (g : Getter) (d : Nat) :
    ∀ (t : Ty) (sty : List Fld) (h : FieldHdr) (i : Nat) (vs : List Val) (v : Val),
      sty[i]? = some (h, t) → vs[i]? = some v → wt t v = true →
      loopWith P cfg nest sty (flattenFld P tag [] i h t) (.struct vs) g d =
        fldOut vs i (refFld P cfg nest tag g d h t v)
  | .struct sub, sty, h, i, vs, v, hs, hv, hw => by
    unfold flattenFld refFld
    by_cases hex : h.exported = true
    · simp only [hex, Bool.not_true, Bool.false_eq_true, if_false]
      by_cases han : h.anon = true
      · simp only [han, if_true]
        cases v with
        | struct cs =>
          have hwc : wts sub cs = true := by simpa [wt] using hw
          have hval := lemma_flatten_valid P tag sub cs hwc
          simp only [List.nil_append]
          rw [lemma_flatten_embedded P tag i sub,
            lemma_lift_struct P cfg nest sty i h sub g d hs (flatten P tag sub) vs cs (fun f hf => (hval f hf).1) hv]
          have ih := lemma_loop_fs g d sub sub 0 cs (lemma_wts_length sub cs hwc) (by simp) (by simpa using hwc)
          simp only [flatten, List.take_zero, List.drop_zero] at ih ⊢
          rw [ih]
          cases refFs P cfg nest tag g d sub cs with
          | inl cs' => simp [refOut, liftOut, fldOut]
          | inr o => cases o <;> simp [refOut, liftOut, fldOut, Stop.out]
        | _ => simp [wt] at hw
      · have han' : h.anon = false := by simpa using han
        simp only [han', Bool.false_eq_true, if_false, List.nil_append]
        exact lemma_loop_leaf P cfg nest tag sty g d i h _ vs v hs hv
    · have hex' : h.exported = false := by simpa using hex
      simp [hex', loopWith, fldOut, lemma_set_self vs i v hv]
  | .ptr (.struct sub), sty, h, i, vs, v, hs, hv, hw => by
    unfold flattenFld refFld
    by_cases hex : h.exported = true
    · simp only [hex, Bool.not_true, Bool.false_eq_true, if_false]
      by_cases han : h.anon = true
      · simp only [han, if_true, List.nil_append]
        rw [lemma_flatten_embedded P tag i sub]
        cases v with
        | ptr y =>
          cases y with
          | struct cs =>
            have hwc : wts sub cs = true := by simpa [wt] using hw
            have hval := lemma_flatten_valid P tag sub cs hwc
            rw [lemma_lift_ptr P cfg nest sty i h sub g d hs (flatten P tag sub) vs cs (fun f hf => (hval f hf).1) hv]
            have ih := lemma_loop_fs g d sub sub 0 cs (lemma_wts_length sub cs hwc) (by simp) (by simpa using hwc)
            simp only [flatten, List.take_zero, List.drop_zero] at ih ⊢
            rw [ih]
            cases refFs P cfg nest tag g d sub cs with
            | inl cs' => simp [refOut, liftOut, fldOut]
            | inr o => cases o <;> simp [refOut, liftOut, fldOut, Stop.out]
          | _ => simp [wt] at hw
        | nil =>
          have hwz : wts sub (zeroFs sub) = true := lemma_wts_zero sub
          have hval := lemma_flatten_valid P tag sub (zeroFs sub) hwz
          rw [lemma_lift_nil P cfg nest sty i h sub g d hs (flatten P tag sub) vs
            (fun f hf => by rw [lemma_zero_struct]; exact hval f hf) hv]
          by_cases hany : (flatten P tag sub).any (wants g) = true
          · simp only [hany, if_true]
            have hv0 : (vs.set i (Val.ptr (zero (.struct sub))))[i]? = some (.ptr (.struct (zeroFs sub))) := by
              rw [lemma_get_set vs i _ _ hv, lemma_zero_struct]
            rw [lemma_lift_ptr P cfg nest sty i h sub g d hs (flatten P tag sub) _ (zeroFs sub)
              (fun f hf => (hval f hf).1) hv0]
            have ih := lemma_loop_fs g d sub sub 0 (zeroFs sub) (lemma_wts_length sub _ hwz) (by simp) (by simpa using hwz)
            simp only [flatten, List.take_zero, List.drop_zero] at ih ⊢
            rw [ih]
            cases refFs P cfg nest tag g d sub (zeroFs sub) with
            | inl cs' => simp [refOut, liftOut, fldOut, List.set_set]
            | inr o => cases o <;> simp [refOut, liftOut, fldOut, Stop.out]
          · have hany' : (flatten P tag sub).any (wants g) = false := by simpa using hany
            simp [hany', fldOut, lemma_set_self vs i _ hv]
        | _ => simp [wt] at hw
      · have han' : h.anon = false := by simpa using han
        simp only [han', Bool.false_eq_true, if_false, List.nil_append]
        exact lemma_loop_leaf P cfg nest tag sty g d i h _ vs v hs hv
    · have hex' : h.exported = false := by simpa using hex
      simp [hex', loopWith, fldOut, lemma_set_self vs i v hv]
  | .prim p, sty, h, i, vs, v, hs, hv, hw => by
    simp only [flattenFld, refFld]
    by_cases hex : h.exported = true
    · simp only [hex, Bool.not_true, Bool.false_eq_true, if_false, List.nil_append]
      exact lemma_loop_leaf P cfg nest tag sty g d i h _ vs v hs hv
    · have hex' : h.exported = false := by simpa using hex
      simp [hex', loopWith, fldOut, lemma_set_self vs i v hv]
  | .slice e, sty, h, i, vs, v, hs, hv, hw => by
    simp only [flattenFld, refFld]
    by_cases hex : h.exported = true
    · simp only [hex, Bool.not_true, Bool.false_eq_true, if_false, List.nil_append]
      exact lemma_loop_leaf P cfg nest tag sty g d i h _ vs v hs hv
    · have hex' : h.exported = false := by simpa using hex
      simp [hex', loopWith, fldOut, lemma_set_self vs i v hv]
  | .map e, sty, h, i, vs, v, hs, hv, hw => by
    simp only [flattenFld, refFld]
    by_cases hex : h.exported = true
    · simp only [hex, Bool.not_true, Bool.false_eq_true, if_false, List.nil_append]
      exact lemma_loop_leaf P cfg nest tag sty g d i h _ vs v hs hv
    · have hex' : h.exported = false := by simpa using hex
      simp [hex', loopWith, fldOut, lemma_set_self vs i v hv]
  | .ptr (.prim p), sty, h, i, vs, v, hs, hv, hw => by
    simp only [flattenFld, refFld]
    by_cases hex : h.exported = true
    · simp only [hex, Bool.not_true, Bool.false_eq_true, if_false, List.nil_append]
      exact lemma_loop_leaf P cfg nest tag sty g d i h _ vs v hs hv
    · have hex' : h.exported = false := by simpa using hex
      simp [hex', loopWith, fldOut, lemma_set_self vs i v hv]
  | .ptr (.ptr e), sty, h, i, vs, v, hs, hv, hw => by
    simp only [flattenFld, refFld]
    by_cases hex : h.exported = true
    · simp only [hex, Bool.not_true, Bool.false_eq_true, if_false, List.nil_append]
      exact lemma_loop_leaf P cfg nest tag sty g d i h _ vs v hs hv
    · have hex' : h.exported = false := by simpa using hex
      simp [hex', loopWith, fldOut, lemma_set_self vs i v hv]
  | .ptr (.slice e), sty, h, i, vs, v, hs, hv, hw => by
    simp only [flattenFld, refFld]
    by_cases hex : h.exported = true
    · simp only [hex, Bool.not_true, Bool.false_eq_true, if_false, List.nil_append]
      exact lemma_loop_leaf P cfg nest tag sty g d i h _ vs v hs hv
    · have hex' : h.exported = false := by simpa using hex
      simp [hex', loopWith, fldOut, lemma_set_self vs i v hv]
  | .ptr (.map e), sty, h, i, vs, v, hs, hv, hw => by
    simp only [flattenFld, refFld]
    by_cases hex : h.exported = true
    · simp only [hex, Bool.not_true, Bool.false_eq_true, if_false, List.nil_append]
      exact lemma_loop_leaf P cfg nest tag sty g d i h _ vs v hs hv
    · have hex' : h.exported = false := by simpa using hex
      simp [hex', loopWith, fldOut, lemma_set_self vs i v hv]
/-- the loop over the cached table of the fields from position `i` on -/
theorem lemma_loop_fs (g : Getter) (d : Nat) :
    ∀ (fs sty : List Fld) (i : Nat) (vs : List Val),
      sty.length = vs.length → sty.drop i = fs → wts fs (vs.drop i) = true →
      loopWith P cfg nest sty (flattenFs P tag [] i fs) (.struct vs) g d =
        refOut (vs.take i) (refFs P cfg nest tag g d fs (vs.drop i))
  | [], sty, i, vs, hlen, hd, hw => by
    have : vs.length ≤ i := by
      have : sty.length ≤ i := by
        cases hlt : decide (sty.length ≤ i) with
        | true => simpa using hlt
        | false =>
          have : i < sty.length := by simpa using hlt
          have : (sty.drop i).length = sty.length - i := List.length_drop
          rw [hd] at this
          simp at this; omega
      omega
    simp [flattenFs, loopWith, refFs, refOut, List.take_of_length_le this]
  | (h, t) :: rest, sty, i, vs, hlen, hd, hw => by
    have hsi : sty[i]? = some (h, t) := by
      have := congrArg (fun l => l[0]?) hd
      simpa using this
    have hd' : sty.drop (i+1) = rest := by
      have := congrArg List.tail hd
      simpa [List.tail_drop] using this
    cases hvd : vs.drop i with
    | nil => rw [hvd] at hw; simp [wts] at hw
    | cons v vrest =>
      rw [hvd] at hw
      simp only [wts, Bool.and_eq_true] at hw
      have hvi : vs[i]? = some v := by
        have := congrArg (fun l => l[0]?) hvd
        simpa using this
      have hvr : vs.drop (i+1) = vrest := by
        have := congrArg List.tail hvd
        simpa [List.tail_drop] using this
      simp only [flattenFs, refFs]
      rw [lemma_loop_append, lemma_loop_fld g d t sty h i vs v hsi hvi hw.1]
      cases hr : refFld P cfg nest tag g d h t v with
      | inr o => cases o <;> simp [fldOut, refOut, Stop.out]
      | inl v' =>
        simp only [fldOut]
        have hlen' : sty.length = (vs.set i v').length := by simp [hlen]
        have hdrop : (vs.set i v').drop (i+1) = vrest := by
          rw [List.drop_set_of_lt (by omega)]; exact hvr
        rw [lemma_loop_fs g d rest sty (i+1) (vs.set i v') hlen' hd' (by rw [hdrop]; exact hw.2), hdrop]
        have hlt : i < vs.length := by
          cases hlt : decide (i < vs.length) with
          | true => simpa using hlt
          | false =>
            have : vs.length ≤ i := by simpa using hlt
            simp [List.getElem?_eq_none this] at hvi
        have htake : (vs.set i v').take (i+1) = vs.take i ++ [v'] := by
          rw [List.take_add_one]
          simp [List.take_set_of_le, hlt]
        cases refFs P cfg nest tag g d rest vrest with
        | inl ws => simp [refOut, htake]
        | inr o => simp [refOut]
end

/-- **the bind loop is the structural binder.** For every struct type, every well-typed
    destination, every getter and every treatment `nest` of nested structs, looping over the cached
    index paths of `parseStructType` computes exactly what the field-by-field recursion computes. -/
theorem lemma_loop_eq_ref (g : Getter) (d : Nat) (sty : List Fld) (vs : List Val) (hw : wts sty vs = true) :
    loopWith P cfg nest sty (flatten P tag sty) (.struct vs) g d =
      refOut [] (refFs P cfg nest tag g d sty vs) := by
  have := lemma_loop_fs P cfg nest tag g d sty sty 0 vs (lemma_wts_length sty vs hw) (by simp) (by simpa using hw)
  simpa [flatten] using this

end Rivaas.Bind
