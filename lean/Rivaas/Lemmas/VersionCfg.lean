import Rivaas.Spec.VersionCfg
import Rivaas.Lemmas.VersionSel
/-
C13 — the configuration step: closed form of `applyAll` (the loop of `NewConfig` over the options).
-/
namespace Rivaas.Version
open Rivaas.Version.Spec

/-- what a well-formed option does to the configuration -/
def upd (b : Built) : Opt → Built
  | .det d => if isCustom d then { b with dets := toDet d :: b.dets } else { b with dets := b.dets ++ [toDet d] }
  | .customNil => b
  | .dflt v => { b with dflt := v }
  | .valid vs => { b with valid := vs }
  | .responseHeaders => { b with sendVersionHeader := true }
  | .warning299 => { b with sendWarning299 := true }
  | .sunsetEnforcement => { b with enforceSunset := true }
  | .observer => { b with hasObserver := true }
  | .clock => { b with hasClock := true }

theorem lemma_firstEmpty_none (vs : List Bytes) (i : Nat) : firstEmpty vs i = none ↔ ([] : Bytes) ∉ vs := by
  induction vs generalizing i with
  | nil => simp [firstEmpty]
  | cons v rest ih =>
    simp only [firstEmpty]
    by_cases hv : v = []
    · subst hv; simp
    · simp only [hv, if_false, ih, List.mem_cons, not_or]
      constructor
      · intro h; exact ⟨fun e => hv e.symm, h⟩
      · intro h; exact h.2

/-- an option function succeeds exactly on a well-formed argument, and then does `upd` -/
theorem lemma_applyOption (b : Built) (o : Opt) :
    (wellFormed o = true → applyOption b o = .ok (upd b o)) ∧
    (wellFormed o = false → ∃ e, applyOption b o = .error e) := by
  cases o with
  | det d =>
    cases d with
    | path p =>
      by_cases hp : p = []
      · subst hp; simp [wellFormed, applyOption]
      · cases hc : index p versionPlaceholder with
        | some i => simp [wellFormed, applyOption, hp, hc, hasPlaceholder, upd, isCustom, toDet, containsSub]
        | none => simp [wellFormed, applyOption, hp, hc, hasPlaceholder, containsSub]
    | header n => by_cases hn : n = [] <;> simp [wellFormed, applyOption, hn, upd, isCustom, toDet]
    | query q => by_cases hq : q = [] <;> simp [wellFormed, applyOption, hq, upd, isCustom, toDet]
    | accept p =>
      by_cases hp : p = []
      · subst hp; simp [wellFormed, applyOption]
      · cases hc : index p versionPlaceholder with
        | some i => simp [wellFormed, applyOption, hp, hc, hasPlaceholder, upd, isCustom, toDet, containsSub]
        | none => simp [wellFormed, applyOption, hp, hc, hasPlaceholder, containsSub]
    | custom i => simp [wellFormed, applyOption, upd, isCustom, toDet]
  | customNil => simp [wellFormed, applyOption]
  | dflt v => by_cases hv : v = [] <;> simp [wellFormed, applyOption, hv, upd]
  | valid vs =>
    by_cases hl : vs = []
    · subst hl; simp [wellFormed, applyOption]
    · have hlen : vs.length ≠ 0 := by simpa using hl
      cases hf : firstEmpty vs 0 with
      | none =>
        have := (lemma_firstEmpty_none vs 0).1 hf
        simp [wellFormed, applyOption, hlen, hf, hl, upd, this]
      | some i =>
        have : ([] : Bytes) ∈ vs := by
          apply Decidable.byContradiction
          intro hne
          rw [(lemma_firstEmpty_none vs 0).2 hne] at hf
          cases hf
        simp [wellFormed, applyOption, hlen, hf, hl, this]
  | responseHeaders => simp [wellFormed, applyOption, upd]
  | warning299 => simp [wellFormed, applyOption, upd]
  | sunsetEnforcement => simp [wellFormed, applyOption, upd]
  | observer => simp [wellFormed, applyOption, upd]
  | clock => simp [wellFormed, applyOption, upd]

/-- the loop over the options: all well-formed → the fold of `upd`; otherwise an error -/
theorem lemma_applyAll (opts : List Opt) (b : Built) :
    (opts.all wellFormed = true → applyAll b opts = .ok (opts.foldl upd b)) ∧
    (opts.all wellFormed = false → ∃ e, applyAll b opts = .error e) := by
  induction opts generalizing b with
  | nil => simp [applyAll]
  | cons o rest ih =>
    obtain ⟨h1, h2⟩ := lemma_applyOption b o
    by_cases hw : wellFormed o = true
    · simp only [List.all_cons, hw, Bool.true_and, applyAll, h1 hw, List.foldl_cons]
      exact ih (upd b o)
    · have hw' : wellFormed o = false := by simpa using hw
      obtain ⟨e, he⟩ := h2 hw'
      simp [applyAll, he, hw']

/-! ### closed form of the fold -/

theorem lemma_upd_dets (opts : List Opt) (b : Built) :
    (opts.foldl upd b).dets =
      (((opts.filterMap detOf).filter isCustom).reverse.map toDet) ++ b.dets ++
      (((opts.filterMap detOf).filter (fun d => !isCustom d)).map toDet) := by
  induction opts generalizing b with
  | nil => simp
  | cons o rest ih =>
    rw [List.foldl_cons, ih]
    cases o with
    | det d =>
      by_cases hc : isCustom d = true
      · simp [upd, detOf, hc, List.filterMap_cons]
      · have hc' : isCustom d = false := by simpa using hc
        simp [upd, detOf, hc', List.filterMap_cons]
    | _ => simp [upd, detOf, List.filterMap_cons]

theorem lemma_getLast_getD {α} (l : List α) (x init : α) :
    ((x :: l).getLast?).getD init = (l.getLast?).getD x := by
  cases l with
  | nil => simp
  | cons y ys =>
    rw [List.getLast?_cons_cons]
    cases h : (y :: ys).getLast? with
    | none => simp at h
    | some z => rfl

theorem lemma_upd_dflt (opts : List Opt) (b : Built) :
    (opts.foldl upd b).dflt = lastOr (fun o => match o with | .dflt v => some v | _ => none) b.dflt opts := by
  induction opts generalizing b with
  | nil => simp [lastOr]
  | cons o rest ih =>
    rw [List.foldl_cons, ih]
    unfold lastOr
    cases o with
    | dflt v => simp only [upd, List.filterMap_cons]; rw [lemma_getLast_getD]
    | det d => cases d <;> simp [upd] <;> split <;> rfl
    | _ => simp [upd]

theorem lemma_upd_valid (opts : List Opt) (b : Built) :
    (opts.foldl upd b).valid = lastOr (fun o => match o with | .valid vs => some vs | _ => none) b.valid opts := by
  induction opts generalizing b with
  | nil => simp [lastOr]
  | cons o rest ih =>
    rw [List.foldl_cons, ih]
    unfold lastOr
    cases o with
    | valid vs => simp only [upd, List.filterMap_cons]; rw [lemma_getLast_getD]
    | det d => cases d <;> simp [upd] <;> split <;> rfl
    | _ => simp [upd]

theorem lemma_upd_flags (opts : List Opt) (b : Built) :
    (opts.foldl upd b).sendVersionHeader = (b.sendVersionHeader || opts.contains .responseHeaders) ∧
    (opts.foldl upd b).sendWarning299 = (b.sendWarning299 || opts.contains .warning299) ∧
    (opts.foldl upd b).enforceSunset = (b.enforceSunset || opts.contains .sunsetEnforcement) ∧
    (opts.foldl upd b).hasObserver = (b.hasObserver || opts.contains .observer) := by
  induction opts generalizing b with
  | nil => simp
  | cons o rest ih =>
    rw [List.foldl_cons]
    obtain ⟨h1, h2, h3, h4⟩ := ih (upd b o)
    rw [h1, h2, h3, h4]
    cases o with
    | det d => cases d <;> simp [upd, isCustom]
    | _ => simp [upd]

end Rivaas.Version
