import Rivaas.Lemmas.RadixServe
/-
From the registration script to the method trees: `build` registers the oracle's routes one by one.
-/
namespace Rivaas.RadixL
open Rivaas.Route Rivaas.Radix Rivaas.Match Rivaas.MatchL

theorem concatPrefix_eq (a b : Bytes) : concatPrefix a b = a ++ b := by
  unfold concatPrefix
  by_cases ha : a.length = 0
  · have : a = [] := List.eq_nil_of_length_eq_zero ha
    simp [this]
  · by_cases hb : b.length = 0
    · have : b = [] := List.eq_nil_of_length_eq_zero hb
      simp [ha, this]
    · simp [ha, hb]

/-- **Registration through groups is registration of the concatenated path** (`Group.Group` and
`Group.addRoute` only concatenate). -/
theorem flatten_groups_sub (g : Reg) :
    concatPrefix (g.groups.foldl concatPrefix []) g.path = g.groups.foldr (· ++ ·) g.path := by
  rw [concatPrefix_eq]
  have : ∀ (l : List Bytes) (acc : Bytes), l.foldl concatPrefix acc ++ g.path = acc ++ l.foldr (· ++ ·) g.path := by
    intro l
    induction l with
    | nil => intro acc; rfl
    | cons a rest ih =>
      intro acc
      simp only [List.foldl_cons, List.foldr_cons, concatPrefix_eq, ih, List.append_assoc]
  simpa using this g.groups []

theorem trimSuffixSlash_eq (s : Bytes) : trimSuffixSlash s = if s.getLast? = some '/' then s.dropLast else s := by
  unfold trimSuffixSlash
  rw [← List.head?_reverse]
  cases hr : s.reverse with
  | nil => simp
  | cons c r =>
    have hs : s = r.reverse ++ [c] := by
      have := congrArg List.reverse hr
      simpa using this
    by_cases hc : c = '/'
    · subst hc
      simp [hs]
    · have : ¬ (some c = some '/') := by simpa using hc
      simp only [List.head?_cons, this, if_false]
      split
      · rename_i r' heq
        injection heq with h1 _
        exact absurd h1 hc
      · rfl

/-- **Registration through groups and through Mount is registration of the text the oracle reads**
(`Group.Group` / `Group.addRoute` only concatenate; `Mount` / `mountRoute` normalise the prefix and put it in
front, `/` standing for the prefix itself). -/
theorem flatten_groups (g : Reg) : fullPathOf g = regText g := by
  unfold fullPathOf regText
  simp only [flatten_groups_sub]
  cases g.mount with
  | none => rfl
  | some pre =>
    simp only [mountPath, trimSuffixSlash_eq]
    have hh : ∀ p : Bytes, (p = [] ∨ p.head? ≠ some '/') ↔ ¬ (p.head? = some '/') := by
      intro p
      constructor
      · rintro (h | h)
        · subst h; simp
        · exact h
      · intro h; exact Or.inr h
    generalize (if pre.getLast? = some '/' then pre.dropLast else pre) = q
    by_cases h1 : q.head? = some '/'
    · have hq : q ≠ [] := by intro e; rw [e] at h1; simp at h1
      simp [h1, hq]
    · simp [h1]

/-- registration of one oracle route in the model's router -/
def registerR (r0 : Router) (r : Route) : Router :=
  { r0 with trees := setTree r.method (addRouteOf ((treeOf r0 r.method).getD Tree.empty) r) r0.trees }

theorem buildFrom_eq (script : List Reg) : ∀ (i : Nat) (R : List Route), specRoutesFrom i script = some R →
    ∀ r0 : Router, buildFrom false r0 i script = R.foldl registerR r0 := by
  induction script with
  | nil =>
    intro i R h r0
    simp only [specRoutesFrom, Option.some.injEq] at h
    subst h; rfl
  | cons g gs ih =>
    intro i R h r0
    simp only [specRoutesFrom] at h
    cases hp : parsePattern (regText g) with
    | none => simp [hp] at h
    | some p =>
      cases hr : specRoutesFrom (i + 1) gs with
      | none => simp [hp, hr] at h
      | some rest =>
        simp only [hp, hr, Option.some.injEq] at h
        subst h
        simp only [buildFrom, List.foldl_cons]
        rw [ih (i + 1) rest hr]
        congr 1
        simp only [register, registerR, addRouteOf, flatten_groups]

def getT (trees : List (Bytes × Tree)) (m : Bytes) : Option Tree := (trees.find? (·.1 = m)).map (·.2)

theorem getT_setTree (m m' : Bytes) (t : Tree) (trees : List (Bytes × Tree)) :
    getT (setTree m' t trees) m = if m = m' then some t else getT trees m := by
  induction trees with
  | nil =>
    by_cases h : m = m'
    · subst h; simp [setTree, getT]
    · have : ¬ m' = m := fun e => h e.symm
      simp [setTree, getT, h, this]
  | cons a rest ih =>
    obtain ⟨k, v⟩ := a
    unfold getT at ih ⊢
    simp only [setTree]
    by_cases hk : k = m'
    · subst hk
      by_cases h : m = k
      · subst h; simp
      · have : ¬ k = m := fun e => h e.symm
        simp [h, this]
    · by_cases h : m = m'
      · subst h
        simp only [hk, if_false, List.find?_cons, decide_eq_true_eq, if_true]
        simp only [hk, decide_false, if_true] at ih ⊢
        simpa using ih
      · simp only [hk, if_false, List.find?_cons, h]
        by_cases hkm : k = m
        · simp [hkm]
        · simp only [hkm, decide_false]
          simpa [h] using ih

theorem treeOf_eq (r : Router) (m : Bytes) (hm : m ∈ stdMethods) : treeOf r m = getT r.trees m := by
  simp [treeOf, hm, getT]

theorem treeOf_fold (R : List Route) (m : Bytes) (hm : m ∈ stdMethods) :
    ∀ r0 : Router, treeOf (R.foldl registerR r0) m =
      if R.filter (·.method = m) = [] then treeOf r0 m
      else some ((R.filter (·.method = m)).foldl addRouteOf ((treeOf r0 m).getD Tree.empty)) := by
  induction R with
  | nil => intro r0; simp
  | cons r rest ih =>
    intro r0
    simp only [List.foldl_cons]
    rw [ih (registerR r0 r)]
    have hstep : treeOf (registerR r0 r) m =
        if m = r.method then some (addRouteOf ((treeOf r0 r.method).getD Tree.empty) r) else treeOf r0 m := by
      rw [treeOf_eq _ _ hm, treeOf_eq _ _ hm]
      simp only [registerR]
      rw [getT_setTree]
    rw [hstep]
    by_cases hrm : r.method = m
    · subst hrm
      simp only [if_true, List.filter_cons, decide_true, if_true, Option.getD_some, List.foldl_cons]
      by_cases hre : rest.filter (·.method = r.method) = []
      · simp [hre]
      · simp [hre]
    · have hmr : ¬ m = r.method := fun e => hrm e.symm
      simp only [hmr, if_false, List.filter_cons, hrm, decide_false, Bool.false_eq_true]

theorem noRoute_fold (R : List Route) (r0 : Router) : (R.foldl registerR r0).noRoute = r0.noRoute := by
  induction R generalizing r0 with
  | nil => rfl
  | cons r rest ih => simp only [List.foldl_cons, ih]; rfl

/-- the method trees of the router the model builds from a script of the vocabulary -/
theorem treeOf_build (noRoute : Bool) (script : List Reg) (R : List Route) (hR : specRoutes script = some R)
    (m : Bytes) (hm : m ∈ stdMethods) :
    treeOf (build noRoute script) m =
      if R.filter (·.method = m) = [] then none else some (treeFor R m) := by
  unfold build
  rw [buildFrom_eq script 0 R hR, treeOf_fold R m hm]
  have : treeOf (⟨[], noRoute⟩ : Router) m = none := by simp [treeOf, hm]
  rw [this]
  rfl

end Rivaas.RadixL
