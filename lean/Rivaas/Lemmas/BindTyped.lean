import Rivaas.Model.Bind
import Rivaas.Lemmas.BindPath
import Rivaas.Lemmas.BindFlatten
import Rivaas.Lemmas.BindRef
import Rivaas.Lemmas.BindMap
/-
C04: binding preserves the type of the destination — what a bind returns is again a well-typed value
of the struct type (so it can be the destination of the next source of a multi-source bind).
-/
set_option linter.unusedSimpArgs false
set_option linter.unusedVariables false
namespace Rivaas.Bind

variable (P : Params) (cfg : Cfg) (tag : Tag)

/-- the treatment of nested structs returns well-typed struct values -/
def NestTyped (nest : Nest) : Prop :=
  ∀ (nfs : List Fld) (ivs : List Val) (g : Getter) (d : Nat) (v : Val), wts nfs ivs = true →
    Spec.inGrammarFs nfs = true → nest nfs (.struct ivs) g d = .ok v → wt (.struct nfs) v = true

theorem lemma_convTy_prim (c : Cfg) (t : Ty) (s : Bytes) (v : Val) (h : convTy P c t s = some v) : wt t v = true := by
  cases t with
  | prim p => simp [wt]
  | _ => simp [convTy] at h

theorem lemma_setSlice_wt (ty : Ty) (cur : Val) (vs : List Bytes) (nv : Val) (hw : wt ty cur = true)
    (h : setSlice P cfg ty cur vs = .ok nv) : wt ty nv = true := by
  unfold setSlice at h
  simp only at h
  repeat' split at h
  all_goals first
    | (simp at h; done)
    | (simp only [Except.ok.injEq] at h; subst h; first | exact hw | simp [wt])

theorem lemma_setMapCore_shape (p : Prim) (isPtr : Bool) (m0 : List (Bytes × Val)) (E : List (Bytes × Bytes)) (has : Bool)
    (jv : Bytes) (nv : Val) (h : setMapCore P cfg p isPtr m0 E has jv = .ok nv) : ∃ m, nv = mapWrap isPtr m := by
  unfold setMapCore at h
  repeat' split at h
  all_goals first
    | (simp at h; done)
    | (simp only [Except.ok.injEq] at h; exact ⟨_, h.symm⟩)

/-- a map field of the grammar stays a map (or a pointer to one) -/
theorem lemma_setMap_wt (ty : Ty) (hg : Spec.leafTy ty = true) (hm : isMapTy ty = true) (cur : Val) (g : Getter)
    (name : Bytes) (nv : Val) (h : setMap P cfg ty cur g name = .ok nv) : wt ty nv = true := by
  cases ty with
  | map v => simp [wt]
  | ptr t =>
    cases t with
    | map v =>
      cases v with
      | prim p =>
        rw [lemma_setMap_core P cfg p true cur g name (.ptr (.map (.prim p))) (by simp)] at h
        obtain ⟨m, hm'⟩ := lemma_setMapCore_shape P cfg p true _ _ _ _ nv h
        subst hm'
        simp [mapWrap, wt]
      | _ => simp [Spec.leafTy] at hg
    | _ => simp [isMapTy] at hm
  | _ => simp [isMapTy] at hm

/-- the facts about a field table entry that typing needs -/
structure InfoTyped (f : FieldInfo) : Prop where
  td : ∀ d, f.typedDefault = some d → wt f.ty d = true

theorem lemma_action_wt (nest : Nest) (hn : NestTyped nest) (g : Getter) (d : Nat) (f : FieldInfo) (hf : InfoTyped f)
    (hgr : isMapTy f.ty = true → Spec.leafTy f.ty = true)
    (hgs : isStructTy f.ty = true → Spec.inGrammarFs (structTyOf f.ty) = true) (cur nv : Val) (hw : wt f.ty cur = true) (h : fieldAction P cfg nest g d f cur = .inl nv) : wt f.ty nv = true := by
  unfold fieldAction at h
  by_cases hm : isMapTy f.ty = true
  · simp only [hm, if_true] at h
    cases hr : setMap P cfg f.ty cur g f.tagName with
    | error e => simp [hr] at h
    | ok v =>
      simp only [hr, Sum.inl.injEq] at h
      subst h
      exact lemma_setMap_wt P cfg f.ty (hgr hm) hm cur g f.tagName _ hr
  · have hm' : isMapTy f.ty = false := by simpa using hm
    simp only [hm', Bool.false_eq_true, if_false] at h
    by_cases hst : isStructTy f.ty = true
    · simp only [hst, if_true] at h
      split at h
      · simp at h
      · -- nested struct: the value the nested bind starts from is well typed
        have hinner : ∃ ivs, innerOf (structTyOf f.ty) cur = .struct ivs ∧ wts (structTyOf f.ty) ivs = true ∧
            (∀ v, wt (.struct (structTyOf f.ty)) v = true → wt f.ty (rewrap f.ty v) = true) := by
          cases hty : f.ty with
          | struct nfs =>
            rw [hty] at hw
            cases cur with
            | struct cs => exact ⟨cs, rfl, by simpa [wt, structTyOf] using hw, fun v hv => by simpa [rewrap, structTyOf] using hv⟩
            | _ => simp [wt] at hw
          | ptr t =>
            cases t with
            | struct nfs =>
              rw [hty] at hw
              cases cur with
              | nil =>
                exact ⟨zeroFs nfs, by simp [innerOf, structTyOf, zero], by simpa [structTyOf] using lemma_wts_zero nfs,
                  fun v hv => by simpa [rewrap, structTyOf, wt] using hv⟩
              | ptr y =>
                cases y with
                | struct cs =>
                  exact ⟨cs, rfl, by simpa [wt, structTyOf] using hw, fun v hv => by simpa [rewrap, structTyOf, wt] using hv⟩
                | _ => simp [wt] at hw
              | _ => simp [wt] at hw
            | _ => simp [hty, isStructTy, structFields?] at hst
          | _ => simp [hty, isStructTy, structFields?] at hst
        obtain ⟨ivs, hi, hwi, hwrap⟩ := hinner
        rw [hi] at h
        cases hr : nest (structTyOf f.ty) (.struct ivs) (g.push f.tagName) (d + 1) with
        | ok v =>
          simp only [hr, Sum.inl.injEq] at h
          subst h
          exact hwrap v (hn _ ivs _ _ v hwi (hgs hst) hr)
        | err e => simp [hr] at h
        | panic => simp [hr] at h
    · have hst' : isStructTy f.ty = false := by simpa using hst
      simp only [hst', Bool.false_eq_true, if_false] at h
      cases hlf : lookupField g f with
      | mk key rest =>
        cases rest with
        | mk value has =>
          simp only [hlf] at h
          split at h
          · rename_i dv hdv
            simp only [Sum.inl.injEq] at h
            subst h
            cases has with
            | true => simp at hdv
            | false => simp only [Bool.false_eq_true, if_false] at hdv; exact hf.td _ hdv
          · split at h
            · cases hr : setSlice P cfg f.ty cur (g.getAll key) with
              | error e => simp [hr] at h
              | ok v =>
                simp only [hr, Sum.inl.injEq] at h
                subst h
                exact lemma_setSlice_wt P cfg f.ty cur _ _ hw hr
            · cases hr : setField P cfg f.ty cur (if has = true then value else f.dflt) with
              | none => simp [hr] at h
              | some v =>
                simp only [hr, Sum.inl.injEq] at h
                subst h
                have key : ∀ (t : Ty) (val : Bytes) (w : Val), wt t cur = true → setField P cfg t cur val = some w →
                    wt t w = true := by
                  intro t val w hwt hsf
                  cases t with
                  | ptr t' =>
                    simp only [setField] at hsf
                    by_cases hv : (val == []) = true
                    · simp only [hv, if_true, Option.some.injEq] at hsf; subst hsf; exact hwt
                    · simp only [hv, Bool.false_eq_true, if_false] at hsf
                      cases hc : convTy P cfg t' val with
                      | none => simp [hc] at hsf
                      | some x =>
                        simp only [hc, Option.map_some, Option.some.injEq] at hsf
                        subst hsf
                        simpa [wt] using lemma_convTy_prim P cfg t' _ x hc
                  | prim p => simp [wt]
                  | slice e => simp [wt]
                  | map e => simp [wt]
                  | struct fs => simp [setField, convTy] at hsf
                exact key f.ty _ v hw hr


theorem lemma_mkInfo_typed (idx : List Nat) (h : FieldHdr) (t : Ty) (f : FieldInfo)
    (hm : mkInfo P tag idx h t = some f) : InfoTyped f ∧ f.ty = t := by
  unfold mkInfo at hm
  simp only at hm
  split at hm
  · simp at hm
  · split at hm
    · simp at hm
    · simp only [Option.some.injEq] at hm
      subst hm
      refine ⟨⟨?_⟩, rfl⟩
      intro d hd
      simp only at hd
      split at hd
      · exact lemma_convTy_prim P Cfg.default t _ d hd
      · simp at hd

theorem lemma_refLeaf_wt (nest : Nest) (hn : NestTyped nest) (g : Getter) (d : Nat) (h : FieldHdr) (t : Ty) (v v' : Val)
    (hw : wt t v = true) (hg : Spec.inGrammar t = true) (hr : refLeaf P cfg nest tag g d h t v = .inl v') :
    wt t v' = true := by
  unfold refLeaf at hr
  cases hm : mkInfo P tag [] h t with
  | none => simp only [hm, Sum.inl.injEq] at hr; subst hr; exact hw
  | some f =>
    obtain ⟨hf, hty⟩ := lemma_mkInfo_typed P tag [] h t f hm
    simp only [hm] at hr
    split at hr
    · simp only [Sum.inl.injEq] at hr; subst hr; exact hw
    · rw [← hty] at hw ⊢
      refine lemma_action_wt P cfg nest hn g d f hf ?_ ?_ v v' hw hr
      · intro hmp
        rw [hty] at hmp ⊢
        cases t with
        | map e => simpa [Spec.inGrammar] using hg
        | ptr e => cases e <;> simp [isMapTy] at hmp <;> simpa [Spec.inGrammar] using hg
        | _ => simp [isMapTy] at hmp
      · intro hst
        rw [hty] at hst ⊢
        cases t with
        | struct fs => simpa [Spec.inGrammar, structTyOf] using hg
        | ptr e => cases e <;> simp [isStructTy, structFields?] at hst <;> simpa [Spec.inGrammar, structTyOf] using hg
        | _ => simp [isStructTy, structFields?] at hst

mutual
theorem lemma_refFld_wt (nest : Nest) (hn : NestTyped nest) (g : Getter) (d : Nat) (h : FieldHdr) :
    ∀ (t : Ty) (v v' : Val), wt t v = true → Spec.inGrammar t = true →
      refFld P cfg nest tag g d h t v = .inl v' → wt t v' = true
  | .struct sub, v, v', hw, hg, hr => by
    unfold refFld at hr
    split at hr
    · simp only [Sum.inl.injEq] at hr; subst hr; exact hw
    · split at hr
      · cases v with
        | struct cs =>
          simp only at hr
          cases hrs : refFs P cfg nest tag g d sub cs with
          | inr o => simp [hrs] at hr
          | inl cs' =>
            simp only [hrs, Sum.inl.injEq] at hr
            subst hr
            simpa [wt] using lemma_refFs_wt nest hn g d sub cs cs' (by simpa [wt] using hw) (by simpa [Spec.inGrammar] using hg) hrs
        | _ => simp [wt] at hw
      · exact lemma_refLeaf_wt P cfg tag nest hn g d h _ v v' hw hg hr
  | .ptr (.struct sub), v, v', hw, hg, hr => by
    unfold refFld at hr
    split at hr
    · simp only [Sum.inl.injEq] at hr; subst hr; exact hw
    · split at hr
      · cases v with
        | ptr y =>
          cases y with
          | struct cs =>
            simp only at hr
            cases hrs : refFs P cfg nest tag g d sub cs with
            | inr o => simp [hrs] at hr
            | inl cs' =>
              simp only [hrs, Sum.inl.injEq] at hr
              subst hr
              simpa [wt] using lemma_refFs_wt nest hn g d sub cs cs' (by simpa [wt] using hw) (by simpa [Spec.inGrammar] using hg) hrs
          | _ => simp [wt] at hw
        | nil =>
          simp only at hr
          split at hr
          · cases hrs : refFs P cfg nest tag g d sub (zeroFs sub) with
            | inr o => simp [hrs] at hr
            | inl cs' =>
              simp only [hrs, Sum.inl.injEq] at hr
              subst hr
              simpa [wt] using lemma_refFs_wt nest hn g d sub _ cs' (lemma_wts_zero sub) (by simpa [Spec.inGrammar] using hg) hrs
          · simp only [Sum.inl.injEq] at hr; subst hr; simp [wt]
        | _ => simp [wt] at hw
      · exact lemma_refLeaf_wt P cfg tag nest hn g d h _ v v' hw hg hr
  | .prim p, v, v', hw, hg, hr => by simp [wt]
  | .slice e, v, v', hw, hg, hr => by simp [wt]
  | .map e, v, v', hw, hg, hr => by simp [wt]
  | .ptr (.prim p), v, v', hw, hg, hr => by
    simp only [refFld] at hr
    split at hr
    · simp only [Sum.inl.injEq] at hr; subst hr; exact hw
    · exact lemma_refLeaf_wt P cfg tag nest hn g d h _ v v' hw hg hr
  | .ptr (.ptr e), v, v', hw, hg, hr => by simp [Spec.inGrammar, Spec.leafTy] at hg
  | .ptr (.slice e), v, v', hw, hg, hr => by
    simp only [refFld] at hr
    split at hr
    · simp only [Sum.inl.injEq] at hr; subst hr; exact hw
    · exact lemma_refLeaf_wt P cfg tag nest hn g d h _ v v' hw hg hr
  | .ptr (.map e), v, v', hw, hg, hr => by
    simp only [refFld] at hr
    split at hr
    · simp only [Sum.inl.injEq] at hr; subst hr; exact hw
    · exact lemma_refLeaf_wt P cfg tag nest hn g d h _ v v' hw hg hr
theorem lemma_refFs_wt (nest : Nest) (hn : NestTyped nest) (g : Getter) (d : Nat) :
    ∀ (fs : List Fld) (vs vs' : List Val), wts fs vs = true → Spec.inGrammarFs fs = true →
      refFs P cfg nest tag g d fs vs = .inl vs' → wts fs vs' = true
  | [], vs, vs', hw, _, hr => by
    cases vs with
    | nil => simp only [refFs, Sum.inl.injEq] at hr; subst hr; simp [wts]
    | cons _ _ => simp [wts] at hw
  | (h, t) :: rest, [], vs', hw, _, hr => by simp [wts] at hw
  | (h, t) :: rest, v :: vs, vs', hw, hg, hr => by
    simp only [wts, Bool.and_eq_true] at hw
    simp only [Spec.inGrammarFs, Bool.and_eq_true] at hg
    simp only [refFs] at hr
    cases hf : refFld P cfg nest tag g d h t v with
    | inr o => simp [hf] at hr
    | inl v' =>
      simp only [hf] at hr
      cases hrs : refFs P cfg nest tag g d rest vs with
      | inr o => simp [hrs] at hr
      | inl vs'' =>
        simp only [hrs, Sum.inl.injEq] at hr
        subst hr
        simp only [wts, Bool.and_eq_true]
        exact ⟨lemma_refFld_wt nest hn g d h t v v' hw.1 hg.1 hf, lemma_refFs_wt nest hn g d rest vs vs'' hw.2 hg.2 hrs⟩
end

/-- bindFieldsWithDepth returns a well-typed value of the struct type it was given -/
theorem lemma_bindAt_typed : ∀ n : Nat, NestTyped (bindAt P cfg tag n)
  | 0 => by
    intro nfs ivs g d v hw hg hr
    have hn : NestTyped (fun _ _ _ _ => Outcome.err Err.depth) := by
      intro _ _ _ _ _ _ _ h; cases h
    simp only [bindAt] at hr
    rw [lemma_loop_eq_ref P cfg _ tag g d nfs ivs hw] at hr
    cases hrs : refFs P cfg (fun _ _ _ _ => Outcome.err Err.depth) tag g d nfs ivs with
    | inr o => cases o <;> simp [hrs, refOut, Stop.out] at hr
    | inl rvs =>
      simp only [hrs, refOut, List.nil_append, Outcome.ok.injEq] at hr
      subst hr
      simpa [wt] using lemma_refFs_wt P cfg tag _ hn g d nfs ivs rvs hw hg hrs
  | n + 1 => by
    intro nfs ivs g d v hw hg hr
    have hn := lemma_bindAt_typed n
    simp only [bindAt] at hr
    rw [lemma_loop_eq_ref P cfg _ tag g d nfs ivs hw] at hr
    cases hrs : refFs P cfg (bindAt P cfg tag n) tag g d nfs ivs with
    | inr o => cases o <;> simp [hrs, refOut, Stop.out] at hr
    | inl rvs =>
      simp only [hrs, refOut, List.nil_append, Outcome.ok.injEq] at hr
      subst hr
      simpa [wt] using lemma_refFs_wt P cfg tag _ hn g d nfs ivs rvs hw hg hrs

end Rivaas.Bind
