import Rivaas.Model.ConfigEnv
import Rivaas.Lemmas.ConfigMerge
/-
C14 — lemmas about the nesting loop of the environment codec (`insertPath`) and `getPath`.
-/
namespace Rivaas.Config

theorem lookup_put_self (m : Kvs) (k : Bytes) (v : CVal) : lookup k (put m k v) = some v := by
  induction m with
  | nil => simp [put, lookup]
  | cons kv rest ih =>
    obtain ⟨k', v'⟩ := kv
    by_cases h : k' = k
    · simp [put, lookup, h]
    · simp [put, lookup, h, ih]

theorem lookup_put_other (m : Kvs) (k k2 : Bytes) (v : CVal) (hne : k2 ≠ k) :
    lookup k2 (put m k v) = lookup k2 m := by
  induction m with
  | nil => simp [put, lookup, Ne.symm hne]
  | cons kv rest ih =>
    obtain ⟨k', v'⟩ := kv
    by_cases h : k' = k
    · subst h; simp [put, lookup, Ne.symm hne]
    · by_cases h2 : k' = k2
      · subst h2; simp [put, lookup, h]
      · simp [put, lookup, h, h2, ih]

/-- what was assigned last at a path is found there -/
theorem getPath_insertPath_self (m : Kvs) (p : List Bytes) (hp : p ≠ []) (v : CVal) :
    getPath (insertPath m p v) p = some v := by
  induction p generalizing m with
  | nil => exact absurd rfl hp
  | cons k ks ih =>
    cases ks with
    | nil => simp [insertPath, getPath, lookup_put_self]
    | cons k2 rest =>
      simp only [insertPath]
      split <;> simp only [getPath, lookup_put_self] <;> exact ih _ (by simp)

/-- an assignment at a path that is neither a prefix nor an extension of `p` leaves `p` alone -/
theorem getPath_insertPath_other (m : Kvs) (q p : List Bytes) (hq : q ≠ []) (hp : p ≠ [])
    (h1 : ¬ q <+: p) (h2 : ¬ p <+: q) (w : CVal) :
    getPath (insertPath m q w) p = getPath m p := by
  induction q generalizing m p with
  | nil => exact absurd rfl hq
  | cons k ks ih =>
    cases p with
    | nil => exact absurd rfl hp
    | cons k' ps =>
      by_cases hk : k' = k
      · subst hk
        have h1' : ¬ ks <+: ps := fun h => h1 (List.cons_prefix_cons.mpr ⟨rfl, h⟩)
        have h2' : ¬ ps <+: ks := fun h => h2 (List.cons_prefix_cons.mpr ⟨rfl, h⟩)
        cases ks with
        | nil => exact absurd List.nil_prefix h1'
        | cons k2 rest =>
          cases ps with
          | nil => exact absurd List.nil_prefix h2'
          | cons p2 prest =>
            simp only [insertPath]
            split
            · rename_i sub hl
              simp only [getPath, lookup_put_self, hl]
              exact ih sub (p2 :: prest) (by simp) (by simp) h1' h2'
            · rename_i hl
              simp only [getPath, lookup_put_self]
              rw [ih [] (p2 :: prest) (by simp) (by simp) h1' h2', getPath_nil_kvs]
      · have hput : ∀ x, lookup k' (put m k x) = lookup k' m := fun x => lookup_put_other m k k' x hk
        cases ks with
        | nil =>
          cases ps with
          | nil => simp [insertPath, getPath, hput]
          | cons p2 prest => simp [insertPath, getPath, hput]
        | cons k2 rest =>
          simp only [insertPath]
          cases ps with
          | nil => split <;> simp [getPath, hput]
          | cons p2 prest => split <;> simp [getPath, hput]

end Rivaas.Config
