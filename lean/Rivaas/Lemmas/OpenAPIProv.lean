import Rivaas.Lemmas.OpenAPIParams
set_option linter.unusedSimpArgs false
/-
C07 — helper lemmas: provenance. Every operation stored in the result of `Build` under (path key,
member) was built by `buildOperation` from the *last* operation handed in with that key and member.
-/
namespace Rivaas.OpenAPI
open List

def BuiltFrom (env : Env) (op : OpIn) (o : Operation IR) : Prop :=
  ∃ st so st' so', buildOperation env op st so = .ok (o, st', so')

theorem setAssoc_keys {β} (k : B) (v : β) : ∀ (l : List (B × β)),
    (setAssoc k v l).map (·.1) = if k ∈ l.map (·.1) then l.map (·.1) else l.map (·.1) ++ [k]
  | [] => by simp [setAssoc]
  | (k', v') :: rest => by
    simp only [setAssoc]
    split
    next hk => simp [hk]
    next hk =>
      simp only [map_cons, mem_cons, setAssoc_keys k v rest]
      have : ¬ k = k' := fun e => hk e.symm
      by_cases hm : k ∈ rest.map (·.1) <;> simp [hm, this]

theorem setAssoc_keys_nodup {β} (k : B) (v : β) (l : List (B × β)) (h : (l.map (·.1)).Nodup) :
    ((setAssoc k v l).map (·.1)).Nodup := by
  rw [setAssoc_keys]
  split
  · exact h
  next hk =>
    rw [nodup_append]
    exact ⟨h, by simp, fun a ha b hb => by simp only [mem_singleton] at hb; subst hb; intro e; subst e; exact hk ha⟩

theorem setAssoc_mem_key {β} (k : B) (v : β) : ∀ (l : List (B × β)), (l.map (·.1)).Nodup → ∀ v', (k, v') ∈ setAssoc k v l → v' = v
  | [], _, v', h => by simp only [setAssoc, mem_singleton, Prod.mk.injEq] at h; exact h.2
  | (k', w) :: rest, hnd, v', h => by
    simp only [map_cons, nodup_cons] at hnd
    simp only [setAssoc] at h
    split at h
    next hk =>
      simp only [mem_cons, Prod.mk.injEq] at h
      rcases h with h | h
      · exact h.2
      · exfalso
        apply hnd.1
        rw [hk]
        exact mem_map.2 ⟨(k, v'), h, rfl⟩
    next hk =>
      simp only [mem_cons, Prod.mk.injEq] at h
      rcases h with h | h
      · exact absurd h.1.symm hk
      · exact setAssoc_mem_key k v rest hnd.2 v' h

theorem setAssoc_mem_other {β} (k : B) (v : β) : ∀ (l : List (B × β)) (x : B × β), x ∈ setAssoc k v l → x.1 ≠ k → x ∈ l
  | [], x, h, hne => by
    simp only [setAssoc, mem_singleton] at h
    subst h
    exact absurd rfl hne
  | (k', w) :: rest, x, h, hne => by
    simp only [setAssoc] at h
    split at h
    · simp only [mem_cons] at h ⊢
      rcases h with h | h
      · subst h; exact absurd rfl hne
      · exact Or.inr h
    · simp only [mem_cons] at h ⊢
      rcases h with h | h
      · exact Or.inl h
      · exact Or.inr (setAssoc_mem_other k v rest x h hne)

/-- where the entries of a finished path item come from -/
theorem buildGroup_prov (env : Env) : ∀ (grp : List OpIn) (item : PathItem IR) (st : Schemas) (so : List B)
    (item' : PathItem IR) (st' : Schemas) (so' : List B),
    (item.map (·.1)).Nodup → buildGroup env grp item st so = .ok (item', st', so') →
    (item'.map (·.1)).Nodup ∧
    ∀ m o, (m, o) ∈ item' →
      (∃ pre op post, grp = pre ++ op :: post ∧ methodMember op.method = some m ∧
          (∀ x ∈ post, methodMember x.method ≠ some m) ∧ BuiltFrom env op o) ∨
      ((m, o) ∈ item ∧ ∀ x ∈ grp, methodMember x.method ≠ some m)
  | [], item, st, so, item', st', so', hnd, h => by
    simp only [buildGroup, Except.ok.injEq, Prod.mk.injEq] at h
    obtain ⟨rfl, rfl, rfl⟩ := h
    exact ⟨hnd, fun m o hmo => Or.inr ⟨hmo, fun x hx => by simp at hx⟩⟩
  | op :: rest, item, st, so, item', st', so', hnd, h => by
    simp only [buildGroup] at h
    split at h
    · cases h
    next r heq =>
      have hbuilt : BuiltFrom env op r.1 := ⟨st, so, r.2.1, r.2.2, by rw [heq]⟩
      cases hm : methodMember op.method with
      | none =>
        simp only [hm] at h
        obtain ⟨n1, p1⟩ := buildGroup_prov env rest item r.2.1 r.2.2 item' st' so' hnd h
        refine ⟨n1, ?_⟩
        intro m o hmo
        rcases p1 m o hmo with ⟨pre, op', post, e, h1, h2, h3⟩ | ⟨h1, h2⟩
        · exact Or.inl ⟨op :: pre, op', post, by rw [e]; rfl, h1, h2, h3⟩
        · refine Or.inr ⟨h1, ?_⟩
          intro x hx
          simp only [mem_cons] at hx
          rcases hx with rfl | hx
          · rw [hm]; simp
          · exact h2 x hx
      | some m0 =>
        simp only [hm] at h
        obtain ⟨n1, p1⟩ := buildGroup_prov env rest (setAssoc m0 r.1 item) r.2.1 r.2.2 item' st' so'
          (setAssoc_keys_nodup m0 r.1 item hnd) h
        refine ⟨n1, ?_⟩
        intro m o hmo
        rcases p1 m o hmo with ⟨pre, op', post, e, h1, h2, h3⟩ | ⟨h1, h2⟩
        · exact Or.inl ⟨op :: pre, op', post, by rw [e]; rfl, h1, h2, h3⟩
        · by_cases hmm : m = m0
          · subst hmm
            have := setAssoc_mem_key m r.1 item hnd o h1
            subst this
            exact Or.inl ⟨[], op, rest, rfl, hm, h2, hbuilt⟩
          · refine Or.inr ⟨setAssoc_mem_other m0 r.1 item (m, o) h1 hmm, ?_⟩
            intro x hx
            simp only [mem_cons] at hx
            rcases hx with rfl | hx
            · rw [hm]; simp only [ne_eq, Option.some.injEq]; exact fun e => hmm e.symm
            · exact h2 x hx

/-- every finished path item is the result of `buildGroup` on its group, started empty -/
theorem buildGroups_prov (env : Env) : ∀ (groups : List (B × List OpIn)) (st : Schemas) (so : List B)
    (paths : List (B × PathItem IR)) (st' : Schemas), buildGroups env groups st so = .ok (paths, st') →
    paths.map (·.1) = groups.map (·.1) ∧
    ∀ p item', (p, item') ∈ paths → ∃ grp, (p, grp) ∈ groups ∧
      ∃ st0 so0 st1 so1, buildGroup env grp [] st0 so0 = .ok (item', st1, so1)
  | [], st, so, paths, st', h => by
    simp only [buildGroups, Except.ok.injEq, Prod.mk.injEq] at h
    obtain ⟨rfl, rfl⟩ := h
    simp
  | (p0, grp0) :: rest, st, so, paths, st', h => by
    simp only [buildGroups] at h
    split at h
    · cases h
    next r heq =>
      split at h
      · cases h
      next rr heq2 =>
        simp only [Except.ok.injEq, Prod.mk.injEq] at h
        obtain ⟨rfl, rfl⟩ := h
        obtain ⟨k1, p1⟩ := buildGroups_prov env rest r.2.1 r.2.2 rr.1 rr.2 (by rw [heq2])
        refine ⟨by simp [k1], ?_⟩
        intro p item' hmem
        simp only [mem_cons, Prod.mk.injEq] at hmem
        rcases hmem with ⟨rfl, rfl⟩ | hmem
        · exact ⟨grp0, mem_cons_self .., st, so, r.2.1, r.2.2, by rw [heq]⟩
        · obtain ⟨grp, hg, hh⟩ := p1 p item' hmem
          exact ⟨grp, mem_cons_of_mem _ hg, hh⟩

/-! ## groupByPath -/

theorem lookup_cons_eq {β} (k : B) (v : β) (rest : List (B × β)) : ((k, v) :: rest).lookup k = some v := by
  simp [List.lookup]

theorem lookup_cons_ne {β} (k k0 : B) (v : β) (rest : List (B × β)) (h : k ≠ k0) :
    ((k0, v) :: rest).lookup k = rest.lookup k := by
  have : (k == k0) = false := by simpa using h
  simp [List.lookup, this]

theorem lookup_setAssoc {β} (k : B) (v : β) : ∀ (l : List (B × β)) (k' : B),
    (setAssoc k v l).lookup k' = if k' = k then some v else l.lookup k'
  | [], k' => by
    simp only [setAssoc]
    by_cases h : k' = k
    · subst h; simp [lookup_cons_eq]
    · rw [lookup_cons_ne _ _ _ _ h]; simp [h, List.lookup]
  | (k0, v0) :: rest, k' => by
    simp only [setAssoc]
    split
    next hk =>
      subst hk
      by_cases h : k' = k0
      · subst h; simp [lookup_cons_eq]
      · simp [h, lookup_cons_ne _ _ _ _ h]
    next hk =>
      by_cases h0 : k' = k0
      · subst h0
        have : ¬ k' = k := fun e => hk e
        simp [this, lookup_cons_eq]
      · rw [lookup_cons_ne _ _ _ _ h0, lookup_cons_ne _ _ _ _ h0, lookup_setAssoc k v rest k']

/-- the group stored under a key is the sub-list of the operations with that converted path, in order -/
theorem groupByPath_lookup : ∀ (ops : List OpIn) (p : B),
    (groupByPath ops).lookup p =
      if (ops.filter fun o => convertPath o.path = p) = [] then none else some (ops.filter fun o => convertPath o.path = p)
  | [], p => by simp [groupByPath, List.lookup]
  | op :: rest, p => by
    simp only [groupByPath]
    have ih := groupByPath_lookup rest
    split
    next grp heq =>
      rw [lookup_setAssoc]
      have h0 := ih (convertPath op.path)
      rw [heq] at h0
      by_cases hp : p = convertPath op.path
      · subst hp
        simp only [if_true, filter_cons, decide_true]
        split at h0
        · cases h0
        · simp only [Option.some.injEq] at h0
          simp [h0]
      · have hne : ¬ convertPath op.path = p := fun e => hp e.symm
        simp only [hp, if_false, filter_cons, hne, decide_false, Bool.false_eq_true]
        exact ih p
    next heq =>
      have h0 := ih (convertPath op.path)
      rw [heq] at h0
      simp only [List.lookup]
      by_cases hp : p = convertPath op.path
      · subst hp
        simp only [beq_self_eq_true, filter_cons, decide_true, if_true]
        split at h0
        next hnil => simp [hnil]
        · cases h0
      · have hne : ¬ convertPath op.path = p := fun e => hp e.symm
        have : (p == convertPath op.path) = false := by simpa using hp
        simp only [this, filter_cons, hne, decide_false, Bool.false_eq_true, if_false]
        exact ih p

theorem lookup_of_mem_nodup {β} : ∀ (l : List (B × β)) (k : B) (v : β), (l.map (·.1)).Nodup → (k, v) ∈ l → l.lookup k = some v
  | [], _, _, _, h => by simp at h
  | (k0, v0) :: rest, k, v, hnd, h => by
    simp only [map_cons, nodup_cons] at hnd
    simp only [mem_cons, Prod.mk.injEq] at h
    simp only [List.lookup]
    rcases h with ⟨rfl, rfl⟩ | h
    · simp
    · have : (k == k0) = false := by
        simp only [beq_eq_false_iff_ne, ne_eq]
        intro e; subst e
        exact hnd.1 (mem_map.2 ⟨(k, v), h, rfl⟩)
      simp only [this]
      exact lookup_of_mem_nodup rest k v hnd.2 h

theorem mem_of_lookup_some {β} : ∀ (l : List (B × β)) (k : B) (v : β), l.lookup k = some v → (k, v) ∈ l
  | [], _, _, h => by simp [List.lookup] at h
  | (k0, v0) :: rest, k, v, h => by
    simp only [List.lookup] at h
    split at h
    next heq =>
      simp only [Option.some.injEq] at h
      subst h
      have : k = k0 := by simpa using heq
      subst this
      exact mem_cons_self ..
    next => exact mem_cons_of_mem _ (mem_of_lookup_some rest k v h)

/-- two decompositions of a list around "the last element satisfying P" coincide -/
theorem last_decomp_unique {α} (P : α → Prop) : ∀ (a1 a2 : List α) (x y : α) (b1 b2 : List α),
    a1 ++ x :: b1 = a2 ++ y :: b2 → P x → P y → (∀ z ∈ b1, ¬ P z) → (∀ z ∈ b2, ¬ P z) → x = y
  | [], [], x, y, b1, b2, h, _, _, _, _ => by simp only [nil_append, cons.injEq] at h; exact h.1
  | [], c :: a2, x, y, b1, b2, h, _, py, n1, _ => by
    simp only [nil_append, cons_append, cons.injEq] at h
    exact absurd py (n1 y (by rw [h.2]; simp))
  | c :: a1, [], x, y, b1, b2, h, px, _, _, n2 => by
    simp only [nil_append, cons_append, cons.injEq] at h
    exact absurd px (n2 x (by rw [← h.2]; simp))
  | c :: a1, d :: a2, x, y, b1, b2, h, px, py, n1, n2 => by
    simp only [cons_append, cons.injEq] at h
    exact last_decomp_unique P a1 a2 x y b1 b2 h.2 px py n1 n2


/-! ## provenance of the operations of `build` -/

theorem build_prov (env : Env) (ops : List OpIn) (paths : List (B × PathItem IR)) (comps : List (B × IR))
    (h : build env ops = .ok (paths, comps)) :
    (paths.map (·.1)).Nodup ∧ (∀ op ∈ ops, convertPath op.path ∈ paths.map (·.1)) ∧
    ∀ p item', (p, item') ∈ paths → (item'.map (·.1)).Nodup ∧ ∀ m o, (m, o) ∈ item' →
      ∃ pre op post, (ops.filter fun x => convertPath x.path = p) = pre ++ op :: post ∧
        methodMember op.method = some m ∧ (∀ x ∈ post, methodMember x.method ≠ some m) ∧ BuiltFrom env op o := by
  simp only [build, buildFromGroups] at h
  split at h
  · cases h
  next r heq =>
    simp only [Except.ok.injEq, Prod.mk.injEq] at h
    obtain ⟨rfl, _⟩ := h
    obtain ⟨hkeys, hprov⟩ := buildGroups_prov env _ [] [] r.1 r.2 (by rw [heq])
    have hperm : (sortByKey (groupByPath ops)).map (·.1) ~ (groupByPath ops).map (·.1) := (sortByKey_perm _).map _
    have hgnd : ((groupByPath ops).map (·.1)).Nodup := by
      -- keys of a map are distinct
      have : ∀ ops : List OpIn, ((groupByPath ops).map (·.1)).Nodup := by
        intro ops
        induction ops with
        | nil => simp [groupByPath]
        | cons op rest ih =>
          simp only [groupByPath]
          split
          next grp hl =>
            rw [setAssoc_keys, if_pos (mem_map.2 ⟨(_, grp), mem_of_lookup_some _ _ _ hl, rfl⟩)]
            exact ih
          next hl =>
            simp only [map_cons, nodup_cons]
            refine ⟨?_, ih⟩
            intro hm
            obtain ⟨e, he, hk⟩ := mem_map.1 hm
            have := lookup_of_mem_nodup _ e.1 e.2 ih he
            rw [hk, hl] at this
            cases this
      exact this ops
    refine ⟨by rw [hkeys]; exact hperm.nodup_iff.2 hgnd, ?_, ?_⟩
    · intro op hop
      rw [hkeys]
      apply hperm.mem_iff.2
      have hl := groupByPath_lookup ops (convertPath op.path)
      have hne : (ops.filter fun o => convertPath o.path = convertPath op.path) ≠ [] := by
        intro e
        have : op ∈ ops.filter fun o => convertPath o.path = convertPath op.path := by simp [hop]
        rw [e] at this
        simp at this
      rw [if_neg hne] at hl
      exact mem_map.2 ⟨_, mem_of_lookup_some _ _ _ hl, rfl⟩
    · intro p item' hmem
      obtain ⟨grp, hg, st0, so0, st1, so1, hb⟩ := hprov p item' hmem
      have hg' : (p, grp) ∈ groupByPath ops := mem_sortByKey.1 hg
      have hl := lookup_of_mem_nodup _ p grp hgnd hg'
      rw [groupByPath_lookup] at hl
      split at hl
      · cases hl
      · simp only [Option.some.injEq] at hl
        obtain ⟨n1, p1⟩ := buildGroup_prov env grp [] st0 so0 item' st1 so1 (by simp) hb
        refine ⟨n1, ?_⟩
        intro m o hmo
        rcases p1 m o hmo with ⟨pre, op, post, e, h1, h2, h3⟩ | ⟨h1, _⟩
        · exact ⟨pre, op, post, by rw [hl, e], h1, h2, h3⟩
        · simp at h1


theorem groupByPath_keys_nodup' : ∀ ops : List OpIn, ((groupByPath ops).map (·.1)).Nodup := by
  intro ops
  induction ops with
  | nil => simp [groupByPath]
  | cons op rest ih =>
    simp only [groupByPath]
    split
    next grp hl =>
      rw [setAssoc_keys, if_pos (mem_map.2 ⟨(_, grp), mem_of_lookup_some _ _ _ hl, rfl⟩)]
      exact ih
    next hl =>
      simp only [map_cons, nodup_cons]
      refine ⟨?_, ih⟩
      intro hm
      obtain ⟨e, he, hk⟩ := mem_map.1 hm
      have := lookup_of_mem_nodup _ e.1 e.2 ih he
      rw [hk, hl] at this
      cases this

/-! ## completeness: every operation with a stored method has its member in the path item -/

theorem mem_keys_setAssoc {β} (k : B) (v : β) (l : List (B × β)) : k ∈ (setAssoc k v l).map (·.1) := by
  rw [setAssoc_keys]
  split
  · assumption
  · simp

theorem keys_sub_setAssoc {β} (k : B) (v : β) (l : List (B × β)) (x : B) (hx : x ∈ l.map (·.1)) :
    x ∈ (setAssoc k v l).map (·.1) := by
  rw [setAssoc_keys]
  split
  · exact hx
  · exact mem_append_left _ hx

theorem buildGroup_members (env : Env) : ∀ (grp : List OpIn) (item : PathItem IR) (st : Schemas) (so : List B)
    (item' : PathItem IR) (st' : Schemas) (so' : List B),
    buildGroup env grp item st so = .ok (item', st', so') →
    (∀ k ∈ item.map (·.1), k ∈ item'.map (·.1)) ∧
    ∀ op ∈ grp, ∀ m, methodMember op.method = some m → m ∈ item'.map (·.1)
  | [], item, st, so, item', st', so', h => by
    simp only [buildGroup, Except.ok.injEq, Prod.mk.injEq] at h
    obtain ⟨rfl, _, _⟩ := h
    exact ⟨fun k hk => hk, by simp⟩
  | op :: rest, item, st, so, item', st', so', h => by
    simp only [buildGroup] at h
    split at h
    · cases h
    next r heq =>
      obtain ⟨k1, m1⟩ := buildGroup_members env rest _ r.2.1 r.2.2 item' st' so' h
      constructor
      · intro k hk
        apply k1
        cases hm : methodMember op.method with
        | none => simpa [hm] using hk
        | some m => simp only [hm]; exact keys_sub_setAssoc _ _ _ _ hk
      · intro op' hop' m hm
        rcases mem_cons.1 hop' with rfl | hr
        · apply k1
          simp only [hm]
          exact mem_keys_setAssoc _ _ _
        · exact m1 op' hr m hm

/-- every operation handed to `build` whose method has a PathItem member is in the path item of its key — the
    operation may have been overwritten by a later one with the same member, but the member is there -/
theorem build_members (env : Env) (ops : List OpIn) (paths : List (B × PathItem IR)) (comps : List (B × IR))
    (h : build env ops = .ok (paths, comps)) (op : OpIn) (hop : op ∈ ops) (m : B)
    (hm : methodMember op.method = some m) (item' : PathItem IR) (hi : (convertPath op.path, item') ∈ paths) :
    m ∈ item'.map (·.1) := by
  simp only [build, buildFromGroups] at h
  split at h
  · cases h
  next r heq =>
    simp only [Except.ok.injEq, Prod.mk.injEq] at h
    obtain ⟨rfl, _⟩ := h
    obtain ⟨_, hprov⟩ := buildGroups_prov env _ [] [] r.1 r.2 (by rw [heq])
    obtain ⟨grp, hg, st0, so0, st1, so1, hb⟩ := hprov _ item' hi
    have hg' : (convertPath op.path, grp) ∈ groupByPath ops := mem_sortByKey.1 hg
    have hgnd : ((groupByPath ops).map (·.1)).Nodup := groupByPath_keys_nodup' ops
    have hl := lookup_of_mem_nodup _ _ grp hgnd hg'
    rw [groupByPath_lookup] at hl
    split at hl
    · cases hl
    · simp only [Option.some.injEq] at hl
      have hin : op ∈ grp := by rw [← hl]; simp [hop]
      exact (buildGroup_members env grp [] st0 so0 item' st1 so1 hb).2 op hin m hm

/-- an operation that survives (the oracle's notion) is followed by no operation with the same key and member -/
theorem survives_decomp : ∀ (ops : List OpIn) (op0 : OpIn), op0 ∈ survives ops →
    ∃ A Bs, ops = A ++ op0 :: Bs ∧
      ∀ x ∈ Bs, ¬ (specPathKey x.path = specPathKey op0.path ∧ specMember x.method = specMember op0.method)
  | [], op0, h => by simp [survives] at h
  | op :: rest, op0, h => by
    simp only [survives] at h
    split at h
    · obtain ⟨A, Bs, e, hb⟩ := survives_decomp rest op0 h
      exact ⟨op :: A, Bs, by rw [e]; rfl, hb⟩
    next hany =>
      simp only [mem_cons] at h
      rcases h with rfl | h
      · refine ⟨[], rest, rfl, ?_⟩
        intro x hx hc
        apply hany
        simp only [any_eq_true, Bool.and_eq_true, beq_iff_eq]
        exact ⟨x, hx, hc.1, hc.2⟩
      · obtain ⟨A, Bs, e, hb⟩ := survives_decomp rest op0 h
        exact ⟨op :: A, Bs, by rw [e]; rfl, hb⟩

theorem survives_sub : ∀ (ops : List OpIn) (op0 : OpIn), op0 ∈ survives ops → op0 ∈ ops := by
  intro ops op0 h
  obtain ⟨A, Bs, e, _⟩ := survives_decomp ops op0 h
  rw [e]; simp

/-- the operation stored under the key and member of a surviving operation was built from it -/
theorem build_prov_survivor (env : Env) (ops : List OpIn) (paths : List (B × PathItem IR)) (comps : List (B × IR))
    (h : build env ops = .ok (paths, comps)) (op0 : OpIn) (hs : op0 ∈ survives ops) (item' : PathItem IR)
    (hi : (specPathKey op0.path, item') ∈ paths) (o : Operation IR) (ho : (specMember op0.method, o) ∈ item') :
    BuiltFrom env op0 o := by
  obtain ⟨_, _, hp⟩ := build_prov env ops paths comps h
  obtain ⟨_, hp2⟩ := hp _ item' hi
  obtain ⟨pre, op, post, e, hm, hpost, hb⟩ := hp2 _ o ho
  obtain ⟨A, Bs, eops, hBs⟩ := survives_decomp ops op0 hs
  have hmem := methodMember_some hm
  have hm0 : methodMember op0.method = some (specMember op0.method) := methodMember_of_spec hmem.2
  have hkey0 : convertPath op0.path = specPathKey op0.path := convertPath_eq_spec _
  have e2 : (ops.filter fun x => convertPath x.path = specPathKey op0.path) =
      (A.filter fun x => convertPath x.path = specPathKey op0.path) ++ op0 ::
        (Bs.filter fun x => convertPath x.path = specPathKey op0.path) := by
    rw [eops, filter_append, filter_cons]
    simp [hkey0]
  have : op = op0 := by
    apply last_decomp_unique (fun x : OpIn => methodMember x.method = some (specMember op0.method)) pre _ op op0 post _
      (e.symm.trans e2) hm hm0
    · intro z hz; exact hpost z hz
    · intro z hz hpz
      simp only [mem_filter, decide_eq_true_eq] at hz
      apply hBs z hz.1
      exact ⟨by rw [← convertPath_eq_spec]; exact hz.2, ((methodMember_some hpz).1).symm⟩
  subst this
  exact hb

end Rivaas.OpenAPI
