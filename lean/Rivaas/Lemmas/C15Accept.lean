import Rivaas.Model.Compress
import Rivaas.Spec.Compress
/-
Helper lemmas for C15, part 6: the implementation's character-level Accept-Encoding reader
(`scanAE` / `parseCoding` / `paramsQ` / `parseQValue`, loops over `strings.Cut`) against the
token-level specification (`splitOnC`, `elemCoding`, `elemRefused`, `listed`).
-/
namespace Rivaas.C15
open Rivaas.Http Rivaas.Compress Rivaas.CompressSpec

theorem lemma_splitOnC_ne_nil (sep : Char) (s : Bytes) : splitOnC sep s ≠ [] := by
  induction s with
  | nil => simp [splitOnC]
  | cons c cs ih =>
    unfold splitOnC
    cases h : splitOnC sep cs with
    | nil => exact absurd h ih
    | cons f fs => simp only; split <;> simp

/-- one step of the model's `strings.Cut` loop is one field of the specification's split -/
theorem lemma_splitOnC_cut (sep : Char) (s : Bytes) :
    splitOnC sep s = (cut sep s).1 :: (if (cut sep s).2.2 then splitOnC sep (cut sep s).2.1 else []) := by
  induction s with
  | nil => simp [splitOnC, cut]
  | cons c cs ih =>
    cases h : splitOnC sep cs with
    | nil => exact absurd h (lemma_splitOnC_ne_nil sep cs)
    | cons f fs =>
      have e1 : splitOnC sep (c :: cs) = if c == sep then [] :: f :: fs else (c :: f) :: fs := by
        rw [splitOnC, h]
      rw [e1]
      by_cases hc : (c == sep) = true
      · simp only [hc, if_true, cut, h]
      · rw [h] at ih
        rw [List.cons.injEq] at ih
        have hc' : (c == sep) = false := by simpa using hc
        simp only [hc', Bool.false_eq_true, if_false, cut]
        rw [ih.1, ih.2]

theorem lemma_cut_fst (sep : Char) (s : Bytes) : (cut sep s).1 = s.takeWhile (· != sep) := by
  induction s with
  | nil => rfl
  | cons c cs ih =>
    by_cases hc : (c == sep) = true
    · have : (c != sep) = false := by simp [bne, hc]
      simp [cut, hc, List.takeWhile_cons, this]
    · have hc' : (c == sep) = false := by simpa using hc
      have : (c != sep) = true := by simp [bne, hc']
      simp [cut, hc', List.takeWhile_cons, this, ih]

theorem lemma_cut_snd (sep : Char) (s : Bytes) :
    (cut sep s).2.1 = (s.dropWhile (· != sep)).drop 1 := by
  induction s with
  | nil => rfl
  | cons c cs ih =>
    by_cases hc : (c == sep) = true
    · have : (c != sep) = false := by simp [bne, hc]
      simp [cut, hc, List.dropWhile_cons, this]
    · have hc' : (c == sep) = false := by simpa using hc
      have : (c != sep) = true := by simp [bne, hc']
      simp [cut, hc', List.dropWhile_cons, this, ih]

theorem lemma_trim_eq (s : Bytes) : trimTS s = trimOWS s := rfl

theorem lemma_lower_eq (s : Bytes) : lowerA s = s.map CompressSpec.lowerC := rfl

theorem lemma_cut_notfound (sep : Char) (s : Bytes) (h : (cut sep s).2.2 = false) : (cut sep s).2.1 = [] := by
  induction s with
  | nil => rfl
  | cons c cs ih =>
    unfold cut at h ⊢
    by_cases hc : (c == sep) = true
    · simp [hc] at h
    · simp only [hc] at h ⊢
      exact ih h

/-- a syntactically valid zero weight is read as 0 by the implementation's parser -/
theorem lemma_parseQ_zero (v : Bytes) (h : isZeroQ v = true) : parseQValue v = 0 := by
  unfold isZeroQ at h
  split at h
  · decide
  · rename_i ds
    simp only [Bool.and_eq_true, decide_eq_true_eq, List.all_eq_true, beq_iff_eq] at h
    obtain ⟨hl, hz⟩ := h
    match ds, hl, hz with
    | [], _, _ => decide
    | [a], _, hz =>
      have := hz a (by simp); subst this; decide
    | [a, b], _, hz =>
      have h1 := hz a (by simp); have h2 := hz b (by simp); subst h1; subst h2; decide
    | [a, b, c], _, hz =>
      have h1 := hz a (by simp); have h2 := hz b (by simp); have h3 := hz c (by simp)
      subst h1; subst h2; subst h3; decide
    | _ :: _ :: _ :: _ :: _, hl, _ => simp at hl
  · simp at h

/-- how the implementation reads one `name=value` parameter -/
def mIsQ (p : Bytes) : Bool := (cut '=' p).2.2 && eqFold (trimTS (cut '=' p).1) ['q']
def mVal (p : Bytes) : Bytes := trimTS (cut '=' p).2.1

/-- how the specification reads it -/
def sParam (p : Bytes) : Bytes × Bytes :=
  ((trimOWS (p.takeWhile (· != '='))).map CompressSpec.lowerC, trimOWS ((p.dropWhile (· != '=')).drop 1))

theorem lemma_mVal (p : Bytes) : mVal p = (sParam p).2 := by
  unfold mVal sParam
  rw [lemma_cut_snd]; rfl

theorem lemma_mIsQ (p : Bytes) : mIsQ p = ((cut '=' p).2.2 && ((sParam p).1 == ['q'])) := by
  unfold mIsQ sParam eqFold
  rw [lemma_cut_fst]
  rfl

def qOf (ps : List Bytes) (q : Nat) : Nat :=
  ps.foldl (fun q p => if mIsQ p then parseQValue (mVal p) else q) q

theorem lemma_mIsQ_nil : mIsQ [] = false := by decide

theorem lemma_paramsQ_qOf (params : Bytes) (q : Nat) :
    paramsQ params q = qOf (splitOnC ';' params) q := by
  fun_induction paramsQ params q with
  | case1 q => simp [splitOnC, qOf, lemma_mIsQ_nil]
  | case2 params q hne r nv q' ih =>
    rw [lemma_splitOnC_cut ';' params, ih]
    show qOf (splitOnC ';' r.2.1) q' = qOf (r.1 :: (if r.2.2 then splitOnC ';' r.2.1 else [])) q
    by_cases hf : r.2.2 = true
    · simp only [hf, if_true, qOf, List.foldl_cons]
      rfl
    · have hf' : r.2.2 = false := by simpa using hf
      have he : r.2.1 = [] := lemma_cut_notfound ';' params hf'
      simp only [hf', Bool.false_eq_true, if_false, qOf, List.foldl_cons, List.foldl_nil, he, splitOnC,
        lemma_mIsQ_nil]
      rfl

theorem lemma_sParam_noeq (p : Bytes) (h : (cut '=' p).2.2 = false) : (sParam p).2 = [] := by
  unfold sParam
  rw [← lemma_cut_snd, lemma_cut_notfound '=' p h]
  rfl

/-- when every weight the specification sees is a valid zero, the implementation's loop ends on 0
    as soon as there is one -/
theorem lemma_qOf_refused (ps : List Bytes) (q : Nat)
    (hall : ∀ p ∈ ps, (sParam p).1 == ['q'] → isZeroQ (sParam p).2 = true) :
    qOf ps q = if ps.any (fun p => (sParam p).1 == ['q']) then 0 else q := by
  induction ps generalizing q with
  | nil => simp [qOf]
  | cons p ps ih =>
    have ih' := fun q => ih q (fun p' hp' => hall p' (List.mem_cons_of_mem _ hp'))
    simp only [qOf, List.foldl_cons, List.any_cons] at ih' ⊢
    by_cases hq : ((sParam p).1 == ['q']) = true
    · have hz := hall p (List.mem_cons_self ..) hq
      have hfound : (cut '=' p).2.2 = true := by
        by_cases hf : (cut '=' p).2.2 = true
        · exact hf
        · have hf' : (cut '=' p).2.2 = false := by simpa using hf
          rw [lemma_sParam_noeq p hf'] at hz
          simp [isZeroQ] at hz
      have hm : mIsQ p = true := by rw [lemma_mIsQ, hfound, hq]; rfl
      have hv : parseQValue (mVal p) = 0 := by rw [lemma_mVal]; exact lemma_parseQ_zero _ hz
      simp only [hm, if_true, hv, hq, Bool.true_or]
      have := ih' 0
      unfold qOf at this
      rw [this]
      split <;> rfl
    · have hq' : ((sParam p).1 == ['q']) = false := by simpa using hq
      have hm : mIsQ p = false := by rw [lemma_mIsQ, hq']; simp
      simp only [hm, Bool.false_eq_true, if_false, hq', Bool.false_or]
      have := ih' q
      unfold qOf at this
      exact this

/-- an element the specification counts as refusing its coding is read with quality 0 -/
theorem lemma_refused_q0 (el : Bytes) (h : elemRefused el = true) : (parseCoding el).2 = 0 := by
  unfold parseCoding
  simp only
  rw [lemma_paramsQ_qOf]
  unfold elemRefused elemParams at h
  rw [lemma_splitOnC_cut ';' el] at h
  simp only [List.drop_succ_cons, List.drop_zero] at h
  by_cases hf : (cut ';' el).2.2 = true
  · simp only [hf, if_true] at h
    have hmap : ∀ p, ((trimOWS (p.takeWhile (· != '='))).map CompressSpec.lowerC,
        trimOWS ((p.dropWhile (· != '=')).drop 1)) = sParam p := fun _ => rfl
    simp only [Bool.and_eq_true, Bool.not_eq_true', List.isEmpty_eq_false_iff, List.all_eq_true,
      List.mem_filter, List.mem_map] at h
    obtain ⟨hne, hall⟩ := h
    have hall' : ∀ p ∈ splitOnC ';' (cut ';' el).2.1, (sParam p).1 == ['q'] → isZeroQ (sParam p).2 = true := by
      intro p hp hq
      exact hall (sParam p) ⟨⟨p, hp, rfl⟩, hq⟩
    rw [lemma_qOf_refused _ _ hall']
    have hany : (splitOnC ';' (cut ';' el).2.1).any (fun p => (sParam p).1 == ['q']) = true := by
      obtain ⟨x, hx⟩ := List.exists_mem_of_ne_nil _ hne
      simp only [List.mem_filter, List.mem_map] at hx
      obtain ⟨⟨p, hp, rfl⟩, hq⟩ := hx
      exact List.any_eq_true.mpr ⟨p, hp, hq⟩
    simp [hany]
  · have hf' : (cut ';' el).2.2 = false := by simpa using hf
    simp [hf'] at h

/-- what the element loop reports for a coding comes from an element of the list that names it -/
theorem lemma_scanAE (ae : Bytes) (b0 g0 : Option Nat) :
    ((scanAE ae b0 g0).1 = b0 ∨
      ∃ el ∈ splitOnC ',' ae, eqFold (parseCoding el).1 brB = true ∧ (scanAE ae b0 g0).1 = some (parseCoding el).2) ∧
    ((scanAE ae b0 g0).2 = g0 ∨
      ∃ el ∈ splitOnC ',' ae, eqFold (parseCoding el).1 gzipB = true ∧ (scanAE ae b0 g0).2 = some (parseCoding el).2) := by
  fun_induction scanAE ae b0 g0 with
  | case1 b g => exact ⟨Or.inl rfl, Or.inl rfl⟩
  | case2 ae b g hne r cq hbr ih =>
    have hsplit := lemma_splitOnC_cut ',' ae
    have hmem : ∀ el, el ∈ splitOnC ',' r.2.1 → r.2.1 ≠ [] → el ∈ splitOnC ',' ae := by
      intro el hel hne'
      rw [hsplit]
      have hf : r.2.2 = true := by
        by_cases hf : r.2.2 = true
        · exact hf
        · exact absurd (lemma_cut_notfound ',' ae (by simpa using hf)) hne'
      simp only [show (cut ',' ae).2.2 = true from hf, if_true]
      exact List.mem_cons_of_mem _ hel
    have hhead : r.1 ∈ splitOnC ',' ae := by rw [hsplit]; exact List.mem_cons_self ..
    by_cases hr : r.2.1 = []
    · rw [hr]
      unfold scanAE
      simp only [dite_true]
      exact ⟨Or.inr ⟨r.1, hhead, hbr, by trivial⟩, Or.inl (by trivial)⟩
    · obtain ⟨i1, i2⟩ := ih
      refine ⟨?_, ?_⟩
      · rcases i1 with i1 | ⟨el, hel, h1, h2⟩
        · exact Or.inr ⟨r.1, hhead, hbr, i1⟩
        · exact Or.inr ⟨el, hmem el hel hr, h1, h2⟩
      · rcases i2 with i2 | ⟨el, hel, h1, h2⟩
        · exact Or.inl i2
        · exact Or.inr ⟨el, hmem el hel hr, h1, h2⟩
  | case3 ae b g hne r cq hbr hgz ih =>
    have hsplit := lemma_splitOnC_cut ',' ae
    have hmem : ∀ el, el ∈ splitOnC ',' r.2.1 → r.2.1 ≠ [] → el ∈ splitOnC ',' ae := by
      intro el hel hne'
      rw [hsplit]
      have hf : r.2.2 = true := by
        by_cases hf : r.2.2 = true
        · exact hf
        · exact absurd (lemma_cut_notfound ',' ae (by simpa using hf)) hne'
      simp only [show (cut ',' ae).2.2 = true from hf, if_true]
      exact List.mem_cons_of_mem _ hel
    have hhead : r.1 ∈ splitOnC ',' ae := by rw [hsplit]; exact List.mem_cons_self ..
    by_cases hr : r.2.1 = []
    · rw [hr]
      unfold scanAE
      simp only [dite_true]
      exact ⟨Or.inl (by trivial), Or.inr ⟨r.1, hhead, hgz, by trivial⟩⟩
    · obtain ⟨i1, i2⟩ := ih
      refine ⟨?_, ?_⟩
      · rcases i1 with i1 | ⟨el, hel, h1, h2⟩
        · exact Or.inl i1
        · exact Or.inr ⟨el, hmem el hel hr, h1, h2⟩
      · rcases i2 with i2 | ⟨el, hel, h1, h2⟩
        · exact Or.inr ⟨r.1, hhead, hgz, i2⟩
        · exact Or.inr ⟨el, hmem el hel hr, h1, h2⟩
  | case4 ae b g hne r cq hbr hgz ih =>
    have hsplit := lemma_splitOnC_cut ',' ae
    have hmem : ∀ el, el ∈ splitOnC ',' r.2.1 → r.2.1 ≠ [] → el ∈ splitOnC ',' ae := by
      intro el hel hne'
      rw [hsplit]
      have hf : r.2.2 = true := by
        by_cases hf : r.2.2 = true
        · exact hf
        · exact absurd (lemma_cut_notfound ',' ae (by simpa using hf)) hne'
      simp only [show (cut ',' ae).2.2 = true from hf, if_true]
      exact List.mem_cons_of_mem _ hel
    by_cases hr : r.2.1 = []
    · rw [hr]
      unfold scanAE
      simp only [dite_true]
      exact ⟨Or.inl (by trivial), Or.inl (by trivial)⟩
    · obtain ⟨i1, i2⟩ := ih
      refine ⟨?_, ?_⟩
      · rcases i1 with i1 | ⟨el, hel, h1, h2⟩
        · exact Or.inl i1
        · exact Or.inr ⟨el, hmem el hel hr, h1, h2⟩
      · rcases i2 with i2 | ⟨el, hel, h1, h2⟩
        · exact Or.inl i2
        · exact Or.inr ⟨el, hmem el hel hr, h1, h2⟩

theorem lemma_listed_of_elem (e ae el : Bytes) (hel : el ∈ splitOnC ',' ae)
    (hc : eqFold (parseCoding el).1 e = true) (he : lowerA e = e) (hq : (parseCoding el).2 > 0) :
    listed e ae = true := by
  unfold listed
  simp only [Bool.or_eq_true]
  left
  apply List.any_eq_true.mpr
  refine ⟨el, hel, ?_⟩
  have h1 : elemCoding el = e := by
    unfold eqFold at hc
    rw [he] at hc
    have := eq_of_beq hc
    unfold parseCoding at this
    simp only at this
    rw [lemma_cut_fst] at this
    exact this
  have h2 : elemRefused el = false := by
    by_cases hr : elemRefused el = true
    · rw [lemma_refused_q0 el hr] at hq; exact absurd hq (by omega)
    · simpa using hr
  simp [h1, h2]

end Rivaas.C15
