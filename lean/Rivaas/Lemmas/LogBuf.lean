import Rivaas.Spec.LogBuf
/-
Invariants of the buffering machine (`Model/LogBuf.lean`) with all four repairs switched on, proved
per segment and lifted to every schedule in `Props/C20.lean`. Core Lean only.
-/
namespace Rivaas.LogBuf

def logSeqs (ops : List Op) : List Nat :=
  ops.filterMap fun op => match op with | .log c => some c.seq | _ => none

/-- well-formed programs: per worker, the sequence numbers of its log calls increase -/
def WF (progs : List (List Op)) : Prop := ∀ p ∈ progs, (logSeqs p).Pairwise (· < ·)

/-! ### simp lemmas for the state updates -/

@[simp] theorem emit_ws (s : St) (evs : List Ev) : (emit s evs).ws = s.ws := rfl
@[simp] theorem emit_level (s : St) (evs : List Ev) : (emit s evs).level = s.level := rfl
@[simp] theorem emit_shutdown (s : St) (evs : List Ev) : (emit s evs).shutdown = s.shutdown := rfl
@[simp] theorem emit_custom (s : St) (evs : List Ev) : (emit s evs).custom = s.custom := rfl
@[simp] theorem emit_wrapped (s : St) (evs : List Ev) : (emit s evs).wrapped = s.wrapped := rfl
@[simp] theorem emit_buffering (s : St) (evs : List Ev) : (emit s evs).buffering = s.buffering := rfl
@[simp] theorem emit_buffer (s : St) (evs : List Ev) : (emit s evs).buffer = s.buffer := rfl
@[simp] theorem emit_flusher (s : St) (evs : List Ev) : (emit s evs).flusher = s.flusher := rfl
@[simp] theorem emit_batch (s : St) (evs : List Ev) : (emit s evs).batch = s.batch := rfl
@[simp] theorem emit_trace (s : St) (evs : List Ev) : (emit s evs).trace = s.trace ++ evs := rfl

@[simp] theorem setWorker_ws (s : St) (g : Nat) (w : Worker) : (setWorker s g w).ws = s.ws.set g w := rfl
@[simp] theorem setWorker_level (s : St) (g : Nat) (w : Worker) : (setWorker s g w).level = s.level := rfl
@[simp] theorem setWorker_shutdown (s : St) (g : Nat) (w : Worker) : (setWorker s g w).shutdown = s.shutdown := rfl
@[simp] theorem setWorker_custom (s : St) (g : Nat) (w : Worker) : (setWorker s g w).custom = s.custom := rfl
@[simp] theorem setWorker_wrapped (s : St) (g : Nat) (w : Worker) : (setWorker s g w).wrapped = s.wrapped := rfl
@[simp] theorem setWorker_buffering (s : St) (g : Nat) (w : Worker) : (setWorker s g w).buffering = s.buffering := rfl
@[simp] theorem setWorker_buffer (s : St) (g : Nat) (w : Worker) : (setWorker s g w).buffer = s.buffer := rfl
@[simp] theorem setWorker_flusher (s : St) (g : Nat) (w : Worker) : (setWorker s g w).flusher = s.flusher := rfl
@[simp] theorem setWorker_batch (s : St) (g : Nat) (w : Worker) : (setWorker s g w).batch = s.batch := rfl
@[simp] theorem setWorker_trace (s : St) (g : Nat) (w : Worker) : (setWorker s g w).trace = s.trace := rfl

theorem finishOp_eq (s : St) (g : Nat) (w : Worker) :
    finishOp s g w = setWorker (emit s [.done g w.idx]) g { ops := w.ops.tail, idx := w.idx + 1, gate := none } := rfl

/-- the worker list after a segment of `g`: only position `g` can have changed -/
theorem getElem?_set_worker (ws : List Worker) (g g' : Nat) (w w' : Worker) (hg : ws[g]? = some w) :
    (ws.set g w')[g']? = if g' = g then some w' else ws[g']? := by
  have hlt : g < ws.length := by
    rcases Nat.lt_or_ge g ws.length with h | h
    · exact h
    · rw [List.getElem?_eq_none h] at hg; cases hg
  by_cases h : g' = g
  · subst h; simp [hlt]
  · simp [h, List.getElem?_set_ne (Ne.symm h)]

end Rivaas.LogBuf
