import Rivaas.Spec.LogBuf
/-
Invariants of the buffering machine (`Model/LogBuf.lean`) with all five repairs switched on, proved
per segment and lifted to every schedule in `Props/C20.lean`. Core Lean only.
-/
namespace Rivaas.LogBuf

def logSeqs (ops : List Op) : List Nat :=
  ops.filterMap fun op => match op with | .log c => some c.seq | _ => none

/-- well-formed programs: per worker, the sequence numbers of its log calls increase -/
def WF (progs : List (List Op)) : Prop := ∀ p ∈ progs, (logSeqs p).Pairwise (· < ·)

/-- no worker logs through a `slog.Logger` obtained before `StartBuffering` (recorded finding K20f) -/
def NoStale (progs : List (List Op)) : Prop := ∀ p ∈ progs, ∀ c, Op.log c ∈ p → c.stale = false

/-! ### simp lemmas for the state updates -/

@[simp] theorem emit_ws (s : St) (evs : List Ev) : (emit s evs).ws = s.ws := rfl
@[simp] theorem emit_level (s : St) (evs : List Ev) : (emit s evs).level = s.level := rfl
@[simp] theorem emit_shutdown (s : St) (evs : List Ev) : (emit s evs).shutdown = s.shutdown := rfl
@[simp] theorem emit_custom (s : St) (evs : List Ev) : (emit s evs).custom = s.custom := rfl
@[simp] theorem emit_wrapped (s : St) (evs : List Ev) : (emit s evs).wrapped = s.wrapped := rfl
@[simp] theorem emit_buffering (s : St) (evs : List Ev) : (emit s evs).buffering = s.buffering := rfl
@[simp] theorem emit_buffer (s : St) (evs : List Ev) : (emit s evs).buffer = s.buffer := rfl
@[simp] theorem emit_flusher (s : St) (evs : List Ev) : (emit s evs).flusher = s.flusher := rfl
@[simp] theorem emit_batch (s : St) (evs : List Ev) : (emit s evs).batch = s.batch := rfl
@[simp] theorem emit_trace (s : St) (evs : List Ev) : (emit s evs).trace = s.trace ++ evs := rfl

@[simp] theorem setWorker_ws (s : St) (g : Nat) (w : Worker) : (setWorker s g w).ws = s.ws.set g w := rfl
@[simp] theorem setWorker_level (s : St) (g : Nat) (w : Worker) : (setWorker s g w).level = s.level := rfl
@[simp] theorem setWorker_shutdown (s : St) (g : Nat) (w : Worker) : (setWorker s g w).shutdown = s.shutdown := rfl
@[simp] theorem setWorker_custom (s : St) (g : Nat) (w : Worker) : (setWorker s g w).custom = s.custom := rfl
@[simp] theorem setWorker_wrapped (s : St) (g : Nat) (w : Worker) : (setWorker s g w).wrapped = s.wrapped := rfl
@[simp] theorem setWorker_buffering (s : St) (g : Nat) (w : Worker) : (setWorker s g w).buffering = s.buffering := rfl
@[simp] theorem setWorker_buffer (s : St) (g : Nat) (w : Worker) : (setWorker s g w).buffer = s.buffer := rfl
@[simp] theorem setWorker_flusher (s : St) (g : Nat) (w : Worker) : (setWorker s g w).flusher = s.flusher := rfl
@[simp] theorem setWorker_batch (s : St) (g : Nat) (w : Worker) : (setWorker s g w).batch = s.batch := rfl
@[simp] theorem setWorker_trace (s : St) (g : Nat) (w : Worker) : (setWorker s g w).trace = s.trace := rfl

theorem finishOp_eq (s : St) (g : Nat) (w : Worker) :
    finishOp s g w = setWorker (emit s [.done g w.idx]) g { ops := w.ops.tail, idx := w.idx + 1, gate := none } := rfl

/-- the worker list after a segment of `g`: only position `g` can have changed -/
theorem getElem?_set_worker (ws : List Worker) (g g' : Nat) (w w' : Worker) (hg : ws[g]? = some w) :
    (ws.set g w')[g']? = if g' = g then some w' else ws[g']? := by
  have hlt : g < ws.length := by
    rcases Nat.lt_or_ge g ws.length with h | h
    · exact h
    · rw [List.getElem?_eq_none h] at hg; cases hg
  by_cases h : g' = g
  · subst h; simp [hlt]
  · simp [h, List.getElem?_set_ne (Ne.symm h)]


/-! ### structural invariant -/

structure SInv (progs : List (List Op)) (s : St) : Prop where
  len : s.ws.length = progs.length
  /-- a worker's remaining ops are the suffix of its program at its program counter -/
  sync : ∀ (g : Nat) (w : Worker), s.ws[g]? = some w → w.ops = (progs[g]?.getD []).drop w.idx
  /-- only the holder of `Logger.mu` sits in a replay -/
  rep : ∀ (g : Nat) (w : Worker), s.ws[g]? = some w → w.gate = some .replay → s.flusher = some g
  /-- … and it is executing a `FlushBuffer` -/
  repOp : ∀ (g : Nat) (w : Worker), s.ws[g]? = some w → w.gate = some .replay → w.ops.head? = some .flush
  f3 : s.flusher = none → s.batch = []
  f4 : s.flusher.isSome = true → s.wrapped = true ∧ s.buffering = true
  f5 : s.buffering = false → s.buffer = []
  f6 : s.wrapped = false → s.buffering = false

theorem sync_tail {progs : List (List Op)} {g : Nat} {w : Worker}
    (h : w.ops = (progs[g]?.getD []).drop w.idx) : w.ops.tail = (progs[g]?.getD []).drop (w.idx + 1) := by
  rw [h, List.tail_drop]

/-- finishing the op in progress with new global fields `s'` (same workers as `s`) -/
theorem sinv_finish {progs : List (List Op)} {s s' : St} {g : Nat} {w : Worker}
    (h : SInv progs s) (hw : s.ws[g]? = some w) (hws : s'.ws = s.ws)
    (hfl : s'.flusher = s.flusher ∨ (s.flusher = some g ∧ s'.flusher = none))
    (f3 : s'.flusher = none → s'.batch = [])
    (f4 : s'.flusher.isSome = true → s'.wrapped = true ∧ s'.buffering = true)
    (f5 : s'.buffering = false → s'.buffer = [])
    (f6 : s'.wrapped = false → s'.buffering = false) :
    SInv progs (finishOp s' g w) := by
  have hw' : s'.ws[g]? = some w := by rw [hws]; exact hw
  refine ⟨?_, ?_, ?_, ?_, ?_, ?_, ?_, ?_⟩
  · simp [finishOp_eq, hws, h.len]
  · intro g' wx hx
    simp only [finishOp_eq, setWorker_ws, emit_ws, getElem?_set_worker _ g g' w _ hw'] at hx
    split at hx
    · rename_i hgg; subst hgg
      cases hx
      exact sync_tail (h.sync g' w hw)
    · rw [hws] at hx; exact h.sync g' wx hx
  · intro g' wx hx hgate
    simp only [finishOp_eq, setWorker_ws, emit_ws, getElem?_set_worker _ g g' w _ hw'] at hx
    split at hx
    · cases hx; cases hgate
    · rename_i hne
      rw [hws] at hx
      have := h.rep g' wx hx hgate
      simp only [finishOp_eq, setWorker_flusher, emit_flusher]
      rcases hfl with hfl | ⟨hfl, _⟩
      · rw [hfl]; exact this
      · rw [hfl] at this; cases this; exact absurd rfl hne
  · intro g' wx hx hgate
    simp only [finishOp_eq, setWorker_ws, emit_ws, getElem?_set_worker _ g g' w _ hw'] at hx
    split at hx
    · cases hx; cases hgate
    · rw [hws] at hx; exact h.repOp g' wx hx hgate
  · simpa [finishOp_eq] using f3
  · simpa [finishOp_eq] using f4
  · simpa [finishOp_eq] using f5
  · simpa [finishOp_eq] using f6

/-- changing only the gate of worker `g` (not to a replay) and possibly global fields -/
theorem sinv_gate {progs : List (List Op)} {s s' : St} {g : Nat} {w : Worker} {gt : Option Gate}
    (h : SInv progs s) (hw : s.ws[g]? = some w) (hws : s'.ws = s.ws)
    (hgt : gt = some .replay → s'.flusher = some g ∧ w.ops.head? = some .flush)
    (hfl : s'.flusher = s.flusher ∨ ((s.flusher = none ∨ s.flusher = some g) ∧ s'.flusher = some g))
    (f3 : s'.flusher = none → s'.batch = [])
    (f4 : s'.flusher.isSome = true → s'.wrapped = true ∧ s'.buffering = true)
    (f5 : s'.buffering = false → s'.buffer = [])
    (f6 : s'.wrapped = false → s'.buffering = false) :
    SInv progs (setWorker s' g { w with gate := gt }) := by
  have hw' : s'.ws[g]? = some w := by rw [hws]; exact hw
  refine ⟨?_, ?_, ?_, ?_, ?_, ?_, ?_, ?_⟩
  · simp [hws, h.len]
  · intro g' wx hx
    simp only [setWorker_ws, getElem?_set_worker _ g g' w _ hw'] at hx
    split at hx
    · rename_i hgg; subst hgg
      cases hx
      exact h.sync g' w hw
    · rw [hws] at hx; exact h.sync g' wx hx
  · intro g' wx hx hgate
    simp only [setWorker_ws, getElem?_set_worker _ g g' w _ hw'] at hx
    simp only [setWorker_flusher]
    split at hx
    · rename_i hgg; subst hgg
      cases hx
      exact (hgt hgate).1
    · rename_i hne
      rw [hws] at hx
      have := h.rep g' wx hx hgate
      rcases hfl with hfl | ⟨hfl, _⟩
      · rw [hfl]; exact this
      · rcases hfl with hfl | hfl
        · rw [hfl] at this; cases this
        · rw [hfl] at this; cases this; exact absurd rfl hne
  · intro g' wx hx hgate
    simp only [setWorker_ws, getElem?_set_worker _ g g' w _ hw'] at hx
    split at hx
    · cases hx
      exact (hgt hgate).2
    · rw [hws] at hx; exact h.repOp g' wx hx hgate
  · simpa using f3
  · simpa using f4
  · simpa using f5
  · simpa using f6


theorem sinv_flush {progs : List (List Op)} {s : St} {g : Nat} {w : Worker} (first : Bool)
    (h : SInv progs s) (hw : s.ws[g]? = some w) (hwr : s.wrapped = true) (hb : s.batch = [])
    (hf : s.flusher = none ∨ s.flusher = some g) (hhead : w.ops.head? = some .flush) :
    SInv progs (flushContinue (flushTake Flags.fixed s first) g w) := by
  unfold flushTake
  simp only [Flags.fixed, if_true]
  cases hbuf : s.buffer with
  | nil =>
    simp only [flushContinue, hb, List.isEmpty_nil, if_true]
    apply sinv_finish h hw
    · rfl
    · rcases hf with hf | hf
      · left; simp [hf]
      · right; exact ⟨hf, rfl⟩
    · intro _; rfl
    · intro hc; cases hc
    · intro _; rfl
    · intro _; rfl
  | cons r rest =>
    simp only [flushContinue, List.isEmpty_cons, Bool.false_eq_true, if_false]
    apply sinv_gate h hw
    · rfl
    · intro _; exact ⟨rfl, hhead⟩
    · right; exact ⟨hf, rfl⟩
    · intro hc; cases hc
    · intro _
      refine ⟨hwr, ?_⟩
      cases hbf : s.buffering with
      | true => rfl
      | false => rw [h.f5 hbf] at hbuf; cases hbuf
    · intro _; rfl
    · intro hc; simp only at hc; rw [hwr] at hc; cases hc

/-- the structural invariant is preserved by every segment of every worker -/
theorem sinv_advance {progs : List (List Op)} {s : St} (g : Nat) (h : SInv progs s) :
    SInv progs (advance Flags.fixed s g) := by
  unfold advance
  split
  · exact h
  · rename_i w hw
    split
    · -- pass gate: the write completes
      exact sinv_finish h hw rfl (Or.inl rfl) h.f3 h.f4 h.f5 h.f6
    · -- replay gate
      rename_i hgate
      have hfl := h.rep g w hw hgate
      split
      · rename_i hb
        exact sinv_flush false h hw (h.f4 (by simp [hfl])).1 hb (Or.inr hfl) (h.repOp g w hw hgate)
      · rename_i r rest hb
        simp only [Flags.fixed, Bool.not_true, Bool.and_false, Bool.false_eq_true, if_false]
        split
        · -- last record of the batch: look at the buffer again
          have h' : SInv progs { (emit s (writeEv Flags.fixed true r)) with batch := [] } :=
            ⟨h.len, h.sync, h.rep, h.repOp, fun _ => rfl, h.f4, h.f5, h.f6⟩
          exact sinv_flush false h' hw (h.f4 (by simp [hfl])).1 rfl (Or.inr hfl) (h.repOp g w hw hgate)
        · exact ⟨h.len, h.sync, h.rep, h.repOp, fun hc => by simp [hfl] at hc, h.f4, h.f5, h.f6⟩
    · -- between ops
      split
      · exact h
      · rename_i op rest hops
        cases op with
        | log c =>
          simp only [Flags.fixed, Bool.not_true, Bool.and_false, Bool.false_eq_true, if_false]
          -- (K20f repaired: a stale slog.Logger goes the same way as the Logger, with its own level)
          split
          · exact sinv_finish h hw rfl (Or.inl rfl) h.f3 h.f4 h.f5 h.f6
          · split
            · rename_i hwb
              simp only [emit_wrapped, emit_buffering, Bool.and_eq_true] at hwb
              refine sinv_finish h hw rfl (Or.inl rfl) h.f3 h.f4 ?_ ?_
              · intro hc; simp only [emit_buffering] at hc; rw [hwb.2] at hc; cases hc
              · exact h.f6
            · exact sinv_gate h hw rfl (fun hc => by cases hc) (Or.inl rfl) h.f3 h.f4 h.f5 h.f6
        | startBuffering =>
          simp only
          split
          · exact h
          · rename_i hnf
            have hnone : s.flusher = none := by simpa using hnf
            split
            · rename_i hwr
              refine sinv_finish h hw rfl (Or.inl rfl) h.f3 ?_ ?_ ?_
              · intro _; exact ⟨hwr, rfl⟩
              · intro hc; cases hc
              · intro hc; simp only [emit_wrapped] at hc hwr; rw [hwr] at hc; cases hc
            · refine sinv_finish h hw rfl (Or.inl rfl) h.f3 ?_ ?_ ?_
              · intro _; exact ⟨rfl, rfl⟩
              · intro _; rfl
              · intro hc; cases hc
        | setLevel lvl =>
          simp only
          split
          · exact h
          · rename_i hnf
            have hnone : s.flusher = none := by simpa using hnf
            split
            · exact sinv_finish h hw rfl (Or.inl rfl) h.f3 h.f4 h.f5 h.f6
            · split
              · exact sinv_finish h hw rfl (Or.inl rfl) h.f3 h.f4 h.f5 h.f6
              · refine sinv_finish h hw rfl (Or.inl rfl) h.f3 ?_ ?_ ?_
                · intro hc; simp only [emit_flusher] at hc; rw [hnone] at hc; cases hc
                · intro _; rfl
                · intro _; rfl
        | shutdown => exact sinv_finish h hw rfl (Or.inl rfl) h.f3 h.f4 h.f5 h.f6
        | flush =>
          simp only
          split
          · exact h
          · rename_i hnf
            have hnone : s.flusher = none := by simpa using hnf
            split
            · exact sinv_finish h hw rfl (Or.inl rfl) h.f3 h.f4 h.f5 h.f6
            · rename_i hwr
              have h' : SInv progs (emit s [.begin g w.idx]) := ⟨h.len, h.sync, h.rep, h.repOp, h.f3, h.f4, h.f5, h.f6⟩
              exact sinv_flush true h' hw (by simpa using hwr) (h.f3 hnone) (Or.inl hnone) (by rw [hops]; rfl)


/-! ### order: what is still to come for each worker -/

/-- sequence numbers of worker `g`'s records that sit in the flusher's batch or in the buffer -/
def pendSeqs (s : St) (g : Nat) : List Nat := ((s.batch ++ s.buffer).filter (·.g == g)).map (·.c.seq)

/-- sequence numbers of the log calls worker `g` has not finished yet -/
def futureSeqs (s : St) (g : Nat) : List Nat :=
  match s.ws[g]? with
  | some w => logSeqs w.ops
  | none => []

/-- everything of worker `g` that can still reach the output, in the order it must -/
def lineSeqs (s : St) (g : Nat) : List Nat := pendSeqs s g ++ futureSeqs s g

theorem pendSeqs_congr {s s' : St} (h : s'.batch ++ s'.buffer = s.batch ++ s.buffer) (g : Nat) :
    pendSeqs s' g = pendSeqs s g := by
  simp only [pendSeqs, h]

theorem logSeqs_cons_log (c : LogCall) (rest : List Op) : logSeqs (.log c :: rest) = c.seq :: logSeqs rest := by
  simp [logSeqs]

theorem logSeqs_cons_other (op : Op) (rest : List Op) (h : ∀ c, op ≠ .log c) : logSeqs (op :: rest) = logSeqs rest := by
  cases op with
  | log c => exact absurd rfl (h c)
  | _ => simp [logSeqs]

theorem futureSeqs_finish {s s' : St} {g : Nat} {w : Worker} (hw : s.ws[g]? = some w) (hws : s'.ws = s.ws) (g' : Nat) :
    futureSeqs (finishOp s' g w) g' = if g' = g then logSeqs w.ops.tail else futureSeqs s g' := by
  have hw' : s'.ws[g]? = some w := by rw [hws]; exact hw
  simp only [futureSeqs, finishOp_eq, setWorker_ws, emit_ws, getElem?_set_worker _ g g' w _ hw']
  by_cases hgg : g' = g
  · simp [hgg]
  · simp [hgg, hws]

theorem futureSeqs_gate {s s' : St} {g : Nat} {w : Worker} {gt : Option Gate} (hw : s.ws[g]? = some w)
    (hws : s'.ws = s.ws) (g' : Nat) : futureSeqs (setWorker s' g { w with gate := gt }) g' = futureSeqs s g' := by
  have hw' : s'.ws[g]? = some w := by rw [hws]; exact hw
  simp only [futureSeqs, setWorker_ws, getElem?_set_worker _ g g' w _ hw']
  by_cases hgg : g' = g
  · subst hgg; simp [hw]
  · simp [hgg, hws]

theorem futureSeqs_congr {s s' : St} (hws : s'.ws = s.ws) (g' : Nat) : futureSeqs s' g' = futureSeqs s g' := by
  simp only [futureSeqs, hws]

theorem pendSeqs_finish (s' : St) (g : Nat) (w : Worker) (g' : Nat) : pendSeqs (finishOp s' g w) g' = pendSeqs s' g' := rfl
theorem pendSeqs_gate (s' : St) (g : Nat) (w : Worker) (g' : Nat) : pendSeqs (setWorker s' g w) g' = pendSeqs s' g' := rfl

/-! the order monitor only looks at writes -/

def isWrite : Ev → Bool
  | .write .. => true
  | _ => false

theorem orderMonitor_append (progs : List (List Op)) (tr evs : List Ev) :
    orderMonitor progs (tr ++ evs) = evs.foldl (oStep progs) (orderMonitor progs tr) := by
  simp [orderMonitor, List.foldl_append]

theorem oStep_nowrite (progs : List (List Op)) (m : OMon) (evs : List Ev) (h : ∀ e ∈ evs, isWrite e = false) :
    evs.foldl (oStep progs) m = m := by
  induction evs generalizing m with
  | nil => rfl
  | cons e rest ih =>
    simp only [List.foldl_cons]
    have he : oStep progs m e = m := by
      cases e with
      | write g s i => simp [isWrite] at h
      | _ => rfl
    rw [he]
    exact ih m (fun e' he' => h e' (List.mem_cons_of_mem _ he'))

structure OInv (progs : List (List Op)) (s : St) : Prop where
  ok : (orderMonitor progs s.trace).ok = true
  /-- everything written is below everything of the same worker still to come -/
  below : ∀ (g x : Nat), (g, x) ∈ (orderMonitor progs s.trace).written → ∀ y ∈ lineSeqs s g, x < y
  /-- … which is itself in increasing order -/
  chain : ∀ g, (lineSeqs s g).Pairwise (· < ·)
  /-- a worker blocked in a pass-through write has nothing in the buffer or the flusher's batch -/
  pass : ∀ (g : Nat) (w : Worker) (r : BRec), s.ws[g]? = some w → w.gate = some (.pass r) →
    r.g = g ∧ w.ops.head? = some (.log r.c) ∧ pendSeqs s g = []
  gen : ∀ r ∈ s.batch ++ s.buffer, r.c.seq ∈ loggedSeqs progs r.g

/-- a transition that writes nothing and only shrinks what is to come -/
theorem oinv_quiet {progs : List (List Op)} {s s' : St} (h : OInv progs s) (evs : List Ev)
    (htr : s'.trace = s.trace ++ evs) (hnw : ∀ e ∈ evs, isWrite e = false)
    (hline : ∀ g, (lineSeqs s' g).Sublist (lineSeqs s g))
    (hpass : ∀ (g : Nat) (w : Worker) (r : BRec), s'.ws[g]? = some w → w.gate = some (.pass r) →
      r.g = g ∧ w.ops.head? = some (.log r.c) ∧ pendSeqs s' g = [])
    (hgen : ∀ r ∈ s'.batch ++ s'.buffer, r.c.seq ∈ loggedSeqs progs r.g) : OInv progs s' := by
  have hm : orderMonitor progs s'.trace = orderMonitor progs s.trace := by
    rw [htr, orderMonitor_append, oStep_nowrite _ _ _ hnw]
  refine ⟨by rw [hm]; exact h.ok, ?_, ?_, hpass, hgen⟩
  · intro g x hx y hy
    rw [hm] at hx
    exact h.below g x hx y ((hline g).subset hy)
  · intro g
    exact (h.chain g).sublist (hline g)

/-- a transition that writes the head of worker `g0`'s line -/
theorem oinv_write {progs : List (List Op)} {s s' : St} (h : OInv progs s) (g0 x : Nat) (evs : List Ev)
    (htr : s'.trace = s.trace ++ (Ev.write g0 x true :: evs)) (hnw : ∀ e ∈ evs, isWrite e = false)
    (hx : x ∈ loggedSeqs progs g0)
    (hline0 : lineSeqs s g0 = x :: lineSeqs s' g0)
    (hline : ∀ g, g ≠ g0 → (lineSeqs s' g).Sublist (lineSeqs s g))
    (hpass : ∀ (g : Nat) (w : Worker) (r : BRec), s'.ws[g]? = some w → w.gate = some (.pass r) →
      r.g = g ∧ w.ops.head? = some (.log r.c) ∧ pendSeqs s' g = [])
    (hgen : ∀ r ∈ s'.batch ++ s'.buffer, r.c.seq ∈ loggedSeqs progs r.g) : OInv progs s' := by
  have hm : orderMonitor progs s'.trace = oStep progs (orderMonitor progs s.trace) (.write g0 x true) := by
    rw [htr, orderMonitor_append, List.foldl_cons, oStep_nowrite _ _ _ hnw]
  have hchain0 := h.chain g0
  rw [hline0, List.pairwise_cons] at hchain0
  refine ⟨?_, ?_, ?_, hpass, hgen⟩
  · rw [hm]
    simp only [oStep, Bool.and_eq_true, h.ok, true_and, List.all_eq_true, Bool.or_eq_true, Bool.not_eq_true',
      decide_eq_true_eq, Bool.and_true]
    refine ⟨by simpa using hx, ?_⟩
    intro wr hwr
    by_cases hg : wr.1 = g0
    · right
      have : (g0, wr.2) ∈ (orderMonitor progs s.trace).written := by rw [← hg]; exact hwr
      exact h.below g0 wr.2 this x (by rw [hline0]; simp)
    · left; simpa using hg
  · intro g y hy z hz
    rw [hm] at hy
    simp only [oStep, List.mem_cons, Prod.mk.injEq] at hy
    rcases hy with ⟨hg, hyx⟩ | hy
    · subst hg; subst hyx
      exact hchain0.1 z hz
    · by_cases hg : g = g0
      · subst hg
        exact h.below g y hy z (by rw [hline0]; exact List.mem_cons_of_mem _ hz)
      · exact h.below g y hy z ((hline g hg).subset hz)
  · intro g
    by_cases hg : g = g0
    · subst hg; exact hchain0.2
    · exact (h.chain g).sublist (hline g hg)


/-! helpers for the case analysis -/

theorem ops_of_head {w : Worker} {op : Op} (h : w.ops.head? = some op) : w.ops = op :: w.ops.tail := by
  cases hops : w.ops with
  | nil => rw [hops] at h; cases h
  | cons a rest => rw [hops] at h; simp only [List.head?_cons, Option.some.injEq] at h; subst h; rfl

/-- the head op of a synchronised worker is an op of its program -/
theorem logged_of_sync {progs : List (List Op)} {g : Nat} {w : Worker} {c : LogCall} {rest : List Op}
    (hsync : w.ops = (progs[g]?.getD []).drop w.idx) (hops : w.ops = .log c :: rest) :
    c.seq ∈ loggedSeqs progs g := by
  have hmem : Op.log c ∈ (progs[g]?.getD []) := by
    have : Op.log c ∈ w.ops := by rw [hops]; simp
    rw [hsync] at this
    exact List.mem_of_mem_drop this
  simp only [loggedSeqs, List.mem_filterMap]
  exact ⟨.log c, hmem, rfl⟩

theorem stale_false_of_sync {progs : List (List Op)} {g : Nat} {w : Worker} {c : LogCall} {rest : List Op}
    (hns : NoStale progs) (hsync : w.ops = (progs[g]?.getD []).drop w.idx) (hops : w.ops = .log c :: rest) :
    c.stale = false := by
  have hmem : Op.log c ∈ (progs[g]?.getD []) := by
    have : Op.log c ∈ w.ops := by rw [hops]; simp
    rw [hsync] at this
    exact List.mem_of_mem_drop this
  cases hp : progs[g]? with
  | none => rw [hp] at hmem; simp at hmem
  | some p =>
    rw [hp] at hmem
    exact hns p (List.mem_of_getElem? hp) c hmem

theorem pass_after_finish {progs : List (List Op)} {s s' : St} {g : Nat} {w : Worker}
    (h : OInv progs s) (hw : s.ws[g]? = some w) (hws : s'.ws = s.ws)
    (hp : ∀ g', g' ≠ g → pendSeqs s g' = [] → pendSeqs s' g' = []) :
    ∀ (g' : Nat) (wx : Worker) (r : BRec), (finishOp s' g w).ws[g']? = some wx → wx.gate = some (.pass r) →
      r.g = g' ∧ wx.ops.head? = some (.log r.c) ∧ pendSeqs (finishOp s' g w) g' = [] := by
  intro g' wx r hx hgate
  have hw' : s'.ws[g]? = some w := by rw [hws]; exact hw
  simp only [finishOp_eq, setWorker_ws, emit_ws, getElem?_set_worker _ g g' w _ hw'] at hx
  by_cases hgg : g' = g
  · simp only [hgg, if_true, Option.some.injEq] at hx
    subst hx; cases hgate
  · simp only [hgg, if_false] at hx
    rw [hws] at hx
    obtain ⟨h1, h2, h3⟩ := h.pass g' wx r hx hgate
    exact ⟨h1, h2, hp g' hgg h3⟩

theorem pass_after_gate {progs : List (List Op)} {s s' : St} {g : Nat} {w : Worker} {gt : Option Gate}
    (h : OInv progs s) (hw : s.ws[g]? = some w) (hws : s'.ws = s.ws)
    (hp : ∀ g', g' ≠ g → pendSeqs s g' = [] → pendSeqs s' g' = [])
    (hg : ∀ r, gt = some (.pass r) → r.g = g ∧ w.ops.head? = some (.log r.c) ∧ pendSeqs s' g = []) :
    ∀ (g' : Nat) (wx : Worker) (r : BRec), (setWorker s' g { w with gate := gt }).ws[g']? = some wx →
      wx.gate = some (.pass r) →
      r.g = g' ∧ wx.ops.head? = some (.log r.c) ∧ pendSeqs (setWorker s' g { w with gate := gt }) g' = [] := by
  intro g' wx r hx hgate
  have hw' : s'.ws[g]? = some w := by rw [hws]; exact hw
  simp only [setWorker_ws, getElem?_set_worker _ g g' w _ hw'] at hx
  by_cases hgg : g' = g
  · simp only [hgg, if_true, Option.some.injEq] at hx
    subst hx
    subst hgg
    exact hg r hgate
  · simp only [hgg, if_false] at hx
    rw [hws] at hx
    obtain ⟨h1, h2, h3⟩ := h.pass g' wx r hx hgate
    exact ⟨h1, h2, hp g' hgg h3⟩

/-- `lineSeqs` after finishing a non-log op without touching batch ++ buffer -/
theorem lineSeqs_finish_other {s s' : St} {g : Nat} {w : Worker} {op : Op} {rest : List Op}
    (hw : s.ws[g]? = some w) (hws : s'.ws = s.ws) (hops : w.ops = op :: rest) (hop : ∀ c, op ≠ .log c)
    (hbb : s'.batch ++ s'.buffer = s.batch ++ s.buffer) (g' : Nat) :
    lineSeqs (finishOp s' g w) g' = lineSeqs s g' := by
  simp only [lineSeqs, pendSeqs_finish, pendSeqs_congr hbb, futureSeqs_finish hw hws]
  by_cases hgg : g' = g
  · subst hgg
    simp only [if_true, futureSeqs, hw, hops, List.tail_cons, logSeqs_cons_other op rest hop]
  · simp [hgg]

/-- `lineSeqs` after finishing a log op whose record is dropped (not accepted, or its write failed) -/
theorem lineSeqs_finish_drop {s s' : St} {g : Nat} {w : Worker} {c : LogCall} {rest : List Op}
    (hw : s.ws[g]? = some w) (hws : s'.ws = s.ws) (hops : w.ops = .log c :: rest)
    (hbb : s'.batch ++ s'.buffer = s.batch ++ s.buffer) (g' : Nat) :
    (lineSeqs (finishOp s' g w) g').Sublist (lineSeqs s g') := by
  simp only [lineSeqs, pendSeqs_finish, pendSeqs_congr hbb, futureSeqs_finish hw hws]
  by_cases hgg : g' = g
  · subst hgg
    simp only [if_true, futureSeqs, hw, hops, List.tail_cons, logSeqs_cons_log]
    exact List.Sublist.append_left (List.sublist_cons_self _ _) _
  · simp [hgg]

theorem pendSeqs_nil_of_empty {s : St} (hb : s.batch = []) (hbuf : s.buffer = []) (g : Nat) : pendSeqs s g = [] := by
  simp [pendSeqs, hb, hbuf]

/-- nothing is pending unless the logger is wrapped and buffering -/
theorem empty_of_not_buffering {progs : List (List Op)} {s : St} (hs : SInv progs s)
    (h : (s.wrapped && s.buffering) = false) : s.batch = [] ∧ s.buffer = [] := by
  have hb : s.buffering = false := by
    cases hwr : s.wrapped with
    | false => exact hs.f6 hwr
    | true => simpa [hwr] using h
  refine ⟨hs.f3 ?_, hs.f5 hb⟩
  cases hf : s.flusher with
  | none => rfl
  | some x =>
    have := (hs.f4 (by simp [hf])).2
    rw [hb] at this; cases this


theorem logSeqs_tail_sublist (ops : List Op) : (logSeqs ops.tail).Sublist (logSeqs ops) := by
  cases ops with
  | nil => simp
  | cons op rest =>
    simp only [List.tail_cons, logSeqs]
    exact List.Sublist.filterMap _ (List.sublist_cons_self _ _)

/-- finishing any op without touching batch ++ buffer only shrinks what is to come -/
theorem lineSeqs_finish_sub {s s' : St} {g : Nat} {w : Worker}
    (hw : s.ws[g]? = some w) (hws : s'.ws = s.ws)
    (hbb : s'.batch ++ s'.buffer = s.batch ++ s.buffer) (g' : Nat) :
    (lineSeqs (finishOp s' g w) g').Sublist (lineSeqs s g') := by
  simp only [lineSeqs, pendSeqs_finish, pendSeqs_congr hbb, futureSeqs_finish hw hws]
  by_cases hgg : g' = g
  · subst hgg
    simp only [if_true, futureSeqs, hw]
    exact List.Sublist.append_left (logSeqs_tail_sublist _) _
  · simp [hgg]

theorem lineSeqs_gate_eq {s s' : St} {g : Nat} {w : Worker} {gt : Option Gate}
    (hw : s.ws[g]? = some w) (hws : s'.ws = s.ws)
    (hbb : s'.batch ++ s'.buffer = s.batch ++ s.buffer) (g' : Nat) :
    lineSeqs (setWorker s' g { w with gate := gt }) g' = lineSeqs s g' := by
  simp only [lineSeqs, pendSeqs_gate, pendSeqs_congr hbb, futureSeqs_gate hw hws]

/-- `OInv` across finishing an op quietly -/
theorem oinv_finish_quiet {progs : List (List Op)} {s s' : St} {g : Nat} {w : Worker}
    (h : OInv progs s) (hw : s.ws[g]? = some w) (hws : s'.ws = s.ws) (evs : List Ev)
    (htr : s'.trace = s.trace ++ evs) (hnw : ∀ e ∈ evs, isWrite e = false)
    (hbb : s'.batch ++ s'.buffer = s.batch ++ s.buffer) : OInv progs (finishOp s' g w) := by
  apply oinv_quiet h (evs ++ [.done g w.idx])
  · simp [finishOp_eq, htr]
  · intro e he
    rcases List.mem_append.mp he with he | he
    · exact hnw e he
    · simp only [List.mem_singleton] at he; subst he; rfl
  · exact lineSeqs_finish_sub hw hws hbb
  · exact pass_after_finish h hw hws (fun g' _ hp => by rw [pendSeqs_congr hbb]; exact hp)
  · intro r hr
    have : r ∈ s'.batch ++ s'.buffer := hr
    rw [hbb] at this
    exact h.gen r this

theorem oinv_flush {progs : List (List Op)} {s : St} {g : Nat} {w : Worker} (first : Bool)
    (h : OInv progs s) (hw : s.ws[g]? = some w) (hb : s.batch = []) :
    OInv progs (flushContinue (flushTake Flags.fixed s first) g w) := by
  unfold flushTake
  simp only [Flags.fixed, if_true]
  cases hbuf : s.buffer with
  | nil =>
    simp only [flushContinue, hb, List.isEmpty_nil, if_true]
    exact oinv_finish_quiet h hw rfl [] (by simp) (by simp) (by simp [hb, hbuf])
  | cons r rest =>
    simp only [flushContinue, List.isEmpty_cons, Bool.false_eq_true, if_false]
    have hbb : (r :: rest) ++ ([] : List BRec) = s.batch ++ s.buffer := by simp [hb, hbuf]
    let s1 : St := { s with buffer := [], batch := r :: rest, flusher := some g }
    have hbb1 : s1.batch ++ s1.buffer = s.batch ++ s.buffer := hbb
    show OInv progs (setWorker s1 g { w with gate := some .replay })
    apply oinv_quiet h []
    · simp [s1]
    · simp
    · intro g'
      rw [lineSeqs_gate_eq (s' := s1) hw rfl hbb1]
      exact List.Sublist.refl _
    · exact pass_after_gate (s' := s1) h hw rfl (fun g' _ hp => by rw [pendSeqs_congr hbb1]; exact hp)
        (fun r' hr' => by cases hr')
    · intro r' hr'
      have : r' ∈ s1.batch ++ s1.buffer := hr'
      rw [hbb1] at this
      exact h.gen r' this


@[simp] theorem pendSeqs_emit (s : St) (evs : List Ev) (g : Nat) : pendSeqs (emit s evs) g = pendSeqs s g := rfl
@[simp] theorem futureSeqs_emit (s : St) (evs : List Ev) (g : Nat) : futureSeqs (emit s evs) g = futureSeqs s g := rfl
@[simp] theorem lineSeqs_emit (s : St) (evs : List Ev) (g : Nat) : lineSeqs (emit s evs) g = lineSeqs s g := rfl

theorem writeEv_fixed (replayed : Bool) (r : BRec) :
    writeEv Flags.fixed replayed r = if r.c.fail then [] else [.write r.g r.c.seq true] := by
  simp [writeEv, Flags.fixed]

theorem pendSeqs_cons (s : St) (r : BRec) (rest : List BRec) (hb : s.batch = r :: rest) (g : Nat) :
    pendSeqs s g = if r.g = g then r.c.seq :: pendSeqs { s with batch := rest } g else pendSeqs { s with batch := rest } g := by
  simp only [pendSeqs, hb, List.cons_append, List.filter_cons]
  by_cases hg : r.g = g
  · simp [hg]
  · simp [hg]

/-- emitting non-write events changes nothing the order invariant looks at -/
theorem oinv_emit {progs : List (List Op)} {s : St} (h : OInv progs s) (evs : List Ev)
    (hnw : ∀ e ∈ evs, isWrite e = false) : OInv progs (emit s evs) :=
  oinv_quiet h evs rfl hnw (fun _ => List.Sublist.refl _) h.pass h.gen

/-- the flusher takes the head of its batch to the output (or the environment fails that write) -/
theorem oinv_pop {progs : List (List Op)} {s : St} {r : BRec} {rest : List BRec} (h : OInv progs s)
    (hb : s.batch = r :: rest) :
    OInv progs { (emit s (writeEv Flags.fixed true r)) with batch := rest } := by
  have hpc := pendSeqs_cons s r rest hb
  have hpass : ∀ (g : Nat) (w : Worker) (r' : BRec), s.ws[g]? = some w → w.gate = some (.pass r') →
      r'.g = g ∧ w.ops.head? = some (.log r'.c) ∧ pendSeqs { s with batch := rest } g = [] := by
    intro g w r' hw hgate
    obtain ⟨h1, h2, h3⟩ := h.pass g w r' hw hgate
    refine ⟨h1, h2, ?_⟩
    rw [hpc g] at h3
    split at h3
    · cases h3
    · exact h3
  have hgen : ∀ r' ∈ rest ++ s.buffer, r'.c.seq ∈ loggedSeqs progs r'.g := by
    intro r' hr'
    apply h.gen
    rw [hb]
    exact List.mem_cons_of_mem _ hr'
  rw [writeEv_fixed]
  by_cases hfail : r.c.fail = true
  · simp only [hfail, if_true]
    apply oinv_quiet h []
    · simp
    · simp
    · intro g
      show (pendSeqs { s with batch := rest } g ++ futureSeqs s g).Sublist (pendSeqs s g ++ futureSeqs s g)
      rw [hpc g]
      split
      · exact List.Sublist.append_right (List.sublist_cons_self _ _) _
      · exact List.Sublist.refl _
    · exact hpass
    · exact hgen
  · simp only [hfail, Bool.false_eq_true, if_false]
    apply oinv_write h r.g r.c.seq []
    · simp
    · simp
    · exact h.gen r (by rw [hb]; simp)
    · show pendSeqs s r.g ++ futureSeqs s r.g = r.c.seq :: (pendSeqs { s with batch := rest } r.g ++ futureSeqs s r.g)
      rw [hpc r.g]; simp
    · intro g hg
      show (pendSeqs { s with batch := rest } g ++ futureSeqs s g).Sublist (pendSeqs s g ++ futureSeqs s g)
      rw [hpc g]
      have : ¬ r.g = g := fun e => hg e.symm
      simp [this]
    · exact hpass
    · exact hgen

theorem pendSeqs_snoc (s : St) (r : BRec) (g : Nat) :
    pendSeqs { s with buffer := s.buffer ++ [r] } g = if r.g = g then pendSeqs s g ++ [r.c.seq] else pendSeqs s g := by
  simp only [pendSeqs, ← List.append_assoc, List.filter_append, List.map_append]
  by_cases hg : r.g = g
  · simp [hg]
  · simp [hg]

/-- the order invariant is preserved by every segment of every worker -/
theorem oinv_advance {progs : List (List Op)} {s : St} (g : Nat) (hs : SInv progs s)
    (h : OInv progs s) : OInv progs (advance Flags.fixed s g) := by
  unfold advance
  split
  · exact h
  · rename_i w hw
    split
    · -- pass gate: the stalled write completes
      rename_i r hgate
      obtain ⟨hrg, hhead, hpend⟩ := h.pass g w r hw hgate
      have hops := ops_of_head hhead
      rw [writeEv_fixed]
      by_cases hfail : r.c.fail = true
      · simp only [hfail, if_true]
        exact oinv_finish_quiet h hw rfl [] (by simp) (by simp) rfl
      · simp only [hfail, Bool.false_eq_true, if_false]
        apply oinv_write h g r.c.seq [.done g w.idx]
        · simp [finishOp_eq, hrg]
        · simp [isWrite]
        · exact logged_of_sync (hs.sync g w hw) hops
        · have hfut : futureSeqs (finishOp (emit s [Ev.write r.g r.c.seq true]) g w) g = logSeqs w.ops.tail := by
            rw [futureSeqs_finish (s' := emit s [Ev.write r.g r.c.seq true]) hw rfl]; simp
          have hfut0 : futureSeqs s g = r.c.seq :: logSeqs w.ops.tail := by
            have := congrArg logSeqs hops
            rw [logSeqs_cons_log] at this
            simp only [futureSeqs, hw]
            exact this
          simp only [lineSeqs, pendSeqs_finish, pendSeqs_emit, hpend, List.nil_append, hfut, hfut0]
        · intro g' hg'
          have := lineSeqs_finish_sub (s' := emit s [Ev.write r.g r.c.seq true]) hw rfl rfl g'
          exact this
        · exact pass_after_finish (s' := emit s [Ev.write r.g r.c.seq true]) h hw rfl (fun g' _ hp => hp)
        · exact h.gen
    · -- replay gate
      rename_i hgate
      split
      · rename_i hb
        exact oinv_flush false h hw hb
      · rename_i r rest hb
        simp only [Flags.fixed, Bool.not_true, Bool.and_false, Bool.false_eq_true, if_false]
        have hpop := oinv_pop h hb
        split
        · rename_i hemp
          have hrest : rest = [] := by simpa using hemp
          subst hrest
          exact oinv_flush false hpop hw rfl
        · exact hpop
    · -- between ops
      split
      · exact h
      · rename_i op rest hops
        have hbegin : OInv progs (emit s [.begin g w.idx]) := oinv_emit h _ (by simp [isWrite])
        cases op with
        | log c =>
          simp only
          simp only [Flags.fixed, Bool.not_true, Bool.and_false, Bool.false_eq_true, if_false]
          split
          · exact oinv_finish_quiet h hw rfl [.begin g w.idx] rfl (by simp [isWrite]) rfl
          · split
            · -- buffered
              let s1 : St := { (emit s [.begin g w.idx]) with buffer := s.buffer ++ [{ g := g, c := c }] }
              show OInv progs (finishOp s1 g w)
              have hps := pendSeqs_snoc (emit s [.begin g w.idx]) { g := g, c := c }
              apply oinv_quiet h [.begin g w.idx, .done g w.idx]
              · simp [finishOp_eq, s1]
              · simp [isWrite]
              · intro g'
                have hp : pendSeqs (finishOp s1 g w) g' = if g = g' then pendSeqs s g' ++ [c.seq] else pendSeqs s g' := hps g'
                have hf := futureSeqs_finish (s' := s1) hw rfl g'
                simp only [lineSeqs, hp, hf]
                by_cases hgg : g' = g
                · subst hgg
                  simp only [if_true, futureSeqs, hw, hops, List.tail_cons, logSeqs_cons_log, List.append_assoc,
                    List.singleton_append]
                  exact List.Sublist.refl _
                · have : ¬ g = g' := fun e => hgg e.symm
                  simp only [this, hgg, if_false]
                  exact List.Sublist.refl _
              · apply pass_after_finish (s' := s1) h hw rfl
                intro g' hgg hp
                have : pendSeqs s1 g' = if g = g' then pendSeqs s g' ++ [c.seq] else pendSeqs s g' := hps g'
                rw [this]
                have : ¬ g = g' := fun e => hgg e.symm
                simp [this, hp]
              · intro r hr
                have : r ∈ s.batch ++ (s.buffer ++ [{ g := g, c := c }]) := hr
                rw [← List.append_assoc, List.mem_append, List.mem_singleton] at this
                rcases this with hr | hr
                · exact h.gen r hr
                · subst hr
                  exact logged_of_sync (hs.sync g w hw) hops
            · -- pass-through: blocked in the final handler
              rename_i hnb
              have hemp := empty_of_not_buffering hs (s := s) (by simpa using hnb)
              apply oinv_quiet h [.begin g w.idx]
              · simp
              · simp [isWrite]
              · intro g'
                rw [lineSeqs_gate_eq (s' := emit s [.begin g w.idx]) hw rfl rfl]
                exact List.Sublist.refl _
              · apply pass_after_gate (s' := emit s [.begin g w.idx]) h hw rfl (fun g' _ hp => hp)
                intro r hr
                simp only [Option.some.injEq, Gate.pass.injEq] at hr
                subst hr
                exact ⟨rfl, by rw [hops]; rfl, pendSeqs_nil_of_empty hemp.1 hemp.2 g⟩
              · exact h.gen
        | startBuffering =>
          simp only
          split
          · exact h
          · split
            · exact oinv_finish_quiet (s' := { (emit s [.begin g w.idx]) with buffering := true }) h hw rfl
                [.begin g w.idx] rfl (by simp [isWrite]) rfl
            · rename_i hwr
              have hbuf : s.buffer = [] := hs.f5 (hs.f6 (by simpa using hwr))
              exact oinv_finish_quiet
                (s' := { (emit s [.begin g w.idx]) with wrapped := true, buffering := true, buffer := [] }) h hw rfl
                [.begin g w.idx] rfl (by simp [isWrite]) (by simp [hbuf])
        | setLevel lvl =>
          simp only
          split
          · exact h
          · split
            · exact oinv_finish_quiet h hw rfl [.begin g w.idx] rfl (by simp [isWrite]) rfl
            · split
              · exact oinv_finish_quiet (s' := { (emit s [.begin g w.idx]) with level := lvl }) h hw rfl
                  [.begin g w.idx] rfl (by simp [isWrite]) rfl
              · rename_i hkeep
                have hemp := empty_of_not_buffering hs (s := s) (by simpa [Flags.fixed] using hkeep)
                exact oinv_finish_quiet
                  (s' := { (emit s [.begin g w.idx]) with level := lvl, wrapped := Flags.fixed.stable, buffering := false, buffer := [] })
                  h hw rfl [.begin g w.idx] rfl (by simp [isWrite]) (by simp [hemp.2])
        | shutdown =>
          exact oinv_finish_quiet (s' := { (emit s [.begin g w.idx]) with shutdown := true }) h hw rfl
            [.begin g w.idx] rfl (by simp [isWrite]) rfl
        | flush =>
          simp only
          split
          · exact h
          · rename_i hnf
            have hnone : s.flusher = none := by simpa using hnf
            split
            · exact oinv_finish_quiet h hw rfl [.begin g w.idx] rfl (by simp [isWrite]) rfl
            · exact oinv_flush true hbegin hw (hs.f3 hnone)


/-! ### delivery -/

theorem deliveryMonitor_append (custom : Bool) (progs : List (List Op)) (tr evs : List Ev) :
    deliveryMonitor custom progs (tr ++ evs) = evs.foldl (dStep custom progs) (deliveryMonitor custom progs tr) := by
  simp [deliveryMonitor, List.foldl_append]

/-- the op a synchronised worker stands at is the op of its program at its counter -/
theorem opAt_of_sync {progs : List (List Op)} {g : Nat} {w : Worker} {op : Op} {rest : List Op}
    (hsync : w.ops = (progs[g]?.getD []).drop w.idx) (hops : w.ops = op :: rest) :
    opAt progs g w.idx = some op := by
  unfold opAt
  cases hp : progs[g]? with
  | none => rw [hp] at hsync; simp at hsync; rw [hsync] at hops; cases hops
  | some p =>
    rw [hp] at hsync
    simp only [Option.getD_some] at hsync
    simp only [Option.bind_some]
    have : (p.drop w.idx)[0]? = some op := by rw [← hsync, hops]; rfl
    rw [List.getElem?_drop] at this
    simpa using this

/-- relation between the machine state and the delivery monitor's state -/
structure DRel (custom : Bool) (s : St) (m : DMon) : Prop where
  lvl : m.level = s.level
  sd : m.shutdown = s.shutdown
  cust : s.custom = custom
  ok : m.ok = true
  /-- calls in progress are the workers blocked in a pass-through write -/
  inCall : ∀ (g i : Nat) (b : Bool), (g, i, b) ∈ m.inCall →
    ∃ w r, s.ws[g]? = some w ∧ w.gate = some (.pass r) ∧ w.idx = i ∧ (b = true → r.c.fail = false)
  /-- a returned call that must be delivered is written or waits (unfailing) in the batch or the buffer -/
  ret : ∀ (g x : Nat), (g, x) ∈ m.returned →
    (g, x) ∈ m.written ∨ ∃ r ∈ s.batch ++ s.buffer, r.g = g ∧ r.c.seq = x ∧ r.c.fail = false
  snaps : ∀ (g i : Nat) (snap : List (Nat × Nat)), (g, i, snap) ∈ m.flushes → ∀ gs ∈ snap, gs ∈ m.returned

/-- `done g i` of an op that is neither a log call nor a flush leaves the monitor alone -/
theorem dStep_done_other (custom : Bool) (progs : List (List Op)) (m : DMon) (g i : Nat) (op : Op)
    (hop : opAt progs g i = some op) (h1 : ∀ c, op ≠ .log c) (h2 : op ≠ .flush) :
    dStep custom progs m (.done g i) = m := by
  simp only [dStep, hop]
  cases op with
  | log c => exact absurd rfl (h1 c)
  | flush => exact absurd rfl h2
  | _ => rfl

/-- when nothing is pending every returned call has been written, so a FlushBuffer may return -/
theorem flush_done_ok {custom : Bool} {s : St} {m : DMon} (h : DRel custom s m) (hemp : s.batch ++ s.buffer = [])
    (g i : Nat) :
    (m.ok && (m.flushes.filter fun x => x.1 == g && x.2.1 == i).all fun x => x.2.2.all fun gs => m.written.contains gs) = true := by
  simp only [h.ok, Bool.true_and, List.all_eq_true, List.mem_filter]
  intro x hx gs hgs
  have hret := h.snaps x.1 x.2.1 x.2.2 hx.1 gs hgs
  rcases h.ret gs.1 gs.2 hret with hw | ⟨r, hr, _⟩
  · simpa using hw
  · rw [hemp] at hr; cases hr


/-- no call of worker `g` is in progress unless `g` is blocked in a pass-through write -/
theorem inCall_none {custom : Bool} {s : St} {m : DMon} (h : DRel custom s m) {g : Nat} {w : Worker}
    (hw : s.ws[g]? = some w) (hgate : ∀ r, w.gate ≠ some (.pass r)) : ∀ i b, (g, i, b) ∉ m.inCall := by
  intro i b hmem
  obtain ⟨w', r, hw', hg', _⟩ := h.inCall g i b hmem
  rw [hw] at hw'; cases hw'
  exact hgate r hg'

theorem any_inCall_false {l : List (Nat × Nat × Bool)} {g i : Nat} (hno : ∀ i b, (g, i, b) ∉ l) :
    (l.any fun x => x.1 == g && x.2.1 == i && x.2.2) = false := by
  rw [List.any_eq_false]
  intro x hx
  simp only [Bool.and_eq_true, beq_iff_eq, not_and, Bool.not_eq_true]
  intro h1
  exact absurd hx (by rw [show x = (g, i, x.2.2) from by rw [← h1.1, ← h1.2]]; exact hno i x.2.2)

/-- worker `g` moves (its gate, its program counter) and global flags change; no call of `g` is in
    progress; the monitor changes at most its level and shutdown flag, in step with the state -/
theorem drel_setws {custom : Bool} {s s' : St} {m m' : DMon} {g : Nat} {w w' : Worker}
    (h : DRel custom s m) (hw : s.ws[g]? = some w) (hws : s'.ws = s.ws.set g w')
    (hno : ∀ i b, (g, i, b) ∉ m.inCall)
    (hic : m'.inCall = m.inCall) (hr : m'.returned = m.returned) (hwr : m'.written = m.written)
    (hfl : m'.flushes = m.flushes) (hok : m'.ok = m.ok)
    (hl : m'.level = s'.level) (hsd : m'.shutdown = s'.shutdown) (hc : s'.custom = s.custom)
    (hbb : s'.batch ++ s'.buffer = s.batch ++ s.buffer) : DRel custom s' m' := by
  refine ⟨hl, hsd, by rw [hc]; exact h.cust, by rw [hok]; exact h.ok, ?_, ?_, ?_⟩
  · intro g' i b hmem
    rw [hic] at hmem
    obtain ⟨wx, r, hwx, hg, hi, hb⟩ := h.inCall g' i b hmem
    have hne : g' ≠ g := fun e => hno i b (e ▸ hmem)
    refine ⟨wx, r, ?_, hg, hi, hb⟩
    rw [hws, getElem?_set_worker _ g g' w _ hw]
    simp [hne, hwx]
  · intro g' x hmem
    rw [hr] at hmem
    rw [hwr]
    rcases h.ret g' x hmem with hwr' | ⟨r, hr', hrest⟩
    · exact Or.inl hwr'
    · exact Or.inr ⟨r, by rw [hbb]; exact hr', hrest⟩
  · intro g' i snap hmem gs hgs
    rw [hfl] at hmem
    rw [hr]
    exact h.snaps g' i snap hmem gs hgs

/-- `s'` is reached from `s` emitting some events, and the monitor that has read them is related to `s'` -/
def DStepTo (custom : Bool) (progs : List (List Op)) (s : St) (m : DMon) (s' : St) : Prop :=
  ∃ evs, s'.trace = s.trace ++ evs ∧ DRel custom s' (evs.foldl (dStep custom progs) m)

theorem dstep_refl {custom : Bool} {progs : List (List Op)} {s : St} {m : DMon} (h : DRel custom s m) :
    DStepTo custom progs s m s := ⟨[], by simp, h⟩

/-- the `FlushBuffer` of worker `g` looks at the buffer (at its beginning, or after a batch) -/
theorem drel_flush {custom : Bool} {progs : List (List Op)} {s : St} {m : DMon} {g : Nat} {w : Worker} (first : Bool)
    (h : DRel custom s m) (hw : s.ws[g]? = some w) (hb : s.batch = [])
    (hgate : ∀ r, w.gate ≠ some (.pass r)) (hop : opAt progs g w.idx = some .flush) :
    DStepTo custom progs s m (flushContinue (flushTake Flags.fixed s first) g w) := by
  have hno := inCall_none h hw hgate
  unfold flushTake
  simp only [Flags.fixed, if_true]
  cases hbuf : s.buffer with
  | nil =>
    simp only [flushContinue, hb, List.isEmpty_nil, if_true]
    refine ⟨[.done g w.idx], by simp [finishOp_eq], ?_⟩
    simp only [List.foldl_cons, List.foldl_nil, dStep, hop]
    have hok := flush_done_ok h (by simp [hb, hbuf]) g w.idx
    refine ⟨h.lvl, h.sd, h.cust, hok, ?_, ?_, ?_⟩
    · intro g' i b hmem
      obtain ⟨wx, r, hwx, hg, hi, hbf⟩ := h.inCall g' i b hmem
      have hne : g' ≠ g := fun e => hno i b (e ▸ hmem)
      refine ⟨wx, r, ?_, hg, hi, hbf⟩
      simp only [finishOp_eq, setWorker_ws, emit_ws, getElem?_set_worker _ g g' w _ hw]
      simp [hne, hwx]
    · intro g' x hmem
      rcases h.ret g' x hmem with hwr | ⟨r, hr, _⟩
      · exact Or.inl hwr
      · rw [hb, hbuf] at hr; cases hr
    · intro g' i snap hmem gs hgs
      exact h.snaps g' i snap (List.mem_filter.mp hmem).1 gs hgs
  | cons r rest =>
    simp only [flushContinue, List.isEmpty_cons, Bool.false_eq_true, if_false]
    refine ⟨[], by simp, ?_⟩
    simp only [List.foldl_nil]
    exact drel_setws (w' := { w with gate := some .replay }) h hw rfl hno rfl rfl rfl rfl rfl h.lvl h.sd rfl
      (by simp [hb, hbuf])


theorem dstep_trans {custom : Bool} {progs : List (List Op)} {s s1 s2 : St} {m : DMon}
    (h1 : DStepTo custom progs s m s1) (h2 : ∀ m1, DRel custom s1 m1 → DStepTo custom progs s1 m1 s2) :
    DStepTo custom progs s m s2 := by
  obtain ⟨evs1, htr1, hr1⟩ := h1
  obtain ⟨evs2, htr2, hr2⟩ := h2 _ hr1
  exact ⟨evs1 ++ evs2, by rw [htr2, htr1, List.append_assoc], by rw [List.foldl_append]; exact hr2⟩

/-- finishing an op that is neither a log call nor a flush, with global flags changing in step -/
theorem drel_finish_plain {custom : Bool} {progs : List (List Op)} {s s' : St} {m m' : DMon} {g : Nat} {w : Worker}
    {op : Op} (h : DRel custom s m) (hw : s.ws[g]? = some w) (hgate : ∀ r, w.gate ≠ some (.pass r))
    (hop : opAt progs g w.idx = some op) (h1 : ∀ c, op ≠ .log c) (h2 : op ≠ .flush)
    (hm : dStep custom progs m (.begin g w.idx) = m')
    (hws : s'.ws = s.ws) (htr : s'.trace = s.trace ++ [.begin g w.idx])
    (hic : m'.inCall = m.inCall) (hr : m'.returned = m.returned) (hwr : m'.written = m.written)
    (hfl : m'.flushes = m.flushes) (hok : m'.ok = m.ok)
    (hl : m'.level = s'.level) (hsd : m'.shutdown = s'.shutdown) (hc : s'.custom = s.custom)
    (hbb : s'.batch ++ s'.buffer = s.batch ++ s.buffer) :
    DStepTo custom progs s m (finishOp s' g w) := by
  refine ⟨[.begin g w.idx, .done g w.idx], by simp [finishOp_eq, htr], ?_⟩
  simp only [List.foldl_cons, List.foldl_nil, hm, dStep_done_other custom progs m' g w.idx op hop h1 h2]
  exact drel_setws (s' := finishOp s' g w) (w' := { ops := w.ops.tail, idx := w.idx + 1, gate := none }) h hw
    (by simp [finishOp_eq, hws]) (inCall_none h hw hgate) hic hr hwr hfl hok hl hsd hc hbb

/-- a log call of worker `g` that the monitor says must be delivered is one the logger accepts -/
theorem accepted_of_must {level : Nat} {shutdown : Bool} {c : LogCall} (h : mustDeliver level shutdown c = true) :
    (bif c.stale then decide (1 ≤ c.lvl) else decide (level ≤ c.lvl) && (c.derived || !shutdown)) = true ∧
      c.fail = false := by
  simp only [mustDeliver, Bool.and_eq_true, Bool.not_eq_true'] at h
  obtain ⟨h1, h3⟩ := h
  refine ⟨?_, h3⟩
  cases hst : c.stale with
  | true => simpa [hst] using h1
  | false =>
    simp only [hst, cond_false, Bool.and_eq_true, decide_eq_true_eq, Bool.not_eq_true'] at h1
    simp [h1.1, h1.2]

theorem mem_filter_not {l : List (Nat × Nat × Bool)} {g i : Nat} {x : Nat × Nat × Bool}
    (hx : x ∈ l.filter (fun x => !(x.1 == g && x.2.1 == i))) : x ∈ l ∧ ¬ (x.1 = g ∧ x.2.1 = i) := by
  simp only [List.mem_filter, Bool.not_eq_true', Bool.and_eq_false_iff, beq_eq_false_iff_ne] at hx
  refine ⟨hx.1, ?_⟩
  rintro ⟨h1, h2⟩
  rcases hx.2 with h | h
  · exact h h1
  · exact h h2

/-- the flusher takes the head of its batch to the output (or the environment fails that write) -/
theorem drel_pop {custom : Bool} {progs : List (List Op)} {s : St} {m : DMon} {r : BRec} {rest : List BRec}
    (h : DRel custom s m) (hb : s.batch = r :: rest) :
    DStepTo custom progs s m { (emit s (writeEv Flags.fixed true r)) with batch := rest } := by
  refine ⟨writeEv Flags.fixed true r, rfl, ?_⟩
  rw [writeEv_fixed]
  by_cases hfail : r.c.fail = true
  · simp only [hfail, if_true, List.foldl_nil]
    refine ⟨h.lvl, h.sd, h.cust, h.ok, h.inCall, ?_, h.snaps⟩
    intro g x hmem
    rcases h.ret g x hmem with hwr | ⟨r', hr', h1, h2, h3⟩
    · exact Or.inl hwr
    · rw [hb] at hr'
      simp only [List.cons_append, List.mem_cons] at hr'
      rcases hr' with hr' | hr'
      · subst hr'; rw [hfail] at h3; cases h3
      · exact Or.inr ⟨r', hr', h1, h2, h3⟩
  · simp only [hfail, Bool.false_eq_true, if_false, List.foldl_cons, List.foldl_nil, dStep]
    refine ⟨h.lvl, h.sd, h.cust, h.ok, h.inCall, ?_, h.snaps⟩
    intro g x hmem
    rcases h.ret g x hmem with hwr | ⟨r', hr', h1, h2, h3⟩
    · exact Or.inl (List.mem_cons_of_mem _ hwr)
    · rw [hb] at hr'
      simp only [List.cons_append, List.mem_cons] at hr'
      rcases hr' with hr' | hr'
      · subst hr'; left; rw [h1, h2]; exact List.mem_cons_self ..
      · exact Or.inr ⟨r', hr', h1, h2, h3⟩


/-- a `FlushBuffer` returns while nothing is pending -/
theorem drel_flush_done {custom : Bool} {progs : List (List Op)} {s : St} {m : DMon} {g : Nat} {w : Worker}
    (h : DRel custom s m) (hw : s.ws[g]? = some w) (hemp : s.batch ++ s.buffer = [])
    (hgate : ∀ r, w.gate ≠ some (.pass r)) (hop : opAt progs g w.idx = some .flush) :
    DStepTo custom progs s m (finishOp s g w) := by
  have hno := inCall_none h hw hgate
  refine ⟨[.done g w.idx], by simp [finishOp_eq], ?_⟩
  simp only [List.foldl_cons, List.foldl_nil, dStep, hop]
  have hok := flush_done_ok h hemp g w.idx
  refine ⟨h.lvl, h.sd, h.cust, hok, ?_, ?_, ?_⟩
  · intro g' i b hmem
    obtain ⟨wx, r, hwx, hg, hi, hbf⟩ := h.inCall g' i b hmem
    have hne : g' ≠ g := fun e => hno i b (e ▸ hmem)
    refine ⟨wx, r, ?_, hg, hi, hbf⟩
    simp only [finishOp_eq, setWorker_ws, emit_ws, getElem?_set_worker _ g g' w _ hw]
    simp [hne, hwx]
  · intro g' x hmem
    rcases h.ret g' x hmem with hwr | ⟨r, hr, _⟩
    · exact Or.inl hwr
    · rw [hemp] at hr; cases hr
  · intro g' i snap hmem gs hgs
    exact h.snaps g' i snap (List.mem_filter.mp hmem).1 gs hgs

theorem filter_inCall_eq {l : List (Nat × Nat × Bool)} {g i : Nat} (b : Bool) (hno : ∀ i b, (g, i, b) ∉ l) :
    ((g, i, b) :: l).filter (fun x => !(x.1 == g && x.2.1 == i)) = l := by
  rw [List.filter_cons]
  simp only [beq_self_eq_true, Bool.and_self, Bool.not_true, Bool.false_eq_true, if_false]
  rw [List.filter_eq_self]
  intro x hx
  simp only [Bool.not_eq_true', Bool.and_eq_false_iff, beq_eq_false_iff_ne]
  left
  intro e
  exact hno x.2.1 x.2.2 (by rw [← e]; exact hx)

/-- the delivery relation is preserved by every segment of every worker -/
theorem drel_advance {custom : Bool} {progs : List (List Op)} {s : St} {m : DMon} (g : Nat)
    (hs : SInv progs s) (ho : OInv progs s) (h : DRel custom s m) :
    DStepTo custom progs s m (advance Flags.fixed s g) := by
  unfold advance
  split
  · exact dstep_refl h
  · rename_i w hw
    split
    · -- pass gate: the stalled write completes and the call returns
      rename_i r hgate
      obtain ⟨hrg, hhead, _⟩ := ho.pass g w r hw hgate
      have hops := ops_of_head hhead
      have hop := opAt_of_sync (hs.sync g w hw) hops
      -- the flag the monitor recorded for this call implies the write does not fail
      have hflag : ∀ i b, (g, i, b) ∈ m.inCall → i = w.idx ∧ (b = true → r.c.fail = false) := by
        intro i b hmem
        obtain ⟨w', r', hw', hg', hi, hb⟩ := h.inCall g i b hmem
        rw [hw] at hw'; cases hw'
        rw [hgate] at hg'; cases hg'
        exact ⟨hi.symm, hb⟩
      refine ⟨writeEv Flags.fixed false r ++ [.done g w.idx], by simp [finishOp_eq], ?_⟩
      rw [writeEv_fixed, List.foldl_append]
      simp only [List.foldl_cons, List.foldl_nil]
      -- the monitor after the write event (if any)
      generalize hm1 : (List.foldl (dStep custom progs) m (if r.c.fail = true then [] else [Ev.write r.g r.c.seq true])) = m1
      have hm1' : m1.level = m.level ∧ m1.shutdown = m.shutdown ∧ m1.inCall = m.inCall ∧ m1.returned = m.returned ∧
          m1.flushes = m.flushes ∧ m1.ok = m.ok ∧ (∀ x, x ∈ m.written → x ∈ m1.written) ∧
          (r.c.fail = false → (g, r.c.seq) ∈ m1.written) := by
        by_cases hfail : r.c.fail = true
        · simp only [hfail, if_true, List.foldl_nil] at hm1
          subst hm1
          exact ⟨rfl, rfl, rfl, rfl, rfl, rfl, fun _ hx => hx, fun hc => by rw [hfail] at hc; cases hc⟩
        · simp only [hfail, Bool.false_eq_true, if_false, List.foldl_cons, List.foldl_nil, dStep] at hm1
          subst hm1
          exact ⟨rfl, rfl, rfl, rfl, rfl, rfl, fun _ hx => List.mem_cons_of_mem _ hx, fun _ => by rw [hrg]; exact List.mem_cons_self ..⟩
      obtain ⟨e1, e2, e3, e4, e5, e6, e7, e8⟩ := hm1'
      simp only [dStep, hop]
      refine ⟨by simp [finishOp_eq, e1, h.lvl], by simp [finishOp_eq, e2, h.sd], by simp [finishOp_eq, h.cust],
        by rw [e6]; exact h.ok, ?_, ?_, ?_⟩
      · intro g' i b hmem
        obtain ⟨hmem', hnot⟩ := mem_filter_not hmem
        rw [e3] at hmem'
        obtain ⟨wx, r', hwx, hg, hi, hbf⟩ := h.inCall g' i b hmem'
        have hne : g' ≠ g := by
          intro e
          subst e
          exact hnot ⟨rfl, (hflag i b hmem').1⟩
        refine ⟨wx, r', ?_, hg, hi, hbf⟩
        simp only [finishOp_eq, setWorker_ws, emit_ws, getElem?_set_worker _ g g' w _ hw]
        simp [hne, hwx]
      · intro g' x hmem
        simp only at hmem
        have hold : (g', x) ∈ m.returned → (g', x) ∈ m1.written ∨
            ∃ r' ∈ (finishOp (emit s (if r.c.fail = true then [] else [Ev.write r.g r.c.seq true])) g w).batch ++
              (finishOp (emit s (if r.c.fail = true then [] else [Ev.write r.g r.c.seq true])) g w).buffer,
              r'.g = g' ∧ r'.c.seq = x ∧ r'.c.fail = false := by
          intro hm
          rcases h.ret g' x hm with hwr | hr
          · exact Or.inl (e7 _ hwr)
          · exact Or.inr hr
        split at hmem
        · rename_i hmust
          simp only [List.mem_cons, Prod.mk.injEq] at hmem
          rcases hmem with ⟨hg', hx'⟩ | hmem
          · subst hg'; subst hx'
            left
            apply e8
            rw [List.any_eq_true] at hmust
            obtain ⟨y, hy, hyp⟩ := hmust
            simp only [Bool.and_eq_true, beq_iff_eq] at hyp
            rw [e3] at hy
            have := (hflag y.2.1 y.2.2 (by rw [← hyp.1.1]; exact hy)).2 hyp.2
            exact this
          · rw [e4] at hmem; exact hold hmem
        · rw [e4] at hmem; exact hold hmem
      · intro g' i snap hmem gs hgs
        simp only at hmem
        rw [e5] at hmem
        have := h.snaps g' i snap hmem gs hgs
        simp only
        split
        · exact List.mem_cons_of_mem _ (by rw [e4]; exact this)
        · rw [e4]; exact this
    · -- replay gate
      rename_i hgate
      have hnp : ∀ r, w.gate ≠ some (.pass r) := by intro r hc; rw [hgate] at hc; cases hc
      have hhead := hs.repOp g w hw hgate
      have hop := opAt_of_sync (hs.sync g w hw) (ops_of_head hhead)
      split
      · rename_i hb
        exact drel_flush false h hw hb hnp hop
      · rename_i r rest hb
        simp only [Flags.fixed, Bool.not_true, Bool.and_false, Bool.false_eq_true, if_false]
        have hpop := drel_pop (progs := progs) h hb
        split
        · rename_i hemp
          have hrest : rest = [] := by simpa using hemp
          subst hrest
          exact dstep_trans hpop (fun m1 h1 => drel_flush false h1 hw rfl hnp hop)
        · exact hpop
    · -- between ops
      rename_i hgn
      have hnp : ∀ r, w.gate ≠ some (.pass r) := by intro r hc; rw [hgn] at hc; cases hc
      have hno := inCall_none h hw hnp
      split
      · exact dstep_refl h
      · rename_i op rest hops
        have hop := opAt_of_sync (hs.sync g w hw) hops
        cases op with
        | log c =>
          simp only
          have hm1 : dStep custom progs m (.begin g w.idx) =
              { m with inCall := (g, w.idx, mustDeliver s.level s.shutdown c) :: m.inCall } := by
            simp [dStep, hop, h.lvl, h.sd]
          have hany : ((g, w.idx, mustDeliver s.level s.shutdown c) :: m.inCall).any
              (fun x => x.1 == g && x.2.1 == w.idx && x.2.2) = mustDeliver s.level s.shutdown c := by
            simp [List.any_cons, any_inCall_false hno]
          simp only [Flags.fixed, Bool.not_true, Bool.and_false, Bool.false_eq_true, if_false]
          split
          · -- not accepted: the call returns at once
            rename_i hrej
            have hmust : mustDeliver s.level s.shutdown c = false := by
              cases hmd : mustDeliver s.level s.shutdown c with
              | false => rfl
              | true =>
                have hacc := (accepted_of_must hmd).1
                simp only [emit_level, emit_shutdown] at hrej
                cases hst : c.stale with
                | true =>
                  simp only [hst, cond_true, Bool.not_eq_true', decide_eq_false_iff_not, decide_eq_true_eq] at hrej hacc
                  exact absurd hacc hrej
                | false =>
                  simp only [hst, cond_false, Bool.not_eq_true', Bool.and_eq_false_iff, Bool.and_eq_true, Bool.or_eq_true,
                    Bool.or_eq_false_iff, Bool.not_eq_false', decide_eq_true_eq] at hrej hacc
                  rcases hrej with hr | ⟨hr1, hr2⟩
                  · exact absurd hacc.1 (of_decide_eq_false hr)
                  · rcases hacc.2 with hd | hd
                    · rw [hr1] at hd; cases hd
                    · rw [hr2] at hd; cases hd
            refine ⟨[.begin g w.idx, .done g w.idx], by simp [finishOp_eq], ?_⟩
            simp only [List.foldl_cons, List.foldl_nil]
            rw [hm1]
            simp only [dStep, hop]
            rw [hany, hmust]
            simp only [Bool.false_eq_true, if_false, filter_inCall_eq _ hno]
            exact drel_setws (s' := finishOp (emit s [.begin g w.idx]) g w)
              (w' := { ops := w.ops.tail, idx := w.idx + 1, gate := none }) h hw (by simp [finishOp_eq]) hno
              rfl rfl rfl rfl rfl h.lvl h.sd rfl rfl
          · split
            · -- buffered: the call returns at once, the record waits in the buffer
              refine ⟨[.begin g w.idx, .done g w.idx], by simp [finishOp_eq], ?_⟩
              simp only [List.foldl_cons, List.foldl_nil]
              rw [hm1]
              simp only [dStep, hop]
              rw [hany]
              simp only [filter_inCall_eq _ hno]
              refine ⟨h.lvl, h.sd, h.cust, h.ok, ?_, ?_, ?_⟩
              · intro g' i b hmem
                obtain ⟨wx, r, hwx, hg, hi, hbf⟩ := h.inCall g' i b hmem
                have hne : g' ≠ g := fun e => hno i b (e ▸ hmem)
                refine ⟨wx, r, ?_, hg, hi, hbf⟩
                simp only [finishOp_eq, setWorker_ws, emit_ws, getElem?_set_worker _ g g' w _ hw]
                simp [hne, hwx]
              · intro g' x hmem
                simp only at hmem
                have hold : (g', x) ∈ m.returned → (g', x) ∈ m.written ∨
                    ∃ r' ∈ s.batch ++ (s.buffer ++ [{ g := g, c := c }]), r'.g = g' ∧ r'.c.seq = x ∧ r'.c.fail = false := by
                  intro hm
                  rcases h.ret g' x hm with hwr | ⟨r', hr', hrest⟩
                  · exact Or.inl hwr
                  · refine Or.inr ⟨r', ?_, hrest⟩
                    rw [← List.append_assoc]
                    exact List.mem_append_left _ hr'
                split at hmem
                · rename_i hmust
                  simp only [List.mem_cons, Prod.mk.injEq] at hmem
                  rcases hmem with ⟨hg', hx'⟩ | hmem
                  · subst hg'; subst hx'
                    right
                    exact ⟨{ g := g', c := c }, by simp [finishOp_eq], rfl, rfl, (accepted_of_must hmust).2⟩
                  · exact hold hmem
                · exact hold hmem
              · intro g' i snap hmem gs hgs
                have := h.snaps g' i snap hmem gs hgs
                simp only
                split
                · exact List.mem_cons_of_mem _ this
                · exact this
            · -- pass-through: the call is in progress, blocked in the final handler
              refine ⟨[.begin g w.idx], by simp, ?_⟩
              simp only [List.foldl_cons, List.foldl_nil]
              rw [hm1]
              refine ⟨h.lvl, h.sd, h.cust, h.ok, ?_, h.ret, h.snaps⟩
              intro g' i b hmem
              simp only [List.mem_cons, Prod.mk.injEq] at hmem
              rcases hmem with ⟨hg', hi', hb'⟩ | hmem
              · subst hg'; subst hi'
                refine ⟨{ w with gate := some (.pass { g := g', c := c }) }, { g := g', c := c }, ?_, rfl, rfl, ?_⟩
                · simp only [setWorker_ws, emit_ws, getElem?_set_worker _ g' g' w _ hw, if_true]
                · intro hbt
                  rw [hbt] at hb'
                  exact (accepted_of_must hb'.symm).2
              · obtain ⟨wx, r, hwx, hg, hi, hbf⟩ := h.inCall g' i b hmem
                have hne : g' ≠ g := fun e => hno i b (e ▸ hmem)
                refine ⟨wx, r, ?_, hg, hi, hbf⟩
                simp only [setWorker_ws, emit_ws, getElem?_set_worker _ g g' w _ hw]
                simp [hne, hwx]
        | startBuffering =>
          simp only
          split
          · exact dstep_refl h
          · have hm : dStep custom progs m (.begin g w.idx) = m := by simp [dStep, hop]
            split
            · exact drel_finish_plain (s' := { (emit s [.begin g w.idx]) with buffering := true }) h hw hnp hop
                (by intro c hc; cases hc) (by intro hc; cases hc) hm rfl rfl rfl rfl rfl rfl rfl h.lvl h.sd rfl rfl
            · rename_i hwr
              have hbuf : s.buffer = [] := hs.f5 (hs.f6 (by simpa using hwr))
              exact drel_finish_plain
                (s' := { (emit s [.begin g w.idx]) with wrapped := true, buffering := true, buffer := [] }) h hw hnp hop
                (by intro c hc; cases hc) (by intro hc; cases hc) hm rfl rfl rfl rfl rfl rfl rfl h.lvl h.sd rfl
                (by simp [hbuf])
        | setLevel lvl =>
          simp only
          split
          · exact dstep_refl h
          · split
            · rename_i hcust
              have hc : custom = true := by rw [← h.cust]; simpa using hcust
              have hm : dStep custom progs m (.begin g w.idx) = m := by simp [dStep, hop, hc]
              exact drel_finish_plain (s' := emit s [.begin g w.idx]) h hw hnp hop
                (by intro c hc; cases hc) (by intro hc; cases hc) hm rfl rfl rfl rfl rfl rfl rfl h.lvl h.sd rfl rfl
            · rename_i hcust
              have hc : custom = false := by rw [← h.cust]; simpa using hcust
              have hm : dStep custom progs m (.begin g w.idx) = { m with level := lvl } := by simp [dStep, hop, hc]
              split
              · exact drel_finish_plain (s' := { (emit s [.begin g w.idx]) with level := lvl }) h hw hnp hop
                  (by intro c hc; cases hc) (by intro hc; cases hc) hm rfl rfl rfl rfl rfl rfl rfl rfl h.sd rfl rfl
              · rename_i hkeep
                have hemp := empty_of_not_buffering hs (s := s) (by simpa [Flags.fixed] using hkeep)
                exact drel_finish_plain
                  (s' := { (emit s [.begin g w.idx]) with level := lvl, wrapped := Flags.fixed.stable, buffering := false, buffer := [] })
                  h hw hnp hop (by intro c hc; cases hc) (by intro hc; cases hc) hm rfl rfl rfl rfl rfl rfl rfl rfl h.sd rfl
                  (by simp [hemp.2])
        | shutdown =>
          have hm : dStep custom progs m (.begin g w.idx) = { m with shutdown := true } := by simp [dStep, hop]
          exact drel_finish_plain (s' := { (emit s [.begin g w.idx]) with shutdown := true }) h hw hnp hop
            (by intro c hc; cases hc) (by intro hc; cases hc) hm rfl rfl rfl rfl rfl rfl rfl h.lvl rfl rfl rfl
        | flush =>
          simp only
          split
          · exact dstep_refl h
          · rename_i hnf
            have hnone : s.flusher = none := by simpa using hnf
            -- the monitor notes what had returned when this FlushBuffer began
            have hbeg : DStepTo custom progs s m (emit s [.begin g w.idx]) := by
              refine ⟨[.begin g w.idx], rfl, ?_⟩
              simp only [List.foldl_cons, List.foldl_nil, dStep, hop]
              refine ⟨h.lvl, h.sd, h.cust, h.ok, h.inCall, h.ret, ?_⟩
              intro g' i snap hmem gs hgs
              simp only [List.mem_cons, Prod.mk.injEq] at hmem
              rcases hmem with ⟨_, _, hsnap⟩ | hmem
              · rw [hsnap] at hgs; exact hgs
              · exact h.snaps g' i snap hmem gs hgs
            split
            · rename_i hwr
              have hemp := empty_of_not_buffering hs (s := s) (by simp at hwr; simp [hwr])
              exact dstep_trans hbeg (fun m1 h1 => drel_flush_done h1 hw (by simp [hemp.1, hemp.2]) hnp hop)
            · exact dstep_trans hbeg (fun m1 h1 => drel_flush true h1 hw (hs.f3 hnone) hnp hop)

end Rivaas.LogBuf
