import Rivaas.Model.Compiler
import Rivaas.Lemmas.RadixBuild
/-
C11, static side: bloom filters never hide a key that was added, hash-keyed tables are tables keyed by
the text when the hash separates the keys in play.
-/
namespace Rivaas.CompilerL
open Rivaas.Route Rivaas.Radix Rivaas.Compiler Rivaas.Match Rivaas.RadixL

/-! ### bloom filter -/

/-- every position the filter computes for `h` is set -/
def Bloom.has (b : Bloom) (h : Nat) : Prop := ∀ s ∈ b.seeds, b.pos h s ∈ b.bits

theorem Bloom.has_add_self (b : Bloom) (h : Nat) : Bloom.has (b.add h) h := by
  intro s hs
  simp only [Bloom.add] at hs ⊢
  simp only [List.mem_append, List.mem_map]
  left; exact ⟨s, hs, rfl⟩

theorem Bloom.has_add_mono (b : Bloom) (h h' : Nat) (hb : Bloom.has b h) : Bloom.has (b.add h') h := by
  intro s hs
  simp only [Bloom.add] at hs ⊢
  simp only [List.mem_append]
  right; exact hb s hs

theorem Bloom.test_of_has (b : Bloom) (h : Nat) (hb : Bloom.has b h) : b.test h = true := by
  unfold Bloom.test
  simp only [List.all_eq_true, List.contains_iff_mem]
  exact hb

/-! ### hash-keyed association lists -/

theorem mapGet_mapSet {α} (k k' : Nat) (v : α) (l : List (Nat × α)) :
    mapGet k (mapSet k' v l) = if k = k' then some v else mapGet k l := by
  induction l with
  | nil =>
    by_cases h : k = k'
    · subst h; simp [mapSet, mapGet]
    · have : ¬ k' = k := fun e => h e.symm
      simp [mapSet, mapGet, h, this]
  | cons a rest ih =>
    obtain ⟨ka, va⟩ := a
    simp only [mapSet]
    by_cases hk : ka = k'
    · subst hk
      simp only [if_true, mapGet]
      by_cases h : k = ka
      · subst h; simp
      · have : ¬ ka = k := fun e => h e.symm
        simp [h, this]
    · simp only [hk, if_false, mapGet, ih]
      by_cases h : ka = k
      · subst h
        have : ¬ ka = k' := hk
        simp [this]
      · simp [h]

theorem mapGet_mapDel_ne {α} (k k' : Nat) (l : List (Nat × α)) (h : k ≠ k') :
    mapGet k (mapDel k' l) = mapGet k l := by
  induction l with
  | nil => rfl
  | cons a rest ih =>
    obtain ⟨ka, va⟩ := a
    simp only [mapDel]
    by_cases hk : ka = k'
    · subst hk
      have : ¬ ka = k := fun e => h e.symm
      simp [mapGet, this]
    · simp only [hk, if_false, mapGet, ih]

/-! ### the per-tree table of static routes -/

/-- `hash` separates the listed keys -/
def InjOn (hash : Bytes → Nat) (keys : List Bytes) : Prop :=
  ∀ a ∈ keys, ∀ b ∈ keys, hash a = hash b → a = b

/-- the table after `fillTable`: lookup by hash, and the bloom filter holds every stored key -/
theorem fillTable_char (hash : Bytes → Nat) (statics : List (Bytes × Leaf)) (tb : Table)
    (hgood : ∀ p lf, (p, lf) ∈ statics → p ≠ [] ∧ ¬ p.contains ':' = true) :
    ∀ (h : Nat),
      mapGet h (statics.foldl (fun tb (x : Bytes × Leaf) =>
          if x.1 = [] ∨ x.1.contains ':' = true then tb
          else { routes := mapSet (hash x.1) (x.1, x.2) tb.routes, bloom := tb.bloom.add (hash x.1) }) tb).routes =
        (RadixL.lastSome (fun (x : Bytes × Leaf) => if hash x.1 = h then some x else none) statics <|> mapGet h tb.routes) := by
  induction statics generalizing tb with
  | nil => intro h; simp [RadixL.lastSome]
  | cons a rest ih =>
    intro h
    obtain ⟨p, lf⟩ := a
    obtain ⟨hp1, hp2⟩ := hgood p lf (List.mem_cons_self ..)
    simp only [List.foldl_cons]
    have hc : ¬ (p = [] ∨ p.contains ':' = true) := by
      intro hh; rcases hh with hh | hh
      · exact hp1 hh
      · exact hp2 hh
    simp only [hc, if_false]
    rw [ih _ (fun p' lf' hm => hgood p' lf' (List.mem_cons_of_mem _ hm))]
    simp only [mapGet_mapSet, RadixL.lastSome]
    cases RadixL.lastSome (fun (x : Bytes × Leaf) => if hash x.1 = h then some x else none) rest with
    | some v => simp
    | none =>
      by_cases hh : hash p = h
      · subst hh; simp
      · have : ¬ h = hash p := fun e => hh e.symm
        simp [hh, this]


/-- the fold of `fillTable`, with the lambda in projection form -/
def fillStep (hash : Bytes → Nat) (tb : Table) (x : Bytes × Leaf) : Table :=
  if x.1 = [] ∨ x.1.contains ':' = true then tb
  else { routes := mapSet (hash x.1) (x.1, x.2) tb.routes, bloom := tb.bloom.add (hash x.1) }

theorem fillTable_eq (hash : Bytes → Nat) (t : Tree) (tb : Table) :
    fillTable hash t tb = t.statics.foldl (fillStep hash) tb := by
  unfold fillTable
  congr 1

/-- every key stored in the table is in its bloom filter -/
def TableOK (tb : Table) : Prop := ∀ h, (mapGet h tb.routes).isSome = true → Bloom.has tb.bloom h

theorem fillStep_ok (hash : Bytes → Nat) (tb : Table) (x : Bytes × Leaf) (h : TableOK tb) : TableOK (fillStep hash tb x) := by
  unfold fillStep
  split
  · exact h
  · intro k hk
    simp only [mapGet_mapSet] at hk
    by_cases hkk : k = hash x.1
    · subst hkk; exact Bloom.has_add_self _ _
    · simp only [hkk, if_false] at hk
      exact Bloom.has_add_mono _ _ _ (h k hk)

theorem fold_ok (hash : Bytes → Nat) (l : List (Bytes × Leaf)) (tb : Table) (h : TableOK tb) :
    TableOK (l.foldl (fillStep hash) tb) := by
  induction l generalizing tb with
  | nil => exact h
  | cons a rest ih => exact ih _ (fillStep_ok hash tb a h)

/-- **the bloom stage of a table lookup is invisible** -/
theorem Table.get_eq (hash : Bytes → Nat) (tb : Table) (h : TableOK tb) (path : Bytes) :
    tb.get hash path = mapGet (hash path) tb.routes := by
  unfold Table.get
  split
  · rfl
  · cases hm : mapGet (hash path) tb.routes with
    | none => split <;> rfl
    | some v =>
      have := Bloom.test_of_has _ _ (h (hash path) (by rw [hm]; rfl))
      simp [this]

theorem fold_routes (hash : Bytes → Nat) (statics : List (Bytes × Leaf)) (tb : Table)
    (hgood : ∀ x ∈ statics, x.1 ≠ [] ∧ ¬ x.1.contains ':' = true) (h : Nat) :
    mapGet h (statics.foldl (fillStep hash) tb).routes =
      (RadixL.lastSome (fun (x : Bytes × Leaf) => if hash x.1 = h then some x else none) statics <|> mapGet h tb.routes) := by
  induction statics generalizing tb with
  | nil => simp [RadixL.lastSome]
  | cons a rest ih =>
    obtain ⟨hp1, hp2⟩ := hgood a (List.mem_cons_self ..)
    simp only [List.foldl_cons]
    rw [ih _ (fun x hm => hgood x (List.mem_cons_of_mem _ hm))]
    have hc : ¬ (a.1 = [] ∨ a.1.contains ':' = true) := by
      intro hh; rcases hh with hh | hh
      · exact hp1 hh
      · exact hp2 hh
    simp only [fillStep, hc, if_false, mapGet_mapSet, RadixL.lastSome]
    cases RadixL.lastSome (fun (x : Bytes × Leaf) => if hash x.1 = h then some x else none) rest with
    | some v => simp
    | none =>
      by_cases hh : hash a.1 = h
      · subst hh; simp
      · have : ¬ h = hash a.1 := fun e => hh e.symm
        simp [hh, this]

theorem lastSome_unique (p : Bytes) (l : List (Bytes × Leaf)) (hnd : (l.map (·.1)).Nodup) :
    RadixL.lastSome (fun (x : Bytes × Leaf) => if x.1 = p then some x else none) l =
      (getStatic p l).map fun lf => (p, lf) := by
  induction l with
  | nil => rfl
  | cons a rest ih =>
    obtain ⟨k, v⟩ := a
    simp only [List.map_cons, List.nodup_cons] at hnd
    simp only [RadixL.lastSome, getStatic]
    by_cases hk : k = p
    · subst hk
      have : RadixL.lastSome (fun (x : Bytes × Leaf) => if x.1 = k then some x else none) rest = none := by
        apply RadixL.lastSome_none
        intro x hx
        have : ¬ x.1 = k := by
          intro e
          exact hnd.1 (List.mem_map.mpr ⟨x, hx, e⟩)
        simp [this]
      simp [this]
    · simp [hk, ih hnd.2]

theorem setStatic_keys (k : Bytes) (lf : Leaf) (l : List (Bytes × Leaf)) (x : Bytes × Leaf) (hx : x ∈ setStatic k lf l) :
    x = (k, lf) ∨ x ∈ l := by
  induction l with
  | nil => simp [setStatic] at hx; left; exact hx
  | cons a rest ih =>
    obtain ⟨k', v'⟩ := a
    simp only [setStatic] at hx
    by_cases hk : k' = k
    · simp only [hk, if_true, List.mem_cons] at hx
      rcases hx with h | h
      · left; exact h
      · right; exact List.mem_cons_of_mem _ h
    · simp only [hk, if_false, List.mem_cons] at hx
      rcases hx with h | h
      · right; rw [h]; exact List.mem_cons_self ..
      · rcases ih h with h | h
        · left; exact h
        · right; exact List.mem_cons_of_mem _ h

theorem setStatic_nodup (k : Bytes) (lf : Leaf) (l : List (Bytes × Leaf)) (h : (l.map (·.1)).Nodup) :
    ((setStatic k lf l).map (·.1)).Nodup := by
  induction l with
  | nil => simp [setStatic]
  | cons a rest ih =>
    obtain ⟨k', v'⟩ := a
    simp only [List.map_cons, List.nodup_cons] at h
    simp only [setStatic]
    by_cases hk : k' = k
    · subst hk
      simp only [if_true, List.map_cons, List.nodup_cons]
      exact h
    · simp only [hk, if_false, List.map_cons, List.nodup_cons]
      refine ⟨?_, ih h.2⟩
      intro hm
      obtain ⟨x, hx, hxk⟩ := List.mem_map.mp hm
      rcases setStatic_keys k lf rest x hx with rfl | hx'
      · exact hk hxk.symm
      · exact h.1 (List.mem_map.mpr ⟨x, hx', hxk⟩)


/-! ### `staticPaths` of a method tree built from routes of the vocabulary -/

theorem staticsOf_inv (R : List Route) (m : Bytes) :
    ((staticsOf R m).map (·.1)).Nodup ∧
    ∀ x ∈ staticsOf R m, ∃ r ∈ R, r.method = m ∧ inTree r = false ∧ x = (r.text, leafOf r) := by
  unfold staticsOf
  have hgen : ∀ (L : List Route) (l0 : List (Bytes × Leaf)), (∀ r ∈ L, r ∈ R ∧ r.method = m ∧ inTree r = false) →
      (l0.map (·.1)).Nodup → (∀ x ∈ l0, ∃ r ∈ R, r.method = m ∧ inTree r = false ∧ x = (r.text, leafOf r)) →
      ((L.foldl (fun l r => setStatic r.text (leafOf r) l) l0).map (·.1)).Nodup ∧
      ∀ x ∈ L.foldl (fun l r => setStatic r.text (leafOf r) l) l0,
        ∃ r ∈ R, r.method = m ∧ inTree r = false ∧ x = (r.text, leafOf r) := by
    intro L
    induction L with
    | nil => intro l0 _ h1 h2; exact ⟨h1, h2⟩
    | cons r rest ih =>
      intro l0 hL h1 h2
      simp only [List.foldl_cons]
      apply ih _ (fun x hx => hL x (List.mem_cons_of_mem _ hx)) (setStatic_nodup _ _ _ h1)
      intro x hx
      rcases setStatic_keys _ _ _ x hx with rfl | hx
      · obtain ⟨hr, hm, ht⟩ := hL r (List.mem_cons_self ..)
        exact ⟨r, hr, hm, ht, rfl⟩
      · exact h2 x hx
  apply hgen _ [] _ (by simp) (by simp)
  intro r hr
  have := List.mem_filter.mp hr
  simp only [Bool.and_eq_true, decide_eq_true_eq, Bool.not_eq_true'] at this
  exact ⟨this.1, this.2.1, this.2.2⟩

/-- the text of a parameter-free route of the vocabulary: non-empty, no `:` -/
theorem static_text_good (r : Route) (hn : NormalPat r.text r.pat) (ht : inTree r = false) :
    r.text ≠ [] ∧ ¬ r.text.contains ':' = true ∧ r.text ≠ ['/'] := by
  obtain ⟨hs, hne⟩ := notInTree r ht
  have hnw : ∀ s ∈ r.pat, s ≠ PSeg.wild := by
    intro s hs' e
    subst e
    simp only [isStaticPat, List.all_eq_true, decide_eq_true_eq] at hs
    have := hs _ hs'
    simp [kind] at this
  have hc := colon_iff r.pat hn.segs hnw
  rw [hs, ← hn.text] at hc
  refine ⟨by rw [hn.text]; simp [render], by simpa using hc, ?_⟩
  have := (render_ne r.pat hne hn.segs).1
  rw [← hn.text] at this
  exact this

/-- **the per-tree table answers exactly like `staticPaths`** (for every bloom size and number of
hash functions), when the hash separates the static texts and the path -/
theorem table_get_statics (hash : Bytes → Nat) (R : List Route) (hR : ∀ r ∈ R, NormalPat r.text r.pat) (m : Bytes)
    (b0 : Bloom) (path : Bytes) (hinj : InjOn hash (path :: R.map (·.text))) :
    ((staticsOf R m).foldl (fillStep hash) ⟨[], b0⟩).get hash path =
      (getStatic path (staticsOf R m)).map fun lf => (path, lf) := by
  obtain ⟨hnd, hmem⟩ := staticsOf_inv R m
  have hok : TableOK ((staticsOf R m).foldl (fillStep hash) ⟨[], b0⟩) :=
    fold_ok hash _ _ (by intro h hh; simp [mapGet] at hh)
  rw [Table.get_eq hash _ hok]
  have hgood : ∀ x ∈ staticsOf R m, x.1 ≠ [] ∧ ¬ x.1.contains ':' = true := by
    intro x hx
    obtain ⟨r, hr, _, ht, rfl⟩ := hmem x hx
    have := static_text_good r (hR r hr) ht
    exact ⟨this.1, this.2.1⟩
  rw [fold_routes hash _ _ hgood]
  simp only [mapGet]
  rw [← lastSome_unique path _ hnd]
  have : RadixL.lastSome (fun (x : Bytes × Leaf) => if hash x.1 = hash path then some x else none) (staticsOf R m) =
      RadixL.lastSome (fun (x : Bytes × Leaf) => if x.1 = path then some x else none) (staticsOf R m) := by
    apply RadixL.lastSome_congr_mem
    intro x hx
    obtain ⟨r, hr, _, _, rfl⟩ := hmem x hx
    by_cases he : r.text = path
    · simp [he]
    · have : ¬ hash r.text = hash path := by
        intro hh
        exact he (hinj r.text (by simp; right; exact ⟨r, hr, rfl⟩) path (by simp) hh)
      simp [he, this]
  rw [this]
  cases RadixL.lastSome (fun (x : Bytes × Leaf) => if x.1 = path then some x else none) (staticsOf R m) <;> rfl

end Rivaas.CompilerL
