import Rivaas.Lemmas.CompilerDynamic
/-
C11: the state of the route compiler after the registration script — which compiled routes the dynamic
list holds, what the static map answers.
-/
namespace Rivaas.CompilerL
open Rivaas.Route Rivaas.Radix Rivaas.Compiler Rivaas.Match Rivaas.RadixL

/-- the compiled form of an oracle route -/
def C (r : Route) : CRoute := compileRoute r.method r.text r.cons r.rid

/-- `RegisterRoute`, compiler part, for an oracle route -/
def rcRegisterR (hash : Bytes → Nat) (rc : RC) (r : Route) : RC := (rc.remove hash r.method r.text).add hash (C r)

theorem rcBuildFrom_eq (hash : Bytes → Nat) (script : List Reg) : ∀ (i : Nat) (R : List Route),
    specRoutesFrom i script = some R → ∀ rc : RC, rcBuildFrom hash rc i script = R.foldl (rcRegisterR hash) rc := by
  induction script with
  | nil =>
    intro i R h rc
    simp only [specRoutesFrom, Option.some.injEq] at h
    subst h; rfl
  | cons g gs ih =>
    intro i R h rc
    simp only [specRoutesFrom] at h
    cases hp : parsePattern (regText g) with
    | none => simp [hp] at h
    | some p =>
      cases hr : specRoutesFrom (i + 1) gs with
      | none => simp [hp, hr] at h
      | some rest =>
        simp only [hp, hr, Option.some.injEq] at h
        subst h
        simp only [rcBuildFrom, List.foldl_cons]
        rw [ih (i + 1) rest hr]
        congr 1
        simp only [rcRegister, rcRegisterR, C, flatten_groups]

/-! ### list surgery of `RemoveRoute` and `sortRoutesBySpecificity` -/

def keyIs (m p : Bytes) (x : CRoute) : Bool := x.method = m && x.pattern = p

/-- the tail with its last element moved to the front -/
def tailMove (l : List CRoute) : List CRoute :=
  match l.getLast? with
  | some z => z :: l.dropLast
  | none => []

theorem tailMove_perm (l : List CRoute) : (tailMove l).Perm l := by
  unfold tailMove
  cases hl : l.getLast? with
  | none =>
    have : l = [] := List.getLast?_eq_none_iff.mp hl
    subst this; exact List.Perm.refl _
  | some z =>
    have hne : l ≠ [] := by intro e; subst e; simp at hl
    have h1 := List.dropLast_concat_getLast hne
    rw [List.getLast?_eq_some_getLast hne] at hl
    injection hl with hl
    rw [hl] at h1
    simp only
    conv => rhs; rw [← h1]
    exact (List.perm_append_singleton z l.dropLast).symm

theorem swapRemove_eq (m p : Bytes) (l : List CRoute) :
    (swapRemove m p l).Perm (l.eraseP (keyIs m p)) := by
  induction l with
  | nil => exact List.Perm.refl _
  | cons r rest ih =>
    simp only [swapRemove]
    by_cases hk : r.method = m ∧ r.pattern = p
    · simp only [hk, and_self, if_true]
      have hk' : keyIs m p r = true := by simp [keyIs, hk]
      rw [List.eraseP_cons_of_pos hk']
      exact tailMove_perm rest
    · simp only [hk, if_false]
      have hk' : ¬ keyIs m p r = true := by
        simp only [keyIs, Bool.and_eq_true, decide_eq_true_eq]; exact hk
      rw [List.eraseP_cons_of_neg hk']
      exact List.Perm.cons _ ih

theorem insertSpec_perm (key : CRoute) (acc : List CRoute) : (insertSpec key acc).Perm (key :: acc) := by
  induction acc with
  | nil => exact List.Perm.refl _
  | cons r rest ih =>
    simp only [insertSpec]
    split
    · exact List.Perm.refl _
    · exact (List.Perm.cons r ih).trans (List.Perm.swap key r rest)

theorem sortSpec_perm (l : List CRoute) : (sortSpec l).Perm l := by
  unfold sortSpec
  have hgen : ∀ (l acc : List CRoute), (l.foldl (fun acc r => insertSpec r acc) acc).Perm (l ++ acc) := by
    intro l
    induction l with
    | nil => intro acc; exact List.Perm.refl _
    | cons r rest ih =>
      intro acc
      simp only [List.foldl_cons]
      refine (ih _).trans ?_
      refine (List.Perm.append_left rest (insertSpec_perm r acc)).trans ?_
      simp only [List.cons_append]
      exact List.perm_middle
  simpa using hgen l []

/-- keys of the dynamic list -/
def dkeys (l : List CRoute) : List (Bytes × Bytes) := l.map fun c => (c.method, c.pattern)

theorem eraseP_nokey (m p : Bytes) (l : List CRoute) (hnd : (dkeys l).Nodup) :
    ∀ x ∈ l.eraseP (keyIs m p), ¬ (x.method = m ∧ x.pattern = p) := by
  induction l with
  | nil => simp
  | cons a rest ih =>
    simp only [dkeys, List.map_cons, List.nodup_cons] at hnd
    intro x hx hk
    by_cases ha : keyIs m p a = true
    · rw [List.eraseP_cons_of_pos ha] at hx
      simp only [keyIs, Bool.and_eq_true, decide_eq_true_eq] at ha
      apply hnd.1
      simp only [List.mem_map]
      exact ⟨x, hx, by rw [hk.1, hk.2, ha.1, ha.2]⟩
    · rw [List.eraseP_cons_of_neg ha] at hx
      simp only [List.mem_cons] at hx
      rcases hx with rfl | hx
      · apply ha; simp [keyIs, hk]
      · exact ih hnd.2 x hx hk


/-! ### the dynamic list after a registration sequence -/

/-- routes of the vocabulary -/
def GoodR (R : List Route) : Prop := ∀ r ∈ R, NormalPat r.text r.pat

/-- every compiled route in the dynamic list is the compiled form of a parameter route without
wildcard that is the last registration of its (method, pattern); one entry per (method, pattern) -/
def DynInv (Rp : List Route) (dyn : List CRoute) : Prop :=
  (∀ cr ∈ dyn, ∃ R1 r R2, Rp = R1 ++ r :: R2 ∧ cr = C r ∧ cr.isStatic = false ∧ cr.hasWildcard = false ∧
      ∀ r' ∈ R2, ¬ (r'.method = r.method ∧ r'.text = r.text)) ∧ (dkeys dyn).Nodup

theorem C_meta (r : Route) (hn : NormalPat r.text r.pat) :
    (C r).method = r.method ∧ (C r).pattern = r.text ∧ (C r).rid = r.rid := compileRoute_meta r hn

theorem dyn_step (hash : Bytes → Nat) (Rp : List Route) (rc : RC) (r : Route)
    (hgp : GoodR Rp) (hgr : NormalPat r.text r.pat)
    (hinv : DynInv Rp rc.dynamic) : DynInv (Rp ++ [r]) (rcRegisterR hash rc r).dynamic := by
  obtain ⟨hmem, hnd⟩ := hinv
  -- after RemoveRoute
  have hperm := swapRemove_eq r.method r.text rc.dynamic
  have hsub : ∀ x ∈ swapRemove r.method r.text rc.dynamic, x ∈ rc.dynamic ∧ ¬ (x.method = r.method ∧ x.pattern = r.text) := by
    intro x hx
    have hx' := (hperm.mem_iff).mp hx
    exact ⟨List.mem_of_mem_eraseP hx', eraseP_nokey _ _ _ hnd x hx'⟩
  have hnd1 : (dkeys (swapRemove r.method r.text rc.dynamic)).Nodup := by
    have h1 : (dkeys (rc.dynamic.eraseP (keyIs r.method r.text))).Nodup :=
      List.Nodup.sublist (List.Sublist.map _ (List.eraseP_sublist ..)) hnd
    exact ((hperm.map _).nodup_iff).mpr h1
  have hold : ∀ x ∈ swapRemove r.method r.text rc.dynamic, ∃ R1 r0 R2, Rp ++ [r] = R1 ++ r0 :: R2 ∧ x = C r0 ∧
      x.isStatic = false ∧ x.hasWildcard = false ∧ ∀ r' ∈ R2, ¬ (r'.method = r0.method ∧ r'.text = r0.text) := by
    intro x hx
    obtain ⟨hxd, hxk⟩ := hsub x hx
    obtain ⟨R1, r0, R2, hRp, hxc, hs, hw, hlast⟩ := hmem x hxd
    refine ⟨R1, r0, R2 ++ [r], by rw [hRp]; simp, hxc, hs, hw, ?_⟩
    intro r' hr'
    simp only [List.mem_append, List.mem_singleton] at hr'
    rcases hr' with hr' | rfl
    · exact hlast r' hr'
    · intro hk
      have hg0 := hgp r0 (by rw [hRp]; simp)
      obtain ⟨hm0, hp0, _⟩ := C_meta r0 hg0
      apply hxk
      rw [hxc, hm0, hp0]
      exact ⟨hk.1.symm, hk.2.symm⟩
  -- the three cases of AddRoute
  have hdyn : (rcRegisterR hash rc r).dynamic =
      if (C r).isStatic then swapRemove r.method r.text rc.dynamic
      else if !(C r).hasWildcard then sortSpec (swapRemove r.method r.text rc.dynamic ++ [C r])
      else swapRemove r.method r.text rc.dynamic := by
    unfold rcRegisterR RC.add RC.remove
    split
    · simp
    · split <;> simp
  rw [hdyn]
  by_cases hst : (C r).isStatic = true
  · rw [if_pos hst]; exact ⟨hold, hnd1⟩
  · rw [if_neg hst]
    by_cases hwc : (!(C r).hasWildcard) = true
    · rw [if_pos hwc]
      have hps := sortSpec_perm (swapRemove r.method r.text rc.dynamic ++ [C r])
      obtain ⟨hmr, hpr, _⟩ := C_meta r hgr
      refine ⟨?_, ?_⟩
      · intro x hx
        have hx' := (hps.mem_iff).mp hx
        simp only [List.mem_append, List.mem_singleton] at hx'
        rcases hx' with hx' | rfl
        · exact hold x hx'
        · exact ⟨Rp, r, [], rfl, rfl, by simpa using hst, by simpa using hwc, by simp⟩
      · have : (dkeys (swapRemove r.method r.text rc.dynamic ++ [C r])).Nodup := by
          simp only [dkeys, List.map_append, List.map_cons, List.map_nil]
          rw [List.nodup_append]
          refine ⟨hnd1, by simp, ?_⟩
          intro a ha b hb
          simp only [List.mem_singleton] at hb
          subst hb
          simp only [dkeys, List.mem_map] at ha
          obtain ⟨x, hx, rfl⟩ := ha
          intro hk
          injection hk with h1 h2
          exact (hsub x hx).2 ⟨by rw [h1, hmr], by rw [h2, hpr]⟩
        exact ((hps.map _).nodup_iff).mpr this
    · rw [if_neg hwc]; exact ⟨hold, hnd1⟩

theorem dyn_fold (hash : Bytes → Nat) (R : List Route) (hg : GoodR R) :
    ∀ (Rp : List Route) (rc : RC), GoodR Rp → DynInv Rp rc.dynamic →
      DynInv (Rp ++ R) (R.foldl (rcRegisterR hash) rc).dynamic := by
  induction R with
  | nil => intro Rp rc _ h; simpa using h
  | cons r rest ih =>
    intro Rp rc hgp hinv
    simp only [List.foldl_cons]
    have hgr := hg r (List.mem_cons_self ..)
    have := ih (fun x hx => hg x (List.mem_cons_of_mem _ hx)) (Rp ++ [r]) (rcRegisterR hash rc r)
      (by intro x hx; simp only [List.mem_append, List.mem_singleton] at hx; rcases hx with hx | rfl
          · exact hgp x hx
          · exact hgr)
      (dyn_step hash Rp rc r hgp hgr hinv)
    simpa using this

/-- **the dynamic list of the compiler after warm-up** -/
theorem rcBuild_dynamic (hash : Bytes → Nat) (script : List Reg) (R : List Route) (hR : specRoutes script = some R)
    (hg : GoodR R) : DynInv R (rcBuild hash script).dynamic := by
  unfold rcBuild
  rw [rcBuildFrom_eq hash script 0 R hR]
  have := dyn_fold hash R hg [] RC.empty (by intro x hx; simp at hx) ⟨by intro x hx; simp [RC.empty] at hx, by simp [RC.empty, dkeys]⟩
  simpa [RC.freeze] using this

end Rivaas.CompilerL
