import Rivaas.Lemmas.RadixTree
/-
The text layer of C01: how pattern texts and request paths are cut into segments, by the model
(`splitSlash`, `trimSlashes`, `cutWildSuffix`, `contains ':'`) and by the oracle (`parsePattern`,
`cutAny`), and that the two agree on the vocabulary of the property.
-/
namespace Rivaas.RadixL
open Rivaas.Route Rivaas.Radix Rivaas.Match

theorem splitSlash_eq (s : Bytes) : Radix.splitSlash s = Match.splitOnSlash s := by
  induction s with
  | nil => rfl
  | cons c cs ih => simp only [Radix.splitSlash, Match.splitOnSlash, ih]; rfl

theorem split_ne_nil (s : Bytes) : splitOnSlash s ≠ [] := by
  induction s with
  | nil => simp [splitOnSlash]
  | cons c cs ih =>
    simp only [splitOnSlash]
    split
    · simp
    · split <;> simp

theorem split_noslash (s : Bytes) : ∀ seg ∈ splitOnSlash s, '/' ∉ seg := by
  induction s with
  | nil => simp [splitOnSlash]
  | cons c cs ih =>
    simp only [splitOnSlash]
    by_cases hc : c = '/'
    · simp only [hc, if_true, List.mem_cons]
      rintro seg (rfl | h)
      · simp
      · exact ih seg h
    · simp only [hc, if_false]
      cases hsp : splitOnSlash cs with
      | nil => exact absurd hsp (split_ne_nil cs)
      | cons h t =>
        simp only [List.mem_cons]
        rintro seg (rfl | hm)
        · simp only [List.mem_cons, not_or]
          exact ⟨fun e => hc e.symm, ih h (by rw [hsp]; simp)⟩
        · exact ih seg (by rw [hsp]; simp [hm])

theorem join_split (s : Bytes) : Match.joinSlash (splitOnSlash s) = s := by
  induction s with
  | nil => rfl
  | cons c cs ih =>
    simp only [splitOnSlash]
    by_cases hc : c = '/'
    · simp only [hc, if_true]
      cases hsp : splitOnSlash cs with
      | nil => exact absurd hsp (split_ne_nil cs)
      | cons h t =>
        rw [hsp] at ih
        simp only [Match.joinSlash, List.nil_append, ih]
    · simp only [hc, if_false]
      cases hsp : splitOnSlash cs with
      | nil => exact absurd hsp (split_ne_nil cs)
      | cons h t =>
        rw [hsp] at ih
        cases t with
        | nil => simp only [Match.joinSlash] at ih ⊢; rw [ih]
        | cons b bs => simp only [Match.joinSlash, List.cons_append] at ih ⊢; rw [ih]

theorem split_join (segs : List Bytes) (hne : segs ≠ []) (hs : ∀ s ∈ segs, '/' ∉ s) :
    splitOnSlash (Match.joinSlash segs) = segs := by
  have hone : ∀ (a : Bytes), '/' ∉ a → ∀ (tail : Bytes) (rest : List Bytes), splitOnSlash tail = rest →
      (∀ (r0 : Bytes) (rs : List Bytes), rest = r0 :: rs → True) →
      splitOnSlash (a ++ '/' :: tail) = a :: rest := by
    intro a ha tail rest hrest _
    induction a with
    | nil => simp [splitOnSlash, hrest]
    | cons c cs ih =>
      simp only [List.mem_cons, not_or] at ha
      have hc : ¬ c = '/' := fun e => ha.1 e.symm
      simp only [List.cons_append, splitOnSlash, hc, if_false, ih ha.2]
  have hlast : ∀ (a : Bytes), '/' ∉ a → splitOnSlash a = [a] := by
    intro a ha
    induction a with
    | nil => rfl
    | cons c cs ih =>
      simp only [List.mem_cons, not_or] at ha
      have hc : ¬ c = '/' := fun e => ha.1 e.symm
      simp only [splitOnSlash, hc, if_false, ih ha.2]
  induction segs with
  | nil => exact absurd rfl hne
  | cons a rest ih =>
    cases rest with
    | nil => simp only [Match.joinSlash]; exact hlast a (hs a (by simp))
    | cons b bs =>
      simp only [Match.joinSlash]
      have := ih (by simp) (fun s h => hs s (List.mem_cons_of_mem _ h))
      exact hone a (hs a (by simp)) _ _ this (fun _ _ _ => trivial)


/-! ### what `parsePattern` accepts -/

/-- the vocabulary of the property, per segment -/
def segOK : PSeg → Prop
  | .lit s => s ≠ [] ∧ '/' ∉ s ∧ ':' ∉ s ∧ '*' ∉ s
  | .par n => n ≠ [] ∧ '/' ∉ n ∧ ':' ∉ n ∧ '*' ∉ n
  | .wild => True

structure NormalPat (text : Bytes) (pat : Pat) : Prop where
  segs : ∀ s ∈ pat, segOK s
  wlast : wildOnlyLast pat = true
  dist : distinct (declNames pat) = true
  text : text = render pat

theorem contains_false_iff (s : Bytes) (c : Char) : s.contains c = false ↔ c ∉ s := by
  constructor
  · intro h hm
    have := List.contains_iff_mem.mpr hm
    rw [h] at this; exact absurd this (by simp)
  · intro h
    cases hc : s.contains c with
    | false => rfl
    | true => exact absurd (List.contains_iff_mem.mp hc) h

theorem parseSeg_some (seg : Bytes) (hs : '/' ∉ seg) (ps : PSeg) (h : parseSeg seg = some ps) :
    renderSeg ps = seg ∧ segOK ps := by
  unfold parseSeg at h
  split at h
  · cases h
  · injection h with h; subst h; exact ⟨rfl, trivial⟩
  · rename_i n
    simp at h
    obtain ⟨⟨h1, h2, h3⟩, rfl⟩ := h
    refine ⟨rfl, h1, ?_, h2, h3⟩
    intro hm; exact hs (List.mem_cons_of_mem _ hm)
  · rename_i hne hstar hcolon
    simp at h
    obtain ⟨⟨h2, h3⟩, rfl⟩ := h
    exact ⟨rfl, fun e => hne e, hs, h2, h3⟩

theorem parseSegs_some (segs : List Bytes) (hs : ∀ s ∈ segs, '/' ∉ s) (pat : Pat) (h : parseSegs segs = some pat) :
    segs = pat.map renderSeg ∧ ∀ s ∈ pat, segOK s := by
  induction segs generalizing pat with
  | nil =>
    simp only [parseSegs, Option.some.injEq] at h
    subst h; simp
  | cons a rest ih =>
    simp only [parseSegs] at h
    cases ha : parseSeg a with
    | none => simp [ha] at h
    | some pa =>
      cases hr : parseSegs rest with
      | none => simp [ha, hr] at h
      | some pr =>
        simp only [ha, hr, Option.bind_eq_bind, Option.bind_some, Option.pure_def, Option.some.injEq] at h
        subst h
        obtain ⟨h1, h2⟩ := parseSeg_some a (hs a (by simp)) pa ha
        obtain ⟨h3, h4⟩ := ih (fun s hm => hs s (List.mem_cons_of_mem _ hm)) pr hr
        refine ⟨by simp [h1, ← h3], ?_⟩
        intro s hm
        simp only [List.mem_cons] at hm
        rcases hm with rfl | hm
        · exact h2
        · exact h4 s hm

theorem parsePattern_normal (text : Bytes) (pat : Pat) (h : parsePattern text = some pat) : NormalPat text pat := by
  unfold parsePattern at h
  split at h
  · injection h with h; subst h
    exact ⟨by simp, rfl, rfl, rfl⟩
  · rename_i rest hne
    cases hp : parseSegs (splitOnSlash rest) with
    | none => simp [hp] at h
    | some p =>
      simp only [hp] at h
      by_cases hc : wildOnlyLast p = true ∧ distinct (declNames p) = true
      · simp only [hc, and_self, if_true, Option.some.injEq] at h
        subst h
        obtain ⟨h1, h2⟩ := parseSegs_some _ (split_noslash rest) p hp
        refine ⟨h2, hc.1, hc.2, ?_⟩
        unfold render
        rw [← h1, join_split]
      · simp [hc] at h
  · cases h


/-! ### the model's string operations on a pattern text of the vocabulary -/

theorem renderSeg_ok (s : PSeg) (h : segOK s) : renderSeg s ≠ [] ∧ '/' ∉ renderSeg s := by
  cases s with
  | lit t => exact ⟨h.1, h.2.1⟩
  | par n =>
    refine ⟨by simp [renderSeg], ?_⟩
    simp only [renderSeg, List.mem_cons, not_or]
    exact ⟨by decide, h.2.1⟩
  | wild => exact ⟨by simp [renderSeg], by simp [renderSeg]⟩

theorem dropSlashes_id (s : Bytes) (h : s.head? ≠ some '/') : dropSlashes s = s := by
  cases s with
  | nil => rfl
  | cons c cs =>
    have hc : ¬ c = '/' := by intro e; subst e; exact h rfl
    simp [dropSlashes, hc]

theorem join_head (a : Bytes) (rest : List Bytes) (ha : a ≠ []) : (Match.joinSlash (a :: rest)).head? = a.head? := by
  cases a with
  | nil => exact absurd rfl ha
  | cons c cs =>
    cases rest with
    | nil => rfl
    | cons b bs => simp [Match.joinSlash]

theorem join_last (texts : List Bytes) (hne : texts ≠ []) (ht : ∀ t ∈ texts, t ≠ []) :
    (Match.joinSlash texts).getLast? = (texts.getLast hne).getLast? := by
  induction texts with
  | nil => exact absurd rfl hne
  | cons a rest ih =>
    cases rest with
    | nil => simp [Match.joinSlash]
    | cons b bs =>
      have hj : Match.joinSlash (b :: bs) ≠ [] := by
        have hb : b ≠ [] := ht b (by simp)
        cases b with
        | nil => exact absurd rfl hb
        | cons c cs => cases bs <;> simp [Match.joinSlash]
      simp only [Match.joinSlash]
      rw [List.getLast?_append, List.getLast?_cons_of_ne_nil hj]
      rw [ih (by simp) (fun t h => ht t (List.mem_cons_of_mem _ h))]
      have hl : ((b :: bs).getLast (by simp)) ≠ [] := ht _ (List.mem_cons_of_mem _ (List.getLast_mem _))
      have hsome : (((b :: bs).getLast (by simp)).getLast?).isSome = true := by
        cases hh : ((b :: bs).getLast (by simp)) with
        | nil => exact absurd hh hl
        | cons c cs => simp
      cases hg : ((b :: bs).getLast (by simp)).getLast? with
      | none => rw [hg] at hsome; simp at hsome
      | some c => simp [List.getLast_cons, hg]

theorem trim_join (texts : List Bytes) (hne : texts ≠ []) (ht : ∀ t ∈ texts, t ≠ [] ∧ '/' ∉ t) :
    trimSlashes ('/' :: Match.joinSlash texts) = Match.joinSlash texts := by
  unfold trimSlashes
  have h1 : dropSlashes ('/' :: Match.joinSlash texts) = Match.joinSlash texts := by
    simp only [dropSlashes, if_true]
    apply dropSlashes_id
    cases texts with
    | nil => exact absurd rfl hne
    | cons a rest =>
      rw [join_head a rest (ht a (by simp)).1]
      intro h
      have := (ht a (by simp)).2
      cases a with
      | nil => simp at h
      | cons c cs =>
        simp only [List.head?_cons, Option.some.injEq] at h
        subst h; exact this (by simp)
  rw [h1]
  have h2 : dropSlashes (Match.joinSlash texts).reverse = (Match.joinSlash texts).reverse := by
    apply dropSlashes_id
    rw [List.head?_reverse, join_last texts hne (fun t h => (ht t h).1)]
    intro h
    have hl := ht (texts.getLast hne) (List.getLast_mem hne)
    exact hl.2 (List.mem_of_getLast? h)
  rw [h2, List.reverse_reverse]

theorem join_snoc (bt : List Bytes) (hne : bt ≠ []) (x : Bytes) :
    Match.joinSlash (bt ++ [x]) = Match.joinSlash bt ++ '/' :: x := by
  induction bt with
  | nil => exact absurd rfl hne
  | cons a rest ih =>
    cases rest with
    | nil => simp [Match.joinSlash]
    | cons b bs =>
      have := ih (by simp)
      simp only [List.cons_append, Match.joinSlash] at this ⊢
      rw [this]; simp

theorem mem_join (texts : List Bytes) (c : Char) (hc : c ≠ '/') :
    c ∈ Match.joinSlash texts ↔ ∃ t ∈ texts, c ∈ t := by
  induction texts with
  | nil => simp [Match.joinSlash]
  | cons a rest ih =>
    cases rest with
    | nil => simp [Match.joinSlash]
    | cons b bs =>
      simp only [Match.joinSlash, List.mem_append, List.mem_cons, ih, hc, false_or]
      constructor
      · rintro (h | ⟨t, ht, hct⟩)
        · exact ⟨a, Or.inl rfl, h⟩
        · exact ⟨t, Or.inr ht, hct⟩
      · rintro ⟨t, (rfl | ht), hct⟩
        · exact Or.inl hct
        · exact Or.inr ⟨t, ht, hct⟩

theorem cutWild_none (s : Bytes) (h : s.getLast? ≠ some '*') : cutWildSuffix s = none := by
  unfold cutWildSuffix
  rw [← List.head?_reverse] at h
  split
  · rename_i r heq
    rw [heq] at h; exact absurd rfl h
  · rfl

theorem cutWild_some (s : Bytes) : cutWildSuffix (s ++ ['/', '*']) = some s := by
  unfold cutWildSuffix
  simp


/-! ### registration of a pattern text of the vocabulary = registration of its entry -/

theorem body_cons2 (a b : PSeg) (rest : Pat) : bodyOf (a :: b :: rest) = a :: bodyOf (b :: rest) := by
  unfold bodyOf endsWild
  simp only [List.getLast?_cons_cons]
  split <;> simp

theorem body_nowild (pat : Pat) (h : wildOnlyLast pat = true) : ∀ s ∈ bodyOf pat, s ≠ PSeg.wild := by
  induction pat with
  | nil => simp [bodyOf, endsWild]
  | cons a rest ih =>
    cases rest with
    | nil =>
      unfold bodyOf endsWild
      by_cases ha : a = PSeg.wild
      · simp [ha]
      · simp [ha]
    | cons b bs =>
      rw [body_cons2]
      simp only [wildOnlyLast, Bool.and_eq_true, decide_eq_true_eq, ne_eq] at h
      intro s hs
      simp only [List.mem_cons] at hs
      rcases hs with rfl | hs
      · exact h.1
      · exact ih h.2 s hs

theorem mem_body (pat : Pat) (s : PSeg) (h : s ∈ bodyOf pat) : s ∈ pat := by
  unfold bodyOf at h
  split at h
  · exact (List.dropLast_sublist pat).subset h
  · exact h

theorem normal_patOK (text : Bytes) (pat : Pat) (hn : NormalPat text pat) : patOK pat := by
  unfold patOK
  rw [List.all_eq_true]
  intro s hs
  have hnw := body_nowild pat hn.wlast s hs
  have hok := hn.segs s (mem_body pat s hs)
  cases s with
  | wild => exact absurd rfl hnw
  | par n => rfl
  | lit t =>
    simp only [litOK, Bool.and_eq_true, decide_eq_true_eq]
    refine ⟨hok.1, ?_⟩
    intro hh
    have : ':' ∈ t := by
      cases t with
      | nil => simp at hh
      | cons c cs => simp only [List.head?_cons, Option.some.injEq] at hh; subst hh; simp
    exact hok.2.2.1 this

theorem texts_ok (pat : Pat) (h : ∀ s ∈ pat, segOK s) : ∀ t ∈ pat.map renderSeg, t ≠ [] ∧ '/' ∉ t := by
  intro t ht
  simp only [List.mem_map] at ht
  obtain ⟨s, hs, rfl⟩ := ht
  exact renderSeg_ok s (h s hs)

/-- the segments `addRouteWithConstraints` obtains from a pattern text of the vocabulary -/
theorem model_segs (pat : Pat) (hne : pat ≠ []) (h : ∀ s ∈ pat, segOK s) :
    splitSlash (trimSlashes ('/' :: Match.joinSlash (pat.map renderSeg))) = segTexts pat := by
  have hne' : pat.map renderSeg ≠ [] := by simpa using hne
  rw [trim_join _ hne' (texts_ok pat h), splitSlash_eq, split_join _ hne' (fun t ht => (texts_ok pat h t ht).2)]
  rfl

theorem colon_iff (pat : Pat) (h : ∀ s ∈ pat, segOK s) (hnw : ∀ s ∈ pat, s ≠ PSeg.wild) :
    (render pat).contains ':' = !isStaticPat pat := by
  have hmem : ':' ∈ render pat ↔ ∃ s ∈ pat, ∃ n, s = PSeg.par n := by
    unfold render
    simp only [List.mem_cons, show ¬ ':' = '/' by decide, false_or]
    rw [mem_join _ _ (by decide)]
    constructor
    · rintro ⟨t, ht, hc⟩
      simp only [List.mem_map] at ht
      obtain ⟨s, hs, rfl⟩ := ht
      cases s with
      | lit x => exact absurd hc (h _ hs).2.2.1
      | par n => exact ⟨_, hs, n, rfl⟩
      | wild => exact absurd rfl (hnw _ hs)
    · rintro ⟨s, hs, n, rfl⟩
      exact ⟨renderSeg (PSeg.par n), List.mem_map.mpr ⟨_, hs, rfl⟩, by simp [renderSeg]⟩
  cases hst : isStaticPat pat with
  | true =>
    simp only [Bool.not_true]
    apply (contains_false_iff _ _).mpr
    intro hc
    obtain ⟨s, hs, n, rfl⟩ := hmem.mp hc
    simp only [isStaticPat, List.all_eq_true, decide_eq_true_eq] at hst
    have := hst _ hs
    simp [kind] at this
  | false =>
    simp only [Bool.not_false]
    apply List.contains_iff_mem.mpr
    apply hmem.mpr
    have : ∃ s ∈ pat, ¬ kind s = 3 := by
      simp only [isStaticPat] at hst
      have := List.all_eq_false.mp hst
      obtain ⟨s, hs, hk⟩ := this
      exact ⟨s, hs, by simpa using hk⟩
    obtain ⟨s, hs, hk⟩ := this
    cases s with
    | lit x => simp [kind] at hk
    | par n => exact ⟨_, hs, n, rfl⟩
    | wild => exact absurd rfl (hnw _ hs)

theorem render_last_ne_star (pat : Pat) (hne : pat ≠ []) (h : ∀ s ∈ pat, segOK s) (hw : endsWild pat = false) :
    (render pat).getLast? ≠ some '*' := by
  have hne' : pat.map renderSeg ≠ [] := by simpa using hne
  have hj : Match.joinSlash (pat.map renderSeg) ≠ [] := by
    intro e
    have := join_last _ hne' (fun t ht => (texts_ok pat h t ht).1)
    rw [e] at this
    have hl := (texts_ok pat h _ (List.getLast_mem hne')).1
    cases hh : (pat.map renderSeg).getLast hne' with
    | nil => exact hl hh
    | cons c cs =>
      rw [hh] at this
      have h2 : ((c :: cs).getLast?).isSome = true := by simp
      rw [← this] at h2; simp at h2
  unfold render
  rw [List.getLast?_cons_of_ne_nil hj, join_last _ hne' (fun t ht => (texts_ok pat h t ht).1)]
  have hlast : (pat.map renderSeg).getLast hne' = renderSeg (pat.getLast hne) := by
    simp [List.getLast_map]
  rw [hlast]
  have hsok := h _ (List.getLast_mem hne)
  have hnw : pat.getLast hne ≠ PSeg.wild := by
    intro e
    unfold endsWild at hw
    rw [List.getLast?_eq_some_getLast hne, e] at hw
    simp at hw
  intro hstar
  have hmem := List.mem_of_getLast? hstar
  cases hs : pat.getLast hne with
  | wild => exact hnw hs
  | lit x => rw [hs] at hsok hmem; exact hsok.2.2.2 hmem
  | par n =>
    rw [hs] at hsok hmem
    simp only [renderSeg, List.mem_cons] at hmem
    rcases hmem with hm | hm
    · exact absurd hm (by decide)
    · exact hsok.2.2.2 hm


theorem render_ne (pat : Pat) (hne : pat ≠ []) (h : ∀ s ∈ pat, segOK s) : render pat ≠ ['/'] ∧ render pat ≠ [] := by
  refine ⟨?_, by simp [render]⟩
  intro e
  unfold render at e
  injection e with _ e
  have hne' : pat.map renderSeg ≠ [] := by simpa using hne
  have := join_last _ hne' (fun t ht => (texts_ok pat h t ht).1)
  rw [e] at this
  have hl := (texts_ok pat h _ (List.getLast_mem hne')).1
  cases hh : (pat.map renderSeg).getLast hne' with
  | nil => exact hl hh
  | cons c cs =>
    rw [hh] at this
    have h2 : ((c :: cs).getLast?).isSome = true := by simp
    rw [← this] at h2; simp at h2

/-- `addRouteWithConstraints` on a pattern text of the vocabulary does what the pattern says: the
root, parameter and wildcard patterns go into the node map as their entry, the parameter-free ones
into `staticPaths` under their text -/
theorem addLeaf_normal (t : Tree) (r : Route) (hn : NormalPat r.text r.pat) :
    addLeafGen false t r.text (leafOf r) =
      if inTree r then { t with nodes := addEntry t.nodes (toEntry r) }
      else { t with statics := setStatic r.text (leafOf r) t.statics } := by
  have htext := hn.text
  by_cases hpe : r.pat = []
  · -- the root
    have ht : r.text = ['/'] := by rw [htext, hpe]; rfl
    have hin : inTree r = true := by simp [inTree, hpe]
    simp only [addLeafGen, ht, true_or, if_true, hin]
    simp [addEntry, toEntry, bodyOf, endsWild, hpe, segTexts, descendPrefix, ht] <;> rfl
  · obtain ⟨hne1, hne2⟩ := render_ne r.pat hpe hn.segs
    rw [← htext] at hne1 hne2
    have hroot : ¬ (r.text = ['/'] ∨ r.text = []) := by
      intro h; rcases h with h | h
      · exact hne1 h
      · exact hne2 h
    cases hw : endsWild r.pat with
    | true =>
      have hsplit := pat_split r.pat
      rw [hw] at hsplit
      simp only [if_true] at hsplit
      have hin : inTree r = true := by
        have : isStaticPat r.pat = false := by
          rw [hsplit]; simp [isStaticPat, kind]
        simp [inTree, this]
      have hbodyok : ∀ s ∈ bodyOf r.pat, segOK s := fun s hs => hn.segs s (mem_body _ s hs)
      by_cases hbe : bodyOf r.pat = []
      · -- `/*`
        have ht : r.text = ['/', '*'] := by
          rw [htext, hsplit, hbe]; rfl
        simp only [addLeafGen, hroot, if_false, hin, if_true]
        have hcut : cutWildSuffix r.text = some [] := by rw [ht]; rfl
        simp only [hcut, if_true]
        simp [addEntry, toEntry, hbe, hw, segTexts, descendPrefix] <;> rfl
      · have ht : r.text = render (bodyOf r.pat) ++ ['/', '*'] := by
          rw [htext]
          conv => lhs; rw [hsplit]
          unfold render
          simp only [List.map_append, List.map_cons, List.map_nil, renderSeg]
          rw [join_snoc _ (by simpa using hbe)]
          simp
        have hcut : cutWildSuffix r.text = some (render (bodyOf r.pat)) := by rw [ht]; exact cutWild_some _
        have hpre : render (bodyOf r.pat) ≠ [] := by simp [render]
        simp only [addLeafGen, hroot, if_false, hin, if_true, hcut, hpre]
        have hsegs : splitSlash (trimSlashes (render (bodyOf r.pat))) = segTexts (bodyOf r.pat) :=
          model_segs _ hbe hbodyok
        rw [hsegs]
        simp [addEntry, toEntry, hw] <;> rfl
    | false =>
      have hbody : bodyOf r.pat = r.pat := by simp [bodyOf, hw]
      have hnw : ∀ s ∈ r.pat, s ≠ PSeg.wild := by
        have := body_nowild r.pat hn.wlast
        rw [hbody] at this; exact this
      have hcut : cutWildSuffix r.text = none := by
        rw [htext]; exact cutWild_none _ (render_last_ne_star r.pat hpe hn.segs hw)
      have hcolon := colon_iff r.pat hn.segs hnw
      rw [← htext] at hcolon
      simp only [addLeafGen, hroot, if_false, hcut]
      cases hst : isStaticPat r.pat with
      | true =>
        have hin : inTree r = false := by
          simp [inTree, hst, hpe]
        rw [hst] at hcolon
        simp only [Bool.not_true] at hcolon
        have hnc : ':' ∉ r.text := (contains_false_iff _ _).mp hcolon
        simp only [hcolon, Bool.false_eq_true, not_false_eq_true, if_true, hin, if_false]
      | false =>
        have hin : inTree r = true := by simp [inTree, hst]
        rw [hst] at hcolon
        simp only [Bool.not_false] at hcolon
        simp only [hcolon, not_true_eq_false, if_false, hin, if_true]
        have hsegs : splitSlash (trimSlashes r.text) = segTexts r.pat := by
          rw [htext]; exact model_segs _ hpe hn.segs
        rw [hsegs]
        have hpok := normal_patOK _ _ hn
        unfold patOK at hpok
        rw [hbody] at hpok
        rw [insertStd_eq _ _ hpe hpok]
        simp [addEntry, toEntry, hw, hbody] <;> rfl


theorem parNames_append (a b : Pat) : parNames (a ++ b) = parNames a ++ parNames b := by
  induction a with
  | nil => rfl
  | cons x xs ih => cases x <;> simp [parNames, ih]

theorem segNames_lit (c : Char) (cs : Bytes) (rest : List Bytes) (hc : c ≠ ':') :
    segNames ((c :: cs) :: rest) = segNames rest := by
  conv => lhs; unfold segNames
  split
  · rename_i heq; cases heq
  · rename_i n rest' heq
    injection heq with h1 _
    injection h1 with h1 _
    exact absurd h1 hc
  · rename_i _ heq
    injection heq with _ h2
    rw [h2]

/-- the `:name` segments the registration loops collect are the pattern's parameter names -/
theorem segNames_segTexts (pat : Pat) (h : ∀ s ∈ pat, segOK s) (hnw : ∀ s ∈ pat, s ≠ PSeg.wild) :
    segNames (segTexts pat) = parNames pat := by
  induction pat with
  | nil => rfl
  | cons a rest ih =>
    have ih' := ih (fun s hs => h s (List.mem_cons_of_mem _ hs)) (fun s hs => hnw s (List.mem_cons_of_mem _ hs))
    unfold segTexts at ih' ⊢
    cases a with
    | wild => exact absurd rfl (hnw _ (List.mem_cons_self ..))
    | par n => simp [renderSeg, segNames, parNames, ih']
    | lit x =>
      have hok := h _ (List.mem_cons_self ..)
      simp only [segOK] at hok
      cases x with
      | nil => exact absurd rfl hok.1
      | cons c cs =>
        have hc : c ≠ ':' := by intro e; subst e; exact hok.2.2.1 (List.mem_cons_self ..)
        simp only [List.map_cons, renderSeg, parNames]
        rw [← ih']
        exact segNames_lit c cs _ hc

theorem parNames_static (pat : Pat) (h : isStaticPat pat = true) : parNames pat = [] := by
  induction pat with
  | nil => rfl
  | cons a rest ih =>
    simp only [isStaticPat, List.all_cons, Bool.and_eq_true, decide_eq_true_eq] at h
    cases a with
    | lit s => simp only [parNames]; exact ih (by simpa [isStaticPat] using h.2)
    | par n => simp [kind] at h
    | wild => simp [kind] at h

/-- `node.paramNames` of a route of the vocabulary are the names its pattern declares -/
theorem paramNames_normal (r : Route) (hn : NormalPat r.text r.pat) : paramNamesOf r.text = declNames r.pat := by
  have htext := hn.text
  by_cases hpe : r.pat = []
  · have ht : r.text = ['/'] := by rw [htext, hpe]; rfl
    simp [paramNamesOf, ht, hpe, declNames, parNames]
  · obtain ⟨hne1, hne2⟩ := render_ne r.pat hpe hn.segs
    rw [← htext] at hne1 hne2
    have hroot : ¬ (r.text = ['/'] ∨ r.text = []) := by
      intro h; rcases h with h | h
      · exact hne1 h
      · exact hne2 h
    cases hw : endsWild r.pat with
    | true =>
      have hsplit := pat_split r.pat
      rw [hw] at hsplit
      simp only [if_true] at hsplit
      have hbodyok : ∀ s ∈ bodyOf r.pat, segOK s := fun s hs => hn.segs s (mem_body _ s hs)
      have hlast : r.pat.getLast? = some PSeg.wild := by simpa [endsWild] using hw
      have hdecl : declNames r.pat = parNames (bodyOf r.pat) ++ [wildParam] := by
        unfold declNames
        rw [hlast]
        simp only [if_true]
        conv => lhs; rw [hsplit, parNames_append]
        simp [parNames]; rfl
      by_cases hbe : bodyOf r.pat = []
      · have ht : r.text = ['/', '*'] := by
          rw [htext, hsplit, hbe]; rfl
        have hcut : cutWildSuffix r.text = some [] := by rw [ht]; rfl
        simp only [paramNamesOf, hroot, if_false, hcut, if_true, hdecl, hbe, parNames, List.nil_append]
      · have ht : r.text = render (bodyOf r.pat) ++ ['/', '*'] := by
          rw [htext]
          conv => lhs; rw [hsplit]
          unfold render
          simp only [List.map_append, List.map_cons, List.map_nil, renderSeg]
          rw [join_snoc _ (by simpa using hbe)]
          simp
        have hcut : cutWildSuffix r.text = some (render (bodyOf r.pat)) := by rw [ht]; exact cutWild_some _
        have hpre : render (bodyOf r.pat) ≠ [] := by simp [render]
        have hsegs : splitSlash (trimSlashes (render (bodyOf r.pat))) = segTexts (bodyOf r.pat) :=
          model_segs _ hbe hbodyok
        simp only [paramNamesOf, hroot, if_false, hcut, hpre, hsegs, hdecl]
        rw [segNames_segTexts _ hbodyok (body_nowild r.pat hn.wlast)]
    | false =>
      have hbody : bodyOf r.pat = r.pat := by simp [bodyOf, hw]
      have hnw : ∀ s ∈ r.pat, s ≠ PSeg.wild := by
        have := body_nowild r.pat hn.wlast
        rw [hbody] at this; exact this
      have hcut : cutWildSuffix r.text = none := by
        rw [htext]; exact cutWild_none _ (render_last_ne_star r.pat hpe hn.segs hw)
      have hcolon := colon_iff r.pat hn.segs hnw
      rw [← htext] at hcolon
      have hlast : ¬ r.pat.getLast? = some PSeg.wild := by simpa [endsWild] using hw
      have hdecl : declNames r.pat = parNames r.pat := by
        unfold declNames
        simp [hlast]
      simp only [paramNamesOf, hroot, if_false, hcut, hdecl]
      cases hst : isStaticPat r.pat with
      | true =>
        rw [hst] at hcolon
        simp only [Bool.not_true] at hcolon
        simp only [hcolon, Bool.false_eq_true, not_false_eq_true, if_true]
        exact (parNames_static _ hst).symm
      | false =>
        rw [hst] at hcolon
        simp only [Bool.not_false] at hcolon
        simp only [hcolon, not_true_eq_false, if_false]
        have hsegs : splitSlash (trimSlashes r.text) = segTexts r.pat := by
          rw [htext]; exact model_segs _ hpe hn.segs
        rw [hsegs]
        exact segNames_segTexts _ hn.segs hnw

/-- `addRouteWithConstraints` on a pattern text of the vocabulary does what the pattern says: the
root, parameter and wildcard patterns go into the node map as their entry, the parameter-free ones
into `staticPaths` under their text; the leaf carries the names the pattern declares -/
theorem addRoute_normal (t : Tree) (r : Route) (hn : NormalPat r.text r.pat) :
    addRouteGen false t r.text r.rid r.cons =
      if inTree r then { t with nodes := addEntry t.nodes (toEntry r) }
      else { t with statics := setStatic r.text (leafOf r) t.statics } := by
  unfold addRouteGen
  rw [paramNames_normal r hn]
  exact addLeaf_normal t r hn

end Rivaas.RadixL
