import Rivaas.Lemmas.VersionStr
/-
Selection-level lemmas for C13: detector order, the detector loop, path stripping, tree selection and
lifecycle decisions of the model against the declarative definitions of `Spec/Version.lean`.
-/
namespace Rivaas.Version
open Rivaas.Version.Spec

/-! ### hypotheses of the main theorem -/

/-- what `version.NewConfig` and the option functions enforce -/
structure ValidCfg (cfg : Cfg) : Prop where
  /-- `ErrDefaultRequired` / `ErrEmptyDefaultVersion` -/
  dflt_ne : cfg.dflt ≠ []
  /-- `WithAcceptDetection` rejects a pattern without `{version}` -/
  accept_ph : ∀ p, DetOpt.accept p ∈ cfg.opts → ∃ i, index p versionPlaceholder = some i

/-- the request as `net/http` delivers it: the path begins with `/`, header values carry no control
    characters other than HTAB -/
structure ValidReq (cfg : Cfg) (req : Req) : Prop where
  path_slash : req.path.head? = some '/'
  accept_safe : ∀ v, LibVal.accept v ∈ req.lib → HeaderSafe v

/-! ### path detector -/

theorem lemma_hasSuffix_v (pfx : Bytes) : hasSuffix pfx ['v'] = (pfx.getLast? == some 'v') := by
  unfold hasSuffix List.isSuffixOf
  rw [List.getLast?_eq_head?_reverse]
  cases pfx.reverse with
  | nil => simp
  | cons a t =>
    simp only [List.reverse_cons, List.reverse_nil, List.nil_append, List.isPrefixOf, List.head?_cons]
    by_cases h : a = 'v'
    · subst h; rfl
    · have h1 : ('v' == a) = false := by simpa using fun e : 'v' = a => h e.symm
      have h2 : (some a == some 'v') = false := by simpa using h
      rw [h1, h2]; rfl

theorem lemma_hasPrefix_take (path pfx : Bytes) : hasPrefix path pfx = true ↔ path.take pfx.length = pfx := by
  unfold hasPrefix
  rw [List.isPrefixOf_iff_prefix, List.prefix_iff_eq_take]
  exact eq_comm

theorem lemma_extract_core (pat pfx path : Bytes) (hne : pfx ≠ []) :
    PathDet.extractFromPath { pattern := pat, pfx := pfx } path =
      (Spec.segmentAfter pfx path).map fun sr => if pfx.getLast? = some 'v' then 'v' :: sr.1 else sr.1 := by
  unfold PathDet.extractFromPath Spec.segmentAfter Spec.afterPrefix
  simp only [hne, decide_false, Bool.false_or]
  by_cases hp : hasPrefix path pfx = true
  · have hp' := (lemma_hasPrefix_take _ _).1 hp
    simp only [hp, hp', Bool.not_true, Bool.false_eq_true, if_false, if_true]
    by_cases hseg : List.takeWhile (fun x => x != '/') (List.drop pfx.length path) = []
    · simp only [hseg, if_true]
      split <;> rfl
    · have hrem : List.drop pfx.length path ≠ [] := by
        intro h; rw [h] at hseg; exact hseg rfl
      simp only [hseg, hrem, if_false, lemma_hasSuffix_v, Option.map_some]
      by_cases hv : pfx.getLast? = some 'v' <;> simp [hv]
  · have hp' : ¬ (path.take pfx.length = pfx) := fun h => hp ((lemma_hasPrefix_take _ _).2 h)
    have hpf : hasPrefix path pfx = false := by simpa using hp
    simp [hpf, hp']

theorem lemma_extractFromPath_eq (p path : Bytes) :
    (newPathDetector p).extractFromPath path = Spec.pathVersion p path := by
  unfold Spec.pathVersion Spec.pathPrefix newPathDetector
  cases hi : index p versionPlaceholder with
  | none => simp [PathDet.extractFromPath]
  | some i =>
    simp only
    by_cases hnil : List.take i p = []
    · simp [hnil, PathDet.extractFromPath]
    · have h0 : i > 0 := by
        cases i with
        | zero => simp at hnil
        | succ n => omega
      simp only [h0, if_true, hnil, if_false]
      exact lemma_extract_core p _ path hnil

theorem lemma_extractSegment_eq (d : PathDet) (path : Bytes) :
    d.extractSegment path = d.extractFromPath path := rfl

/-! ### detector order -/

def toDet : DetOpt → Det
  | .path p => .path (newPathDetector p)
  | .header n => .header n
  | .query q => .query q
  | .accept p => .accept p
  | .custom i => .custom i

theorem lemma_applyOpt {α} (acc : List (Det × α)) (x : DetOpt × α) :
    applyOpt acc x = if isCustom x.1 then (toDet x.1, x.2) :: acc else acc ++ [(toDet x.1, x.2)] := by
  obtain ⟨o, a⟩ := x
  cases o <;> simp [applyOpt, isCustom, toDet]

theorem lemma_foldl_applyOpt {α} (l : List (DetOpt × α)) (acc : List (Det × α)) :
    l.foldl applyOpt acc =
      ((l.filter (fun o => isCustom o.1)).reverse.map fun x => (toDet x.1, x.2)) ++ acc ++
      ((l.filter (fun o => !isCustom o.1)).map fun x => (toDet x.1, x.2)) := by
  induction l generalizing acc with
  | nil => simp
  | cons x xs ih =>
    rw [List.foldl_cons, ih, lemma_applyOpt]
    by_cases hc : isCustom x.1 = true
    · simp [hc]
    · have hc' : isCustom x.1 = false := by simpa using hc
      simp [hc']

/-- custom detectors first (the one configured last in front), then the others in configuration order -/
theorem lemma_buildDetectors {α} (l : List (DetOpt × α)) :
    buildDetectors l = (Spec.detectionOrder l).map fun x => (toDet x.1, x.2) := by
  unfold buildDetectors Spec.detectionOrder
  rw [lemma_foldl_applyOpt]
  simp

/-! ### the detector loop -/

theorem lemma_validate_accepted (valid : List Bytes) (v : Bytes) :
    validateVersion valid v = if Spec.accepted valid v then some v else none := by
  unfold validateVersion Spec.accepted
  by_cases hv : v = []
  · simp [hv]
  · by_cases hl : valid.length = 0
    · have : valid = [] := List.length_eq_zero_iff.1 hl
      simp [hv, this]
    · have hne : valid ≠ [] := fun h => hl (by simp [h])
      have hne' : valid.isEmpty = false := by simpa using hne
      by_cases hc : valid.contains v = true
      · simp [hv, hl, hne']
      · have hc' : valid.contains v = false := by simpa using hc
        simp [hv, hl, hne']

/-- `DetectVersion`: the first detection the valid list accepts, else the default -/
theorem lemma_detectLoop (valid : List Bytes) (dflt path raw : Bytes) (l : List (Det × LibVal)) :
    detectLoop valid dflt path raw l =
      ((l.filterMap (detectOne path raw)).find? (Spec.accepted valid)).getD dflt := by
  induction l with
  | nil => simp [detectLoop]
  | cons d rest ih =>
    simp only [detectLoop, List.filterMap_cons]
    cases hd : detectOne path raw d with
    | none => simp only [ih]
    | some v =>
      simp only [lemma_validate_accepted, List.find?_cons]
      by_cases ha : Spec.accepted valid v = true
      · simp [ha]
      · have ha' : Spec.accepted valid v = false := by simpa using ha
        simp only [ha', Bool.false_eq_true, if_false, ih]

/-! ### one detector against its candidate -/

theorem lemma_queryFirst_nil (q : Bytes) : queryFirst [] q = none := by
  simp [queryFirst, queryPairs, Spec.splitOn]

theorem lemma_detectOne_eq (req : Req) (o : DetOpt) (lv : LibVal)
    (hag : agreesOne req (o, lv) = true)
    (hph : ∀ p, o = .accept p → ∃ i, index p versionPlaceholder = some i)
    (hsafe : ∀ v, lv = .accept v → HeaderSafe v) :
    detectOne req.path req.rawQuery (toDet o, lv) = Spec.candidate req (o, lv) := by
  cases o with
  | path p =>
    simp only [toDet, detectOne, Spec.candidate]
    exact lemma_extractFromPath_eq p req.path
  | header n =>
    cases lv <;> simp [agreesOne] at hag
    simp only [toDet, detectOne, Spec.candidate]
    rename_i v
    by_cases hv : v = [] <;> simp [hv]
  | query q =>
    cases lv <;> simp [agreesOne] at hag
    rename_i has get
    simp only [toDet, detectOne, Spec.candidate]
    obtain ⟨h1, h2⟩ := hag
    by_cases hr : req.rawQuery = []
    · simp [hr, lemma_queryFirst_nil]
    · simp only [hr, if_false]
      cases hq : queryFirst req.rawQuery q with
      | none => simp [hq] at h1; simp [h1]
      | some x => simp [hq] at h1 h2; simp [h1, h2]
  | accept p =>
    cases lv <;> simp [agreesOne] at hag
    rename_i v
    simp only [toDet, detectOne, Spec.candidate]
    obtain ⟨i, hi⟩ := hph p rfl
    by_cases hv : v = []
    · subst hv
      simp only [if_true]
      unfold Spec.acceptVersion Spec.mediaTypes
      simp only [hi]
      simp [Spec.splitOn, Spec.trimOWS, Spec.middle]
    · simp only [hv, if_false]
      exact lemma_accept_scan_eq_std p v i hi (hsafe v rfl)
  | custom n =>
    cases lv <;> simp [agreesOne] at hag
    simp only [toDet, detectOne, Spec.candidate]
    rename_i v
    by_cases hv : v = [] <;> simp [hv]

theorem lemma_filterMap_congr {α β} (f g : α → Option β) (l : List α) (h : ∀ x ∈ l, f x = g x) :
    l.filterMap f = l.filterMap g := by
  induction l with
  | nil => rfl
  | cons a t ih =>
    simp only [List.filterMap_cons, h a (by simp)]
    rw [ih (fun x hx => h x (by simp [hx]))]

theorem lemma_mem_detectionOrder {α} (l : List (DetOpt × α)) (x : DetOpt × α)
    (h : x ∈ Spec.detectionOrder l) : x ∈ l := by
  unfold Spec.detectionOrder at h
  simp only [List.mem_append, List.mem_reverse, List.mem_filter] at h
  rcases h with h | h <;> exact h.1

/-- **version selection**: `Engine.DetectVersion` returns the first candidate, custom detectors first and
    then configuration order, that the valid-versions list accepts, else the default -/
theorem lemma_detectVersion_eq (cfg : Cfg) (req : Req) (hc : ValidCfg cfg) (hr : ValidReq cfg req)
    (hlib : Spec.libAgrees cfg req = true) : detectVersion cfg req = Spec.selected cfg req := by
  unfold detectVersion detectors Spec.selected
  rw [lemma_detectLoop, lemma_buildDetectors, List.filterMap_map]
  have hcongr : (Spec.detectionOrder (cfg.opts.zip req.lib)).filterMap
        (detectOne req.path req.rawQuery ∘ fun x => (toDet x.1, x.2)) =
      (Spec.detectionOrder (cfg.opts.zip req.lib)).filterMap (Spec.candidate req) := by
    apply lemma_filterMap_congr
    intro x hx
    have hmem := lemma_mem_detectionOrder _ x hx
    obtain ⟨o, lv⟩ := x
    have hag : agreesOne req (o, lv) = true := by
      unfold Spec.libAgrees at hlib
      simp only [Bool.and_eq_true] at hlib
      exact List.all_eq_true.1 hlib.2 _ hmem
    have ho : o ∈ cfg.opts := (List.of_mem_zip hmem).1
    have hl : lv ∈ req.lib := (List.of_mem_zip hmem).2
    exact lemma_detectOne_eq req o lv hag
      (fun p hp => hc.accept_ph p (hp ▸ ho))
      (fun v hv => hr.accept_safe v (hv ▸ hl))
  rw [hcongr]

theorem lemma_selected_ne_nil (cfg : Cfg) (req : Req) (hc : ValidCfg cfg) : Spec.selected cfg req ≠ [] := by
  unfold Spec.selected
  cases hf : List.find? (Spec.accepted cfg.valid)
      (List.filterMap (Spec.candidate req) (Spec.detectionOrder (cfg.opts.zip req.lib))) with
  | some v =>
    have := List.find?_some hf
    unfold Spec.accepted at this
    simp only [Bool.and_eq_true, bne_iff_ne, ne_eq] at this
    simpa using this.1
  | none => simpa using hc.dflt_ne


/-! ### path stripping -/

def pdOf : Det → Option PathDet
  | .path pd => some pd
  | _ => none

def pathDets (dets : List Det) : List PathDet := dets.filterMap pdOf

def stripList (path : Bytes) : List PathDet → Bytes
  | [] => path
  | d :: ds => if d.stripVersion path != path then d.stripVersion path else stripList path ds

theorem lemma_extractPathSegment (path : Bytes) (dets : List Det) :
    extractPathSegment path dets = (pathDets dets).findSome? (·.extractSegment path) := by
  induction dets with
  | nil => rfl
  | cons d ds ih =>
    cases d <;> simp only [extractPathSegment, pathDets, pdOf, List.filterMap_cons, List.findSome?_cons] <;>
      try exact ih
    rename_i pd
    cases pd.extractSegment path with
    | none => exact ih
    | some x => rfl

theorem lemma_stripPathVersion (path : Bytes) (dets : List Det) :
    stripPathVersion path dets = stripList path (pathDets dets) := by
  induction dets with
  | nil => rfl
  | cons d ds ih =>
    cases d <;> simp only [stripPathVersion, pathDets, pdOf, List.filterMap_cons, stripList] <;> try exact ih
    rename_i pd
    split
    · rfl
    · exact ih

theorem lemma_filter_filterMap {α β} (q : α → Bool) (f : α → Option β) (l : List α)
    (h : ∀ x, q x = false → f x = none) : (l.filter q).filterMap f = l.filterMap f := by
  induction l with
  | nil => rfl
  | cons a t ih =>
    by_cases hq : q a = true
    · simp [hq, List.filterMap_cons, ih]
    · have hq' : q a = false := by simpa using hq
      simp [hq', ih, h a hq']

theorem lemma_pdOf_toDet (o : DetOpt) : pdOf (toDet o) = (Spec.patOf o).map newPathDetector := by
  cases o <;> rfl

theorem lemma_pathDets_map {α} (L : List (DetOpt × α)) :
    pathDets (L.map fun x => toDet x.1) = (L.filterMap fun x => Spec.patOf x.1).map newPathDetector := by
  unfold pathDets
  rw [List.filterMap_map, List.map_filterMap]
  congr 1
  funext x
  exact lemma_pdOf_toDet x.1

theorem lemma_patOf_order {α} (z : List (DetOpt × α)) :
    (Spec.detectionOrder z).filterMap (fun x => Spec.patOf x.1) = z.filterMap (fun x => Spec.patOf x.1) := by
  unfold Spec.detectionOrder
  rw [List.filterMap_append]
  have h1 : List.filterMap (fun x => Spec.patOf x.1) (List.filter (fun o => isCustom o.1) z).reverse = [] := by
    rw [List.filterMap_eq_nil_iff]
    intro x hx
    have := (List.mem_filter.1 (List.mem_reverse.1 hx)).2
    obtain ⟨o, l⟩ := x
    cases o <;> simp [isCustom] at this
    rfl
  rw [h1, List.nil_append]
  apply lemma_filter_filterMap
  intro x hx
  obtain ⟨o, l⟩ := x
  cases o <;> simp [isCustom] at hx
  rfl

/-- the path detectors of the built detector list are the path patterns in configuration order -/
theorem lemma_pathDets_build (cfg : Cfg) (req : Req) (hlen : cfg.opts.length = req.lib.length) :
    pathDets ((detectors cfg req).map (·.1)) = (Spec.pathPatterns cfg).map newPathDetector := by
  unfold detectors
  rw [lemma_buildDetectors, List.map_map]
  have : ((fun x : Det × LibVal => x.1) ∘ fun x : DetOpt × LibVal => (toDet x.1, x.2)) = fun x => toDet x.1 := rfl
  rw [this, lemma_pathDets_map, lemma_patOf_order]
  unfold Spec.pathPatterns
  have hfst : cfg.opts = (cfg.opts.zip req.lib).map (·.1) := by
    rw [List.map_fst_zip]; omega
  conv => rhs; rw [hfst]
  rw [List.filterMap_map]
  rfl

/-- `newPathDetector` against `Spec.pathPrefix`: no usable prefix, or the same non-empty one -/
theorem lemma_pfx_cases (p : Bytes) :
    ((newPathDetector p).pfx = [] ∧ Spec.pathPrefix p = none) ∨
    ((newPathDetector p).pfx ≠ [] ∧ Spec.pathPrefix p = some (newPathDetector p).pfx) := by
  unfold newPathDetector Spec.pathPrefix
  cases hi : index p versionPlaceholder with
  | none => left; simp
  | some i =>
    simp only
    by_cases hnil : List.take i p = []
    · left; simp [hnil]
    · right
      have h0 : i > 0 := by
        cases i with
        | zero => simp at hnil
        | succ n => omega
      simp [h0, hnil]

theorem lemma_dropWhile_ne_nil_of_mem (l : Bytes) (b : Char) (h : b ∈ l) : l.dropWhile (· != b) ≠ [] := by
  intro hn
  have := lemma_dropWhile_nil_all hn b h
  simp at this

theorem lemma_strip_core (d : PathDet) (path : Bytes) (hp : d.pfx ≠ []) (hne : d.stripVersion path ≠ path) :
    Spec.stripAfter d.pfx path = some (d.stripVersion path) := by
  obtain ⟨pat, pfx⟩ := d
  simp only at hp
  unfold Spec.stripAfter Spec.afterPrefix
  unfold PathDet.stripVersion at hne ⊢
  simp only at hne ⊢
  by_cases hpre : hasPrefix path pfx = true
  · have hpre' := (lemma_hasPrefix_take _ _).1 hpre
    simp only [hpre, Bool.not_true, Bool.false_eq_true, if_false] at hne ⊢
    by_cases hlen : pfx.length ≥ path.length
    · simp only [hlen, if_true] at hne
      exact absurd rfl hne
    · simp only [hlen, if_false] at hne ⊢
      have hafter : List.drop pfx.length path ≠ [] := by
        intro h
        have := congrArg List.length h
        simp at this
        omega
      simp only [hpre', if_true, hafter, if_false]
      cases hi : indexByte (List.drop pfx.length path) '/' with
      | none =>
        have := (lemma_indexByte_none _ _ hi).2
        simp [this]
      | some e =>
        have h1 := (lemma_indexByte_some _ _ _ hi).2
        have hmem : '/' ∈ List.drop pfx.length path := (lemma_indexByteFrom_some _ _ 0 e hi).2.2.2
        have h2 := lemma_dropWhile_ne_nil_of_mem _ _ hmem
        simp only [h1, h2, if_false]
  · have hpre' : hasPrefix path pfx = false := by simpa using hpre
    simp only [hpre', Bool.not_false, if_true] at hne
    exact absurd rfl hne

theorem lemma_strip_empty_pfx (d : PathDet) (path : Bytes) (hp : d.pfx = []) (hs : path.head? = some '/') :
    d.stripVersion path = path := by
  obtain ⟨pat, pfx⟩ := d
  simp only at hp
  subst hp
  unfold PathDet.stripVersion
  cases path with
  | nil => simp [hasPrefix]
  | cons c cs =>
    simp at hs
    subst hs
    simp [hasPrefix, indexByte, indexByteFrom]

/-- K1: a detector that changes the path removes prefix and segment as the oracle describes -/
theorem lemma_strip_changed (p path : Bytes) (hs : path.head? = some '/')
    (hne : (newPathDetector p).stripVersion path ≠ path) :
    Spec.stripBy path p = some ((newPathDetector p).stripVersion path) := by
  unfold Spec.stripBy
  rcases lemma_pfx_cases p with ⟨hp, _⟩ | ⟨hp, hpp⟩
  · exact absurd (lemma_strip_empty_pfx _ path hp hs) hne
  · rw [hpp]
    exact lemma_strip_core _ path hp hne

theorem lemma_segment_core (d : PathDet) (path : Bytes) (hp : d.pfx ≠ [])
    (h : (Spec.segmentAfter d.pfx path).isSome) : d.stripVersion path ≠ path := by
  obtain ⟨pat, pfx⟩ := d
  simp only at hp h
  simp only [Spec.segmentAfter, Spec.afterPrefix] at h
  by_cases htake : List.take pfx.length path = pfx
  · simp only [htake, if_true] at h
    have hpre : hasPrefix path pfx = true := (lemma_hasPrefix_take _ _).2 htake
    have hafter : List.drop pfx.length path ≠ [] := by
      intro hn; rw [hn] at h; simp at h
    have hlen : pfx.length < path.length := by
      have : (List.drop pfx.length path).length ≠ 0 := fun hz => hafter (List.length_eq_zero_iff.1 hz)
      simp at this
      omega
    have hpl : 0 < pfx.length := List.length_pos_iff.2 hp
    unfold PathDet.stripVersion
    have hlen' : ¬ (pfx.length ≥ path.length) := by omega
    simp only [hpre, Bool.not_true, Bool.false_eq_true, if_false, hlen']
    intro heq
    have hl := congrArg List.length heq
    cases hi : indexByte (List.drop pfx.length path) '/' with
    | none => simp only [hi] at hl; simp at hl; omega
    | some e => simp only [hi] at hl; simp at hl; omega
  · simp [htake] at h

/-- K2: the detector whose pattern finds a version segment changes the path -/
theorem lemma_segment_strips (p path : Bytes) (h : (Spec.versionSegment p path).isSome) :
    (newPathDetector p).stripVersion path ≠ path := by
  unfold Spec.versionSegment at h
  rcases lemma_pfx_cases p with ⟨_, hpp⟩ | ⟨hp, hpp⟩
  · simp [hpp] at h
  · rw [hpp] at h
    exact lemma_segment_core _ path hp h

theorem lemma_stripList_mem (path : Bytes) (hs : path.head? = some '/') (pats : List Bytes)
    (hex : ∃ p ∈ pats, (newPathDetector p).stripVersion path ≠ path) :
    stripList path (pats.map newPathDetector) ∈ pats.filterMap (Spec.stripBy path) := by
  induction pats with
  | nil => obtain ⟨p, hp, _⟩ := hex; simp at hp
  | cons a t ih =>
    simp only [List.map_cons, stripList]
    by_cases ha : (newPathDetector a).stripVersion path = path
    · have : ((newPathDetector a).stripVersion path != path) = false := by simpa using ha
      simp only [this, Bool.false_eq_true, if_false]
      have hex' : ∃ p ∈ t, (newPathDetector p).stripVersion path ≠ path := by
        obtain ⟨p, hp, hne⟩ := hex
        rcases List.mem_cons.1 hp with rfl | hp
        · exact absurd ha hne
        · exact ⟨p, hp, hne⟩
      have := ih hex'
      rw [List.filterMap_cons]
      cases Spec.stripBy path a with
      | none => exact this
      | some x => exact List.mem_cons_of_mem _ this
    · have : ((newPathDetector a).stripVersion path != path) = true := by simpa using ha
      simp only [this, if_true]
      rw [List.filterMap_cons, lemma_strip_changed a path hs ha]
      exact List.mem_cons_self

theorem lemma_pathVersion_isSome (p path : Bytes) :
    (Spec.pathVersion p path).isSome = (Spec.versionSegment p path).isSome := by
  unfold Spec.pathVersion Spec.versionSegment
  cases Spec.pathPrefix p with
  | none => rfl
  | some pfx => simp

/-- the routing path `processVersioning` computes is one the oracle admits -/
theorem lemma_routingPath_mem (cfg : Cfg) (req : Req) (hr : ValidReq cfg req)
    (hlen : cfg.opts.length = req.lib.length) :
    (match extractPathSegment req.path ((detectors cfg req).map (·.1)) with
      | some _ => stripPathVersion req.path ((detectors cfg req).map (·.1))
      | none => req.path) ∈ Spec.routingPaths cfg req.path := by
  rw [lemma_extractPathSegment, lemma_stripPathVersion, lemma_pathDets_build cfg req hlen]
  unfold Spec.routingPaths
  have hfs : ((Spec.pathPatterns cfg).map newPathDetector).findSome? (·.extractSegment req.path) =
      (Spec.pathPatterns cfg).findSome? (fun p => Spec.pathVersion p req.path) := by
    rw [List.findSome?_map]
    congr 1
    funext p
    simp [lemma_extractSegment_eq, lemma_extractFromPath_eq]
  rw [hfs]
  cases hfind : (Spec.pathPatterns cfg).findSome? (fun p => Spec.pathVersion p req.path) with
  | none =>
    have hall : ∀ p ∈ Spec.pathPatterns cfg, Spec.pathVersion p req.path = none :=
      List.findSome?_eq_none_iff.1 hfind
    have : (Spec.pathPatterns cfg).any (fun p => (Spec.versionSegment p req.path).isSome) = false := by
      rw [List.any_eq_false]
      intro p hp
      rw [← lemma_pathVersion_isSome, hall p hp]
      simp
    simp [this]
  | some v =>
    obtain ⟨p, hp, hv⟩ := List.exists_of_findSome?_eq_some hfind
    have hseg : (Spec.versionSegment p req.path).isSome = true := by
      rw [← lemma_pathVersion_isSome, hv]; rfl
    have : (Spec.pathPatterns cfg).any (fun p => (Spec.versionSegment p req.path).isSome) = true :=
      List.any_eq_true.2 ⟨p, hp, hseg⟩
    simp only [this, if_true]
    exact lemma_stripList_mem req.path hr.path_slash _ ⟨p, hp, lemma_segment_strips p req.path hseg⟩

/-! ### trees -/

theorem lemma_contains_filter_map (routes : List Route) (q : Route → Bool) (p : Bytes) :
    ((routes.filter q).map (·.path)).contains p = routes.any (fun r => q r && r.path == p) := by
  induction routes with
  | nil => rfl
  | cons a t ih =>
    by_cases hq : q a = true
    · simp only [List.filter_cons, hq, if_true, List.map_cons, List.contains_cons, List.any_cons, ih,
        Bool.true_and]
      congr 1
      exact BEq.comm
    · have hq' : q a = false := by simpa using hq
      simp only [List.filter_cons, hq', Bool.false_eq_true, if_false, List.any_cons, Bool.false_and,
        Bool.false_or]
      exact ih

theorem lemma_treeLookup_eq (routes : List Route) (ver : Option Bytes) (method path : Bytes) :
    treeLookup (treeRoutes routes ver method) path = Spec.routed routes ver method path := by
  unfold treeLookup treeRoutes Spec.routed
  simp only [lemma_contains_filter_map]
  by_cases h0 : path = []
  · simp [h0]
  · by_cases h1 : path = ['/']
    · simp [h1]
    · simp [h0, h1]

theorem lemma_selectRoutingTree_eq (cfg : Cfg) (routes : List Route) (method ver : Bytes)
    (hv : ver ≠ []) (hd : cfg.dflt ≠ []) :
    selectRoutingTree cfg routes method ver = Spec.servingTree cfg routes method ver := by
  unfold selectRoutingTree Spec.servingTree treeExists Spec.hasRoutes
  simp only [hv, if_false]
  split
  · rfl
  · rename_i hno
    by_cases he : ver = cfg.dflt
    · subst he
      simp [hno]
    · have : (cfg.dflt != [] && ver != cfg.dflt) = true := by simp [hd, he]
      simp only [this, if_true]

/-! ### lifecycle -/

theorem lemma_find_reverse {α} (p : α → Bool) (l : List α) :
    l.reverse.find? p = (l.filter p).getLast? := by
  induction l with
  | nil => rfl
  | cons a t ih =>
    rw [List.reverse_cons, List.find?_append, ih]
    by_cases hp : p a = true
    · simp only [List.filter_cons, hp, if_true, List.getLast?_cons, List.find?_cons]
      cases (List.filter p t).getLast? <;> simp
    · have hp' : p a = false := by simpa using hp
      simp [hp']

theorem lemma_getLifecycle_eq (cfg : Cfg) (v : Bytes) :
    getLifecycle cfg.lifecycles v = Spec.lifecycleOf cfg v := by
  unfold getLifecycle Spec.lifecycleOf
  rw [lemma_find_reverse]

theorem lemma_shouldApply (cfg : Cfg) (dets : List Det) (path : Bytes) (hd : cfg.dflt ≠ []) :
    shouldApplyVersioning cfg dets path = true := by
  unfold shouldApplyVersioning
  split
  · rfl
  · split
    · rfl
    · simpa using hd

end Rivaas.Version
