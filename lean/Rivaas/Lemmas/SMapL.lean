import Rivaas.Model.RouteBase
/-
`SMap` (Model/RouteBase) is a canonical finite map: `set` keeps the keys strictly increasing, two sorted
maps with the same lookups are the same list.
-/
namespace Rivaas.Route

theorem bytesLt_irrefl (a : Bytes) : bytesLt a a = false := by
  induction a with
  | nil => rfl
  | cons x xs ih => simp [bytesLt, ih]

theorem bytesLt_trans (a b c : Bytes) (h1 : bytesLt a b = true) (h2 : bytesLt b c = true) : bytesLt a c = true := by
  induction a generalizing b c with
  | nil =>
    cases b with
    | nil => simp [bytesLt] at h1
    | cons y ys =>
      cases c with
      | nil => simp [bytesLt] at h2
      | cons z zs => rfl
  | cons x xs ih =>
    cases b with
    | nil => simp [bytesLt] at h1
    | cons y ys =>
      cases c with
      | nil => simp [bytesLt] at h2
      | cons z zs =>
        simp only [bytesLt] at h1 h2 ⊢
        by_cases hxy : x.toNat < y.toNat
        · by_cases hyz : y.toNat < z.toNat
          · have : x.toNat < z.toNat := by omega
            simp [this]
          · simp only [hyz, if_false] at h2
            by_cases hzy : z.toNat < y.toNat
            · simp [hzy] at h2
            · have : x.toNat < z.toNat := by omega
              simp [this]
        · simp only [hxy, if_false] at h1
          by_cases hyx : y.toNat < x.toNat
          · simp [hyx] at h1
          · simp only [hyx, if_false] at h1
            have hxy' : x.toNat = y.toNat := by omega
            by_cases hyz : y.toNat < z.toNat
            · have : x.toNat < z.toNat := by omega
              simp [this]
            · simp only [hyz, if_false] at h2
              by_cases hzy : z.toNat < y.toNat
              · simp [hzy] at h2
              · simp only [hzy, if_false] at h2
                have h3 : ¬ x.toNat < z.toNat := by omega
                have h4 : ¬ z.toNat < x.toNat := by omega
                simp only [h3, h4, if_false]
                exact ih ys zs h1 h2

theorem bytesLt_total (a b : Bytes) (h : a ≠ b) : bytesLt a b = true ∨ bytesLt b a = true := by
  induction a generalizing b with
  | nil =>
    cases b with
    | nil => exact absurd rfl h
    | cons y ys => left; rfl
  | cons x xs ih =>
    cases b with
    | nil => right; rfl
    | cons y ys =>
      simp only [bytesLt]
      by_cases hxy : x.toNat < y.toNat
      · left; simp [hxy]
      · by_cases hyx : y.toNat < x.toNat
        · right; simp [hyx]
        · have hxy' : x = y := Char.toNat_inj.mp (by omega)
          subst hxy'
          have hne : xs ≠ ys := by intro e; subst e; exact h rfl
          simp only [hxy, if_false]
          exact ih ys hne

theorem bytesLt_asymm (a b : Bytes) (h : bytesLt a b = true) : bytesLt b a = false := by
  cases hb : bytesLt b a with
  | false => rfl
  | true =>
    have := bytesLt_trans a b a h hb
    rw [bytesLt_irrefl] at this
    exact absurd this (by simp)

/-- keys strictly increasing -/
def SMap.Sorted (m : SMap) : Prop := m.Pairwise fun a b => bytesLt a.1 b.1 = true

theorem SMap.get_set (j k v : Bytes) (m : SMap) :
    SMap.get j (SMap.set k v m) = if j = k then some v else SMap.get j m := by
  induction m with
  | nil => simp [SMap.set, SMap.get]
  | cons a rest ih =>
    obtain ⟨k', v'⟩ := a
    simp only [SMap.set]
    by_cases hk : k = k'
    · subst hk
      simp only [if_true, SMap.get]
      by_cases hj : j = k <;> simp [hj]
    · simp only [hk, if_false]
      by_cases hlt : bytesLt k k' = true
      · simp only [hlt, if_true, SMap.get]
      · simp only [hlt, Bool.false_eq_true, if_false, SMap.get, ih]
        by_cases hj : j = k'
        · subst hj
          have : ¬ j = k := fun e => hk e.symm
          simp [this]
        · simp [hj]

theorem SMap.set_keys (k v : Bytes) (m : SMap) (x : Bytes × Bytes) (hx : x ∈ SMap.set k v m) :
    x = (k, v) ∨ x ∈ m := by
  induction m with
  | nil => simp [SMap.set] at hx; left; exact hx
  | cons a rest ih =>
    obtain ⟨k', v'⟩ := a
    simp only [SMap.set] at hx
    by_cases hk : k = k'
    · simp only [hk, if_true, List.mem_cons] at hx
      rcases hx with h | h
      · left; rw [h, hk]
      · right; exact List.mem_cons_of_mem _ h
    · simp only [hk, if_false] at hx
      by_cases hlt : bytesLt k k' = true
      · simp only [hlt, if_true, List.mem_cons] at hx
        rcases hx with h | h | h
        · left; exact h
        · right; rw [h]; exact List.mem_cons_self ..
        · right; exact List.mem_cons_of_mem _ h
      · simp only [hlt, Bool.false_eq_true, if_false, List.mem_cons] at hx
        rcases hx with h | h
        · right; rw [h]; exact List.mem_cons_self ..
        · rcases ih h with h | h
          · left; exact h
          · right; exact List.mem_cons_of_mem _ h

theorem SMap.set_sorted (k v : Bytes) (m : SMap) (hm : m.Sorted) : (SMap.set k v m).Sorted := by
  induction m with
  | nil => simp [SMap.set, SMap.Sorted]
  | cons a rest ih =>
    obtain ⟨k', v'⟩ := a
    unfold SMap.Sorted at hm ⊢
    rw [List.pairwise_cons] at hm
    simp only [SMap.set]
    by_cases hk : k = k'
    · subst hk
      simp only [if_true]
      rw [List.pairwise_cons]
      exact ⟨hm.1, hm.2⟩
    · simp only [hk, if_false]
      by_cases hlt : bytesLt k k' = true
      · simp only [hlt, if_true]
        rw [List.pairwise_cons, List.pairwise_cons]
        refine ⟨?_, hm.1, hm.2⟩
        intro x hx
        simp only [List.mem_cons] at hx
        rcases hx with rfl | hx
        · exact hlt
        · exact bytesLt_trans _ _ _ hlt (hm.1 x hx)
      · simp only [hlt, Bool.false_eq_true, if_false]
        rw [List.pairwise_cons]
        refine ⟨?_, ih hm.2⟩
        intro x hx
        rcases SMap.set_keys k v rest x hx with rfl | hx
        · rcases bytesLt_total k k' hk with h | h
          · exact absurd h hlt
          · exact h
        · exact hm.1 x hx

theorem SMap.get_none_of_lt (j : Bytes) (m : SMap) (h : ∀ x ∈ m, bytesLt j x.1 = true) : SMap.get j m = none := by
  induction m with
  | nil => rfl
  | cons a rest ih =>
    obtain ⟨k', v'⟩ := a
    have hk : j ≠ k' := by
      intro e; subst e
      have := h (j, v') (List.mem_cons_self ..)
      rw [bytesLt_irrefl] at this; exact absurd this (by simp)
    simp only [SMap.get, hk, if_false]
    exact ih (fun x hx => h x (List.mem_cons_of_mem _ hx))

/-- extensionality: sorted maps are determined by their lookups -/
theorem SMap.ext (a b : SMap) (ha : a.Sorted) (hb : b.Sorted) (h : ∀ k, SMap.get k a = SMap.get k b) : a = b := by
  induction a generalizing b with
  | nil =>
    cases b with
    | nil => rfl
    | cons y ys =>
      have := h y.1
      simp [SMap.get] at this
  | cons x xs ih =>
    obtain ⟨kx, vx⟩ := x
    cases b with
    | nil =>
      have := h kx
      simp [SMap.get] at this
    | cons y ys =>
      obtain ⟨ky, vy⟩ := y
      unfold SMap.Sorted at ha hb
      rw [List.pairwise_cons] at ha hb
      have hkk : kx = ky := by
        apply Classical.byContradiction
        intro hne
        rcases bytesLt_total kx ky hne with hlt | hlt
        · -- kx is below every key of b
          have h1 := h kx
          simp only [SMap.get, if_true, hne, if_false] at h1
          have : SMap.get kx ys = none :=
            SMap.get_none_of_lt kx ys (fun z hz => bytesLt_trans _ _ _ hlt (hb.1 z hz))
          rw [this] at h1; exact absurd h1 (by simp)
        · have h1 := h ky
          have hne' : ¬ ky = kx := fun e => hne e.symm
          simp only [SMap.get, if_true, hne', if_false] at h1
          have : SMap.get ky xs = none :=
            SMap.get_none_of_lt ky xs (fun z hz => bytesLt_trans _ _ _ hlt (ha.1 z hz))
          rw [this] at h1; exact absurd h1.symm (by simp)
      subst hkk
      have hvv : vx = vy := by
        have h1 := h kx
        simp only [SMap.get, if_true] at h1
        injection h1
      subst hvv
      congr 1
      apply ih ys ha.2 hb.2
      intro k
      have h1 := h k
      simp only [SMap.get] at h1
      by_cases hk : k = kx
      · subst hk
        rw [SMap.get_none_of_lt k xs ha.1, SMap.get_none_of_lt k ys hb.1]
      · simpa [hk] using h1

end Rivaas.Route
