import Rivaas.Spec.Chain
/-
Simulation of the reference interpreter (`Spec/Chain.lean`, suffix recursion, no index) by the
small-step machine (`Model/Chain.lean`, explicit stack and `c.index`), for the repaired recovery
(`abortOnRecover = true`). Used by `Rivaas.C02.run_eq_ref`.

`ChainSim j nextK` says: whenever `Next`'s loop head is reached with `c.index = j` and caller stack
`K`, the machine eventually is back at `K` in the state `nextK` predicts (normal return, and then
the chain is over: stopped or index past the end) or in the middle of unwinding the panic
`nextK` predicts through `K`.
-/
namespace Rivaas.Chain

/-- machine state from a reference state, a cursor and a stack -/
def mk (r : RS) (i : Int) (stk : List Frame) (esc : Option Nat := none) : St :=
  { idx := i, aborted := r.aborted, cancelled := r.cancelled, stack := stk, trace := r.trace,
    status := r.status, body := r.body, escaped := esc }

/-- reference view of a machine state -/
def proj (s : St) : RS :=
  { aborted := s.aborted, cancelled := s.cancelled, trace := s.trace, status := s.status, body := s.body }

theorem run_add (cfg : Cfg) (progs : List Prog) (n m : Nat) (s : St) :
    run cfg progs (n + m) s = run cfg progs m (run cfg progs n s) := by
  induction n generalizing s with
  | zero => simp [run]
  | succ n ih => rw [Nat.succ_add]; simp only [run]; exact ih _

theorem run_one (cfg : Cfg) (progs : List Prog) (s : St) : run cfg progs 1 s = step cfg progs s := rfl

/-- a halted machine stays put -/
theorem run_halted (cfg : Cfg) (progs : List Prog) (n : Nat) (s : St) (h : s.stack = []) :
    run cfg progs n s = s := by
  induction n with
  | zero => rfl
  | succ n ih => simp only [run]; rw [show step cfg progs s = s by simp [step, h]]; exact ih

section
variable (cfg : Cfg) (progs : List Prog)

/-- the chain is over for every later `Next()`: stopped, or the cursor is at/after the last position -/
def DoneR (r : RS) (i : Int) : Prop := r.stopped cfg.check = true ∨ (progs.length : Int) ≤ i + 1

theorem stopped_mk (r : RS) (i : Int) (K : List Frame) (e : Option Nat) :
    (mk r i K e).stopped cfg = r.stopped cfg.check := rfl

theorem loopHead_mk_stop (r : RS) (i : Int) (K : List Frame) (h : r.stopped cfg.check = true) :
    loopHead cfg progs (mk r i K) = mk r i K := by
  unfold loopHead
  split
  · rw [stopped_mk, h]; rfl
  · rfl

theorem loopHead_mk_end (r : RS) (i : Int) (K : List Frame) (h : (progs.length : Int) ≤ i) :
    loopHead cfg progs (mk r i K) = mk r i K := by
  unfold loopHead
  have : ¬ (0 ≤ (mk r i K).idx ∧ (mk r i K).idx < progs.length) := by
    simp only [mk]; omega
  simp only [this, if_false]

theorem loopHead_mk_enter (r : RS) (j : Nat) (K : List Frame) (h : Prog) (hj : progs[j]? = some h)
    (hs : r.stopped cfg.check = false) :
    loopHead cfg progs (mk r j K) = mk (r.emit (.enter j)) j (Frame.fn j h.fk h.acts :: Frame.loop :: K) := by
  have hlt : j < progs.length := by
    rcases Nat.lt_or_ge j progs.length with h' | h'
    · exact h'
    · rw [List.getElem?_eq_none h'] at hj; cases hj
  unfold loopHead
  have hc : 0 ≤ (mk r (↑j) K).idx ∧ (mk r (↑j) K).idx < progs.length := by
    simp only [mk]; omega
  simp only [hc, and_self, if_true, stopped_mk, hs]
  simp [mk, RS.emit, hj]

theorem callNext_mk (r : RS) (i : Int) (K : List Frame) :
    callNext cfg progs (mk r i K) = loopHead cfg progs (mk r (i + 1) K) := rfl

theorem callNext_noop (r : RS) (i : Int) (K : List Frame) (h : DoneR cfg progs r i) :
    callNext cfg progs (mk r i K) = mk r (i + 1) K := by
  rw [callNext_mk]
  rcases h with h | h
  · exact loopHead_mk_stop cfg progs r _ K h
  · exact loopHead_mk_end cfg progs r _ K h

/-- `unwind` overwrites the stack: the stack field of its state argument is irrelevant -/
theorem unwind_stack_irrel (v : Nat) (stk : List Frame) (r : RS) (i : Int) (a b : List Frame) :
    unwind cfg v stk (mk r i a) = unwind cfg v stk (mk r i b) := by
  induction stk generalizing r with
  | nil => simp [unwind, mk]
  | cons f t ih =>
    cases f with
    | loop => simpa [unwind] using ih r
    | fn k fk acts =>
      cases fk with
      | sub => simpa [unwind] using ih r
      | plain =>
        have := ih (r.emit (.unwound k))
        simpa [unwind, mk, RS.emit] using this
      | recover => simp [unwind, mk, St.write]

def ChainSim (j : Nat) (nextK : RS → RS × Option Nat) : Prop :=
  ∀ (r : RS) (K : List Frame),
    match nextK r with
    | (r', none) => ∃ n i', run cfg progs n (loopHead cfg progs (mk r j K)) = mk r' i' K ∧ (j : Int) ≤ i' ∧
        (r'.stopped cfg.check = true ∨ (progs.length : Int) ≤ i')
    | (r', some v) => ∃ n i', run cfg progs n (loopHead cfg progs (mk r j K)) = unwind cfg v K (mk r' i' []) ∧
        (j : Int) ≤ i'

/-- what the machine does with the rest of a function body, against `refActs` -/
def ActsSim (k : Nat) (nextK : RS → RS × Option Nat) (acts : List Act) : Prop :=
  ∀ (fk : FK) (R : List Frame) (c : Bool) (r : RS) (i : Int),
    (c = false → i = k) → (c = true → DoneR cfg progs r i) →
    match refActs k nextK acts c r with
    | (r', c', none) => ∃ n i', run cfg progs n (mk r i (Frame.fn k fk acts :: R)) =
          mk { r' with trace := r'.trace ++ popEv k fk } i' R ∧ i ≤ i' ∧
        (c' = false → i' = k) ∧ (c' = true → DoneR cfg progs r' i')
    | (r', _, some v) => ∃ n i' as', run cfg progs n (mk r i (Frame.fn k fk acts :: R)) =
          unwind cfg v (Frame.fn k fk as' :: R) (mk r' i' []) ∧ i ≤ i'

theorem doneR_mono (r r' : RS) (i i' : Int) (h : DoneR cfg progs r i)
    (hs : r.stopped cfg.check = true → r'.stopped cfg.check = true) (hi : i ≤ i') : DoneR cfg progs r' i' := by
  rcases h with h | h
  · exact Or.inl (hs h)
  · exact Or.inr (by omega)

/-- prepend one machine step to a simulation result -/
theorem actsSim_step {k : Nat} {nextK : RS → RS × Option Nat} {acts acts' : List Act} {fk : FK} {R : List Frame}
    {c c1 : Bool} {r r1 : RS} {i i1 : Int}
    (hstep : step cfg progs (mk r i (Frame.fn k fk acts :: R)) = mk r1 i1 (Frame.fn k fk acts' :: R))
    (href : refActs k nextK acts c r = refActs k nextK acts' c1 r1) (hi : i ≤ i1)
    (ih : match refActs k nextK acts' c1 r1 with
      | (r', c', none) => ∃ n i', run cfg progs n (mk r1 i1 (Frame.fn k fk acts' :: R)) =
            mk { r' with trace := r'.trace ++ popEv k fk } i' R ∧ i1 ≤ i' ∧
          (c' = false → i' = k) ∧ (c' = true → DoneR cfg progs r' i')
      | (r', _, some v) => ∃ n i' as', run cfg progs n (mk r1 i1 (Frame.fn k fk acts' :: R)) =
            unwind cfg v (Frame.fn k fk as' :: R) (mk r' i' []) ∧ i1 ≤ i') :
    match refActs k nextK acts c r with
    | (r', c', none) => ∃ n i', run cfg progs n (mk r i (Frame.fn k fk acts :: R)) =
          mk { r' with trace := r'.trace ++ popEv k fk } i' R ∧ i ≤ i' ∧
        (c' = false → i' = k) ∧ (c' = true → DoneR cfg progs r' i')
    | (r', _, some v) => ∃ n i' as', run cfg progs n (mk r i (Frame.fn k fk acts :: R)) =
          unwind cfg v (Frame.fn k fk as' :: R) (mk r' i' []) ∧ i ≤ i' := by
  rw [href]
  revert ih
  rcases refActs k nextK acts' c1 r1 with ⟨r', c', _ | v⟩
  · rintro ⟨n, i', h1, h2, h3, h4⟩
    exact ⟨n + 1, i', by rw [Nat.add_comm, run_add, run_one, hstep]; exact h1, by omega, h3, h4⟩
  · rintro ⟨n, i', as', h1, h2⟩
    exact ⟨n + 1, i', as', by rw [Nat.add_comm, run_add, run_one, hstep]; exact h1, by omega⟩

theorem actsSim (k : Nat) (nextK : RS → RS × Option Nat) (hN : ChainSim cfg progs (k + 1) nextK) :
    ∀ (sz : Nat) (acts : List Act), Act.sizeL acts ≤ sz → ActsSim cfg progs k nextK acts := by
  intro sz
  induction sz with
  | zero =>
    intro acts hsz
    cases acts <;> simp [Act.sizeL] at hsz
    rename_i a as
    cases a <;> simp [Act.size] at hsz <;> omega
  | succ sz ih =>
    intro acts hsz fk R c r i hc0 hc1
    cases acts with
    | nil =>
      simp only [refActs]
      exact ⟨1, i, by simp [run_one, step, mk], Int.le_refl _, hc0, hc1⟩
    | cons a as =>
      have has : Act.sizeL as ≤ sz := by
        have : 1 ≤ Act.size a := by cases a <;> simp [Act.size] <;> omega
        simp only [Act.sizeL] at hsz; omega
      cases a with
      | ret =>
        simp only [refActs]
        exact ⟨1, i, by simp [run_one, step, mk], Int.le_refl _, hc0, hc1⟩
      | abort =>
        refine actsSim_step cfg progs (acts' := as) (c1 := c) (r1 := { r with aborted := true }) (i1 := i)
          (by simp [step, mk]) (by simp [refActs]) (Int.le_refl _) ?_
        exact ih as has fk R c _ i hc0 (fun h => doneR_mono cfg progs r _ i i (hc1 h)
          (fun _ => by simp [RS.stopped]) (Int.le_refl _))
      | cancel =>
        refine actsSim_step cfg progs (acts' := as) (c1 := c) (r1 := { r with cancelled := true }) (i1 := i)
          (by simp [step, mk]) (by simp [refActs]) (Int.le_refl _) ?_
        exact ih as has fk R c _ i hc0 (fun h => doneR_mono cfg progs r _ i i (hc1 h)
          (fun hs => by simp only [RS.stopped] at hs ⊢; cases ha : r.aborted <;> simp_all) (Int.le_refl _))
      | write =>
        refine actsSim_step cfg progs (acts' := as) (c1 := c) (r1 := r.write (Chunk.h k)) (i1 := i)
          (by simp [step, mk, St.write, RS.write]) (by simp [refActs]) (Int.le_refl _) ?_
        exact ih as has fk R c _ i hc0 (fun h => doneR_mono cfg progs r _ i i (hc1 h)
          (fun hs => by simpa [RS.stopped, RS.write] using hs) (Int.le_refl _))
      | panic v =>
        simp only [refActs]
        refine ⟨1, i, as, ?_, Int.le_refl _⟩
        rw [run_one]
        show unwind cfg v (Frame.fn k fk as :: R) (mk r i _) = _
        exact unwind_stack_irrel cfg v _ r i _ _
      | call b =>
        have hb : Act.sizeL b ≤ sz := by simp only [Act.sizeL, Act.size] at hsz; omega
        have hstep : step cfg progs (mk r i (Frame.fn k fk (Act.call b :: as) :: R)) =
            mk r i (Frame.fn k .sub b :: Frame.fn k fk as :: R) := by simp [step, mk]
        have hB := ih b hb .sub (Frame.fn k fk as :: R) c r i hc0 hc1
        simp only [refActs]
        rcases hrb : refActs k nextK b c r with ⟨r1, c1, _ | v⟩
        · rw [hrb] at hB
          obtain ⟨n1, i1, h1, h2, h3, h4⟩ := hB
          have h1' : run cfg progs n1 (mk r i (Frame.fn k .sub b :: Frame.fn k fk as :: R)) =
              mk r1 i1 (Frame.fn k fk as :: R) := by
            rw [h1]; simp [popEv]
          have hA := ih as has fk R c1 r1 i1 h3 h4
          simp only []
          revert hA
          rcases refActs k nextK as c1 r1 with ⟨r2, c2, _ | v2⟩
          · rintro ⟨n2, i2, g1, g2, g3, g4⟩
            exact ⟨1 + (n1 + n2), i2, by rw [run_add, run_one, hstep, run_add, h1', g1], by omega, g3, g4⟩
          · rintro ⟨n2, i2, as2, g1, g2⟩
            exact ⟨1 + (n1 + n2), i2, as2, by rw [run_add, run_one, hstep, run_add, h1', g1], by omega⟩
        · rw [hrb] at hB
          obtain ⟨n1, i1, as1, h1, h2⟩ := hB
          simp only []
          refine ⟨1 + n1, i1, as, ?_, h2⟩
          rw [run_add, run_one, hstep, h1]
          simp [unwind]
      | next =>
        simp only [refActs]
        cases c with
        | true =>
          simp only [if_true]
          have hd := hc1 rfl
          have hstep : step cfg progs (mk r i (Frame.fn k fk (Act.next :: as) :: R)) =
              mk r (i + 1) (Frame.fn k fk as :: R) := by
            show callNext cfg progs (mk r i (Frame.fn k fk as :: R)) = _
            exact callNext_noop cfg progs r i _ hd
          have hA := ih as has fk R true r (i + 1) (by simp)
            (fun _ => doneR_mono cfg progs r r i (i + 1) hd id (by omega))
          revert hA
          rcases refActs k nextK as true r with ⟨r2, c2, _ | v2⟩
          · rintro ⟨n2, i2, g1, g2, g3, g4⟩
            exact ⟨1 + n2, i2, by rw [run_add, run_one, hstep, g1], by omega, g3, g4⟩
          · rintro ⟨n2, i2, as2, g1, g2⟩
            exact ⟨1 + n2, i2, as2, by rw [run_add, run_one, hstep, g1], by omega⟩
        | false =>
          have hik : i = k := hc0 rfl
          subst hik
          simp only [Bool.false_eq_true, if_false]
          have hstep : step cfg progs (mk r k (Frame.fn k fk (Act.next :: as) :: R)) =
              loopHead cfg progs (mk r (k + 1 : Nat) (Frame.fn k fk as :: R)) := by
            show callNext cfg progs (mk r k (Frame.fn k fk as :: R)) = _
            rw [callNext_mk]; simp
          have hNr := hN r (Frame.fn k fk as :: R)
          rcases hnk : nextK r with ⟨r1, _ | v⟩
          · rw [hnk] at hNr
            obtain ⟨n1, i1, h1, h2, h3⟩ := hNr
            have hd : DoneR cfg progs r1 i1 := by
              rcases h3 with h3 | h3
              · exact Or.inl h3
              · exact Or.inr (by omega)
            have hA := ih as has fk R true r1 i1 (by simp) (fun _ => hd)
            simp only []
            revert hA
            rcases refActs k nextK as true r1 with ⟨r2, c2, _ | v2⟩
            · rintro ⟨n2, i2, g1, g2, g3, g4⟩
              refine ⟨1 + (n1 + n2), i2, by rw [run_add, run_one, hstep, run_add, h1, g1], ?_, g3, g4⟩
              have : ((k + 1 : Nat) : Int) ≤ i1 := h2
              omega
            · rintro ⟨n2, i2, as2, g1, g2⟩
              refine ⟨1 + (n1 + n2), i2, as2, by rw [run_add, run_one, hstep, run_add, h1, g1], ?_⟩
              have : ((k + 1 : Nat) : Int) ≤ i1 := h2
              omega
          · rw [hnk] at hNr
            obtain ⟨n1, i1, h1, h2⟩ := hNr
            simp only []
            refine ⟨1 + n1, i1, as, by rw [run_add, run_one, hstep, h1], ?_⟩
            have : ((k + 1 : Nat) : Int) ≤ i1 := h2
            omega

theorem fk_ne_sub (p : Prog) : popEv k p.fk = [Ev.exit k] := by
  unfold Prog.fk; split <;> rfl

/-- the whole suffix from position `j` on -/
theorem chainSim (hab : cfg.abortOnRecover = true) :
    ∀ (rest : List Prog) (j : Nat), progs.drop j = rest → ChainSim cfg progs j (refChain cfg.check j rest) := by
  intro rest
  induction rest with
  | nil =>
    intro j hj r K
    simp only [refChain]
    have hlen : progs.length ≤ j := by
      have := congrArg List.length hj
      simp at this; omega
    exact ⟨0, j, by simp [run, loopHead_mk_end cfg progs r j K (by omega)], Int.le_refl _, Or.inr (by omega)⟩
  | cons h rest' ih =>
    intro j hj r K
    have hjh : progs[j]? = some h := by
      have := congrArg List.head? hj
      simpa [List.head?_drop] using this
    have hdrop : progs.drop (j + 1) = rest' := by
      have := congrArg List.tail hj
      simpa [List.tail_drop] using this
    have hN := ih (j + 1) hdrop
    simp only [refChain]
    cases hs : r.stopped cfg.check with
    | true =>
      simp only [if_true]
      exact ⟨0, j, by simp [run, loopHead_mk_stop cfg progs r j K hs], Int.le_refl _, Or.inl hs⟩
    | false =>
      simp only [Bool.false_eq_true, if_false]
      have henter := loopHead_mk_enter cfg progs r j K h hjh hs
      have hB := actsSim cfg progs j _ hN (Act.sizeL h.acts) h.acts (Nat.le_refl _) h.fk (Frame.loop :: K) false
        (r.emit (.enter j)) j (fun _ => rfl) (by simp)
      rcases hra : refActs j (refChain cfg.check (j + 1) rest') h.acts false (r.emit (.enter j)) with ⟨r1, c1, _ | v⟩
      · rw [hra] at hB
        obtain ⟨n1, i1, h1, h2, h3, h4⟩ := hB
        rw [fk_ne_sub] at h1
        have h1' : run cfg progs n1 (loopHead cfg progs (mk r j K)) = mk (r1.emit (.exit j)) i1 (Frame.loop :: K) := by
          rw [henter, h1]; rfl
        have hloop : step cfg progs (mk (r1.emit (.exit j)) i1 (Frame.loop :: K)) =
            loopHead cfg progs (mk (r1.emit (.exit j)) (i1 + 1) K) := by simp [step, mk]
        simp only []
        cases c1 with
        | true =>
          simp only [if_true]
          have hd : DoneR cfg progs (r1.emit (.exit j)) i1 :=
            doneR_mono cfg progs r1 _ i1 i1 (h4 rfl) (fun hs => by simpa [RS.stopped, RS.emit] using hs) (Int.le_refl _)
          have hno : loopHead cfg progs (mk (r1.emit (.exit j)) (i1 + 1) K) = mk (r1.emit (.exit j)) (i1 + 1) K := by
            rcases hd with hd | hd
            · exact loopHead_mk_stop cfg progs _ _ K hd
            · exact loopHead_mk_end cfg progs _ _ K hd
          refine ⟨n1 + 1, i1 + 1, by rw [run_add, h1', run_one, hloop, hno], by omega, ?_⟩
          rcases hd with hd | hd
          · exact Or.inl hd
          · exact Or.inr hd
        | false =>
          simp only [Bool.false_eq_true, if_false]
          have hi1 : i1 = j := h3 rfl
          subst hi1
          have hnext := hN (r1.emit (.exit j)) K
          revert hnext
          rcases refChain cfg.check (j + 1) rest' (r1.emit (.exit j)) with ⟨r2, _ | v2⟩
          · rintro ⟨n2, i2, g1, g2, g3⟩
            refine ⟨n1 + (1 + n2), i2, ?_, by omega, g3⟩
            rw [run_add, h1', run_add, run_one, hloop]
            exact g1
          · rintro ⟨n2, i2, g1, g2⟩
            refine ⟨n1 + (1 + n2), i2, ?_, by omega⟩
            rw [run_add, h1', run_add, run_one, hloop]
            exact g1
      · rw [hra] at hB
        obtain ⟨n1, i1, as1, h1, hi1⟩ := hB
        simp only []
        cases hrec : h.recovers with
        | true =>
          simp only [if_true]
          have hfk : h.fk = .recover := by simp [Prog.fk, hrec]
          rw [hfk] at h1 henter
          -- handlePanic: abort, 500, then the frame returns and the loop stops
          let r2 : RS := ({ r1 with aborted := true } : RS).write Chunk.rec500
          have hun : unwind cfg v (Frame.fn j .recover as1 :: Frame.loop :: K) (mk r1 i1 []) =
              mk r2 i1 (Frame.fn j .recover [] :: Frame.loop :: K) := by
            simp [unwind, mk, St.write, RS.write, hab, r2]
          have hpop : step cfg progs (mk r2 i1 (Frame.fn j .recover [] :: Frame.loop :: K)) =
              mk (r2.emit (.exit j)) i1 (Frame.loop :: K) := by simp [step, mk, popEv, RS.emit]
          have hloop : step cfg progs (mk (r2.emit (.exit j)) i1 (Frame.loop :: K)) =
              loopHead cfg progs (mk (r2.emit (.exit j)) (i1 + 1) K) := by simp [step, mk]
          have hst : (r2.emit (.exit j)).stopped cfg.check = true := by simp [RS.stopped, RS.emit, RS.write, r2]
          have hno := loopHead_mk_stop cfg progs (r2.emit (.exit j)) (i1 + 1) K hst
          refine ⟨n1 + (1 + 1), i1 + 1, ?_, ?_, Or.inl hst⟩
          · rw [run_add, henter, h1, hun, run_add, run_one, run_one, hpop, hloop, hno]
          · omega
        | false =>
          simp only [Bool.false_eq_true, if_false]
          have hfk : h.fk = .plain := by simp [Prog.fk, hrec]
          rw [hfk] at h1 henter
          refine ⟨n1, i1, ?_, hi1⟩
          rw [henter, h1]
          simp [unwind, mk, RS.emit]

end

end Rivaas.Chain
