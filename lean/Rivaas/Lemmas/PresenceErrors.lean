import Rivaas.Spec.Presence
import Rivaas.Lemmas.BytesOrder
/-
C05 — the error loops of `validatePartialLeafsOnly` and `formatTagErrors` are instances of one
capped accumulation `capLoop`; its properties (the result is a prefix of what would be reported
without a cap; the cap is respected; `Truncated` exactly when the loop stopped early) and the
properties of `Error.Sort` (a sorting function for the order path-then-code).
-/
namespace Rivaas.Presence

/-- add group after group; stop (truncated) as soon as a positive maximum is reached -/
def capLoop {α : Type} (max : Nat) : List (List α) → List α → List α × Bool
  | [], acc => (acc, false)
  | g :: rest, acc =>
    if max > 0 ∧ (acc ++ g).length ≥ max then (acc ++ g, true) else capLoop max rest (acc ++ g)

/-- the list a capped loop returns once the combined list is cut to the maximum (K05l repair) -/
def trimCap {α : Type} (max : Nat) (r : List α × Bool) : List α := if r.2 then r.1.take max else r.1

theorem partialLoop_eq_capLoop (mk : Opts → Path → Viol → FieldErr) (own : Path → List Viol) (o : Opts)
    (leaves : List Path) (acc : List FieldErr) :
    partialLoop mk own o leaves acc =
      { fields := trimCap o.maxErrors (capLoop o.maxErrors (leaves.map fun p => (own p).map (mk o p)) acc),
        truncated := (capLoop o.maxErrors (leaves.map fun p => (own p).map (mk o p)) acc).2 } := by
  induction leaves generalizing acc with
  | nil => simp [partialLoop, capLoop, trimCap]
  | cons p rest ih =>
    simp only [partialLoop, capLoop, List.map_cons]
    by_cases h : o.maxErrors > 0 ∧ (acc ++ (own p).map (mk o p)).length ≥ o.maxErrors
    · rw [if_pos h, if_pos h]; simp [trimCap]
    · rw [if_neg h, if_neg h]; exact ih _

/-- a loop that was not truncated stayed below a positive maximum -/
theorem capLoop_false_lt {α : Type} (max : Nat) (hm : max > 0) (groups : List (List α)) (acc : List α)
    (hacc : acc.length < max) (hf : (capLoop max groups acc).2 = false) : (capLoop max groups acc).1.length < max := by
  induction groups generalizing acc with
  | nil => simpa [capLoop] using hacc
  | cons g rest ih =>
    simp only [capLoop] at hf ⊢
    by_cases h : max > 0 ∧ (acc ++ g).length ≥ max
    · rw [if_pos h] at hf; simp at hf
    · rw [if_neg h] at hf ⊢
      have : (acc ++ g).length < max := by
        rcases Nat.lt_or_ge (acc ++ g).length max with h1 | h1
        · exact h1
        · exact absurd ⟨hm, h1⟩ h
      exact ih (acc ++ g) this hf

theorem fullLoop_eq_capLoop (mk : Opts → Path → Viol → FieldErr) (o : Opts)
    (errs : List (Path × Viol)) (acc : List FieldErr) :
    fullLoop mk o errs acc =
      { fields := (capLoop o.maxErrors (errs.map fun pv => [mk o pv.1 pv.2]) acc).1,
        truncated := (capLoop o.maxErrors (errs.map fun pv => [mk o pv.1 pv.2]) acc).2 } := by
  induction errs generalizing acc with
  | nil => simp [fullLoop, capLoop]
  | cons pv rest ih =>
    obtain ⟨p, v⟩ := pv
    simp only [fullLoop, capLoop, List.map_cons]
    by_cases h : o.maxErrors > 0 ∧ (acc ++ [mk o p v]).length ≥ o.maxErrors
    · rw [if_pos h, if_pos h]
    · rw [if_neg h, if_neg h]; exact ih _

/-- the loop returns the accumulator extended by a prefix of the groups; the whole of them unless it
    stopped early, and it stops early only at a positive maximum that has been reached -/
theorem capLoop_spec {α : Type} (max : Nat) (groups : List (List α)) (acc : List α) :
    ∃ k, k ≤ groups.length ∧
      (capLoop max groups acc).1 = acc ++ (groups.take k).flatten ∧
      ((capLoop max groups acc).2 = false → k = groups.length) ∧
      ((capLoop max groups acc).2 = true → max > 0 ∧ (capLoop max groups acc).1.length ≥ max) := by
  induction groups generalizing acc with
  | nil => exact ⟨0, by simp [capLoop]⟩
  | cons g rest ih =>
    simp only [capLoop]
    by_cases h : max > 0 ∧ (acc ++ g).length ≥ max
    · rw [if_pos h]
      exact ⟨1, by simp, by simp, by simp, fun _ => h⟩
    · rw [if_neg h]
      obtain ⟨k, hk, h1, h2, h3⟩ := ih (acc ++ g)
      refine ⟨k + 1, by simp; omega, ?_, ?_, h3⟩
      · simp [h1, List.append_assoc]
      · intro hf; simp [h2 hf]

/-- with at most one element per group the result never exceeds a positive maximum, and it is
    exactly full when truncated -/
theorem capLoop_capped {α : Type} (max : Nat) (hm : max > 0) (groups : List (List α))
    (hs : ∀ g ∈ groups, g.length ≤ 1) (acc : List α) (hacc : acc.length < max) :
    (capLoop max groups acc).1.length ≤ max ∧
    ((capLoop max groups acc).2 = true → (capLoop max groups acc).1.length = max) ∧
    ((capLoop max groups acc).2 = false → (capLoop max groups acc).1.length < max) := by
  induction groups generalizing acc with
  | nil => simp [capLoop]; omega
  | cons g rest ih =>
    have hg : g.length ≤ 1 := hs g (List.mem_cons_self ..)
    simp only [capLoop]
    by_cases h : max > 0 ∧ (acc ++ g).length ≥ max
    · rw [if_pos h]
      have : (acc ++ g).length ≤ max := by simp; omega
      have h2 := h.2
      refine ⟨this, fun _ => by show (acc ++ g).length = max; omega, fun hf => by simp at hf⟩
    · rw [if_neg h]
      have : (acc ++ g).length < max := by
        rcases Nat.lt_or_ge (acc ++ g).length max with h1 | h1
        · exact h1
        · exact absurd ⟨hm, h1⟩ h
      exact ih (fun g' hg' => hs g' (List.mem_cons_of_mem _ hg')) (acc ++ g) this

/-- without a maximum nothing is ever cut -/
theorem capLoop_unlimited {α : Type} (groups : List (List α)) (acc : List α) :
    capLoop 0 groups acc = (acc ++ groups.flatten, false) := by
  induction groups generalizing acc with
  | nil => simp [capLoop]
  | cons g rest ih => simp [capLoop, ih, List.append_assoc]

/-- the trimmed list never exceeds a positive maximum, is exactly full when truncated and below it otherwise —
    whatever the groups hold -/
theorem trimCap_capped {α : Type} (max : Nat) (hm : max > 0) (groups : List (List α)) :
    (trimCap max (capLoop max groups [])).length ≤ max ∧
    ((capLoop max groups []).2 = true → (trimCap max (capLoop max groups [])).length = max) ∧
    ((capLoop max groups []).2 = false → (trimCap max (capLoop max groups [])).length < max) := by
  obtain ⟨_, _, _, _, h3⟩ := capLoop_spec max groups []
  by_cases hf : (capLoop max groups []).2 = true
  · have := (h3 hf).2
    have hl : (trimCap max (capLoop max groups [])).length = max := by
      simp only [trimCap, hf, if_true, List.length_take]; omega
    exact ⟨by omega, fun _ => hl, fun h => by rw [hf] at h; cases h⟩
  · have hf' : (capLoop max groups []).2 = false := by simpa using hf
    have := capLoop_false_lt max hm groups [] (by simpa using hm) hf'
    have hl : (trimCap max (capLoop max groups [])).length = (capLoop max groups []).1.length := by
      simp [trimCap, hf']
    exact ⟨by omega, fun h => absurd h hf, fun _ => by omega⟩


/-! ### `Error.Sort` -/

theorem errLe_total (a b : FieldErr) : (errLe a b || errLe b a) = true := by
  unfold errLe
  by_cases h : a.path = b.path
  · rw [if_pos h, if_pos h.symm]; exact leB_total _ _
  · have h' : ¬ b.path = a.path := fun e => h e.symm
    rw [if_neg h, if_neg h']; exact leB_total _ _

theorem errLe_trans (a b c : FieldErr) (h1 : errLe a b = true) (h2 : errLe b c = true) :
    errLe a c = true := by
  unfold errLe at *
  by_cases hab : a.path = b.path
  · by_cases hbc : b.path = c.path
    · have hac : a.path = c.path := hab.trans hbc
      rw [if_pos hab] at h1
      rw [if_pos hbc] at h2
      rw [if_pos hac]
      exact leB_trans _ _ _ h1 h2
    · have hac : ¬ a.path = c.path := fun e => hbc (hab ▸ e)
      rw [if_neg hbc] at h2
      rw [if_neg hac, hab]; exact h2
  · by_cases hbc : b.path = c.path
    · have hac : ¬ a.path = c.path := fun e => hab (e.trans hbc.symm)
      rw [if_neg hab] at h1
      rw [if_neg hac, ← hbc]; exact h1
    · rw [if_neg hab] at h1
      rw [if_neg hbc] at h2
      by_cases hac : a.path = c.path
      · -- a.path ≤ b.path ≤ c.path = a.path forces b.path = a.path
        exfalso
        apply hab
        exact leB_antisymm _ _ h1 (hac ▸ h2)
      · rw [if_neg hac]
        exact leB_trans _ _ _ h1 h2

theorem sortErrs_perm (l : List FieldErr) : (sortErrs l).Perm l := List.mergeSort_perm l errLe

theorem mem_sortErrs {l : List FieldErr} {e : FieldErr} : e ∈ sortErrs l ↔ e ∈ l :=
  (sortErrs_perm l).mem_iff

theorem sortErrs_length (l : List FieldErr) : (sortErrs l).length = l.length := (sortErrs_perm l).length_eq

theorem sortErrs_sorted (l : List FieldErr) : (sortErrs l).Pairwise (fun a b => errLe a b = true) :=
  List.pairwise_mergeSort (le := errLe) errLe_trans errLe_total l

theorem errSorted_of_pairwise {l : List FieldErr} (h : l.Pairwise (fun a b => errLe a b = true)) :
    errSorted l = true := by
  induction l with
  | nil => simp [errSorted]
  | cons a rest ih =>
    cases rest with
    | nil => simp [errSorted]
    | cons b rest' =>
      have h1 := List.pairwise_cons.mp h
      simp only [errSorted, Bool.and_eq_true]
      exact ⟨h1.1 b (List.mem_cons_self ..), ih h1.2⟩

/-! ### from the loops to the returned `*Error` -/

/-- the groups the partial loop adds: per leaf within the field limit, the errors of its own rule -/
def partialGroups (mk : Opts → Path → Viol → FieldErr) (leaves : List Path) (own : Path → List Viol)
    (o : Opts) : List (List FieldErr) :=
  (leaves.take (maxLeaves o)).map fun p => (own p).map (mk o p)

theorem capLoop_trunc_nonempty {α : Type} (max : Nat) (groups : List (List α)) (acc : List α)
    (h : (capLoop max groups acc).2 = true) : (capLoop max groups acc).1 ≠ [] := by
  obtain ⟨_, _, _, _, h3⟩ := capLoop_spec max groups acc
  have := h3 h
  intro he
  rw [he] at this
  simp at this
  omega

/-- how both modes wrap the loop's outcome: nil without errors, else the sorted list -/
def wrap (fs : List FieldErr) (t : Bool) : Option Result :=
  if fs.isEmpty then none else some { fields := sortErrs fs, truncated := t }

theorem wrap_fields (fs : List FieldErr) (t : Bool) : (fieldsOf (wrap fs t)).Perm fs := by
  unfold wrap
  cases fs with
  | nil => simp [fieldsOf]
  | cons a rest => simp only [List.isEmpty_cons, Bool.false_eq_true, if_false, fieldsOf]; exact sortErrs_perm _

theorem wrap_trunc (fs : List FieldErr) (t : Bool) (h : t = true → fs ≠ []) : truncOf (wrap fs t) = t := by
  unfold wrap
  cases fs with
  | nil =>
    cases t with
    | false => simp [truncOf]
    | true => exact absurd rfl (h rfl)
  | cons a rest => simp [truncOf]

theorem wrap_sorted (fs : List FieldErr) (t : Bool) :
    (fieldsOf (wrap fs t)).Pairwise (fun a b => errLe a b = true) := by
  unfold wrap
  cases fs with
  | nil => simp [fieldsOf]
  | cons a rest => simp only [List.isEmpty_cons, Bool.false_eq_true, if_false, fieldsOf]; exact sortErrs_sorted _

theorem wrap_some_nonempty (fs : List FieldErr) (t : Bool) (r : Result) (h : wrap fs t = some r) :
    r.fields ≠ [] := by
  unfold wrap at h
  cases fs with
  | nil => simp at h
  | cons a rest =>
    simp only [List.isEmpty_cons, Bool.false_eq_true, if_false, Option.some.injEq] at h
    rw [← h]
    intro he
    have := (sortErrs_perm (a :: rest)).length_eq
    simp only [] at he
    rw [he] at this
    simp at this

theorem partialFrom_eq_wrap (mk : Opts → Path → Viol → FieldErr) (leaves : List Path)
    (own : Path → List Viol) (o : Opts) :
    partialFrom mk leaves own o =
      wrap (trimCap o.maxErrors (capLoop o.maxErrors (partialGroups mk leaves own o) []))
           (capLoop o.maxErrors (partialGroups mk leaves own o) []).2 := by
  unfold partialFrom wrap partialGroups
  rw [partialLoop_eq_capLoop]

theorem partialFrom_fields (mk : Opts → Path → Viol → FieldErr) (leaves : List Path)
    (own : Path → List Viol) (o : Opts) :
    (fieldsOf (partialFrom mk leaves own o)).Perm
      (trimCap o.maxErrors (capLoop o.maxErrors (partialGroups mk leaves own o) [])) := by
  rw [partialFrom_eq_wrap]; exact wrap_fields _ _

theorem trimCap_trunc_nonempty {α : Type} (max : Nat) (groups : List (List α))
    (h : (capLoop max groups []).2 = true) : trimCap max (capLoop max groups []) ≠ [] := by
  obtain ⟨_, _, _, _, h3⟩ := capLoop_spec max groups []
  have := h3 h
  intro he
  have hl := congrArg List.length he
  simp only [trimCap, h, if_true, List.length_take, List.length_nil] at hl
  omega

theorem partialFrom_trunc (mk : Opts → Path → Viol → FieldErr) (leaves : List Path)
    (own : Path → List Viol) (o : Opts) :
    truncOf (partialFrom mk leaves own o) = (capLoop o.maxErrors (partialGroups mk leaves own o) []).2 := by
  rw [partialFrom_eq_wrap]; exact wrap_trunc _ _ (trimCap_trunc_nonempty _ _)

theorem partialFrom_sorted (mk : Opts → Path → Viol → FieldErr) (leaves : List Path)
    (own : Path → List Viol) (o : Opts) :
    (fieldsOf (partialFrom mk leaves own o)).Pairwise (fun a b => errLe a b = true) := by
  rw [partialFrom_eq_wrap]; exact wrap_sorted _ _

theorem partialFrom_some_nonempty (mk : Opts → Path → Viol → FieldErr) (leaves : List Path)
    (own : Path → List Viol) (o : Opts) (r : Result) (h : partialFrom mk leaves own o = some r) :
    r.fields ≠ [] := by
  rw [partialFrom_eq_wrap] at h; exact wrap_some_nonempty _ _ r h

/-- the groups of the full-mode loop: one error each, in the validator's order -/
def fullGroups (mk : Opts → Path → Viol → FieldErr) (errs : List (Path × Viol)) (o : Opts) :
    List (List FieldErr) := errs.map fun pv => [mk o pv.1 pv.2]

theorem validateFull_eq_wrap (mk : Opts → Path → Viol → FieldErr) (errs : List (Path × Viol)) (o : Opts) :
    validateFullWith mk errs o =
      wrap (capLoop o.maxErrors (fullGroups mk errs o) []).1 (capLoop o.maxErrors (fullGroups mk errs o) []).2 := by
  unfold validateFullWith wrap fullGroups
  cases errs with
  | nil => simp [capLoop]
  | cons pv rest =>
    have hne : (capLoop o.maxErrors (List.map (fun pv => [mk o pv.1 pv.2]) (pv :: rest)) []).1 ≠ [] := by
      obtain ⟨k, hk, h1, h2, h3⟩ := capLoop_spec o.maxErrors (List.map (fun pv => [mk o pv.1 pv.2]) (pv :: rest)) []
      intro he
      cases hb : (capLoop o.maxErrors (List.map (fun pv => [mk o pv.1 pv.2]) (pv :: rest)) []).2
      · have hk' := h2 hb
        rw [h1, hk'] at he
        simp at he
      · exact capLoop_trunc_nonempty _ _ _ hb he
    rw [fullLoop_eq_capLoop]
    simp only [List.isEmpty_cons, Bool.false_eq_true, if_false]
    rw [if_neg (by simpa [List.isEmpty_iff] using hne)]

theorem validateFull_fields (mk : Opts → Path → Viol → FieldErr) (errs : List (Path × Viol)) (o : Opts) :
    (fieldsOf (validateFullWith mk errs o)).Perm (capLoop o.maxErrors (fullGroups mk errs o) []).1 := by
  rw [validateFull_eq_wrap]; exact wrap_fields _ _

theorem validateFull_trunc (mk : Opts → Path → Viol → FieldErr) (errs : List (Path × Viol)) (o : Opts) :
    truncOf (validateFullWith mk errs o) = (capLoop o.maxErrors (fullGroups mk errs o) []).2 := by
  rw [validateFull_eq_wrap]; exact wrap_trunc _ _ (capLoop_trunc_nonempty _ _ _)

theorem validateFull_sorted (mk : Opts → Path → Viol → FieldErr) (errs : List (Path × Viol)) (o : Opts) :
    (fieldsOf (validateFullWith mk errs o)).Pairwise (fun a b => errLe a b = true) := by
  rw [validateFull_eq_wrap]; exact wrap_sorted _ _

theorem validateFull_some_nonempty (mk : Opts → Path → Viol → FieldErr) (errs : List (Path × Viol))
    (o : Opts) (r : Result) (h : validateFullWith mk errs o = some r) : r.fields ≠ [] := by
  rw [validateFull_eq_wrap] at h; exact wrap_some_nonempty _ _ r h

end Rivaas.Presence

namespace Rivaas.Presence

/-! ### `validateAll` (several strategies) and `coerceToValidationErrors` -/

theorem coerce_fields (errs : List FieldErr) (o : Opts) :
    (fieldsOf (coerce errs o)).Perm
      (if o.maxErrors > 0 ∧ errs.length > o.maxErrors then errs.take o.maxErrors else errs) := by
  unfold coerce
  cases errs with
  | nil => simp [fieldsOf]
  | cons a rest =>
    simp only [List.isEmpty_cons, Bool.false_eq_true, if_false]
    by_cases h : o.maxErrors > 0 ∧ (a :: rest).length > o.maxErrors
    · rw [if_pos h, if_pos h]; exact sortErrs_perm _
    · rw [if_neg h, if_neg h]; exact sortErrs_perm _

theorem coerce_trunc (errs : List FieldErr) (o : Opts) :
    truncOf (coerce errs o) = decide (o.maxErrors > 0 ∧ errs.length > o.maxErrors) := by
  unfold coerce
  cases errs with
  | nil => simp [truncOf]
  | cons a rest =>
    simp only [List.isEmpty_cons, Bool.false_eq_true, if_false]
    by_cases h : o.maxErrors > 0 ∧ (a :: rest).length > o.maxErrors
    · rw [if_pos h]; simp only [truncOf]; exact (decide_eq_true h).symm
    · rw [if_neg h]; simp only [truncOf]; exact (decide_eq_false h).symm

theorem coerce_sorted (errs : List FieldErr) (o : Opts) :
    (fieldsOf (coerce errs o)).Pairwise (fun a b => errLe a b = true) := by
  unfold coerce
  split
  · simp [fieldsOf]
  · split <;> (simp only [fieldsOf]; exact sortErrs_sorted _)

/-- the combined list never exceeds a positive maximum (after the repair of K05g) -/
theorem allLoop_capped (o : Opts) (hm : o.maxErrors > 0) (parts : List (Option Result))
    (acc : List FieldErr) (t : Bool) (hacc : acc.length < o.maxErrors) :
    (allLoop true o parts acc t).fields.length ≤ o.maxErrors := by
  induction parts generalizing acc t with
  | nil => simp only [allLoop]; omega
  | cons p rest ih =>
    cases p with
    | none => simp only [allLoop]; exact ih acc t hacc
    | some r =>
      simp only [allLoop]
      by_cases h : o.maxErrors > 0 ∧ (acc ++ r.fields).length ≥ o.maxErrors
      · rw [if_pos h]; simp only [if_true]; exact List.length_take_le _ _
      · rw [if_neg h]
        apply ih
        rcases Nat.lt_or_ge (acc ++ r.fields).length o.maxErrors with h1 | h1
        · exact h1
        · exact absurd ⟨hm, h1⟩ h

/-- nothing is reported that no strategy reported -/
theorem allLoop_sound (trim : Bool) (o : Opts) (parts : List (Option Result)) (acc : List FieldErr)
    (t : Bool) (e : FieldErr) (he : e ∈ (allLoop trim o parts acc t).fields) :
    e ∈ acc ∨ ∃ r, some r ∈ parts ∧ e ∈ r.fields := by
  induction parts generalizing acc t with
  | nil => simp only [allLoop] at he; exact Or.inl he
  | cons p rest ih =>
    cases p with
    | none =>
      simp only [allLoop] at he
      rcases ih acc t he with h | ⟨r, hr, h⟩
      · exact Or.inl h
      · exact Or.inr ⟨r, List.mem_cons_of_mem _ hr, h⟩
    | some r =>
      simp only [allLoop] at he
      by_cases h : o.maxErrors > 0 ∧ (acc ++ r.fields).length ≥ o.maxErrors
      · rw [if_pos h] at he
        have hmem : e ∈ acc ++ r.fields := by
          cases trim with
          | true => exact List.mem_of_mem_take he
          | false => exact he
        rcases List.mem_append.mp hmem with h1 | h1
        · exact Or.inl h1
        · exact Or.inr ⟨r, List.mem_cons_self .., h1⟩
      · rw [if_neg h] at he
        rcases ih _ _ he with h1 | ⟨r', hr', h1⟩
        · rcases List.mem_append.mp h1 with h2 | h2
          · exact Or.inl h2
          · exact Or.inr ⟨r, List.mem_cons_self .., h2⟩
        · exact Or.inr ⟨r', List.mem_cons_of_mem _ hr', h1⟩

/-- unless the result says `Truncated`, everything every strategy reported is there -/
theorem allLoop_complete (trim : Bool) (o : Opts) (parts : List (Option Result)) (acc : List FieldErr)
    (t : Bool) (ht : (allLoop trim o parts acc t).truncated = false) (e : FieldErr)
    (he : e ∈ acc ∨ ∃ r, some r ∈ parts ∧ e ∈ r.fields) : e ∈ (allLoop trim o parts acc t).fields := by
  induction parts generalizing acc t with
  | nil =>
    simp only [allLoop]
    rcases he with h | ⟨r, hr, _⟩
    · exact h
    · simp at hr
  | cons p rest ih =>
    cases p with
    | none =>
      simp only [allLoop] at ht ⊢
      apply ih acc t ht
      rcases he with h | ⟨r, hr, h⟩
      · exact Or.inl h
      · rcases List.mem_cons.mp hr with h0 | h0
        · simp at h0
        · exact Or.inr ⟨r, h0, h⟩
    | some r0 =>
      simp only [allLoop] at ht ⊢
      by_cases h : o.maxErrors > 0 ∧ (acc ++ r0.fields).length ≥ o.maxErrors
      · rw [if_pos h] at ht; simp at ht
      · rw [if_neg h] at ht ⊢
        apply ih _ _ ht
        rcases he with h1 | ⟨r, hr, h1⟩
        · exact Or.inl (List.mem_append_left _ h1)
        · rcases List.mem_cons.mp hr with h0 | h0
          · simp only [Option.some.injEq] at h0
            exact Or.inl (List.mem_append_right _ (h0 ▸ h1))
          · exact Or.inr ⟨r, h0, h1⟩

/-- `Truncated` of the combined result means the maximum was reached, provided that holds for the
    parts (it does: `full_truncated_only_when_full`, `coerce_trunc`) -/
theorem allLoop_trunc (o : Opts) (parts : List (Option Result)) (acc : List FieldErr)
    (hp : ∀ r, some r ∈ parts → r.truncated = true → o.maxErrors > 0 ∧ r.fields.length ≥ o.maxErrors)
    (ht : (allLoop true o parts acc false).truncated = true) :
    o.maxErrors > 0 ∧ (allLoop true o parts acc false).fields.length ≥ o.maxErrors := by
  induction parts generalizing acc with
  | nil => simp [allLoop] at ht
  | cons p rest ih =>
    cases p with
    | none =>
      simp only [allLoop] at ht ⊢
      exact ih acc (fun r hr => hp r (List.mem_cons_of_mem _ hr)) ht
    | some r =>
      simp only [allLoop] at ht ⊢
      by_cases h : o.maxErrors > 0 ∧ (acc ++ r.fields).length ≥ o.maxErrors
      · rw [if_pos h]
        simp only [if_true]
        refine ⟨h.1, ?_⟩
        rw [List.length_take]
        have := h.2
        omega
      · rw [if_neg h] at ht ⊢
        have hrt : r.truncated = false := by
          cases hb : r.truncated with
          | false => rfl
          | true =>
            have := hp r (List.mem_cons_self ..) hb
            exfalso; apply h
            refine ⟨this.1, ?_⟩
            rw [List.length_append]; omega
        rw [hrt] at ht ⊢
        simp only [Bool.false_or] at ht ⊢
        exact ih _ (fun r' hr' => hp r' (List.mem_cons_of_mem _ hr')) ht

theorem validateAll_eq_wrap (trim : Bool) (parts : List (Option Result)) (o : Opts) :
    validateAllWith trim parts o =
      wrap (allLoop trim o parts [] false).fields (allLoop trim o parts [] false).truncated := by
  unfold validateAllWith wrap; rfl

end Rivaas.Presence

namespace Rivaas.Presence

/-- a part that is itself full stops the loop: the combined result is `Truncated` -/
theorem allLoop_part_truncated (trim : Bool) (o : Opts) (parts : List (Option Result)) (acc : List FieldErr)
    (t : Bool) (r : Result) (hr : some r ∈ parts)
    (hfull : o.maxErrors > 0 ∧ r.fields.length ≥ o.maxErrors) :
    (allLoop trim o parts acc t).truncated = true := by
  induction parts generalizing acc t with
  | nil => simp at hr
  | cons p rest ih =>
    cases p with
    | none =>
      simp only [allLoop]
      rcases List.mem_cons.mp hr with h0 | h0
      · simp at h0
      · exact ih acc t h0
    | some r0 =>
      simp only [allLoop]
      by_cases h : o.maxErrors > 0 ∧ (acc ++ r0.fields).length ≥ o.maxErrors
      · rw [if_pos h]
      · rw [if_neg h]
        rcases List.mem_cons.mp hr with h0 | h0
        · simp only [Option.some.injEq] at h0
          exfalso; apply h
          refine ⟨hfull.1, ?_⟩
          rw [List.length_append, ← h0]; omega
        · exact ih _ _ h0

theorem coerce_isSome (errs : List FieldErr) (o : Opts) (h : errs ≠ []) : ∃ r, coerce errs o = some r := by
  unfold coerce
  cases errs with
  | nil => exact absurd rfl h
  | cons a rest =>
    simp only [List.isEmpty_cons, Bool.false_eq_true, if_false]
    by_cases hc : o.maxErrors > 0 ∧ (a :: rest).length > o.maxErrors
    · rw [if_pos hc]; exact ⟨_, rfl⟩
    · rw [if_neg hc]; exact ⟨_, rfl⟩

theorem fieldsOf_some {x : Option Result} {e : FieldErr} (h : e ∈ fieldsOf x) : ∃ r, x = some r := by
  cases x with
  | none => simp [fieldsOf] at h
  | some r => exact ⟨r, rfl⟩

end Rivaas.Presence
