import Rivaas.Lemmas.RadixText
import Rivaas.Lemmas.RadixPrio
/-
C01 assembled above the tree walk: `getRoute` (root, `staticPaths`, descent) on the tree the model builds
from a list of routes, against the reference choice.
-/
namespace Rivaas.RadixL
open Rivaas.Route Rivaas.Radix Rivaas.Match Rivaas.MatchL

/-! ### the method tree the model builds from a list of routes -/

def addRouteOf (t : Tree) (r : Route) : Tree := addRouteGen false t r.text r.rid r.cons

/-- the tree of method `m` after registering the routes of `R` in order -/
def treeFor (R : List Route) (m : Bytes) : Tree := (R.filter (·.method = m)).foldl addRouteOf Tree.empty

def staticsOf (R : List Route) (m : Bytes) : List (Bytes × Leaf) :=
  (R.filter fun r => r.method = m && !inTree r).foldl (fun l r => setStatic r.text (leafOf r) l) []

def NormalR (R : List Route) : Prop :=
  ∀ r ∈ R, NormalPat r.text r.pat ∧ ∀ c ∈ r.cons, c.1 ∈ declNames r.pat

theorem treeFor_gen (R : List Route) (hR : ∀ r ∈ R, NormalPat r.text r.pat) (m : Bytes) (t : Tree) :
    (R.filter (·.method = m)).foldl addRouteOf t =
      ⟨(entriesOf R m).foldl addEntry t.nodes,
       (R.filter fun r => r.method = m && !inTree r).foldl (fun l r => setStatic r.text (leafOf r) l) t.statics⟩ := by
  induction R generalizing t with
  | nil => simp [entriesOf]
  | cons r rest ih =>
    have hrest : ∀ x ∈ rest, NormalPat x.text x.pat := fun x hx => hR x (List.mem_cons_of_mem _ hx)
    by_cases hm : r.method = m
    · have hstep : ((r :: rest).filter (·.method = m)).foldl addRouteOf t =
          (rest.filter (·.method = m)).foldl addRouteOf (addRouteOf t r) := by
        simp [List.filter_cons, hm]
      rw [hstep, ih hrest]
      unfold addRouteOf
      rw [addRoute_normal t r (hR r (List.mem_cons_self ..))]
      by_cases hin : inTree r = true
      · simp [hin, entriesOf, List.filter_cons, hm]
      · have hin' : inTree r = false := by simpa using hin
        simp [hin', entriesOf, List.filter_cons, hm]
    · simp [entriesOf, List.filter_cons, hm, ih hrest]

theorem treeFor_char (R : List Route) (hR : ∀ r ∈ R, NormalPat r.text r.pat) (m : Bytes) :
    treeFor R m = ⟨nodesOf (entriesOf R m), staticsOf R m⟩ := by
  unfold treeFor nodesOf staticsOf
  rw [treeFor_gen R hR m Tree.empty]
  rfl

theorem getStatic_setStatic (p k : Bytes) (lf : Leaf) (l : List (Bytes × Leaf)) :
    getStatic p (setStatic k lf l) = if k = p then some lf else getStatic p l := by
  induction l with
  | nil => simp [setStatic, getStatic]
  | cons a rest ih =>
    obtain ⟨k', v'⟩ := a
    simp only [setStatic]
    by_cases hk : k' = k
    · subst hk
      simp only [if_true, getStatic]
      by_cases hp : k' = p <;> simp [hp]
    · simp only [hk, if_false, getStatic, ih]
      by_cases hp : k' = p
      · subst hp
        have : ¬ k = k' := fun e => hk e.symm
        simp [this]
      · simp [hp]

theorem getStatic_fold (p : Bytes) (L : List Route) (l0 : List (Bytes × Leaf)) :
    getStatic p (L.foldl (fun l r => setStatic r.text (leafOf r) l) l0) =
      (lastSome (fun r : Route => if r.text = p then some (leafOf r) else none) L <|> getStatic p l0) := by
  induction L generalizing l0 with
  | nil => simp [lastSome]
  | cons r rest ih =>
    simp only [List.foldl_cons, ih, getStatic_setStatic, lastSome]
    cases lastSome (fun r : Route => if r.text = p then some (leafOf r) else none) rest <;>
      by_cases hp : r.text = p <;> simp [hp]


/-! ### small facts about lists and the order -/

/-- the last element satisfying `P` -/
theorem last_sat {α} (P : α → Bool) (l : List α) (h : l.filter P ≠ []) :
    ∃ l1 a l2, l = l1 ++ a :: l2 ∧ P a = true ∧ ∀ x ∈ l2, P x = false := by
  induction l with
  | nil => simp at h
  | cons b rest ih =>
    by_cases hr : rest.filter P = []
    · have hb : P b = true := by
        cases hpb : P b with
        | true => rfl
        | false => simp [List.filter_cons, hpb, hr] at h
      refine ⟨[], b, rest, rfl, hb, ?_⟩
      intro x hx
      cases hpx : P x with
      | false => rfl
      | true =>
        have : x ∈ rest.filter P := List.mem_filter.mpr ⟨hx, hpx⟩
        rw [hr] at this; simp at this
    · obtain ⟨l1, a, l2, hl, ha, h2⟩ := ih hr
      exact ⟨b :: l1, a, l2, by simp [hl], ha, h2⟩

theorem lastSome_none {α β} (f : α → Option β) (l : List α) (h : ∀ a ∈ l, f a = none) : lastSome f l = none := by
  induction l with
  | nil => rfl
  | cons b rest ih =>
    simp only [lastSome, h b (List.mem_cons_self ..), ih (fun x hx => h x (List.mem_cons_of_mem _ hx))]
    rfl

theorem better_static_left (a b : Pat) (hb : isStaticPat b = true) : better a b = false := by
  induction a generalizing b with
  | nil => simp [better]
  | cons x xs ih =>
    cases b with
    | nil => simp [better]
    | cons y ys =>
      simp only [isStaticPat, List.all_cons, Bool.and_eq_true, decide_eq_true_eq] at hb
      simp only [better]
      by_cases hk : kind x = kind y
      · simp only [hk, if_true]
        exact ih ys (by simpa [isStaticPat] using hb.2)
      · simp only [hk, if_false, decide_eq_false_iff_not]
        have : kind x ≤ 3 := by cases x <;> simp [kind]
        omega

/-- a parameter-free pattern beats every other pattern that matches the same path -/
theorem better_static_dyn (trail : Bool) (segs : List Bytes) (a b : Pat)
    (ha : isStaticPat a = true) (hb : isStaticPat b = false)
    (hma : (matchPat trail a segs).isSome = true) (hmb : (matchPat trail b segs).isSome = true) :
    better a b = true := by
  induction segs generalizing a b with
  | nil =>
    cases b with
    | nil => simp [isStaticPat] at hb
    | cons s t => cases s <;> cases t <;> simp [matchPat] at hmb
  | cons x xs ih =>
    rcases matchPat_cons_inv trail a x xs hma with rfl | ⟨ta, rfl, hta⟩ | ⟨na, ta, rfl, hta⟩
    · simp [isStaticPat, kind] at ha
    · rcases matchPat_cons_inv trail b x xs hmb with rfl | ⟨tb, rfl, htb⟩ | ⟨nb, tb, rfl, htb⟩
      · simp [better, kind]
      · simp only [better, kind, if_true]
        apply ih ta tb _ _ hta htb
        · simpa [isStaticPat, kind] using ha
        · simpa [isStaticPat, kind] using hb
      · simp [better, kind]
    · simp [isStaticPat, kind] at ha

/-! ### request paths -/

theorem split_single (rest : Bytes) (h : splitOnSlash rest = [[]]) : rest = [] := by
  have := join_split rest
  rw [h] at this
  simpa [Match.joinSlash] using this.symm

theorem parsePath_eq (path : Bytes) (h1 : path ≠ ['/']) (h2 : path ≠ []) :
    parsePath path = ((cutAny path).segs, (cutAny path).trail) := by
  unfold parsePath cutAny
  have : ¬ (path = ['/'] ∨ path = []) := by intro h; rcases h with h | h <;> contradiction
  simp only [this, if_false, splitSlash_eq]
  split <;> split <;> simp_all

theorem cutAny_segs_ne (path : Bytes) (hs : path.head? = some '/') (h1 : path ≠ ['/']) : (cutAny path).segs ≠ [] := by
  cases path with
  | nil => simp at hs
  | cons c rest =>
    simp only [List.head?_cons, Option.some.injEq] at hs
    subst hs
    have hr : rest ≠ [] := by intro e; subst e; exact h1 rfl
    unfold cutAny
    have : ¬ ('/' :: rest = ['/'] ∨ '/' :: rest = []) := by simp [hr]
    simp only [this, if_false]
    by_cases hl : (splitOnSlash rest).getLast? = some []
    · simp only [hl, if_true]
      intro he
      have hne := split_ne_nil rest
      have : splitOnSlash rest = [[]] := by
        have h3 := List.dropLast_concat_getLast hne
        rw [List.getLast?_eq_some_getLast hne] at hl
        injection hl with hl
        rw [he, hl] at h3
        simpa using h3.symm
      exact hr (split_single rest this)
    · simp only [hl, if_false]
      exact split_ne_nil rest

theorem cutAny_slashed (rest : Bytes) (hr : rest ≠ []) :
    cutAny ('/' :: rest) = if (splitOnSlash rest).getLast? = some [] then ⟨(splitOnSlash rest).dropLast, true⟩
                           else ⟨splitOnSlash rest, false⟩ := by
  unfold cutAny
  have : ¬ ('/' :: rest = ['/'] ∨ '/' :: rest = []) := by simp [hr]
  simp only [this, if_false]

theorem matchPat_static (trail : Bool) (pat : Pat) (hs : isStaticPat pat = true) (segs : List Bytes) :
    (matchPat trail pat segs).isSome = true ↔ trail = false ∧ segs.map PSeg.lit = pat := by
  induction pat generalizing segs with
  | nil =>
    cases segs with
    | nil => cases trail <;> simp [matchPat]
    | cons x xs => simp [matchPat]
  | cons a rest ih =>
    cases a with
    | wild => simp [isStaticPat, kind] at hs
    | par n => simp [isStaticPat, kind] at hs
    | lit s =>
      have hrest : isStaticPat rest = true := by simpa [isStaticPat, kind] using hs
      cases segs with
      | nil => simp [matchPat]
      | cons x xs =>
        have : (matchPat trail (PSeg.lit s :: rest) (x :: xs)).isSome = (decide (s = x) && (matchPat trail rest xs).isSome) := by
          cases rest <;> simp only [matchPat] <;> by_cases e : s = x <;> simp [e]
        rw [this]
        simp only [Bool.and_eq_true, decide_eq_true_eq, ih hrest xs, List.map_cons, List.cons.injEq, PSeg.lit.injEq]
        constructor
        · rintro ⟨h1, h2, h3⟩; exact ⟨h2, h1.symm, h3⟩
        · rintro ⟨h1, h2, h3⟩; exact ⟨h2.symm, h1, h3⟩

/-- a parameter-free pattern of the vocabulary matches a path exactly when its text is the path -/
theorem static_text_iff (r : Route) (hn : NormalPat r.text r.pat) (hs : isStaticPat r.pat = true) (hne : r.pat ≠ [])
    (path : Bytes) (hp : path.head? = some '/') :
    r.text = path ↔ (matchPat (cutAny path).trail r.pat (cutAny path).segs).isSome = true := by
  rw [matchPat_static _ _ hs]
  have htexts : ∀ s ∈ r.pat, ∃ x, s = PSeg.lit x := by
    intro s hsm
    simp only [isStaticPat, List.all_eq_true, decide_eq_true_eq] at hs
    have := hs s hsm
    cases s with
    | lit x => exact ⟨x, rfl⟩
    | par n => simp [kind] at this
    | wild => simp [kind] at this
  -- the literals of the pattern
  have hlits : ∃ lits : List Bytes, r.pat = lits.map PSeg.lit ∧ lits ≠ [] ∧ (∀ t ∈ lits, t ≠ [] ∧ '/' ∉ t) := by
    refine ⟨r.pat.map renderSeg, ?_, by simpa using hne, texts_ok r.pat hn.segs⟩
    rw [List.map_map]
    conv => lhs; rw [← List.map_id r.pat]
    apply List.map_congr_left
    intro s hsm
    obtain ⟨x, rfl⟩ := htexts s hsm
    rfl
  obtain ⟨lits, hpat, hlne, hlok⟩ := hlits
  have htext : r.text = '/' :: Match.joinSlash lits := by
    rw [hn.text, hpat]; unfold render
    rw [List.map_map]
    congr 2
    conv => rhs; rw [← List.map_id lits]
    apply List.map_congr_left
    intro t _; rfl
  cases path with
  | nil => simp at hp
  | cons c rest =>
    simp only [List.head?_cons, Option.some.injEq] at hp
    subst hp
    rw [htext, hpat]
    have hinj : ∀ (a b : List Bytes), a.map PSeg.lit = b.map PSeg.lit ↔ a = b := by
      intro a b
      constructor
      · intro h
        have := congrArg (List.map renderSeg) h
        simpa [List.map_map, Function.comp_def, renderSeg] using this
      · intro h; rw [h]
    rw [hinj]
    by_cases hroot : rest = []
    · subst hroot
      have hj : Match.joinSlash lits ≠ [] := by
        cases lits with
        | nil => exact absurd rfl hlne
        | cons a as =>
          have ha := (hlok a (by simp)).1
          cases a with
          | nil => exact absurd rfl ha
          | cons c cs => cases as <;> simp [Match.joinSlash]
      have : cutAny ['/'] = ⟨[], false⟩ := by simp [cutAny]
      rw [this]
      simp only [List.cons.injEq, true_and, true_and]
      constructor
      · intro h; exact absurd h hj
      · intro h; exact absurd h.symm hlne
    · rw [cutAny_slashed rest hroot]
      simp only [List.cons.injEq, true_and]
      constructor
      · intro h
        have hsp : splitOnSlash rest = lits := by
          rw [← h]; exact split_join lits hlne (fun t ht => (hlok t ht).2)
        have hlast : ¬ (splitOnSlash rest).getLast? = some [] := by
          rw [hsp]
          intro hl
          exact (hlok [] (List.mem_of_getLast? hl)).1 rfl
        rw [if_neg hlast]
        exact ⟨rfl, hsp⟩
      · intro h
        by_cases hl : (splitOnSlash rest).getLast? = some []
        · rw [if_pos hl] at h
          exact absurd h.1 (by simp)
        · rw [if_neg hl] at h
          rw [← h.2, join_split]


/-! ### `getRoute` against the reference choice -/

theorem ekeys_nil_of_ok (bp : Pat) (h : bp.all litOK = true) (hk : ekeys bp = []) : bp = [] := by
  cases bp with
  | nil => rfl
  | cons a rest =>
    simp only [List.all_cons, Bool.and_eq_true] at h
    cases a <;> simp [ekeys, ekey, litOK] at hk h

theorem declNames_static (pat : Pat) (h : isStaticPat pat = true) : declNames pat = [] := by
  induction pat with
  | nil => rfl
  | cons a rest ih =>
    cases a with
    | wild => simp [isStaticPat, kind] at h
    | par n => simp [isStaticPat, kind] at h
    | lit s =>
      rw [declNames_cons _ _ (by simp)]
      simp only [List.nil_append]
      exact ih (by simpa [isStaticPat, kind] using h)

theorem normal_static_cons (r : Route) (hc : ∀ c ∈ r.cons, c.1 ∈ declNames r.pat) (hs : isStaticPat r.pat = true) :
    r.cons = [] := by
  rw [declNames_static _ hs] at hc
  cases hcons : r.cons with
  | nil => rfl
  | cons c cs => exact absurd (hc c (by rw [hcons]; simp)) (by simp)

theorem routeMatch_static (sat : Nat → Bytes → Bool) (r : Route) (hc : ∀ c ∈ r.cons, c.1 ∈ declNames r.pat)
    (hs : isStaticPat r.pat = true) (p : RPath) (hm : (matchPat p.trail r.pat p.segs).isSome = true) :
    routeMatch sat r p = some [] := by
  cases hb : matchPat p.trail r.pat p.segs with
  | none => rw [hb] at hm; simp at hm
  | some b =>
    have hk := matchPat_keys _ _ _ _ hb
    rw [declNames_static _ hs] at hk
    have hbn : b = [] := by simpa using hk
    subst hbn
    simp [routeMatch, hb, normal_static_cons r hc hs, consOK]

theorem routeMatch_isSome_match (sat : Nat → Bytes → Bool) (r : Route) (p : RPath)
    (h : (routeMatch sat r p).isSome = true) : (matchPat p.trail r.pat p.segs).isSome = true := by
  unfold routeMatch at h
  cases hm : matchPat p.trail r.pat p.segs with
  | none => simp [hm] at h
  | some b => rfl

theorem notInTree (r : Route) (h : inTree r = false) : isStaticPat r.pat = true ∧ r.pat ≠ [] := by
  simp only [inTree, Bool.or_eq_false_iff, Bool.not_eq_false', List.isEmpty_eq_false_iff] at h
  exact h

theorem okOf_match (w : Option (Leaf × Ctx)) (ctx : Ctx) :
    okOf (match w with
      | some (lf, c) => (some lf, c)
      | none => (none, ctx)) = w := by
  cases w with
  | none => rfl
  | some v => obtain ⟨lf, c⟩ := v; rfl

theorem getRoute_ref (sat : Nat → Bytes → Bool) (R : List Route) (hR : NormalR R) (m : Bytes) (path : Bytes)
    (hp : path.head? = some '/')
    (hOw : dReplaced1 sat R m (cutAny path) = false) :
    okOf (getRouteGen false false false sat (treeFor R m) path Ctx.fresh) =
      (refRoute sat R m (cutAny path)).map fun r =>
        (leafOf r, pushAll Ctx.fresh ((routeMatch sat r (cutAny path)).getD [])) := by
  have hNP : ∀ r ∈ R, NormalPat r.text r.pat := fun r hr => (hR r hr).1
  have hOK : ∀ r ∈ R, patOK r.pat := fun r hr => normal_patOK _ _ (hNP r hr)
  have hD : ∀ r ∈ R, distinct (declNames r.pat) = true := fun r hr => (hNP r hr).dist
  have hpne : path ≠ [] := by intro e; rw [e] at hp; simp at hp
  rw [treeFor_char R hNP m]
  by_cases hroot : path = ['/']
  · -- the root path
    subst hroot
    have hcut : cutAny ['/'] = ⟨[], false⟩ := by simp [cutAny]
    rw [hcut]
    have hget : getRouteGen false false false sat ⟨nodesOf (entriesOf R m), staticsOf R m⟩ ['/'] Ctx.fresh =
        ((getK (nodesOf (entriesOf R m)) []).leaf, Ctx.fresh) := by simp [getRouteGen]
    rw [hget]
    have hcands : cands sat R m ⟨[], false⟩ = R.filter fun r => r.method = m && r.pat.isEmpty := by
      unfold cands
      apply List.filter_congr
      intro r hr
      by_cases hm : r.method = m
      · by_cases hpe : r.pat = []
        · have hst : isStaticPat r.pat = true := by rw [hpe]; rfl
          have := routeMatch_static sat r (hR r hr).2 hst ⟨[], false⟩ (by rw [hpe]; rfl)
          simp [hm, hpe, this]
        · have : (routeMatch sat r ⟨[], false⟩).isSome = false := by
            cases hrm : (routeMatch sat r ⟨[], false⟩).isSome with
            | false => rfl
            | true =>
              have := (matchPat_nil_segs false r.pat (routeMatch_isSome_match sat r _ hrm)).1
              exact absurd this hpe
          simp [hm, hpe, this]
      · simp [hm]
    by_cases hnone : (R.filter fun r => r.method = m && r.pat.isEmpty) = []
    · have href : refRoute sat R m ⟨[], false⟩ = none := by unfold refRoute; rw [hcands, hnone]; rfl
      rw [href]
      have hleaf : (getK (nodesOf (entriesOf R m)) []).leaf = none := by
        rw [nodesOf_leaf _ (entriesOf_ok R hOK m)]
        apply lastSome_none
        intro e he
        obtain ⟨r, hr, hrm, _, rfl⟩ := mem_entriesOf he
        rw [strip_nil_key, toEntry_pat]
        have : r.pat ≠ [] := by
          intro hpe
          have : r ∈ R.filter fun r => r.method = m && r.pat.isEmpty := by
            simp [List.mem_filter, hr, hrm, hpe]
          rw [hnone] at this; simp at this
        simp [this]
      simp [okOf, hleaf]
    · obtain ⟨R1, ρ, R2, hsplit, hρ, hR2⟩ := last_sat _ R hnone
      simp only [Bool.and_eq_true, decide_eq_true_eq, List.isEmpty_iff] at hρ
      obtain ⟨hρm, hρp⟩ := hρ
      have hρt : inTree ρ = true := by simp [inTree, hρp]
      have hleaf := leaf_at R1 R2 ρ (by rw [← hsplit]; exact hOK) m hρm hρt (by
        intro r hr hrm hrt hk hw
        have hrR : r ∈ R := by rw [hsplit]; simp [hr]
        have hbody : bodyOf r.pat = [] := by
          apply ekeys_nil_of_ok _ (hOK r hrR)
          rw [hk, hρp]; rfl
        have hwf : endsWild r.pat = false := by rw [hw, hρp]; rfl
        have hpe : r.pat = [] := by
          have := pat_split r.pat
          rw [hbody, hwf] at this
          simpa using this
        have := hR2 r hr
        simp [hrm, hpe] at this)
      rw [← hsplit, hρp] at hleaf
      have hleaf' : (getK (nodesOf (entriesOf R m)) []).leaf = some (leafOf ρ) := by
        simpa [bodyOf, endsWild, ekeys] using hleaf
      have href : refRoute sat R m ⟨[], false⟩ = some ρ := by
        unfold refRoute
        rw [hcands, hsplit, List.filter_append, List.filter_cons]
        simp only [hρm, hρp, decide_true, List.isEmpty_nil, Bool.and_self, if_true]
        have h2 : R2.filter (fun r => decide (r.method = m) && r.pat.isEmpty) = [] := by
          apply List.filter_eq_nil_iff.mpr
          intro a ha
          have := hR2 a ha
          simpa using this
        rw [h2]
        apply pick_suff
        · intro c hc; cases hc
        · intro c hc
          have := (List.mem_filter.mp hc).2
          simp only [Bool.and_eq_true, List.isEmpty_iff] at this
          rw [this.2, hρp]; rfl
        · intro c hc; cases hc
      have hrm : routeMatch sat ρ ⟨[], false⟩ = some [] :=
        routeMatch_static sat ρ (hR ρ (by rw [hsplit]; simp)).2 (by rw [hρp]; rfl) ⟨[], false⟩ (by rw [hρp]; rfl)
      simp [okOf, hleaf', href, hrm, pushAll]
  · -- any other path
    have hnr : ¬ (path = ['/'] ∨ path = []) := by intro h; rcases h with h | h <;> contradiction
    have hsegs := cutAny_segs_ne path hp hroot
    have hparse := parsePath_eq path hroot hpne
    -- static routes whose text is the path
    by_cases hnone : (R.filter fun r => r.method = m && !inTree r && decide (r.text = path)) = []
    · have hstat : getStatic path (staticsOf R m) = none := by
        unfold staticsOf
        rw [getStatic_fold]
        have : lastSome (fun r : Route => if r.text = path then some (leafOf r) else none)
            (R.filter fun r => r.method = m && !inTree r) = none := by
          apply lastSome_none
          intro r hr
          have hr' := List.mem_filter.mp hr
          by_cases ht : r.text = path
          · have : r ∈ R.filter fun r => r.method = m && !inTree r && decide (r.text = path) := by
              simp only [List.mem_filter, Bool.and_eq_true]
              exact ⟨hr'.1, by simpa using hr'.2, by simp [ht]⟩
            rw [hnone] at this; simp at this
          · simp [ht]
        rw [this]; rfl
      have hsh : staticHit R m (cutAny path) = false := by
        cases hh : staticHit R m (cutAny path) with
        | false => rfl
        | true =>
          exfalso
          simp only [staticHit, List.any_eq_true, decide_eq_true_eq] at hh
          obtain ⟨r, hr, hrm, hrs, hmatch⟩ := hh
          have hrne : r.pat ≠ [] := by
            intro e; rw [e] at hmatch
            cases hcs : (cutAny path).segs with
            | nil => exact hsegs hcs
            | cons x xs => rw [hcs] at hmatch; simp [matchPat] at hmatch
          have htx := (static_text_iff r (hNP r hr) hrs hrne path hp).mpr hmatch
          have : r ∈ R.filter fun r => r.method = m && !inTree r && decide (r.text = path) := by
            simp only [List.mem_filter, Bool.and_eq_true, decide_eq_true_eq, Bool.not_eq_true']
            refine ⟨hr, ⟨hrm, ?_⟩, htx⟩
            simp [inTree, hrs, hrne]
          rw [hnone] at this; simp at this
      have hget : okOf (getRouteGen false false false sat ⟨nodesOf (entriesOf R m), staticsOf R m⟩ path Ctx.fresh) =
          walkGen false false false sat (nodesOf (entriesOf R m)) (cutAny path).trail [] (Ctx.fresh, []) (cutAny path).segs := by
        simp only [getRouteGen, hnr, if_false, hstat, hparse]
        exact okOf_match _ _
      rw [hget]
      exact walk_ref sat R hOK hD m (cutAny path) hsegs hsh hOw
    · obtain ⟨R1, s, R2, hsplit, hs, hR2⟩ := last_sat _ R hnone
      simp only [Bool.and_eq_true, decide_eq_true_eq, Bool.not_eq_true'] at hs
      obtain ⟨⟨hsm, hst⟩, htx⟩ := hs
      obtain ⟨hss, hsne⟩ := notInTree s hst
      have hsR : s ∈ R := by rw [hsplit]; simp
      have hstat : getStatic path (staticsOf R m) = some (leafOf s) := by
        unfold staticsOf
        rw [getStatic_fold, hsplit, List.filter_append, List.filter_cons]
        simp only [hsm, hst, decide_true, Bool.not_false, Bool.and_self, if_true]
        rw [lastSome_suff _ _ _ s (leafOf s) (by simp [htx])]
        · rfl
        · intro c hc
          have hc' := List.mem_filter.mp hc
          have := hR2 c hc'.1
          by_cases ht : c.text = path
          · simp only [Bool.and_eq_true, decide_eq_true_eq, Bool.not_eq_true'] at hc'
            simp [hc'.2.1, hc'.2.2, ht] at this
          · simp [ht]
      have hget : getRouteGen false false false sat ⟨nodesOf (entriesOf R m), staticsOf R m⟩ path Ctx.fresh =
          (some (leafOf s), Ctx.fresh) := by
        simp only [getRouteGen, hnr, if_false, hstat]
      rw [hget]
      have hsmatch := (static_text_iff s (hNP s hsR) hss hsne path hp).mp htx
      have hsrm := routeMatch_static sat s (hR s hsR).2 hss (cutAny path) hsmatch
      have href : refRoute sat R m (cutAny path) = some s := by
        unfold refRoute cands
        rw [hsplit, List.filter_append, List.filter_cons]
        simp only [hsm, hsrm, Option.isSome_some, decide_true, and_self, if_true]
        apply pick_suff
        · intro c hc; cases hc
        · intro c _; exact better_static_left _ _ hss
        · intro c hc
          have hc' := List.mem_filter.mp hc
          simp only [decide_eq_true_eq] at hc'
          obtain ⟨hcR2, hcm, hcrm⟩ := hc'
          have hcR : c ∈ R := by rw [hsplit]; simp [hcR2]
          have hcmatch := routeMatch_isSome_match sat c _ hcrm
          have hcns : isStaticPat c.pat = false := by
            cases hcs : isStaticPat c.pat with
            | false => rfl
            | true =>
              exfalso
              have hcne : c.pat ≠ [] := by
                intro e; rw [e] at hcmatch
                cases hcs2 : (cutAny path).segs with
                | nil => exact hsegs hcs2
                | cons x xs => rw [hcs2] at hcmatch; simp [matchPat] at hcmatch
              have hctx := (static_text_iff c (hNP c hcR) hcs hcne path hp).mpr hcmatch
              have := hR2 c hcR2
              simp [hcm, inTree, hcs, hcne, hctx] at this
          exact better_static_dyn _ _ _ _ hss hcns hsmatch hcmatch
      simp [okOf, href, hsrm, pushAll]


/-- **Soundness of `getRoute`, without any guard** (pattern, constraints, bindings): the leaf returned
belongs to a registered route of the tree that matches the path, constraints included, and the context
holds exactly that route's own bindings. -/
theorem getRoute_sound (sat : Nat → Bytes → Bool) (R : List Route) (hR : NormalR R) (m : Bytes) (path : Bytes)
    (hp : path.head? = some '/') (lf : Leaf) (ctx : Ctx)
    (h : okOf (getRouteGen false false false sat (treeFor R m) path Ctx.fresh) = some (lf, ctx)) :
    ∃ r ∈ R, r.method = m ∧ lf = leafOf r ∧
      ∃ b, routeMatch sat r (cutAny path) = some b ∧ ctx = pushAll Ctx.fresh b := by
  have hNP : ∀ r ∈ R, NormalPat r.text r.pat := fun r hr => (hR r hr).1
  have hOK : ∀ r ∈ R, patOK r.pat := fun r hr => normal_patOK _ _ (hNP r hr)
  have hD : ∀ r ∈ R, distinct (declNames r.pat) = true := fun r hr => (hNP r hr).dist
  have hpne : path ≠ [] := by intro e; rw [e] at hp; simp at hp
  rw [treeFor_char R hNP m] at h
  by_cases hroot : path = ['/']
  · subst hroot
    have hcut : cutAny ['/'] = ⟨[], false⟩ := by simp [cutAny]
    rw [hcut]
    have hget : getRouteGen false false false sat ⟨nodesOf (entriesOf R m), staticsOf R m⟩ ['/'] Ctx.fresh =
        ((getK (nodesOf (entriesOf R m)) []).leaf, Ctx.fresh) := by simp [getRouteGen]
    rw [hget, nodesOf_leaf _ (entriesOf_ok R hOK m)] at h
    cases hl : lastSome (fun e : Entry => if strip e.pat [] = some [] then some e.lf else none) (entriesOf R m) with
    | none => simp [okOf, hl] at h
    | some lf' =>
      obtain ⟨e, he, hfe⟩ := lastSome_some _ _ _ hl
      obtain ⟨r, hr, hrm, _, rfl⟩ := mem_entriesOf he
      rw [strip_nil_key, toEntry_pat] at hfe
      by_cases hpe : r.pat = []
      · simp only [hpe, if_true, Option.some.injEq] at hfe
        simp only [okOf, hl, Option.map_some, Option.some.injEq, Prod.mk.injEq] at h
        have hrmatch := routeMatch_static sat r (hR r hr).2 (by rw [hpe]; rfl) ⟨[], false⟩ (by rw [hpe]; rfl)
        refine ⟨r, hr, hrm, ?_, [], hrmatch, by rw [← h.2]; rfl⟩
        rw [← h.1, ← hfe]; rfl
      · simp [hpe] at hfe
  · have hnr : ¬ (path = ['/'] ∨ path = []) := by intro h; rcases h with h | h <;> contradiction
    have hsegs := cutAny_segs_ne path hp hroot
    have hparse := parsePath_eq path hroot hpne
    cases hs : getStatic path (staticsOf R m) with
    | some lf' =>
      have hget : getRouteGen false false false sat ⟨nodesOf (entriesOf R m), staticsOf R m⟩ path Ctx.fresh =
          (some lf', Ctx.fresh) := by simp only [getRouteGen, hnr, if_false, hs]
      rw [hget] at h
      simp only [okOf, Option.map_some, Option.some.injEq, Prod.mk.injEq] at h
      unfold staticsOf at hs
      rw [getStatic_fold] at hs
      have hs' : lastSome (fun r : Route => if r.text = path then some (leafOf r) else none)
          (R.filter fun r => r.method = m && !inTree r) = some lf' := by
        cases hl : lastSome (fun r : Route => if r.text = path then some (leafOf r) else none)
            (R.filter fun r => r.method = m && !inTree r) with
        | none => rw [hl] at hs; simp [getStatic] at hs
        | some v => rw [hl] at hs; simpa using hs
      obtain ⟨r, hr, hfr⟩ := lastSome_some _ _ _ hs'
      have hr' := List.mem_filter.mp hr
      simp only [Bool.and_eq_true, decide_eq_true_eq, Bool.not_eq_true'] at hr'
      by_cases ht : r.text = path
      · simp only [ht, if_true, Option.some.injEq] at hfr
        obtain ⟨hss, hsne⟩ := notInTree r hr'.2.2
        have hmatch := (static_text_iff r (hNP r hr'.1) hss hsne path hp).mp ht
        have hrmatch := routeMatch_static sat r (hR r hr'.1).2 hss (cutAny path) hmatch
        exact ⟨r, hr'.1, hr'.2.1, by rw [← h.1, ← hfr], [], hrmatch, by rw [← h.2]; rfl⟩
      · simp [ht] at hfr
    | none =>
      have hget : okOf (getRouteGen false false false sat ⟨nodesOf (entriesOf R m), staticsOf R m⟩ path Ctx.fresh) =
          walkGen false false false sat (nodesOf (entriesOf R m)) (cutAny path).trail [] (Ctx.fresh, []) (cutAny path).segs := by
        simp only [getRouteGen, hnr, if_false, hs, hparse]
        exact okOf_match _ _
      rw [hget] at h
      obtain ⟨r, hr, hrm, _, b, hb, hres⟩ := walk_sound sat R hOK hD m _ _ h
      simp only [Prod.mk.injEq] at hres
      exact ⟨r, hr, hrm, hres.1, b, hb, hres.2⟩


theorem lastSome_eq_none {α β} (f : α → Option β) (l : List α) (h : lastSome f l = none) : ∀ a ∈ l, f a = none := by
  induction l with
  | nil => simp
  | cons b rest ih =>
    simp only [lastSome] at h
    cases hr : lastSome f rest with
    | some v => rw [hr] at h; simp at h
    | none =>
      rw [hr] at h
      intro a ha
      simp only [List.mem_cons] at ha
      rcases ha with rfl | ha
      · simpa using h
      · exact ih hr a ha

/-- **Priority of `getRoute`, without any guard**: no registered route of the method that matches the path with
its constraints satisfied, and that was not replaced by a later route of its shape, beats the route `getRoute`
returns. -/
theorem getRoute_max (sat : Nat → Bytes → Bool) (R : List Route) (hR : NormalR R) (m : Bytes) (path : Bytes)
    (hp : path.head? = some '/') (lf : Leaf) (ctx : Ctx)
    (h : okOf (getRouteGen false false false sat (treeFor R m) path Ctx.fresh) = some (lf, ctx)) :
    ∃ r ∈ R, r.method = m ∧ lf = leafOf r ∧
      ∀ r' ∈ R, r'.method = m → (routeMatch sat r' (cutAny path)).isSome = true →
        ((laterThan r' R).any fun r1 => r1.method = m && shapeEq r1.pat r'.pat) = false →
        better r'.pat r.pat = false := by
  have hNP : ∀ r ∈ R, NormalPat r.text r.pat := fun r hr => (hR r hr).1
  have hOK : ∀ r ∈ R, patOK r.pat := fun r hr => normal_patOK _ _ (hNP r hr)
  have hpne : path ≠ [] := by intro e; rw [e] at hp; simp at hp
  by_cases hroot : path = ['/']
  · -- the root: every matching pattern is the root pattern
    obtain ⟨r, hr, hrm, hlf, b, hb, _⟩ := getRoute_sound sat R hR m path hp lf ctx h
    have hmatch := routeMatch_isSome_match sat r _ (by rw [hb]; rfl)
    refine ⟨r, hr, hrm, hlf, ?_⟩
    subst hroot
    have hcut : cutAny ['/'] = ⟨[], false⟩ := by simp [cutAny]
    rw [hcut] at hmatch ⊢
    intro r' _ _ hm'0 _
    have hm' := routeMatch_isSome_match sat r' _ hm'0
    obtain ⟨h1, _⟩ := matchPat_nil_segs _ _ hm'
    obtain ⟨h2, _⟩ := matchPat_nil_segs _ _ hmatch
    rw [h1, h2]; rfl
  · have hnr : ¬ (path = ['/'] ∨ path = []) := by intro h; rcases h with h | h <;> contradiction
    have hsegs := cutAny_segs_ne path hp hroot
    have hparse := parsePath_eq path hroot hpne
    rw [treeFor_char R hNP m] at h
    cases hs : getStatic path (staticsOf R m) with
    | some lf' =>
      -- a parameter-free route: nothing beats it
      have hget : getRouteGen false false false sat ⟨nodesOf (entriesOf R m), staticsOf R m⟩ path Ctx.fresh =
          (some lf', Ctx.fresh) := by simp only [getRouteGen, hnr, if_false, hs]
      rw [hget] at h
      simp only [okOf, Option.map_some, Option.some.injEq, Prod.mk.injEq] at h
      unfold staticsOf at hs
      rw [getStatic_fold] at hs
      have hs' : lastSome (fun r : Route => if r.text = path then some (leafOf r) else none)
          (R.filter fun r => r.method = m && !inTree r) = some lf' := by
        cases hl : lastSome (fun r : Route => if r.text = path then some (leafOf r) else none)
            (R.filter fun r => r.method = m && !inTree r) with
        | none => rw [hl] at hs; simp [getStatic] at hs
        | some v => rw [hl] at hs; simpa using hs
      obtain ⟨r, hr, hfr⟩ := lastSome_some _ _ _ hs'
      have hr' := List.mem_filter.mp hr
      simp only [Bool.and_eq_true, decide_eq_true_eq, Bool.not_eq_true'] at hr'
      by_cases ht : r.text = path
      · simp only [ht, if_true, Option.some.injEq] at hfr
        obtain ⟨hss, _⟩ := notInTree r hr'.2.2
        refine ⟨r, hr'.1, hr'.2.1, by rw [← h.1, ← hfr], ?_⟩
        intro r' _ _ _ _
        exact better_static_left _ _ hss
      · simp [ht] at hfr
    | none =>
      have hget : okOf (getRouteGen false false false sat ⟨nodesOf (entriesOf R m), staticsOf R m⟩ path Ctx.fresh) =
          walkGen false false false sat (nodesOf (entriesOf R m)) (cutAny path).trail [] (Ctx.fresh, []) (cutAny path).segs := by
        simp only [getRouteGen, hnr, if_false, hs, hparse]
        exact okOf_match _ _
      rw [hget] at h
      have hD : ∀ r ∈ R, distinct (declNames r.pat) = true := fun r hr => (hNP r hr).dist
      obtain ⟨r, hr, hrm, _, ⟨b, _, hres⟩, hmax⟩ := walk_sound_prio sat R hOK hD m _ _ h
      simp only [Prod.mk.injEq] at hres
      refine ⟨r, hr, hrm, hres.1, ?_⟩
      intro r' hr' hrm' hm'0 hlast'
      have hm' := routeMatch_isSome_match sat r' _ hm'0
      by_cases hrt' : inTree r' = true
      · exact hmax r' hr' hrm' hrt' hm'0 hlast'
      · -- a parameter-free route that matches would have been found in `staticPaths`
        exfalso
        have hrt'' : inTree r' = false := by simpa using hrt'
        obtain ⟨hss, hsne⟩ := notInTree r' hrt''
        have htx := (static_text_iff r' (hNP r' hr') hss hsne path hp).mpr hm'
        unfold staticsOf at hs
        rw [getStatic_fold] at hs
        have hnone : lastSome (fun r : Route => if r.text = path then some (leafOf r) else none)
            (R.filter fun r => r.method = m && !inTree r) = none := by
          cases hl : lastSome (fun r : Route => if r.text = path then some (leafOf r) else none)
              (R.filter fun r => r.method = m && !inTree r) with
          | none => rfl
          | some v => rw [hl] at hs; simp at hs
        have := lastSome_eq_none _ _ hnone r' (List.mem_filter.mpr ⟨hr', by simp [hrm', hrt'']⟩)
        simp [htx] at this

end Rivaas.RadixL
