import Rivaas.Model.Bind
import Rivaas.Spec.Bind
import Rivaas.Lemmas.BindVal
import Rivaas.Lemmas.BindConv
import Rivaas.Lemmas.BindLookup
import Rivaas.Lemmas.BindExpect
/-
C04: map leaves. `setMapField` (count, limit, dot/bracket entries in container order, JSON-object
fallback) against the oracle's `expectMap`; the two independent readings of the key syntax
(`extractMapKey` with index arithmetic, `Spec.entryKey` with takeWhile/dropWhile) agree.
-/
set_option linter.unusedSimpArgs false
set_option linter.unusedVariables false
namespace Rivaas.Bind
open Spec

/-! ### the key syntax -/

theorem lemma_indexOf_split (c : Char) : ∀ (s : Bytes),
    match indexOfB c s with
    | some n => s.take n = s.takeWhile (· != c) ∧ s.drop n = s.dropWhile (· != c) ∧ (s.dropWhile (· != c)) ≠ []
    | none => s.dropWhile (· != c) = [] ∧ s.takeWhile (· != c) = s
  | [] => by simp [indexOfB]
  | x :: r => by
    simp only [indexOfB]
    by_cases hx : x = c
    · subst hx
      simp
    · have hne : (x == c) = false := by simpa using hx
      have hne' : (x != c) = true := by simp [bne, hne]
      simp only [hne, Bool.false_eq_true, if_false]
      have ih := lemma_indexOf_split c r
      cases hi : indexOfB c r with
      | none =>
        rw [hi] at ih
        simp [List.dropWhile_cons, List.takeWhile_cons, hne', ih.1, ih.2]
      | some n =>
        rw [hi] at ih
        simp [List.dropWhile_cons, List.takeWhile_cons, hne', ih.1, ih.2.1, ih.2.2]

theorem lemma_trimQuotes (s : Bytes) :
    trimQuotes s = ((s.dropWhile (fun c => c == '"' || c == '\'')).reverse.dropWhile (fun c => c == '"' || c == '\'')).reverse := rfl

/-- the two readings of the map-key syntax agree -/
theorem lemma_entryKey (full key : Bytes) :
    entryKey full key = (extractMapKey key full).map (fun k => if k.isEmpty then none else some k) := by
  unfold entryKey extractMapKey
  cases hd : cutPrefix key (full ++ B ".") with
  | some k => simp
  | none =>
    simp only
    cases hpp : (full ++ B "[").isPrefixOf key with
    | false => simp [cutPrefix, hasPrefix, hpp]
    | true =>
      have hb : cutPrefix key (full ++ B "[") = some (key.drop (full ++ B "[").length) := by simp [cutPrefix, hpp]
      have hp : hasPrefix key (full ++ B "[") = true := by simp [hasPrefix, hpp]
      generalize key.drop (full ++ B "[").length = after at hb
      simp only [hp, if_true, Option.map_some, extractBracketKey, hb]
      have hsp := lemma_indexOf_split ']' after
      cases hi : indexOfB ']' after with
      | none =>
        rw [hi] at hsp
        simp [hsp.1]
      | some n =>
        rw [hi] at hsp
        obtain ⟨h1, h2, h3⟩ := hsp
        simp only [h1, h2]
        have hne : (after.dropWhile (· != ']')).isEmpty = false := by
          cases hdw : after.dropWhile (· != ']') with
          | nil => exact absurd hdw h3
          | cons _ _ => rfl
        simp only [hne, Bool.false_or]
        by_cases he : (after.takeWhile (· != ']')).isEmpty = true
        · simp [he]
        · have he' : (after.takeWhile (· != ']')).isEmpty = false := by simpa using he
          simp only [he', Bool.false_or, Bool.false_eq_true, if_false]
          by_cases hc : (after.dropWhile (· != ']')).contains '[' = true
          · have hmem : '[' ∈ after.dropWhile (· != ']') := by simpa using hc
            simp [hc, hmem]
          · have hc' : (after.dropWhile (· != ']')).contains '[' = false := by simpa using hc
            simp only [hc', Bool.false_eq_true, if_false, lemma_trimQuotes]

theorem lemma_mapInsert_eq (k : Bytes) (v : Val) : ∀ m, mapInsert k v m = insertKV k v m
  | [] => rfl
  | (k', v') :: r => by
    simp only [mapInsert, insertKV]
    split
    · rfl
    · split
      · rfl
      · rw [lemma_mapInsert_eq k v r]


/-! ### the dot / bracket entries of a map field, in container order -/

/-- (map key as written — empty when the bracket notation is malformed —, first value) -/
def mEntries (full : Bytes) (kvs : List (Bytes × List Bytes)) : List (Bytes × Bytes) :=
  kvs.filterMap (fun e => (extractMapKey e.1 full).map (·, e.2.headD []))

variable (P : Params) (cfg : Cfg)

/-- bindMapFromValues on the entries -/
def bindEs (p : Prim) : List (Bytes × Bytes) → Nat → List (Bytes × Val) → Except Err (List (Bytes × Val))
  | [], _, m => .ok m
  | (mk, v) :: r, c, m =>
    if mk.isEmpty then .error .conv
    else if cfg.maxMap > 0 && c + 1 > cfg.maxMap then .error .mapSize
    else match convPrim P cfg p v with
      | none => .error .conv
      | some x => bindEs p r (c + 1) (mapInsert mk x m)

theorem lemma_bindMapEntries (p : Prim) (full : Bytes) : ∀ (kvs : List (Bytes × List Bytes)) (c : Nat) (m : List (Bytes × Val)),
    bindMapEntries P cfg (.prim p) full kvs c m = bindEs P cfg p (mEntries full kvs) c m
  | [], c, m => by simp [bindMapEntries, mEntries, bindEs]
  | (key, vals) :: rest, c, m => by
    simp only [bindMapEntries, mEntries, List.filterMap_cons]
    cases hk : extractMapKey key full with
    | none => simpa [mEntries] using lemma_bindMapEntries p full rest c m
    | some mk =>
      simp only [Option.map_some, bindEs, convTy]
      split
      · rfl
      · split
        · rfl
        · cases convPrim P cfg p (vals.headD []) with
          | none => rfl
          | some x => simpa [mEntries] using lemma_bindMapEntries p full rest (c+1) (mapInsert mk x m)

/-- what the sequential binding of the entries yields, against entry-wise denotation -/
theorem lemma_bindEs (hP : FloatSane P) (p : Prim) : ∀ (es : List (Bytes × Bytes)) (c : Nat) (m : List (Bytes × Val)),
    match bindEs P cfg p es c m with
    | .ok m' => es.all (fun e => !e.1.isEmpty) = true ∧
        ∃ kvs, allSome (es.map (fun e => (denote P cfg p e.2).val.map (e.1, ·))) = some kvs ∧
          m' = kvs.foldl (fun m e => insertKV e.1 e.2 m) m
    | .error e => (e = .conv ∧ (es.all (fun e => !e.1.isEmpty) = false ∨ es.any (fun e => (denote P cfg p e.2).refusable) = true)) ∨
        (e = .mapSize ∧ cfg.maxMap > 0 ∧ c + es.length > cfg.maxMap)
  | [], c, m => by simp [bindEs, allSome]
  | (mk, v) :: r, c, m => by
    simp only [bindEs]
    by_cases hmk : mk.isEmpty = true
    · simp [hmk]
    · have hmk' : mk.isEmpty = false := by simpa using hmk
      simp only [hmk', Bool.false_eq_true, if_false]
      by_cases hlim : (decide (cfg.maxMap > 0) && decide (c + 1 > cfg.maxMap)) = true
      · simp only [hlim, if_true]
        right
        simp only [Bool.and_eq_true, decide_eq_true_eq] at hlim
        refine ⟨by trivial, hlim.1, ?_⟩
        simp only [List.length_cons]; omega
      · have hlim' : (decide (cfg.maxMap > 0) && decide (c + 1 > cfg.maxMap)) = false := by simpa using hlim
        simp only [hlim', Bool.false_eq_true, if_false]
        have hc := conv_meets_denote P hP cfg p v
        cases hcv : convPrim P cfg p v with
        | none =>
          have := hc.2 hcv
          simp [this]
        | some x =>
          have hx := hc.1 x hcv
          have ih := lemma_bindEs hP p r (c+1) (mapInsert mk x m)
          simp only
          cases hr : bindEs P cfg p r (c + 1) (mapInsert mk x m) with
          | ok m' =>
            rw [hr] at ih
            obtain ⟨hall, kvs, hkvs, hm'⟩ := ih
            refine ⟨by simp [hmk', hall], (mk, x) :: kvs, ?_, ?_⟩
            · simp [allSome, hx, hkvs]
            · simp [hm', lemma_mapInsert_eq]
          | error e =>
            rw [hr] at ih
            rcases ih with ⟨he, h⟩ | ⟨he, h1, h2⟩
            · left
              refine ⟨he, ?_⟩
              rcases h with h | h
              · left; simp [hmk', h]
              · right; simp [h]
            · right
              refine ⟨he, h1, ?_⟩
              simp only [List.length_cons]; omega

/-- parseJSONToMap on the decoded object -/
theorem lemma_jsonEntries (hP : FloatSane P) (p : Prim) : ∀ (es : List (Bytes × Bytes)) (m : List (Bytes × Val)),
    match jsonEntries P cfg (.prim p) es m with
    | .ok m' => ∃ kvs, allSome (es.map (fun e => (denote P cfg p e.2).val.map (e.1, ·))) = some kvs ∧
          m' = kvs.foldl (fun m e => insertKV e.1 e.2 m) m
    | .error e => e = .conv ∧ es.any (fun e => (denote P cfg p e.2).refusable) = true
  | [], m => by simp [jsonEntries, allSome]
  | (k, sv) :: r, m => by
    simp only [jsonEntries, convTy]
    have hc := conv_meets_denote P hP cfg p sv
    cases hcv : convPrim P cfg p sv with
    | none =>
      have := hc.2 hcv
      simp [this]
    | some x =>
      have hx := hc.1 x hcv
      have ih := lemma_jsonEntries hP p r (mapInsert k x m)
      simp only
      cases hr : jsonEntries P cfg (.prim p) r (mapInsert k x m) with
      | ok m' =>
        rw [hr] at ih
        obtain ⟨kvs, hkvs, hm'⟩ := ih
        exact ⟨(k, x) :: kvs, by simp [allSome, hx, hkvs], by simp [hm', lemma_mapInsert_eq]⟩
      | error e =>
        rw [hr] at ih
        exact ⟨ih.1, by simp [ih.2]⟩


/-! ### the oracle's entries are the model's entries -/

def specKey (e : Bytes × Bytes) : Option Bytes × Bytes := (if e.1.isEmpty then none else some e.1, e.2)

theorem lemma_entries_list (full : Bytes) : ∀ kvs : List (Bytes × List Bytes),
    kvs.filterMap (fun e => (entryKey full e.1).map (fun mk => (mk, e.2.headD []))) = (mEntries full kvs).map specKey
  | [] => rfl
  | e :: r => by
    have ih := lemma_entries_list full r
    unfold mEntries at ih ⊢
    rw [List.filterMap_cons, List.filterMap_cons, lemma_entryKey full e.1]
    cases h : extractMapKey e.1 full with
    | none => simp only [Option.map_none]; exact ih
    | some mk => simp only [Option.map_some, List.map_cons, specKey, ih]

theorem lemma_mapEntries_qf (s : Src) (full : Bytes) (hqf : isQF s.kind = true) :
    mapEntries s full = (mEntries full s.kvs).map specKey := by
  have hk : (s.kind == Tag.query || s.kind == Tag.form) = true := by simpa [isQF] using hqf
  simp only [mapEntries, hk, if_true]
  exact lemma_entries_list full s.kvs

theorem lemma_mapEntries_nqf (s : Src) (full : Bytes) (hqf : isQF s.kind = false) : mapEntries s full = [] := by
  have hk : (s.kind == Tag.query || s.kind == Tag.form) = false := by simpa [isQF] using hqf
  simp [mapEntries, hk]

theorem lemma_matches_iff (full : Bytes) (e : Bytes × List Bytes) :
    mapKeyMatches full e = (extractMapKey e.1 full).isSome := by
  unfold mapKeyMatches extractMapKey cutPrefix hasPrefix
  cases h1 : (full ++ B ".").isPrefixOf e.1 <;> cases h2 : (full ++ B "[").isPrefixOf e.1 <;> simp [h1, h2]

theorem lemma_count_entries (full : Bytes) : ∀ kvs : List (Bytes × List Bytes),
    (kvs.filter (mapKeyMatches full)).length = (mEntries full kvs).length
  | [] => rfl
  | e :: r => by
    simp only [List.filter_cons, mEntries, List.filterMap_cons, lemma_matches_iff]
    cases extractMapKey e.1 full with
    | none => simpa [mEntries] using lemma_count_entries full r
    | some mk => simpa [mEntries] using lemma_count_entries full r

theorem lemma_found_entries (full : Bytes) : ∀ kvs : List (Bytes × List Bytes),
    kvs.any (fun e => (extractMapKey e.1 full).isSome) = !(mEntries full kvs).isEmpty
  | [] => rfl
  | e :: r => by
    simp only [List.any_cons, mEntries, List.filterMap_cons]
    cases extractMapKey e.1 full with
    | none => simpa [mEntries] using lemma_found_entries full r
    | some mk => simp

/-- no entries: no key of the source extends the map's key with a dot or a bracket -/
theorem lemma_no_entries (full : Bytes) (kvs : List (Bytes × List Bytes)) (h : mEntries full kvs = [])
    (e : Bytes × List Bytes) (he : e ∈ kvs) : hasPrefix e.1 (full ++ B ".") = false ∧ hasPrefix e.1 (full ++ B "[") = false := by
  have hall : ∀ e ∈ kvs, extractMapKey e.1 full = none := by
    intro e he
    have : (mEntries full kvs).length = 0 := by simp [h]
    rw [← lemma_count_entries] at this
    have hf : kvs.filter (mapKeyMatches full) = [] := List.eq_nil_of_length_eq_zero this
    have := List.filter_eq_nil_iff.1 hf e he
    rw [lemma_matches_iff] at this
    cases hx : extractMapKey e.1 full with
    | none => rfl
    | some _ => simp [hx] at this
  have := hall e he
  unfold extractMapKey cutPrefix hasPrefix at this
  unfold hasPrefix
  cases h1 : (full ++ B ".").isPrefixOf e.1 <;> cases h2 : (full ++ B "[").isPrefixOf e.1 <;> simp [h1, h2] at this ⊢


/-! ### setMapField and expectMap through the entries -/

def mapWrap (isPtr : Bool) (m : List (Bytes × Val)) : Val := if isPtr then .ptr (.map m) else .map m

/-- setMapField on the entries `E`, with what `Has`/`Get` answer for the bare key -/
def setMapCore (p : Prim) (isPtr : Bool) (m0 : List (Bytes × Val)) (E : List (Bytes × Bytes)) (has : Bool) (jv : Bytes) :
    Except Err Val :=
  if E.length > 0 && cfg.maxMap > 0 && E.length > cfg.maxMap then .error .mapSize else
  match bindEs P cfg p E 0 m0 with
  | .error e => .error e
  | .ok m1 =>
    if E.isEmpty && has then
      if jv.isEmpty then .ok (mapWrap isPtr m1)
      else match (P jv).j with
        | none => .ok (mapWrap isPtr m1)
        | some es =>
          if cfg.maxMap > 0 && es.length > cfg.maxMap then .error .mapSize
          else match jsonEntries P cfg (.prim p) es m1 with
            | .error e => .error e
            | .ok m2 => .ok (mapWrap isPtr m2)
    else .ok (mapWrap isPtr m1)

/-- the oracle's expectation on the entries `E` and the JSON-object entries `J` -/
def mapExpectOf (p : Prim) (isPtr : Bool) (m0 : List (Bytes × Val)) (E J : List (Bytes × Bytes)) : Expect :=
  let badKey := E.any (fun e => e.1.isEmpty)
  let src := if !E.isEmpty then E.filter (fun e => !e.1.isEmpty) else J
  let tooMany := cfg.maxMap > 0 && (E.length > cfg.maxMap || src.length > cfg.maxMap)
  let ds := src.map fun e => (e.1, denote P cfg p e.2)
  { oks := if tooMany || badKey then [] else
             (allSome (ds.map fun e => e.2.val.map (e.1, ·))).toList.map
               (fun kvs => some (mapWrap isPtr (kvs.foldl (fun m e => insertKV e.1 e.2 m) m0))),
    errs := (if tooMany then [.mapSize] else []) ++ (if badKey || ds.any (·.2.refusable) then [.conv] else []) }

theorem lemma_filter_valid : ∀ (E : List (Bytes × Bytes)), E.all (fun e => !e.1.isEmpty) = true →
    E.filter (fun e => !e.1.isEmpty) = E
  | [], _ => rfl
  | e :: r, h => by
    simp only [List.all_cons, Bool.and_eq_true] at h
    simp [List.filter_cons, h.1, lemma_filter_valid r h.2]

theorem lemma_all_any (E : List (Bytes × Bytes)) :
    E.any (fun e => e.1.isEmpty) = !E.all (fun e => !e.1.isEmpty) := by
  induction E with
  | nil => rfl
  | cons e r ih => simp [ih, Bool.not_and]

/-- no dot/bracket entries: the JSON-object notation under the bare key decides -/
theorem lemma_core_nil (hP : FloatSane P) (p : Prim) (isPtr : Bool) (iv : Val) (name : Bytes)
    (m0 : List (Bytes × Val)) (has : Bool) (jv : Bytes) :
    LeafOK (mapExpectOf P cfg p isPtr m0 [] (if has then (if jv.isEmpty then [] else ((P jv).j).getD []) else [])) false iv name
      (sliceOut name (setMapCore P cfg p isPtr m0 [] has jv)) := by
  have hnone : LeafOK (mapExpectOf P cfg p isPtr m0 [] []) false iv name (.inl (mapWrap isPtr m0)) := by
    simp only [LeafOK]
    right
    exact ⟨some (mapWrap isPtr m0), by simp [mapExpectOf, allSome], lemma_holdsV_refl_some iv _⟩
  simp only [setMapCore, List.length_nil, Nat.lt_irrefl, decide_false, Bool.false_and, Bool.false_eq_true, if_false,
    bindEs, List.isEmpty_nil, Bool.true_and, gt_iff_lt]
  cases has with
  | false => simpa [sliceOut] using hnone
  | true =>
    simp only [if_true]
    by_cases hjv : jv.isEmpty = true
    · simpa [hjv, sliceOut] using hnone
    · have hjv' : jv.isEmpty = false := by simpa using hjv
      simp only [hjv', Bool.false_eq_true, if_false]
      cases hj : (P jv).j with
      | none => simpa [sliceOut] using hnone
      | some J =>
        simp only [Option.getD_some]
        by_cases hlim : (decide (0 < cfg.maxMap) && decide (cfg.maxMap < J.length)) = true
        · simp only [hlim, if_true, sliceOut]
          refine ⟨.mapSize, rfl, Or.inl ?_⟩
          simp only [Bool.and_eq_true, decide_eq_true_eq] at hlim
          simp [mapExpectOf, hlim.1, hlim.2]
        · have hlim' : (decide (0 < cfg.maxMap) && decide (cfg.maxMap < J.length)) = false := by simpa using hlim
          simp only [hlim', Bool.false_eq_true, if_false]
          have hje := lemma_jsonEntries P cfg hP p J m0
          cases hjr : jsonEntries P cfg (.prim p) J m0 with
          | ok m2 =>
            rw [hjr] at hje
            obtain ⟨kvs, hk, hm2⟩ := hje
            subst hm2
            simp only [sliceOut, LeafOK]
            right
            refine ⟨some (mapWrap isPtr (kvs.foldl (fun m e => insertKV e.1 e.2 m) m0)), ?_, lemma_holdsV_refl_some iv _⟩
            simp [mapExpectOf, hlim', List.map_map, Function.comp_def, hk]
          | error e =>
            rw [hjr] at hje
            simp only [sliceOut]
            refine ⟨e, rfl, Or.inl ?_⟩
            rw [hje.1]
            have : (J.map fun e => (e.1, denote P cfg p e.2)).any (·.2.refusable) = true := by
              simpa [List.any_map, Function.comp_def] using hje.2
            simp [mapExpectOf, this]

/-- dot/bracket entries present -/
theorem lemma_core_cons (hP : FloatSane P) (p : Prim) (isPtr : Bool) (iv : Val) (name : Bytes)
    (m0 : List (Bytes × Val)) (E : List (Bytes × Bytes)) (hne : E ≠ []) (J : List (Bytes × Bytes)) (has : Bool) (jv : Bytes) :
    LeafOK (mapExpectOf P cfg p isPtr m0 E J) false iv name
      (sliceOut name (setMapCore P cfg p isPtr m0 E has jv)) := by
  have hemp : E.isEmpty = false := by cases E with
    | nil => exact absurd rfl hne
    | cons _ _ => rfl
  have hpos : E.length > 0 := by cases E with
    | nil => exact absurd rfl hne
    | cons _ _ => simp
  unfold setMapCore
  by_cases ha : cfg.maxMap > 0
  · by_cases hb : E.length > cfg.maxMap
    · have : (decide (E.length > 0) && decide (cfg.maxMap > 0) && decide (E.length > cfg.maxMap)) = true := by
        simp only [decide_eq_true hpos, decide_eq_true ha, decide_eq_true hb, Bool.and_self]
      simp only [this, if_true, sliceOut]
      refine ⟨.mapSize, rfl, Or.inl ?_⟩
      have htm : (decide (cfg.maxMap > 0) && (decide (E.length > cfg.maxMap) ||
          decide ((if (!E.isEmpty) = true then E.filter (fun e => !e.1.isEmpty) else J).length > cfg.maxMap))) = true := by
        simp only [decide_eq_true ha, decide_eq_true hb, Bool.true_or, Bool.and_self]
      simp only [mapExpectOf, htm, if_true, List.mem_append, List.mem_singleton, true_or]
    · have hnb := hb
      have hpre' : (decide (E.length > 0) && decide (cfg.maxMap > 0) && decide (E.length > cfg.maxMap)) = false := by
        simp only [decide_eq_false hb, Bool.and_false]
      simp only [hpre', Bool.false_eq_true, if_false]
      have hb' : decide (E.length > cfg.maxMap) = false := decide_eq_false hb
      have hb := lemma_bindEs P cfg hP p E 0 m0
      cases hr : bindEs P cfg p E 0 m0 with
      | error e =>
        rw [hr] at hb
        simp only [sliceOut]
        refine ⟨e, rfl, Or.inl ?_⟩
        rcases hb with ⟨he, h⟩ | ⟨he, h1, h2⟩
        · subst he
          by_cases hv : E.all (fun e => !e.1.isEmpty) = true
          · rcases h with h | h
            · rw [hv] at h; cases h
            · have : (E.map fun e => (e.1, denote P cfg p e.2)).any (·.2.refusable) = true := by
                simpa [List.any_map, Function.comp_def] using h
              simp only [mapExpectOf, hemp, Bool.not_false, if_true, lemma_filter_valid _ hv, this, Bool.or_true,
                List.mem_append, List.mem_singleton, or_true]
          · have hv' : E.all (fun e => !e.1.isEmpty) = false := by simpa using hv
            have : E.any (fun e => e.1.isEmpty) = true := by rw [lemma_all_any, hv']; rfl
            simp only [mapExpectOf, this, Bool.true_or, if_true, List.mem_append, List.mem_singleton, or_true]
        · subst he
          exact absurd (by omega) hnb
      | ok m1 =>
        rw [hr] at hb
        obtain ⟨hvalid, kvs, hkvs, hm1⟩ := hb
        subst hm1
        have hbad : E.any (fun e => e.1.isEmpty) = false := by rw [lemma_all_any, hvalid]; rfl
        simp only [hemp, Bool.false_and, Bool.false_eq_true, if_false, sliceOut, LeafOK]
        right
        refine ⟨some (mapWrap isPtr (kvs.foldl (fun m e => insertKV e.1 e.2 m) m0)), ?_, lemma_holdsV_refl_some iv _⟩
        simp only [mapExpectOf, hemp, Bool.not_false, if_true, lemma_filter_valid _ hvalid, hbad, hb',
          Bool.or_self, Bool.and_false, Bool.false_eq_true, if_false, List.map_map, Function.comp_def, hkvs,
          Option.toList_some, List.map_cons, List.map_nil, List.mem_singleton]
  · have ha' : decide (cfg.maxMap > 0) = false := decide_eq_false ha
    have hpre' : (decide (E.length > 0) && decide (cfg.maxMap > 0) && decide (E.length > cfg.maxMap)) = false := by
      simp only [ha', Bool.and_false, Bool.false_and]
    simp only [hpre', Bool.false_eq_true, if_false]
    have hb := lemma_bindEs P cfg hP p E 0 m0
    cases hr : bindEs P cfg p E 0 m0 with
    | error e =>
      rw [hr] at hb
      simp only [sliceOut]
      refine ⟨e, rfl, Or.inl ?_⟩
      rcases hb with ⟨he, h⟩ | ⟨he, h1, h2⟩
      · subst he
        by_cases hv : E.all (fun e => !e.1.isEmpty) = true
        · rcases h with h | h
          · rw [hv] at h; cases h
          · have : (E.map fun e => (e.1, denote P cfg p e.2)).any (·.2.refusable) = true := by
              simpa [List.any_map, Function.comp_def] using h
            simp only [mapExpectOf, hemp, Bool.not_false, if_true, lemma_filter_valid _ hv, this, Bool.or_true,
              List.mem_append, List.mem_singleton, or_true]
        · have hv' : E.all (fun e => !e.1.isEmpty) = false := by simpa using hv
          have : E.any (fun e => e.1.isEmpty) = true := by rw [lemma_all_any, hv']; rfl
          simp only [mapExpectOf, this, Bool.true_or, if_true, List.mem_append, List.mem_singleton, or_true]
      · exact absurd h1 ha
    | ok m1 =>
      rw [hr] at hb
      obtain ⟨hvalid, kvs, hkvs, hm1⟩ := hb
      subst hm1
      have hbad : E.any (fun e => e.1.isEmpty) = false := by rw [lemma_all_any, hvalid]; rfl
      simp only [hemp, Bool.false_and, Bool.false_eq_true, if_false, sliceOut, LeafOK]
      right
      refine ⟨some (mapWrap isPtr (kvs.foldl (fun m e => insertKV e.1 e.2 m) m0)), ?_, lemma_holdsV_refl_some iv _⟩
      simp only [mapExpectOf, hemp, Bool.not_false, if_true, lemma_filter_valid _ hvalid, hbad, ha',
        Bool.or_self, Bool.false_and, Bool.false_eq_true, if_false, List.map_map, Function.comp_def, hkvs,
        Option.toList_some, List.map_cons, List.map_nil, List.mem_singleton]


/-! ### assembling the map leaf -/

/-- the entries of the map field `full` in the source (none for sources without key enumeration) -/
def entriesOf (s : Src) (full : Bytes) : List (Bytes × Bytes) := if isQF s.kind then mEntries full s.kvs else []

/-- the JSON-object entries under the bare key, as the oracle reads them -/
def jsonOf (s : Src) (full : Bytes) : List (Bytes × Bytes) :=
  match present s full with
  | some (v :: _) => if v.isEmpty then [] else ((P v).j).getD []
  | _ => []

theorem lemma_setMap_core (p : Prim) (isPtr : Bool) (cur : Val) (g : Getter) (name : Bytes) (ty : Ty)
    (hty : ty = if isPtr then .ptr (.map (.prim p)) else .map (.prim p)) :
    setMap P cfg ty cur g name =
      setMapCore P cfg p isPtr (mapOf (some cur)) (entriesOf g.src (g.pre ++ name)) (g.has name) (g.get name) := by
  have hm0 : curMap cur = mapOf (some cur) := by
    cases cur with
    | map kvs => rfl
    | ptr y => cases y <;> rfl
    | _ => rfl
  unfold setMap setMapCore entriesOf
  simp only [hm0]
  cases hq : isQF g.src.kind with
  | true =>
    simp only [if_true, lemma_count_entries, lemma_found_entries, Bool.true_and]
    cases isPtr with
    | false =>
      simp only [hty, Bool.false_eq_true, if_false, lemma_bindMapEntries, mapWrap]
      split
      · rfl
      · cases bindEs P cfg p (mEntries (g.pre ++ name) g.src.kvs) 0 (mapOf (some cur)) with
        | error e => rfl
        | ok m1 =>
          simp only [Bool.not_not]
          split
          · split
            · rfl
            · cases (P (g.get name)).j with
              | none => rfl
              | some es =>
                simp only
                split
                · rfl
                · cases jsonEntries P cfg (.prim p) es m1 <;> rfl
          · rfl
    | true =>
      simp only [hty, if_true, lemma_bindMapEntries, mapWrap]
      split
      · rfl
      · cases bindEs P cfg p (mEntries (g.pre ++ name) g.src.kvs) 0 (mapOf (some cur)) with
        | error e => rfl
        | ok m1 =>
          simp only [Bool.not_not]
          split
          · split
            · rfl
            · cases (P (g.get name)).j with
              | none => rfl
              | some es =>
                simp only
                split
                · rfl
                · cases jsonEntries P cfg (.prim p) es m1 <;> rfl
          · rfl
  | false =>
    simp only [Bool.false_eq_true, if_false, List.length_nil, Nat.lt_irrefl, decide_false, Bool.false_and,
      bindEs, List.isEmpty_nil, Bool.true_and, Bool.not_false, gt_iff_lt]
    cases isPtr with
    | false =>
      simp only [hty, Bool.false_eq_true, if_false, mapWrap]
      split
      · split
        · rfl
        · cases (P (g.get name)).j with
          | none => rfl
          | some es =>
            simp only
            split
            · rfl
            · cases jsonEntries P cfg (.prim p) es (mapOf (some cur)) <;> rfl
      · rfl
    | true =>
      simp only [hty, if_true, mapWrap]
      split
      · split
        · rfl
        · cases (P (g.get name)).j with
          | none => rfl
          | some es =>
            simp only
            split
            · rfl
            · cases jsonEntries P cfg (.prim p) es (mapOf (some cur)) <;> rfl
      · rfl


theorem lemma_specKey_any : ∀ E : List (Bytes × Bytes),
    (E.map specKey).any (fun e => e.1.isNone) = E.any (fun e => e.1.isEmpty)
  | [] => rfl
  | e :: r => by
    simp only [List.map_cons, List.any_cons, lemma_specKey_any r, specKey]
    cases e.1.isEmpty <;> simp

theorem lemma_specKey_filter : ∀ E : List (Bytes × Bytes),
    (E.map specKey).filterMap (fun e => e.1.map (·, e.2)) = E.filter (fun e => !e.1.isEmpty)
  | [] => rfl
  | e :: r => by
    simp only [List.map_cons, List.filterMap_cons, List.filter_cons, specKey]
    cases h : e.1.isEmpty <;> simp [lemma_specKey_filter r]

theorem lemma_mapEntries_E (s : Src) (full : Bytes) : mapEntries s full = (entriesOf s full).map specKey := by
  unfold entriesOf
  cases hq : isQF s.kind with
  | true => simp [lemma_mapEntries_qf s full hq]
  | false => simp [lemma_mapEntries_nqf s full hq]

theorem lemma_expectMap_E (s : Src) (l : Leaf) (p : Prim) (isPtr : Bool) (m0 : List (Bytes × Val)) :
    expectMap P cfg s l (.prim p) isPtr m0 =
      mapExpectOf P cfg p isPtr m0 (entriesOf s (l.keys.headD [])) (jsonOf P s (l.keys.headD [])) := by
  unfold expectMap mapExpectOf jsonOf
  simp only [lemma_mapEntries_E, lemma_specKey_any, lemma_specKey_filter, List.length_map, List.isEmpty_map, mapWrap]
  cases isPtr <;> rfl


theorem lemma_prefix_bracket (full : Bytes) : hasPrefix (full ++ B "[]") (full ++ B "[") = true := by
  unfold hasPrefix
  induction full with
  | nil => decide
  | cons c r ih => simpa [List.isPrefixOf] using ih

/-- without dot/bracket entries, the oracle's JSON-object entries are what `Has`/`Get` of the bare
    key deliver -/
theorem lemma_json_link (g : Getter) (hs : srcOK g.src = true) (name : Bytes)
    (hE : entriesOf g.src (g.pre ++ name) = []) :
    jsonOf P g.src (g.pre ++ name) =
      if g.has name then (if (g.get name).isEmpty then [] else ((P (g.get name)).j).getD []) else [] := by
  -- no key extends the full key with a dot or a bracket
  have hno : isQF g.src.kind = true → ∀ e ∈ g.src.kvs,
      hasPrefix e.1 (g.pre ++ name ++ B ".") = false ∧ hasPrefix e.1 (g.pre ++ name ++ B "[") = false := by
    intro hq e he
    have : mEntries (g.pre ++ name) g.src.kvs = [] := by simpa [entriesOf, hq] using hE
    exact lemma_no_entries _ _ this e he
  have hdot : dotAmb g.src g.nested (g.pre ++ name) = false := by
    unfold dotAmb
    cases hq : isQF g.src.kind with
    | false => simp
    | true =>
      simp only [Bool.true_and, Bool.and_eq_false_iff, List.any_eq_false]
      right
      intro e he
      simpa using (hno hq e he).1
  have hbr : bracketOnly g.src (g.pre ++ name) = false := by
    unfold bracketOnly
    cases hq : isQF g.src.kind with
    | false => simp
    | true =>
      simp only [Bool.true_and, Bool.and_eq_false_iff]
      cases hb : assoc (g.pre ++ name ++ B "[]") g.src.kvs with
      | none => right; rfl
      | some ws =>
        have hm := lemma_assoc_mem _ _ _ hb
        have := (hno hq _ hm).2
        rw [lemma_prefix_bracket] at this
        cases this
  have hhas : g.has name = (present g.src (g.pre ++ name)).isSome := by
    rw [lemma_has_full]
    exact lemma_hasFull_present g.src g.nested hs _ hdot
  unfold jsonOf
  cases hp : present g.src (g.pre ++ name) with
  | none => simp [hhas, hp]
  | some vs =>
    have hget : g.get name = vs.headD [] := lemma_get_present g.src hs _ vs hp hbr
    simp only [hhas, hp, Option.isSome_some, if_true, hget]
    cases vs with
    | nil => simp
    | cons v r => simp

/-- **map leaf** (`map[string]V` and `*map[string]V`): entries in dot / bracket notation, or a
    JSON object under the bare key; the size limit applies to both -/
theorem lemma_leaf_map (nest : Nest) (hP : FloatSane P) (g : Getter) (hs : srcOK g.src = true) (d : Nat)
    (f : FieldInfo) (l : Leaf) (p : Prim) (isPtr : Bool) (hl : LeafLink P g f l)
    (hty : f.ty = if isPtr then .ptr (.map (.prim p)) else .map (.prim p)) (iv : Val) :
    wants g f = true ∧
    LeafOK (expectMap P cfg g.src l (.prim p) isPtr (mapOf (some iv))) false iv f.name
      (fieldAction P cfg nest g d f iv) := by
  have hmp : isMapTy f.ty = true := by rw [hty]; cases isPtr <;> simp [isMapTy]
  refine ⟨by simp [wants, hmp], ?_⟩
  have hfa : fieldAction P cfg nest g d f iv = sliceOut f.name (setMap P cfg f.ty iv g f.tagName) := by
    unfold fieldAction
    simp only [hmp, if_true, sliceOut]
    cases setMap P cfg f.ty iv g f.tagName <;> rfl
  have hfull : l.keys.headD [] = g.pre ++ f.tagName := by rw [hl.keys]; rfl
  rw [hfa, lemma_setMap_core P cfg p isPtr iv g f.tagName f.ty hty, lemma_expectMap_E, hfull]
  cases hE : entriesOf g.src (g.pre ++ f.tagName) with
  | nil =>
    rw [lemma_json_link P g hs f.tagName hE]
    exact lemma_core_nil P cfg hP p isPtr iv f.name _ _ _
  | cons e0 r0 =>
    exact lemma_core_cons P cfg hP p isPtr iv f.name _ (e0 :: r0) (by simp) _ _ _

end Rivaas.Bind
