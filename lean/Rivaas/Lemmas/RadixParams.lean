import Rivaas.Lemmas.SMapL
import Rivaas.Lemmas.RadixWalk
/-
Layer L2 of C01: the 8 inline slots plus overflow map refine the ordered list of captures.
`Param`, `AllParams` and `validateConstraints` on the context the descent builds agree with plain
lookups in the binding list, when the names are distinct.
-/
namespace Rivaas.RadixL
open Rivaas.Route Rivaas.Radix Rivaas.Match

/-- the last binding of `j` in a list of writes -/
def lastB (j : Bytes) : List (Bytes × Bytes) → Option Bytes
  | [] => none
  | (k, v) :: rest => lastB j rest <|> (if j = k then some v else none)

theorem get_setAll (j : Bytes) (m : SMap) (l : List (Bytes × Bytes)) :
    SMap.get j (SMap.setAll m l) = (lastB j l <|> SMap.get j m) := by
  induction l generalizing m with
  | nil => simp [SMap.setAll, lastB]
  | cons a rest ih =>
    obtain ⟨k, v⟩ := a
    have : SMap.setAll m ((k, v) :: rest) = SMap.setAll (SMap.set k v m) rest := by simp [SMap.setAll]
    rw [this, ih, SMap.get_set]
    simp only [lastB]
    cases lastB j rest <;> by_cases hj : j = k <;> simp [hj]

theorem setAll_sorted (m : SMap) (l : List (Bytes × Bytes)) (hm : m.Sorted) : (SMap.setAll m l).Sorted := by
  induction l generalizing m with
  | nil => simpa [SMap.setAll] using hm
  | cons a rest ih =>
    have : SMap.setAll m (a :: rest) = SMap.setAll (SMap.set a.1 a.2 m) rest := by simp [SMap.setAll]
    rw [this]
    exact ih _ (SMap.set_sorted _ _ _ hm)

theorem ofList_sorted (l : List (Bytes × Bytes)) : (SMap.ofList l).Sorted :=
  setAll_sorted [] l (by simp [SMap.Sorted])

theorem lastB_sorted (j : Bytes) (m : SMap) (hm : m.Sorted) : lastB j m = SMap.get j m := by
  induction m with
  | nil => rfl
  | cons a rest ih =>
    obtain ⟨k, v⟩ := a
    unfold SMap.Sorted at hm
    rw [List.pairwise_cons] at hm
    simp only [lastB, SMap.get]
    by_cases hj : j = k
    · subst hj
      have : SMap.get j rest = none := SMap.get_none_of_lt j rest hm.1
      rw [ih hm.2, this]; simp
    · rw [ih hm.2]; simp [hj]

/-- copying a canonical map entry by entry is the same as replaying the writes that built it -/
theorem setAll_ofList (m : SMap) (l : List (Bytes × Bytes)) (hm : m.Sorted) :
    SMap.setAll m (SMap.ofList l) = SMap.setAll m l := by
  apply SMap.ext _ _ (setAll_sorted _ _ hm) (setAll_sorted _ _ hm)
  intro k
  rw [get_setAll, get_setAll, lastB_sorted k _ (ofList_sorted l)]
  unfold SMap.ofList
  rw [get_setAll]
  simp [SMap.get]

/-! ### the context after a sequence of parameter writes -/

theorem pushAll_gen (s : List (Bytes × Bytes)) (o : SMap) (ps : List (Bytes × Bytes)) :
    pushAll ⟨s, o⟩ ps = ⟨s ++ ps.take (8 - s.length), SMap.setAll o (ps.drop (8 - s.length))⟩ := by
  induction ps generalizing s o with
  | nil => simp [pushAll, SMap.setAll]
  | cons a rest ih =>
    have hstep : pushAll ⟨s, o⟩ (a :: rest) = pushAll ((⟨s, o⟩ : Ctx).push a.1 a.2) rest := by simp [pushAll]
    rw [hstep]
    unfold Ctx.push
    by_cases hl : s.length < 8
    · simp only [hl, if_true]
      rw [ih]
      have h1 : 8 - s.length = (8 - (s ++ [(a.1, a.2)]).length) + 1 := by simp; omega
      rw [h1]
      simp
    · simp only [hl, if_false]
      rw [ih]
      have h1 : 8 - s.length = 0 := by omega
      simp [h1, SMap.setAll]

theorem pushAll_fresh (b : List (Bytes × Bytes)) :
    pushAll Ctx.fresh b = ⟨b.take 8, SMap.ofList (b.drop 8)⟩ := by
  have := pushAll_gen [] [] b
  simpa [Ctx.fresh, SMap.ofList] using this

/-- `AllParams` is the map of all writes in order -/
theorem all_pushAll (b : List (Bytes × Bytes)) : (pushAll Ctx.fresh b).all = SMap.ofList b := by
  rw [pushAll_fresh]
  unfold Ctx.all
  simp only
  rw [setAll_ofList _ _ (ofList_sorted _)]
  unfold SMap.ofList SMap.setAll
  rw [← List.foldl_append, List.take_append_drop]

theorem slotGet_eq (n : Bytes) (l : List (Bytes × Bytes)) : slotGet n l = bindGet n l := by
  induction l with
  | nil => rfl
  | cons a rest ih =>
    obtain ⟨k, v⟩ := a
    simp only [slotGet, bindGet, ih]

theorem bindGet_append (n : Bytes) (a b : List (Bytes × Bytes)) :
    bindGet n (a ++ b) = (bindGet n a <|> bindGet n b) := by
  induction a with
  | nil => simp [bindGet]
  | cons x xs ih =>
    obtain ⟨k, v⟩ := x
    simp only [List.cons_append, bindGet, ih]
    by_cases hk : k = n <;> simp [hk]

/-- with distinct names the first and the last binding of a name coincide -/
theorem lastB_distinct (n : Bytes) (l : List (Bytes × Bytes)) (hd : distinct (l.map (·.1)) = true) :
    lastB n l = bindGet n l := by
  induction l with
  | nil => rfl
  | cons a rest ih =>
    obtain ⟨k, v⟩ := a
    simp only [List.map_cons, distinct, Bool.and_eq_true, Bool.not_eq_true'] at hd
    simp only [lastB, bindGet, ih hd.2]
    by_cases hk : k = n
    · subst hk
      have : bindGet k rest = none := by
        have hnot : ¬ k ∈ rest.map (·.1) := by
          intro hm
          have := List.contains_iff_mem.mpr hm
          rw [this] at hd; exact absurd hd.1 (by simp)
        clear ih hd
        induction rest with
        | nil => rfl
        | cons y ys ihy =>
          obtain ⟨ky, vy⟩ := y
          simp only [List.map_cons, List.mem_cons, not_or] at hnot
          have hne : ¬ ky = k := fun e => hnot.1 e.symm
          simp only [bindGet, hne, if_false]
          exact ihy hnot.2
      simp [this]
    · have hk' : ¬ n = k := fun e => hk e.symm
      simp [hk, hk']

theorem distinct_drop (l : List Bytes) (i : Nat) (h : distinct l = true) : distinct (l.drop i) = true := by
  induction l generalizing i with
  | nil => simp [distinct]
  | cons a rest ih =>
    cases i with
    | zero => simpa using h
    | succ j =>
      simp only [distinct, Bool.and_eq_true] at h
      simpa using ih j h.2

/-- the lookup a constraint or `Param` performs on the context built from distinct writes -/
theorem ctx_lookup (n : Bytes) (b : List (Bytes × Bytes)) (hd : distinct (b.map (·.1)) = true) :
    (match slotGet n (pushAll Ctx.fresh b).slots with
     | some v => some v
     | none => SMap.get n (pushAll Ctx.fresh b).over) = bindGet n b := by
  rw [pushAll_fresh]
  simp only [slotGet_eq]
  have hsplit : bindGet n b = (bindGet n (b.take 8) <|> bindGet n (b.drop 8)) := by
    rw [← bindGet_append, List.take_append_drop]
  have hover : SMap.get n (SMap.ofList (b.drop 8)) = bindGet n (b.drop 8) := by
    unfold SMap.ofList
    rw [get_setAll]
    simp only [SMap.get]
    rw [lastB_distinct n _ (by simpa [List.map_drop] using distinct_drop _ 8 hd)]
    simp
  rw [hsplit, hover]
  cases bindGet n (b.take 8) <;> simp

/-- `Param(n)` -/
theorem param_pushAll (n : Bytes) (b : List (Bytes × Bytes)) (hd : distinct (b.map (·.1)) = true) :
    (pushAll Ctx.fresh b).param n = (bindGet n b).getD [] := by
  have := ctx_lookup n b hd
  unfold Ctx.param
  cases hs : slotGet n (pushAll Ctx.fresh b).slots with
  | some v => rw [hs] at this; simp only at this; rw [← this]; rfl
  | none => rw [hs] at this; simp only at this; rw [← this]


theorem all_congr_mem {α} (l : List α) (f g : α → Bool) (h : ∀ a ∈ l, f a = g a) : l.all f = l.all g := by
  induction l with
  | nil => rfl
  | cons a rest ih =>
    simp only [List.all_cons]
    rw [h a (List.mem_cons_self ..), ih (fun x hx => h x (List.mem_cons_of_mem _ hx))]

/-- `validateConstraints` on the context built from distinct writes is the oracle's `consOK` -/
theorem validate_pushAll (sat : Nat → Bytes → Bool) (cons : List (Bytes × Nat)) (b : List (Bytes × Bytes))
    (hd : distinct (b.map (·.1)) = true) :
    validate sat cons (pushAll Ctx.fresh b) = consOK sat cons b := by
  unfold validate consOK
  by_cases he : cons.isEmpty = true
  · simp only [he, if_true]
    cases cons with
    | nil => rfl
    | cons a rest => simp at he
  · simp only [he, Bool.false_eq_true, if_false]
    by_cases hbr : cons.length ≤ 3 ∨ (pushAll Ctx.fresh b).slots.length ≤ 4
    · simp only [hbr, if_true]
      apply all_congr_mem
      intro a _
      obtain ⟨n, cid⟩ := a
      simp only
      have := ctx_lookup n b hd
      cases hs : slotGet n (pushAll Ctx.fresh b).slots with
      | some v => rw [hs] at this; simp only at this; rw [← this]
      | none =>
        rw [hs] at this; simp only at this; rw [← this]
        rfl
    · simp only [hbr, if_false]
      apply all_congr_mem
      intro a _
      obtain ⟨n, cid⟩ := a
      simp only
      rw [all_pushAll]
      have : SMap.get n (SMap.ofList b) = bindGet n b := by
        unfold SMap.ofList
        rw [get_setAll, lastB_distinct n b hd]
        simp [SMap.get]
      rw [this]
      rfl


theorem firstSome_some {α β} (f : α → Option β) (l : List α) (v : β) (h : firstSome f l = some v) :
    ∃ a ∈ l, f a = some v := by
  induction l with
  | nil => simp [firstSome] at h
  | cons b rest ih =>
    simp only [firstSome] at h
    cases hb : f b with
    | some w =>
      rw [hb] at h
      simp at h
      exact ⟨b, List.mem_cons_self .., by rw [hb, h]⟩
    | none =>
      rw [hb] at h
      simp at h
      obtain ⟨a, ha, hfa⟩ := ih h
      exact ⟨a, List.mem_cons_of_mem _ ha, hfa⟩

theorem joinSlash_eq (l : List Bytes) : Radix.joinSlash l = Match.joinSlash l := by
  induction l with
  | nil => rfl
  | cons a rest ih =>
    cases rest with
    | nil => rfl
    | cons b bs => simp only [Radix.joinSlash, Match.joinSlash, ih]

/-! ### the captured values are positional, the names are the matched route's own (since the K01a repair) -/

theorem pushAllT_gen (s : List (Bytes × Bytes)) (o : SMap) (ov ps : List (Bytes × Bytes)) :
    pushAllT (⟨s, o⟩, ov) ps = (⟨s ++ ps.take (8 - s.length), o⟩, ov ++ ps.drop (8 - s.length)) := by
  induction ps generalizing s ov with
  | nil => simp [pushAllT]
  | cons a rest ih =>
    have hstep : pushAllT (⟨s, o⟩, ov) (a :: rest) = pushAllT (pushT (⟨s, o⟩, ov) a.1 a.2) rest := by simp [pushAllT]
    rw [hstep]
    unfold pushT
    by_cases hl : s.length < 8
    · simp only [hl, if_true]
      rw [ih]
      have h1 : 8 - s.length = (8 - (s ++ [(a.1, a.2)]).length) + 1 := by simp; omega
      rw [h1]
      simp
    · simp only [hl, if_false]
      rw [ih]
      have h1 : 8 - s.length = 0 := by omega
      simp [h1]

theorem renameSlots_zip (names : List Bytes) (ps : List (Bytes × Bytes)) (h : names.length = ps.length) :
    renameSlots names ps = names.zip (ps.map (·.2)) := by
  induction names generalizing ps with
  | nil =>
    cases ps with
    | nil => rfl
    | cons a rest => simp at h
  | cons n ns ih =>
    cases ps with
    | nil => simp at h
    | cons a rest =>
      obtain ⟨k, v⟩ := a
      simp only [List.length_cons, Nat.add_right_cancel_iff] at h
      simp [renameSlots, ih rest h]

theorem take_zip' {α β} (a : List α) (b : List β) (n : Nat) : (a.zip b).take n = (a.take n).zip (b.take n) := by
  unfold List.zip; exact List.take_zipWith

theorem drop_zip' {α β} (a : List α) (b : List β) (n : Nat) : (a.zip b).drop n = (a.drop n).zip (b.drop n) := by
  unfold List.zip; exact List.drop_zipWith

/-- **the K01a repair**: after `bindParamNames` the context is the one obtained by writing the captured
values under the leaf's own names -/
theorem bound_fresh (lf : Leaf) (ps : List (Bytes × Bytes)) (h : lf.names.length = ps.length) :
    boundCtx false lf (pushAllT (Ctx.fresh, []) ps) = pushAll Ctx.fresh (lf.names.zip (ps.map (·.2))) := by
  have hT := pushAllT_gen [] [] [] ps
  simp only [List.length_nil, Nat.sub_zero, List.nil_append] at hT
  have hfr : (Ctx.fresh, ([] : List (Bytes × Bytes))) = ((⟨[], []⟩ : Ctx), []) := rfl
  rw [hfr, hT, pushAll_fresh]
  simp only [boundCtx, Bool.false_eq_true, if_false, bindNames]
  have h8 : (lf.names.take 8).length = (ps.take 8).length := by simp [h]
  rw [renameSlots_zip _ _ h8]
  simp only [take_zip', drop_zip', List.map_take, List.map_drop, SMap.ofList]

theorem pushesFor_vals (ns : Nodes) (trail : Bool) (segs : List Bytes) :
    ∀ (cur : Key) (suf : Pat) (b : List (Bytes × Bytes)), matchPat trail suf segs = some b →
      (pushesFor ns trail cur suf segs).map (·.2) = b.map (·.2) := by
  induction segs with
  | nil =>
    intro cur suf b hm
    have h := matchPat_nil_segs trail suf (by rw [hm]; rfl)
    obtain ⟨rfl, rfl⟩ := h
    simp only [matchPat, Bool.false_eq_true, if_false, Option.some.injEq] at hm
    subst hm
    simp [pushesFor]
  | cons x rest ih =>
    intro cur suf b hmatch
    cases suf with
    | nil => simp [matchPat] at hmatch
    | cons a as =>
      cases a with
      | lit s =>
        have hsx : s = x := by
          cases as <;> simp only [matchPat] at hmatch <;> by_cases h : s = x <;> simp_all
        subst hsx
        have hm' : matchPat trail as rest = some b := by
          cases as <;> simpa [matchPat] using hmatch
        simp only [pushesFor]
        exact ih _ as b hm'
      | par n =>
        have hm' : ∃ b', matchPat trail as rest = some b' ∧ b = (n, x) :: b' := by
          cases hmm : matchPat trail as rest with
          | none => cases as <;> simp [matchPat, hmm] at hmatch
          | some b' =>
            refine ⟨b', rfl, ?_⟩
            cases as <;> simp [matchPat, hmm] at hmatch <;> exact hmatch.symm
        obtain ⟨b', hmb, rfl⟩ := hm'
        simp only [pushesFor, List.map_cons]
        rw [ih _ as b' hmb]
      | wild =>
        cases as with
        | cons c cs => simp [matchPat] at hmatch
        | nil =>
          simp only [matchPat, Option.some.injEq] at hmatch
          subst hmatch
          simp only [pushesFor, restOfPath, joinSlash_eq]
          rfl

theorem zip_fst_snd {α β} (b : List (α × β)) : (b.map (·.1)).zip (b.map (·.2)) = b := by
  induction b with
  | nil => rfl
  | cons a rest ih => simp [ih]

end Rivaas.RadixL
