import Rivaas.Lemmas.C15Misc
/-
Helper lemmas for C15, part 8: trailers.  The live header maps of the two runs agree on every key whose
value travels as a trailer (`Ag`), through every handler operation, the decision (`restoreHeader` /
`restoreTrailers`) and the end of the exchange.
-/
namespace Rivaas.C15
open Rivaas.Http Rivaas.Compress Rivaas.CompressSpec

/-- the live header maps of the two runs agree on every key whose value travels as a trailer -/
def Ag (w : CW) (p : Base) : Prop :=
  ∀ κ, isTrailerKey p.snap κ = true → hget w.base.live κ = hget p.live κ

theorem lemma_ag_of_eq (w : CW) (p : Base) (h : w.base.live = p.live) : Ag w p := by
  intro κ _; rw [h]

theorem lemma_writeHeader_live (b : Base) (c : Nat) : (b.writeHeader c).live = b.live := by
  unfold Base.writeHeader
  split
  · rfl
  · split
    · rfl
    · split <;> rfl

theorem lemma_emit_live (sn : Sniff) (b : Base) (p : Bytes) : (b.emit sn p).live = b.live := by
  unfold Base.emit; split <;> rfl

theorem lemma_emit_snap (sn : Sniff) (b : Base) (p : Bytes) : (b.emit sn p).snap = b.snap := by
  unfold Base.emit; split <;> rfl

theorem lemma_write_live (sn : Sniff) (b : Base) (d : Bytes) : (b.write sn d).1.live = b.live := by
  unfold Base.write
  simp only [apply_ite Prod.fst, apply_ite Base.live, lemma_emit_live, lemma_writeHeader_live, ite_self]

theorem lemma_flush_live (sn : Sniff) (b : Base) : (b.flush sn).live = b.live := by
  unfold Base.flush
  simp only [lemma_emit_live]
  split
  · rfl
  · exact lemma_writeHeader_live b 200

theorem lemma_write_snap_wrote (sn : Sniff) (b : Base) (d : Bytes) (hw : b.wrote = true) :
    (b.write sn d).1.snap = b.snap := by
  unfold Base.write
  simp only [hw, if_true, apply_ite Prod.fst, apply_ite Base.snap, lemma_emit_snap, ite_self]

theorem lemma_flush_snap_wrote (sn : Sniff) (b : Base) (hw : b.wrote = true) : (b.flush sn).snap = b.snap := by
  unfold Base.flush
  simp only [hw, if_true, lemma_emit_snap]

theorem lemma_cw_writeHeader_live (w : CW) (c : Nat) : (w.writeHeader c).base.live = w.base.live := by
  unfold CW.writeHeader
  simp only [apply_ite CW.base, apply_ite Base.live, lemma_writeHeader_live, ite_self]

theorem lemma_hget_filter_key (l : Hdrs) (q : Bytes → Bool) (k : Bytes) :
    hget (l.filter (fun kv => q kv.1)) k = if q k then hget l k else none := by
  induction l with
  | nil => simp [lemma_hget_nil]
  | cons a as ih =>
    by_cases ha : q a.1 = true
    · simp only [List.filter_cons, ha, if_true, lemma_hget_cons, ih]
      by_cases hk : a.1 = k
      · subst hk; simp [ha]
      · simp [hk]
    · have ha' : q a.1 = false := by simpa using ha
      simp only [List.filter_cons, ha', Bool.false_eq_true, if_false, lemma_hget_cons]
      by_cases hk : a.1 = k
      · subst hk; rw [ih]; simp [ha']
      · rw [ih]; simp [hk]

/-- what restoreTrailers leaves under a trailer key is what was taken aside -/
theorem lemma_restored_live (h cur old : Hdrs) (κ : Bytes) (hk : isTrailerKey h κ = true) :
    hget (cur.filter (fun kv => !isTrailerKey h kv.1) ++ old.filter (fun kv => isTrailerKey h kv.1)) κ = hget old κ := by
  rw [lemma_hget_append, lemma_hget_filter_key cur (fun k => !isTrailerKey h k),
    lemma_hget_filter_key old (fun k => isTrailerKey h k)]
  simp [hk]

theorem lemma_initCompression_trailers (w : CW) : w.initCompression.trailers = w.trailers := by
  unfold CW.initCompression
  simp only
  split <;> rfl

theorem lemma_restoreTrailers_live (w : CW) (h late : Hdrs) (ht : w.trailers = some (h, late)) :
    w.restoreTrailers.base.live = w.base.live.filter (fun kv => !isTrailerKey h kv.1) ++ late := by
  unfold CW.restoreTrailers
  rw [ht]

/-- the decision leaves, under every trailer key of the committed map, what the handler had put there -/
theorem lemma_start_live (sn : Sniff) (w : CW) (pending : Bytes) (c : Bool) (h : Hdrs)
    (hcm : w.committed = some h) (κ : Bytes) (hk : isTrailerKey h κ = true) :
    hget (w.start sn pending c).1.base.live κ = hget w.base.live κ := by
  unfold CW.start CW.restoreHeader
  simp only [hcm]
  repeat' split
  all_goals first
    | (simp only [lemma_write_live]
       rw [lemma_restoreTrailers_live _ h _ rfl]
       exact lemma_restored_live h _ _ κ hk)
    | (rw [lemma_restoreTrailers_live _ h _ rfl]
       exact lemma_restored_live h _ _ κ hk)
    | (simp only
       rw [lemma_restoreTrailers_live _ h _ (by rw [lemma_initCompression_trailers])]
       exact lemma_restored_live h _ _ κ hk)
    | (rw [lemma_restoreTrailers_live _ h _ (by rw [lemma_initCompression_trailers])]
       exact lemma_restored_live h _ _ κ hk)

theorem lemma_und_live (sn : Sniff) (w : CW) (p : Base) (h : UndRel sn w p) : w.base.live = p.live := by
  rw [(lemma_und_fields sn w p h).2.2.2.2]

theorem lemma_ag_setLive (w : CW) (p : Base) (f : Hdrs → Hdrs)
    (hf : ∀ a b κ, hget a κ = hget b κ → hget (f a) κ = hget (f b) κ) (h : Ag w p) :
    Ag { w with base := { w.base with live := f w.base.live } } { p with live := f p.live } := by
  intro κ hk
  exact hf _ _ κ (h κ hk)

theorem lemma_hset_pointwise (k : Bytes) (vs : List Bytes) (a b : Hdrs) (κ : Bytes) (h : hget a κ = hget b κ) :
    hget (hset a k vs) κ = hget (hset b k vs) κ := by
  rw [lemma_hget_hset, lemma_hget_hset, h]

theorem lemma_hdel_pointwise (k : Bytes) (a b : Hdrs) (κ : Bytes) (h : hget a κ = hget b κ) :
    hget (hdel a k) κ = hget (hdel b k) κ := by
  rw [lemma_hget_hdel, lemma_hget_hdel, h]

theorem lemma_live_pwrote (sn : Sniff) (w : CW) (p : Base) (h : Live sn w p) (hw : p.wrote = false) :
    w.base.live = p.live := by
  rcases h.1 with hu | hp | hc
  · exact lemma_und_live sn w p hu
  · rw [hp.pw] at hw; exact absurd hw (by simp)
  · rw [hc.1.pw] at hw; exact absurd hw (by simp)

theorem lemma_ag_writeHeader (sn : Sniff) (w : CW) (p : Base) (c : Nat) (h : Live sn w p) (ha : Ag w p) :
    Ag (w.writeHeader c) (p.writeHeader c) := by
  by_cases hw : p.wrote = true
  · rw [lemma_writeHeader_wrote p hw]
    intro κ hk
    rw [lemma_cw_writeHeader_live]; exact ha κ hk
  · have hw' : p.wrote = false := by simpa using hw
    apply lemma_ag_of_eq
    rw [lemma_cw_writeHeader_live, lemma_writeHeader_live]
    exact lemma_live_pwrote sn w p h hw'

theorem lemma_live_pwrote_true (sn : Sniff) (w : CW) (p : Base) (h : Live sn w p)
    (hst : UndRel sn w p → w.status ≠ 0) : p.wrote = true := by
  rcases h.1 with hu | hp | hc
  · exact (hu.st1 (hst hu)).1
  · exact hp.pw
  · exact hc.1.pw

/-- Ag only looks at the live map of the writer and at the live map and snapshot of the plain run -/
theorem lemma_ag_congr (w w' : CW) (p p' : Base) (h : Ag w p) (h1 : w'.base.live = w.base.live)
    (h2 : p'.live = p.live) (h3 : p'.snap = p.snap) : Ag w' p' := by
  intro κ hk
  rw [h1, h2]; rw [h3] at hk; exact h κ hk

theorem lemma_ag_write1 (sn : Sniff) (w : CW) (p : Base) (d : Bytes) (h : Live sn w p)
    (hst : UndRel sn w p → w.status ≠ 0) (ha : Ag w p) : Ag (w.write sn d).1 (p.write sn d).1 := by
  have hpw := lemma_live_pwrote_true sn w p h hst
  have hl := lemma_write_live sn p d
  have hs := lemma_write_snap_wrote sn p d hpw
  rcases h.1 with hu | hp | hc
  · have h1 := hst hu
    obtain ⟨hd, _, _, _, _⟩ := lemma_und_fields sn w p hu
    rw [lemma_cw_write_und sn w d hd h1]
    split
    · exact lemma_ag_congr w _ p _ ha rfl hl hs
    · intro κ hk
      rw [hs] at hk
      have hcm := (hu.st1 h1).2.2.2.2.1
      simp only
      rw [lemma_start_live sn w _ true p.snap hcm κ hk, hl]
      exact ha κ (by exact hk)
  · rw [lemma_cw_write_pas sn w d hp.d hp.c hp.hs]
    exact lemma_ag_congr w _ p _ ha (lemma_write_live sn w.base d) hl hs
  · rw [lemma_cw_write_cmp sn w d hc.1.d hc.1.c hc.1.hs]
    exact lemma_ag_congr w _ p _ ha rfl hl hs

theorem lemma_ag_flush1 (sn : Sniff) (w : CW) (p : Base) (h : Live sn w p)
    (hst : UndRel sn w p → w.status ≠ 0) (ha : Ag w p) : Ag (w.flush sn) (p.flush sn) := by
  have hpw := lemma_live_pwrote_true sn w p h hst
  have hl := lemma_flush_live sn p
  have hs := lemma_flush_snap_wrote sn p hpw
  rcases h.1 with hu | hp | hc
  · have h1 := hst hu
    obtain ⟨hd, _, _, _, _⟩ := lemma_und_fields sn w p hu
    rw [lemma_cw_flush_und sn w hd h1]
    intro κ hk
    rw [hs] at hk
    have hcm := (hu.st1 h1).2.2.2.2.1
    simp only [lemma_flush_live, hl]
    rw [lemma_start_live sn w _ _ p.snap hcm κ hk]
    exact ha κ hk
  · rw [lemma_cw_flush_pas sn w hp.d hp.c hp.hs]
    exact lemma_ag_congr w _ p _ ha (lemma_flush_live sn w.base) hl hs
  · rw [lemma_cw_flush_cmp sn w hc.1.d hc.1.c hc.1.hw hc.1.hs]
    exact lemma_ag_congr w _ p _ ha (lemma_flush_live sn w.base) hl hs

/-- Write in any live phase: the coupling and the trailer agreement together -/
theorem lemma_liveag_write (sn : Sniff) (w : CW) (p : Base) (d : Bytes) (h : Live sn w p ∧ Ag w p) :
    (Live sn (w.write sn d).1 (p.write sn d).1 ∧ Ag (w.write sn d).1 (p.write sn d).1) ∧
      (w.write sn d).2 = (p.write sn d).2 := by
  obtain ⟨hl, ha⟩ := h
  obtain ⟨r1, r2⟩ := lemma_live_write sn w p d hl
  refine ⟨⟨r1, ?_⟩, r2⟩
  obtain ⟨hl', hst, _⟩ := lemma_live_writeHeader sn w p 200 lemma_validC_200 hl
  have ha' := lemma_ag_writeHeader sn w p 200 hl ha
  rw [lemma_cw_write_norm, lemma_base_write_norm]
  exact lemma_ag_write1 sn _ _ d hl' (fun hu => hst (by decide) hu) ha'

theorem lemma_ag_flush (sn : Sniff) (w : CW) (p : Base) (hl : Live sn w p) (ha : Ag w p) :
    Ag (w.flush sn) (p.flush sn) := by
  obtain ⟨hl', hst, _⟩ := lemma_live_writeHeader sn w p 200 lemma_validC_200 hl
  have ha' := lemma_ag_writeHeader sn w p 200 hl ha
  rw [lemma_cw_flush_norm, lemma_base_flush_norm]
  exact lemma_ag_flush1 sn _ _ hl' (fun hu => hst (by decide) hu) ha'

/-- Close (the middleware's finalisation) keeps the agreement; the plain run is not involved -/
theorem lemma_ag_close (sn : Sniff) (w : CW) (p : Base) (hl : Live sn w p) (ha : Ag w p) :
    Ag (w.close sn) p := by
  rcases hl.1 with hu | hp | hc
  · obtain ⟨hd, _, _, _, _⟩ := lemma_und_fields sn w p hu
    by_cases h0 : w.status = 0
    · obtain ⟨nf, pp, st0, _⟩ := hu
      obtain ⟨hb, hcm, hpe⟩ := st0 h0
      have e : w.close sn = { w with decided := true, compress := false, buffer := [] } := by
        rw [nf]
        simp [CW.close, CW.start, CW.restoreHeader, CW.restoreTrailers, hcm, hb, h0]
      rw [e]
      exact lemma_ag_congr w _ p p ha rfl rfl rfl
    · rw [lemma_cw_close_und sn w hd]
      have hcm := (hu.st1 h0).2.2.2.2.1
      intro κ hk
      have := lemma_start_live sn w w.buffer (decide (w.buffer.length > 0) && decide (w.buffer.length ≥ w.thr)) p.snap hcm κ hk
      split
      · rw [this]; exact ha κ hk
      · split
        · simp only; rw [this]; exact ha κ hk
        · rw [this]; exact ha κ hk
  · rw [lemma_cw_close_decided sn w hp.d hp.c]; exact ha
  · rw [lemma_cw_close_cmp sn w hc.1.d hc.1.c hc.1.hw]
    exact lemma_ag_congr w _ p p ha rfl rfl rfl

/-! the operations after the restore: two base writers -/

def AgB (a b : Base) : Prop := ∀ κ, isTrailerKey b.snap κ = true → hget a.live κ = hget b.live κ

theorem lemma_copy_live (sn : Sniff) (cs : List Bytes) :
    ∀ (b : Base) (acc : Nat), (copyLoop (Base.write sn) b cs acc).1.live = b.live := by
  induction cs with
  | nil => intro b acc; rfl
  | cons c cs ih =>
    intro b acc
    unfold copyLoop
    simp only [apply_ite Prod.fst, apply_ite Base.live, ih, lemma_write_live, ite_self]

theorem lemma_copy_snap_wrote (sn : Sniff) (cs : List Bytes) :
    ∀ (b : Base) (acc : Nat), b.wrote = true → (copyLoop (Base.write sn) b cs acc).1.snap = b.snap := by
  induction cs with
  | nil => intro b acc _; rfl
  | cons c cs ih =>
    intro b acc hw
    unfold copyLoop
    have h1 := lemma_write_snap_wrote sn b c hw
    have h2 := ih (b.write sn c).1 (acc + (b.write sn c).2.n) (lemma_base_write_wrote sn b c hw)
    simp only [apply_ite Prod.fst, apply_ite Base.snap, ih b acc hw, h1, h2, ite_self]

theorem lemma_agb_step (sn : Sniff) (a b : Base) (o : Op) (hp : PassRel a b) (h : AgB a b) :
    AgB (plainStep sn a o).1 (plainStep sn b o).1 := by
  by_cases hw : b.wrote = false
  · have := lemma_pass_eq_of_unwritten a b hp hw
    subst this
    intro κ _; rfl
  · have hw' : b.wrote = true := by simpa using hw
    have haw : a.wrote = true := by rw [lemma_pass_wrote a b hp]; exact hw'
    cases o with
    | setH k vs =>
      intro κ hk
      exact lemma_hset_pointwise k vs _ _ κ (h κ hk)
    | delH k =>
      intro κ hk
      exact lemma_hdel_pointwise k _ _ κ (h κ hk)
    | writeHeader c =>
      simp only [plainStep]
      rw [lemma_writeHeader_wrote a haw, lemma_writeHeader_wrote b hw']; exact h
    | write d =>
      intro κ hk
      simp only [plainStep] at hk ⊢
      rw [lemma_write_snap_wrote sn b d hw'] at hk
      rw [lemma_write_live, lemma_write_live]; exact h κ hk
    | flush =>
      intro κ hk
      simp only [plainStep] at hk ⊢
      rw [lemma_flush_snap_wrote sn b hw'] at hk
      rw [lemma_flush_live, lemma_flush_live]; exact h κ hk
    | copy cs =>
      intro κ hk
      simp only [plainStep] at hk ⊢
      rw [lemma_copy_snap_wrote sn cs b 0 hw'] at hk
      rw [lemma_copy_live, lemma_copy_live]; exact h κ hk
    | panic => exact h

theorem lemma_step_ag (sn : Sniff) (seen : Bool) (w : CW) (p : Base) (o : Op) (hv : OpValid o)
    (h : Inv sn seen w p) (ha : Ag w p) : Ag (CW.step sn w o).1 (plainStep sn p o).1 := by
  rcases h with ⟨hl, _⟩ | hr
  · have hnr := lemma_live_restored sn w p hl
    cases o with
    | setH k vs =>
      have e : CW.step sn w (.setH k vs) = ({ w with base := { w.base with live := hset w.base.live k vs } }, none) := by
        simp [CW.step, hnr]
      rw [e]
      exact lemma_ag_setLive w p (fun l => hset l k vs) (fun a b κ hh => lemma_hset_pointwise k vs a b κ hh) ha
    | delH k =>
      have e : CW.step sn w (.delH k) = ({ w with base := { w.base with live := hdel w.base.live k } }, none) := by
        simp [CW.step, hnr]
      rw [e]
      exact lemma_ag_setLive w p (fun l => hdel l k) (fun a b κ hh => lemma_hdel_pointwise k a b κ hh) ha
    | writeHeader c =>
      have e : CW.step sn w (.writeHeader c) = (w.writeHeader c, none) := by simp [CW.step, hnr]
      rw [e]
      exact lemma_ag_writeHeader sn w p c hl ha
    | write d =>
      have e : CW.step sn w (.write d) = ((w.write sn d).1, some (w.write sn d).2) := by simp [CW.step, hnr]
      rw [e]
      exact (lemma_liveag_write sn w p d ⟨hl, ha⟩).1.2
    | flush =>
      have e : CW.step sn w .flush = (w.flush sn, none) := by simp [CW.step, hnr]
      rw [e]
      exact lemma_ag_flush sn w p hl ha
    | copy cs =>
      have e : CW.step sn w (.copy cs) = ((copyLoop (CW.write sn) w cs 0).1, some (copyLoop (CW.write sn) w cs 0).2) := by
        simp [CW.step, hnr]
      rw [e]
      exact (lemma_copyLoop_rel (fun w p => Live sn w p ∧ Ag w p) (CW.write sn) (Base.write sn)
        (fun s t d hst => lemma_liveag_write sn s t d hst) cs w p 0 ⟨hl, ha⟩).1.2
    | panic =>
      have e : CW.step sn w .panic = ({ w.close sn with restored := true }, none) := by simp [CW.step, hnr]
      rw [e]
      exact lemma_ag_congr (w.close sn) _ p p (lemma_ag_close sn w p hl ha) rfl rfl rfl
  · obtain ⟨hres, hc, rel⟩ := hr
    have e : CW.step sn w o = ({ w with base := (plainStep sn w.base o).1 }, (plainStep sn w.base o).2) := by
      simp [CW.step, hres]
    rw [e]
    exact lemma_agb_step sn w.base p o rel ha

theorem lemma_fold_ag (sn : Sniff) (ops : List Op) :
    ∀ (seen : Bool) (w : CW) (p : Base), (∀ o ∈ ops, OpValid o) → Safe seen ops → Inv sn seen w p → Ag w p →
      ∃ seen', Inv sn seen' (runOps (CW.step sn) w ops).1 (runOps (plainStep sn) p ops).1 ∧
        Ag (runOps (CW.step sn) w ops).1 (runOps (plainStep sn) p ops).1 := by
  induction ops with
  | nil => intro seen w p _ _ h ha; exact ⟨seen, h, ha⟩
  | cons o os ih =>
    intro seen w p hv hs h ha
    obtain ⟨hs1, hs2⟩ := hs
    have hvo := hv o (List.mem_cons_self ..)
    obtain ⟨r1, _⟩ := lemma_step sn seen w p o hvo hs1 h
    have ra := lemma_step_ag sn seen w p o hvo h ha
    simp only [runOps]
    exact ih _ _ _ (fun o' ho' => hv o' (List.mem_cons_of_mem _ ho')) hs2 r1 ra

theorem lemma_startsWith_append (p k : Bytes) : startsWith p (p ++ k) = true := by
  induction p with
  | nil => rfl
  | cons a as ih => simp [startsWith, ih]

theorem lemma_startsWith_eq (p s : Bytes) (h : startsWith p s = true) : s = p ++ s.drop p.length := by
  induction p generalizing s with
  | nil => simp
  | cons a as ih =>
    cases s with
    | nil => simp [startsWith] at h
    | cons b bs =>
      simp only [startsWith, Bool.and_eq_true, beq_iff_eq] at h
      obtain ⟨rfl, h2⟩ := h
      simp only [List.cons_append, List.length_cons, List.drop_succ_cons]
      rw [← ih bs h2]

/-- the trailers sent through `http.TrailerPrefix`, looked up by their real name -/
theorem lemma_hget_prefPart (l : Hdrs) (k : Bytes) :
    hget ((l.filter (fun kv => startsWith trailerPrefix kv.1)).map (fun kv => (kv.1.drop 8, kv.2))) k =
      hget l (trailerPrefix ++ k) := by
  induction l with
  | nil => simp [lemma_hget_nil]
  | cons a as ih =>
    by_cases hs : startsWith trailerPrefix a.1 = true
    · simp only [List.filter_cons, hs, if_true, List.map_cons, lemma_hget_cons, ih]
      have he := lemma_startsWith_eq trailerPrefix a.1 hs
      have hlen : trailerPrefix.length = 8 := by decide
      rw [hlen] at he
      have hdrop : ∀ x : Bytes, (trailerPrefix ++ x).drop 8 = x := by
        intro x; rw [← hlen]; simp
      by_cases hk : a.1.drop 8 = k
      · have : a.1 = trailerPrefix ++ k := by rw [← hk]; exact he
        simp [this, hdrop]
      · have : ¬ (a.1 = trailerPrefix ++ k) := by
          intro e
          apply hk
          rw [e]
          exact hdrop k
        simp [hk, this]
    · have hs' : startsWith trailerPrefix a.1 = false := by simpa using hs
      simp only [List.filter_cons, hs', Bool.false_eq_true, if_false, lemma_hget_cons, ih]
      have : ¬ (a.1 = trailerPrefix ++ k) := by
        intro e
        rw [e, lemma_startsWith_append] at hs'
        exact absurd hs' (by simp)
      simp [this]

/-- the announced trailers that have a value, looked up by name -/
theorem lemma_hget_declPart (names : List Bytes) (live : Hdrs) (k : Bytes) :
    hget (names.filterMap (fun k' => (nonEmptyVals (hget live k')).map (fun vs => (k', vs)))) k =
      if k ∈ names then nonEmptyVals (hget live k) else none := by
  induction names with
  | nil => simp [lemma_hget_nil]
  | cons n ns ih =>
    simp only [List.filterMap_cons, List.mem_cons]
    by_cases hn : n = k
    · subst hn
      cases hg : nonEmptyVals (hget live n) with
      | none => simp [ih, hg]
      | some vs => simp [lemma_hget_cons]
    · have hn' : ¬ (k = n) := fun e => hn e.symm
      cases hg : nonEmptyVals (hget live n) with
      | none => simp [ih, hn']
      | some vs => simp [lemma_hget_cons, hn, hn', ih]

/-- the value delivered under trailer name `k` when the response is chunked -/
def tlook (snap live : Hdrs) (k : Bytes) : Option (List Bytes) :=
  (if k ∈ announced snap then nonEmptyVals (hget live k) else none).or (hget live (trailerPrefix ++ k))

theorem lemma_hget_trailers (sn : Sniff) (b : Base) (e : Bool) (k : Bytes) :
    hget (b.trailersAtFinish sn e) k =
      if b.chunked sn e then tlook (b.finish sn).snap (b.finish sn).live k else none := by
  unfold Base.trailersAtFinish
  by_cases hc : b.chunked sn e = true
  · simp only [hc, Bool.not_true, Bool.false_eq_true, if_false, if_true]
    rw [lemma_hget_append, lemma_hget_declPart, lemma_hget_prefPart]
    rfl
  · have hc' : b.chunked sn e = false := by simpa using hc
    simp [hc', lemma_hget_nil]

theorem lemma_tlook_agree (snap l1 l2 : Hdrs)
    (h : ∀ κ, isTrailerKey snap κ = true → hget l1 κ = hget l2 κ) (k : Bytes) :
    tlook snap l1 k = tlook snap l2 k := by
  unfold tlook
  have h2 : hget l1 (trailerPrefix ++ k) = hget l2 (trailerPrefix ++ k) :=
    h _ (by simp [isTrailerKey, lemma_startsWith_append])
  rw [h2]
  by_cases hk : k ∈ announced snap
  · have h1 : hget l1 k = hget l2 k := h k (by simp [isTrailerKey, hk])
    simp [hk, h1]
  · simp [hk]

/-- the end of the exchange, as a relation between the middleware's final writer and the plain run -/
theorem lemma_close_state (sn : Sniff) (seen : Bool) (w : CW) (p : Base) (h : Inv sn seen w p) :
    ((if w.restored then w else w.close sn).compress = false ∧ PassRel (if w.restored then w else w.close sn).base p) ∨
    (∃ w', CmpCore sn w' p ∧ (if w.restored then w else w.close sn) = { w' with closed := true }) := by
  rcases h with ⟨hl, _⟩ | hr
  · have hnr := lemma_live_restored sn w p hl
    simp only [hnr, Bool.false_eq_true, if_false]
    obtain ⟨hrel, henc⟩ := hl
    rcases hrel with hu | hp | hcm
    · obtain ⟨hd, _, _, _, _⟩ := lemma_und_fields sn w p hu
      by_cases h0 : w.status = 0
      · obtain ⟨nf, pp, st0, _⟩ := hu
        obtain ⟨hb, hcm, hpe⟩ := st0 h0
        have e : w.close sn = { w with decided := true, compress := false, buffer := [] } := by
          rw [nf]
          simp [CW.close, CW.start, CW.restoreHeader, CW.restoreTrailers, hcm, hb, h0]
        rw [e]
        left
        refine ⟨rfl, ?_, fun _ => ?_⟩
        · simp only
          rw [nf, hpe]
        · simp only
          rw [nf]
      · rw [lemma_cw_close_und sn w hd]
        generalize (decide (w.buffer.length > 0) && decide (w.buffer.length ≥ w.thr)) = c
        by_cases hc : (c = true ∧ (hfirst p.snap kCE).isEmpty = true)
        · obtain ⟨hc1, hce⟩ := hc
          subst hc1
          obtain ⟨core, hok⟩ := lemma_start_und_cmp sn w p hu h0 hce henc
          generalize (w.start sn w.buffer true) = r at core hok ⊢
          have e1 : (r.2 != Err.ok) = false := by rw [hok]; rfl
          have e2 : (r.1.compress && r.1.hasWriter) = true := by rw [core.c, core.hw]; rfl
          simp only [e1, Bool.false_eq_true, if_false, e2, if_true]
          exact Or.inr ⟨r.1, core, rfl⟩
        · have hc' : c = false ∨ (hfirst p.snap kCE).isEmpty = false := by
            by_cases h1 : c = true
            · right
              by_cases h2 : (hfirst p.snap kCE).isEmpty = true
              · exact absurd ⟨h1, h2⟩ hc
              · simpa using h2
            · left; simpa using h1
          obtain ⟨pas, hok⟩ := lemma_start_und_pass sn w p c hu h0 hc'
          generalize (w.start sn w.buffer c) = r at pas hok ⊢
          have e1 : (r.2 != Err.ok) = false := by rw [hok]; rfl
          have e2 : (r.1.compress && r.1.hasWriter) = false := by rw [pas.c]; rfl
          simp only [e1, Bool.false_eq_true, if_false, e2]
          exact Or.inl ⟨pas.c, pas.rel⟩
    · rw [lemma_cw_close_decided sn w hp.d hp.c]
      exact Or.inl ⟨hp.c, hp.rel⟩
    · rw [lemma_cw_close_cmp sn w hcm.1.d hcm.1.c hcm.1.hw]
      exact Or.inr ⟨w, hcm.1, rfl⟩
  · obtain ⟨hres, hc, rel⟩ := hr
    simp only [hres, if_true]
    exact Or.inl ⟨hc, rel⟩

theorem lemma_chunked_wrote (sn : Sniff) (b : Base) (e : Bool) (hw : b.wrote = true) :
    b.chunked sn e = (!noBody b.status && !hhas b.snap kCL &&
      ((b.sent || e) || (!(announced b.snap).isEmpty || b.snap.any (fun kv => startsWith trailerPrefix kv.1)))) := by
  obtain ⟨_, f2, f3, _⟩ := lemma_base_flush_cases sn b hw
  unfold Base.chunked Base.finish
  rw [f2, f3]

theorem lemma_hget_cmpSnap_other (s : Hdrs) (T : Option Bytes) (enc k : Bytes)
    (h1 : k ≠ kCT) (h2 : k ≠ kCL) (h3 : k ≠ kCE) (h4 : k ≠ kVary) :
    hget (cmpSnap s T enc) k = hget s k := by
  unfold cmpSnap addCT
  rw [lemma_hget_hset, if_neg h4, lemma_hget_hset, if_neg h3, lemma_hget_hdel, if_neg h2]
  cases T with
  | none => rfl
  | some t => simp only; rw [lemma_hget_hset, if_neg h1]

theorem lemma_announced_cmpSnap (s : Hdrs) (T : Option Bytes) (enc : Bytes) :
    announced (cmpSnap s T enc) = announced s := by
  unfold announced
  rw [lemma_hget_cmpSnap_other s T enc kTrailer (by decide) (by decide) (by decide) (by decide)]

theorem lemma_hhas_cmpSnap_CL (s : Hdrs) (T : Option Bytes) (enc : Bytes) : hhas (cmpSnap s T enc) kCL = false := by
  rw [lemma_hhas_hget]
  unfold cmpSnap
  rw [lemma_hget_hset, if_neg (by decide), lemma_hget_hset, if_neg (by decide), lemma_hget_hdel, if_pos rfl]
  rfl

theorem lemma_hget_noprefix (l : Hdrs) (k : Bytes) (h : ∀ kv ∈ l, startsWith trailerPrefix kv.1 = false) :
    hget l (trailerPrefix ++ k) = none := by
  induction l with
  | nil => rfl
  | cons a as ih =>
    rw [lemma_hget_cons]
    have ha := h a (List.mem_cons_self ..)
    have : ¬ (a.1 = trailerPrefix ++ k) := by
      intro e; rw [e, lemma_startsWith_append] at ha; exact absurd ha (by simp)
    simp only [this, if_false]
    exact ih (fun kv hkv => h kv (List.mem_cons_of_mem _ hkv))

theorem lemma_tlook_announced (s1 s2 live : Hdrs) (k : Bytes) (h : announced s1 = announced s2) :
    tlook s1 live k = tlook s2 live k := by
  unfold tlook; rw [h]

end Rivaas.C15
