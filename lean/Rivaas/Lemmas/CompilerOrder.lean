import Rivaas.Lemmas.CompilerRC
import Rivaas.Spec.CompiledClass
/-
C11: order-theoretic and combinatorial facts behind "the compiled matcher found the reference route".
-/
namespace Rivaas.CompilerL
open Rivaas.Route Rivaas.Radix Rivaas.Compiler Rivaas.Match Rivaas.MatchL Rivaas.RadixL

/-- among patterns matching one path, two that do not beat each other have the same shape -/
theorem shapeEq_of_incomparable (trail : Bool) (segs : List Bytes) (a b : Pat)
    (ha : (matchPat trail a segs).isSome = true) (hb : (matchPat trail b segs).isSome = true)
    (hab : better a b = false) (hba : better b a = false) : shapeEq a b = true := by
  induction segs generalizing a b with
  | nil =>
    obtain ⟨rfl, _⟩ := matchPat_nil_segs trail a ha
    obtain ⟨rfl, _⟩ := matchPat_nil_segs trail b hb
    rfl
  | cons x xs ih =>
    rcases matchPat_cons_inv trail a x xs ha with rfl | ⟨ta, rfl, hta⟩ | ⟨na, ta, rfl, hta⟩ <;>
    rcases matchPat_cons_inv trail b x xs hb with rfl | ⟨tb, rfl, htb⟩ | ⟨nb, tb, rfl, htb⟩ <;>
    simp only [better, kind] at hab hba <;>
    first
      | rfl
      | (simp at hab; done)
      | (simp at hba; done)
      | (simp only [if_true] at hab hba; simp only [shapeEq, sameShape, Bool.true_and, decide_true]; exact ih ta tb hta htb hab hba)
      | (simp at hab hba; simp only [shapeEq, sameShape, Bool.true_and, decide_true]; exact ih ta tb hta htb hab hba)

/-- two patterns of one shape that are not the same pattern name some parameter differently -/
theorem names_differ (a b : Pat) (hs : shapeEq a b = true) (hne : a ≠ b) :
    ∃ (i : Nat) (n1 n2 : Bytes), prefixAgree i a b = true ∧ a[i]? = some (PSeg.par n1) ∧ b[i]? = some (PSeg.par n2) ∧ n1 ≠ n2 := by
  induction a generalizing b with
  | nil =>
    cases b with
    | nil => exact absurd rfl hne
    | cons y ys => simp [shapeEq] at hs
  | cons x xs ih =>
    cases b with
    | nil => simp [shapeEq] at hs
    | cons y ys =>
      simp only [shapeEq, Bool.and_eq_true] at hs
      by_cases hxy : x = y
      · subst hxy
        have hne' : xs ≠ ys := by intro e; subst e; exact hne rfl
        obtain ⟨i, n1, n2, hp, h1, h2, h3⟩ := ih ys hs.2 hne'
        exact ⟨i + 1, n1, n2, by simp [prefixAgree, hs.1, hp], by simpa using h1, by simpa using h2, h3⟩
      · cases x with
        | lit s =>
          cases y with
          | lit s' =>
            simp only [sameShape, decide_eq_true_eq] at hs
            exact absurd (by rw [hs.1]) hxy
          | par n => simp [sameShape] at hs
          | wild => simp [sameShape] at hs
        | par n =>
          cases y with
          | par n' =>
            refine ⟨0, n, n', by simp [prefixAgree], by simp, by simp, ?_⟩
            intro e; subst e; exact hxy rfl
          | lit s => simp [sameShape] at hs
          | wild => simp [sameShape] at hs
        | wild =>
          cases y with
          | wild => exact absurd rfl hxy
          | lit s => simp [sameShape] at hs
          | par n => simp [sameShape] at hs

/-- the position of an element in a list without duplicates is unique -/
theorem nodup_split_unique {α} (l1 l2 a b : List α) (x : α) (h : l1 ++ x :: l2 = a ++ x :: b)
    (hnd : (l1 ++ x :: l2).Nodup) : l1 = a ∧ l2 = b := by
  induction l1 generalizing a with
  | nil =>
    cases a with
    | nil => simp at h; exact ⟨rfl, h⟩
    | cons y ys =>
      simp only [List.nil_append, List.cons_append, List.cons.injEq] at h
      obtain ⟨rfl, h2⟩ := h
      simp only [List.nil_append, List.nodup_cons] at hnd
      exact absurd (by rw [h2]; simp) hnd.1
  | cons z zs ih =>
    cases a with
    | nil =>
      simp only [List.cons_append, List.nil_append, List.cons.injEq] at h
      obtain ⟨rfl, h2⟩ := h
      simp only [List.cons_append, List.nodup_cons] at hnd
      exact absurd (by simp) hnd.1
    | cons y ys =>
      simp only [List.cons_append, List.cons.injEq] at h
      obtain ⟨rfl, h2⟩ := h
      simp only [List.cons_append, List.nodup_cons] at hnd
      obtain ⟨h3, h4⟩ := ih ys h2 hnd.2
      exact ⟨by rw [h3], h4⟩

/-- route ids of the oracle's route list increase from `i` -/
theorem specRoutes_rids (script : List Reg) : ∀ (i : Nat) (R : List Route), specRoutesFrom i script = some R →
    (∀ r ∈ R, i ≤ r.rid) ∧ (R.map (·.rid)).Nodup := by
  induction script with
  | nil =>
    intro i R h
    simp only [specRoutesFrom, Option.some.injEq] at h
    subst h; simp
  | cons g gs ih =>
    intro i R h
    simp only [specRoutesFrom] at h
    cases hp : parsePattern (regText g) with
    | none => simp [hp] at h
    | some p =>
      cases hr : specRoutesFrom (i + 1) gs with
      | none => simp [hp, hr] at h
      | some rest =>
        simp only [hp, hr, Option.some.injEq] at h
        subst h
        obtain ⟨h1, h2⟩ := ih (i + 1) rest hr
        refine ⟨?_, ?_⟩
        · intro r hr'
          simp only [List.mem_cons] at hr'
          rcases hr' with rfl | hr'
          · exact Nat.le_refl _
          · exact Nat.le_of_succ_le (h1 r hr')
        · simp only [List.map_cons, List.nodup_cons]
          refine ⟨?_, h2⟩
          intro hm
          obtain ⟨r, hr', hrid⟩ := List.mem_map.mp hm
          have := h1 r hr'
          omega

theorem nodup_of_map {α β} (f : α → β) (l : List α) (h : (l.map f).Nodup) : l.Nodup := by
  induction l with
  | nil => simp
  | cons a rest ih =>
    simp only [List.map_cons, List.nodup_cons] at h ⊢
    exact ⟨fun hm => h.1 (List.mem_map.mpr ⟨a, hm, rfl⟩), ih h.2⟩

theorem specRoutes_nodup (script : List Reg) (R : List Route) (h : specRoutes script = some R) : R.Nodup :=
  nodup_of_map _ _ (specRoutes_rids script 0 R h).2

theorem bindGet_mem (b : List (Bytes × Bytes)) (hd : distinct (b.map (·.1)) = true) (n v : Bytes)
    (h : (n, v) ∈ b) : bindGet n b = some v := by
  induction b with
  | nil => simp at h
  | cons a rest ih =>
    obtain ⟨k, w⟩ := a
    simp only [List.map_cons, distinct, Bool.and_eq_true, Bool.not_eq_true'] at hd
    simp only [List.mem_cons, Prod.mk.injEq] at h
    rcases h with ⟨rfl, rfl⟩ | h
    · simp [bindGet]
    · have hne : ¬ k = n := by
        intro e; subst e
        have : k ∈ rest.map (·.1) := List.mem_map.mpr ⟨(k, v), h, rfl⟩
        have := List.contains_iff_mem.mpr this
        rw [this] at hd; exact absurd hd.1 (by simp)
      simp only [bindGet, hne, if_false]
      exact ih hd.2 h

/-- with declared constraint names the per-parameter check of the compiled matcher is the full check -/
theorem consOK_of_first (sat : Nat → Bytes → Bool) (cons : List (Bytes × Nat)) (b : List (Bytes × Bytes))
    (hdecl : ∀ c ∈ cons, c.1 ∈ b.map (·.1)) (hdist : distinct (b.map (·.1)) = true)
    (h : consFirstOK sat cons b = true) : consOK sat cons b = true := by
  unfold consOK
  rw [List.all_eq_true]
  intro c hc
  obtain ⟨n, cid⟩ := c
  simp only
  obtain ⟨kv, hkv, hk⟩ := List.mem_map.mp (hdecl (n, cid) hc)
  obtain ⟨k, v⟩ := kv
  simp only at hk
  subst hk
  rw [bindGet_mem b hdist k v hkv]
  unfold consFirstOK at h
  rw [List.all_eq_true] at h
  have := h (k, v) hkv
  simp only [List.all_eq_true] at this
  apply this cid
  simp only [consFor, Bool.false_eq_true, if_false, List.mem_map, List.mem_filter, decide_eq_true_eq]
  exact ⟨(k, cid), ⟨hc, rfl⟩, rfl⟩

/-- without a static hit and outside the `cfall` class, the reference choice is the best pattern match -/
theorem ref_is_rho (sat : Nat → Bytes → Bool) (R : List Route) (m : Bytes) (p : RPath)
    (hstat : staticHit R m p = false) (hC : dCfall1 sat R m p = false) (hc : cands sat R m p ≠ []) :
    ∃ ρ, rho R m p = some ρ ∧ refRoute sat R m p = some ρ := by
  have hcands := cands_eq sat R m p hstat
  have hSCm : ∀ c ∈ shapeCands R m p, (matchPat p.trail c.pat p.segs).isSome = true := by
    intro c hcm
    simp only [shapeCands, List.mem_filter] at hcm
    exact hcm.2
  have hSCne : shapeCands R m p ≠ [] := by
    intro e; rw [hcands, e] at hc; exact hc rfl
  cases hrho : rho R m p with
  | none => exact absurd (pick_none_nil _ hrho) hSCne
  | some ρ =>
    refine ⟨ρ, rfl, ?_⟩
    have hrho' : pick none (shapeCands R m p) = some ρ := hrho
    rcases pick_nec p.trail p.segs _ none ρ hSCm (by intro c hcc; cases hcc) hrho' with ⟨h, _⟩ | ⟨l1, l2, hl12, _, h1, h2⟩
    · cases h
    -- ρ passes its constraints, otherwise the request is in the `cfall` class
    have hany : (shapeCands R m p).any (fun r => (routeMatch sat r p).isSome) = true := by
      cases hcs : cands sat R m p with
      | nil => exact absurd hcs hc
      | cons a rest =>
        have ha : a ∈ (shapeCands R m p).filter fun r => (routeMatch sat r p).isSome := by
          rw [← hcands, hcs]; simp
        have := List.mem_filter.mp ha
        exact List.any_eq_true.mpr ⟨a, this.1, this.2⟩
    have hρm : (routeMatch sat ρ p).isSome = true := by
      cases hh : (routeMatch sat ρ p).isSome with
      | true => rfl
      | false =>
        exfalso
        have hnone : (routeMatch sat ρ p).isNone = true := by
          cases hr : routeMatch sat ρ p with
          | none => rfl
          | some b => rw [hr] at hh; simp at hh
        simp only [dCfall1, hstat, Bool.not_false, Bool.true_and, hrho, hnone, hany] at hC
        exact absurd hC (by simp)
    unfold refRoute
    rw [hcands, hl12, List.filter_append, List.filter_cons]
    simp only [hρm, if_true]
    apply pick_suff
    · intro c hcc; cases hcc
    · intro c hcc; exact h1 c (List.mem_filter.mp hcc).1
    · intro c hcc; exact h2 c (List.mem_filter.mp hcc).1

end Rivaas.CompilerL
