import Rivaas.Lemmas.C15Base
/-
Helper lemmas for C15, part 2: the coupling relation between the repaired compressWriter and the
plain run of the same handler program — one relation per phase (`UndRel` undecided, `PasRel`
passing through, `CmpRel` compressing, `RestRel` after the deferred restore) — and what the
decision (`start`) and the hold-back step do to it.
-/
namespace Rivaas.C15
open Rivaas.Http Rivaas.Compress

def AEv : Bytes := "Accept-Encoding".toList

def addCT (h : Hdrs) (T : Option Bytes) : Hdrs :=
  match T with
  | some t => hset h kCT [t]
  | none => h

/-- the header snapshot the middleware sends when it compresses -/
def cmpSnap (h : Hdrs) (T : Option Bytes) (enc : Bytes) : Hdrs :=
  hset (hset (hdel (addCT h T) kCL) kCE [enc]) kVary [AEv]

/-- undecided: nothing has reached the base writer; the plain run has the held-back bytes -/
structure UndRel (sn : Sniff) (w : CW) (p : Base) : Prop where
  nf : w = { base := { live := p.live }, thr := w.thr, enc := w.enc, exclCT := w.exclCT,
             buffer := w.buffer, committed := w.committed, status := w.status }
  pp : p.panicked = false
  st0 : w.status = 0 → w.buffer = [] ∧ w.committed = none ∧ p = { live := p.live }
  st1 : w.status ≠ 0 → p.wrote = true ∧ p.status = w.status ∧ noBody w.status = false ∧
        validCode w.status = true ∧ w.committed = some p.snap ∧ p.body = w.buffer ∧
        (if p.sent then 2048 < w.buffer.length ∧ p.pend = [] ∧ p.ctype = ctypeFor sn p.status p.snap w.buffer
         else p.pend = w.buffer ∧ p.ctype = none ∧ w.buffer.length ≤ 2048)

/-- decided, not compressing: the base writer is in the state of the plain run -/
structure PasRel (w : CW) (p : Base) : Prop where
  d : w.decided = true
  c : w.compress = false
  nr : w.restored = false
  hs : w.headersSent = true
  pw : p.wrote = true
  rel : PassRel w.base p

/-- compressing -/
structure CmpCore (sn : Sniff) (w : CW) (p : Base) : Prop where
  d : w.decided = true
  c : w.compress = true
  hw : w.hasWriter = true
  nr : w.restored = false
  hs : w.headersSent = true
  cl : w.closed = false
  encne : w.enc ≠ []
  bw : w.base.wrote = true
  bst : w.base.status = p.status
  pw : p.wrote = true
  nb : noBody p.status = false
  bb : w.base.body = []
  bct : w.base.ctype = none
  bpn : w.base.panicked = false
  pp : p.panicked = false
  pl : plainOf w.evs = p.body
  snapEq : ∃ T, w.base.snap = cmpSnap p.snap T w.enc ∧
    (if p.sent then p.ctype = T else ctypeFor sn p.status p.snap p.pend = T)

/-- compressing, between two handler operations: whatever the plain run still holds back is
    enough to fix the type it will sniff -/
def CmpRel (sn : Sniff) (w : CW) (p : Base) : Prop :=
  CmpCore sn w p ∧ (p.sent = false → hhas p.snap kCT = true ∨ 512 ≤ p.pend.length)

/-- after the deferred restore: the handler chain talks to the base writer -/
structure RestRel (w : CW) (p : Base) : Prop where
  r : w.restored = true
  c : w.compress = false
  rel : PassRel w.base p

def Rel (sn : Sniff) (w : CW) (p : Base) : Prop :=
  UndRel sn w p ∨ PasRel w p ∨ CmpRel sn w p ∨ RestRel w p

def validC (c : Nat) : Prop := validCode c = true ∧ c ≠ 101

theorem lemma_cw_writeHeader_idem (w : CW) (c : Nat) (h : w.headersSent = true ∨ w.status ≠ 0) :
    w.writeHeader c = w := by
  unfold CW.writeHeader
  rcases h with h | h
  · simp [h]
  · simp [h]

theorem lemma_implicitOK (w : CW) : w.implicitOK = w.writeHeader 200 := by
  unfold CW.implicitOK
  by_cases h : w.status = 0
  · by_cases h2 : w.headersSent = true
    · simp [h, h2, lemma_cw_writeHeader_idem w 200 (Or.inl h2)]
    · simp [h, h2]
  · simp [h, lemma_cw_writeHeader_idem w 200 (Or.inr h)]

theorem lemma_base_write_norm (sn : Sniff) (b : Base) (d : Bytes) :
    b.write sn d = (b.writeHeader 200).write sn d := by
  by_cases h : b.wrote = true
  · rw [lemma_writeHeader_wrote b h]
  · have h' : b.wrote = false := by simpa using h
    have h2 : (b.writeHeader 200).wrote = true := by
      simp [Base.writeHeader, h', validCode, informational]
    unfold Base.write
    simp [h', h2]

theorem lemma_base_flush_norm (sn : Sniff) (b : Base) :
    b.flush sn = (b.writeHeader 200).flush sn := by
  by_cases h : b.wrote = true
  · rw [lemma_writeHeader_wrote b h]
  · have h' : b.wrote = false := by simpa using h
    have h2 : (b.writeHeader 200).wrote = true := by
      simp [Base.writeHeader, h', validCode, informational]
    unfold Base.flush
    simp [h', h2]


theorem lemma_validC_props (c : Nat) (h : validC c) (hi : informational c = false) :
    c ≠ 0 ∧ 200 ≤ c ∧ validCode c = true := by
  obtain ⟨h1, h2⟩ := h
  simp only [validCode, Bool.and_eq_true, decide_eq_true_eq] at h1
  simp only [informational, Bool.and_eq_false_iff, decide_eq_false_iff_not, Bool.not_eq_eq_eq_not,
    Bool.not_true, bne_eq_false_iff_eq] at hi
  refine ⟨by omega, ?_, by simp [validCode]; omega⟩
  rcases hi with (hi | hi) | hi <;> omega

theorem lemma_noBody_of (c : Nat) (h200 : 200 ≤ c) (hs : shouldSkipStatus c = false) : noBody c = false := by
  simp only [shouldSkipStatus, Bool.or_eq_false_iff, beq_eq_false_iff_ne] at hs
  simp only [noBody, Bool.or_eq_false_iff, Bool.and_eq_false_iff, decide_eq_false_iff_not, beq_eq_false_iff_ne]
  refine ⟨⟨Or.inr (by omega), hs.1.1⟩, hs.1.2⟩

/-- WriteHeader in the undecided phase, before any status was recorded -/
theorem lemma_und_writeHeader0 (sn : Sniff) (w : CW) (p : Base) (c : Nat) (h : UndRel sn w p)
    (h0 : w.status = 0) (hc : validC c) :
    (UndRel sn (w.writeHeader c) (p.writeHeader c) ∧ (w.writeHeader c).buffer = w.buffer ∧
      (informational c = false → (w.writeHeader c).status ≠ 0)) ∨
    PasRel (w.writeHeader c) (p.writeHeader c) := by
  obtain ⟨nf, pp, st0, _⟩ := h
  obtain ⟨hb, hcm, hp⟩ := st0 h0
  by_cases hi : informational c = true
  · left
    have hv : validCode c = true := hc.1
    have e1 : w.writeHeader c = w := by
      rw [nf]; simp [CW.writeHeader, h0, hi, Base.writeHeader, hv]
    have e2 : p.writeHeader c = p := by
      rw [hp]; simp [Base.writeHeader, hi, hv]
    rw [e1, e2]
    refine ⟨⟨nf, pp, fun _ => ⟨hb, hcm, hp⟩, fun h => absurd h0 h⟩, rfl, fun h => (by simp [h] at hi)⟩
  · have hi' : informational c = false := by simpa using hi
    obtain ⟨hc0, h200, hv⟩ := lemma_validC_props c hc hi'
    have e2 : p.writeHeader c = { live := p.live, wrote := true, status := c, snap := p.live } := by
      rw [hp]; simp [Base.writeHeader, hi', hv]
    by_cases hsk : (shouldSkipStatus c || shouldSkipContentType (hfirst p.live kCT) w.exclCT) = true
    · right
      have e1 : w.writeHeader c = { w with status := c, compress := false, decided := true, base := { live := p.live, wrote := true, status := c, snap := p.live }, headersSent := true } := by
        rw [nf]; simp [CW.writeHeader, h0, hi', hsk, Base.writeHeader, hv]
      rw [e1, e2]
      refine ⟨rfl, rfl, ?_, rfl, rfl, ⟨rfl, fun _ => rfl⟩⟩
      rw [nf]
    · left
      have hsk' : (shouldSkipStatus c || shouldSkipContentType (hfirst p.live kCT) w.exclCT) = false := by
        simpa using hsk
      have e1 : w.writeHeader c = { w with status := c, committed := some p.live } := by
        rw [nf]; simp [CW.writeHeader, h0, hi', hsk']
      rw [e1, e2]
      refine ⟨⟨?_, rfl, fun h => absurd h hc0, fun _ => ?_⟩, rfl, fun _ => hc0⟩
      · conv => lhs; rw [nf]
      · have hss : shouldSkipStatus c = false := by
          simp only [Bool.or_eq_false_iff] at hsk'; exact hsk'.1
        refine ⟨rfl, rfl, lemma_noBody_of c h200 hss, hv, rfl, by simp [hb], ?_⟩
        simp [hb]

theorem lemma_start_buffer_irrel (sn : Sniff) (w : CW) (b' pending : Bytes) (c : Bool) :
    ({ w with buffer := b' } : CW).start sn pending c = w.start sn pending c := by
  unfold CW.start CW.restoreHeader CW.restoreTrailers CW.initCompression
  cases hcm : w.committed <;> simp [hcm] <;> split <;> simp

theorem lemma_informational_of_noBody (s : Nat) (h : noBody s = false) : informational s = false := by
  simp only [noBody, Bool.or_eq_false_iff, Bool.and_eq_false_iff, decide_eq_false_iff_not, beq_eq_false_iff_ne] at h
  simp only [informational, Bool.and_eq_false_iff, decide_eq_false_iff_not]
  rcases h.1.1 with h | h
  · exact Or.inl (Or.inl h)
  · exact Or.inl (Or.inr h)

/-- the decision, taken in the undecided phase after a status was recorded, not compressing -/
theorem lemma_start_und_pass (sn : Sniff) (w : CW) (p : Base) (c : Bool) (h : UndRel sn w p)
    (h1 : w.status ≠ 0) (hc : c = false ∨ (hfirst p.snap kCE).isEmpty = false) :
    PasRel (w.start sn w.buffer c).1 p ∧ (w.start sn w.buffer c).2 = .ok := by
  obtain ⟨nf, pp, _, st1⟩ := h
  obtain ⟨hpw, hps, hnb, hv, hcm, hbody, hsent⟩ := st1 h1
  clear st1
  have hinf := lemma_informational_of_noBody _ hnb
  have hcomp : (if !(hfirst p.snap kCE).isEmpty then false else c) = false := by
    rcases hc with hc | hc
    · simp [hc]
    · simp [hc]
  cases w with
  | mk base thr enc exclCT buffer committed trailers headersSent status decided compress hasWriter evs closed restored =>
    simp only [CW.mk.injEq, true_and, and_true] at nf
    obtain ⟨rfl, rfl, rfl, rfl, rfl, rfl, rfl, rfl, rfl⟩ := nf
    simp only at h1 hps hnb hv hcm hbody hsent
    subst hcm
    cases p with
    | mk live wrote pstatus snap sent ctype pend body panicked =>
      simp only at hpw hps hbody hsent pp hcomp hinf
      subst hpw; subst pp; subst hbody; subst hps
      unfold CW.start CW.restoreHeader CW.restoreTrailers
      simp only [hcomp]
      by_cases hbe : body = []
      · subst hbe
        have hs : sent = false := by
          by_cases hs : sent = true
          · simp [hs] at hsent
          · simpa using hs
        subst hs
        simp only [Bool.false_eq_true, if_false] at hsent
        obtain ⟨rfl, rfl, _⟩ := hsent
        simp [h1, Base.writeHeader, hv, hinf]
        refine ⟨rfl, rfl, rfl, rfl, rfl, ?_⟩
        simp [PassRel]
      · have hbe' : body.isEmpty = false := by
          cases body with
          | nil => exact absurd rfl hbe
          | cons x xs => rfl
        by_cases hs : sent = true
        · subst hs
          simp only [if_true] at hsent
          obtain ⟨hlen, rfl, rfl⟩ := hsent
          simp [h1, hbe', Base.writeHeader, hv, hinf, Base.write, hnb, hlen, Base.emit, ctypeFor]
          refine ⟨rfl, rfl, rfl, rfl, rfl, ?_⟩
          simp [PassRel]
        · have hs' : sent = false := by simpa using hs
          subst hs'
          simp only [Bool.false_eq_true, if_false] at hsent
          obtain ⟨rfl, rfl, hlen⟩ := hsent
          have hlen' : ¬ (2048 < pend.length) := by omega
          simp [h1, hbe', Base.writeHeader, hv, hinf, Base.write, hnb, hlen']
          refine ⟨rfl, rfl, rfl, rfl, rfl, ?_⟩
          simp [PassRel]

theorem lemma_plainOf_snoc_some (evs : List (Option Bytes)) (d : Bytes) :
    plainOf (evs ++ [some d]) = plainOf evs ++ d := by
  simp [plainOf, List.filterMap_append]

theorem lemma_plainOf_snoc_none (evs : List (Option Bytes)) :
    plainOf (evs ++ [none]) = plainOf evs := by
  simp [plainOf, List.filterMap_append]

/-- the decision, taken in the undecided phase after a status was recorded, compressing -/
theorem lemma_start_und_cmp (sn : Sniff) (w : CW) (p : Base) (h : UndRel sn w p)
    (h1 : w.status ≠ 0) (hce : (hfirst p.snap kCE).isEmpty = true) (henc : w.enc ≠ []) :
    CmpCore sn (w.start sn w.buffer true).1 p ∧ (w.start sn w.buffer true).2 = .ok := by
  obtain ⟨nf, pp, _, st1⟩ := h
  obtain ⟨hpw, hps, hnb, hv, hcm, hbody, hsent⟩ := st1 h1
  clear st1
  have hinf := lemma_informational_of_noBody _ hnb
  cases w with
  | mk base thr enc exclCT buffer committed trailers headersSent status decided compress hasWriter evs closed restored =>
    simp only [CW.mk.injEq, true_and] at nf
    obtain ⟨rfl, rfl, rfl, rfl, rfl, rfl, rfl, rfl, rfl⟩ := nf
    simp only at h1 hps hnb hv hcm hbody hsent henc
    subst hcm
    cases p with
    | mk live wrote pstatus snap sent ctype pend body panicked =>
      simp only at hpw hps hbody hsent pp hinf hce
      subst hpw; subst pp; subst hbody; subst hps
      unfold CW.start CW.restoreHeader CW.restoreTrailers CW.initCompression
      simp only [hce]
      let T : Option Bytes := if !hhas snap kCT && !body.isEmpty then some (sn (body.take 512)) else none
      have hT : ctypeFor sn pstatus snap body = T := by
        simp [ctypeFor, hnb, hce, T]
      by_cases hbe : body = []
      · subst hbe
        simp [Base.writeHeader, hv, hinf]
        refine ⟨rfl, rfl, rfl, rfl, rfl, rfl, henc, rfl, rfl, rfl, hnb, rfl, rfl, rfl, rfl, ?_, ?_⟩
        · simp [plainOf]
        · refine ⟨none, ?_, ?_⟩
          · rfl
          · by_cases hs : sent = true
            · simp [hs] at hsent
            · have hs' : sent = false := by simpa using hs
              subst hs'
              simp at hsent
              simp [hsent.1, ctypeFor]
      · have hbe' : body.isEmpty = false := by
          cases body with
          | nil => exact absurd rfl hbe
          | cons x xs => rfl
        simp [Base.writeHeader, hv, hinf, hbe']
        refine ⟨rfl, rfl, rfl, rfl, rfl, rfl, henc, rfl, rfl, rfl, hnb, rfl, rfl, rfl, rfl, ?_, ?_⟩
        · simp [plainOf]
        · refine ⟨T, ?_, ?_⟩
          · by_cases hct : hhas snap kCT = true
            · simp only [T, hct, hbe']
              rfl
            · have hct' : hhas snap kCT = false := by simpa using hct
              simp only [T, hct', hbe']
              rfl
          · by_cases hs : sent = true
            · subst hs
              simp only [if_true] at hsent
              simp only [if_true]
              rw [hsent.2.2, hT]
            · have hs' : sent = false := by simpa using hs
              subst hs'
              simp only [Bool.false_eq_true, if_false] at hsent
              simp only [Bool.false_eq_true, if_false]
              rw [hsent.1, hT]

/-- holding bytes back: the plain run takes them, the middleware's buffer grows -/
theorem lemma_und_hold (sn : Sniff) (w : CW) (p : Base) (d : Bytes) (h : UndRel sn w p) (h1 : w.status ≠ 0) :
    UndRel sn { w with buffer := w.buffer ++ d } (p.write sn d).1 ∧ (p.write sn d).2 = ⟨d.length, .ok⟩ ∧
      (p.write sn d).1.snap = p.snap := by
  obtain ⟨nf, pp, _, st1⟩ := h
  obtain ⟨hpw, hps, hnb, hv, hcm, hbody, hsent⟩ := st1 h1
  clear st1
  cases w with
  | mk base thr enc exclCT buffer committed trailers headersSent status decided compress hasWriter evs closed restored =>
    simp only [CW.mk.injEq, true_and] at nf
    obtain ⟨rfl, rfl, rfl, rfl, rfl, rfl, rfl, rfl, rfl⟩ := nf
    simp only at h1 hps hnb hv hcm hbody hsent
    subst hcm
    cases p with
    | mk live wrote pstatus snap sent ctype pend body panicked =>
      simp only at hpw hps hbody hsent pp
      subst hpw; subst pp; subst hbody; subst hps
      show UndRel sn { base := { live := live }, thr := thr, enc := enc, exclCT := exclCT, buffer := body ++ d, committed := some snap, status := pstatus } _ ∧ _
      by_cases hde : d = []
      · subst hde
        have e : (Base.write sn { live := live, wrote := true, status := pstatus, snap := snap, sent := sent, ctype := ctype, pend := pend, body := body } []) = ({ live := live, wrote := true, status := pstatus, snap := snap, sent := sent, ctype := ctype, pend := pend, body := body }, ⟨0, .ok⟩) := by
          simp [Base.write]
        rw [e]
        simp only [List.append_nil, List.length_nil]
        refine ⟨⟨rfl, rfl, fun h => absurd h h1, fun _ => ⟨by trivial, by trivial, hnb, hv, by trivial, by trivial, hsent⟩⟩, by trivial, by trivial⟩
      · have hde' : d.isEmpty = false := by
          cases d with
          | nil => exact absurd rfl hde
          | cons x xs => rfl
        have hdl : 0 < d.length := by
          cases d with
          | nil => exact absurd rfl hde
          | cons x xs => simp
        by_cases hs : sent = true
        · subst hs
          simp only [if_true] at hsent
          obtain ⟨hlen, rfl, rfl⟩ := hsent
          have e : (Base.write sn { live := live, wrote := true, status := pstatus, snap := snap, sent := true, ctype := ctypeFor sn pstatus snap body, pend := [], body := body } d) = ({ live := live, wrote := true, status := pstatus, snap := snap, sent := true, ctype := ctypeFor sn pstatus snap body, pend := [], body := body ++ d }, ⟨d.length, .ok⟩) := by
            simp [Base.write, hde', hnb]
          rw [e]
          refine ⟨⟨rfl, rfl, fun h => absurd h h1, fun _ => ⟨by trivial, by trivial, hnb, hv, by trivial, by trivial, ?_⟩⟩, by trivial, by trivial⟩
          simp only [if_true]
          refine ⟨by simp only [List.length_append]; omega, by trivial, ?_⟩
          exact (lemma_ctypeFor_append sn pstatus snap body d (Or.inr (by omega))).symm
        · have hs' : sent = false := by simpa using hs
          subst hs'
          simp only [Bool.false_eq_true, if_false] at hsent
          obtain ⟨rfl, rfl, hlen⟩ := hsent
          by_cases ho : pend.length + d.length > 2048
          · have e : (Base.write sn { live := live, wrote := true, status := pstatus, snap := snap, sent := false, ctype := none, pend := pend, body := pend } d) = ({ live := live, wrote := true, status := pstatus, snap := snap, sent := true, ctype := ctypeFor sn pstatus snap (pend ++ d), pend := [], body := pend ++ d }, ⟨d.length, .ok⟩) := by
              simp [Base.write, hde', hnb, ho, Base.emit, ctypeFor]
            rw [e]
            refine ⟨⟨rfl, rfl, fun h => absurd h h1, fun _ => ⟨by trivial, by trivial, hnb, hv, by trivial, by trivial, ?_⟩⟩, by trivial, by trivial⟩
            simp only [if_true]
            exact ⟨by simp only [List.length_append]; omega, by trivial, by trivial⟩
          · have e : (Base.write sn { live := live, wrote := true, status := pstatus, snap := snap, sent := false, ctype := none, pend := pend, body := pend } d) = ({ live := live, wrote := true, status := pstatus, snap := snap, sent := false, ctype := none, pend := pend ++ d, body := pend ++ d }, ⟨d.length, .ok⟩) := by
              simp [Base.write, hde', hnb, ho]
            rw [e]
            refine ⟨⟨rfl, rfl, fun h => absurd h h1, fun _ => ⟨by trivial, by trivial, hnb, hv, by trivial, by trivial, ?_⟩⟩, by trivial, by trivial⟩
            simp only [Bool.false_eq_true, if_false]
            exact ⟨by trivial, by trivial, by simp only [List.length_append]; omega⟩

end Rivaas.C15
