import Rivaas.Lemmas.C15Step
/-
Helper lemmas for C15, part 4: header operations, io.Copy, the deferred finalisation after a handler
panic, the operations after the restore, and the fold of the coupling invariant `Inv` over a whole
handler program (`lemma_fold`).
-/
namespace Rivaas.C15
open Rivaas.Http Rivaas.Compress

/-- a header operation (it only touches the live map, on both sides) -/
theorem lemma_live_setLive (sn : Sniff) (w : CW) (p : Base) (f : Hdrs → Hdrs) (h : Live sn w p) :
    Live sn { w with base := { w.base with live := f w.base.live } } { p with live := f p.live } := by
  obtain ⟨hrel, henc⟩ := h
  refine ⟨?_, henc⟩
  rcases hrel with hu | hp | hcm
  · left
    obtain ⟨nf, pp, st0, st1⟩ := hu
    have hb : w.base = { live := p.live } := by rw [nf]
    refine ⟨?_, pp, ?_, ?_⟩
    · simp only [hb]
      conv => lhs; rw [nf]
    · intro h0
      obtain ⟨a, b, c⟩ := st0 h0
      refine ⟨a, b, ?_⟩
      rw [c]
    · intro h1
      exact st1 h1
  · right; left
    obtain ⟨hd, hc, nr, hs, pw, rel⟩ := hp
    refine ⟨hd, hc, nr, hs, pw, ?_, ?_⟩
    · obtain ⟨r1, _⟩ := rel
      simp only
      conv => lhs; rw [r1]
    · intro hw
      simp only at hw
      rw [pw] at hw; exact absurd hw (by simp)
  · right; right
    obtain ⟨core, stab⟩ := hcm
    obtain ⟨hd, hc, hw, nr, hs, cl, encne, bw, bst, pw, nb, bb, bct, bpn, pp, pl, T, hsnap, hT⟩ := core
    exact ⟨⟨hd, hc, hw, nr, hs, cl, encne, bw, bst, pw, nb, bb, bct, bpn, pp, pl, T, hsnap, hT⟩, stab⟩

/-- io.Copy over two writers that stay related and return the same results -/
theorem lemma_copyLoop_rel {σ τ : Type} (R : σ → τ → Prop) (f : σ → Bytes → σ × WOut) (g : τ → Bytes → τ × WOut)
    (hstep : ∀ s t d, R s t → R (f s d).1 (g t d).1 ∧ (f s d).2 = (g t d).2) :
    ∀ (cs : List Bytes) (s : σ) (t : τ) (acc : Nat), R s t →
      R (copyLoop f s cs acc).1 (copyLoop g t cs acc).1 ∧ (copyLoop f s cs acc).2 = (copyLoop g t cs acc).2 := by
  intro cs
  induction cs with
  | nil => intro s t acc h; exact ⟨h, rfl⟩
  | cons c cs ih =>
    intro s t acc h
    unfold copyLoop
    by_cases hc : c.isEmpty = true
    · simp only [hc, if_true]
      exact ih s t acc h
    · have hc' : c.isEmpty = false := by simpa using hc
      simp only [hc', Bool.false_eq_true, if_false]
      obtain ⟨h1, h2⟩ := hstep s t c h
      rw [h2]
      by_cases c1 : (g t c).2.n > c.length
      · simp only [c1, if_true]
        exact ⟨h1, trivial⟩
      · simp only [c1, if_false]
        by_cases c2 : ((g t c).2.err != Err.ok) = true
        · simp only [c2, if_true]
          exact ⟨h1, trivial⟩
        · have c2' : ((g t c).2.err != Err.ok) = false := by simpa using c2
          simp only [c2', Bool.false_eq_true, if_false]
          by_cases c3 : ((g t c).2.n != c.length) = true
          · simp only [c3, if_true]
            exact ⟨h1, trivial⟩
          · have c3' : ((g t c).2.n != c.length) = false := by simpa using c3
            simp only [c3', Bool.false_eq_true, if_false]
            exact ih _ _ _ h1

theorem lemma_live_restored (sn : Sniff) (w : CW) (p : Base) (h : Live sn w p) : w.restored = false := by
  rcases h.1 with hu | hp | hcm
  · exact (lemma_und_fields sn w p hu).2.2.1
  · exact hp.nr
  · exact hcm.1.nr

theorem lemma_cw_close_decided (sn : Sniff) (w : CW) (hd : w.decided = true) (hc : w.compress = false) :
    w.close sn = w := by
  unfold CW.close
  simp [hd, hc]

/-- the deferred finalisation after a handler panic that came before any body operation -/
theorem lemma_live_panic (sn : Sniff) (w : CW) (p : Base) (h : Live sn w p) (nb : NoBodyYet w) :
    RestRel { w.close sn with restored := true } p := by
  obtain ⟨hrel, henc⟩ := h
  rcases hrel with hu | hp | hcm
  · obtain ⟨hd, _, _, _, _⟩ := lemma_und_fields sn w p hu
    have hb := nb.2 hd
    by_cases h0 : w.status = 0
    · obtain ⟨nf, pp, st0, _⟩ := hu
      obtain ⟨_, hcm, hp⟩ := st0 h0
      have e : w.close sn = { w with decided := true, compress := false, buffer := [] } := by
        rw [nf]
        simp [CW.close, CW.start, CW.restoreHeader, CW.restoreTrailers, hcm, hb, h0]
      rw [e]
      refine ⟨rfl, rfl, ?_, ?_⟩
      · simp only
        rw [nf, hp]
      · intro _
        simp only
        rw [nf]
    · have e : w.close sn = (w.start sn w.buffer false).1 := by
        obtain ⟨pas, hok⟩ := lemma_start_und_pass sn w p false hu h0 (Or.inl rfl)
        unfold CW.close
        simp only [hd, hb, List.length_nil, Nat.lt_irrefl, decide_false, Bool.false_and, Bool.not_false, if_true]
        rw [← hb, hok]
        simp [pas.c]
      rw [e]
      obtain ⟨pas, _⟩ := lemma_start_und_pass sn w p false hu h0 (Or.inl rfl)
      exact ⟨rfl, pas.c, pas.rel⟩
  · rw [lemma_cw_close_decided sn w hp.d hp.c]
    exact ⟨rfl, hp.c, hp.rel⟩
  · have := hcm.1.c
    rw [nb.1] at this
    exact absurd this (by simp)

theorem lemma_pass_setLive (a b : Base) (f : Hdrs → Hdrs) (h : PassRel a b) :
    PassRel { a with live := f a.live } { b with live := f b.live } := by
  obtain ⟨h1, h2⟩ := h
  refine ⟨?_, ?_⟩
  · simp only
    conv => lhs; rw [h1]
  · intro hw
    simp only at hw ⊢
    rw [h2 hw]

/-- any operation on two base writers that agree apart from a dead live map -/
theorem lemma_pass_step (sn : Sniff) (a b : Base) (o : Op) (h : PassRel a b) :
    PassRel (plainStep sn a o).1 (plainStep sn b o).1 ∧ (plainStep sn a o).2 = (plainStep sn b o).2 := by
  cases o with
  | setH k vs => exact ⟨lemma_pass_setLive a b (fun l => hset l k vs) h, rfl⟩
  | delH k => exact ⟨lemma_pass_setLive a b (fun l => hdel l k) h, rfl⟩
  | writeHeader c => exact ⟨lemma_pass_writeHeader a b c h, rfl⟩
  | write d =>
    obtain ⟨r1, r2⟩ := lemma_pass_write sn a b d h
    exact ⟨r1, by simp only [plainStep, r2]⟩
  | flush => exact ⟨lemma_pass_flush sn a b h, rfl⟩
  | copy cs =>
    obtain ⟨r1, r2⟩ := lemma_copyLoop_rel PassRel (Base.write sn) (Base.write sn)
      (fun s t d hst => lemma_pass_write sn s t d hst) cs a b 0 h
    exact ⟨r1, by simp only [plainStep, r2]⟩
  | panic => exact ⟨h, rfl⟩

def isBodyOp : Op → Bool
  | .write _ => true
  | .copy _ => true
  | .flush => true
  | _ => false

/-- status codes the base writer accepts as a response status or as an informational response
    (net/http panics outside 100..999; 101 is a protocol switch, which goes through Hijack) -/
def OpValid : Op → Prop
  | .writeHeader c => validC c
  | _ => True

/-- the coupling invariant of the whole exchange; `seen` = a body operation has happened -/
def Inv (sn : Sniff) (seen : Bool) (w : CW) (p : Base) : Prop :=
  (Live sn w p ∧ (seen = false → NoBodyYet w)) ∨ RestRel w p

theorem lemma_step (sn : Sniff) (seen : Bool) (w : CW) (p : Base) (o : Op) (hv : OpValid o)
    (hpn : o = Op.panic → seen = false) (h : Inv sn seen w p) :
    Inv sn (seen || isBodyOp o) (CW.step sn w o).1 (plainStep sn p o).1 ∧
      (CW.step sn w o).2 = (plainStep sn p o).2 := by
  rcases h with ⟨hl, hnb⟩ | hr
  · have hnr := lemma_live_restored sn w p hl
    cases o with
    | setH k vs =>
      have e : CW.step sn w (.setH k vs) = ({ w with base := { w.base with live := hset w.base.live k vs } }, none) := by
        simp [CW.step, hnr]
      rw [e]
      refine ⟨Or.inl ⟨lemma_live_setLive sn w p (fun l => hset l k vs) hl, ?_⟩, rfl⟩
      intro hs
      simp only [isBodyOp, Bool.or_false] at hs
      exact hnb hs
    | delH k =>
      have e : CW.step sn w (.delH k) = ({ w with base := { w.base with live := hdel w.base.live k } }, none) := by
        simp [CW.step, hnr]
      rw [e]
      refine ⟨Or.inl ⟨lemma_live_setLive sn w p (fun l => hdel l k) hl, ?_⟩, rfl⟩
      intro hs
      simp only [isBodyOp, Bool.or_false] at hs
      exact hnb hs
    | writeHeader c =>
      have e : CW.step sn w (.writeHeader c) = (w.writeHeader c, none) := by simp [CW.step, hnr]
      rw [e]
      obtain ⟨r1, _, r3⟩ := lemma_live_writeHeader sn w p c hv hl
      refine ⟨Or.inl ⟨r1, ?_⟩, rfl⟩
      intro hs
      simp only [isBodyOp, Bool.or_false] at hs
      exact r3 (hnb hs)
    | write d =>
      have e : CW.step sn w (.write d) = ((w.write sn d).1, some (w.write sn d).2) := by simp [CW.step, hnr]
      rw [e]
      obtain ⟨r1, r2⟩ := lemma_live_write sn w p d hl
      refine ⟨Or.inl ⟨r1, ?_⟩, by simp only [plainStep, r2]⟩
      intro hs; simp [isBodyOp] at hs
    | flush =>
      have e : CW.step sn w .flush = (w.flush sn, none) := by simp [CW.step, hnr]
      rw [e]
      refine ⟨Or.inl ⟨lemma_live_flush sn w p hl, ?_⟩, rfl⟩
      intro hs; simp [isBodyOp] at hs
    | copy cs =>
      have e : CW.step sn w (.copy cs) = ((copyLoop (CW.write sn) w cs 0).1, some (copyLoop (CW.write sn) w cs 0).2) := by
        simp [CW.step, hnr]
      rw [e]
      obtain ⟨r1, r2⟩ := lemma_copyLoop_rel (Live sn) (CW.write sn) (Base.write sn)
        (fun s t d hst => lemma_live_write sn s t d hst) cs w p 0 hl
      refine ⟨Or.inl ⟨r1, ?_⟩, by simp only [plainStep, r2]⟩
      intro hs; simp [isBodyOp] at hs
    | panic =>
      have e : CW.step sn w .panic = ({ w.close sn with restored := true }, none) := by simp [CW.step, hnr]
      rw [e]
      have hs := hpn rfl
      exact ⟨Or.inr (lemma_live_panic sn w p hl (hnb hs)), rfl⟩
  · obtain ⟨hres, hc, rel⟩ := hr
    have e : CW.step sn w o = ({ w with base := (plainStep sn w.base o).1 }, (plainStep sn w.base o).2) := by
      simp [CW.step, hres]
    rw [e]
    obtain ⟨r1, r2⟩ := lemma_pass_step sn w.base p o rel
    exact ⟨Or.inr ⟨hres, hc, r1⟩, r2⟩

/-- no panic after a body operation (the complement of the open finding's class) -/
def Safe : Bool → List Op → Prop
  | _, [] => True
  | seen, o :: os => (o = Op.panic → seen = false) ∧ Safe (seen || isBodyOp o) os

theorem lemma_fold (sn : Sniff) (ops : List Op) :
    ∀ (seen : Bool) (w : CW) (p : Base), (∀ o ∈ ops, OpValid o) → Safe seen ops → Inv sn seen w p →
      (∃ seen', Inv sn seen' (runOps (CW.step sn) w ops).1 (runOps (plainStep sn) p ops).1) ∧
      (runOps (CW.step sn) w ops).2 = (runOps (plainStep sn) p ops).2 := by
  induction ops with
  | nil => intro seen w p _ _ h; exact ⟨⟨seen, h⟩, rfl⟩
  | cons o os ih =>
    intro seen w p hv hs h
    obtain ⟨hs1, hs2⟩ := hs
    obtain ⟨r1, r2⟩ := lemma_step sn seen w p o (hv o (List.mem_cons_self ..)) hs1 h
    obtain ⟨i1, i2⟩ := ih _ _ _ (fun o' ho' => hv o' (List.mem_cons_of_mem _ ho')) hs2 r1
    simp only [runOps]
    exact ⟨i1, by rw [r2, i2]⟩

end Rivaas.C15
