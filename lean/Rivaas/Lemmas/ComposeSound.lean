import Rivaas.Lemmas.ComposeLookup
/-
Soundness of the composition model against the level oracle, for scripts without `Mount`:
`Rivaas.Compose.compose_admitted_nomount`. Method: `W script t` is the model world after the first
`t` ops; invariants describe every object of `W script t` by look-ups into the *whole* script
bounded by time `t` (so no stability-under-extension lemmas are needed).
-/
namespace Rivaas.Compose

/-! ### prefix worlds -/

def W (script : List Op) (t : Nat) : World := build (script.take t)

theorem W_zero (script : List Op) : W script 0 = {} := by
  show build (script.take 0) = {}
  rw [List.take_zero]; rfl

theorem W_succ (script : List Op) (t : Nat) (h : t < script.length) :
    W script (t + 1) = apply (W script t) script[t] := by
  unfold W build
  rw [List.take_add_one, List.getElem?_eq_getElem h, Option.toList_some, List.foldl_append]
  rfl

theorem W_full (script : List Op) : W script script.length = build script := by
  unfold W; rw [List.take_length]

/-! ### `modifyAt` -/

theorem modifyAt_length {α} (l : List α) (i : Nat) (f : α → α) : (modifyAt l i f).length = l.length := by
  induction l generalizing i with
  | nil => rfl
  | cons a r ih => cases i <;> simp [modifyAt, ih]

theorem modifyAt_getElem? {α} (l : List α) (i j : Nat) (f : α → α) :
    (modifyAt l i f)[j]? = if i = j then l[j]?.map f else l[j]? := by
  induction l generalizing i j with
  | nil => simp [modifyAt]
  | cons a r ih =>
    cases i with
    | zero => cases j <;> simp [modifyAt]
    | succ i =>
      cases j with
      | zero => simp [modifyAt]
      | succ j => simp [modifyAt, ih]

/-! ### middleware attached before time `t` -/

def usesB (script : List Op) (sel : Op → Option (List Hid)) (t : Nat) : List Hid :=
  ((script.take t).filterMap sel).flatten

theorem usesB_succ (script : List Op) (sel : Op → Option (List Hid)) (t : Nat) (h : t < script.length) :
    usesB script sel (t + 1) = usesB script sel t ++ (sel script[t]).getD [] := by
  simp only [usesB, List.take_add_one, List.getElem?_eq_getElem h, Option.toList_some, List.filterMap_append,
    List.flatten_append]
  cases hs : sel script[t] <;> simp [hs]

theorem usesB_zero (script : List Op) (sel : Op → Option (List Hid)) : usesB script sel 0 = [] := by
  simp [usesB]

theorem splitAt_fst (script : List Op) (sel : Op → Option (List Hid)) (t : Nat) :
    (splitAt script sel t).1 = usesB script sel t := by
  rw [splitAt_eq]; rfl

/-- `r.Use` / `app.Use` selector of `routerLevel` -/
def selUse (r : Nat) : Op → Option (List Hid) := fun op =>
  match op with
  | .use r' hs => if r' = r then some hs else none
  | .ause hs => if r = 0 then some hs else none
  | _ => none

theorem routerLevel_eq (script : List Op) (r t : Nat) : routerLevel script r t = splitAt script (selUse r) t := rfl

/-! ### group classes: model side -/

/-- a group class as the model stores it -/
structure MClass where
  C : GClass
  get : World → List GroupSt
  /-- the `owner` field the model stores for a root group of the class -/
  rootOwner : World → Op → Nat

/-- how `apply` acts on the objects of the class, and that the class's op kinds are disjoint -/
structure MClass.Ok (M : MClass) : Prop where
  law : ∀ (w : World) (op : Op),
    M.get (apply w op) =
      match M.C.root op with
      | some (pre, hs) => M.get w ++ [{ owner := M.rootOwner w op, pre := pre, mw := hs }]
      | none =>
        match M.C.sub op with
        | some (p, seg, hs) =>
          (match (M.get w)[p]? with
           | some ps => M.get w ++ [{ owner := ps.owner, pre := ps.pre ++ [seg], mw := ps.mw ++ hs }]
           | none => M.get w)
        | none =>
          match M.C.useOp op with
          | some (g, hs) => modifyAt (M.get w) g fun x => { x with mw := x.mw ++ hs }
          | none => M.get w
  isC_iff : ∀ op, M.C.isC op = ((M.C.root op).isSome || (M.C.sub op).isSome)
  root_not_sub : ∀ op, (M.C.root op).isSome → M.C.sub op = none
  create_not_use : ∀ op, M.C.isC op = true → M.C.useOp op = none
  init : M.get {} = []

/-- the script only refers to objects of the class that exist already -/
def MClass.WF (M : MClass) (script : List Op) : Prop :=
  ∀ t op, script[t]? = some op →
    (∀ p seg hs, M.C.sub op = some (p, seg, hs) → p < cnt M.C.isC script t) ∧
    (∀ g hs, M.C.useOp op = some (g, hs) → g < cnt M.C.isC script t)

theorem useSel_eq (C : GClass) (g : Nat) (op : Op) :
    C.useSel g op = match C.useOp op with
      | some (g', hs) => if g' = g then some hs else none
      | none => none := rfl

/-- nothing was attached to a group before it existed -/
theorem usesB_future_nil (M : MClass) (script : List Op) (hwf : M.WF script) (g t : Nat)
    (hg : cnt M.C.isC script t ≤ g) : usesB script (M.C.useSel g) t = [] := by
  induction t with
  | zero => exact usesB_zero _ _
  | succ t ih =>
    rcases Nat.lt_or_ge t script.length with ht | ht
    · rw [usesB_succ _ _ _ ht, ih (Nat.le_trans (cnt_mono _ _ _ _ (Nat.le_succ t)) hg)]
      have hw := (hwf t script[t] (List.getElem?_eq_getElem ht)).2
      rw [useSel_eq]
      cases hu : M.C.useOp script[t] with
      | none => rfl
      | some gh =>
        obtain ⟨g', hs⟩ := gh
        have := hw g' hs hu
        have hle := cnt_mono M.C.isC script t (t + 1) (Nat.le_succ t)
        have : g' ≠ g := by omega
        simp [this]
    · have h1 : usesB script (M.C.useSel g) (t + 1) = usesB script (M.C.useSel g) t := by
        simp [usesB, List.take_of_length_le ht, List.take_of_length_le (Nat.le_succ_of_le ht)]
      rw [h1]
      exact ih (by
        have : cnt M.C.isC script (t + 1) = cnt M.C.isC script t := by
          simp [cnt, List.take_of_length_le ht, List.take_of_length_le (Nat.le_succ_of_le ht)]
        omega)

/-- description of group `g` of the class at time `t`, created by op `i` -/
def GDesc (M : MClass) (script : List Op) (i : Nat) (op : Op) (g t : Nat) (gs : GroupSt) : Prop :=
  match M.C.root op with
  | some (pre, hs) =>
    gs = { owner := M.rootOwner (W script i) op, pre := pre, mw := hs ++ usesB script (M.C.useSel g) t }
  | none =>
    match M.C.sub op with
    | some (p, seg, hs) =>
      ∃ ps, (M.get (W script i))[p]? = some ps ∧
        gs = { owner := ps.owner, pre := ps.pre ++ [seg], mw := ps.mw ++ hs ++ usesB script (M.C.useSel g) t }
    | none => False

def GInv (M : MClass) (script : List Op) (t : Nat) : Prop :=
  (M.get (W script t)).length = cnt M.C.isC script t ∧
  ∀ g gs, (M.get (W script t))[g]? = some gs →
    ∃ i op, script[i]? = some op ∧ i < t ∧ cnt M.C.isC script i = g ∧ M.C.isC op = true ∧ GDesc M script i op g t gs

theorem gdesc_step (M : MClass) (script : List Op) (i : Nat) (op : Op) (g t : Nat) (gs : GroupSt) (add : List Hid)
    (h : GDesc M script i op g t gs)
    (hu : usesB script (M.C.useSel g) (t + 1) = usesB script (M.C.useSel g) t ++ add) :
    GDesc M script i op g (t + 1) { gs with mw := gs.mw ++ add } := by
  unfold GDesc at *
  cases hr : M.C.root op with
  | some ph =>
    obtain ⟨pre, hs⟩ := ph
    rw [hr] at h
    simp only [] at h ⊢
    rw [h, hu]; simp
  | none =>
    rw [hr] at h
    simp only [] at h ⊢
    cases hsb : M.C.sub op with
    | none => rw [hsb] at h; exact h
    | some x =>
      obtain ⟨p, seg, hs⟩ := x
      rw [hsb] at h
      simp only [] at h ⊢
      obtain ⟨ps, h1, h2⟩ := h
      exact ⟨ps, h1, by rw [h2, hu]; simp⟩

theorem ginv (M : MClass) (hok : M.Ok) (script : List Op) (hwf : M.WF script) :
    ∀ t, t ≤ script.length → GInv M script t := by
  intro t
  induction t with
  | zero =>
    intro _
    refine ⟨by rw [W_zero, hok.init]; simp [cnt], ?_⟩
    intro g gs h
    rw [W_zero, hok.init] at h
    simp at h
  | succ t ih =>
    intro ht
    have htl : t < script.length := ht
    obtain ⟨hlen, hdesc⟩ := ih (Nat.le_of_lt htl)
    have hget : script[t]? = some script[t] := List.getElem?_eq_getElem htl
    have hcnt := cnt_succ M.C.isC script t htl
    have hlaw := hok.law (W script t) script[t]
    rw [← W_succ script t htl] at hlaw
    have hwft := hwf t script[t] hget
    -- old groups keep their description when the op does not attach to them
    have hold : ∀ g gs, (M.get (W script t))[g]? = some gs → M.C.useSel g script[t] = none →
        ∃ i op, script[i]? = some op ∧ i < t + 1 ∧ cnt M.C.isC script i = g ∧ M.C.isC op = true ∧
          GDesc M script i op g (t + 1) gs := by
      intro g gs hg hnone
      obtain ⟨i, op, h1, h2, h3, h4, h5⟩ := hdesc g gs hg
      refine ⟨i, op, h1, by omega, h3, h4, ?_⟩
      have := gdesc_step M script i op g t gs [] h5 (by rw [usesB_succ _ _ _ htl, hnone]; rfl)
      simpa using this
    -- a freshly created group
    have hnew : ∀ gs, GDesc M script t script[t] (cnt M.C.isC script t) t gs → M.C.isC script[t] = true →
        ∃ i op, script[i]? = some op ∧ i < t + 1 ∧ cnt M.C.isC script i = cnt M.C.isC script t ∧ M.C.isC op = true ∧
          GDesc M script i op (cnt M.C.isC script t) (t + 1) gs := by
      intro gs hd hc
      refine ⟨t, script[t], hget, by omega, rfl, hc, ?_⟩
      have hu : usesB script (M.C.useSel (cnt M.C.isC script t)) (t + 1) =
          usesB script (M.C.useSel (cnt M.C.isC script t)) t ++ [] := by
        rw [usesB_succ _ _ _ htl, useSel_eq, hok.create_not_use _ hc]; rfl
      have := gdesc_step M script t script[t] _ t gs [] hd hu
      simpa using this
    have hfut := usesB_future_nil M script hwf (cnt M.C.isC script t) t (Nat.le_refl _)
    cases hr : M.C.root script[t] with
    | some ph =>
      obtain ⟨pre, hs⟩ := ph
      have hc : M.C.isC script[t] = true := by rw [hok.isC_iff, hr]; rfl
      have huse : ∀ g, M.C.useSel g script[t] = none := by
        intro g; rw [useSel_eq, hok.create_not_use _ hc]
      rw [hr] at hlaw
      simp only [] at hlaw
      refine ⟨by rw [hlaw, hcnt, hc]; simp [hlen], ?_⟩
      intro g gs hg
      rw [hlaw] at hg
      rcases Nat.lt_or_ge g (M.get (W script t)).length with hlt | hge
      · rw [List.getElem?_append_left hlt] at hg
        exact hold g gs hg (huse g)
      · rw [List.getElem?_append_right hge] at hg
        have hg0 : g = (M.get (W script t)).length := by
          rcases Nat.eq_or_lt_of_le hge with h | h
          · exact h.symm
          · have : g - (M.get (W script t)).length ≠ 0 := by omega
            cases hx : g - (M.get (W script t)).length with
            | zero => omega
            | succ k => rw [hx] at hg; simp at hg
        subst hg0
        simp at hg
        rw [hlen]
        apply hnew gs _ hc
        unfold GDesc
        rw [hr]
        simp only []
        rw [hfut, ← hg]; simp
    | none =>
      rw [hr] at hlaw
      simp only [] at hlaw
      cases hsb : M.C.sub script[t] with
      | some x =>
        obtain ⟨p, seg, hs⟩ := x
        have hc : M.C.isC script[t] = true := by rw [hok.isC_iff, hr, hsb]; rfl
        have huse : ∀ g, M.C.useSel g script[t] = none := by
          intro g; rw [useSel_eq, hok.create_not_use _ hc]
        rw [hsb] at hlaw
        simp only [] at hlaw
        have hp : p < (M.get (W script t)).length := by rw [hlen]; exact hwft.1 p seg hs hsb
        obtain ⟨ps, hps⟩ : ∃ ps, (M.get (W script t))[p]? = some ps := ⟨_, List.getElem?_eq_getElem hp⟩
        rw [hps] at hlaw
        simp only [] at hlaw
        refine ⟨by rw [hlaw, hcnt, hc]; simp [hlen], ?_⟩
        intro g gs hg
        rw [hlaw] at hg
        rcases Nat.lt_or_ge g (M.get (W script t)).length with hlt | hge
        · rw [List.getElem?_append_left hlt] at hg
          exact hold g gs hg (huse g)
        · rw [List.getElem?_append_right hge] at hg
          have hg0 : g = (M.get (W script t)).length := by
            cases hx : g - (M.get (W script t)).length with
            | zero => omega
            | succ k => rw [hx] at hg; simp at hg
          subst hg0
          simp at hg
          rw [hlen]
          apply hnew gs _ hc
          unfold GDesc
          rw [hr]
          simp only []
          rw [hsb]
          simp only []
          exact ⟨ps, hps, by rw [hfut, ← hg]; simp⟩
      | none =>
        rw [hsb] at hlaw
        simp only [] at hlaw
        have hc : M.C.isC script[t] = false := by rw [hok.isC_iff, hr, hsb]; rfl
        cases hu : M.C.useOp script[t] with
        | some gh =>
          obtain ⟨g0, hs0⟩ := gh
          rw [hu] at hlaw
          simp only [] at hlaw
          refine ⟨by rw [hlaw, modifyAt_length, hcnt, hc]; simp [hlen], ?_⟩
          intro g gs hg
          rw [hlaw, modifyAt_getElem?] at hg
          by_cases hgg : g0 = g
          · subst hgg
            simp only [if_true] at hg
            cases hold' : (M.get (W script t))[g0]? with
            | none => rw [hold'] at hg; simp at hg
            | some gs' =>
              rw [hold'] at hg
              simp at hg
              obtain ⟨i, op, h1, h2, h3, h4, h5⟩ := hdesc g0 gs' hold'
              refine ⟨i, op, h1, by omega, h3, h4, ?_⟩
              have hu' : usesB script (M.C.useSel g0) (t + 1) = usesB script (M.C.useSel g0) t ++ hs0 := by
                rw [usesB_succ _ _ _ htl, useSel_eq, hu]; simp
              have := gdesc_step M script i op g0 t gs' hs0 h5 hu'
              rw [← hg]; exact this
          · simp only [hgg, if_false] at hg
            exact hold g gs hg (by rw [useSel_eq, hu]; simp [hgg])
        | none =>
          rw [hu] at hlaw
          simp only [] at hlaw
          refine ⟨by rw [hlaw, hcnt, hc]; simp [hlen], ?_⟩
          intro g gs hg
          rw [hlaw] at hg
          exact hold g gs hg (by rw [useSel_eq, hu])

/-! ### the three instances -/

/-- only the routers differ -/
def SameRest (w w' : World) : Prop :=
  w'.groups = w.groups ∧ w'.agroups = w.agroups ∧ w'.avgroups = w.avgroups ∧ w'.vrouters = w.vrouters ∧
  w'.vgroups = w.vgroups

theorem SameRest.refl (w : World) : SameRest w w := ⟨rfl, rfl, rfl, rfl, rfl⟩

theorem SameRest.trans {a b c : World} (h1 : SameRest a b) (h2 : SameRest b c) : SameRest a c :=
  ⟨h2.1.trans h1.1, h2.2.1.trans h1.2.1, h2.2.2.1.trans h1.2.2.1, h2.2.2.2.1.trans h1.2.2.2.1,
    h2.2.2.2.2.trans h1.2.2.2.2⟩

theorem addRouteOn_same (w : World) (r : Nat) (rt : RouteRec) : SameRest w (w.addRouteOn r rt) :=
  ⟨rfl, rfl, rfl, rfl, rfl⟩

theorem foldl_same {α} (l : List α) (g : World → α → World) (hg : ∀ w a, SameRest w (g w a)) (w : World) :
    SameRest w (l.foldl g w) := by
  induction l generalizing w with
  | nil => exact SameRest.refl w
  | cons a l ih => exact (hg w a).trans (ih (g w a))

theorem mountOp_same (w : World) (p sub seg : Nat) (inh : Bool) (extra : List Hid) :
    SameRest w (mountOp w p sub seg inh extra) := by
  unfold mountOp
  cases w.routers[p]? with
  | none => exact SameRest.refl w
  | some pr =>
    cases w.routers[sub]? with
    | none => exact SameRest.refl w
    | some sr =>
      simp only []
      exact foldl_same sr.objs
        (fun w rt => w.addRouteOn p { ver := none, path := seg :: rt.path,
                                      hs := ((if inh then pr.mw else []) ++ sr.mw ++ extra) ++ rt.hs })
        (fun w rt => addRouteOn_same w p _) w

def groupM : MClass where
  C := groupC
  get := (·.groups)
  rootOwner := fun _ op => match op with | .group r _ _ => r | _ => 0

def agroupM : MClass where
  C := agroupC
  get := (·.agroups)
  rootOwner := fun _ _ => 0

def avgroupM : MClass where
  C := avgroupC
  get := (·.avgroups)
  rootOwner := fun w _ => w.vrouters.length

theorem groupM_ok : groupM.Ok where
  law := by
    intro w op
    cases op <;> simp [groupM, groupC, apply, World.addRouteOn, (mountOp_same ..).1]
    case subgroup g seg hs => cases w.groups[g]? <;> rfl
    case route o seg hs =>
      cases o <;> simp
      case group g => cases w.groups[g]? <;> rfl
      case vrouter v => cases w.vrouters[v]? <;> rfl
      case vgroup vg =>
        cases hv : w.vgroups[vg]? <;> simp
        rename_i p
        cases w.vrouters[p.owner]? <;> rfl
    case asubgroup g seg hs => cases w.agroups[g]? <;> rfl
    case avsubgroup g seg hs => cases w.avgroups[g]? <;> rfl
    case aroute o seg b h a =>
      cases o <;> simp
      case agroup g => cases w.agroups[g]? <;> rfl
      case avgroup vg =>
        cases hv : w.avgroups[vg]? <;> simp
        rename_i p
        cases w.vrouters[p.owner]? <;> rfl
  isC_iff := by intro op; cases op <;> rfl
  root_not_sub := by intro op; cases op <;> simp [groupM, groupC]
  create_not_use := by intro op; cases op <;> simp [groupM, groupC, isGroupCreate]
  init := rfl

theorem agroupM_ok : agroupM.Ok where
  law := by
    intro w op
    cases op <;> simp [agroupM, agroupC, apply, World.addRouteOn, (mountOp_same ..).2.1]
    case subgroup g seg hs => cases w.groups[g]? <;> rfl
    case route o seg hs =>
      cases o <;> simp
      case group g => cases w.groups[g]? <;> rfl
      case vrouter v => cases w.vrouters[v]? <;> rfl
      case vgroup vg =>
        cases hv : w.vgroups[vg]? <;> simp
        rename_i p
        cases w.vrouters[p.owner]? <;> rfl
    case asubgroup g seg hs => cases w.agroups[g]? <;> rfl
    case avsubgroup g seg hs => cases w.avgroups[g]? <;> rfl
    case aroute o seg b h a =>
      cases o <;> simp
      case agroup g => cases w.agroups[g]? <;> rfl
      case avgroup vg =>
        cases hv : w.avgroups[vg]? <;> simp
        rename_i p
        cases w.vrouters[p.owner]? <;> rfl
  isC_iff := by intro op; cases op <;> rfl
  root_not_sub := by intro op; cases op <;> simp [agroupM, agroupC]
  create_not_use := by intro op; cases op <;> simp [agroupM, agroupC, isAGroupCreate]
  init := rfl

theorem avgroupM_ok : avgroupM.Ok where
  law := by
    intro w op
    cases op <;> simp [avgroupM, avgroupC, apply, World.addRouteOn, (mountOp_same ..).2.2.1]
    case subgroup g seg hs => cases w.groups[g]? <;> rfl
    case route o seg hs =>
      cases o <;> simp
      case group g => cases w.groups[g]? <;> rfl
      case vrouter v => cases w.vrouters[v]? <;> rfl
      case vgroup vg =>
        cases hv : w.vgroups[vg]? <;> simp
        rename_i p
        cases w.vrouters[p.owner]? <;> rfl
    case asubgroup g seg hs => cases w.agroups[g]? <;> rfl
    case avsubgroup g seg hs => cases w.avgroups[g]? <;> rfl
    case aroute o seg b h a =>
      cases o <;> simp
      case agroup g => cases w.agroups[g]? <;> rfl
      case avgroup vg =>
        cases hv : w.avgroups[vg]? <;> simp
        rename_i p
        cases w.vrouters[p.owner]? <;> rfl
  isC_iff := by intro op; cases op <;> rfl
  root_not_sub := by intro op; cases op <;> simp [avgroupM, avgroupC]
  create_not_use := by intro op; cases op <;> simp [avgroupM, avgroupC, isAVGroupCreate]
  init := rfl

/-! ### bridging the model's groups to the oracle's `genLevels` -/

theorem genLevels_fuel_mono (C : GClass) (script : List Op) :
    ∀ (f f' g t : Nat) (x : Nat × Path × List Level), genLevels C script f g t = some x → f ≤ f' →
      genLevels C script f' g t = some x := by
  intro f
  induction f with
  | zero => intro f' g t x h; simp [genLevels] at h
  | succ f ih =>
    intro f' g t x h hle
    obtain ⟨f'', rfl⟩ : ∃ f'', f' = f'' + 1 := ⟨f' - 1, by omega⟩
    simp only [genLevels] at h ⊢
    cases hi : nthIdx script C.isC g with
    | none => simp [hi] at h
    | some i =>
      simp only [hi, Option.bind_eq_bind, Option.bind_some] at h ⊢
      cases hop : script[i]? with
      | none => simp [hop] at h
      | some op =>
        simp only [hop, Option.bind_some] at h ⊢
        cases hr : C.root op with
        | some ph => simp only [hr] at h ⊢; exact h
        | none =>
          simp only [hr] at h ⊢
          cases hsb : C.sub op with
          | none => simp only [hsb] at h ⊢; exact h
          | some x' =>
            obtain ⟨p, seg, hs⟩ := x'
            simp only [hsb] at h ⊢
            cases hrec : genLevels C script f p i with
            | none => simp [hrec] at h
            | some y =>
              rw [ih f'' p i y hrec (by omega)]
              rw [hrec] at h
              exact h

/-- what the oracle's levels say about a model group: same prefix, and the model's middleware slice
    is exactly the `must` parts; plus where the root ancestor was created -/
theorem genLevels_of_model (M : MClass) (hok : M.Ok) (script : List Op) (hwf : M.WF script) :
    ∀ (g t : Nat) (gs : GroupSt), t ≤ script.length → (M.get (W script t))[g]? = some gs →
      ∃ ri rop ls, genLevels M.C script (g + 1) g t = some (ri, gs.pre, ls) ∧
        gs.mw = (ls.map (·.1)).flatten ∧
        script[ri]? = some rop ∧ (M.C.root rop).isSome ∧ gs.owner = M.rootOwner (W script ri) rop ∧ ri < t := by
  intro g
  induction g using Nat.strongRecOn with
  | _ g ih =>
    intro t gs ht hg
    obtain ⟨_, hdesc⟩ := ginv M hok script hwf t ht
    obtain ⟨i, op, hop, hit, hcnt, hc, hd⟩ := hdesc g gs hg
    have hil : i < script.length := by
      rcases Nat.lt_or_ge i script.length with h | h
      · exact h
      · rw [List.getElem?_eq_none h] at hop; cases hop
    have hopi : script[i] = op := by
      have := List.getElem?_eq_getElem hil
      rw [this] at hop; exact Option.some.inj hop
    have hnth : nthIdx script M.C.isC g = some i := by
      have := nthIdx_of_created M.C.isC script i hil (by rw [hopi]; exact hc)
      rw [hcnt] at this; exact this
    unfold GDesc at hd
    simp only [genLevels, hnth, Option.bind_eq_bind, Option.bind_some, hop]
    cases hr : M.C.root op with
    | some ph =>
      obtain ⟨pre, hs⟩ := ph
      rw [hr] at hd
      simp only [] at hd ⊢
      refine ⟨i, op, [(hs ++ (splitAt script (M.C.useSel g) t).1, (splitAt script (M.C.useSel g) t).2)],
        ?_, ?_, hop, by rw [hr]; rfl, by rw [hd], hit⟩
      · rw [hd]; rfl
      · rw [hd]; simp [splitAt_fst]
    | none =>
      rw [hr] at hd
      simp only [] at hd ⊢
      cases hsb : M.C.sub op with
      | none => rw [hsb] at hd; exact hd.elim
      | some x =>
        obtain ⟨p, seg, hs⟩ := x
        rw [hsb] at hd
        simp only [] at hd ⊢
        obtain ⟨ps, hps, hgs⟩ := hd
        have hpg : p < g := by
          have := (hwf i op hop).1 p seg hs hsb
          omega
        obtain ⟨ri, rop, ls, h1, h2, h3, h4, h5, h6⟩ := ih p hpg i ps (Nat.le_of_lt hil) hps
        have h1' := genLevels_fuel_mono M.C script (p + 1) g p i _ h1 (by omega)
        rw [h1']
        simp only [Option.bind_some]
        refine ⟨ri, rop, ls ++ [(hs ++ (splitAt script (M.C.useSel g) t).1, (splitAt script (M.C.useSel g) t).2)],
          ?_, ?_, h3, h4, by rw [hgs]; exact h5, by omega⟩
        · rw [hgs]; rfl
        · rw [hgs]; simp [splitAt_fst, h2]

/-! ### append-only classes (version routers, router version groups) -/

structure AClass (α : Type) where
  isC : Op → Bool
  get : World → List α
  make : World → Op → Option α

structure AClass.Ok {α} (A : AClass α) : Prop where
  law : ∀ w op, A.get (apply w op) = match A.make w op with | some x => A.get w ++ [x] | none => A.get w
  isC_iff : ∀ w op, A.isC op = (A.make w op).isSome
  init : A.get {} = []

theorem ainv {α} (A : AClass α) (hok : A.Ok) (script : List Op) :
    ∀ t, t ≤ script.length →
      (A.get (W script t)).length = cnt A.isC script t ∧
      ∀ k x, (A.get (W script t))[k]? = some x →
        ∃ i op, script[i]? = some op ∧ i < t ∧ cnt A.isC script i = k ∧ A.make (W script i) op = some x := by
  intro t
  induction t with
  | zero =>
    intro _
    rw [W_zero, hok.init]
    exact ⟨by simp [cnt], by intro k x h; simp at h⟩
  | succ t ih =>
    intro ht
    have htl : t < script.length := ht
    obtain ⟨hlen, hdesc⟩ := ih (Nat.le_of_lt htl)
    have hget : script[t]? = some script[t] := List.getElem?_eq_getElem htl
    have hcnt := cnt_succ A.isC script t htl
    have hlaw := hok.law (W script t) script[t]
    rw [← W_succ script t htl] at hlaw
    have hc := hok.isC_iff (W script t) script[t]
    cases hm : A.make (W script t) script[t] with
    | none =>
      rw [hm] at hlaw hc
      simp only [] at hlaw
      refine ⟨by rw [hlaw, hcnt, hc]; simp [hlen], ?_⟩
      intro k x hk
      rw [hlaw] at hk
      obtain ⟨i, op, h1, h2, h3, h4⟩ := hdesc k x hk
      exact ⟨i, op, h1, by omega, h3, h4⟩
    | some y =>
      rw [hm] at hlaw hc
      simp only [] at hlaw
      refine ⟨by rw [hlaw, hcnt, hc]; simp [hlen], ?_⟩
      intro k x hk
      rw [hlaw] at hk
      rcases Nat.lt_or_ge k (A.get (W script t)).length with hlt | hge
      · rw [List.getElem?_append_left hlt] at hk
        obtain ⟨i, op, h1, h2, h3, h4⟩ := hdesc k x hk
        exact ⟨i, op, h1, by omega, h3, h4⟩
      · rw [List.getElem?_append_right hge] at hk
        have hk0 : k = (A.get (W script t)).length := by
          cases hx : k - (A.get (W script t)).length with
          | zero => omega
          | succ j => rw [hx] at hk; simp at hk
        subst hk0
        simp at hk
        exact ⟨t, script[t], hget, by omega, hlen.symm, by rw [hm, hk]⟩

/-- a creating op is determined by how many creating ops precede it -/
theorem cnt_inj (isC : Op → Bool) (script : List Op) (i j : Nat) (opi opj : Op)
    (hi : script[i]? = some opi) (hj : script[j]? = some opj) (hci : isC opi = true) (hcj : isC opj = true)
    (h : cnt isC script i = cnt isC script j) : i = j := by
  have key : ∀ a b oa, script[a]? = some oa → isC oa = true → a < b → cnt isC script a < cnt isC script b := by
    intro a b oa ha hca hab
    have hal : a < script.length := by
      rcases Nat.lt_or_ge a script.length with h' | h'
      · exact h'
      · rw [List.getElem?_eq_none h'] at ha; cases ha
    have hoa : script[a] = oa := by
      have := List.getElem?_eq_getElem hal
      rw [this] at ha; exact Option.some.inj ha
    have h1 := cnt_succ isC script a hal
    rw [hoa, hca] at h1
    have h2 := cnt_mono isC script (a + 1) b hab
    simp at h1
    omega
  rcases Nat.lt_trichotomy i j with hlt | heq | hgt
  · have := key i j opi hi hci hlt; omega
  · exact heq
  · have := key j i opj hj hcj hgt; omega

def vrouterA : AClass (Nat × Nat) where
  isC := isVRouterCreate
  get := (·.vrouters)
  make := fun _ op => match op with | .version r ver => some (r, ver) | .aversion ver => some (0, ver) | _ => none

def vgroupA : AClass GroupSt where
  isC := isVGroupCreate
  get := (·.vgroups)
  make := fun _ op => match op with | .vgroup v seg hs => some { owner := v, pre := [seg], mw := hs } | _ => none

theorem vrouterA_ok : vrouterA.Ok where
  law := by
    intro w op
    cases op <;> simp [vrouterA, apply, World.addRouteOn, (mountOp_same ..).2.2.2.1]
    case subgroup g seg hs => cases w.groups[g]? <;> rfl
    case route o seg hs =>
      cases o <;> simp
      case group g => cases w.groups[g]? <;> rfl
      case vrouter v => cases w.vrouters[v]? <;> rfl
      case vgroup vg =>
        cases hv : w.vgroups[vg]? <;> simp
        rename_i p
        cases w.vrouters[p.owner]? <;> rfl
    case asubgroup g seg hs => cases w.agroups[g]? <;> rfl
    case avsubgroup g seg hs => cases w.avgroups[g]? <;> rfl
    case aroute o seg b h a =>
      cases o <;> simp
      case agroup g => cases w.agroups[g]? <;> rfl
      case avgroup vg =>
        cases hv : w.avgroups[vg]? <;> simp
        rename_i p
        cases w.vrouters[p.owner]? <;> rfl
  isC_iff := by intro w op; cases op <;> rfl
  init := rfl

theorem vgroupA_ok : vgroupA.Ok where
  law := by
    intro w op
    cases op <;> simp [vgroupA, apply, World.addRouteOn, (mountOp_same ..).2.2.2.2]
    case subgroup g seg hs => cases w.groups[g]? <;> rfl
    case route o seg hs =>
      cases o <;> simp
      case group g => cases w.groups[g]? <;> rfl
      case vrouter v => cases w.vrouters[v]? <;> rfl
      case vgroup vg =>
        cases hv : w.vgroups[vg]? <;> simp
        rename_i p
        cases w.vrouters[p.owner]? <;> rfl
    case asubgroup g seg hs => cases w.agroups[g]? <;> rfl
    case avsubgroup g seg hs => cases w.avgroups[g]? <;> rfl
    case aroute o seg b h a =>
      cases o <;> simp
      case agroup g => cases w.agroups[g]? <;> rfl
      case avgroup vg =>
        cases hv : w.avgroups[vg]? <;> simp
        rename_i p
        cases w.vrouters[p.owner]? <;> rfl
  isC_iff := by intro w op; cases op <;> rfl
  init := rfl

/-! ### routers and their routes -/

/-- the route record a declaring op hands to `addRouteOn`, and on which router -/
def routeRecOf (w : World) : Op → Option (Nat × RouteRec)
  | .route (.router r) seg hs => some (r, { ver := none, path := [seg], hs := hs })
  | .route (.group g) seg hs =>
    (w.groups[g]?).map fun p => (p.owner, { ver := none, path := p.pre ++ [seg], hs := p.mw ++ hs })
  | .route (.vrouter v) seg hs =>
    (w.vrouters[v]?).map fun x => (x.1, { ver := some x.2, path := [seg], hs := hs })
  | .route (.vgroup vg) seg hs =>
    (w.vgroups[vg]?).bind fun p =>
      (w.vrouters[p.owner]?).map fun x => (x.1, { ver := some x.2, path := p.pre ++ [seg], hs := p.mw ++ hs })
  | .aroute .app seg b h a => some (0, { ver := none, path := [seg], hs := b ++ [h] ++ a })
  | .aroute (.agroup g) seg b h a =>
    (w.agroups[g]?).map fun p => (0, { ver := none, path := p.pre ++ [seg], hs := p.mw ++ (b ++ [h] ++ a) })
  | .aroute (.avgroup vg) seg b h a =>
    (w.avgroups[vg]?).bind fun p =>
      (w.vrouters[p.owner]?).map fun x =>
        (x.1, { ver := some x.2, path := p.pre ++ [seg], hs := p.mw ++ (b ++ [h] ++ a) })
  | _ => none

/-- how one op changes the list of routers (everything but `Mount`) -/
inductive RStep (w : World) (op : Op) (rs' : List RouterSt) : Prop
  | new : op = .newRouter → rs' = w.routers ++ [({} : RouterSt)] → RStep w op rs'
  | use (r : Nat) (hs : List Hid) : selUse r op = some hs → (∀ r', r' ≠ r → selUse r' op = none) →
      rs' = modifyAt w.routers r (fun x => { x with mw := x.mw ++ hs }) → routeRecOf w op = none → RStep w op rs'
  | warm (r : Nat) : op = .warmup r → rs' = modifyAt w.routers r warmup → RStep w op rs'
  | route (r : Nat) (rec : RouteRec) : routeRecOf w op = some (r, rec) → (∀ r', selUse r' op = none) →
      rs' = modifyAt w.routers r (addRoute · rec) → RStep w op rs'
  | rereg (r : Nat) (ver : Option Nat) (path : Path) : op = .whereOp r ver path →
      rs' = modifyAt w.routers r (reRegister ver path) → RStep w op rs'
  | same : routeRecOf w op = none → (∀ r', selUse r' op = none) → op ≠ .newRouter → (∀ r, op ≠ .warmup r) →
      rs' = w.routers → RStep w op rs'

abbrev isMount := isMountOp

theorem rstep (w : World) (op : Op) (hm : isMount op = false) :
    RStep w op (apply w op).routers := by
  cases op with
  | whereOp r v p => exact .rereg r v p rfl rfl
  | newRouter => exact .new rfl rfl
  | use r hs =>
    refine .use r hs (by simp [selUse]) ?_ rfl rfl
    intro r' hr'; simp [selUse]; exact fun h => (hr' h.symm).elim
  | ause hs =>
    refine .use 0 hs (by simp [selUse]) ?_ rfl rfl
    intro r' hr'; simp [selUse]; exact hr'
  | warmup r => exact .warm r rfl rfl
  | mount => simp [isMount, isMountOp] at hm
  | group r seg hs => exact .same rfl (fun _ => rfl) (by simp) (by simp) rfl
  | guse g hs => exact .same rfl (fun _ => rfl) (by simp) (by simp) rfl
  | version r v => exact .same rfl (fun _ => rfl) (by simp) (by simp) rfl
  | vgroup v seg hs => exact .same rfl (fun _ => rfl) (by simp) (by simp) rfl
  | agroup seg hs a c => exact .same rfl (fun _ => rfl) (by simp) (by simp) rfl
  | aguse g hs => exact .same rfl (fun _ => rfl) (by simp) (by simp) rfl
  | aversion v => exact .same rfl (fun _ => rfl) (by simp) (by simp) rfl
  | avuse g hs => exact .same rfl (fun _ => rfl) (by simp) (by simp) rfl
  | subgroup g seg hs =>
    refine .same rfl (fun _ => rfl) (by simp) (by simp) ?_
    simp only [apply]; cases w.groups[g]? <;> rfl
  | asubgroup g seg hs =>
    refine .same rfl (fun _ => rfl) (by simp) (by simp) ?_
    simp only [apply]; cases w.agroups[g]? <;> rfl
  | avsubgroup g seg hs =>
    refine .same rfl (fun _ => rfl) (by simp) (by simp) ?_
    simp only [apply]; cases w.avgroups[g]? <;> rfl
  | route o seg hs =>
    cases o with
    | router r => exact .route r { ver := none, path := [seg], hs := hs } rfl (fun _ => rfl) rfl
    | group g =>
      cases hg : w.groups[g]? with
      | none => exact .same (by simp [routeRecOf, hg]) (fun _ => rfl) (by simp) (by simp) (by simp [apply, hg])
      | some p => exact .route p.owner { ver := none, path := p.pre ++ [seg], hs := p.mw ++ hs } (by simp [routeRecOf, hg]) (fun _ => rfl) (by simp [apply, hg, World.addRouteOn])
    | vrouter v =>
      cases hv : w.vrouters[v]? with
      | none => exact .same (by simp [routeRecOf, hv]) (fun _ => rfl) (by simp) (by simp) (by simp [apply, hv])
      | some x =>
        obtain ⟨r, ver⟩ := x
        exact .route r { ver := some ver, path := [seg], hs := hs } (by simp [routeRecOf, hv]) (fun _ => rfl) (by simp [apply, hv, World.addRouteOn])
    | vgroup vg =>
      cases hg : w.vgroups[vg]? with
      | none => exact .same (by simp [routeRecOf, hg]) (fun _ => rfl) (by simp) (by simp) (by simp [apply, hg])
      | some p =>
        cases hv : w.vrouters[p.owner]? with
        | none => exact .same (by simp [routeRecOf, hg, hv]) (fun _ => rfl) (by simp) (by simp) (by simp [apply, hg, hv])
        | some x =>
          obtain ⟨r, ver⟩ := x
          exact .route r { ver := some ver, path := p.pre ++ [seg], hs := p.mw ++ hs } (by simp [routeRecOf, hg, hv]) (fun _ => rfl) (by simp [apply, hg, hv, World.addRouteOn])
  | aroute o seg b h a =>
    cases o with
    | app => exact .route 0 { ver := none, path := [seg], hs := b ++ [h] ++ a } rfl (fun _ => rfl) rfl
    | agroup g =>
      cases hg : w.agroups[g]? with
      | none => exact .same (by simp [routeRecOf, hg]) (fun _ => rfl) (by simp) (by simp) (by simp [apply, hg])
      | some p => exact .route 0 { ver := none, path := p.pre ++ [seg], hs := p.mw ++ (b ++ [h] ++ a) } (by simp [routeRecOf, hg]) (fun _ => rfl) (by simp [apply, hg, World.addRouteOn])
    | avgroup vg =>
      cases hg : w.avgroups[vg]? with
      | none => exact .same (by simp [routeRecOf, hg]) (fun _ => rfl) (by simp) (by simp) (by simp [apply, hg])
      | some p =>
        cases hv : w.vrouters[p.owner]? with
        | none => exact .same (by simp [routeRecOf, hg, hv]) (fun _ => rfl) (by simp) (by simp) (by simp [apply, hg, hv])
        | some x =>
          obtain ⟨r, ver⟩ := x
          exact .route r { ver := some ver, path := p.pre ++ [seg], hs := p.mw ++ (b ++ [h] ++ a) } (by simp [routeRecOf, hg, hv]) (fun _ => rfl) (by simp [apply, hg, hv, World.addRouteOn])

abbrev isNewRouter := isNewRouterOp

/-- the node `RegisterRoute` writes when it runs at time `treg` -/
def regRec (script : List Op) (r treg : Nat) (rec0 : RouteRec) : RouteRec :=
  { rec0 with hs := usesB script (selUse r) treg ++ rec0.hs }

structure RInvAt (script : List Op) (t r : Nat) (rs : RouterSt) : Prop where
  mw : rs.mw = usesB script (selUse r) t
  pend : ∀ rec ∈ rs.pending, ∃ i op, script[i]? = some op ∧ i < t ∧ routeRecOf (W script i) op = some (r, rec)
  tree : ∀ rec ∈ rs.tree, ∃ i op rec0 treg, script[i]? = some op ∧ i < t ∧ i ≤ treg ∧ treg ≤ t ∧
    routeRecOf (W script i) op = some (r, rec0) ∧ rec = regRec script r treg rec0
  pres : ∀ i op rec0, script[i]? = some op → i < t → routeRecOf (W script i) op = some (r, rec0) →
    r < (W script i).routers.length →
    rec0 ∈ rs.pending ∨ ∃ treg, i ≤ treg ∧ treg ≤ t ∧ regRec script r treg rec0 ∈ rs.tree
  warmed : rs.warmed = true → rs.pending = []
  objs : ∀ rec ∈ rs.objs, ∃ i op, script[i]? = some op ∧ i < t ∧ routeRecOf (W script i) op = some (r, rec)

def RInv (script : List Op) (t : Nat) : Prop :=
  (W script t).routers.length = 1 + cnt isNewRouter script t ∧
  ∀ r rs, (W script t).routers[r]? = some rs → RInvAt script t r rs

/-- `Use` only on routers that exist -/
def WFR (script : List Op) : Prop :=
  ∀ t op, script[t]? = some op → ∀ r hs, selUse r op = some hs → r < 1 + cnt isNewRouter script t

theorem foldl_register (l : List RouteRec) (x : RouterSt) :
    l.foldl register x = { x with tree := x.tree ++ l.map fun rt => { rt with hs := x.mw ++ rt.hs } } := by
  induction l generalizing x with
  | nil => simp
  | cons a l ih => rw [List.foldl_cons, ih]; simp [register]

section
variable (script : List Op) (t : Nat) (htl : t < script.length)
include htl

/-- a router the op does not touch -/
theorem rinvAt_keep (r : Nat) (rs : RouterSt) (h : RInvAt script t r rs)
    (hsel : selUse r script[t] = none) (hrec : ∀ rec0, routeRecOf (W script t) script[t] ≠ some (r, rec0)) :
    RInvAt script (t + 1) r rs where
  mw := by rw [h.mw, usesB_succ _ _ _ htl, hsel]; simp
  pend := by
    intro rec hr
    obtain ⟨i, op, h1, h2, h3⟩ := h.pend rec hr
    exact ⟨i, op, h1, by omega, h3⟩
  tree := by
    intro rec hr
    obtain ⟨i, op, rec0, treg, h1, h2, h3, h4, h5, h6⟩ := h.tree rec hr
    exact ⟨i, op, rec0, treg, h1, by omega, h3, by omega, h5, h6⟩
  pres := by
    intro i op rec0 h1 h2 h3 h4
    rcases Nat.lt_or_ge i t with hlt | hge
    · rcases h.pres i op rec0 h1 hlt h3 h4 with hp | ⟨treg, a, b, c⟩
      · exact Or.inl hp
      · exact Or.inr ⟨treg, a, by omega, c⟩
    · have : i = t := by omega
      subst this
      rw [List.getElem?_eq_getElem htl] at h1
      cases h1
      exact (hrec rec0 h3).elim
  warmed := h.warmed
  objs := by
    intro rec hr
    obtain ⟨i, op, h1, h2, h3⟩ := h.objs rec hr
    exact ⟨i, op, h1, by omega, h3⟩

/-- `r.Use(hs...)` on this router -/
theorem rinvAt_use (r : Nat) (rs : RouterSt) (h : RInvAt script t r rs) (hs : List Hid)
    (hsel : selUse r script[t] = some hs) (hrec : routeRecOf (W script t) script[t] = none) :
    RInvAt script (t + 1) r { rs with mw := rs.mw ++ hs } where
  mw := by simp only []; rw [h.mw, usesB_succ _ _ _ htl, hsel]; rfl
  pend := by
    intro rec hr
    obtain ⟨i, op, h1, h2, h3⟩ := h.pend rec hr
    exact ⟨i, op, h1, by omega, h3⟩
  tree := by
    intro rec hr
    obtain ⟨i, op, rec0, treg, h1, h2, h3, h4, h5, h6⟩ := h.tree rec hr
    exact ⟨i, op, rec0, treg, h1, by omega, h3, by omega, h5, h6⟩
  pres := by
    intro i op rec0 h1 h2 h3 h4
    rcases Nat.lt_or_ge i t with hlt | hge
    · rcases h.pres i op rec0 h1 hlt h3 h4 with hp | ⟨treg, a, b, c⟩
      · exact Or.inl hp
      · exact Or.inr ⟨treg, a, by omega, c⟩
    · have : i = t := by omega
      subst this
      rw [List.getElem?_eq_getElem htl] at h1
      cases h1
      rw [hrec] at h3; cases h3
  warmed := h.warmed
  objs := by
    intro rec hr
    obtain ⟨i, op, h1, h2, h3⟩ := h.objs rec hr
    exact ⟨i, op, h1, by omega, h3⟩

/-- `r.Warmup()` on this router -/
theorem rinvAt_warm (r : Nat) (rs : RouterSt) (h : RInvAt script t r rs)
    (hsel : selUse r script[t] = none) (hrec : routeRecOf (W script t) script[t] = none) :
    RInvAt script (t + 1) r (warmup rs) := by
  unfold warmup
  by_cases hw : rs.warmed = true
  · simp only [hw, if_true]
    exact rinvAt_keep script t htl r rs h hsel (by intro rec0; rw [hrec]; simp)
  · have hw' : rs.warmed = false := by simpa using hw
    simp only [hw', Bool.false_eq_true, if_false]
    rw [foldl_register]
    have hk := rinvAt_keep script t htl r rs h hsel (by intro rec0; rw [hrec]; simp)
    refine ⟨hk.mw, by simp, ?_, ?_, by simp, hk.objs⟩
    · intro rec hr
      simp only [List.mem_append, List.mem_map] at hr
      rcases hr with hr | ⟨rt, hrt, rfl⟩
      · exact hk.tree rec hr
      · obtain ⟨i, op, h1, h2, h3⟩ := h.pend rt hrt
        exact ⟨i, op, rt, t, h1, by omega, by omega, by omega, h3, by simp [regRec, h.mw]⟩
    · intro i op rec0 h1 h2 h3 h4
      rcases hk.pres i op rec0 h1 h2 h3 h4 with hp | ⟨treg, a, b, c⟩
      · refine Or.inr ⟨t, ?_, by omega, ?_⟩
        · obtain ⟨i', op', g1, g2, g3⟩ := h.pend rec0 hp
          rcases Nat.lt_or_ge i t with hlt | hge
          · omega
          · have : i = t := by omega
            subst this
            rw [List.getElem?_eq_getElem htl] at h1
            cases h1
            rw [hrec] at h3; cases h3
        · simp only [List.mem_append, List.mem_map]
          exact Or.inr ⟨rec0, hp, by simp [regRec, h.mw]⟩
      · exact Or.inr ⟨treg, a, b, by simp only [List.mem_append]; exact Or.inl c⟩

/-- a route declared on this router -/
theorem rinvAt_route (r : Nat) (rs : RouterSt) (h : RInvAt script t r rs) (rec : RouteRec)
    (hsel : selUse r script[t] = none) (hrec : routeRecOf (W script t) script[t] = some (r, rec)) :
    RInvAt script (t + 1) r (addRoute rs rec) := by
  have hget : script[t]? = some script[t] := List.getElem?_eq_getElem htl
  have hmw : usesB script (selUse r) (t + 1) = usesB script (selUse r) t := by
    rw [usesB_succ _ _ _ htl, hsel]; simp
  have hpres_old : ∀ i op rec0, script[i]? = some op → i < t + 1 →
      routeRecOf (W script i) op = some (r, rec0) → r < (W script i).routers.length →
      (i = t ∧ rec0 = rec) ∨ rec0 ∈ rs.pending ∨ ∃ treg, i ≤ treg ∧ treg ≤ t ∧ regRec script r treg rec0 ∈ rs.tree := by
    intro i op rec0 h1 h2 h3 h4
    rcases Nat.lt_or_ge i t with hlt | hge
    · exact Or.inr (h.pres i op rec0 h1 hlt h3 h4)
    · have : i = t := by omega
      subst this
      rw [hget] at h1
      cases h1
      rw [hrec] at h3
      cases h3
      exact Or.inl ⟨rfl, rfl⟩
  unfold addRoute
  by_cases hw : rs.warmed = true
  · simp only [hw, if_true, register]
    refine ⟨by simp only []; rw [h.mw, hmw], ?_, ?_, ?_, fun _ => by simpa using h.warmed hw, (by
      intro rc hr
      simp only [List.mem_append, List.mem_singleton] at hr
      rcases hr with hr | rfl
      · obtain ⟨i, op, h1, h2, h3⟩ := h.objs rc hr
        exact ⟨i, op, h1, by omega, h3⟩
      · exact ⟨t, script[t], hget, by omega, hrec⟩)⟩
    · intro rc hr
      have := h.warmed hw
      simp [this] at hr
    · intro rc hr
      simp only [List.mem_append, List.mem_singleton] at hr
      rcases hr with hr | rfl
      · obtain ⟨i, op, rec0, treg, h1, h2, h3, h4, h5, h6⟩ := h.tree rc hr
        exact ⟨i, op, rec0, treg, h1, by omega, h3, by omega, h5, h6⟩
      · exact ⟨t, script[t], rec, t, hget, by omega, by omega, by omega, hrec, by simp [regRec, h.mw]⟩
    · intro i op rec0 h1 h2 h3 h4
      rcases hpres_old i op rec0 h1 h2 h3 h4 with ⟨rfl, rfl⟩ | hp | ⟨treg, a, b, c⟩
      · exact Or.inr ⟨i, by omega, by omega, by simp [regRec, h.mw]⟩
      · have := h.warmed hw
        simp [this] at hp
      · exact Or.inr ⟨treg, a, by omega, by simp only [List.mem_append]; exact Or.inl c⟩
  · have hw' : rs.warmed = false := by simpa using hw
    simp only [hw', Bool.false_eq_true, if_false]
    refine ⟨by simp only []; rw [h.mw, hmw], ?_, ?_, ?_, fun hx => by simp at hx, (by
      intro rc hr
      simp only [List.mem_append, List.mem_singleton] at hr
      rcases hr with hr | rfl
      · obtain ⟨i, op, h1, h2, h3⟩ := h.objs rc hr
        exact ⟨i, op, h1, by omega, h3⟩
      · exact ⟨t, script[t], hget, by omega, hrec⟩)⟩
    · intro rc hr
      simp only [List.mem_append, List.mem_singleton] at hr
      rcases hr with hr | rfl
      · obtain ⟨i, op, h1, h2, h3⟩ := h.pend rc hr
        exact ⟨i, op, h1, by omega, h3⟩
      · exact ⟨t, script[t], hget, by omega, hrec⟩
    · intro rc hr
      obtain ⟨i, op, rec0, treg, h1, h2, h3, h4, h5, h6⟩ := h.tree rc hr
      exact ⟨i, op, rec0, treg, h1, by omega, h3, by omega, h5, h6⟩
    · intro i op rec0 h1 h2 h3 h4
      rcases hpres_old i op rec0 h1 h2 h3 h4 with ⟨rfl, rfl⟩ | hp | ⟨treg, a, b, c⟩
      · exact Or.inl (by simp)
      · exact Or.inl (by simp only [List.mem_append]; exact Or.inl hp)
      · exact Or.inr ⟨treg, a, by omega, c⟩

/-- `rt.Where…` on a route of this router: a registered route is registered once more, with the
    middleware of now -/
theorem rinvAt_rereg (r : Nat) (rs : RouterSt) (h : RInvAt script t r rs) (ver : Option Nat) (path : Path)
    (hsel : selUse r script[t] = none) (hrec : routeRecOf (W script t) script[t] = none) :
    RInvAt script (t + 1) r (reRegister ver path rs) := by
  have hk := rinvAt_keep script t htl r rs h hsel (by intro rec0; rw [hrec]; simp)
  unfold reRegister
  cases hf : rs.objs.find? (fun o => o.ver == ver && o.path == path) with
  | none => exact hk
  | some o =>
    simp only []
    by_cases ha : rs.tree.any (fun rt => rt.ver == ver && rt.path == path) = true
    · simp only [ha, if_true, register]
      obtain ⟨i, op, a1, a2, a3⟩ := h.objs o (List.mem_of_find?_eq_some hf)
      refine ⟨hk.mw, hk.pend, ?_, ?_, hk.warmed, hk.objs⟩
      · intro rc hr
        simp only [List.mem_append, List.mem_singleton] at hr
        rcases hr with hr | rfl
        · exact hk.tree rc hr
        · exact ⟨i, op, o, t, a1, by omega, by omega, by omega, a3, by simp [regRec, h.mw]⟩
      · intro i' op' rec0 b1 b2 b3 b4
        rcases hk.pres i' op' rec0 b1 b2 b3 b4 with hp | ⟨treg, x, y, z⟩
        · exact Or.inl hp
        · exact Or.inr ⟨treg, x, y, by simp only [List.mem_append]; exact Or.inl z⟩
    · simp only [ha]
      exact hk

end

def NoMount (script : List Op) : Prop := ∀ op ∈ script, isMount op = false

theorem routers_length (script : List Op) (hnm : NoMount script) :
    ∀ t, t ≤ script.length → (W script t).routers.length = 1 + cnt isNewRouter script t := by
  intro t
  induction t with
  | zero => intro _; rw [W_zero]; simp [cnt]
  | succ t ih =>
    intro ht
    have htl : t < script.length := ht
    have hm := hnm script[t] (List.getElem_mem htl)
    have hs := rstep (W script t) script[t] hm
    rw [← W_succ script t htl] at hs
    have hcnt := cnt_succ isNewRouter script t htl
    have ih' := ih (Nat.le_of_lt htl)
    cases hs with
    | new h1 h2 => rw [h2, hcnt, h1]; simp [isNewRouter, isNewRouterOp, ih']; omega
    | use r hs h1 h2 h3 h4 =>
      have : isNewRouter script[t] = false := by
        cases hop : script[t] <;> simp [isNewRouter, isNewRouterOp] <;> rw [hop] at h1 <;> simp [selUse] at h1
      rw [h3, modifyAt_length, hcnt, this, ih']; simp
    | warm r h1 h2 => rw [h2, modifyAt_length, hcnt, h1, ih']; simp [isNewRouter, isNewRouterOp]
    | route r rec h1 h2 h3 =>
      have : isNewRouter script[t] = false := by
        cases hop : script[t] <;> simp [isNewRouter, isNewRouterOp] <;> rw [hop] at h1 <;> simp [routeRecOf] at h1
      rw [h3, modifyAt_length, hcnt, this, ih']; simp
    | rereg r v p h1 h2 => rw [h2, modifyAt_length, hcnt, h1, ih']; simp [isNewRouter, isNewRouterOp]
    | same h1 h2 h3 h4 h5 =>
      have : isNewRouter script[t] = false := by
        cases hop : script[t] <;> simp [isNewRouter, isNewRouterOp]
        exact h3 hop
      rw [h5, hcnt, this, ih']; simp

theorem usesB_router_future_nil (script : List Op) (hwf : WFR script) (r t : Nat)
    (hr : 1 + cnt isNewRouter script t ≤ r) : usesB script (selUse r) t = [] := by
  induction t with
  | zero => exact usesB_zero _ _
  | succ t ih =>
    rcases Nat.lt_or_ge t script.length with ht | ht
    · have hmono := cnt_mono isNewRouter script t (t + 1) (Nat.le_succ t)
      rw [usesB_succ _ _ _ ht, ih (by omega)]
      cases hu : selUse r script[t] with
      | none => rfl
      | some hs =>
        have := hwf t script[t] (List.getElem?_eq_getElem ht) r hs hu
        omega
    · have h1 : usesB script (selUse r) (t + 1) = usesB script (selUse r) t := by
        simp [usesB, List.take_of_length_le ht, List.take_of_length_le (Nat.le_succ_of_le ht)]
      rw [h1]
      exact ih (by
        have : cnt isNewRouter script (t + 1) = cnt isNewRouter script t := by
          simp [cnt, List.take_of_length_le ht, List.take_of_length_le (Nat.le_succ_of_le ht)]
        omega)

theorem rinv (script : List Op) (hnm : NoMount script) (hwf : WFR script) :
    ∀ t, t ≤ script.length → ∀ r rs, (W script t).routers[r]? = some rs → RInvAt script t r rs := by
  intro t
  induction t with
  | zero =>
    intro _ r rs h
    rw [W_zero] at h
    have : r = 0 ∧ rs = {} := by
      cases r with
      | zero => simp at h; exact ⟨rfl, h.symm⟩
      | succ r => simp at h
    obtain ⟨rfl, rfl⟩ := this
    exact ⟨by simp [usesB_zero], by simp, by simp, by intro i op rec0 _ h2; omega, by simp, by simp⟩
  | succ t ih =>
    intro ht r rs hr
    have htl : t < script.length := ht
    have ih' := ih (Nat.le_of_lt htl)
    have hm := hnm script[t] (List.getElem_mem htl)
    have hs := rstep (W script t) script[t] hm
    rw [← W_succ script t htl] at hs
    have hlen := routers_length script hnm t (Nat.le_of_lt htl)
    cases hs with
    | new h1 h2 =>
      rw [h2] at hr
      have hsel : ∀ r', selUse r' script[t] = none := by intro r'; rw [h1]; rfl
      have hrec : routeRecOf (W script t) script[t] = none := by rw [h1]; rfl
      rcases Nat.lt_or_ge r (W script t).routers.length with hlt | hge
      · rw [List.getElem?_append_left hlt] at hr
        exact rinvAt_keep script t htl r rs (ih' r rs hr) (hsel r) (by intro rec0; rw [hrec]; simp)
      · rw [List.getElem?_append_right hge] at hr
        have hr0 : r = (W script t).routers.length := by
          cases hx : r - (W script t).routers.length with
          | zero => omega
          | succ j => rw [hx] at hr; simp at hr
        simp [hr0] at hr
        subst hr
        refine ⟨?_, by simp, by simp, ?_, by simp, by simp⟩
        · show ([] : List Hid) = _
          rw [usesB_succ _ _ _ htl, hsel r, usesB_router_future_nil script hwf r t (by omega)]; rfl
        · intro i op rec0 h1' h2' h3' h4'
          have hli := routers_length script hnm i (by omega)
          have := cnt_mono isNewRouter script i t (by omega)
          omega
    | use r0 hs h1 h2 h3 h4 =>
      rw [h3, modifyAt_getElem?] at hr
      by_cases hrr : r0 = r
      · subst hrr
        simp only [if_true] at hr
        cases hold : (W script t).routers[r0]? with
        | none => rw [hold] at hr; simp at hr
        | some rs0 =>
          rw [hold] at hr; simp at hr; subst hr
          exact rinvAt_use script t htl r0 rs0 (ih' r0 rs0 hold) hs h1 h4
      · simp only [hrr, if_false] at hr
        exact rinvAt_keep script t htl r rs (ih' r rs hr) (h2 r (Ne.symm hrr)) (by intro rec0; rw [h4]; simp)
    | warm r0 h1 h2 =>
      have hsel : ∀ r', selUse r' script[t] = none := by intro r'; rw [h1]; rfl
      have hrec : routeRecOf (W script t) script[t] = none := by rw [h1]; rfl
      rw [h2, modifyAt_getElem?] at hr
      by_cases hrr : r0 = r
      · subst hrr
        simp only [if_true] at hr
        cases hold : (W script t).routers[r0]? with
        | none => rw [hold] at hr; simp at hr
        | some rs0 =>
          rw [hold] at hr; simp at hr; subst hr
          exact rinvAt_warm script t htl r0 rs0 (ih' r0 rs0 hold) (hsel r0) hrec
      · simp only [hrr, if_false] at hr
        exact rinvAt_keep script t htl r rs (ih' r rs hr) (hsel r) (by intro rec0; rw [hrec]; simp)
    | route r0 rec h1 h2 h3 =>
      rw [h3, modifyAt_getElem?] at hr
      by_cases hrr : r0 = r
      · subst hrr
        simp only [if_true] at hr
        cases hold : (W script t).routers[r0]? with
        | none => rw [hold] at hr; simp at hr
        | some rs0 =>
          rw [hold] at hr; simp at hr; subst hr
          exact rinvAt_route script t htl r0 rs0 (ih' r0 rs0 hold) rec (h2 r0) h1
      · simp only [hrr, if_false] at hr
        exact rinvAt_keep script t htl r rs (ih' r rs hr) (h2 r) (by
          intro rec0 hx; rw [h1] at hx; cases hx; exact hrr rfl)
    | rereg r0 v p h1 h2 =>
      have hsel : ∀ r', selUse r' script[t] = none := by intro r'; rw [h1]; rfl
      have hrec : routeRecOf (W script t) script[t] = none := by rw [h1]; rfl
      rw [h2, modifyAt_getElem?] at hr
      by_cases hrr : r0 = r
      · subst hrr
        simp only [if_true] at hr
        cases hold : (W script t).routers[r0]? with
        | none => rw [hold] at hr; simp at hr
        | some rs0 =>
          rw [hold] at hr; simp at hr; subst hr
          exact rinvAt_rereg script t htl r0 rs0 (ih' r0 rs0 hold) v p (hsel r0) hrec
      · simp only [hrr, if_false] at hr
        exact rinvAt_keep script t htl r rs (ih' r rs hr) (hsel r) (by intro rec0; rw [hrec]; simp)
    | same h1 h2 h3 h4 h5 =>
      rw [h5] at hr
      exact rinvAt_keep script t htl r rs (ih' r rs hr) (h2 r) (by intro rec0; rw [h1]; simp)

/-! ### the matcher -/

theorem subseqRemainders_mem (may s c : List Hid) (h : s.Sublist may) : c ∈ subseqRemainders may (s ++ c) := by
  induction h with
  | slnil => simp [subseqRemainders]
  | cons a _ ih =>
    simp only [subseqRemainders, List.mem_append]
    exact Or.inl ih
  | cons_cons a _ ih =>
    simp only [subseqRemainders, List.cons_append, List.mem_append, if_true]
    exact Or.inr ih

theorem matchLevels_cons (must may s c : List Hid) (ls : List Level) (hs : s.Sublist may)
    (hc : matchLevels ls c = true) : matchLevels ((must, may) :: ls) (must ++ s ++ c) = true := by
  simp only [matchLevels, Bool.and_eq_true, List.any_eq_true]
  refine ⟨by simp [List.append_assoc], c, ?_, hc⟩
  have : (must ++ s ++ c).drop must.length = s ++ c := by simp [List.append_assoc]
  rw [this]
  exact subseqRemainders_mem may s c hs

theorem matchLevels_musts (ls : List Level) (hs : List Hid) :
    matchLevels (ls ++ [(hs, [])]) ((ls.map (·.1)).flatten ++ hs) = true := by
  induction ls with
  | nil =>
    have := matchLevels_cons hs [] [] [] [] (List.Sublist.refl _) (by simp [matchLevels])
    simpa using this
  | cons l ls ih =>
    obtain ⟨m, y⟩ := l
    have := matchLevels_cons m y [] _ _ (List.nil_sublist _) ih
    simpa [List.append_assoc] using this

/-! ### a declared route, model vs oracle -/

abbrev routeSeg := routeSegOf

/-- well-formed script: every reference points to an object that exists already, and no two
    routes are declared with the same path segment (the harness numbers them) -/
structure WF (script : List Op) : Prop where
  g : groupM.WF script
  ag : agroupM.WF script
  avg : avgroupM.WF script
  r : WFR script
  segs : ∀ (i j : Nat) (opi opj : Op) (sg : Nat), script[i]? = some opi → script[j]? = some opj →
    routeSeg opi = some sg → routeSeg opj = some sg → i = j
  own : ∀ (t : Nat) (op : Op), script[t]? = some op →
    match op with
    | .route (.group g) _ _ => g < cnt isGroupCreate script t
    | .route (.vrouter v) _ _ => v < cnt isVRouterCreate script t
    | .route (.vgroup vg) _ _ => vg < cnt isVGroupCreate script t
    | .aroute (.agroup g) _ _ _ _ => g < cnt isAGroupCreate script t
    | .aroute (.avgroup vg) _ _ _ _ => vg < cnt isAVGroupCreate script t
    | .vgroup v _ _ => v < cnt isVRouterCreate script t
    | _ => True

theorem routeRecOf_seg (w : World) (op : Op) (r : Nat) (rec : RouteRec) (h : routeRecOf w op = some (r, rec)) :
    ∃ sg, routeSeg op = some sg ∧ rec.path.getLast? = some sg := by
  cases op with
  | route o seg hs =>
    refine ⟨seg, rfl, ?_⟩
    cases o with
    | router r' => simp [routeRecOf] at h; obtain ⟨_, rfl⟩ := h; rfl
    | group g => simp [routeRecOf] at h; obtain ⟨p, _, _, rfl⟩ := h; simp
    | vrouter v => simp [routeRecOf] at h; obtain ⟨a, b, _, _, rfl⟩ := h; rfl
    | vgroup vg =>
      cases hg : w.vgroups[vg]? with
      | none => simp [routeRecOf, hg] at h
      | some p =>
        cases hv : w.vrouters[p.owner]? with
        | none => simp [routeRecOf, hg, hv] at h
        | some x => simp [routeRecOf, hg, hv] at h; obtain ⟨_, rfl⟩ := h; simp
  | aroute o seg b hh a =>
    refine ⟨seg, rfl, ?_⟩
    cases o with
    | app => simp [routeRecOf] at h; obtain ⟨_, rfl⟩ := h; rfl
    | agroup g => simp [routeRecOf] at h; obtain ⟨p, _, _, rfl⟩ := h; simp
    | avgroup vg =>
      cases hg : w.avgroups[vg]? with
      | none => simp [routeRecOf, hg] at h
      | some p =>
        cases hv : w.vrouters[p.owner]? with
        | none => simp [routeRecOf, hg, hv] at h
        | some x => simp [routeRecOf, hg, hv] at h; obtain ⟨_, rfl⟩ := h; simp
  | _ => simp [routeRecOf] at h

theorem lt_of_getElem? {α} {l : List α} {i : Nat} {x : α} (h : l[i]? = some x) : i < l.length := by
  rcases Nat.lt_or_ge i l.length with h' | h'
  · exact h'
  · rw [List.getElem?_eq_none h'] at h; cases h

theorem vrouterOf_of_model (script : List Op) (t v r ver : Nat) (ht : t ≤ script.length)
    (h : (W script t).vrouters[v]? = some (r, ver)) : vrouterOf script v = some (r, ver) := by
  obtain ⟨i, op, h1, h2, h3, h4⟩ := (ainv vrouterA vrouterA_ok script t ht).2 v (r, ver) h
  have hil := lt_of_getElem? h1
  have hopi : script[i] = op := by
    have := List.getElem?_eq_getElem hil
    rw [this] at h1; exact Option.some.inj h1
  have hc : isVRouterCreate op = true := by
    have := vrouterA_ok.isC_iff (W script i) op
    rw [h4] at this; exact this
  have hnth : nthIdx script isVRouterCreate v = some i := by
    have := nthIdx_of_created isVRouterCreate script i hil (by rw [hopi]; exact hc)
    rw [show cnt isVRouterCreate script i = v from h3] at this; exact this
  simp only [vrouterOf, hnth, Option.bind_eq_bind, Option.bind_some, h1]
  cases op <;> simp [vrouterA] at h4
  case version r' ver' => obtain ⟨rfl, rfl⟩ := h4; rfl
  case aversion ver' => obtain ⟨rfl, rfl⟩ := h4; rfl

theorem routeInfo_of_model (script : List Op) (hwf : WF script) (i : Nat) (op : Op) (r : Nat) (rec0 : RouteRec)
    (hi : script[i]? = some op) (hrec : routeRecOf (W script i) op = some (r, rec0)) :
    ∃ gls hs, routeInfo script i = some (r, rec0.ver, rec0.path, gls, hs) ∧
      rec0.hs = (gls.map (·.1)).flatten ++ hs := by
  have hil := lt_of_getElem? hi
  have hile : i ≤ script.length := Nat.le_of_lt hil
  cases op with
  | route o seg hs =>
    cases o with
    | router r' =>
      simp [routeRecOf] at hrec
      obtain ⟨rfl, rfl⟩ := hrec
      exact ⟨[], hs, by simp [routeInfo, hi], by simp⟩
    | group g =>
      simp [routeRecOf] at hrec
      obtain ⟨p, hp, rfl, rfl⟩ := hrec
      obtain ⟨ri, rop, ls, h1, h2, h3, h4, h5, _⟩ := genLevels_of_model groupM groupM_ok script hwf.g g i p hile hp
      refine ⟨ls, hs, ?_, by simp [h2]⟩
      simp only [routeInfo, hi]
      show (genLevels groupC script (g + 1) g i).bind _ = _
      rw [show genLevels groupC script (g + 1) g i = some (ri, p.pre, ls) from h1]
      simp only [Option.bind_some, h3]
      cases rop <;> simp [groupM, groupC] at h4
      case group r' seg' hs' =>
        simp [groupM] at h5
        simp [h5]
    | vrouter v =>
      simp [routeRecOf] at hrec
      obtain ⟨r', ver, hv, rfl, rfl⟩ := hrec
      refine ⟨[], hs, ?_, by simp⟩
      simp only [routeInfo, hi]
      rw [vrouterOf_of_model script i v r' ver hile hv]
      rfl
    | vgroup vg =>
      cases hp : (W script i).vgroups[vg]? with
      | none => simp [routeRecOf, hp] at hrec
      | some p =>
      cases hv : (W script i).vrouters[p.owner]? with
      | none => simp [routeRecOf, hp, hv] at hrec
      | some x =>
      obtain ⟨r', ver⟩ := x
      simp [routeRecOf, hp, hv] at hrec
      obtain ⟨rfl, rfl⟩ := hrec
      obtain ⟨j, opj, g1, g2, g3, g4⟩ := (ainv vgroupA vgroupA_ok script i hile).2 vg p hp
      have hjl := lt_of_getElem? g1
      have hopj : script[j] = opj := by
        have := List.getElem?_eq_getElem hjl
        rw [this] at g1; exact Option.some.inj g1
      have hc : isVGroupCreate opj = true := by
        have := vgroupA_ok.isC_iff (W script j) opj
        rw [g4] at this; exact this
      have hnth : nthIdx script isVGroupCreate vg = some j := by
        have := nthIdx_of_created isVGroupCreate script j hjl (by rw [hopj]; exact hc)
        rw [show cnt isVGroupCreate script j = vg from g3] at this; exact this
      cases opj <;> simp [vgroupA] at g4
      case vgroup v gseg ghs =>
        subst g4
        refine ⟨[(ghs, [])], hs, ?_, by simp⟩
        simp only [routeInfo, hi, hnth, Option.bind_eq_bind, Option.bind_some, g1]
        rw [vrouterOf_of_model script i v r' ver hile hv]
        rfl
  | aroute o seg b hh a =>
    cases o with
    | app =>
      simp [routeRecOf] at hrec
      obtain ⟨rfl, rfl⟩ := hrec
      exact ⟨[], b ++ [hh] ++ a, by simp [routeInfo, hi], by simp⟩
    | agroup g =>
      simp [routeRecOf] at hrec
      obtain ⟨p, hp, rfl, rfl⟩ := hrec
      obtain ⟨ri, rop, ls, h1, h2, h3, h4, h5, _⟩ := genLevels_of_model agroupM agroupM_ok script hwf.ag g i p hile hp
      refine ⟨ls, b ++ [hh] ++ a, ?_, by simp [h2]⟩
      simp only [routeInfo, hi]
      show (genLevels agroupC script (g + 1) g i).bind _ = _
      rw [show genLevels agroupC script (g + 1) g i = some (ri, p.pre, ls) from h1]
      rfl
    | avgroup vg =>
      cases hp : (W script i).avgroups[vg]? with
      | none => simp [routeRecOf, hp] at hrec
      | some p =>
      cases hv : (W script i).vrouters[p.owner]? with
      | none => simp [routeRecOf, hp, hv] at hrec
      | some x =>
      obtain ⟨r', ver⟩ := x
      simp [routeRecOf, hp, hv] at hrec
      obtain ⟨rfl, rfl⟩ := hrec
      obtain ⟨ri, rop, ls, h1, h2, h3, h4, h5, _⟩ := genLevels_of_model avgroupM avgroupM_ok script hwf.avg vg i p hile hp
      have hril := lt_of_getElem? h3
      refine ⟨ls, b ++ [hh] ++ a, ?_, by simp [h2]⟩
      simp only [routeInfo, hi]
      show (genLevels avgroupC script (vg + 1) vg i).bind _ = _
      rw [show genLevels avgroupC script (vg + 1) vg i = some (ri, p.pre, ls) from h1]
      simp only [Option.bind_some, h3]
      cases rop <;> simp [avgroupM, avgroupC] at h4
      case aversion ver' =>
        -- the version router `app.Version` created at `ri` is entry `p.owner`
        simp only [avgroupM] at h5
        obtain ⟨j, opj, g1, g2, g3, g4⟩ := (ainv vrouterA vrouterA_ok script i hile).2 p.owner (r', ver) hv
        have hlenri := (ainv vrouterA vrouterA_ok script ri (Nat.le_of_lt hril)).1
        have hcj : isVRouterCreate opj = true := by
          have := vrouterA_ok.isC_iff (W script j) opj
          rw [g4] at this; exact this
        have hji : j = ri := by
          apply cnt_inj isVRouterCreate script j ri opj (.aversion ver') g1 h3 hcj rfl
          rw [show cnt isVRouterCreate script j = p.owner from g3, h5]
          exact hlenri
        subst hji
        rw [h3] at g1
        cases g1
        simp [vrouterA] at g4
        obtain ⟨rfl, rfl⟩ := g4
        rfl
  | _ => simp [routeRecOf] at hrec

/-! ### the theorem -/

theorem sublist_flatten {α} {a b : List (List α)} (h : a.Sublist b) : a.flatten.Sublist b.flatten := by
  induction h with
  | slnil => exact List.Sublist.refl _
  | cons x _ ih => exact ih.trans (by simp)
  | cons_cons x _ ih => simpa using (List.Sublist.refl x).append ih

/-- middleware attached between the declaration `i` and the registration `treg` is a sub-list of
    what the oracle calls `may` -/
theorem usesB_split (script : List Op) (sel : Op → Option (List Hid)) (i treg : Nat) (op : Op)
    (hi : script[i]? = some op) (hsel : sel op = none) (hle : i ≤ treg) :
    ∃ mid, usesB script sel treg = usesB script sel i ++ mid ∧
      mid.Sublist (((script.drop (i + 1)).filterMap sel).flatten) := by
  have hil := lt_of_getElem? hi
  rcases Nat.eq_or_lt_of_le hle with rfl | hlt
  · exact ⟨[], by simp, List.nil_sublist _⟩
  · obtain ⟨k, rfl⟩ : ∃ k, treg = (i + 1) + k := ⟨treg - (i + 1), by omega⟩
    refine ⟨(((script.drop (i + 1)).take k).filterMap sel).flatten, ?_, ?_⟩
    · have hopi : script[i] = op := by
        have := List.getElem?_eq_getElem hil
        rw [this] at hi; exact Option.some.inj hi
      simp only [usesB, List.take_add, List.filterMap_append, List.flatten_append]
      have h1 : (List.take 1 (List.drop i script)).filterMap sel = [] := by
        rw [List.drop_eq_getElem_cons hil, List.take_succ_cons, List.take_zero]
        simp [hopi, hsel]
      rw [h1]; simp
    · exact sublist_flatten ((List.take_sublist k (script.drop (i + 1))).filterMap sel)

theorem routeRecOf_exists (script : List Op) (hwf : WF script) (i : Nat) (op : Op)
    (hi : script[i]? = some op) (hseg : (routeSeg op).isSome) :
    (routeRecOf (W script i) op).isSome = true := by
  have hil := lt_of_getElem? hi
  have hile : i ≤ script.length := Nat.le_of_lt hil
  have hown := hwf.own i op hi
  cases op with
  | route o seg hs =>
    cases o with
    | router r => rfl
    | group g =>
      simp only [] at hown
      have hlen := (ginv groupM groupM_ok script hwf.g i hile).1
      have : g < (W script i).groups.length := by rw [show (W script i).groups.length = _ from hlen]; exact hown
      simp [routeRecOf, List.getElem?_eq_getElem this]
    | vrouter v =>
      simp only [] at hown
      have hlen := (ainv vrouterA vrouterA_ok script i hile).1
      have : v < (W script i).vrouters.length := by rw [show (W script i).vrouters.length = _ from hlen]; exact hown
      simp [routeRecOf, List.getElem?_eq_getElem this]
    | vgroup vg =>
      simp only [] at hown
      have hlen := (ainv vgroupA vgroupA_ok script i hile).1
      have hvg : vg < (W script i).vgroups.length := by rw [show (W script i).vgroups.length = _ from hlen]; exact hown
      obtain ⟨j, opj, g1, g2, g3, g4⟩ := (ainv vgroupA vgroupA_ok script i hile).2 vg _ (List.getElem?_eq_getElem hvg)
      have hownj := hwf.own j opj g1
      cases opj <;> simp [vgroupA] at g4
      case vgroup v gseg ghs =>
        simp only [] at hownj
        have hlenv := (ainv vrouterA vrouterA_ok script i hile).1
        have hmono := cnt_mono isVRouterCreate script j i (Nat.le_of_lt g2)
        have hv : v < (W script i).vrouters.length := by
          rw [show (W script i).vrouters.length = cnt isVRouterCreate script i from hlenv]; omega
        simp only [routeRecOf, List.getElem?_eq_getElem hvg, Option.bind_some]
        rw [← g4]
        simp [List.getElem?_eq_getElem hv]
  | aroute o seg b hh a =>
    cases o with
    | app => rfl
    | agroup g =>
      simp only [] at hown
      have hlen := (ginv agroupM agroupM_ok script hwf.ag i hile).1
      have : g < (W script i).agroups.length := by rw [show (W script i).agroups.length = _ from hlen]; exact hown
      simp [routeRecOf, List.getElem?_eq_getElem this]
    | avgroup vg =>
      simp only [] at hown
      have hlen := (ginv avgroupM avgroupM_ok script hwf.avg i hile).1
      have hvg : vg < (W script i).avgroups.length := by
        rw [show (W script i).avgroups.length = _ from hlen]; exact hown
      obtain ⟨ri, rop, ls, h1, h2, h3, h4, h5, h6⟩ := genLevels_of_model avgroupM avgroupM_ok script hwf.avg vg i _ hile
        (List.getElem?_eq_getElem hvg)
      -- the root `app.Version` call at `ri < i` also created version router number `owner`
      have hril := lt_of_getElem? h3
      have hlenv := (ainv vrouterA vrouterA_ok script i hile).1
      have hlenri := (ainv vrouterA vrouterA_ok script ri (Nat.le_of_lt hril)).1
      have hopri : script[ri] = rop := by
        have := List.getElem?_eq_getElem hril
        rw [this] at h3; exact Option.some.inj h3
      have hcr : isVRouterCreate rop = true := by
        cases rop <;> simp [avgroupM, avgroupC] at h4
        rfl
      have hsucc := cnt_succ isVRouterCreate script ri hril
      rw [hopri, hcr] at hsucc
      have hmono := cnt_mono isVRouterCreate script (ri + 1) i h6
      have hv : (W script i).avgroups[vg].owner < (W script i).vrouters.length := by
        rw [h5]
        simp only [avgroupM]
        rw [show (W script i).vrouters.length = cnt isVRouterCreate script i from hlenv,
            show (W script ri).vrouters.length = cnt isVRouterCreate script ri from hlenri]
        simp at hsucc; omega
      simp [routeRecOf, List.getElem?_eq_getElem hvg, List.getElem?_eq_getElem hv]
  | _ => simp [routeSeg, routeSegOf] at hseg

theorem routeRecOf_not_use (w : World) (op : Op) (x : Nat × RouteRec) (h : routeRecOf w op = some x) :
    ∀ r, selUse r op = none := by
  intro r
  cases op <;> first | rfl | (simp [routeRecOf] at h)

/-- **Soundness of the composition model (scripts without `Mount`).** For every well-formed
    configuration script over `Use`, `Group`, nested `Group`, `Group.Use`, `Version`, version groups,
    `Warmup`, further routers, and the whole app layer (`app.Use/Group/Version`, their `Use`/`Group`,
    `WithBefore`/`WithAfter`), and every route of the serving router: the handler slice the model
    composes exists and is admitted by the oracle's levels — router-global first, then the groups
    from the outermost to the innermost, then the route's own handlers; everything attached to an
    enclosing scope before the route (or the nested scope) was declared is there, in attach order;
    nothing from any other scope is. -/
theorem compose_admitted_nomount (script : List Op) (hnm : NoMount script) (hwf : WF script) (i : Nat)
    (ver : Option Nat) (path : Path) (ls : List Level)
    (hl : levels script { mounts := [], route := i } = some (ver, path, ls)) :
    ∃ chain, compose script ver path = some chain ∧ matchLevels ls chain = true := by
  simp only [levels] at hl
  cases hri : routeInfo script i with
  | none => simp [hri] at hl
  | some x =>
    obtain ⟨rr, ver', path0, gls, hs⟩ := x
    simp only [hri, Option.bind_eq_bind, Option.bind_some, mountLevels] at hl
    by_cases h0 : 0 = rr
    · subst h0
      simp only [if_true, Option.bind_some, Option.some.injEq, Prod.mk.injEq, List.nil_append] at hl
      obtain ⟨rfl, rfl, rfl⟩ := hl
      -- the declaring op
      cases hop : script[i]? with
      | none => simp [routeInfo, hop] at hri
      | some op =>
        have hseg : (routeSeg op).isSome = true := by
          cases op <;> first | rfl | (simp [routeInfo, hop] at hri)
        have hex := routeRecOf_exists script hwf i op hop hseg
        obtain ⟨⟨r, rec0⟩, hrec⟩ := Option.isSome_iff_exists.mp hex
        obtain ⟨gls', hs', hinfo, hhs⟩ := routeInfo_of_model script hwf i op r rec0 hop hrec
        rw [hri] at hinfo
        simp only [Option.some.injEq, Prod.mk.injEq] at hinfo
        obtain ⟨e1, e2, e3, e4, e5⟩ := hinfo
        subst e1 e2 e3 e4 e5
        have hil := lt_of_getElem? hop
        -- router 0 at the end of the script
        have hlen := routers_length script hnm script.length (Nat.le_refl _)
        have h0lt : 0 < (W script script.length).routers.length := by omega
        have hrs0 : (W script script.length).routers[0]? = some (W script script.length).routers[0] :=
          List.getElem?_eq_getElem h0lt
        generalize (W script script.length).routers[0] = rs0 at hrs0
        have hinv := rinv script hnm hwf.r script.length (Nat.le_refl _) 0 rs0 hrs0
        have hcomp : compose script rec0.ver rec0.path = findRoute (warmup rs0).tree rec0.ver rec0.path := by
          unfold compose
          rw [← W_full, hrs0]
        -- the tree after the final warm-up
        have htree : ∀ rec ∈ (warmup rs0).tree, ∃ i' op' rec0' treg, script[i']? = some op' ∧ i' ≤ treg ∧
            routeRecOf (W script i') op' = some (0, rec0') ∧ rec = regRec script 0 treg rec0' := by
          intro rec hr
          unfold warmup at hr
          by_cases hw : rs0.warmed = true
          · simp only [hw, if_true] at hr
            obtain ⟨i', op', rec0', treg, a1, _, a3, _, a5, a6⟩ := hinv.tree rec hr
            exact ⟨i', op', rec0', treg, a1, a3, a5, a6⟩
          · have hw' : rs0.warmed = false := by simpa using hw
            simp only [hw', Bool.false_eq_true, if_false] at hr
            rw [foldl_register] at hr
            simp only [List.mem_append, List.mem_map] at hr
            rcases hr with hr | ⟨rt, hrt, rfl⟩
            · obtain ⟨i', op', rec0', treg, a1, _, a3, _, a5, a6⟩ := hinv.tree rec hr
              exact ⟨i', op', rec0', treg, a1, a3, a5, a6⟩
            · obtain ⟨i', op', a1, a2, a3⟩ := hinv.pend rt hrt
              exact ⟨i', op', rt, script.length, a1, by omega, a3, by simp [regRec, hinv.mw]⟩
        have hpres : ∃ treg, i ≤ treg ∧ regRec script 0 treg rec0 ∈ (warmup rs0).tree := by
          have h0i : 0 < (W script i).routers.length := by
            have := routers_length script hnm i (Nat.le_of_lt hil); omega
          unfold warmup
          by_cases hw : rs0.warmed = true
          · simp only [hw, if_true]
            rcases hinv.pres i op rec0 hop hil hrec h0i with hp | ⟨treg, a, _, c⟩
            · rw [hinv.warmed hw] at hp; simp at hp
            · exact ⟨treg, a, c⟩
          · have hw' : rs0.warmed = false := by simpa using hw
            simp only [hw', Bool.false_eq_true, if_false]
            rw [foldl_register]
            rcases hinv.pres i op rec0 hop hil hrec h0i with hp | ⟨treg, a, _, c⟩
            · refine ⟨script.length, Nat.le_of_lt hil, ?_⟩
              simp only [List.mem_append, List.mem_map]
              exact Or.inr ⟨rec0, hp, by simp [regRec, hinv.mw]⟩
            · exact ⟨treg, a, by simp only [List.mem_append]; exact Or.inl c⟩
        -- what `findRoute` returns
        obtain ⟨treg0, _, hmem0⟩ := hpres
        have hfind : ∃ y, (warmup rs0).tree.reverse.find? (fun rt => rt.ver == rec0.ver && rt.path == rec0.path) = some y := by
          cases hf : (warmup rs0).tree.reverse.find? (fun rt => rt.ver == rec0.ver && rt.path == rec0.path) with
          | some y => exact ⟨y, rfl⟩
          | none =>
            have := List.find?_eq_none.mp hf (regRec script 0 treg0 rec0) (by simpa using hmem0)
            simp [regRec] at this
        obtain ⟨y, hy⟩ := hfind
        have hyp := List.find?_some hy
        have hymem : y ∈ (warmup rs0).tree := by simpa using List.mem_of_find?_eq_some hy
        obtain ⟨i', op', rec0', treg, b1, b2, b3, b4⟩ := htree y hymem
        simp only [Bool.and_eq_true, beq_iff_eq] at hyp
        have hpath : rec0'.path = rec0.path := by rw [← hyp.2, b4]; rfl
        obtain ⟨sg, c1, c2⟩ := routeRecOf_seg _ _ _ _ hrec
        obtain ⟨sg', c1', c2'⟩ := routeRecOf_seg _ _ _ _ b3
        have hsg : sg' = sg := by rw [hpath, c2] at c2'; exact (Option.some.inj c2').symm
        subst hsg
        have hii : i' = i := hwf.segs i' i op' op sg' b1 hop c1' c1
        subst hii
        rw [hop] at b1
        cases b1
        rw [hrec] at b3
        cases b3
        -- the chain and its admission
        refine ⟨y.hs, by rw [hcomp]; simp [findRoute, hy], ?_⟩
        obtain ⟨mid, hmid, hsub⟩ := usesB_split script (selUse 0) i' treg op hop
          (routeRecOf_not_use _ _ _ hrec 0) b2
        rw [b4]
        show matchLevels ([routerLevel script 0 i'] ++ gls ++ [(hs, [])]) (usesB script (selUse 0) treg ++ rec0.hs) = true
        rw [hmid, hhs, routerLevel_eq, splitAt_eq]
        have := matchLevels_cons (usesB script (selUse 0) i') _ mid _ (gls ++ [(hs, [])]) hsub
          (matchLevels_musts gls hs)
        simpa [usesB, List.append_assoc] using this
    · simp [h0] at hl

/-! ### the Boolean well-formedness check implies `WF` -/

theorem classRefsOK_spec (C : GClass) (script : List Op) (t : Nat) (op : Op) (h : classRefsOK C script t op = true) :
    (∀ p seg hs, C.sub op = some (p, seg, hs) → p < cnt C.isC script t) ∧
    (∀ g hs, C.useOp op = some (g, hs) → g < cnt C.isC script t) := by
  simp only [classRefsOK, Bool.and_eq_true] at h
  constructor
  · intro p seg hs hsb
    have := h.1
    rw [hsb] at this
    simpa using this
  · intro g hs hu
    have := h.2
    rw [hu] at this
    simpa using this

theorem wf_of_wfB (script : List Op) (h : wfB script = true) : WF script := by
  simp only [wfB, Bool.and_eq_true, List.all_eq_true, List.mem_range] at h
  obtain ⟨h1, h2⟩ := h
  have hop : ∀ t op, script[t]? = some op → opRefsOK script t op = true := by
    intro t op ht
    have := h1 t (lt_of_getElem? ht)
    rw [ht] at this
    exact this
  refine ⟨?_, ?_, ?_, ?_, ?_, ?_⟩
  · intro t op ht
    have := hop t op ht
    simp only [opRefsOK, Bool.and_eq_true] at this
    exact classRefsOK_spec groupC script t op this.1.1.1.1
  · intro t op ht
    have := hop t op ht
    simp only [opRefsOK, Bool.and_eq_true] at this
    exact classRefsOK_spec agroupC script t op this.1.1.1.2
  · intro t op ht
    have := hop t op ht
    simp only [opRefsOK, Bool.and_eq_true] at this
    exact classRefsOK_spec avgroupC script t op this.1.1.2
  · intro t op ht r hs hsel
    have := hop t op ht
    simp only [opRefsOK, Bool.and_eq_true] at this
    have h4 := this.2
    cases op <;> simp [selUse] at hsel
    case use r' hs' =>
      obtain ⟨rfl, _⟩ := hsel
      simpa [routerRefsOK] using h4
    case ause hs' =>
      obtain ⟨rfl, _⟩ := hsel
      omega
  · intro i j opi opj sg hi hj si sj
    have := h2 i (lt_of_getElem? hi) j (lt_of_getElem? hj)
    rw [hi, hj] at this
    simp only [Option.bind_some, show routeSegOf opi = some sg from si, show routeSegOf opj = some sg from sj,
      Bool.or_eq_true, beq_iff_eq, Bool.and_eq_true] at this
    rcases this with h' | h'
    · exact h'
    · simp at h'
  · intro t op ht
    have := hop t op ht
    simp only [opRefsOK, Bool.and_eq_true] at this
    have h4 := this.1.2
    cases op with
    | route o seg hs => cases o <;> simp_all [ownRefsOK]
    | aroute o seg b hh a => cases o <;> simp_all [ownRefsOK]
    | vgroup v seg hs => simpa [ownRefsOK] using h4
    | _ => trivial

theorem noMount_of_noMountB (script : List Op) (h : noMountB script = true) : NoMount script := by
  intro op hop
  simp only [noMountB, List.all_eq_true] at h
  simpa using h op hop

end Rivaas.Compose
