import Rivaas.Lemmas.ComposeLookup
/-
Soundness of the composition model against the level oracle, for scripts without `Mount`:
`Rivaas.Compose.compose_admitted_nomount`. Method: `W script t` is the model world after the first
`t` ops; invariants describe every object of `W script t` by look-ups into the *whole* script
bounded by time `t` (so no stability-under-extension lemmas are needed).
-/
namespace Rivaas.Compose

/-! ### prefix worlds -/

def W (script : List Op) (t : Nat) : World := build (script.take t)

theorem W_zero (script : List Op) : W script 0 = {} := by simp [W, build]

theorem W_succ (script : List Op) (t : Nat) (h : t < script.length) :
    W script (t + 1) = apply (W script t) script[t] := by
  simp [W, build, List.take_add_one, List.getElem?_eq_getElem h, List.foldl_append]

theorem W_full (script : List Op) : W script script.length = build script := by
  simp [W]

/-! ### `modifyAt` -/

theorem modifyAt_length {α} (l : List α) (i : Nat) (f : α → α) : (modifyAt l i f).length = l.length := by
  induction l generalizing i with
  | nil => rfl
  | cons a r ih => cases i <;> simp [modifyAt, ih]

theorem modifyAt_getElem? {α} (l : List α) (i j : Nat) (f : α → α) :
    (modifyAt l i f)[j]? = if i = j then l[j]?.map f else l[j]? := by
  induction l generalizing i j with
  | nil => simp [modifyAt]
  | cons a r ih =>
    cases i with
    | zero => cases j <;> simp [modifyAt]
    | succ i =>
      cases j with
      | zero => simp [modifyAt]
      | succ j => simp [modifyAt, ih]

/-! ### middleware attached before time `t` -/

def usesB (script : List Op) (sel : Op → Option (List Hid)) (t : Nat) : List Hid :=
  ((script.take t).filterMap sel).flatten

theorem usesB_succ (script : List Op) (sel : Op → Option (List Hid)) (t : Nat) (h : t < script.length) :
    usesB script sel (t + 1) = usesB script sel t ++ (sel script[t]).getD [] := by
  simp only [usesB, List.take_add_one, List.getElem?_eq_getElem h, Option.toList_some, List.filterMap_append,
    List.flatten_append]
  cases sel script[t] <;> simp

theorem usesB_zero (script : List Op) (sel : Op → Option (List Hid)) : usesB script sel 0 = [] := by
  simp [usesB]

theorem splitAt_fst (script : List Op) (sel : Op → Option (List Hid)) (t : Nat) :
    (splitAt script sel t).1 = usesB script sel t := by
  rw [splitAt_eq]; rfl

/-- `r.Use` / `app.Use` selector of `routerLevel` -/
def selUse (r : Nat) : Op → Option (List Hid) := fun op =>
  match op with
  | .use r' hs => if r' = r then some hs else none
  | .ause hs => if r = 0 then some hs else none
  | _ => none

theorem routerLevel_eq (script : List Op) (r t : Nat) : routerLevel script r t = splitAt script (selUse r) t := rfl

end Rivaas.Compose
