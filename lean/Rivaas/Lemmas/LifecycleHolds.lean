import Rivaas.Lemmas.LifecycleLog
/-
C09 — helper lemmas, part 7: the two halves of the main theorem — a failed start-up and the shutdown
sequence of the repaired code are in the lifecycle language.
-/
namespace Rivaas.C09
open Rivaas.Lifecycle Rivaas.Lifecycle.Spec
theorem lemma_blockAbove (shuts : List HB) (j j' : Nat) (h : j < j') (hb : shuts[j']? = some .block) :
    blockAbove shuts j = true := by
  simp only [blockAbove, List.any_eq_true, beq_iff_eq]
  refine ⟨.block, ?_, rfl⟩
  apply List.mem_iff_getElem?.mpr
  refine ⟨j' - (j + 1), ?_⟩
  rw [List.getElem?_drop]
  have : j + 1 + (j' - (j + 1)) = j' := by omega
  rw [this]; exact hb

theorem lemma_any_block (shuts : List HB) (j : Nat) (hb : shuts[j]? = some .block) :
    shuts.any (· == .block) = true := by
  simp only [List.any_eq_true, beq_iff_eq]
  exact ⟨.block, List.mem_iff_getElem?.mpr ⟨j, hb⟩, rfl⟩

theorem lemma_map_complete (l : List Rel) (f : Rel → ReqRes) (hf : ∀ q ∈ l, f q = .complete) (k : Nat)
    (hk : k < l.length) : ((l.map f)[k]? == some ReqRes.complete) = true := by
  rw [List.getElem?_map, List.getElem?_eq_getElem hk]
  simp [hf _ (List.getElem_mem hk)]

theorem lemma_reqRes_ne_incomplete (sent : Bool) (ranJ : Nat → Bool) (drained : Bool) (l : List Rel) :
    (l.map (reqResOf sent ranJ drained)).all (· != .incomplete) = true := by
  simp only [List.all_map, List.all_eq_true]
  intro q _
  cases q <;> simp only [Function.comp, reqResOf] <;> first | rfl | (split <;> rfl)

/-- what the shutdown sequence is handed: the segments before it -/
structure Before (sc : Scenario) (sent : Bool) (s : Segs) : Prop where
  starts : ∃ c, s.starts = (startHooks sc.metrics 0 c sc.starts).evs
  readies : s.readies = readyHooks true sc.metrics 0 sc.readies
  reqIns : s.reqIns = if sent then reqIns 0 sc.reqs else []
  reloads : kindsIn [.reload, .sig] s.reloads
  sigK : kindsIn [.sig] s.sig
  post : kindsIn [.reload] s.post
  postEnv : s.post.all (isEnvReload sc) = true
  sorted : (ids s.reloads ++ ids s.post).Pairwise (· ≤ ·)
  hasSig : s.before.any isSig = true
  shuts : s.shuts = []
  drain : s.drain = []
  flush : s.flush = []
  stops : s.stops = []

theorem Before.wk {sc : Scenario} {sent : Bool} {s : Segs} (b : Before sc sent s) (sh dr fl st : List Ev)
    (h1 : kindsIn [.shut, .reqFin] sh) (h2 : kindsIn [.reqFin] dr) (h3 : kindsIn [.flush] fl)
    (h4 : kindsIn [.stop] st) : Segs.WK { s with shuts := sh, drain := dr, flush := fl, stops := st } where
  starts := by obtain ⟨c, hc⟩ := b.starts; rw [hc]; exact startHooks_kinds _ _ _ _
  readies := by rw [b.readies]; exact readyHooks_kinds _ _ _ _
  reqIns := by
    rw [b.reqIns]; cases sent
    · exact kindsIn_nil _
    · exact reqIns_kinds _ _
  reloads := b.reloads
  sig := b.sigK
  shuts := h1
  drain := h2
  flush := h3
  stops := h4
  post := b.post

theorem lemma_returnsOnce (sc : Scenario) {s : Segs} (h : s.WK) (hp : s.post.all (isEnvReload sc) = true) :
    returnsOnce sc s.log = true := by
  simp only [returnsOnce, Bool.and_eq_true]
  exact ⟨(Segs.log_ret h).1, by rw [Segs.afterRet_log h]; exact hp⟩

theorem lemma_startsOk (sc : Scenario) {s : Segs} (h : s.WK) (c : Bool)
    (hs : s.starts = (startHooks sc.metrics 0 c sc.starts).evs) : startsOk sc s.log = true := by
  simp only [startsOk, Bool.and_eq_true, beq_iff_eq]
  rw [Segs.log_startTag h, Segs.log_startProbe h, hs]
  exact ⟨startHooks_tags .., startHooks_probes ..⟩

theorem lemma_readiesOk (sc : Scenario) {s : Segs} (h : s.WK)
    (hr : s.readies = [] ∨ s.readies = readyHooks true sc.metrics 0 sc.readies) : readiesOk sc s.log = true := by
  simp only [readiesOk, Bool.and_eq_true]
  rw [Segs.log_readyProbe h, Segs.log_readyIdx h, nodupNat_iff]
  rcases hr with hr | hr
  · rw [hr]; simp
  · rw [hr, readyHooks_idx]
    exact ⟨readyHooks_probes _ _ _ _ (by omega), List.nodup_range'⟩

theorem lemma_reloadsOk {s : Segs} (h : s.WK) (rres : List RRes)
    (hsorted : (ids s.reloads ++ ids s.post).Pairwise (· ≤ ·)) (hres : rres.all (· != .panic) = true)
    (o : Obs) (hl : o.log = s.log) (hr : o.rounds = rres) : reloadsOk o = true := by
  simp only [reloadsOk, Bool.and_eq_true]
  rw [hl, hr, Segs.log_reloadRound h]
  exact ⟨noInterleave_of_sorted _ hsorted, hres⟩

theorem lemma_orderOk {s : Segs} (h : s.WK) : orderOk s.log = true := by
  simp only [orderOk, Bool.and_eq_true]
  refine ⟨⟨⟨⟨⟨⟨⟨⟨?_, ?_⟩, ?_⟩, ?_⟩, ?_⟩, ?_⟩, ?_⟩, ?_⟩, ?_⟩
  · exact Segs.log_precedes h _ _ .shut .flush isShut_kind isFlush_kind (by decide)
  · exact Segs.log_precedes h _ _ .shut .stop isShut_kind isStop_kind (by decide)
  · exact Segs.log_precedes h _ _ .shut .ret isShut_kind isRet_kind (by decide)
  · exact Segs.log_precedes h _ _ .reqFin .flush isReqFin_kind isFlush_kind (by decide)
  · exact Segs.log_precedes h _ _ .reqFin .stop isReqFin_kind isStop_kind (by decide)
  · exact Segs.log_precedes h _ _ .reqFin .ret isReqFin_kind isRet_kind (by decide)
  · exact Segs.log_precedes h _ _ .flush .stop isFlush_kind isStop_kind (by decide)
  · exact Segs.log_precedes h _ _ .flush .ret isFlush_kind isRet_kind (by decide)
  · exact Segs.log_precedes h _ _ .stop .ret isStop_kind isRet_kind (by decide)


theorem lemma_shutProbes (sc : Scenario) (evs : List Ev)
    (P : ∀ e ∈ evs, ∀ j a m live, e = Ev.shutIn j a m live →
      a = true ∧ m = sc.metrics ∧ 0 ≤ j ∧ (live = true ∨ false = true ∨ ∃ j', j < j' ∧ sc.shuts[j' - 0]? = some .block)) :
    evs.all (shutProbeOk sc) = true := by
  apply List.all_eq_true.mpr
  intro e he
  cases e with
  | shutIn j a m live =>
    obtain ⟨h1, h2, _, h4⟩ := P _ he j a m live rfl
    simp only [shutProbeOk, h1, h2, Bool.true_and, beq_self_eq_true, Bool.or_eq_true]
    rcases h4 with h4 | h4 | ⟨j', hj', hb⟩
    · left; exact h4
    · cases h4
    · right; exact lemma_blockAbove _ _ _ hj' (by simpa using hb)
  | _ => rfl

theorem lemma_timeoutLegit (sc : Scenario) (sent expired race : Bool)
    (E : expired = true → false = true ∨ ∃ j, 0 ≤ j ∧ sc.shuts[j - 0]? = some .block)
    (h : (sent && sc.reqs.any (stuck sc.shuts.length expired) || expired && race) = true) :
    timeoutLegit sc = true := by
  have hexp : expired = true → sc.shuts.any (· == .block) = true := by
    intro he
    rcases E he with h | ⟨j, _, hb⟩
    · cases h
    · exact lemma_any_block _ j (by simpa using hb)
  simp only [timeoutLegit, Bool.or_eq_true]
  simp only [Bool.or_eq_true, Bool.and_eq_true] at h
  rcases h with ⟨_, h⟩ | ⟨h, _⟩
  · simp only [List.any_eq_true] at h
    obtain ⟨q, hq, hs⟩ := h
    cases q with
    | hook j =>
      left; exact List.any_eq_true.mpr ⟨_, hq, by simpa [stuck, stuckForever] using hs⟩
    | drain => right; exact hexp (by simpa [stuck] using hs)
    | never => left; exact List.any_eq_true.mpr ⟨_, hq, rfl⟩
    | hijack => simp [stuck] at hs
  · right; exact hexp h

theorem lemma_allComplete (sc : Scenario) (expired : Bool) (fp : Option Nat) (hfp : fp = none)
    (hns : sc.reqs.any (stuck sc.shuts.length expired) = false) (k : Nat) (hk : k < sc.reqs.length) :
    ((sc.reqs.map (reqResOf true (shutRanIdx sc.shuts.length fp) (true && !expired)))[k]? ==
      some ReqRes.complete) = true := by
  apply lemma_map_complete _ _ _ k hk
  intro q hq
  have hq' : stuck sc.shuts.length expired q = false := by
    have := List.any_eq_false.mp hns q hq
    simpa using this
  subst hfp
  cases q with
  | hook j =>
    simp only [stuck, ge_iff_le, decide_eq_false_iff_not, Nat.not_le] at hq'
    simp [reqResOf, shutRanIdx, hq']
  | drain =>
    simp only [stuck] at hq'
    simp [reqResOf, hq']
  | never => simp [stuck] at hq'
  | hijack => simp [reqResOf]


theorem lemma_count_flushIf (b : Bool) : (flushIf b).count Ev.flush = if b then 1 else 0 := by
  cases b <;> simp [flushIf]

/-- the shutdown sequence of the repaired code is in the language, whatever preceded it -/
theorem lemma_shutdown (sc : Scenario) (race sent : Bool) (s : Segs) (rres : List RRes)
    (b : Before sc sent s) (hnf : sc.starts.find? startFails = none) (hl : sc.listen = .ok)
    (hres : rres.all (· != .panic) = true) :
    holds sc (shutdownSeq repaired sc race sent s rres).obs = true := by
  have T := shutHooks_lifo_tags sc.metrics sent sc.reqs false 0 sc.shuts
  have P := shutHooks_lifo_probes sc.metrics sent sc.reqs false 0 sc.shuts
  have E := shutHooks_lifo_expired sc.metrics sent sc.reqs false 0 sc.shuts
  have K := shutHooks_kinds sc.metrics sent sc.reqs false (lifo 0 sc.shuts)
  have Q := shutHooks_reqProbes sc sent false (lifo 0 sc.shuts)
  have NP := shutHooks_not_panicked sc.metrics sent sc.reqs false (lifo 0 sc.shuts)
  unfold shutdownSeq shutdownTail
  simp only []
  generalize shutHooks sc.metrics sent sc.reqs false (lifo 0 sc.shuts) = sh at *
  obtain ⟨T1, T2, T3⟩ := T
  have SP := lemma_shutProbes sc sh.evs P
  obtain ⟨c, hc⟩ := b.starts
  have hcond : ((sc.starts.find? startFails).isNone && sc.listen == Listen.ok) = true := by
    simp [hnf, hl]
  by_cases hp : sh.panicked = true
  · -- a panicking OnShutdown hook: the panic leaves Start, the hooks before it ran LIFO
    simp only [hp, if_true]
    have wk := b.wk sh.evs [] [] [] K (kindsIn_nil _) (kindsIn_nil _) (kindsIn_nil _)
    simp only [holds, Run.obs, hcond, if_true, Bool.and_eq_true]
    refine ⟨⟨⟨⟨lemma_returnsOnce sc wk b.postEnv, lemma_startsOk sc wk c hc⟩, lemma_readiesOk sc wk (Or.inr b.readies)⟩,
      lemma_reloadsOk wk rres b.sorted hres _ rfl rfl⟩, ?_⟩
    simp only [shutdownOk, Bool.and_eq_true]
    refine ⟨⟨Segs.log_guarded wk b.hasSig, ?_⟩, ?_⟩
    · rw [Segs.log_shutProbe wk]; exact SP
    · rw [T1] at hp
      obtain ⟨p, hpp⟩ := Option.isSome_iff_exists.mp hp
      rw [hpp] at T2
      simp only [hpp, beq_iff_eq]
      rw [Segs.log_shutTag wk]
      simpa using T2
  · -- no panic: drain, flush, OnStop hooks, return
    have hp' : sh.panicked = false := by simpa using hp
    have hlp : lastPanic sc.shuts 0 = none := by
      rw [hp'] at T1
      cases h : lastPanic sc.shuts 0 with
      | none => rfl
      | some p => rw [h] at T1; simp at T1
    rw [hlp] at T2
    simp only [hp', Bool.false_eq_true, if_false, repaired, Bool.not_true, Bool.and_false, Bool.true_or,
      Bool.and_true]
    generalize hd : (sent && !sh.expired) = drained
    generalize ht : (sent && sc.reqs.any (stuck sc.shuts.length sh.expired) || sh.expired && race) = timeout
    have wk := b.wk sh.evs (if drained = true then drainEvs sc.metrics 0 sc.reqs else [])
      (flushIf sc.tracing) (stopHooks 0 sc.stops) K
      (by split
          · exact drainEvs_kinds _ _ _
          · exact kindsIn_nil _)
      (flushIf_kinds _) (stopHooks_kinds _ _)
    simp only [holds, Run.obs, hcond, if_true, Bool.and_eq_true]
    refine ⟨⟨⟨⟨lemma_returnsOnce sc wk b.postEnv, lemma_startsOk sc wk c hc⟩, lemma_readiesOk sc wk (Or.inr b.readies)⟩,
      lemma_reloadsOk wk rres b.sorted hres _ rfl rfl⟩, ?_⟩
    simp only [shutdownOk, Bool.and_eq_true]
    refine ⟨⟨Segs.log_guarded wk b.hasSig, ?_⟩, ?_⟩
    · rw [Segs.log_shutProbe wk]; exact SP
    · -- tailOk, whichever of the two results
      have tail : tailOk sc
          { log := ({ s with shuts := sh.evs,
                             drain := if drained = true then drainEvs sc.metrics 0 sc.reqs else [],
                             flush := flushIf sc.tracing, stops := stopHooks 0 sc.stops } : Segs).log,
            res := if timeout = true then Res.errDrain else Res.ok,
            finApp := false, finMet := false, finHeld := false,
            reqs := sc.reqs.map (reqResOf sent (shutRanIdx sc.shuts.length (firstPanicIdx (lifo 0 sc.shuts)))
                      drained),
            rounds := rres } = true := by
        simp only [tailOk, Bool.and_eq_true, beq_iff_eq]
        refine ⟨⟨⟨?_, ?_⟩, ?_⟩, lemma_orderOk wk⟩
        · rw [Segs.log_shutTag wk]; simpa using T2
        · -- requests
          simp only [requestsOk, Bool.and_eq_true]
          refine ⟨⟨⟨?_, ?_⟩, ?_⟩, ?_⟩
          · cases timeout with
            | true =>
              simp only [if_true, bne_self_eq_false, Bool.false_or]
              exact lemma_timeoutLegit sc sent sh.expired race E ht
            | false => simp
          · cases timeout with
            | true => simp
            | false =>
              simp only [Bool.false_eq_true, if_false, bne_self_eq_false, Bool.false_or]
              simp only [allComplete]
              rw [Segs.log_reqInIdx wk]
              show (s.reqIns.filterMap reqInIdx).all _ = true
              rw [b.reqIns]
              cases sent with
              | false => simp
              | true =>
                simp only [if_true, reqIns_idx, List.all_eq_true, List.mem_range'_1, Nat.zero_add, Nat.zero_le,
                  true_and]
                intro k hk
                have hns : sc.reqs.any (stuck sc.shuts.length sh.expired) = false := by
                  simp only [Bool.true_and, Bool.or_eq_false_iff] at ht
                  exact ht.1
                rw [← hd]
                exact lemma_allComplete sc sh.expired _ (NP hp') hns k hk
          · simp only [Bool.or_eq_true]; right; exact lemma_reqRes_ne_incomplete _ _ _ _
          · rw [Segs.log_reqProbe wk]
            simp only [Bool.and_eq_true]
            refine ⟨Q, ?_⟩
            show (if drained = true then drainEvs sc.metrics 0 sc.reqs else []).all _ = true
            split
            · exact drainEvs_probes sc 0 sc.reqs
            · rfl
        · -- flush and OnStop
          simp only [flushStopOk, Bool.and_eq_true]
          refine ⟨⟨⟨⟨?_, ?_⟩, ?_⟩, rfl⟩, rfl⟩
          · rw [Segs.log_countFlush wk]
            show (!sc.tracing || (flushIf sc.tracing).count Ev.flush == 1) = true
            rw [lemma_count_flushIf]
            cases sc.tracing <;> rfl
          · rw [Segs.log_stopTag wk]
            show eachOnce ((stopHooks 0 sc.stops).filterMap stopTag) sc.stops.length = true
            rw [stopHooks_tags]; exact eachOnce_seqUp _
          · rw [Segs.log_stopProbe wk]
            exact stopHooks_probes 0 _ sc.stops (by omega)
      cases timeout with
      | true => simp only [if_true] at tail ⊢; exact tail
      | false => simp only [Bool.false_eq_true, if_false] at tail ⊢; exact tail


theorem lemma_naRounds (sc : Scenario) : (naRounds sc).all (· != .panic) = true := by
  simp [naRounds]

theorem lemma_failed_wk (sc : Scenario) (c : Bool) (fl : List Ev) (hfl : kindsIn [.flush] fl) :
    Segs.WK { starts := (startHooks sc.metrics 0 c sc.starts).evs, flush := fl } where
  starts := startHooks_kinds _ _ _ _
  readies := kindsIn_nil _
  reqIns := kindsIn_nil _
  reloads := kindsIn_nil _
  sig := kindsIn_nil _
  shuts := kindsIn_nil _
  drain := kindsIn_nil _
  flush := hfl
  stops := kindsIn_nil _
  post := kindsIn_nil _

/-- what a failed start-up looks like -/
def failedObs (sc : Scenario) (c : Bool) (res : Res) (finMet finHeld tr : Bool) : Obs :=
  { log := ({ starts := (startHooks sc.metrics 0 c sc.starts).evs, flush := flushIf tr } : Segs).log,
    res := res, finApp := false, finMet := finMet, finHeld := finHeld, reqs := naReqs sc, rounds := naRounds sc }

/-- a failed start-up of the repaired code: nothing is left running -/
theorem lemma_failed (sc : Scenario) (c : Bool) (res : Res) (finMet finHeld : Bool) (tr : Bool)
    (hcond : ((sc.starts.find? startFails).isNone && sc.listen == Listen.ok) = false)
    (hres : match sc.starts.find? startFails with
      | some .panic => res = .panic
      | some _ => res = .errStartup ∧ (finMet = false ∧ finHeld = false) ∧ tr = sc.tracing
      | none => res = .errListen ∧ (finMet = false ∧ finHeld = false) ∧ tr = sc.tracing) :
    holds sc (failedObs sc c res finMet finHeld tr) = true := by
  have wk := lemma_failed_wk sc c (flushIf tr) (flushIf_kinds _)
  simp only [holds, hcond, Bool.false_eq_true, if_false, Bool.and_eq_true]
  refine ⟨⟨⟨⟨lemma_returnsOnce sc wk rfl, lemma_startsOk sc wk c rfl⟩, lemma_readiesOk sc wk (Or.inl rfl)⟩,
    lemma_reloadsOk wk _ (by simp [ids_nil]) (lemma_naRounds sc) _ rfl rfl⟩, ?_⟩
  have clean : tr = sc.tracing → (finMet = false ∧ finHeld = false) →
      telemetryClean sc (failedObs sc c res finMet finHeld tr) = true := by
    intro h1 h2
    obtain ⟨h2, h3⟩ := h2
    subst h1 h2 h3
    simp only [telemetryClean, failedObs, Bool.not_false, Bool.true_and, Bool.or_eq_true, Bool.and_eq_true,
      beq_iff_eq]
    cases htr : sc.tracing
    · left; rfl
    · right
      have wk' := lemma_failed_wk sc c (flushIf true) (flushIf_kinds _)
      refine ⟨?_, Segs.log_precedes wk' _ _ .flush .ret isFlush_kind isRet_kind (by decide)⟩
      rw [Segs.log_countFlush wk']
      rfl
  have fa : (failedObs sc c res finMet finHeld tr).finApp = false := rfl
  have fr : (failedObs sc c res finMet finHeld tr).res = res := rfl
  simp only [failedStartOk, Bool.and_eq_true]
  refine ⟨?_, ?_⟩
  · show (!(({ starts := (startHooks sc.metrics 0 c sc.starts).evs, flush := flushIf tr } : Segs).log.any isReady)) = true
    rw [Segs.log_anyReady wk]; rfl
  · cases hf : sc.starts.find? startFails with
    | none =>
      rw [hf] at hres
      obtain ⟨h1, h2, h3⟩ := hres
      simp only [Bool.and_eq_true, fa, fr]
      exact ⟨⟨by rw [h1]; rfl, rfl⟩, clean h3 h2⟩
    | some bb =>
      rw [hf] at hres
      cases bb with
      | panic => simp only at hres; subst hres; simp only [Bool.or_eq_true, beq_iff_eq]; left; rfl
      | ok =>
        obtain ⟨h1, h2, h3⟩ := hres
        simp only [Bool.and_eq_true, fa, fr]; exact ⟨⟨by rw [h1]; rfl, rfl⟩, clean h3 h2⟩
      | err =>
        obtain ⟨h1, h2, h3⟩ := hres
        simp only [Bool.and_eq_true, fa, fr]; exact ⟨⟨by rw [h1]; rfl, rfl⟩, clean h3 h2⟩
      | block =>
        obtain ⟨h1, h2, h3⟩ := hres
        simp only [Bool.and_eq_true, fa, fr]; exact ⟨⟨by rw [h1]; rfl, rfl⟩, clean h3 h2⟩
      | cancelOk =>
        obtain ⟨h1, h2, h3⟩ := hres
        simp only [Bool.and_eq_true, fa, fr]; exact ⟨⟨by rw [h1]; rfl, rfl⟩, clean h3 h2⟩


theorem lemma_any_append_left {l : List Ev} (l2 : List Ev) (p : Ev → Bool) (h : l.any p = true) :
    (l ++ l2).any p = true := by simp [List.any_append, h]


end Rivaas.C09
