import Rivaas.Lemmas.BindAllRef
import Rivaas.Lemmas.BindSound
import Rivaas.Lemmas.BindMain
import Rivaas.Spec.BindAll
/-
C04 — `WithAllErrors`: the structural collecting binder meets the collecting oracle, item by item: every reported
error is one the oracle admits for some item (`ItemsErr`), and every item whose only admissible outcome is an error -
a reached, unambiguous leaf without admissible value; a nested struct at the first depth beyond the limit - is named
by a reported error (`ItemsAll`). Induction over the type (`lemma_refAll_fld` / `lemma_refAll_fs`) and over the
nesting levels the depth limit allows (`lemma_bindAtAll_spec`).
-/
set_option linter.unusedSimpArgs false
set_option linter.unusedVariables false
namespace Rivaas.Bind
open Spec

/-! ### nodes lie at depth ≥ 1 -/

mutual
theorem lemma_node_depth_fld (tag : Tag) (k : Nat) (h : FieldHdr) :
    ∀ (t : Ty) (n : Node), Item.node n ∈ itemsFld tag k h t → 1 ≤ n.depth
  | .struct sub, n, hx => by
    unfold itemsFld at hx
    split at hx
    · simp at hx
    · split at hx
      · simp only [List.mem_map] at hx
        obtain ⟨y, hy, hyx⟩ := hx
        cases y with
        | node n0 =>
          simp only [Item.under, Item.node.injEq] at hyx
          subst hyx
          exact lemma_node_depth_fs tag sub 0 n0 hy
        | leaf l => simp [Item.under] at hyx
        | frame f => simp [Item.under] at hyx
      · split at hx
        · simp at hx
        · simp only [List.mem_cons, List.mem_map, Item.node.injEq] at hx
          rcases hx with rfl | ⟨y, hy, hyx⟩
          · simp
          · cases y with
            | node n0 => simp only [Item.below, Item.node.injEq] at hyx; subst hyx; simp
            | leaf l => simp [Item.below] at hyx
            | frame f => simp [Item.below] at hyx
  | .ptr (.struct sub), n, hx => by
    unfold itemsFld at hx
    split at hx
    · simp at hx
    · split at hx
      · simp only [List.mem_map] at hx
        obtain ⟨y, hy, hyx⟩ := hx
        cases y with
        | node n0 =>
          simp only [Item.under, Item.node.injEq] at hyx
          subst hyx
          exact lemma_node_depth_fs tag sub 0 n0 hy
        | leaf l => simp [Item.under] at hyx
        | frame f => simp [Item.under] at hyx
      · split at hx
        · simp at hx
        · simp only [List.mem_cons, List.mem_map, Item.node.injEq] at hx
          rcases hx with rfl | ⟨y, hy, hyx⟩
          · simp
          · cases y with
            | node n0 => simp only [Item.below, Item.node.injEq] at hyx; subst hyx; simp
            | leaf l => simp [Item.below] at hyx
            | frame f => simp [Item.below] at hyx
  | .prim p, n, hx => by
    simp only [itemsFld] at hx
    split at hx
    · simp at hx
    · split at hx <;> simp at hx
  | .slice e, n, hx => by
    simp only [itemsFld] at hx
    split at hx
    · simp at hx
    · split at hx <;> simp at hx
  | .map e, n, hx => by
    simp only [itemsFld] at hx
    split at hx
    · simp at hx
    · split at hx <;> simp at hx
  | .ptr (.prim p), n, hx => by
    simp only [itemsFld] at hx
    split at hx
    · simp at hx
    · split at hx <;> simp at hx
  | .ptr (.ptr e), n, hx => by
    simp only [itemsFld] at hx
    split at hx
    · simp at hx
    · split at hx <;> simp at hx
  | .ptr (.slice e), n, hx => by
    simp only [itemsFld] at hx
    split at hx
    · simp at hx
    · split at hx <;> simp at hx
  | .ptr (.map e), n, hx => by
    simp only [itemsFld] at hx
    split at hx
    · simp at hx
    · split at hx <;> simp at hx
theorem lemma_node_depth_fs (tag : Tag) :
    ∀ (fs : List Fld) (i : Nat) (n : Node), Item.node n ∈ itemsFs tag i fs → 1 ≤ n.depth
  | [], i, n, hx => by simp [itemsFs] at hx
  | (h, t) :: rest, i, n, hx => by
    simp only [itemsFs, List.mem_append] at hx
    rcases hx with hx | hx
    · exact lemma_node_depth_fld tag i h t n hx
    · exact lemma_node_depth_fs tag rest (i+1) n hx
end

/-! ### the errors of a field that is not a struct are single and atomic -/

theorem lemma_setSlice_err_atomic (P : Params) (cfg : Cfg) (ty : Ty) (cur : Val) (vs : List Bytes) (e : Err)
    (h : setSlice P cfg ty cur vs = .error e) : errNames e = [] := by
  rcases lemma_setSlice_err P cfg ty cur vs e h with rfl | rfl <;> rfl

theorem lemma_bindMapEntries_err (P : Params) (cfg : Cfg) (vty : Ty) (pre : Bytes) :
    ∀ (kvs : List (Bytes × List Bytes)) (count : Nat) (m : List (Bytes × Val)) (e : Err),
      bindMapEntries P cfg vty pre kvs count m = .error e → errNames e = []
  | [], _, _, e, h => by simp [bindMapEntries] at h
  | (key, vals) :: rest, count, m, e, h => by
    simp only [bindMapEntries] at h
    split at h
    · exact lemma_bindMapEntries_err P cfg vty pre rest count m e h
    · split at h
      · cases h; rfl
      · split at h
        · cases h; rfl
        · split at h
          · cases h; rfl
          · exact lemma_bindMapEntries_err P cfg vty pre rest _ _ e h

theorem lemma_jsonEntries_err (P : Params) (cfg : Cfg) (vty : Ty) :
    ∀ (es : List (Bytes × Bytes)) (m : List (Bytes × Val)) (e : Err),
      jsonEntries P cfg vty es m = .error e → errNames e = []
  | [], _, e, h => by simp [jsonEntries] at h
  | (k, sv) :: rest, m, e, h => by
    simp only [jsonEntries] at h
    split at h
    · cases h; rfl
    · exact lemma_jsonEntries_err P cfg vty rest _ e h

theorem lemma_setMap_err (P : Params) (cfg : Cfg) (ty : Ty) (cur : Val) (g : Getter) (name : Bytes) (e : Err)
    (h : setMap P cfg ty cur g name = .error e) : errNames e = [] := by
  unfold setMap at h
  simp only at h
  repeat' split at h
  all_goals first
    | (simp at h; done)
    | (cases h; rfl)
    | (cases h; exact lemma_bindMapEntries_err P cfg _ _ _ _ _ _ (by assumption))
    | (cases h; exact lemma_jsonEntries_err P cfg _ _ _ _ (by assumption))
    | (cases h; contradiction)

/-- a field whose type is not a struct: the collecting step stores what the plain step stores, or skips the field
    with the plain step's single error, whose class is atomic -/
theorem lemma_leaf_step (P : Params) (cfg : Cfg) (nest : Nest) (nestA : NestAll) (g : Getter) (depth : Nat)
    (f : FieldInfo) (cur : Val) (hs : isStructTy f.ty = false) :
    (∃ nv, fieldAction P cfg nest g depth f cur = .inl nv ∧ fieldActionAll P cfg nestA g depth f cur = .store nv []) ∨
    (∃ c, errNames c = [] ∧ fieldAction P cfg nest g depth f cur = .inr (.err (.bind f.name c)) ∧
      fieldActionAll P cfg nestA g depth f cur = .skip [.bind f.name c]) := by
  unfold fieldAction fieldActionAll
  by_cases hm : isMapTy f.ty = true
  · simp only [hm, if_true]
    cases hsm : setMap P cfg f.ty cur g f.tagName with
    | error e => exact Or.inr ⟨e, lemma_setMap_err P cfg _ _ _ _ e hsm, rfl, rfl⟩
    | ok nv => exact Or.inl ⟨nv, rfl, rfl⟩
  · simp only [hm, Bool.false_eq_true, if_false, hs]
    cases hl : lookupField g f with
    | mk key rest =>
      cases rest with
      | mk value has =>
        simp only []
        cases htd : (if has = true then none else f.typedDefault) with
        | some dv => exact Or.inl ⟨dv, rfl, rfl⟩
        | none =>
          simp only []
          by_cases hsl : isSliceTy f.ty = true
          · simp only [hsl, if_true]
            cases hss : setSlice P cfg f.ty cur (g.getAll key) with
            | error e => exact Or.inr ⟨e, lemma_setSlice_err_atomic P cfg _ _ _ e hss, rfl, rfl⟩
            | ok nv => exact Or.inl ⟨nv, rfl, rfl⟩
          · simp only [hsl, Bool.false_eq_true, if_false]
            cases setField P cfg f.ty cur (if has = true then value else f.dflt) with
            | none => exact Or.inr ⟨.conv, rfl, rfl, rfl⟩
            | some nv => exact Or.inl ⟨nv, rfl, rfl⟩

/-! ### the collecting oracle, item by item -/

/-- the reported errors `es` against the items `its`, seen through getter `g` at depth `d`: every error is admitted
    for some item; every leaf that is unambiguous, reached and without admissible value, and every node at the first
    depth beyond the limit, is named by one of them -/
def ItemsAll (P : Params) (cfg : Cfg) (g : Getter) (d : Nat) (its : List Item) (init : Val) (es : List Err) : Prop :=
  (∀ e ∈ es, ItemsErr P cfg g d its init e) ∧
  (∀ l, Item.leaf l ∈ its → ambiguous g.src (keyed g l) = true ∨ ¬ (d + l.names.length ≤ cfg.maxDepth + 1) ∨
      (expect P cfg g.src init (keyed g l)).oks ≠ [] ∨ ∃ e ∈ es, errNames e = l.names) ∧
  (∀ n, Item.node n ∈ its → d + n.depth = cfg.maxDepth + 1 → ∃ e ∈ es, errNames e = n.names)

theorem lemma_itemsAll_nil (P : Params) (cfg : Cfg) (g : Getter) (d : Nat) (init : Val) :
    ItemsAll P cfg g d [] init [] := by
  unfold ItemsAll; simp

theorem lemma_itemsAll_append (P : Params) (cfg : Cfg) (g : Getter) (d : Nat) (a b : List Item) (init : Val)
    (ea eb : List Err) (ha : ItemsAll P cfg g d a init ea) (hb : ItemsAll P cfg g d b init eb) :
    ItemsAll P cfg g d (a ++ b) init (ea ++ eb) := by
  obtain ⟨a1, a2, a3⟩ := ha
  obtain ⟨b1, b2, b3⟩ := hb
  refine ⟨?_, ?_, ?_⟩
  · intro e he
    rcases List.mem_append.1 he with he | he
    · exact lemma_itemsErr_left P cfg g d a b init e (a1 e he)
    · exact lemma_itemsErr_right P cfg g d a b init e (b1 e he)
  · intro l hl
    rcases List.mem_append.1 hl with hl | hl
    · rcases a2 l hl with h | h | h | ⟨e, he, hn⟩
      · exact Or.inl h
      · exact Or.inr (Or.inl h)
      · exact Or.inr (Or.inr (Or.inl h))
      · exact Or.inr (Or.inr (Or.inr ⟨e, List.mem_append.2 (Or.inl he), hn⟩))
    · rcases b2 l hl with h | h | h | ⟨e, he, hn⟩
      · exact Or.inl h
      · exact Or.inr (Or.inl h)
      · exact Or.inr (Or.inr (Or.inl h))
      · exact Or.inr (Or.inr (Or.inr ⟨e, List.mem_append.2 (Or.inr he), hn⟩))
  · intro n hn hd
    rcases List.mem_append.1 hn with hn | hn
    · obtain ⟨e, he, hx⟩ := a3 n hn hd
      exact ⟨e, List.mem_append.2 (Or.inl he), hx⟩
    · obtain ⟨e, he, hx⟩ := b3 n hn hd
      exact ⟨e, List.mem_append.2 (Or.inr he), hx⟩

/-- items the plain oracle is satisfied with need no error -/
theorem lemma_itemsAll_of_ok (P : Params) (cfg : Cfg) (g : Getter) (d : Nat) (its : List Item) (init res : Val)
    (h : ItemsOK P cfg g d its init res) : ItemsAll P cfg g d its init [] := by
  obtain ⟨h1, h2, _⟩ := h
  refine ⟨by simp, ?_, ?_⟩
  · intro l hl
    rcases h1 l hl with h | ⟨e, he, _⟩
    · exact Or.inl h
    · exact Or.inr (Or.inr (Or.inl (List.ne_nil_of_mem he)))
  · intro n hn hd
    have := h2 n hn
    omega

variable (P : Params) (cfg : Cfg) (tag : Tag)

/-- outcome of the structural collecting binder on field `k`, against the items of that field -/
def FldSpecAll (g : Getter) (d k : Nat) (its : List Item) (iv : Val) : Option (Val × List Err) → Prop
  | some (_, es) => ∀ init : List Val, init[k]? = some iv → ItemsAll P cfg g d its (.struct init) es
  | none => False

/-- … on the fields from position `i` on -/
def FsSpecAll (g : Getter) (d i : Nat) (its : List Item) (ivs : List Val) : Option (List Val × List Err) → Prop
  | some (_, es) => ∀ init : List Val, (∀ j, init[i + j]? = ivs[j]?) → ItemsAll P cfg g d its (.struct init) es
  | none => False

/-- the collecting treatment of nested structs meets the collecting oracle at depth `d` -/
def NestSpecAll (nestA : NestAll) (d : Nat) : Prop :=
  ∀ (nfs : List Fld) (ivs : List Val) (g : Getter), wts nfs ivs = true → inGrammarFs nfs = true → srcOK g.src = true →
    match nestA nfs (.struct ivs) g d with
    | .done _ es => ItemsAll P cfg g d (itemsFs tag 0 nfs) (.struct ivs) es
    | .panic => False

theorem lemma_fldspecAll_frame (g : Getter) (d k : Nat) (t : Ty) (iv : Val) (rv : Val) :
    FldSpecAll P cfg g d k [.frame { path := [k], ty := t }] iv (some (rv, [])) := by
  intro init _
  refine ⟨by simp, by simp, by simp⟩

/-! ### one leaf field -/

theorem lemma_leafAll_fld (nest : Nest) (nestA : NestAll) (g : Getter) (d k : Nat) (h : FieldHdr) (t : Ty) (iv : Val)
    (hns : isStructTy t = false) (hex : h.exported = true)
    (hplain : FldSpec P cfg g d k (leafItems tag k h t) iv (refLeaf P cfg nest tag g d h t iv)) :
    FldSpecAll P cfg g d k (leafItems tag k h t) iv (refLeafAll P cfg nestA tag g d h t iv) := by
  have link := lemma_mkInfo_link P tag [] h t
  unfold refLeaf at hplain
  unfold refLeafAll
  have hok : ∀ rv, FldSpec P cfg g d k (leafItems tag k h t) iv (.inl rv) →
      FldSpecAll P cfg g d k (leafItems tag k h t) iv (some (rv, [])) := by
    intro rv hp init hi
    have hlt : k < init.length := by
      cases hlt : decide (k < init.length) with
      | true => simpa using hlt
      | false =>
        have : init.length ≤ k := by simpa using hlt
        simp [List.getElem?_eq_none this] at hi
    exact lemma_itemsAll_of_ok P cfg g d _ _ (.struct (init.set k rv)) (hp init (init.set k rv) hi (by simp [hlt]))
  cases htn : tagNames (h.tag tag) h.name (tag == .form) with
  | none =>
    rw [htn] at link
    simp only [link] at hplain ⊢
    exact hok iv hplain
  | some pa =>
    obtain ⟨p, as⟩ := pa
    rw [htn] at link
    obtain ⟨f, hmk, h1, h2, h3, h4, h5, h6⟩ := link
    simp only [hmk] at hplain ⊢
    by_cases hwf : wants g f = true
    · simp only [hwf, Bool.not_true, Bool.false_eq_true, if_false] at hplain ⊢
      rcases lemma_leaf_step P cfg nest nestA g d f iv (by rw [h4]; exact hns) with ⟨nv, hp, ha⟩ | ⟨c, hc, hp, ha⟩
      · rw [hp] at hplain
        simp only [ha]
        exact hok nv hplain
      · rw [hp] at hplain
        simp only [ha]
        intro init hi
        refine ⟨?_, ?_, ?_⟩
        · intro e he
          simp only [List.mem_singleton] at he
          subst he
          exact hplain init hi
        · intro l hl
          have : l.names = [h.name] := by
            simp only [leafItems, hex, htn, Bool.not_true, Bool.false_eq_true, if_false, List.mem_singleton, Item.leaf.injEq] at hl
            subst hl
            rfl
          right; right; right
          exact ⟨_, List.mem_singleton.2 rfl, by simp [errNames, hc, this, h3]⟩
        · intro n hn
          simp [leafItems, hex, htn] at hn
    · have hwf' : wants g f = false := by simpa using hwf
      simp only [hwf', Bool.not_false, if_true] at hplain ⊢
      exact hok iv hplain

/-! ### lifting through an embedded / a nested struct field -/

theorem lemma_under_all (g : Getter) (d k : Nat) (its : List Item) (Init : List Val) (init' : Val) (es : List Err)
    (hi : InitRel Init k init' its) (h : ItemsAll P cfg g d its init' es) :
    ItemsAll P cfg g d (its.map (Item.under k)) (.struct Init) es := by
  obtain ⟨h1, h2, h3⟩ := h
  refine ⟨fun e he => lemma_under_err P cfg g d k its Init init' e hi (h1 e he), ?_, ?_⟩
  · intro l hl
    simp only [List.mem_map] at hl
    obtain ⟨x, hx, hxl⟩ := hl
    cases x with
    | node n => simp [Item.under] at hxl
    | frame f => simp [Item.under] at hxl
    | leaf l0 =>
      simp only [Item.under, Item.leaf.injEq] at hxl
      subst hxl
      rw [lemma_keyed_under, lemma_amb_path,
        lemma_transfer_expect P cfg g.src (keyed g l0) k (keyed g l0).names (.struct Init) init' (hi _ hx (l0.path, l0.ty) rfl)]
      exact h2 l0 hx
  · intro n hn hd
    simp only [List.mem_map] at hn
    obtain ⟨x, hx, hxl⟩ := hn
    cases x with
    | leaf l0 => simp [Item.under] at hxl
    | frame f => simp [Item.under] at hxl
    | node n0 =>
      simp only [Item.under, Item.node.injEq] at hxl
      subst hxl
      exact h3 n0 hx hd

theorem lemma_below_all (g : Getter) (d k : Nat) (name p : Bytes) (its : List Item) (Init : List Val) (init' : Val)
    (es : List Err) (hi : InitRel Init k init' its) (hd : d + 1 ≤ cfg.maxDepth)
    (h : ItemsAll P cfg (g.push p) (d + 1) its init' es) :
    ItemsAll P cfg g d (.node { names := [name], depth := 1 } :: its.map (Item.below k name p)) (.struct Init)
      (es.map (.bind name)) := by
  obtain ⟨h1, h2, h3⟩ := h
  refine ⟨?_, ?_, ?_⟩
  · intro e' he'
    simp only [List.mem_map] at he'
    obtain ⟨e, he, hee⟩ := he'
    subst hee
    exact lemma_below_err P cfg g d k name p its Init init' e hi (h1 e he)
  · intro l hl
    simp only [List.mem_cons, reduceCtorEq, false_or, List.mem_map] at hl
    obtain ⟨x, hx, hxl⟩ := hl
    cases x with
    | node n => simp [Item.below] at hxl
    | frame f => simp [Item.below] at hxl
    | leaf l0 =>
      simp only [Item.below, Item.leaf.injEq] at hxl
      subst hxl
      rw [lemma_keyed_below, lemma_amb_path,
        lemma_transfer_expect P cfg g.src (keyed (g.push p) l0) k (name :: l0.names) (.struct Init) init' (hi _ hx (l0.path, l0.ty) rfl)]
      rcases h2 l0 hx with h | h | h | ⟨e, he, hn⟩
      · exact Or.inl h
      · refine Or.inr (Or.inl ?_)
        simp only [Leaf.below, List.length_cons]
        omega
      · exact Or.inr (Or.inr (Or.inl h))
      · exact Or.inr (Or.inr (Or.inr ⟨.bind name e, List.mem_map.2 ⟨e, he, rfl⟩, by simp [errNames, hn, Leaf.below]⟩))
  · intro n hn hdn
    simp only [List.mem_cons, Item.node.injEq, List.mem_map] at hn
    rcases hn with rfl | ⟨x, hx, hxl⟩
    · simp only at hdn; omega
    · cases x with
      | leaf l0 => simp [Item.below] at hxl
      | frame f => simp [Item.below] at hxl
      | node n0 =>
        simp only [Item.below, Item.node.injEq] at hxl
        subst hxl
        simp only at hdn
        obtain ⟨e, he, hne⟩ := h3 n0 hx (by omega)
        exact ⟨.bind name e, List.mem_map.2 ⟨e, he, rfl⟩, by simp [errNames, hne]⟩

/-- a nested struct beyond the depth limit: the field is reported, nothing below it is reached -/
theorem lemma_toodeep_all (g : Getter) (d k : Nat) (name p : Bytes) (its : List Item) (Init : Val)
    (hdep : cfg.maxDepth < d + 1) (hdepth : ∀ n, Item.node n ∈ its → 1 ≤ n.depth) :
    ItemsAll P cfg g d (.node { names := [name], depth := 1 } :: its.map (Item.below k name p)) Init
      [.bind name .depth] := by
  refine ⟨?_, ?_, ?_⟩
  · intro e he
    simp only [List.mem_singleton] at he
    subst he
    right
    exact ⟨{ names := [name], depth := 1 }, by simp, hdep, rfl⟩
  · intro l hl
    simp only [List.mem_cons, reduceCtorEq, false_or, List.mem_map] at hl
    obtain ⟨x, hx, hxl⟩ := hl
    cases x with
    | node n => simp [Item.below] at hxl
    | frame f => simp [Item.below] at hxl
    | leaf l0 =>
      simp only [Item.below, Item.leaf.injEq] at hxl
      subst hxl
      cases hnm : l0.names with
      | nil =>
        right; right; right
        exact ⟨_, List.mem_singleton.2 rfl, by simp [errNames, Leaf.below, hnm]⟩
      | cons a r =>
        refine Or.inr (Or.inl ?_)
        simp only [Leaf.below, hnm, List.length_cons]
        omega
  · intro n hn hdn
    simp only [List.mem_cons, Item.node.injEq, List.mem_map] at hn
    rcases hn with rfl | ⟨x, hx, hxl⟩
    · exact ⟨_, List.mem_singleton.2 rfl, rfl⟩
    · cases x with
      | leaf l0 => simp [Item.below] at hxl
      | frame f => simp [Item.below] at hxl
      | node n0 =>
        simp only [Item.below, Item.node.injEq] at hxl
        subst hxl
        have := hdepth n0 hx
        simp only at hdn
        omega

/-! ### a nested struct field -/

theorem lemma_nestedAll_fld (nestA : NestAll) (g : Getter) (hs : srcOK g.src = true) (d : Nat)
    (hn : d + 1 ≤ cfg.maxDepth → NestSpecAll P cfg tag nestA (d + 1))
    (k : Nat) (h : FieldHdr) (nfs : List Fld) (isPtr : Bool) (iv : Val) (hg : inGrammarFs nfs = true)
    (hw : wt (if isPtr then .ptr (.struct nfs) else .struct nfs) iv = true) :
    FldSpecAll P cfg g d k (nestedItems tag k h (if isPtr then .ptr (.struct nfs) else .struct nfs) nfs) iv
      (refLeafAll P cfg nestA tag g d h (if isPtr then .ptr (.struct nfs) else .struct nfs) iv) := by
  have link := lemma_mkInfo_link P tag [] h (if isPtr then .ptr (.struct nfs) else .struct nfs)
  unfold nestedItems refLeafAll
  cases htn : tagNames (h.tag tag) h.name (tag == .form) with
  | none =>
    rw [htn] at link
    simp only [link]
    exact lemma_fldspecAll_frame P cfg g d k _ iv iv
  | some pa =>
    obtain ⟨p, as⟩ := pa
    rw [htn] at link
    obtain ⟨f, hmk, h1, h2, h3, h4, h5, h6⟩ := link
    have hst : isStructTy f.ty = true := by rw [h4]; cases isPtr <;> simp [isStructTy, structFields?]
    have hmp : isMapTy f.ty = false := by rw [h4]; cases isPtr <;> simp [isMapTy]
    have hwants : wants g f = true := by simp [wants, hst]
    have hnfs : structTyOf f.ty = nfs := by rw [h4]; cases isPtr <;> simp [structTyOf]
    simp only [hmk, hwants, Bool.not_true, Bool.false_eq_true, if_false]
    unfold fieldActionAll
    simp only [hmp, hst, Bool.false_eq_true, if_false, if_true, hnfs]
    by_cases hdep : cfg.maxDepth < d + 1
    · simp only [hdep, if_true]
      intro init _
      rw [h3]
      exact lemma_toodeep_all P cfg g d k h.name p _ _ hdep (fun n hn => lemma_node_depth_fs tag nfs 0 n hn)
    · simp only [hdep, if_false]
      have hd : d + 1 ≤ cfg.maxDepth := by omega
      have hspec := hn hd
      obtain ⟨ivs, hinner, hwts, hirel⟩ : ∃ ivs, innerOf nfs iv = .struct ivs ∧ wts nfs ivs = true ∧
          ∀ Init : List Val, Init[k]? = some iv → InitRel Init k (.struct ivs) (itemsFs tag 0 nfs) := by
        cases isPtr with
        | false =>
          simp only [Bool.false_eq_true, if_false] at hw
          cases iv with
          | struct cs =>
            exact ⟨cs, rfl, by simpa [wt] using hw, fun Init hk => lemma_initrel_same Init k _ _ hk⟩
          | _ => simp [wt] at hw
        | true =>
          simp only [if_true] at hw
          cases iv with
          | nil =>
            refine ⟨zeroFs nfs, by simp [innerOf, zero], lemma_wts_zero nfs, fun Init hk => ?_⟩
            exact lemma_initrel_nil Init k _ _ hk (fun x hx pt hpt => lemma_items_paths tag nfs x hx pt hpt)
          | ptr y =>
            cases y with
            | struct cs =>
              refine ⟨cs, rfl, by simpa [wt] using hw, fun Init hk => ?_⟩
              exact lemma_initrel_ptr Init k _ _ hk (fun x hx pt hpt => (lemma_items_paths tag nfs x hx pt hpt).1)
            | _ => simp [wt] at hw
          | _ => simp [wt] at hw
      rw [hinner]
      have hsp := hspec nfs ivs (g.push f.tagName) hwts hg hs
      cases hr : nestA nfs (.struct ivs) (g.push f.tagName) (d + 1) with
      | panic => rw [hr] at hsp; exact hsp
      | done nv es =>
        rw [hr] at hsp
        simp only
        intro init hi
        rw [h3, ← h1]
        exact lemma_below_all P cfg g d k h.name f.tagName _ init _ es (hirel init hi) hd hsp

/-! ### the structural collecting binder meets the collecting oracle -/

def embLiftAll (wrap : Val → Val) : Option (List Val × List Err) → Option (Val × List Err)
  | some (cs', es) => some (wrap (.struct cs'), es)
  | none => none

theorem lemma_embeddedAll_lift (g : Getter) (d k : Nat) (sub : List Fld) (cs : List Val) (iv : Val) (wrap : Val → Val)
    (hinit : ∀ Init : List Val, Init[k]? = some iv → InitRel Init k (.struct cs) (itemsFs tag 0 sub))
    (r : Option (List Val × List Err)) (h : FsSpecAll P cfg g d 0 (itemsFs tag 0 sub) cs r) :
    FldSpecAll P cfg g d k ((itemsFs tag 0 sub).map (Item.under k)) iv (embLiftAll wrap r) := by
  cases r with
  | none => exact h
  | some r =>
    obtain ⟨cs', es⟩ := r
    intro init hi
    exact lemma_under_all P cfg g d k _ init (.struct cs) es (hinit init hi) (h cs (fun j => by simp))

mutual
theorem lemma_refAll_fld (hP : FloatSane P) (nestA : NestAll) (g : Getter) (hs : srcOK g.src = true) (d : Nat)
    (hn : d + 1 ≤ cfg.maxDepth → NestSpecAll P cfg tag nestA (d + 1)) (k : Nat) (h : FieldHdr) :
    ∀ (t : Ty) (iv : Val), wt t iv = true → inGrammar t = true →
      FldSpecAll P cfg g d k (itemsFld tag k h t) iv (refFldAll P cfg nestA tag g d h t iv)
  | .struct sub, iv, hw, hg => by
    have hgs : inGrammarFs sub = true := by simpa [inGrammar] using hg
    unfold refFldAll
    by_cases hex : h.exported = true
    · simp only [hex, Bool.not_true, Bool.false_eq_true, if_false]
      by_cases han : h.anon = true
      · simp only [han, if_true]
        rw [(lemma_itemsFld_embedded tag k h sub hex han).1]
        cases iv with
        | struct cs =>
          have hwc : wts sub cs = true := by simpa [wt] using hw
          have ih := lemma_refAll_fs hP nestA g hs d hn sub 0 cs hwc hgs
          have := lemma_embeddedAll_lift P cfg tag g d k sub cs (.struct cs) id
            (fun Init hk => lemma_initrel_same Init k _ _ hk) _ ih
          dsimp only
          cases hr : refFsAll P cfg nestA tag g d sub cs with
          | some r => obtain ⟨cs', es⟩ := r; rw [hr] at this; simpa [embLiftAll] using this
          | none => rw [hr] at this; simpa [embLiftAll] using this
        | _ => simp [wt] at hw
      · have han' : h.anon = false := by simpa using han
        simp only [han', Bool.false_eq_true, if_false]
        rw [(lemma_itemsFld_nested tag k h sub hex han').1]
        exact lemma_nestedAll_fld P cfg tag nestA g hs d hn k h sub false iv hgs (by simpa using hw)
    · have hex' : h.exported = false := by simpa using hex
      simp only [hex', Bool.not_false, if_true, lemma_itemsFld_unexported tag k h _ hex']
      exact lemma_fldspecAll_frame P cfg g d k _ iv iv
  | .ptr (.struct sub), iv, hw, hg => by
    have hgs : inGrammarFs sub = true := by simpa [inGrammar] using hg
    unfold refFldAll
    by_cases hex : h.exported = true
    · simp only [hex, Bool.not_true, Bool.false_eq_true, if_false]
      by_cases han : h.anon = true
      · simp only [han, if_true]
        rw [(lemma_itemsFld_embedded tag k h sub hex han).2]
        have hpaths := fun x hx pt hpt => (lemma_items_paths tag sub x hx pt hpt).1
        cases iv with
        | ptr y =>
          cases y with
          | struct cs =>
            have hwc : wts sub cs = true := by simpa [wt] using hw
            have ih := lemma_refAll_fs hP nestA g hs d hn sub 0 cs hwc hgs
            have := lemma_embeddedAll_lift P cfg tag g d k sub cs (.ptr (.struct cs)) Val.ptr
              (fun Init hk => lemma_initrel_ptr Init k _ _ hk hpaths) _ ih
            dsimp only
            cases hr : refFsAll P cfg nestA tag g d sub cs with
            | some r => obtain ⟨cs', es⟩ := r; rw [hr] at this; simpa [embLiftAll] using this
            | none => rw [hr] at this; simpa [embLiftAll] using this
          | _ => simp [wt] at hw
        | nil =>
          simp only
          by_cases hany : (flatten P tag sub).any (wants g) = true
          · simp only [hany, if_true]
            have ih := lemma_refAll_fs hP nestA g hs d hn sub 0 (zeroFs sub) (lemma_wts_zero sub) hgs
            have := lemma_embeddedAll_lift P cfg tag g d k sub (zeroFs sub) .nil Val.ptr
              (fun Init hk => lemma_initrel_nil Init k _ _ hk (fun x hx pt hpt => lemma_items_paths tag sub x hx pt hpt)) _ ih
            cases hr : refFsAll P cfg nestA tag g d sub (zeroFs sub) with
            | some r => obtain ⟨cs', es⟩ := r; rw [hr] at this; simpa [embLiftAll] using this
            | none => rw [hr] at this; simpa [embLiftAll] using this
          · -- no promoted field receives a value: the pointer stays nil, every leaf below admits "untouched"
            have hany' : (flatten P tag sub).any (wants g) = false := by simpa using hany
            simp only [hany', Bool.false_eq_true, if_false]
            have hun := lemma_untouched_fs P cfg tag g hs sub [] 0 hgs (by
              intro f hf
              simp only [List.any_eq_false] at hany'
              simpa using hany' f hf)
            intro init hi
            refine ⟨by simp, ?_, ?_⟩
            · intro l hl
              simp only [List.mem_map] at hl
              obtain ⟨x, hx, hxl⟩ := hl
              have hux := hun x hx
              cases x with
              | node n => simp [Item.under] at hxl
              | frame f => simp [Item.under] at hxl
              | leaf l0 =>
                simp only [Item.under, Item.leaf.injEq] at hxl
                subst hxl
                obtain ⟨_, hu2⟩ := hux
                rw [lemma_keyed_under, lemma_amb_path]
                rcases hu2 with h | h
                · exact Or.inl h
                · refine Or.inr (Or.inr (Or.inl ?_))
                  unfold expect
                  exact List.ne_nil_of_mem (h _)
            · intro n hn' _
              simp only [List.mem_map] at hn'
              obtain ⟨x, hx, hxl⟩ := hn'
              have hux := hun x hx
              cases x with
              | leaf l0 => simp [Item.under] at hxl
              | frame f => simp [Item.under] at hxl
              | node n0 => exact absurd hux (by simp [Untouched])
        | _ => simp [wt] at hw
      · have han' : h.anon = false := by simpa using han
        simp only [han', Bool.false_eq_true, if_false]
        rw [(lemma_itemsFld_nested tag k h sub hex han').2]
        exact lemma_nestedAll_fld P cfg tag nestA g hs d hn k h sub true iv hgs (by simpa using hw)
    · have hex' : h.exported = false := by simpa using hex
      simp only [hex', Bool.not_false, if_true, lemma_itemsFld_unexported tag k h _ hex']
      exact lemma_fldspecAll_frame P cfg g d k _ iv iv
  | .prim p, iv, hw, hg => by
    simp only [refFldAll]
    by_cases hex : h.exported = true
    · have : itemsFld tag k h (.prim p) = leafItems tag k h (.prim p) := by
        simp only [itemsFld, leafItems, leafAt]
        cases h.exported <;> cases tagNames (h.tag tag) h.name (tag == .form) <;> rfl
      simp only [hex, Bool.not_true, Bool.false_eq_true, if_false, this]
      exact lemma_leafAll_fld P cfg tag (fun _ _ _ _ => .panic) nestA g d k h _ iv (by simp [isStructTy, structFields?]) hex
        (lemma_leaf_fld P cfg _ tag hP g hs d k h _ (by simpa [inGrammar] using hg) iv hex)
    · have hex' : h.exported = false := by simpa using hex
      simp only [hex', Bool.not_false, if_true, lemma_itemsFld_unexported tag k h _ hex']
      exact lemma_fldspecAll_frame P cfg g d k _ iv iv
  | .slice e, iv, hw, hg => by
    simp only [refFldAll]
    by_cases hex : h.exported = true
    · have : itemsFld tag k h (.slice e) = leafItems tag k h (.slice e) := by
        simp only [itemsFld, leafItems, leafAt]
        cases h.exported <;> cases tagNames (h.tag tag) h.name (tag == .form) <;> rfl
      simp only [hex, Bool.not_true, Bool.false_eq_true, if_false, this]
      exact lemma_leafAll_fld P cfg tag (fun _ _ _ _ => .panic) nestA g d k h _ iv (by simp [isStructTy, structFields?]) hex
        (lemma_leaf_fld P cfg _ tag hP g hs d k h _ (by simpa [inGrammar] using hg) iv hex)
    · have hex' : h.exported = false := by simpa using hex
      simp only [hex', Bool.not_false, if_true, lemma_itemsFld_unexported tag k h _ hex']
      exact lemma_fldspecAll_frame P cfg g d k _ iv iv
  | .map e, iv, hw, hg => by
    simp only [refFldAll]
    by_cases hex : h.exported = true
    · have : itemsFld tag k h (.map e) = leafItems tag k h (.map e) := by
        simp only [itemsFld, leafItems, leafAt]
        cases h.exported <;> cases tagNames (h.tag tag) h.name (tag == .form) <;> rfl
      simp only [hex, Bool.not_true, Bool.false_eq_true, if_false, this]
      exact lemma_leafAll_fld P cfg tag (fun _ _ _ _ => .panic) nestA g d k h _ iv (by simp [isStructTy, structFields?]) hex
        (lemma_leaf_fld P cfg _ tag hP g hs d k h _ (by simpa [inGrammar] using hg) iv hex)
    · have hex' : h.exported = false := by simpa using hex
      simp only [hex', Bool.not_false, if_true, lemma_itemsFld_unexported tag k h _ hex']
      exact lemma_fldspecAll_frame P cfg g d k _ iv iv
  | .ptr (.prim p), iv, hw, hg => by
    simp only [refFldAll]
    by_cases hex : h.exported = true
    · have : itemsFld tag k h (.ptr (.prim p)) = leafItems tag k h (.ptr (.prim p)) := by
        simp only [itemsFld, leafItems, leafAt]
        cases h.exported <;> cases tagNames (h.tag tag) h.name (tag == .form) <;> rfl
      simp only [hex, Bool.not_true, Bool.false_eq_true, if_false, this]
      exact lemma_leafAll_fld P cfg tag (fun _ _ _ _ => .panic) nestA g d k h _ iv (by simp [isStructTy, structFields?]) hex
        (lemma_leaf_fld P cfg _ tag hP g hs d k h _ (by simpa [inGrammar] using hg) iv hex)
    · have hex' : h.exported = false := by simpa using hex
      simp only [hex', Bool.not_false, if_true, lemma_itemsFld_unexported tag k h _ hex']
      exact lemma_fldspecAll_frame P cfg g d k _ iv iv
  | .ptr (.ptr e), iv, hw, hg => by simp [inGrammar, leafTy] at hg
  | .ptr (.slice e), iv, hw, hg => by
    simp only [refFldAll]
    by_cases hex : h.exported = true
    · have : itemsFld tag k h (.ptr (.slice e)) = leafItems tag k h (.ptr (.slice e)) := by
        simp only [itemsFld, leafItems, leafAt]
        cases h.exported <;> cases tagNames (h.tag tag) h.name (tag == .form) <;> rfl
      simp only [hex, Bool.not_true, Bool.false_eq_true, if_false, this]
      exact lemma_leafAll_fld P cfg tag (fun _ _ _ _ => .panic) nestA g d k h _ iv (by simp [isStructTy, structFields?]) hex
        (lemma_leaf_fld P cfg _ tag hP g hs d k h _ (by simpa [inGrammar] using hg) iv hex)
    · have hex' : h.exported = false := by simpa using hex
      simp only [hex', Bool.not_false, if_true, lemma_itemsFld_unexported tag k h _ hex']
      exact lemma_fldspecAll_frame P cfg g d k _ iv iv
  | .ptr (.map e), iv, hw, hg => by
    simp only [refFldAll]
    by_cases hex : h.exported = true
    · have : itemsFld tag k h (.ptr (.map e)) = leafItems tag k h (.ptr (.map e)) := by
        simp only [itemsFld, leafItems, leafAt]
        cases h.exported <;> cases tagNames (h.tag tag) h.name (tag == .form) <;> rfl
      simp only [hex, Bool.not_true, Bool.false_eq_true, if_false, this]
      exact lemma_leafAll_fld P cfg tag (fun _ _ _ _ => .panic) nestA g d k h _ iv (by simp [isStructTy, structFields?]) hex
        (lemma_leaf_fld P cfg _ tag hP g hs d k h _ (by simpa [inGrammar] using hg) iv hex)
    · have hex' : h.exported = false := by simpa using hex
      simp only [hex', Bool.not_false, if_true, lemma_itemsFld_unexported tag k h _ hex']
      exact lemma_fldspecAll_frame P cfg g d k _ iv iv
theorem lemma_refAll_fs (hP : FloatSane P) (nestA : NestAll) (g : Getter) (hs : srcOK g.src = true) (d : Nat)
    (hn : d + 1 ≤ cfg.maxDepth → NestSpecAll P cfg tag nestA (d + 1)) :
    ∀ (fs : List Fld) (i : Nat) (ivs : List Val), wts fs ivs = true → inGrammarFs fs = true →
      FsSpecAll P cfg g d i (itemsFs tag i fs) ivs (refFsAll P cfg nestA tag g d fs ivs)
  | [], i, ivs, hw, _ => by
    simp only [refFsAll, itemsFs, FsSpecAll]
    exact fun init _ => lemma_itemsAll_nil P cfg g d _
  | (h, t) :: rest, i, [], hw, _ => by simp [wts] at hw
  | (h, t) :: rest, i, v :: vs, hw, hg => by
    simp only [wts, Bool.and_eq_true] at hw
    simp only [inGrammarFs, Bool.and_eq_true] at hg
    have ihf := lemma_refAll_fld hP nestA g hs d hn i h t v hw.1 hg.1
    have ihs := lemma_refAll_fs hP nestA g hs d hn rest (i+1) vs hw.2 hg.2
    simp only [refFsAll, itemsFs]
    cases hr : refFldAll P cfg nestA tag g d h t v with
    | none => rw [hr] at ihf; exact ihf
    | some r =>
      obtain ⟨v', es⟩ := r
      rw [hr] at ihf
      simp only
      have shift : ∀ (l : List Val) (w : Val) (ws : List Val), (∀ j, l[i + j]? = (w :: ws)[j]?) →
          ∀ j, l[i + 1 + j]? = ws[j]? := by
        intro l w ws hl j
        have := hl (j + 1)
        simpa [Nat.add_assoc, Nat.add_comm 1 j] using this
      cases hrs : refFsAll P cfg nestA tag g d rest vs with
      | none => rw [hrs] at ihs; exact ihs
      | some rs =>
        obtain ⟨vs', es'⟩ := rs
        rw [hrs] at ihs
        intro init hi
        exact lemma_itemsAll_append P cfg g d _ _ _ es es' (ihf init (by simpa using hi 0)) (ihs init (shift init v vs hi))
end

/-! ### induction on the nesting levels the depth limit still allows -/

theorem lemma_bindAtAll_spec (hP : FloatSane P) :
    ∀ (n d : Nat), cfg.maxDepth ≤ d + n → NestSpecAll P cfg tag (bindAtAll P cfg tag n) d
  | 0, d, hnd => by
    intro nfs ivs g hw hg hs
    have hn : d + 1 ≤ cfg.maxDepth → NestSpecAll P cfg tag (fun _ v _ _ => OutAll.done v [Err.depth]) (d + 1) := by
      intro h; omega
    have hfs := lemma_refAll_fs P cfg tag hP _ g hs d hn nfs 0 ivs hw hg
    simp only [bindAtAll]
    rw [lemma_loopAll_eq_ref P cfg _ tag g d nfs ivs hw]
    cases hr : refFsAll P cfg (fun _ v _ _ => OutAll.done v [Err.depth]) tag g d nfs ivs with
    | none => rw [hr] at hfs; exact hfs
    | some r =>
      obtain ⟨rvs, es⟩ := r
      rw [hr] at hfs
      simp only [refOutAll, List.nil_append]
      exact hfs ivs (fun j => by simp)
  | n + 1, d, hnd => by
    intro nfs ivs g hw hg hs
    have hn : d + 1 ≤ cfg.maxDepth → NestSpecAll P cfg tag (bindAtAll P cfg tag n) (d + 1) := by
      intro _
      exact lemma_bindAtAll_spec hP n (d + 1) (by omega)
    have hfs := lemma_refAll_fs P cfg tag hP _ g hs d hn nfs 0 ivs hw hg
    simp only [bindAtAll]
    rw [lemma_loopAll_eq_ref P cfg _ tag g d nfs ivs hw]
    cases hr : refFsAll P cfg (bindAtAll P cfg tag n) tag g d nfs ivs with
    | none => rw [hr] at hfs; exact hfs
    | some r =>
      obtain ⟨rvs, es⟩ := r
      rw [hr] at hfs
      simp only [refOutAll, List.nil_append]
      exact hfs ivs (fun j => by simp)

end Rivaas.Bind
