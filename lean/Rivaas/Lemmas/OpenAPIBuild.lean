import Rivaas.Lemmas.OpenAPIGen
set_option linter.unusedSimpArgs false
/-
C07 — helper lemmas: the registry invariant and reference closure through request parameters,
request bodies, responses, `buildOperation` and the loops of `Build`.
-/
namespace Rivaas.OpenAPI

/-- top level (empty generation stack): references are registered components -/
def GoodT (st : Schemas) (t : IR) : Prop := Good (Schemas.keys st) t

theorem names_nil (env : Env) (st : Schemas) : names env [] st = Schemas.keys st := by
  simp [names, seenNames]

theorem GoodT.mono {st st' : Schemas} (h : ∀ k ∈ Schemas.keys st, k ∈ Schemas.keys st') {t : IR} (g : GoodT st t) :
    GoodT st' t := Good.mono h g

/-- `gen` called from the builder (nothing on the stack) -/
theorem gen_top (env : Env) (t : Ty) (st : Schemas) (hinv : Inv env [] st) :
    (∀ k ∈ Schemas.keys st, k ∈ Schemas.keys (gen env [] [] t st).2) ∧ Inv env [] (gen env [] [] t st).2 ∧
      GoodT (gen env [] [] t st).2 (gen env [] [] t st).1 := by
  obtain ⟨h1, h2, h3⟩ := (gen_genFields_post env).1 [] [] t st hinv
  exact ⟨h1, h2, by simpa only [GoodT, names_nil] using h3⟩

theorem paramOfSpec_post (env : Env) (ps : ParamSpec) (st : Schemas) (hinv : Inv env [] st) :
    (∀ k ∈ Schemas.keys st, k ∈ Schemas.keys (paramOfSpec env ps st).2) ∧ Inv env [] (paramOfSpec env ps st).2 ∧
      GoodT (paramOfSpec env ps st).2 (paramOfSpec env ps st).1.schema := by
  obtain ⟨h1, h2, h3⟩ := gen_top env ps.ty st hinv
  refine ⟨h1, h2, ?_⟩
  simp only [paramOfSpec]
  have e0 : GoodT (gen env [] [] ps.ty st).2 (setDflt ps.dflt (gen env [] [] ps.ty st).1) := by
    unfold setDflt
    cases ps.dflt with
    | none => exact h3
    | some d => exact Tree.All.modHead (f := fun h : Head => { h with dflt := some d }) (fun _ x => x) _ h3
  generalize setDflt ps.dflt (gen env [] [] ps.ty st).1 = s0 at e0 ⊢
  have e1 : GoodT (gen env [] [] ps.ty st).2
      (if ps.enum.isEmpty = true then s0 else s0.modHead fun h => { h with enum := ps.enum }) := by
    split
    · exact e0
    · exact Tree.All.modHead (f := fun h : Head => { h with enum := ps.enum }) (fun _ x => x) _ e0
  split
  · exact Tree.All.modHead (f := fun h : Head => { h with format := ps.format }) (fun _ x => x) _ e1
  · exact e1

/-- every schema of a parameter list is good -/
def GoodParams (st : Schemas) (ps : List (Param IR)) : Prop := ∀ p ∈ ps, GoodT st p.schema

theorem mdParams_post (env : Env) : ∀ (l : List ParamSpec) (sk : List (B × B)) (sp : List B) (st : Schemas),
    Inv env [] st →
    (∀ k ∈ Schemas.keys st, k ∈ Schemas.keys (mdParams env l sk sp st).2.2) ∧ Inv env [] (mdParams env l sk sp st).2.2 ∧
      GoodParams (mdParams env l sk sp st).2.2 (mdParams env l sk sp st).1
  | [], sk, sp, st, hinv => by
    simp only [mdParams]
    exact ⟨fun _ h => h, hinv, fun p hp => by simp at hp⟩
  | ps :: rest, sk, sp, st, hinv => by
    simp only [mdParams]
    split
    · exact mdParams_post env rest sk sp st hinv
    · obtain ⟨h1, h2, h3⟩ := paramOfSpec_post env ps st hinv
      obtain ⟨g1, g2, g3⟩ := mdParams_post env rest ((ps.loc, ps.name) :: sk)
        (if ps.loc = s "path" then ps.name :: sp else sp) (paramOfSpec env ps st).2 h2
      refine ⟨fun k hk => g1 k (h1 k hk), g2, ?_⟩
      intro p hp
      simp only [List.mem_cons] at hp
      rcases hp with rfl | hp
      · exact GoodT.mono g1 h3
      · exact g3 p hp

theorem schemaName_all_ok (name pkgPath : B) : (schemaName name pkgPath).all nameCharOK = true := by
  rcases schemaName_wellformed name pkgPath with h | h
  · simp [h]
  · simp only [nameOK, Bool.and_eq_true] at h
    exact h.2

theorem bodyName_ok (name pkgPath : B) : nameOK (schemaName name pkgPath ++ s "Body") = true := by
  simp only [nameOK, Bool.and_eq_true, List.all_append, schemaName_all_ok, true_and]
  constructor
  · cases h : schemaName name pkgPath <;> simp [s]
  · decide

/-- registering a new component whose schema is good with respect to the enlarged registry -/
theorem Inv.register {env : Env} {st : Schemas} {nm : B} {sch : IR} (hinv : Inv env [] st) (hok : nameOK nm = true)
    (hs : GoodT ((nm, sch) :: st) sch) : Inv env [] ((nm, sch) :: st) := by
  intro e he
  simp only [List.mem_cons] at he
  rcases he with rfl | he
  · exact ⟨hok, by rw [names_nil]; exact hs⟩
  · refine ⟨(hinv e he).1, ?_⟩
    have := (hinv e he).2
    simp only [names_nil] at this ⊢
    exact Good.mono (fun k hk => by simp only [Schemas.keys, List.map_cons]; exact List.mem_cons_of_mem _ hk) this

theorem genProjected_post (env : Env) (md : Meta) (st : Schemas) (hinv : Inv env [] st) :
    (∀ k ∈ Schemas.keys st, k ∈ Schemas.keys (genProjected env md st).2) ∧ Inv env [] (genProjected env md st).2 ∧
      GoodT (genProjected env md st).2 (genProjected env md st).1 := by
  unfold genProjected
  split
  next name pkg fs heq =>
    simp only []
    split
    next hk =>
      refine ⟨fun _ h => h, hinv, good_ref _ _ ((hasKey_iff _ _).1 hk)⟩
    next hk =>
      obtain ⟨h1, h2, h3, h4⟩ := (gen_genFields_post env).2 [] [] true md.flat .nil [] st hinv
        (by simp only [GoodP, PTree.All]) List.nodup_nil
      simp only [names_nil] at h3
      have hsub : ∀ k ∈ Schemas.keys (genFields env [] [] true md.flat PTree.nil [] st).2.2,
          k ∈ Schemas.keys ((schemaName name pkg ++ s "Body",
            objNode (genFields env [] [] true md.flat PTree.nil [] st).2.1 (genFields env [] [] true md.flat PTree.nil [] st).1) ::
            (genFields env [] [] true md.flat PTree.nil [] st).2.2) := by
        intro k hk'
        simp only [Schemas.keys, List.map_cons]
        exact List.mem_cons_of_mem _ hk'
      refine ⟨fun k hk' => hsub k (h1 k hk'), ?_, ?_⟩
      · apply Inv.register h2 (bodyName_ok name pkg)
        exact Good.mono hsub (good_objNode h4 h3)
      · apply good_ref
        simp [Schemas.keys]
  next => exact ⟨fun _ h => h, hinv, good_object _⟩

/-- every schema of a response list is good -/
def GoodResps (st : Schemas) (rs : List (Resp IR)) : Prop := ∀ r ∈ rs, ∀ x, r.schema = some x → GoodT st x

theorem genResps_post (env : Env) : ∀ (l : List (Nat × B × Option Ty)) (st : Schemas) (rs : List (Resp IR)) (st' : Schemas),
    Inv env [] st → genResps env l st = .ok (rs, st') →
    (∀ k ∈ Schemas.keys st, k ∈ Schemas.keys st') ∧ Inv env [] st' ∧ GoodResps st' rs
  | [], st, rs, st', hinv, h => by
    simp only [genResps, Except.ok.injEq, Prod.mk.injEq] at h
    obtain ⟨rfl, rfl⟩ := h
    exact ⟨fun _ h => h, hinv, fun r hr => by simp at hr⟩
  | (status, text, rt) :: rest, st, rs, st', hinv, h => by
    simp only [genResps] at h
    split at h
    · cases h
    · cases rt with
      | none =>
        simp only [] at h
        split at h
        · cases h
        next rr heq =>
          simp only [Except.ok.injEq, Prod.mk.injEq] at h
          obtain ⟨rfl, rfl⟩ := h
          obtain ⟨g1, g2, g3⟩ := genResps_post env rest st rr.1 rr.2 hinv (by rw [heq])
          refine ⟨g1, g2, ?_⟩
          intro r hr x hx
          simp only [List.mem_cons] at hr
          rcases hr with rfl | hr
          · simp at hx
          · exact g3 r hr x hx
      | some t =>
        simp only [] at h
        split at h
        · obtain ⟨h1, h2, h3⟩ := gen_top env t st hinv
          split at h
          · cases h
          next rr heq =>
            simp only [Except.ok.injEq, Prod.mk.injEq] at h
            obtain ⟨rfl, rfl⟩ := h
            obtain ⟨g1, g2, g3⟩ := genResps_post env rest _ rr.1 rr.2 h2 (by rw [heq])
            refine ⟨fun k hk => g1 k (h1 k hk), g2, ?_⟩
            intro r hr x hx
            simp only [List.mem_cons] at hr
            rcases hr with rfl | hr
            · simp only [Option.some.injEq] at hx
              subst hx
              exact GoodT.mono g1 h3
            · exact g3 r hr x hx
        · split at h
          · cases h
          next rr heq =>
            simp only [Except.ok.injEq, Prod.mk.injEq] at h
            obtain ⟨rfl, rfl⟩ := h
            obtain ⟨g1, g2, g3⟩ := genResps_post env rest st rr.1 rr.2 hinv (by rw [heq])
            refine ⟨g1, g2, ?_⟩
            intro r hr x hx
            simp only [List.mem_cons] at hr
            rcases hr with rfl | hr
            · simp at hx
            · exact g3 r hr x hx

theorem goodParams_pathParams (st : Schemas) (path : B) : GoodParams st (extractPathParams path) := by
  intro p hp
  simp only [extractPathParams, List.mem_map] at hp
  obtain ⟨n, _, rfl⟩ := hp
  exact good_leaf _ _ (by simp)

theorem opParams_post (env : Env) (md : Option Meta) (path : B) (st : Schemas) (hinv : Inv env [] st) :
    (∀ k ∈ Schemas.keys st, k ∈ Schemas.keys (opParams env md (extractPathParams path) st).2) ∧
      Inv env [] (opParams env md (extractPathParams path) st).2 ∧
      GoodParams (opParams env md (extractPathParams path) st).2 (opParams env md (extractPathParams path) st).1 := by
  unfold opParams
  cases md with
  | none => exact ⟨fun _ h => h, hinv, goodParams_pathParams _ _⟩
  | some m =>
    obtain ⟨h1, h2, h3⟩ := mdParams_post env m.params [] [] st hinv
    refine ⟨h1, h2, ?_⟩
    intro p hp
    simp only [List.mem_append, List.mem_filter] at hp
    rcases hp with hp | hp
    · exact h3 p hp
    · exact goodParams_pathParams _ _ p hp.1

theorem opBody_post (env : Env) (md : Option Meta) (st : Schemas) (hinv : Inv env [] st) :
    (∀ k ∈ Schemas.keys st, k ∈ Schemas.keys (opBody env md st).2) ∧ Inv env [] (opBody env md st).2 ∧
      ∀ x, (opBody env md st).1 = some x → GoodT (opBody env md st).2 x := by
  unfold opBody
  cases md with
  | none => exact ⟨fun _ h => h, hinv, fun x hx => by simp at hx⟩
  | some m =>
    simp only []
    split
    · obtain ⟨h1, h2, h3⟩ := genProjected_post env m st hinv
      refine ⟨h1, h2, ?_⟩
      intro x hx
      simp only [Option.some.injEq] at hx
      subst hx
      exact h3
    · exact ⟨fun _ h => h, hinv, fun x hx => by simp at hx⟩

/-- every schema of an operation is good -/
def GoodOp (st : Schemas) (o : Operation IR) : Prop := ∀ x ∈ o.schemas, GoodT st x

theorem goodOp_mono {st st' : Schemas} (h : ∀ k ∈ Schemas.keys st, k ∈ Schemas.keys st') {o : Operation IR}
    (g : GoodOp st o) : GoodOp st' o := fun x hx => GoodT.mono h (g x hx)

theorem goodOp_intro {st : Schemas} {o : Operation IR} (hp : GoodParams st o.params)
    (hb : ∀ x, o.body = some x → GoodT st x) (hr : GoodResps st o.resps) : GoodOp st o := by
  intro x hx
  simp only [Operation.schemas, List.mem_append, List.mem_map, Option.mem_toList, List.mem_filterMap] at hx
  rcases hx with (⟨p, hp', rfl⟩ | hx) | ⟨r, hr', hx⟩
  · exact hp p hp'
  · exact hb x hx
  · exact hr r hr' x hx

theorem exampleOf_exclusive (opts : List RespOpt) (n : Nat) :
    ¬ ((exampleOf opts n).1 = true ∧ (exampleOf opts n).2 ≠ []) := by
  unfold exampleOf
  simp only []
  split <;> simp

/-- `attachEx` touches the example members only, and never sets both -/
theorem mem_attachEx {opts : List RespOpt} {rs : List (Resp IR)} {r' : Resp IR}
    (h : r' ∈ attachEx opts rs) :
    ∃ r ∈ rs, r'.code = r.code ∧ r'.description = r.description ∧ r'.schema = r.schema ∧
      ¬ (r'.hasExample = true ∧ r'.exampleNames ≠ []) := by
  simp only [attachEx, List.mem_map] at h
  obtain ⟨r, hr, rfl⟩ := h
  refine ⟨r, hr, ?_⟩
  split
  · split
    · exact ⟨rfl, rfl, rfl, exampleOf_exclusive _ _⟩
    · exact ⟨rfl, rfl, rfl, by simp⟩
  · exact ⟨rfl, rfl, rfl, by simp⟩

theorem goodResps_attachEx {st : Schemas} {opts : List RespOpt} {rs : List (Resp IR)}
    (h : GoodResps st rs) : GoodResps st (attachEx opts rs) := by
  intro r' hr' x hx
  obtain ⟨r, hr, _, _, hs, _⟩ := mem_attachEx hr'
  exact h r hr x (by rw [← hs]; exact hx)

theorem goodResps_default (st : Schemas) : GoodResps st defaultResps := by
  intro r hr x hx
  simp only [defaultResps, List.mem_singleton] at hr
  subst hr
  simp at hx

/-- the registry invariant and reference closure through one `buildOperation` -/
theorem buildOperation_post (env : Env) (op : OpIn) (st : Schemas) (so : List B) (o : Operation IR) (st' : Schemas)
    (so' : List B) (hinv : Inv env [] st) (h : buildOperation env op st so = .ok (o, st', so')) :
    (∀ k ∈ Schemas.keys st, k ∈ Schemas.keys st') ∧ Inv env [] st' ∧ GoodOp st' o ∧
      so' = o.opId :: so ∧ o.opId ∉ so := by
  unfold buildOperation at h
  simp only [] at h
  split at h
  · cases h
  next hdup =>
    have hnot : opIdOf op ∉ so := by simpa using hdup
    split at h
    · simp only [Except.ok.injEq, Prod.mk.injEq] at h
      obtain ⟨rfl, rfl, rfl⟩ := h
      refine ⟨fun _ h => h, hinv, ?_, rfl, hnot⟩
      exact goodOp_intro (goodParams_pathParams _ _) (fun x hx => by simp at hx) (goodResps_default _)
    · obtain ⟨p1, p2, p3⟩ := opParams_post env (op.req.bind (introspect env)) op.path st hinv
      obtain ⟨b1, b2, b3⟩ := opBody_post env (op.req.bind (introspect env)) _ p2
      split at h
      · cases h
      split at h
      · cases h
      next rr heq =>
        simp only [Except.ok.injEq, Prod.mk.injEq] at h
        obtain ⟨rfl, rfl, rfl⟩ := h
        obtain ⟨r1, r2, r3⟩ := genResps_post env _ _ rr.1 rr.2 b2 (by rw [heq])
        refine ⟨fun k hk => r1 k (b1 k (p1 k hk)), r2, ?_, rfl, hnot⟩
        apply goodOp_intro
        · exact fun p hp => GoodT.mono (fun k hk => r1 k (b1 k hk)) (p3 p hp)
        · exact fun x hx => GoodT.mono r1 (b3 x hx)
        · simp only []
          apply goodResps_attachEx
          split
          · exact goodResps_default _
          · exact r3

/-! ## the loops of Build -/

def itemIds {σ} (item : PathItem σ) : List B := item.map (·.2.opId)

theorem mem_setAssoc {β} (k : B) (v : β) : ∀ (l : List (B × β)) (x : B × β), x ∈ setAssoc k v l → x = (k, v) ∨ x ∈ l
  | [], x, h => by simp only [setAssoc, List.mem_singleton] at h; exact Or.inl h
  | (k', v') :: rest, x, h => by
    simp only [setAssoc] at h
    split at h
    · simp only [List.mem_cons] at h ⊢
      rcases h with h | h
      · exact Or.inl h
      · exact Or.inr (Or.inr h)
    · simp only [List.mem_cons] at h ⊢
      rcases h with h | h
      · exact Or.inr (Or.inl h)
      · rcases mem_setAssoc k v rest x h with h | h
        · exact Or.inl h
        · exact Or.inr (Or.inr h)

theorem itemIds_setAssoc_sub {σ} (m : B) (o : Operation σ) (item : PathItem σ) :
    ∀ i ∈ itemIds (setAssoc m o item), i = o.opId ∨ i ∈ itemIds item := by
  intro i hi
  simp only [itemIds, List.mem_map] at hi ⊢
  obtain ⟨x, hx, rfl⟩ := hi
  rcases mem_setAssoc m o item x hx with rfl | h
  · exact Or.inl rfl
  · exact Or.inr ⟨x, h, rfl⟩

theorem itemIds_setAssoc_nodup {σ} (m : B) (o : Operation σ) : ∀ (item : PathItem σ),
    (itemIds item).Nodup → o.opId ∉ itemIds item → (itemIds (setAssoc m o item)).Nodup
  | [], _, _ => by simp [itemIds, setAssoc]
  | (k', v') :: rest, hnd, hni => by
    simp only [itemIds, List.map_cons, List.nodup_cons, List.mem_cons, not_or] at hnd hni
    simp only [setAssoc]
    split
    · simp only [itemIds, List.map_cons, List.nodup_cons]
      exact ⟨hni.2, hnd.2⟩
    · simp only [itemIds, List.map_cons, List.nodup_cons]
      refine ⟨?_, itemIds_setAssoc_nodup m o rest hnd.2 hni.2⟩
      intro hmem
      rcases itemIds_setAssoc_sub m o rest _ hmem with h | h
      · exact hni.1 h.symm
      · exact hnd.1 h

/-- what the loops guarantee for the operations stored so far: `outer` = operation ids of the path items
    already finished -/
structure LoopInv (env : Env) (outer : List B) (item : PathItem IR) (st : Schemas) (so : List B) : Prop where
  inv : Inv env [] st
  good : ∀ mo ∈ item, GoodOp st mo.2
  nodup : (outer ++ itemIds item).Nodup
  sub : ∀ i ∈ outer ++ itemIds item, i ∈ so

theorem buildGroup_post (env : Env) (outer : List B) : ∀ (grp : List OpIn) (item : PathItem IR) (st : Schemas) (so : List B)
    (item' : PathItem IR) (st' : Schemas) (so' : List B),
    LoopInv env outer item st so → buildGroup env grp item st so = .ok (item', st', so') →
    (∀ k ∈ Schemas.keys st, k ∈ Schemas.keys st') ∧ (∀ i ∈ so, i ∈ so') ∧ LoopInv env outer item' st' so'
  | [], item, st, so, item', st', so', hl, h => by
    simp only [buildGroup, Except.ok.injEq, Prod.mk.injEq] at h
    obtain ⟨rfl, rfl, rfl⟩ := h
    exact ⟨fun _ h => h, fun _ h => h, hl⟩
  | op :: rest, item, st, so, item', st', so', hl, h => by
    simp only [buildGroup] at h
    split at h
    · cases h
    next r heq =>
      obtain ⟨k1, i1, g1, e1, n1⟩ := buildOperation_post env op st so r.1 r.2.1 r.2.2 hl.inv (by rw [heq])
      have hfresh : r.1.opId ∉ outer ++ itemIds item := fun hmem => n1 (hl.sub _ hmem)
      have hl' : LoopInv env outer (match methodMember op.method with | some m => setAssoc m r.1 item | none => item)
          r.2.1 r.2.2 := by
        cases hm : methodMember op.method with
        | none =>
          simp only []
          exact ⟨i1, fun mo hmo => goodOp_mono k1 (hl.good mo hmo), hl.nodup,
            fun i hi => by rw [e1]; exact List.mem_cons_of_mem _ (hl.sub i hi)⟩
        | some m =>
          simp only []
          refine ⟨i1, ?_, ?_, ?_⟩
          · intro mo hmo
            rcases mem_setAssoc m r.1 item mo hmo with rfl | h'
            · exact g1
            · exact goodOp_mono k1 (hl.good mo h')
          · have hnd := hl.nodup
            rw [List.nodup_append] at hnd ⊢
            simp only [List.mem_append, not_or] at hfresh
            refine ⟨hnd.1, itemIds_setAssoc_nodup m r.1 item hnd.2.1 hfresh.2, ?_⟩
            intro a ha b hb
            rcases itemIds_setAssoc_sub m r.1 item b hb with rfl | hb'
            · intro hab; subst hab; exact hfresh.1 ha
            · exact hnd.2.2 a ha b hb'
          · intro i hi
            rw [e1]
            simp only [List.mem_append] at hi
            rcases hi with hi | hi
            · exact List.mem_cons_of_mem _ (hl.sub i (List.mem_append_left _ hi))
            · rcases itemIds_setAssoc_sub m r.1 item i hi with rfl | hi'
              · exact List.mem_cons_self ..
              · exact List.mem_cons_of_mem _ (hl.sub i (List.mem_append_right _ hi'))
      obtain ⟨k2, s2, l2⟩ := buildGroup_post env outer rest _ r.2.1 r.2.2 item' st' so' hl' h
      refine ⟨fun k hk => k2 k (k1 k hk), ?_, l2⟩
      intro i hi
      apply s2
      rw [e1]
      exact List.mem_cons_of_mem _ hi

def pathsIds {σ} (paths : List (B × PathItem σ)) : List B := paths.flatMap fun pi => itemIds pi.2

/-- the result of the outer loop -/
theorem buildGroups_post (env : Env) : ∀ (groups : List (B × List OpIn)) (outer : List B) (st : Schemas) (so : List B)
    (paths : List (B × PathItem IR)) (st' : Schemas),
    Inv env [] st → outer.Nodup → (∀ i ∈ outer, i ∈ so) → buildGroups env groups st so = .ok (paths, st') →
    (∀ k ∈ Schemas.keys st, k ∈ Schemas.keys st') ∧ Inv env [] st' ∧
      (∀ pi ∈ paths, ∀ mo ∈ pi.2, GoodOp st' mo.2) ∧ (outer ++ pathsIds paths).Nodup
  | [], outer, st, so, paths, st', hinv, hnd, _, h => by
    simp only [buildGroups, Except.ok.injEq, Prod.mk.injEq] at h
    obtain ⟨rfl, rfl⟩ := h
    exact ⟨fun _ h => h, hinv, fun pi hpi => by simp at hpi, by simpa [pathsIds] using hnd⟩
  | (p, grp) :: rest, outer, st, so, paths, st', hinv, hnd, hsub, h => by
    simp only [buildGroups] at h
    split at h
    · cases h
    next r heq =>
      have hl0 : LoopInv env outer [] st so :=
        ⟨hinv, fun mo hmo => by simp at hmo, by simpa [itemIds] using hnd, by simpa [itemIds] using hsub⟩
      obtain ⟨k1, _, l1⟩ := buildGroup_post env outer grp [] st so r.1 r.2.1 r.2.2 hl0 (by rw [heq])
      split at h
      · cases h
      next rr heq2 =>
        simp only [Except.ok.injEq, Prod.mk.injEq] at h
        obtain ⟨rfl, rfl⟩ := h
        obtain ⟨k2, i2, g2, n2⟩ := buildGroups_post env rest (outer ++ itemIds r.1) r.2.1 r.2.2 rr.1 rr.2 l1.inv l1.nodup
          l1.sub (by rw [heq2])
        refine ⟨fun k hk => k2 k (k1 k hk), i2, ?_, ?_⟩
        · intro pi hpi mo hmo
          simp only [List.mem_cons] at hpi
          rcases hpi with rfl | hpi
          · exact goodOp_mono k2 (l1.good mo hmo)
          · exact g2 pi hpi mo hmo
        · simpa [pathsIds, List.append_assoc] using n2

end Rivaas.OpenAPI
