import Rivaas.Model.Bind
import Rivaas.Spec.Bind
import Rivaas.Lemmas.BindVal
import Rivaas.Lemmas.BindConv
import Rivaas.Lemmas.BindLookup
/-
C04: one iteration of the bind loop on a leaf field (`wants` + `fieldAction`) meets the oracle's
expectation for that leaf (`Spec.expectV`), kind by kind: scalars, pointers to scalars, slices, maps.
-/
set_option linter.unusedSimpArgs false
set_option linter.unusedVariables false
namespace Rivaas.Bind
open Spec

/-- the leaf's value `rv` (it was `iv`) satisfies the admissible outcome `e` -/
def holdsV (iv rv : Val) : Option Val → Bool
  | some x => normLeaf rv == normLeaf x
  | none => normLeaf rv == normLeaf iv

/-- what the loop did with a leaf is admissible: a value among the expected ones, or an error of an
    expected class naming the field; for keys that are ambiguous in this source anything but a panic -/
def LeafOK (E : Expect) (amb : Bool) (iv : Val) (name : Bytes) : Val ⊕ Stop → Prop
  | .inl rv => amb = true ∨ ∃ e ∈ E.oks, holdsV iv rv e = true
  | .inr (.err e) => ∃ c, e = .bind name c ∧ (c ∈ E.errs ∨ (amb = true ∧ (c = .conv ∨ c = .sliceLen ∨ c = .mapSize)))
  | .inr .panic => False

theorem lemma_holdsV_refl_some (iv v : Val) : holdsV iv v (some v) = true := by simp [holdsV]
theorem lemma_holdsV_refl_none (iv : Val) : holdsV iv iv none = true := by simp [holdsV]

/-- the facts `mkInfo` establishes about a field table entry and the oracle's leaf for the same field -/
structure LeafLink (P : Params) (g : Getter) (f : FieldInfo) (l : Leaf) : Prop where
  keys : l.keys = (f.tagName :: f.aliases).map (g.pre ++ ·)
  ty : l.ty = f.ty
  dflt : l.dflt = f.dflt
  nested : l.nested = g.nested
  td : f.typedDefault = if !f.dflt.isEmpty && !isSliceTy f.ty && !isMapTy f.ty then convTy P Cfg.default f.ty f.dflt else none

theorem lemma_amb_scalar (g : Getter) (f : FieldInfo) (l : Leaf) (hk : l.keys = (f.tagName :: f.aliases).map (g.pre ++ ·))
    (hn : l.nested = g.nested) (hamb : l.keys.any (ambiguousKey g.src l.nested) = false) :
    ∀ k ∈ f.tagName :: f.aliases, dotAmb g.src g.nested (g.pre ++ k) = false ∧ bracketOnly g.src (g.pre ++ k) = false := by
  intro k hkm
  rw [hk, hn] at hamb
  simp only [List.any_eq_false, List.mem_map] at hamb
  have := hamb (g.pre ++ k) ⟨k, hkm, rfl⟩
  unfold ambiguousKey at this
  unfold dotAmb bracketOnly
  cases hkd : g.src.kind <;> simp [hkd, isQF] at this ⊢
  · constructor
    · intro hn'; exact this.2 hn'
    · intro hnone; exact this.1 hnone
  · constructor
    · intro hn'; exact this.2 hn'
    · intro hnone; exact this.1 hnone

variable (P : Params) (cfg : Cfg) (nest : Nest)

/-- **scalar leaf** (int/uint/float/bool/string/time/duration by value) -/
theorem lemma_leaf_scalar (hP : FloatSane P) (g : Getter) (hs : srcOK g.src = true) (d : Nat)
    (f : FieldInfo) (l : Leaf) (p : Prim) (hl : LeafLink P g f l) (hty : f.ty = .prim p) (iv : Val) :
    LeafOK (expectScalar P cfg g.src l p false) (l.keys.any (ambiguousKey g.src l.nested)) iv f.name
      (if !wants g f then .inl iv else fieldAction P cfg nest g d f iv) := by
  cases hamb : l.keys.any (ambiguousKey g.src l.nested) with
  | true =>
    -- ambiguous keys: only "no panic" and "errors name the field" are claimed
    by_cases hw : wants g f = true
    · simp only [hw, Bool.not_true, Bool.false_eq_true, if_false]
      unfold fieldAction
      simp only [hty, isMapTy, isStructTy, structFields?, isSliceTy, Option.isSome_none, Bool.false_eq_true, if_false]
      split
      · simp [LeafOK]
      · simp only [setField, convTy]
        split
        · exact ⟨.conv, rfl, Or.inr ⟨rfl, Or.inl rfl⟩⟩
        · simp [LeafOK]
    · have : wants g f = false := by simpa using hw
      simp [this, LeafOK]
  | false =>
    have hkeys := lemma_amb_scalar g f l hl.keys hl.nested hamb
    have hlook := lemma_lookup g hs f (fun k hk => (hkeys k hk).1)
    have htd : f.typedDefault = if !f.dflt.isEmpty then convPrim P Cfg.default p f.dflt else none := by
      rw [hl.td, hty]; simp [isSliceTy, isMapTy, convTy]
    have hwants : wants g f = ((lookupField g f).2.2 || !f.dflt.isEmpty) := by
      simp [wants, hty, isMapTy, isStructTy, structFields?]
    unfold expectScalar
    rw [hl.keys]
    cases hfp : firstPresent g.src ((f.tagName :: f.aliases).map (g.pre ++ ·)) with
    | some vs =>
      rw [hfp] at hlook
      obtain ⟨key, hkey, hpres, hlf⟩ := hlook
      have hget : g.get key = vs.headD [] :=
        lemma_get_present g.src hs (g.pre ++ key) vs hpres (hkeys key hkey).2
      have hw : wants g f = true := by simp [hwants, hlf]
      simp only [hw, Bool.not_true, Bool.false_eq_true, if_false, Bool.false_and]
      unfold fieldAction
      simp only [hty, isMapTy, isStructTy, structFields?, isSliceTy, Option.isSome_none, Bool.false_eq_true, if_false,
        hlf, if_true, setField, convTy, hget]
      have hc := conv_meets_denote P hP cfg p (vs.headD [])
      cases hcv : convPrim P cfg p (vs.headD []) with
      | some nv =>
        have := hc.1 nv hcv
        simp only [List.headD_eq_head?_getD] at this
        simp only [LeafOK]
        right
        exact ⟨some nv, by simp [this], lemma_holdsV_refl_some iv nv⟩
      | none =>
        have := hc.2 hcv
        simp only [List.headD_eq_head?_getD] at this
        exact ⟨.conv, rfl, Or.inl (by simp [this])⟩
    | none =>
      rw [hfp] at hlook
      by_cases hd : f.dflt.isEmpty = true
      · have hw : wants g f = false := by simp [hwants, hlook, hd]
        simp only [hw, Bool.not_false, if_true, hl.dflt, hd, LeafOK]
        right
        exact ⟨none, by simp, lemma_holdsV_refl_none iv⟩
      · have hd' : f.dflt.isEmpty = false := by simpa using hd
        have hw : wants g f = true := by simp [hwants, hd']
        simp only [hw, Bool.not_true, Bool.false_eq_true, if_false, hl.dflt, hd']
        unfold fieldAction
        have hlf : lookupField g f = ((lookupField g f).1, (lookupField g f).2.1, false) := by
          rw [← hlook]
        simp only [hty, isMapTy, isStructTy, structFields?, isSliceTy, Option.isSome_none, Bool.false_eq_true, if_false]
        rw [hlf]
        simp only [Bool.false_eq_true, if_false, htd, hd', Bool.not_false, if_true, setField, convTy]
        have hc1 := conv_meets_denote P hP Cfg.default p f.dflt
        have hc2 := conv_meets_denote P hP cfg p f.dflt
        cases hcd : convPrim P Cfg.default p f.dflt with
        | some dv =>
          have := hc1.1 dv hcd
          simp only [LeafOK]
          right
          exact ⟨some dv, by simp [this], lemma_holdsV_refl_some iv dv⟩
        | none =>
          simp only
          cases hcv : convPrim P cfg p f.dflt with
          | some nv =>
            have := hc2.1 nv hcv
            simp only [LeafOK]
            right
            exact ⟨some nv, by simp [this], lemma_holdsV_refl_some iv nv⟩
          | none =>
            have := hc2.2 hcv
            exact ⟨.conv, rfl, Or.inl (by simp [this])⟩


theorem lemma_beq_nil (v : Bytes) : (v == []) = v.isEmpty := by cases v <;> rfl

/-- **pointer-to-scalar leaf**: an empty value leaves the pointer as it was -/
theorem lemma_leaf_ptr (hP : FloatSane P) (g : Getter) (hs : srcOK g.src = true) (d : Nat)
    (f : FieldInfo) (l : Leaf) (p : Prim) (hl : LeafLink P g f l) (hty : f.ty = .ptr (.prim p)) (iv : Val) :
    LeafOK (expectScalar P cfg g.src l p true) (l.keys.any (ambiguousKey g.src l.nested)) iv f.name
      (if !wants g f then .inl iv else fieldAction P cfg nest g d f iv) := by
  have htd : f.typedDefault = none := by
    rw [hl.td, hty]; simp [isSliceTy, isMapTy, convTy]
  cases hamb : l.keys.any (ambiguousKey g.src l.nested) with
  | true =>
    by_cases hw : wants g f = true
    · simp only [hw, Bool.not_true, Bool.false_eq_true, if_false]
      unfold fieldAction
      simp only [hty, isMapTy, isStructTy, structFields?, isSliceTy, Option.isSome_none, Bool.false_eq_true, if_false, htd]
      split
      · rename_i h; split at h <;> simp at h
      · simp only [setField]
        split
        · exact ⟨.conv, rfl, Or.inr ⟨rfl, Or.inl rfl⟩⟩
        · simp [LeafOK]
    · have : wants g f = false := by simpa using hw
      simp [this, LeafOK]
  | false =>
    have hkeys := lemma_amb_scalar g f l hl.keys hl.nested hamb
    have hlook := lemma_lookup g hs f (fun k hk => (hkeys k hk).1)
    have hwants : wants g f = ((lookupField g f).2.2 || !f.dflt.isEmpty) := by
      simp [wants, hty, isMapTy, isStructTy, structFields?]
    unfold expectScalar
    rw [hl.keys]
    cases hfp : firstPresent g.src ((f.tagName :: f.aliases).map (g.pre ++ ·)) with
    | some vs =>
      rw [hfp] at hlook
      obtain ⟨key, hkey, hpres, hlf⟩ := hlook
      have hget : g.get key = vs.headD [] :=
        lemma_get_present g.src hs (g.pre ++ key) vs hpres (hkeys key hkey).2
      have hw : wants g f = true := by simp [hwants, hlf]
      simp only [hw, Bool.not_true, Bool.false_eq_true, if_false, Bool.true_and]
      unfold fieldAction
      simp only [hty, isMapTy, isStructTy, structFields?, isSliceTy, Option.isSome_none, Bool.false_eq_true, if_false,
        hlf, if_true, setField, convTy, hget, lemma_beq_nil]
      by_cases hem : (vs.headD []).isEmpty = true
      · simp only [hem, if_true, LeafOK]
        right
        exact ⟨none, by simp, lemma_holdsV_refl_none iv⟩
      · have hem' : (vs.headD []).isEmpty = false := by simpa using hem
        simp only [hem', Bool.false_eq_true, if_false]
        have hc := conv_meets_denote P hP cfg p (vs.headD [])
        cases hcv : convPrim P cfg p (vs.headD []) with
        | some nv =>
          have := hc.1 nv hcv
          simp only [List.headD_eq_head?_getD] at this
          simp only [Option.map_some, LeafOK]
          right
          exact ⟨some (.ptr nv), by simp [this], lemma_holdsV_refl_some iv _⟩
        | none =>
          have := hc.2 hcv
          simp only [List.headD_eq_head?_getD] at this
          exact ⟨.conv, rfl, Or.inl (by simp [this])⟩
    | none =>
      rw [hfp] at hlook
      by_cases hd : f.dflt.isEmpty = true
      · have hw : wants g f = false := by simp [hwants, hlook, hd]
        simp only [hw, Bool.not_false, if_true, hl.dflt, hd, LeafOK]
        right
        exact ⟨none, by simp, lemma_holdsV_refl_none iv⟩
      · have hd' : f.dflt.isEmpty = false := by simpa using hd
        have hw : wants g f = true := by simp [hwants, hd']
        simp only [hw, Bool.not_true, Bool.false_eq_true, if_false, hl.dflt, hd']
        unfold fieldAction
        have hlf : lookupField g f = ((lookupField g f).1, (lookupField g f).2.1, false) := by
          rw [← hlook]
        simp only [hty, isMapTy, isStructTy, structFields?, isSliceTy, Option.isSome_none, Bool.false_eq_true, if_false]
        rw [hlf]
        simp only [Bool.false_eq_true, if_false, htd, setField, convTy, lemma_beq_nil, hd']
        have hc2 := conv_meets_denote P hP cfg p f.dflt
        cases hcv : convPrim P cfg p f.dflt with
        | some nv =>
          have := hc2.1 nv hcv
          simp only [Option.map_some, LeafOK]
          right
          exact ⟨some (.ptr nv), by simp [this], lemma_holdsV_refl_some iv _⟩
        | none =>
          have := hc2.2 hcv
          exact ⟨.conv, rfl, Or.inl (by simp [this])⟩


/-- element-wise conversion of a slice against element-wise denotation -/
theorem lemma_mapM_denote (hP : FloatSane P) (p : Prim) : ∀ xs : List Bytes,
    (∀ ys, mapMOpt (convTy P cfg (.prim p)) xs = some ys →
        allSome ((xs.map (denote P cfg p)).map (·.val)) = some ys) ∧
    (mapMOpt (convTy P cfg (.prim p)) xs = none → (xs.map (denote P cfg p)).any (·.refusable) = true)
  | [] => by simp [mapMOpt, allSome]
  | x :: xs => by
    have ih := lemma_mapM_denote hP p xs
    have hc := conv_meets_denote P hP cfg p x
    simp only [mapMOpt, convTy, List.map_cons, List.any_cons]
    cases hcv : convPrim P cfg p x with
    | none =>
      have := hc.2 hcv
      simp [this]
    | some y =>
      have hy := hc.1 y hcv
      cases hm : mapMOpt (convTy P cfg (.prim p)) xs with
      | none =>
        have := ih.2 hm
        simp [this]
      | some ys =>
        have := ih.1 ys hm
        simp only [List.map_map] at this
        simp [allSome, hy, this]

theorem lemma_amb_slice (g : Getter) (f : FieldInfo) (l : Leaf) (hk : l.keys = (f.tagName :: f.aliases).map (g.pre ++ ·))
    (hn : l.nested = g.nested)
    (hamb : l.keys.any (fun k => l.nested && g.src.kvs.any (fun e => hasPrefix e.1 (k ++ B "."))) = false) :
    ∀ k ∈ f.tagName :: f.aliases, dotAmb g.src g.nested (g.pre ++ k) = false := by
  intro k hkm
  rw [hk, hn] at hamb
  simp only [List.any_eq_false, List.mem_map] at hamb
  have := hamb (g.pre ++ k) ⟨k, hkm, rfl⟩
  unfold dotAmb
  simp only [Bool.and_eq_true, not_and, Bool.not_eq_true] at this
  cases hq : isQF g.src.kind <;> cases hn' : g.nested <;> simp [hn'] at this ⊢
  simpa using this

/-- the oracle's expectation for the (CSV-expanded) values of a slice leaf -/
def sliceExpectTail (P : Params) (cfg : Cfg) (p : Prim) (isPtr : Bool) (vals : List Bytes) : Expect :=
  if cfg.maxSlice > 0 && vals.length > cfg.maxSlice then { oks := [], errs := [.sliceLen] }
  else
    let ds := vals.map (denote P cfg p)
    { oks := (allSome (ds.map (·.val))).toList.map (fun xs => some (if isPtr then Val.ptr (.list xs) else .list xs)),
      errs := if ds.any (·.refusable) then [.conv] else [] }

/-- the oracle's expectation for a slice leaf whose key holds the values `vs` -/
def sliceExpectOf (P : Params) (cfg : Cfg) (p : Prim) (isPtr : Bool) : List Bytes → Expect
  | [] => { oks := [none], errs := [] }
  | v :: r => sliceExpectTail P cfg p isPtr (sliceValues cfg (v :: r))

def sliceOut (name : Bytes) : Except Err Val → Val ⊕ Stop
  | .error e => .inr (.err (.bind name e))
  | .ok nv => .inl nv

/-- setSliceField after the CSV expansion -/
def setSliceTail (P : Params) (cfg : Cfg) (p : Prim) (isPtr : Bool) (vals : List Bytes) : Except Err Val :=
  if cfg.maxSlice > 0 && vals.length > cfg.maxSlice then .error .sliceLen else
  match mapMOpt (convTy P cfg (.prim p)) vals with
  | some vs => .ok (if isPtr then .ptr (.list vs) else .list vs)
  | none => .error .conv

theorem lemma_setSlice_tail (v : Bytes) (r : List Bytes) (p : Prim) (iv : Val) :
    setSlice P cfg (.slice (.prim p)) iv (v :: r) = setSliceTail P cfg p false (sliceValues cfg (v :: r)) ∧
    setSlice P cfg (.ptr (.slice (.prim p))) iv (v :: r) = setSliceTail P cfg p true (sliceValues cfg (v :: r)) := by
  constructor
  · simp only [setSlice, List.isEmpty_cons, Bool.false_eq_true, if_false, setSliceTail, sliceValues]
    split
    · rfl
    · split <;> rfl
  · simp only [setSlice, List.isEmpty_cons, Bool.false_eq_true, if_false, setSliceTail, sliceValues]
    split
    · rfl
    · split <;> rfl

theorem lemma_sliceTail (hP : FloatSane P) (p : Prim) (isPtr : Bool) (iv : Val) (name : Bytes) (vals : List Bytes) :
    LeafOK (sliceExpectTail P cfg p isPtr vals) false iv name (sliceOut name (setSliceTail P cfg p isPtr vals)) := by
  unfold sliceExpectTail setSliceTail
  by_cases hlim : (decide (cfg.maxSlice > 0) && decide (vals.length > cfg.maxSlice)) = true
  · simp only [hlim, if_true, sliceOut]
    exact ⟨.sliceLen, rfl, Or.inl (by simp)⟩
  · have hlim' : (decide (cfg.maxSlice > 0) && decide (vals.length > cfg.maxSlice)) = false := by simpa using hlim
    simp only [hlim', Bool.false_eq_true, if_false]
    have hm := lemma_mapM_denote P cfg hP p vals
    cases hmm : mapMOpt (convTy P cfg (.prim p)) vals with
    | some ys =>
      have := hm.1 ys hmm
      simp only [LeafOK, sliceOut]
      simp only [List.map_map] at this
      exact Or.inr ⟨some (if isPtr then .ptr (.list ys) else .list ys), by simp [this], lemma_holdsV_refl_some iv _⟩
    | none =>
      have := hm.2 hmm
      simp only [sliceOut]
      exact ⟨.conv, rfl, Or.inl (by simp [this])⟩

/-- what setSliceField does with the values of the key that matched, against the expectation for
    exactly those values -/
theorem lemma_setSlice (hP : FloatSane P) (p : Prim) (iv : Val) (name : Bytes) (vs : List Bytes) :
    LeafOK (sliceExpectOf P cfg p false vs) false iv name (sliceOut name (setSlice P cfg (.slice (.prim p)) iv vs)) ∧
    LeafOK (sliceExpectOf P cfg p true vs) false iv name (sliceOut name (setSlice P cfg (.ptr (.slice (.prim p))) iv vs)) := by
  cases vs with
  | nil =>
    simp only [setSlice, List.isEmpty_nil, if_true, LeafOK, sliceExpectOf, sliceOut]
    exact ⟨Or.inr ⟨none, by simp, lemma_holdsV_refl_none iv⟩, Or.inr ⟨none, by simp, lemma_holdsV_refl_none iv⟩⟩
  | cons v r =>
    rw [(lemma_setSlice_tail P cfg v r p iv).1, (lemma_setSlice_tail P cfg v r p iv).2]
    exact ⟨lemma_sliceTail P cfg hP p false iv name _, lemma_sliceTail P cfg hP p true iv name _⟩


theorem lemma_expectSlice_eq (s : Src) (l : Leaf) (p : Prim) (isPtr : Bool) :
    expectSlice P cfg s l (.prim p) isPtr = match firstPresent s l.keys with
      | none => { oks := [none], errs := [] }
      | some vs => sliceExpectOf P cfg p isPtr vs := by
  unfold expectSlice
  cases firstPresent s l.keys with
  | none => rfl
  | some vs => cases vs <;> rfl

theorem lemma_setSlice_err (ty : Ty) (iv : Val) (vs : List Bytes) (e : Err)
    (h : setSlice P cfg ty iv vs = .error e) : e = .conv ∨ e = .sliceLen := by
  unfold setSlice at h
  simp only at h
  repeat' split at h
  all_goals first
    | (simp at h; done)
    | (simp at h; exact Or.inl h.symm)
    | (simp at h; exact Or.inr h.symm)

theorem lemma_firstPresent_none_head (s : Src) (k : Bytes) (r : List Bytes)
    (h : firstPresent s (k :: r) = none) : present s k = none := by
  simp only [firstPresent] at h
  cases hp : present s k with
  | none => rfl
  | some vs => rw [hp] at h; simp at h

/-- **slice leaf** (`[]T` and `*[]T`): all values of the key that matched, CSV expansion, length limit -/
theorem lemma_leaf_slice (hP : FloatSane P) (g : Getter) (hs : srcOK g.src = true) (d : Nat)
    (f : FieldInfo) (l : Leaf) (p : Prim) (isPtr : Bool) (hl : LeafLink P g f l)
    (hty : f.ty = if isPtr then .ptr (.slice (.prim p)) else .slice (.prim p)) (iv : Val) :
    LeafOK (expectSlice P cfg g.src l (.prim p) isPtr)
      (l.keys.any (fun k => l.nested && g.src.kvs.any (fun e => hasPrefix e.1 (k ++ B ".")))) iv f.name
      (if !wants g f then .inl iv else fieldAction P cfg nest g d f iv) := by
  have hsl : isSliceTy f.ty = true := by rw [hty]; cases isPtr <;> simp [isSliceTy]
  have hmp : isMapTy f.ty = false := by rw [hty]; cases isPtr <;> simp [isMapTy]
  have hst : isStructTy f.ty = false := by rw [hty]; cases isPtr <;> simp [isStructTy, structFields?]
  have htd : f.typedDefault = none := by rw [hl.td]; simp [hsl]
  have hfa : fieldAction P cfg nest g d f iv = sliceOut f.name (setSlice P cfg f.ty iv (g.getAll (lookupField g f).1)) := by
    unfold fieldAction
    simp only [hmp, hst, Bool.false_eq_true, if_false, htd, hsl, if_true]
    cases hlf : lookupField g f with
    | mk key rest =>
      cases rest with
      | mk value has =>
        simp only
        have : (if has = true then (none : Option Val) else none) = none := by cases has <;> rfl
        rw [this]
        simp only [sliceOut]
        cases setSlice P cfg f.ty iv (g.getAll key) <;> rfl
  have hwants : wants g f = ((lookupField g f).2.2 || !f.dflt.isEmpty) := by
    simp [wants, hmp, hst]
  cases hamb : l.keys.any (fun k => l.nested && g.src.kvs.any (fun e => hasPrefix e.1 (k ++ B "."))) with
  | true =>
    by_cases hw : wants g f = true
    · simp only [hw, Bool.not_true, Bool.false_eq_true, if_false, hfa]
      cases hr : setSlice P cfg f.ty iv (g.getAll (lookupField g f).1) with
      | ok nv => simp [sliceOut, LeafOK]
      | error e =>
        rcases lemma_setSlice_err P cfg _ _ _ e hr with h | h
        · exact ⟨e, rfl, Or.inr ⟨rfl, Or.inl h⟩⟩
        · exact ⟨e, rfl, Or.inr ⟨rfl, Or.inr (Or.inl h)⟩⟩
    · have : wants g f = false := by simpa using hw
      simp [this, LeafOK]
  | false =>
    have hdot := lemma_amb_slice g f l hl.keys hl.nested hamb
    have hlook := lemma_lookup g hs f hdot
    rw [lemma_expectSlice_eq, hl.keys]
    cases hfp : firstPresent g.src ((f.tagName :: f.aliases).map (g.pre ++ ·)) with
    | some vs =>
      rw [hfp] at hlook
      obtain ⟨key, hkey, hpres, hlf⟩ := hlook
      have hw : wants g f = true := by simp [hwants, hlf]
      have hga : g.getAll key = vs := by
        simp only [Getter.getAll, lemma_getAll_present g.src hs, hpres, Option.getD_some]
      simp only [hw, Bool.not_true, Bool.false_eq_true, if_false, hfa, hlf, hga]
      have := lemma_setSlice P cfg hP p iv f.name vs
      cases isPtr with
      | false => simp only [hty, Bool.false_eq_true, if_false]; exact this.1
      | true => simp only [hty, if_true]; exact this.2
    | none =>
      rw [hfp] at hlook
      by_cases hd : f.dflt.isEmpty = true
      · have hw : wants g f = false := by simp [hwants, hlook, hd]
        simp only [hw, Bool.not_false, if_true, LeafOK]
        right
        exact ⟨none, by simp, lemma_holdsV_refl_none iv⟩
      · have hd' : f.dflt.isEmpty = false := by simpa using hd
        have hw : wants g f = true := by simp [hwants, hd']
        simp only [hw, Bool.not_true, Bool.false_eq_true, if_false, hfa]
        have hkey : (lookupField g f).1 = f.tagName := by
          unfold lookupField
          unfold lookupField at hlook
          split
          · rename_i hh; simp [hh] at hlook
          · split
            · rename_i hh _ _ hfind; simp [hh, hfind] at hlook
            · rfl
        have hpn := lemma_firstPresent_none_head g.src (g.pre ++ f.tagName) _ (by simpa using hfp)
        have hga : g.getAll f.tagName = [] := by
          simp only [Getter.getAll, lemma_getAll_present g.src hs, hpn, Option.getD_none]
        rw [hkey, hga]
        simp only [setSlice, List.isEmpty_nil, if_true, sliceOut, LeafOK]
        right
        exact ⟨none, by simp, lemma_holdsV_refl_none iv⟩


/-- a leaf field the loop does not resolve (no value, no default): the oracle expects it untouched -/
theorem lemma_unwanted (g : Getter) (hs : srcOK g.src = true) (f : FieldInfo) (l : Leaf) (hl : LeafLink P g f l)
    (hleaf : leafTy f.ty = true) (hw : wants g f = false) (m0 : List (Bytes × Val)) :
    ambiguous g.src l = true ∨ none ∈ (expectV P cfg g.src l m0).oks := by
  have hw' : (lookupField g f).2.2 = false ∧ f.dflt.isEmpty = true := by
    simp only [wants, Bool.or_eq_false_iff] at hw
    exact ⟨hw.1.2, by simpa using hw.2⟩
  have hnm : isMapTy f.ty = false := by
    simp only [wants, Bool.or_eq_false_iff] at hw
    exact hw.1.1.1
  cases hamb : ambiguous g.src l with
  | true => exact Or.inl rfl
  | false =>
    right
    unfold ambiguous at hamb
    unfold expectV
    rw [hl.ty] at hamb ⊢
    -- scalar shapes and slice shapes; maps are always resolved
    have scalar : ∀ (p : Prim) (isPtr : Bool), l.keys.any (ambiguousKey g.src l.nested) = false →
        none ∈ (expectScalar P cfg g.src l p isPtr).oks := by
      intro p isPtr ha
      have hkeys := lemma_amb_scalar g f l hl.keys hl.nested ha
      have hlook := lemma_lookup g hs f (fun k hk => (hkeys k hk).1)
      unfold expectScalar
      rw [hl.keys]
      cases hfp : firstPresent g.src ((f.tagName :: f.aliases).map (g.pre ++ ·)) with
      | some vs =>
        rw [hfp] at hlook
        obtain ⟨key, _, _, hlf⟩ := hlook
        rw [hlf] at hw'
        simp at hw'
      | none => simp [hl.dflt, hw'.2]
    have slice : ∀ (e : Ty) (isPtr : Bool),
        l.keys.any (fun k => l.nested && g.src.kvs.any (fun x => hasPrefix x.1 (k ++ B "."))) = false →
        none ∈ (expectSlice P cfg g.src l e isPtr).oks := by
      intro e isPtr ha
      have hdot := lemma_amb_slice g f l hl.keys hl.nested ha
      have hlook := lemma_lookup g hs f hdot
      unfold expectSlice
      rw [hl.keys]
      cases hfp : firstPresent g.src ((f.tagName :: f.aliases).map (g.pre ++ ·)) with
      | some vs =>
        rw [hfp] at hlook
        obtain ⟨key, _, _, hlf⟩ := hlook
        rw [hlf] at hw'
        simp at hw'
      | none => simp
    cases hty : f.ty with
    | prim p => rw [hty] at hamb; simp only; exact scalar p false hamb
    | slice e => rw [hty] at hamb; simp only; exact slice e false hamb
    | map e => simp [hty, isMapTy] at hnm
    | struct fs => simp [hty, leafTy] at hleaf
    | ptr e =>
      cases e with
      | prim p => rw [hty] at hamb; simp only; exact scalar p true hamb
      | slice e' => rw [hty] at hamb; simp only; exact slice e' true hamb
      | map e' => simp [hty, isMapTy] at hnm
      | struct fs => simp [hty, leafTy] at hleaf
      | ptr e' => simp [hty, leafTy] at hleaf

end Rivaas.Bind
