import Rivaas.Lemmas.LifecycleHolds
/-
C09 — helper lemmas, part 8: the shutdown sequence does not depend on what the reload rounds did.
-/
namespace Rivaas.C09
open Rivaas.Lifecycle Rivaas.Lifecycle.Spec

/-- what is observed apart from the reload calls themselves -/
def nonReload (o : Obs) : List Ev × Res × Bool × Bool × List ReqRes :=
  (o.log.filter (fun e => !isReload e), o.res, o.finApp, o.finMet, o.reqs)

theorem lemma_stopHooks_len (i : Nat) (hs hs' : List HB) (h : hs'.length = hs.length) :
    stopHooks i hs' = stopHooks i hs := by
  induction hs generalizing i hs' with
  | nil => cases hs' with
    | nil => rfl
    | cons _ _ => simp at h
  | cons b rest ih => cases hs' with
    | nil => simp at h
    | cons b' rest' =>
      simp only [List.length_cons, Nat.add_right_cancel_iff] at h
      simp only [stopHooks, ih _ _ h]

theorem lemma_tail_indep (sc : Scenario) (rounds' : List Round) (stops' : List HB)
    (hlen : stops'.length = sc.stops.length) (fx : Fixes) (race sent : Bool) :
    shutdownTail fx { sc with rounds := rounds', stops := stops' } race sent = shutdownTail fx sc race sent := by
  unfold shutdownTail
  simp only [lemma_stopHooks_len 0 _ _ hlen]

/-- the log of a run that reaches the shutdown sequence, without the reload events -/
theorem lemma_filter_shutdownSeq (fx : Fixes) (sc : Scenario) (race sent : Bool) (s : Segs) (rres : List RRes)
    (hpost : kindsIn [.reload] s.post) :
    (shutdownSeq fx sc race sent s rres).obs.log.filter (fun e => !isReload e) =
      (s.starts ++ s.readies ++ s.reqIns).filter (fun e => !isReload e) ++
      (s.reloads ++ s.sig).filter (fun e => !isReload e) ++
      ((shutdownTail fx sc race sent).shuts ++ (shutdownTail fx sc race sent).drain ++
        (shutdownTail fx sc race sent).flush ++ (shutdownTail fx sc race sent).stops ++ [Ev.ret]).filter
          (fun e => !isReload e) := by
  simp only [shutdownSeq, Run.obs, Segs.log, List.filter_append, filter_nonReload_of_kinds hpost,
    List.append_nil, List.append_assoc]

theorem lemma_loop_rest (sc : Scenario) (rounds : List Round) :
    ((roundsFrom repaired sc.nReload ⟨[], [], false, false, []⟩ 0 rounds).pre ++
      sigIf (!(roundsFrom repaired sc.nReload ⟨[], [], false, false, []⟩ 0 rounds).cancelled)).filter
        (fun e => !isReload e) = [Ev.sig] := by
  obtain ⟨r', inv⟩ := LoopInv.rounds repaired sc.nReload _ 0 rounds (LoopInv.init repaired)
  rw [List.filter_append, inv.rest]
  cases (roundsFrom repaired sc.nReload ⟨[], [], false, false, []⟩ 0 rounds).cancelled <;> rfl


end Rivaas.C09
