import Rivaas.Model.Accept
import Rivaas.Spec.Accept
/-
Helper lemmas for C19 (content negotiation): the character-level parser against the token-level oracle,
the matchers against the oracle's specificity, the arg-max loops. The property theorems are in Props/C19.
-/
set_option linter.unusedSimpArgs false
namespace Rivaas.C19
open Rivaas Rivaas.Accept

theorem lemma_isDigit_eq (c : Char) : Accept.isDigit c = AcceptSpec.isDigitC c := by
  simp [Accept.isDigit, AcceptSpec.isDigitC]

theorem lemma_digitVal (c : Char) : Accept.digitVal c = c.toNat - 48 := by simp [Accept.digitVal]

/-- parseQuality vs the grammar. The integer q-value parser agrees with the RFC 9110 `qvalue` grammar on
    every string, except that it rejects the two forms with a bare trailing point (`0.`, `1.`), which
    the grammar admits and which the code hands to the `ParseFloat` fallback. -/
theorem lemma_parseQuality (s : Bytes) :
    Accept.parseQuality s = (if s = ['0', '.'] ∨ s = ['1', '.'] then none else AcceptSpec.qvalue s) := by
  match s with
  | [] => simp [Accept.parseQuality, AcceptSpec.qvalue]
  | [a] =>
    by_cases h1 : a = '1'
    · subst h1; decide
    · by_cases h0 : a = '0'
      · subst h0; decide
      · simp [Accept.parseQuality, AcceptSpec.qvalue, h0, h1]
  | [a, b] =>
    by_cases h1 : a = '1'
    · subst h1
      by_cases hb : b = '.'
      · subst hb; decide
      · simp [Accept.parseQuality, AcceptSpec.qvalue, hb]
    · by_cases h0 : a = '0'
      · subst h0
        by_cases hb : b = '.'
        · subst hb; decide
        · simp [Accept.parseQuality, AcceptSpec.qvalue, hb]
      · simp [Accept.parseQuality, AcceptSpec.qvalue, h0, h1]
  | [a, b, c] =>
    by_cases h1 : a = '1'
    · subst h1
      by_cases hb : b = '.'
      · subst hb
        by_cases zc : c = '0' <;> simp_all [Accept.parseQuality, AcceptSpec.qvalue, Accept.qDigits, AcceptSpec.frac3, lemma_isDigit_eq, lemma_digitVal, List.all_cons, List.all_nil]
      · simp [Accept.parseQuality, AcceptSpec.qvalue, Accept.qDigits, AcceptSpec.frac3, lemma_isDigit_eq, lemma_digitVal, List.all_cons, List.all_nil, hb]
    · by_cases h0 : a = '0'
      · subst h0
        by_cases hb : b = '.'
        · subst hb
          by_cases hc : AcceptSpec.isDigitC c = true <;> simp_all [Accept.parseQuality, AcceptSpec.qvalue, Accept.qDigits, AcceptSpec.frac3, lemma_isDigit_eq, lemma_digitVal, List.all_cons, List.all_nil] <;> omega
        · simp [Accept.parseQuality, AcceptSpec.qvalue, Accept.qDigits, AcceptSpec.frac3, lemma_isDigit_eq, lemma_digitVal, List.all_cons, List.all_nil, hb]
      · simp [Accept.parseQuality, AcceptSpec.qvalue, Accept.qDigits, AcceptSpec.frac3, lemma_isDigit_eq, lemma_digitVal, List.all_cons, List.all_nil, h0, h1]
  | [a, b, c, d] =>
    by_cases h1 : a = '1'
    · subst h1
      by_cases hb : b = '.'
      · subst hb
        by_cases zc : c = '0' <;> by_cases zd : d = '0' <;> simp_all [Accept.parseQuality, AcceptSpec.qvalue, Accept.qDigits, AcceptSpec.frac3, lemma_isDigit_eq, lemma_digitVal, List.all_cons, List.all_nil]
      · simp [Accept.parseQuality, AcceptSpec.qvalue, Accept.qDigits, AcceptSpec.frac3, lemma_isDigit_eq, lemma_digitVal, List.all_cons, List.all_nil, hb]
    · by_cases h0 : a = '0'
      · subst h0
        by_cases hb : b = '.'
        · subst hb
          by_cases hc : AcceptSpec.isDigitC c = true <;> by_cases hd : AcceptSpec.isDigitC d = true <;> simp_all [Accept.parseQuality, AcceptSpec.qvalue, Accept.qDigits, AcceptSpec.frac3, lemma_isDigit_eq, lemma_digitVal, List.all_cons, List.all_nil] <;> omega
        · simp [Accept.parseQuality, AcceptSpec.qvalue, Accept.qDigits, AcceptSpec.frac3, lemma_isDigit_eq, lemma_digitVal, List.all_cons, List.all_nil, hb]
      · simp [Accept.parseQuality, AcceptSpec.qvalue, Accept.qDigits, AcceptSpec.frac3, lemma_isDigit_eq, lemma_digitVal, List.all_cons, List.all_nil, h0, h1]
  | [a, b, c, d, e] =>
    by_cases h1 : a = '1'
    · subst h1
      by_cases hb : b = '.'
      · subst hb
        by_cases zc : c = '0' <;> by_cases zd : d = '0' <;> by_cases ze : e = '0' <;> simp_all [Accept.parseQuality, AcceptSpec.qvalue, Accept.qDigits, AcceptSpec.frac3, lemma_isDigit_eq, lemma_digitVal, List.all_cons, List.all_nil]
      · simp [Accept.parseQuality, AcceptSpec.qvalue, Accept.qDigits, AcceptSpec.frac3, lemma_isDigit_eq, lemma_digitVal, List.all_cons, List.all_nil, hb]
    · by_cases h0 : a = '0'
      · subst h0
        by_cases hb : b = '.'
        · subst hb
          by_cases hc : AcceptSpec.isDigitC c = true <;> by_cases hd : AcceptSpec.isDigitC d = true <;> by_cases he : AcceptSpec.isDigitC e = true <;> simp_all [Accept.parseQuality, AcceptSpec.qvalue, Accept.qDigits, AcceptSpec.frac3, lemma_isDigit_eq, lemma_digitVal, List.all_cons, List.all_nil] <;> omega
        · simp [Accept.parseQuality, AcceptSpec.qvalue, Accept.qDigits, AcceptSpec.frac3, lemma_isDigit_eq, lemma_digitVal, List.all_cons, List.all_nil, hb]
      · simp [Accept.parseQuality, AcceptSpec.qvalue, Accept.qDigits, AcceptSpec.frac3, lemma_isDigit_eq, lemma_digitVal, List.all_cons, List.all_nil, h0, h1]
  | a :: b :: c :: d :: e :: f :: r =>
    have hlen : ¬ (r.length + 1 + 1 + 1 + 1 + 1 + 1 ≤ 5) := by omega
    by_cases h1 : a = '1'
    · subst h1
      by_cases hb : b = '.'
      · subst hb; simp [Accept.parseQuality, AcceptSpec.qvalue]
      · simp [Accept.parseQuality, AcceptSpec.qvalue, hb]
    · by_cases h0 : a = '0'
      · subst h0
        by_cases hb : b = '.'
        · subst hb; simp [Accept.parseQuality, AcceptSpec.qvalue]
        · simp [Accept.parseQuality, AcceptSpec.qvalue, hb]
      · simp [Accept.parseQuality, AcceptSpec.qvalue, h0, h1]


/-! ### the model's and the oracle's character classes and trimmers coincide -/

theorem lemma_isWS_eq : Accept.isWS = AcceptSpec.isOWS := rfl
theorem lemma_trimWS_eq (s : Bytes) : Accept.trimWS s = AcceptSpec.strip s := rfl
theorem lemma_trimSpace_eq (s : Bytes) : Accept.trimSpace s = AcceptSpec.trimSpace s := rfl
theorem lemma_lowerC_eq : Accept.lowerC = AcceptSpec.lowerC := rfl
theorem lemma_lower_eq (s : Bytes) : Accept.lower s = AcceptSpec.lower s := rfl
theorem lemma_table_eq : Accept.mimeTable = AcceptSpec.shortNames := by decide

/-! ### splitting -/

theorem lemma_splitOn_ne_nil (sep : Char) (s : Bytes) : AcceptSpec.splitOn sep s ≠ [] := by
  cases s with
  | nil => simp [AcceptSpec.splitOn]
  | cons c r =>
    simp only [AcceptSpec.splitOn]
    split
    · simp
    · split <;> simp

theorem lemma_splitOn_cons (sep c : Char) (r : Bytes) (h : (c == sep) = false) :
    ∃ seg segs, AcceptSpec.splitOn sep r = seg :: segs ∧ AcceptSpec.splitOn sep (c :: r) = (c :: seg) :: segs := by
  cases hs : AcceptSpec.splitOn sep r with
  | nil => exact absurd hs (lemma_splitOn_ne_nil sep r)
  | cons seg segs =>
    refine ⟨seg, segs, rfl, ?_⟩
    simp [AcceptSpec.splitOn, h, hs]

def nonEmpty (x : Bytes) : Bool := !x.isEmpty

/-- the Go scanning loop yields the non-empty segments of the declarative split -/
theorem lemma_scanSegs (sep : Char) (s cur : Bytes) :
    ∃ seg segs, AcceptSpec.splitOn sep s = seg :: segs ∧
      scanSegs sep s cur = ((cur.reverse ++ seg) :: segs).filter nonEmpty := by
  induction s generalizing cur with
  | nil =>
    refine ⟨[], [], rfl, ?_⟩
    cases cur <;> simp [scanSegs, nonEmpty, List.filter_cons]
  | cons c r ih =>
    by_cases hc : (c == sep) = true
    · obtain ⟨seg, segs, h1, h2⟩ := ih []
      refine ⟨[], seg :: segs, by simp [AcceptSpec.splitOn, hc, h1], ?_⟩
      simp only [scanSegs, hc, if_true, h2, List.reverse_nil, List.nil_append, List.append_nil]
      cases cur <;> simp [nonEmpty, List.filter_cons]
    · have hc' : (c == sep) = false := by simpa using hc
      obtain ⟨seg, segs, h1, h2⟩ := lemma_splitOn_cons sep c r hc'
      obtain ⟨seg', segs', h1', h2'⟩ := ih (c :: cur)
      rw [h1] at h1'
      simp only [List.cons.injEq] at h1'
      obtain ⟨rfl, rfl⟩ := h1'
      refine ⟨c :: seg, segs, h2, ?_⟩
      simp only [scanSegs, hc', Bool.false_eq_true, if_false, h2']
      simp

theorem lemma_scanSegs_nil (sep : Char) (s : Bytes) :
    scanSegs sep s [] = (AcceptSpec.splitOn sep s).filter nonEmpty := by
  obtain ⟨seg, segs, h1, h2⟩ := lemma_scanSegs sep s []
  rw [h1, h2]; simp

theorem lemma_cutFirst_none (sep : Char) (s : Bytes) (h : cutFirst sep s = none) :
    AcceptSpec.splitOn sep s = [s] := by
  induction s with
  | nil => rfl
  | cons c r ih =>
    simp only [cutFirst] at h
    by_cases hc : (c == sep) = true
    · simp [hc] at h
    · have hc' : (c == sep) = false := by simpa using hc
      simp only [hc', Bool.false_eq_true, if_false] at h
      cases hr : cutFirst sep r with
      | some ab => simp [hr] at h
      | none =>
        have := ih hr
        simp [AcceptSpec.splitOn, hc', this]

theorem lemma_cutFirst_some (sep : Char) (s a b : Bytes) (h : cutFirst sep s = some (a, b)) :
    AcceptSpec.splitOn sep s = a :: AcceptSpec.splitOn sep b ∧ s = a ++ sep :: b := by
  induction s generalizing a with
  | nil => simp [cutFirst] at h
  | cons c r ih =>
    simp only [cutFirst] at h
    by_cases hc : (c == sep) = true
    · simp only [hc, if_true, Option.some.injEq, Prod.mk.injEq] at h
      obtain ⟨rfl, rfl⟩ := h
      have : c = sep := by simpa using hc
      simp [AcceptSpec.splitOn, hc, this]
    · have hc' : (c == sep) = false := by simpa using hc
      simp only [hc', Bool.false_eq_true, if_false] at h
      cases hr : cutFirst sep r with
      | none => simp [hr] at h
      | some ab =>
        obtain ⟨a', b'⟩ := ab
        simp only [hr, Option.some.injEq, Prod.mk.injEq] at h
        obtain ⟨rfl, rfl⟩ := h
        obtain ⟨h1, h2⟩ := ih a' hr
        cases hs : AcceptSpec.splitOn sep r with
        | nil => exact absurd hs (lemma_splitOn_ne_nil sep r)
        | cons seg segs =>
          rw [hs] at h1
          simp only [List.cons.injEq] at h1
          obtain ⟨rfl, rfl⟩ := h1
          refine ⟨?_, by rw [h2]; simp⟩
          simp only [AcceptSpec.splitOn, hc', Bool.false_eq_true, if_false, hs]

/-- `splitOn` returning exactly two segments is the same as cutting at the only separator -/
theorem lemma_splitOn_two (sep : Char) (s a b : Bytes) (h : AcceptSpec.splitOn sep s = [a, b]) :
    cutFirst sep s = some (a, b) ∧ cutFirst sep b = none := by
  cases hc : cutFirst sep s with
  | none => rw [lemma_cutFirst_none sep s hc] at h; simp at h
  | some ab =>
    obtain ⟨a', b'⟩ := ab
    obtain ⟨h1, _⟩ := lemma_cutFirst_some sep s a' b' hc
    rw [h1] at h
    simp only [List.cons.injEq] at h
    obtain ⟨rfl, h2⟩ := h
    cases hb : cutFirst sep b' with
    | none =>
      rw [lemma_cutFirst_none sep b' hb] at h2
      simp at h2; subst h2
      exact ⟨rfl, hb⟩
    | some cd =>
      obtain ⟨c', d'⟩ := cd
      obtain ⟨h3, _⟩ := lemma_cutFirst_some sep b' c' d' hb
      rw [h3] at h2
      have := lemma_splitOn_ne_nil sep d'
      simp at h2
      exact absurd h2.2 this

theorem lemma_splitEq (s : Bytes) : AcceptSpec.splitEq s = cutFirst '=' s := by
  induction s with
  | nil => rfl
  | cons c r ih =>
    simp only [AcceptSpec.splitEq, cutFirst, ih]
    split
    · rfl
    · cases cutFirst '=' r with
      | none => rfl
      | some ab => obtain ⟨a, b⟩ := ab; rfl


/-! ### trimming -/

theorem lemma_trimR_cons (c : Char) (r : Bytes) :
    trimR (c :: r) = if (trimR r).isEmpty && isWS c then [] else c :: trimR r := by
  unfold trimR
  simp only [List.reverse_cons, List.dropWhile_append]
  by_cases h : (List.dropWhile isWS r.reverse).isEmpty = true
  · have h' : List.dropWhile isWS r.reverse = [] := by simpa using h
    simp only [h, if_true, h', List.reverse_nil, List.isEmpty_nil, Bool.true_and]
    by_cases hc : isWS c = true
    · simp [List.dropWhile_cons, hc]
    · simp [List.dropWhile_cons, hc]
  · have h' : ¬ (List.dropWhile isWS r.reverse) = [] := by simpa using h
    simp [h, h']

theorem lemma_trimR_noWS (v : Bytes) (h : ∀ c ∈ v, isWS c = false) : trimR v = v := by
  induction v with
  | nil => rfl
  | cons c r ih =>
    rw [lemma_trimR_cons, ih (fun x hx => h x (by simp [hx]))]
    simp [h c (by simp)]

theorem lemma_trimR_idem (v : Bytes) : trimR (trimR v) = trimR v := by
  induction v with
  | nil => rfl
  | cons c r ih =>
    rw [lemma_trimR_cons]
    by_cases hc : ((trimR r).isEmpty && isWS c) = true
    · simp only [hc, if_true]; rfl
    · simp only [hc, if_false, Bool.false_eq_true]
      rw [lemma_trimR_cons, ih]
      simp only [hc, if_false, Bool.false_eq_true]

theorem lemma_trimR_head (c : Char) (r : Bytes) (hc : isWS c = false) : trimR (c :: r) = c :: trimR r := by
  rw [lemma_trimR_cons]; simp [hc]

theorem lemma_trimL_head (c : Char) (r : Bytes) (hc : isWS c = false) : trimL (c :: r) = c :: r := by
  simp [trimL, List.dropWhile_cons, hc]

/-- a non-empty trimmed string starts with a non-blank, and trimming it again changes nothing -/
theorem lemma_trimWS_shape (e : Bytes) (h : trimWS e ≠ []) :
    ∃ c r, trimWS e = c :: r ∧ isWS c = false ∧ trimWS (trimWS e) = trimWS e := by
  unfold trimWS at h ⊢
  cases hl : trimL e with
  | nil => simp [hl, trimR] at h
  | cons c r =>
    have hne : List.dropWhile isWS e ≠ [] := by unfold trimL at hl; rw [hl]; simp
    have hc : isWS c = false := by
      have := List.head_dropWhile_not isWS hne
      unfold trimL at hl
      simpa [hl] using this
    rw [lemma_trimR_head c r hc]
    refine ⟨c, trimR r, rfl, hc, ?_⟩
    rw [lemma_trimL_head c _ hc, lemma_trimR_head c _ hc, lemma_trimR_idem]

theorem lemma_trimWS_noWS (v : Bytes) (h : ∀ c ∈ v, isWS c = false) : trimWS v = v := by
  unfold trimWS
  cases v with
  | nil => rfl
  | cons c r => rw [lemma_trimL_head c r (h c (by simp)), lemma_trimR_noWS _ h]

/-! ### tokens and q-values contain no blanks -/

theorem lemma_tchar_noWS (c : Char) (h : AcceptSpec.isTchar c = true) : isWS c = false := by
  by_cases h1 : c = ' '
  · subst h1; revert h; decide
  · by_cases h2 : c = '\t'
    · subst h2; revert h; decide
    · simp [isWS, h1, h2]

theorem lemma_token (s : Bytes) (h : AcceptSpec.isToken s = true) : s ≠ [] ∧ ∀ c ∈ s, isWS c = false := by
  unfold AcceptSpec.isToken at h
  simp only [Bool.and_eq_true, Bool.not_eq_true', List.all_eq_true] at h
  refine ⟨by intro e; simp [e] at h, fun c hc => lemma_tchar_noWS c (h.2 c hc)⟩

theorem lemma_token_trim (s : Bytes) (h : AcceptSpec.isToken s = true) : trimWS s = s :=
  lemma_trimWS_noWS s (lemma_token s h).2

theorem lemma_digit_noWS (c : Char) (h : AcceptSpec.isDigitC c = true) : isWS c = false := by
  by_cases h1 : c = ' '
  · subst h1; revert h; decide
  · by_cases h2 : c = '\t'
    · subst h2; revert h; decide
    · simp [isWS, h1, h2]

/-- a string in the `qvalue` grammar starts with 0 or 1 and has no blank -/
theorem lemma_qvalue_shape (v : Bytes) (q : Nat) (h : AcceptSpec.qvalue v = some q) :
    (v.head? = some '0' ∨ v.head? = some '1') ∧ ∀ c ∈ v, isWS c = false := by
  unfold AcceptSpec.qvalue at h
  split at h
  · simp; decide
  · simp; decide
  · rename_i ds
    split at h
    · rename_i hc
      simp only [Bool.and_eq_true, List.all_eq_true] at hc
      refine ⟨by simp, ?_⟩
      intro c hc'
      simp only [List.mem_cons] at hc'
      rcases hc' with rfl | rfl | hc'
      · decide
      · decide
      · exact lemma_digit_noWS c (hc.2 c hc')
    · simp at h
  · rename_i zs
    split at h
    · rename_i hc
      simp only [Bool.and_eq_true, List.all_eq_true] at hc
      refine ⟨by simp, ?_⟩
      intro c hc'
      simp only [List.mem_cons] at hc'
      rcases hc' with rfl | rfl | hc'
      · decide
      · decide
      · have := hc.2 c hc'; simp at this; subst this; decide
    · simp at h
  · simp at h

theorem lemma_unquote_noquote (v : Bytes) (h : v.head? ≠ some '"') : unquote v = v := by
  unfold unquote
  have : (v.head? == some '"') = false := by simpa using h
  simp [this]


/-! ### the character-level parser computes the oracle's ranges -/

/-- contract of the `strconv.ParseFloat` fallback on the two grammatical q-values the integer parser
    rejects -/
def PFContract (pf : PF) : Prop := pf ['0', '.'] = some 0 ∧ pf ['1', '.'] = some 1000000

theorem lemma_applyQ (pf : PF) (hpf : PFContract pf) (v : Bytes) (q : Nat) (sp : ASpec)
    (h : AcceptSpec.qvalue v = some q) : applyQ pf v sp = { sp with q := q * 1000 } := by
  unfold applyQ
  rw [lemma_parseQuality]
  by_cases hb : v = ['0', '.'] ∨ v = ['1', '.']
  · simp only [hb, if_true]
    rcases hb with rfl | rfl
    · have : q = 0 := by simpa [AcceptSpec.qvalue, AcceptSpec.frac3] using h.symm
      subst this; simp [hpf.1]
    · have : q = 1000 := by simpa [AcceptSpec.qvalue] using h.symm
      subst this; simp [hpf.2]
  · simp only [hb, if_false, h]

/-- what one parameter does to the spec under construction -/
def paramEffect (x : AcceptSpec.Param) (sp : ASpec) : ASpec :=
  match x with
  | .weight q => { sp with q := q * 1000 }
  | .other => sp

theorem lemma_param (pf : PF) (hpf : PFContract pf) (p : Bytes) (sp : ASpec) (x : AcceptSpec.Param)
    (hne : AcceptSpec.strip p ≠ []) (h : AcceptSpec.param (AcceptSpec.strip p) = some x) :
    parseAcceptParam pf p sp = paramEffect x sp := by
  unfold parseAcceptParam
  rw [lemma_trimWS_eq]
  have he : (AcceptSpec.strip p).isEmpty = false := by cases hs : AcceptSpec.strip p <;> simp_all
  simp only [he, Bool.false_eq_true, if_false]
  unfold AcceptSpec.param at h
  rw [lemma_splitEq] at h
  cases hc : cutFirst '=' (AcceptSpec.strip p) with
  | none => simp [hc] at h
  | some kv =>
    obtain ⟨k, v⟩ := kv
    simp only [hc] at h ⊢
    by_cases htok : AcceptSpec.isToken k = true
    · simp only [htok, Bool.not_true, Bool.false_eq_true, if_false] at h
      rw [lemma_token_trim k htok]
      have hk : k.isEmpty = false := by have := (lemma_token k htok).1; cases k <;> simp_all
      simp only [hk, Bool.false_eq_true, if_false]
      by_cases hq : (k == ['q'] || k == ['Q']) = true
      · simp only [hq, if_true] at h
        cases hv : AcceptSpec.qvalue v with
        | none => simp [hv] at h
        | some q =>
          simp only [hv, Option.map_some, Option.some.injEq] at h
          subst h
          obtain ⟨hhead, hnows⟩ := lemma_qvalue_shape v q hv
          rw [lemma_trimWS_noWS v hnows]
          have hvne : v.isEmpty = false := by rcases hhead with h | h <;> cases v <;> simp_all
          have hunq : unquote v = v := lemma_unquote_noquote v (by rcases hhead with h | h <;> simp [h])
          have hqk : isQKey k = true := hq
          simp only [hvne, Bool.false_eq_true, if_false, hunq, hqk, if_true]
          exact lemma_applyQ pf hpf v q sp hv
      · simp only [hq, Bool.false_eq_true, if_false] at h
        have hx : x = .other := by
          split at h
          · simpa using h.symm
          · simp at h
        subst hx
        have hqk : isQKey k = false := by simpa [isQKey] using hq
        simp only [hqk, Bool.false_eq_true, if_false, paramEffect]
        split <;> rfl
    · simp [htok] at h

theorem lemma_param_blank (pf : PF) (p : Bytes) (sp : ASpec) (h : AcceptSpec.strip p = []) :
    parseAcceptParam pf p sp = sp := by
  unfold parseAcceptParam
  rw [lemma_trimWS_eq, h]
  simp

/-- folding the parameter pieces = applying the effects of the oracle's parameters in order -/
theorem lemma_params (pf : PF) (hpf : PFContract pf) (L : List Bytes) (xs : List AcceptSpec.Param) (sp : ASpec)
    (h : AcceptSpec.params L = some xs) :
    (L.filter nonEmpty).foldl (fun sp p => parseAcceptParam pf p sp) sp = xs.foldl (fun sp x => paramEffect x sp) sp := by
  induction L generalizing xs sp with
  | nil => simp [AcceptSpec.params] at h; subst h; rfl
  | cons p rest ih =>
    simp only [AcceptSpec.params] at h
    by_cases hb : (AcceptSpec.strip p).isEmpty = true
    · simp only [hb, if_true] at h
      have hs : AcceptSpec.strip p = [] := by simpa using hb
      by_cases hp : nonEmpty p = true
      · simp only [List.filter_cons, hp, if_true, List.foldl_cons, lemma_param_blank pf p sp hs]
        exact ih xs sp h
      · simp only [List.filter_cons, hp, if_false, Bool.false_eq_true]
        exact ih xs sp h
    · simp only [hb, if_false, Bool.false_eq_true] at h
      have hs : AcceptSpec.strip p ≠ [] := by simpa using hb
      have hp : nonEmpty p = true := by
        cases p with
        | nil => simp [AcceptSpec.strip] at hs
        | cons _ _ => rfl
      cases hx : AcceptSpec.param (AcceptSpec.strip p) with
      | none => simp [hx] at h
      | some x =>
        cases hxs : AcceptSpec.params rest with
        | none => simp [hx, hxs] at h
        | some xs' =>
          simp only [hx, hxs, Option.some.injEq] at h
          subst h
          simp only [List.filter_cons, hp, if_true, List.foldl_cons, lemma_param pf hpf p sp x hs hx]
          exact ih xs' _ hxs

theorem lemma_effects_value (xs : List AcceptSpec.Param) (sp : ASpec) :
    (xs.foldl (fun sp x => paramEffect x sp) sp).value = sp.value := by
  induction xs generalizing sp with
  | nil => rfl
  | cons x r ih => simp only [List.foldl_cons, ih]; cases x <;> rfl

theorem lemma_effects_none (xs : List AcceptSpec.Param) (sp : ASpec) (h : AcceptSpec.weights xs = []) :
    xs.foldl (fun sp x => paramEffect x sp) sp = sp := by
  induction xs generalizing sp with
  | nil => rfl
  | cons x r ih =>
    cases x with
    | other =>
      simp only [List.foldl_cons, paramEffect]
      exact ih sp (by simpa [AcceptSpec.weights] using h)
    | weight q => simp [AcceptSpec.weights] at h

theorem lemma_effects_one (xs : List AcceptSpec.Param) (sp : ASpec) (q : Nat) (h : AcceptSpec.weights xs = [q]) :
    xs.foldl (fun sp x => paramEffect x sp) sp = { sp with q := q * 1000 } := by
  induction xs generalizing sp with
  | nil => simp [AcceptSpec.weights] at h
  | cons x r ih =>
    cases x with
    | other =>
      simp only [List.foldl_cons, paramEffect]
      exact ih sp (by simpa [AcceptSpec.weights] using h)
    | weight q0 =>
      simp only [AcceptSpec.weights, List.filterMap_cons, List.cons.injEq] at h
      obtain ⟨rfl, h0⟩ := h
      simp only [List.foldl_cons, paramEffect]
      exact lemma_effects_none r _ h0

/-- one list element: the model's spec is the oracle's range (quality in millionths) -/
theorem lemma_part (pf : PF) (hpf : PFContract pf) (media : Bool) (e : Bytes) (x : AcceptSpec.Range)
    (hne : AcceptSpec.strip e ≠ []) (h : AcceptSpec.element media (AcceptSpec.strip e) = some x) :
    parseAcceptPart pf e = { value := x.value, q := x.q * 1000 } ∧ x.value ≠ [] := by
  obtain ⟨c0, r0, hshape, hc0, hidem⟩ := lemma_trimWS_shape e (by rw [lemma_trimWS_eq]; exact hne)
  rw [lemma_trimWS_eq] at hshape hidem
  rw [lemma_trimWS_eq] at hidem
  unfold parseAcceptPart
  rw [lemma_trimWS_eq]
  have he : (AcceptSpec.strip e).isEmpty = false := by cases hs : AcceptSpec.strip e <;> simp_all
  simp only [he, Bool.false_eq_true, if_false]
  unfold AcceptSpec.element at h
  have hrange : ∀ v, AcceptSpec.rangeOK media v = true → v ≠ [] := by
    intro v hv hempty
    subst hempty
    cases media <;> simp [AcceptSpec.rangeOK, AcceptSpec.mediaRange, AcceptSpec.splitOn, AcceptSpec.isToken] at hv
  cases hc : cutFirst ';' (AcceptSpec.strip e) with
  | none =>
    rw [lemma_cutFirst_none ';' _ hc] at h
    simp only [hidem] at h
    by_cases hok : AcceptSpec.rangeOK media (AcceptSpec.strip e) = true
    · simp only [hok, Bool.not_true, Bool.false_eq_true, if_false, AcceptSpec.params, AcceptSpec.weights,
        List.filterMap_nil, AcceptSpec.weightOf, Option.map_some, Option.some.injEq] at h
      subst h
      have hm : (1000 * 1000 : Nat) = 1000000 := by omega
      exact ⟨by show ({ value := _, q := 1000000 } : ASpec) = { value := _, q := 1000 * 1000 }; rw [hm], hne⟩
    · simp [hok] at h
  | some vp =>
    obtain ⟨v0, ps0⟩ := vp
    obtain ⟨hsplit, hcat⟩ := lemma_cutFirst_some ';' _ v0 ps0 hc
    rw [hsplit] at h
    simp only [] at h ⊢
    -- the value: nothing to trim on the left
    have hv : AcceptSpec.strip v0 = trimR v0 := by
      rw [← lemma_trimWS_eq]
      unfold trimWS
      cases v0 with
      | nil => rfl
      | cons c r =>
        rw [hshape] at hcat
        simp only [List.cons_append, List.cons.injEq] at hcat
        rw [← hcat.1, lemma_trimL_head c0 r hc0]
    by_cases hok : AcceptSpec.rangeOK media (AcceptSpec.strip v0) = true
    · simp only [hok, Bool.not_true, Bool.false_eq_true, if_false] at h
      have hvne := hrange _ hok
      cases hps : AcceptSpec.params (AcceptSpec.splitOn ';' ps0) with
      | none => simp [hps] at h
      | some xs =>
        simp only [hps] at h
        rw [lemma_scanSegs_nil, lemma_params pf hpf _ xs _ hps]
        cases hw : AcceptSpec.weights xs with
        | nil =>
          simp only [hw, AcceptSpec.weightOf, Option.map_some, Option.some.injEq] at h
          subst h
          rw [lemma_effects_none xs _ hw, hv]
          have hm : (1000 * 1000 : Nat) = 1000000 := by omega
          exact ⟨by show ({ value := _, q := 1000000 } : ASpec) = { value := _, q := 1000 * 1000 }; rw [hm], by rw [← hv]; exact hvne⟩
        | cons q ws =>
          cases ws with
          | nil =>
            simp only [hw, AcceptSpec.weightOf, Option.map_some, Option.some.injEq] at h
            subst h
            rw [lemma_effects_one xs _ q hw, hv]
            exact ⟨rfl, by rw [← hv]; exact hvne⟩
          | cons q2 ws2 => simp [hw, AcceptSpec.weightOf] at h
    · simp [hok] at h

theorem lemma_part_blank (pf : PF) (e : Bytes) (h : AcceptSpec.strip e = []) : (parseAcceptPart pf e).value = [] := by
  unfold parseAcceptPart
  rw [lemma_trimWS_eq, h]
  simp

/-- the model's spec for a range of the oracle -/
def toA (r : AcceptSpec.Range) : ASpec := { value := r.value, q := r.q * 1000 }

theorem lemma_elements (pf : PF) (hpf : PFContract pf) (media : Bool) (L : List Bytes) (rs : List AcceptSpec.Range)
    (h : AcceptSpec.elements media L = some rs) :
    (((L.filter nonEmpty).map (parseAcceptPart pf)).filter (fun sp => !sp.value.isEmpty)) = rs.map toA := by
  induction L generalizing rs with
  | nil => simp [AcceptSpec.elements] at h; subst h; rfl
  | cons e rest ih =>
    simp only [AcceptSpec.elements] at h
    by_cases hb : (AcceptSpec.strip e).isEmpty = true
    · simp only [hb, if_true] at h
      have hs : AcceptSpec.strip e = [] := by simpa using hb
      by_cases hp : nonEmpty e = true
      · simp only [List.filter_cons, hp, if_true, List.map_cons, lemma_part_blank pf e hs, List.isEmpty_nil,
          Bool.not_true, Bool.false_eq_true, if_false]
        exact ih rs h
      · simp only [List.filter_cons, hp, if_false, Bool.false_eq_true]
        exact ih rs h
    · simp only [hb, if_false, Bool.false_eq_true] at h
      have hs : AcceptSpec.strip e ≠ [] := by simpa using hb
      have hp : nonEmpty e = true := by
        cases e with
        | nil => simp [AcceptSpec.strip] at hs
        | cons _ _ => rfl
      cases hx : AcceptSpec.element media (AcceptSpec.strip e) with
      | none => simp [hx] at h
      | some x =>
        cases hxs : AcceptSpec.elements media rest with
        | none => simp [hx, hxs] at h
        | some xs' =>
          simp only [hx, hxs, Option.some.injEq] at h
          subst h
          obtain ⟨h1, h2⟩ := lemma_part pf hpf media e x hs hx
          have hv : (!(x.value).isEmpty) = true := by cases hxv : x.value <;> simp_all
          simp only [List.filter_cons, hp, if_true, List.map_cons, h1, hv]
          rw [ih xs' hxs]
          rfl

/-- the parser vs the oracle's ranges. On every header inside the RFC 9110 grammar the character-level parser
    yields exactly the oracle's ranges, in order, with the same weights. -/
theorem lemma_parseAccept (pf : PF) (hpf : PFContract pf) (media : Bool) (header : Bytes) (rs : List AcceptSpec.Range)
    (h : AcceptSpec.ranges media header = some rs) : parseAccept pf header = rs.map toA := by
  unfold parseAccept
  rw [lemma_scanSegs_nil]
  exact lemma_elements pf hpf media _ rs h


/-! ### the matchers agree with the oracle's specificity -/

theorem lemma_cutFirst_absent (sep : Char) (v : Bytes) (h : ∀ c ∈ v, c ≠ sep) : cutFirst sep v = none := by
  induction v with
  | nil => rfl
  | cons c r ih =>
    have hc : (c == sep) = false := by simpa using h c (by simp)
    simp [cutFirst, hc, ih (fun x hx => h x (by simp [hx]))]

theorem lemma_tchar_facts (c : Char) (h : AcceptSpec.isTchar c = true) : c ≠ ';' ∧ c ≠ '/' := by
  constructor
  · intro e; subst e; revert h; decide
  · intro e; subst e; revert h; decide

/-- a `type/subtype` made of two tokens: the model's `splitMediaType` finds the two halves -/
theorem lemma_splitMediaType (v t s : Bytes) (h : AcceptSpec.splitOn '/' v = [t, s])
    (ht : AcceptSpec.isToken t = true) (hs : AcceptSpec.isToken s = true) :
    splitMediaType v = (lower t, lower s) := by
  obtain ⟨hcut, _⟩ := lemma_splitOn_two '/' v t s h
  obtain ⟨_, hcat⟩ := lemma_cutFirst_some '/' v t s hcut
  have htc : ∀ c ∈ t, AcceptSpec.isTchar c = true := by
    have := ht; simp only [AcceptSpec.isToken, Bool.and_eq_true, List.all_eq_true] at this; exact this.2
  have hsc : ∀ c ∈ s, AcceptSpec.isTchar c = true := by
    have := hs; simp only [AcceptSpec.isToken, Bool.and_eq_true, List.all_eq_true] at this; exact this.2
  have hall : ∀ c ∈ v, c ≠ ';' ∧ isWS c = false := by
    intro c hc
    rw [hcat] at hc
    simp only [List.mem_append, List.mem_cons] at hc
    rcases hc with hc | rfl | hc
    · exact ⟨(lemma_tchar_facts c (htc c hc)).1, lemma_tchar_noWS c (htc c hc)⟩
    · decide
    · exact ⟨(lemma_tchar_facts c (hsc c hc)).1, lemma_tchar_noWS c (hsc c hc)⟩
  unfold splitMediaType
  rw [lemma_cutFirst_absent ';' v (fun c hc => (hall c hc).1)]
  simp only []
  rw [lemma_trimWS_noWS v (fun c hc => (hall c hc).2), hcut]

theorem lemma_lookup_mem' {β : Type} (m : List (Bytes × β)) (k : Bytes) (v : β) (h : m.lookup k = some v) : (k, v) ∈ m := by
  induction m with
  | nil => simp [List.lookup] at h
  | cons p r ih =>
    obtain ⟨a, b⟩ := p
    simp only [List.lookup] at h
    split at h
    · rename_i heq
      simp at heq h
      subst h; subst heq; simp
    · exact List.mem_cons_of_mem _ (ih h)

theorem lemma_ofNat_toNat : ∀ n, n < 91 → (Char.ofNat (n + 32)).toNat = n + 32 := by decide

theorem lemma_lowerC_idem (c : Char) : lowerC (lowerC c) = lowerC c := by
  unfold lowerC
  by_cases h : ('A'.toNat ≤ c.toNat && c.toNat ≤ 'Z'.toNat) = true
  · simp only [h, if_true]
    have hb : 65 ≤ c.toNat ∧ c.toNat ≤ 90 := by simpa using h
    have := lemma_ofNat_toNat c.toNat (by omega)
    have h2 : ('A'.toNat ≤ (Char.ofNat (c.toNat + 32)).toNat && (Char.ofNat (c.toNat + 32)).toNat ≤ 'Z'.toNat) = false := by
      rw [this]; simp; omega
    simp only [h2, Bool.false_eq_true, if_false]
  · simp only [h, if_false, Bool.false_eq_true]

theorem lemma_lower_idem (s : Bytes) : lower (lower s) = lower s := by
  simp [lower, List.map_map, Function.comp_def, lemma_lowerC_idem]

theorem lemma_table_lower : ∀ p ∈ mimeTable, lower p.2 = p.2 := by decide

theorem lemma_lower_append (a b : Bytes) : lower (a ++ '/' :: b) = lower a ++ '/' :: lower b := by
  simp [lower]; decide

/-- a well-formed `Accepts` offer: the model's view of it is the oracle's (type, subtype) -/
theorem lemma_offer (o t s : Bytes) (h : AcceptSpec.mediaOffer o = some (t, s)) :
    splitMediaType (normalizeMediaType o) = (t, s) ∧ t ≠ ['*'] ∧ s ≠ ['*'] ∧ normalizeMediaType o ≠ [] := by
  unfold AcceptSpec.mediaOffer at h
  simp only [] at h
  have hn : normalizeMediaType o = (match AcceptSpec.shortNames.lookup (AcceptSpec.lower (AcceptSpec.trimSpace o)) with
      | some f => f
      | none => AcceptSpec.lower (AcceptSpec.trimSpace o)) := by
    unfold normalizeMediaType
    rw [lemma_table_eq]
    rfl
  have hlow : lower (normalizeMediaType o) = normalizeMediaType o := by
    rw [hn]
    cases hl : AcceptSpec.shortNames.lookup (AcceptSpec.lower (AcceptSpec.trimSpace o)) with
    | none => simp only []; exact lemma_lower_idem _
    | some f =>
      simp only []
      have := lemma_lookup_mem' _ _ _ hl
      rw [← lemma_table_eq] at this
      exact lemma_table_lower _ this
  have h' : (match AcceptSpec.splitOn '/' (normalizeMediaType o) with
    | [t, s] =>
      if (AcceptSpec.isToken t && AcceptSpec.isToken s && !List.contains t '*' && !List.contains s '*') = true then
        some (t, s)
      else none
    | _ => none) = some (t, s) := by rw [hn]; exact h
  clear h
  have h := h'
  clear h'
  split at h
  · rename_i t0 s0 hsplit
    split at h
    · rename_i hcond
      simp only [Option.some.injEq, Prod.mk.injEq] at h
      obtain ⟨rfl, rfl⟩ := h
      simp only [Bool.and_eq_true, Bool.not_eq_true'] at hcond
      obtain ⟨⟨⟨ht, hs⟩, hts⟩, hss⟩ := hcond
      have hsm := lemma_splitMediaType _ _ _ hsplit ht hs
      obtain ⟨hcut, _⟩ := lemma_splitOn_two '/' _ _ _ hsplit
      obtain ⟨_, hcat⟩ := lemma_cutFirst_some '/' _ _ _ hcut
      have hl2 : lower t0 ++ '/' :: lower s0 = t0 ++ '/' :: s0 := by
        rw [← lemma_lower_append, ← hcat]; exact hlow
      have hlen : (lower t0).length = t0.length := by simp [lower]
      obtain ⟨e1, e2⟩ := List.append_inj hl2 hlen
      simp only [List.cons.injEq, true_and] at e2
      refine ⟨by rw [hsm, e1, e2], ?_, ?_, ?_⟩
      · intro e; rw [e] at hts; simp at hts
      · intro e; rw [e] at hss; simp at hss
      · rw [hcat]; simp
    · simp at h
  · simp at h

/-- what `matchMediaType` returns for a valid range against a valid offer, in the oracle's terms -/
theorem lemma_matchMedia (o : Bytes) (ot os : Bytes) (r : AcceptSpec.Range)
    (ho : AcceptSpec.mediaOffer o = some (ot, os)) (hr : (AcceptSpec.mediaRange r.value).isSome = true) :
    matchMediaType (normalizeMediaType o) (toA r) =
      if AcceptSpec.mediaSpecificity (ot, os) r > 0 then (r.q * 1000, AcceptSpec.mediaSpecificity (ot, os) r) else (0, 0) := by
  obtain ⟨hsplit, hot, hos, _⟩ := lemma_offer o ot os ho
  cases hm : AcceptSpec.mediaRange r.value with
  | none => simp [hm] at hr
  | some ts =>
    obtain ⟨t, s⟩ := ts
    have hm' := hm
    unfold AcceptSpec.mediaRange at hm'
    split at hm'
    · rename_i t0 s0 hsp
      split at hm'
      · rename_i hcond
        simp only [Option.some.injEq, Prod.mk.injEq] at hm'
        simp only [Bool.and_eq_true] at hcond
        have hsr := lemma_splitMediaType _ _ _ hsp hcond.1.1 hcond.1.2
        rw [← lemma_lower_eq, ← lemma_lower_eq] at hm'
        obtain ⟨e1, e2⟩ := hm'
        rw [e1, e2] at hsr
        unfold matchMediaType AcceptSpec.mediaSpecificity
        simp only [toA, hsplit, hsr, hm]
        by_cases c1 : (t == ['*'] && s == ['*']) = true
        · have c1' : t = ['*'] ∧ s = ['*'] := by simpa using c1
          obtain ⟨rfl, rfl⟩ := c1'
          have n1 : (['*'] == ot) = false := by simpa using fun e => hot e.symm
          have n2 : (['*'] == os) = false := by simpa using fun e => hos e.symm
          simp [n1, n2]
        · simp only [c1, Bool.false_eq_true, if_false]
          by_cases c2 : (t == ot && s == ['*']) = true
          · have c2' : t = ot ∧ s = ['*'] := by simpa using c2
            obtain ⟨rfl, rfl⟩ := c2'
            have n2 : (['*'] == os) = false := by simpa using fun e => hos e.symm
            simp [n2]
          · simp only [c2, Bool.false_eq_true, if_false]
            by_cases c3 : (t == ot && s == os) = true
            · simp [c3]
            · simp [c3]
      · simp at hm'
    · simp at hm'

theorem lemma_isPrefix_startsWith (p s : Bytes) : isPrefix p s = AcceptSpec.startsWith s p := by
  induction p generalizing s with
  | nil => cases s <;> rfl
  | cons a as ih =>
    cases s with
    | nil => rfl
    | cons b bs =>
      simp only [isPrefix, AcceptSpec.startsWith, ih]
      rw [Bool.beq_comm]

/-- what the Accept-* matcher returns for one range, in the oracle's terms -/
theorem lemma_matchToken (o m : Bytes) (r : AcceptSpec.Range) (ho : AcceptSpec.tokenOffer o = some m) :
    tokSpecificity (lower (trimSpace o)) (toA r) =
      if AcceptSpec.tokenSpecificity m r > 0 then (r.q * 1000, AcceptSpec.tokenSpecificity m r) else (0, 0) := by
  have hm : m = lower (trimSpace o) := by
    unfold AcceptSpec.tokenOffer at ho
    simp only [] at ho
    split at ho
    · simp only [Option.some.injEq] at ho; rw [← ho]; rfl
    · simp at ho
  subst hm
  unfold tokSpecificity AcceptSpec.tokenSpecificity
  simp only [toA, lemma_isPrefix_startsWith, ← lemma_lower_eq]
  by_cases c1 : (lower r.value == lower (trimSpace o)) = true
  · simp [c1]
  · simp only [c1, Bool.false_eq_true, if_false]
    by_cases c2 : (AcceptSpec.startsWith (lower r.value) (lower (trimSpace o) ++ ['-']) ||
        AcceptSpec.startsWith (lower (trimSpace o)) (lower r.value ++ ['-'])) = true
    · simp [c2]
    · simp only [c2, Bool.false_eq_true, if_false]
      by_cases c3 : (lower r.value == ['*']) = true
      · simp [c3]
      · simp [c3]


/-! ### the inner loop: the first most specific matching spec decides -/

/-- what `bestSpec` computes, declaratively -/
theorem lemma_bestSpec_fold (m : ASpec → Nat × Nat) (specs : List ASpec) (acc : Nat × Nat) :
    let r := specs.foldl (fun (acc : Nat × Nat) sp => if (m sp).2 > acc.2 then m sp else acc) acc
    (∀ sp ∈ specs, (m sp).2 ≤ r.2) ∧ acc.2 ≤ r.2 ∧ (r = acc ∨ ∃ sp ∈ specs, m sp = r ∧ r.2 > acc.2) := by
  induction specs generalizing acc with
  | nil => simp
  | cons sp rest ih =>
    simp only [List.foldl_cons]
    by_cases h : (m sp).2 > acc.2
    · simp only [h, if_true]
      obtain ⟨h1, h2, h3⟩ := ih (m sp)
      refine ⟨?_, by omega, ?_⟩
      · intro x hx
        rcases List.mem_cons.1 hx with rfl | hx
        · exact h2
        · exact h1 x hx
      · rcases h3 with h3 | ⟨y, hy, hy1, hy2⟩
        · right; exact ⟨sp, by simp, h3.symm, by rw [h3]; exact h⟩
        · right; exact ⟨y, by simp [hy], hy1, by omega⟩
    · simp only [h, if_false]
      obtain ⟨h1, h2, h3⟩ := ih acc
      refine ⟨?_, h2, ?_⟩
      · intro x hx
        rcases List.mem_cons.1 hx with rfl | hx
        · omega
        · exact h1 x hx
      · rcases h3 with h3 | ⟨y, hy, hy1, hy2⟩
        · left; exact h3
        · right; exact ⟨y, by simp [hy], hy1, hy2⟩

/-- `bestSpec m specs = (q, s)`: `s` is the greatest specificity of any spec; if it is positive,
    `(q, s)` is what `m` gives for one of the specs; if it is zero, `q = 0` -/
theorem lemma_bestSpec (m : ASpec → Nat × Nat) (specs : List ASpec) :
    (∀ sp ∈ specs, (m sp).2 ≤ (bestSpec m specs).2) ∧
    ((bestSpec m specs) = (0, 0) ∨ ∃ sp ∈ specs, m sp = bestSpec m specs ∧ (bestSpec m specs).2 > 0) := by
  have := lemma_bestSpec_fold m specs (0, 0)
  simp only at this
  obtain ⟨h1, _, h3⟩ := this
  exact ⟨h1, h3⟩

/-! ### the outer loops: an offer of maximal, strictly positive quality -/

/-- quality and specificity the model assigns to a normalised Accepts offer -/
def mq (specs : List ASpec) (o : Bytes) : Nat × Nat := bestSpec (matchMediaType o) specs

def LoopInv (specs : List ASpec) (b : Best) (done : List Bytes) : Prop :=
  (b.offer = [] ∧ b.q = -1 ∧ ∀ o ∈ done, (mq specs o).1 = 0) ∨
  (b.offer ∈ done ∧ b.q = ((mq specs b.offer).1 : Int) ∧ (mq specs b.offer).1 > 0 ∧ ∀ o ∈ done, (mq specs o).1 ≤ (mq specs b.offer).1)

theorem lemma_acceptsLoop_inv (specs : List ASpec) (rest : List Bytes) :
    ∀ (b : Best) (done : List Bytes), LoopInv specs b done →
    LoopInv specs (rest.foldl (fun (b : Best) offer =>
      let (q, s) := bestSpec (matchMediaType offer) specs
      if q > 0 && ((q : Int) > b.q || ((q : Int) == b.q && (s : Int) > b.spec)) then { offer := offer, q := q, spec := s } else b) b)
      (done ++ rest) := by
  induction rest with
  | nil => intro b done h; simpa using h
  | cons o rest ih =>
    intro b done h
    simp only [List.foldl_cons]
    have hrw : done ++ o :: rest = (done ++ [o]) ++ rest := by simp
    rw [hrw]
    apply ih
    -- one iteration
    have hq : bestSpec (matchMediaType o) specs = ((mq specs o).1, (mq specs o).2) := rfl
    rw [hq]
    simp only []
    by_cases hc : ((mq specs o).1 > 0 && (((mq specs o).1 : Int) > b.q || ((((mq specs o).1 : Nat) : Int) == b.q && (((mq specs o).2 : Nat) : Int) > b.spec))) = true
    · simp only [hc, if_true]
      right
      simp only [Bool.and_eq_true, decide_eq_true_eq, Bool.or_eq_true, beq_iff_eq] at hc
      obtain ⟨hpos, hcmp⟩ := hc
      refine ⟨by simp, rfl, hpos, ?_⟩
      intro x hx
      dsimp only
      rcases List.mem_append.1 hx with hx | hx
      · rcases h with ⟨_, _, h0⟩ | ⟨_, hbq, _, hall⟩
        · rw [h0 x hx]; omega
        · have := hall x hx
          rcases hcmp with hgt | ⟨heq, _⟩
          · rw [hbq] at hgt; omega
          · rw [hbq] at heq; omega
      · simp at hx; subst hx; omega
    · simp only [hc, if_false, Bool.false_eq_true]
      simp only [Bool.and_eq_true, decide_eq_true_eq, Bool.or_eq_true, beq_iff_eq, not_and, not_or] at hc
      rcases h with ⟨h1, h2, h0⟩ | ⟨hmem, hbq, hpos, hall⟩
      · left
        refine ⟨h1, h2, ?_⟩
        intro x hx
        rcases List.mem_append.1 hx with hx | hx
        · exact h0 x hx
        · simp at hx; subst hx
          by_cases hp : (mq specs x).1 > 0
          · have := (hc hp).1; rw [h2] at this; omega
          · omega
      · right
        refine ⟨by simp [hmem], hbq, hpos, ?_⟩
        intro x hx
        rcases List.mem_append.1 hx with hx | hx
        · exact hall x hx
        · simp at hx; subst hx
          by_cases hp : (mq specs x).1 > 0
          · have := (hc hp).1; rw [hbq] at this; omega
          · omega

theorem lemma_acceptsLoop (specs : List ASpec) (norm : List Bytes) :
    LoopInv specs (acceptsLoop specs norm) norm := by
  have := lemma_acceptsLoop_inv specs norm { offer := [], q := -1, spec := -1 } [] (by left; simp)
  simpa [acceptsLoop] using this

theorem lemma_originalOf (f : Bytes → Bytes) (offers : List Bytes) (best : Bytes) (h : best ∈ offers.map f) :
    originalOf offers (offers.map f) best ∈ offers ∧ f (originalOf offers (offers.map f) best) = best := by
  induction offers with
  | nil => simp at h
  | cons o rest ih =>
    simp only [List.map_cons, originalOf]
    by_cases hb : (f o == best) = true
    · simp only [hb, if_true]
      exact ⟨by simp, by simpa using hb⟩
    · simp only [hb, if_false, Bool.false_eq_true]
      have : best ∈ rest.map f := by
        simp only [List.map_cons, List.mem_cons] at h
        rcases h with h | h
        · exfalso; apply hb; simp [h]
        · exact h
      obtain ⟨h1, h2⟩ := ih this
      exact ⟨by simp [h1], h2⟩

/-- `Accepts` on parsed specs: empty answer iff every offer has model quality 0; otherwise an offer whose
    model quality is strictly positive and maximal -/
theorem lemma_acceptsWith (specs : List ASpec) (offers : List Bytes) (hs : specs ≠ [])
    (hne : ∀ o ∈ offers, normalizeMediaType o ≠ []) :
    (acceptsWith specs offers = [] ∧ ∀ o ∈ offers, (mq specs (normalizeMediaType o)).1 = 0) ∨
    (acceptsWith specs offers ∈ offers ∧ (mq specs (normalizeMediaType (acceptsWith specs offers))).1 > 0 ∧
      ∀ o ∈ offers, (mq specs (normalizeMediaType o)).1 ≤ (mq specs (normalizeMediaType (acceptsWith specs offers))).1) := by
  unfold acceptsWith
  have hse : specs.isEmpty = false := by cases specs <;> simp_all
  simp only [hse, Bool.false_eq_true, if_false]
  have hne' : ∀ o ∈ offers.map normalizeMediaType, o ≠ [] := by
    intro o ho; simp only [List.mem_map] at ho; obtain ⟨a, ha, rfl⟩ := ho; exact hne a ha
  rcases lemma_acceptsLoop specs (offers.map normalizeMediaType) with ⟨h1, _, h0⟩ | ⟨hmem, _, hpos, hall⟩
  · left
    simp only [h1, bne_self_eq_false, Bool.false_eq_true, if_false, true_and]
    intro o ho
    exact h0 _ (List.mem_map_of_mem ho)
  · right
    have hb : (acceptsLoop specs (offers.map normalizeMediaType)).offer ≠ [] := hne' _ hmem
    have hb' : ((acceptsLoop specs (offers.map normalizeMediaType)).offer != []) = true := by simpa using hb
    simp only [hb', if_true]
    obtain ⟨ho1, ho2⟩ := lemma_originalOf normalizeMediaType offers _ hmem
    refine ⟨ho1, by rw [ho2]; exact hpos, ?_⟩
    intro o ho
    rw [ho2]
    exact hall _ (List.mem_map_of_mem ho)



/-- quality and specificity the model assigns to an Accept-Charset, -Encoding or -Language offer -/
def tq (specs : List ASpec) (o : Bytes) : Nat × Nat := bestSpec (tokSpecificity (lower (trimSpace o))) specs

def TokInv (specs : List ASpec) (b : Bytes × Int) (done : List Bytes) : Prop :=
  (b.1 = [] ∧ b.2 = -1 ∧ ∀ o ∈ done, (tq specs o).1 = 0) ∨
  (b.1 ∈ done ∧ b.2 = ((tq specs b.1).1 : Int) ∧ (tq specs b.1).1 > 0 ∧ ∀ o ∈ done, (tq specs o).1 ≤ (tq specs b.1).1)

theorem lemma_tokLoop_inv (specs : List ASpec) (rest : List Bytes) :
    ∀ (b : Bytes × Int) (done : List Bytes), TokInv specs b done →
    TokInv specs (rest.foldl (fun (b : Bytes × Int) offer =>
      let (q, _) := bestSpec (tokSpecificity (lower (trimSpace offer))) specs
      if q > 0 && (q : Int) > b.2 then (offer, (q : Int)) else b) b) (done ++ rest) := by
  induction rest with
  | nil => intro b done h; simpa using h
  | cons o rest ih =>
    intro b done h
    simp only [List.foldl_cons]
    have hrw : done ++ o :: rest = (done ++ [o]) ++ rest := by simp
    rw [hrw]
    apply ih
    have hq : bestSpec (tokSpecificity (lower (trimSpace o))) specs = ((tq specs o).1, (tq specs o).2) := rfl
    rw [hq]
    simp only []
    by_cases hc : ((tq specs o).1 > 0 && (((tq specs o).1 : Nat) : Int) > b.2) = true
    · simp only [hc, if_true]
      right
      simp only [Bool.and_eq_true, decide_eq_true_eq] at hc
      obtain ⟨hpos, hgt⟩ := hc
      refine ⟨by simp, rfl, hpos, ?_⟩
      intro x hx
      dsimp only
      rcases List.mem_append.1 hx with hx | hx
      · rcases h with ⟨_, _, h0⟩ | ⟨_, hbq, _, hall⟩
        · rw [h0 x hx]; omega
        · have := hall x hx
          rw [hbq] at hgt; omega
      · simp at hx; subst hx; omega
    · simp only [hc, if_false, Bool.false_eq_true]
      simp only [Bool.and_eq_true, decide_eq_true_eq, not_and] at hc
      rcases h with ⟨h1, h2, h0⟩ | ⟨hmem, hbq, hpos, hall⟩
      · left
        refine ⟨h1, h2, ?_⟩
        intro x hx
        rcases List.mem_append.1 hx with hx | hx
        · exact h0 x hx
        · simp at hx; subst hx
          by_cases hp : (tq specs x).1 > 0
          · have := hc hp; rw [h2] at this; omega
          · omega
      · right
        refine ⟨by simp [hmem], hbq, hpos, ?_⟩
        intro x hx
        rcases List.mem_append.1 hx with hx | hx
        · exact hall x hx
        · simp at hx; subst hx
          by_cases hp : (tq specs x).1 > 0
          · have := hc hp; rw [hbq] at this; omega
          · omega

/-- `acceptHeaderMatch` on parsed specs: empty answer iff every offer has model quality 0; otherwise an
    offer whose model quality is strictly positive and maximal -/
theorem lemma_acceptHeaderMatch (specs : List ASpec) (offers : List Bytes) (hs : specs ≠ []) (ho : offers ≠ []) :
    (acceptHeaderMatch specs offers = [] ∧ ∀ o ∈ offers, (tq specs o).1 = 0) ∨
    (acceptHeaderMatch specs offers ∈ offers ∧ (tq specs (acceptHeaderMatch specs offers)).1 > 0 ∧
      ∀ o ∈ offers, (tq specs o).1 ≤ (tq specs (acceptHeaderMatch specs offers)).1) := by
  unfold acceptHeaderMatch
  have hse : specs.isEmpty = false := by cases specs <;> simp_all
  have hoe : offers.isEmpty = false := by cases offers <;> simp_all
  simp only [hse, hoe, Bool.false_eq_true, if_false]
  have := lemma_tokLoop_inv specs offers ([], -1) [] (by left; simp)
  simp only [List.nil_append] at this
  rcases this with ⟨h1, _, h0⟩ | ⟨hmem, _, hpos, hall⟩
  · left; exact ⟨h1, h0⟩
  · right; exact ⟨hmem, hpos, hall⟩




/-! ### from the model's "first most specific spec" to the oracle's qmin / qmax -/

theorem lemma_foldl_max_ge (l : List Nat) (a : Nat) : a ≤ l.foldl max a ∧ ∀ x ∈ l, x ≤ l.foldl max a := by
  induction l generalizing a with
  | nil => simp
  | cons y r ih =>
    simp only [List.foldl_cons]
    obtain ⟨h1, h2⟩ := ih (max a y)
    refine ⟨by omega, ?_⟩
    intro x hx
    rcases List.mem_cons.1 hx with rfl | hx
    · omega
    · exact h2 x hx

theorem lemma_foldl_max_mem (l : List Nat) (a : Nat) : l.foldl max a = a ∨ l.foldl max a ∈ l := by
  induction l generalizing a with
  | nil => simp
  | cons y r ih =>
    simp only [List.foldl_cons]
    rcases ih (max a y) with h | h
    · by_cases hay : a ≤ y
      · right; rw [h]; simp [Nat.max_eq_right hay]
      · left; rw [h]; omega
    · right; simp [h]

theorem lemma_foldl_min_le (l : List Nat) (a : Nat) : l.foldl min a ≤ a ∧ ∀ x ∈ l, l.foldl min a ≤ x := by
  induction l generalizing a with
  | nil => simp
  | cons y r ih =>
    simp only [List.foldl_cons]
    obtain ⟨h1, h2⟩ := ih (min a y)
    refine ⟨by omega, ?_⟩
    intro x hx
    rcases List.mem_cons.1 hx with rfl | hx
    · omega
    · exact h2 x hx

theorem lemma_maxNat_ge (l : List Nat) : ∀ x ∈ l, x ≤ AcceptSpec.maxNat l := (lemma_foldl_max_ge l 0).2
theorem lemma_maxNat_mem (l : List Nat) : AcceptSpec.maxNat l = 0 ∨ AcceptSpec.maxNat l ∈ l := lemma_foldl_max_mem l 0

/-- every most specific matching range bounds the oracle's quality interval -/
theorem lemma_top_bounds (sp : AcceptSpec.Range → Nat) (rs : List AcceptSpec.Range) (r : AcceptSpec.Range)
    (hr : r ∈ rs) (hpos : sp r > 0) (hmax : ∀ r' ∈ rs, sp r' ≤ sp r) :
    AcceptSpec.qmin sp rs ≤ r.q ∧ r.q ≤ AcceptSpec.qmax sp rs := by
  have hM : AcceptSpec.maxNat (rs.map sp) = sp r := by
    have h1 := lemma_maxNat_ge (rs.map sp) (sp r) (List.mem_map_of_mem hr)
    rcases lemma_maxNat_mem (rs.map sp) with h | h
    · omega
    · simp only [List.mem_map] at h
      obtain ⟨r', hr', he⟩ := h
      have := hmax r' hr'
      omega
  have htop : r ∈ AcceptSpec.top sp rs := by
    unfold AcceptSpec.top
    simp only [hM]
    have : (sp r == 0) = false := by simp; omega
    simp only [this, Bool.false_eq_true, if_false, List.mem_filter, hr, true_and]
    simp
  have hq : r.q ∈ (AcceptSpec.top sp rs).map (·.q) := List.mem_map_of_mem htop
  constructor
  · unfold AcceptSpec.qmin
    cases hl : (AcceptSpec.top sp rs).map (·.q) with
    | nil => rw [hl] at hq; simp at hq
    | cons q qs =>
      simp only []
      rw [hl] at hq
      obtain ⟨h1, h2⟩ := lemma_foldl_min_le qs q
      rcases List.mem_cons.1 hq with rfl | hq
      · exact h1
      · exact h2 _ hq
  · exact lemma_maxNat_ge _ _ hq

theorem lemma_top_empty (sp : AcceptSpec.Range → Nat) (rs : List AcceptSpec.Range) (h : ∀ r ∈ rs, sp r = 0) :
    AcceptSpec.qmin sp rs = 0 ∧ AcceptSpec.qmax sp rs = 0 := by
  have hM : AcceptSpec.maxNat (rs.map sp) = 0 := by
    rcases lemma_maxNat_mem (rs.map sp) with h' | h'
    · exact h'
    · simp only [List.mem_map] at h'
      obtain ⟨r', hr', he⟩ := h'
      rw [← he]; exact h r' hr'
  have : AcceptSpec.top sp rs = [] := by unfold AcceptSpec.top; simp [hM]
  simp [AcceptSpec.qmin, AcceptSpec.qmax, this, AcceptSpec.maxNat]

/-- if the model's per-spec matcher `m` agrees with the oracle's specificity `sp` on every range, the
    quality the inner loop assigns lies in the oracle's interval (in millionths) -/
theorem lemma_quality_bounds (rs : List AcceptSpec.Range) (sp : AcceptSpec.Range → Nat) (m : ASpec → Nat × Nat)
    (hm : ∀ r ∈ rs, m (toA r) = if sp r > 0 then (r.q * 1000, sp r) else (0, 0)) :
    AcceptSpec.qmin sp rs * 1000 ≤ (bestSpec m (rs.map toA)).1 ∧ (bestSpec m (rs.map toA)).1 ≤ AcceptSpec.qmax sp rs * 1000 := by
  obtain ⟨h1, h2⟩ := lemma_bestSpec m (rs.map toA)
  have hsp : ∀ r ∈ rs, sp r ≤ (bestSpec m (rs.map toA)).2 := by
    intro r hr
    have := h1 (toA r) (List.mem_map_of_mem hr)
    rw [hm r hr] at this
    by_cases hp : sp r > 0
    · simpa [hp] using this
    · omega
  rcases h2 with h0 | ⟨spx, hx, hmx, hpos⟩
  · have : ∀ r ∈ rs, sp r = 0 := by
      intro r hr; have := hsp r hr; rw [h0] at this; simpa using this
    obtain ⟨e1, e2⟩ := lemma_top_empty sp rs this
    rw [h0, e1, e2]; simp
  · simp only [List.mem_map] at hx
    obtain ⟨r, hr, rfl⟩ := hx
    have hmr := hm r hr
    by_cases hp : sp r > 0
    · simp only [hp, if_true] at hmr
      rw [hmr] at hmx
      have hq : (bestSpec m (rs.map toA)).1 = r.q * 1000 := by rw [← hmx]
      have hs : (bestSpec m (rs.map toA)).2 = sp r := by rw [← hmx]
      obtain ⟨b1, b2⟩ := lemma_top_bounds sp rs r hr hp (fun r' hr' => by have := hsp r' hr'; omega)
      rw [hq]
      constructor
      · exact Nat.mul_le_mul_right _ b1
      · exact Nat.mul_le_mul_right _ b2
    · simp only [hp, if_false] at hmr
      rw [hmr] at hmx
      rw [← hmx] at hpos
      simp at hpos

/-- the oracle's relation, from its reading in terms of offers -/
theorem lemma_acceptable_of (rs : List AcceptSpec.Range) (offers : List Bytes) (g : Bytes → AcceptSpec.Range → Nat)
    (ans : Bytes) (ho : offers ≠ []) (hrs : rs ≠ [])
    (h : (ans = [] ∧ ∀ o ∈ offers, AcceptSpec.qmin (g o) rs = 0) ∨
         (ans ≠ [] ∧ ans ∈ offers ∧ AcceptSpec.qmax (g ans) rs > 0 ∧
            ∀ o ∈ offers, AcceptSpec.qmin (g o) rs ≤ AcceptSpec.qmax (g ans) rs)) :
    AcceptSpec.acceptable rs offers (offers.map g) ans = true := by
  unfold AcceptSpec.acceptable
  have h1 : offers.isEmpty = false := by cases offers <;> simp_all
  have h2 : rs.isEmpty = false := by cases rs <;> simp_all
  simp only [h1, h2, Bool.false_eq_true, if_false]
  rcases h with ⟨ha, hall⟩ | ⟨hne, hmem, hpos, hall⟩
  · subst ha
    simp only [List.isEmpty_nil, if_true, List.all_map, List.all_eq_true, Function.comp, beq_iff_eq]
    exact hall
  · have h3 : ans.isEmpty = false := by cases ans <;> simp_all
    simp only [h3, Bool.false_eq_true, if_false, List.any_eq_true]
    refine ⟨(ans, g ans), ?_, ?_⟩
    · rw [List.zip_map_right]
      simp only [List.mem_map]
      exact ⟨(ans, ans), by simp [List.mem_iff_getElem] at hmem ⊢; obtain ⟨i, hi, he⟩ := hmem; exact ⟨i, hi, by simp [he]⟩, rfl⟩
    · simp only [beq_self_eq_true, Bool.true_and, Bool.and_eq_true, decide_eq_true_eq, List.all_map, List.all_eq_true, Function.comp]
      exact ⟨hpos, hall⟩


/-! ### assembling: the answers satisfy the oracle -/

theorem lemma_acceptsWith_wf (specs : List ASpec) (offers : List Bytes) :
    acceptsWith specs offers = [] ∨ acceptsWith specs offers ∈ offers := by
  unfold acceptsWith
  split
  · cases offers <;> simp
  · simp only []
    rcases lemma_acceptsLoop specs (offers.map normalizeMediaType) with ⟨h1, _, _⟩ | ⟨hmem, _, _, _⟩
    · left; simp [h1]
    · split
      · right; exact (lemma_originalOf normalizeMediaType offers _ hmem).1
      · left; rfl

theorem lemma_acceptHeaderMatch_wf (specs : List ASpec) (offers : List Bytes) :
    acceptHeaderMatch specs offers = [] ∨ acceptHeaderMatch specs offers ∈ offers := by
  unfold acceptHeaderMatch
  split
  · left; rfl
  · split
    · cases offers <;> simp
    · have := lemma_tokLoop_inv specs offers ([], -1) [] (by left; simp)
      simp only [List.nil_append] at this
      rcases this with ⟨h1, _, _⟩ | ⟨hmem, _, _, _⟩
      · left; exact h1
      · right; exact hmem

/-- every answer is an offer or empty — for every header, grammatical or not -/
theorem lemma_answer_wf (pf : PF) (c : Call) : AcceptSpec.wellFormedAnswer c.offers (answer pf c) = true := by
  have h : answer pf c = [] ∨ answer pf c ∈ c.offers := by
    unfold answer
    cases c.kind <;> simp only []
    · split
      · left; rfl
      · split
        · cases c.offers <;> simp
        · exact lemma_acceptsWith_wf _ _
    all_goals exact lemma_acceptHeaderMatch_wf _ _
  unfold AcceptSpec.wellFormedAnswer
  rcases h with h | h
  · simp [h]
  · simp [h]

theorem lemma_elements_valid (media : Bool) (L : List Bytes) (rs : List AcceptSpec.Range)
    (h : AcceptSpec.elements media L = some rs) : ∀ r ∈ rs, AcceptSpec.rangeOK media r.value = true := by
  induction L generalizing rs with
  | nil => simp [AcceptSpec.elements] at h; subst h; simp
  | cons e rest ih =>
    simp only [AcceptSpec.elements] at h
    split at h
    · exact ih rs h
    · cases hx : AcceptSpec.element media (AcceptSpec.strip e) with
      | none => simp [hx] at h
      | some x =>
        cases hxs : AcceptSpec.elements media rest with
        | none => simp [hx, hxs] at h
        | some xs' =>
          simp only [hx, hxs, Option.some.injEq] at h
          subst h
          intro r hr
          rcases List.mem_cons.1 hr with rfl | hr
          · unfold AcceptSpec.element at hx
            split at hx
            · simp at hx
            · split at hx
              · simp at hx
              · rename_i hok
                split at hx
                · simp at hx
                · rename_i ps hp
                  cases hw : AcceptSpec.weightOf (AcceptSpec.weights ps) with
                  | none => simp [hw] at hx
                  | some q =>
                    simp only [hw, Option.map_some, Option.some.injEq] at hx
                    subst hx
                    simpa using hok
          · exact ih xs' hxs r hr

theorem lemma_allSome {α : Type} (f : Bytes → Option α) (offers : List Bytes) (os : List α)
    (h : AcceptSpec.allSome (offers.map f) = some os) :
    (∀ o ∈ offers, (f o).isSome = true) ∧
    ∀ {β : Type} (g : α → β) (d : β), os.map g = offers.map (fun o => match f o with | some p => g p | none => d) := by
  induction offers generalizing os with
  | nil =>
    simp [AcceptSpec.allSome] at h; subst h
    exact ⟨by simp, by intros; rfl⟩
  | cons o rest ih =>
    simp only [List.map_cons] at h
    cases ho : f o with
    | none => simp [ho, AcceptSpec.allSome] at h
    | some p =>
      simp only [ho, AcceptSpec.allSome] at h
      cases hr : AcceptSpec.allSome (rest.map f) with
      | none => simp [hr] at h
      | some os' =>
        simp only [hr, Option.map_some, Option.some.injEq] at h
        subst h
        obtain ⟨h1, h2⟩ := ih os' hr
        refine ⟨?_, ?_⟩
        · intro x hx
          rcases List.mem_cons.1 hx with rfl | hx
          · simp [ho]
          · exact h1 x hx
        · intro β g d
          simp only [List.map_cons, ho, h2 g d]

/-- the specificity function the oracle attaches to an offer string -/
def spMedia (o : Bytes) : AcceptSpec.Range → Nat :=
  match AcceptSpec.mediaOffer o with
  | some p => AcceptSpec.mediaSpecificity p
  | none => fun _ => 0

def spToken (o : Bytes) : AcceptSpec.Range → Nat :=
  match AcceptSpec.tokenOffer o with
  | some m => AcceptSpec.tokenSpecificity m
  | none => fun _ => 0

/-- `Accepts` on a grammatical header with well-formed offers, stated on the oracle's quality interval -/
theorem lemma_media_rel (pf : PF) (hpf : PFContract pf) (header : Bytes) (offers : List Bytes) (rs : List AcceptSpec.Range)
    (hr : AcceptSpec.ranges true header = some rs) (hrs : rs ≠ []) (hne : offers ≠ [])
    (hoff : ∀ o ∈ offers, (AcceptSpec.mediaOffer o).isSome = true) :
    (answer pf ⟨.accept, header, offers⟩ = [] ∧ ∀ o ∈ offers, AcceptSpec.qmin (spMedia o) rs = 0) ∨
    (answer pf ⟨.accept, header, offers⟩ ≠ [] ∧ answer pf ⟨.accept, header, offers⟩ ∈ offers ∧
      AcceptSpec.qmax (spMedia (answer pf ⟨.accept, header, offers⟩)) rs > 0 ∧
      ∀ o ∈ offers, AcceptSpec.qmin (spMedia o) rs ≤ AcceptSpec.qmax (spMedia (answer pf ⟨.accept, header, offers⟩)) rs) := by
  have hparse := lemma_parseAccept pf hpf true header rs hr
  have hvalid := lemma_elements_valid true _ rs hr
  have hhdr : header.isEmpty = false := by
    cases header with
    | nil => simp [AcceptSpec.ranges, AcceptSpec.splitOn, AcceptSpec.elements, AcceptSpec.strip] at hr; exact absurd hr hrs
    | cons _ _ => rfl
  have hoe : offers.isEmpty = false := by cases offers <;> simp_all
  have hans : answer pf ⟨.accept, header, offers⟩ = acceptsWith (rs.map toA) offers := by
    simp only [answer, hoe, hhdr, Bool.false_eq_true, if_false, hparse]
  rw [hans]
  have hspecs : rs.map toA ≠ [] := by simpa using hrs
  -- the model's quality of each offer lies in the oracle's interval
  have hb : ∀ o ∈ offers, AcceptSpec.qmin (spMedia o) rs * 1000 ≤ (mq (rs.map toA) (normalizeMediaType o)).1 ∧
      (mq (rs.map toA) (normalizeMediaType o)).1 ≤ AcceptSpec.qmax (spMedia o) rs * 1000 := by
    intro o ho
    cases hm : AcceptSpec.mediaOffer o with
    | none => have := hoff o ho; simp [hm] at this
    | some p =>
      obtain ⟨ot, os⟩ := p
      have hsp : spMedia o = AcceptSpec.mediaSpecificity (ot, os) := by simp [spMedia, hm]
      rw [hsp]
      apply lemma_quality_bounds
      intro r hr'
      have hv := hvalid r hr'
      simp only [AcceptSpec.rangeOK, if_true] at hv
      exact lemma_matchMedia o ot os r hm hv
  have hnorm : ∀ o ∈ offers, normalizeMediaType o ≠ [] := by
    intro o ho
    cases hm : AcceptSpec.mediaOffer o with
    | none => have := hoff o ho; simp [hm] at this
    | some p => obtain ⟨ot, os⟩ := p; exact (lemma_offer o ot os hm).2.2.2
  rcases lemma_acceptsWith (rs.map toA) offers hspecs hnorm with ⟨h1, h0⟩ | ⟨hmem, hpos, hall⟩
  · left
    refine ⟨h1, ?_⟩
    intro o ho
    have := (hb o ho).1
    rw [h0 o ho] at this
    omega
  · right
    have ha := hb _ hmem
    refine ⟨?_, hmem, by omega, ?_⟩
    · intro e
      have := hnorm _ hmem
      rw [e] at this
      exact this (by decide)
    · intro o ho
      have h1 := (hb o ho).1
      have h2 := hall o ho
      omega

/-- the same for AcceptsCharsets / AcceptsEncodings / AcceptsLanguages -/
theorem lemma_token_rel (pf : PF) (hpf : PFContract pf) (k : Kind) (hk : k ≠ .accept) (header : Bytes) (offers : List Bytes)
    (rs : List AcceptSpec.Range)
    (hr : AcceptSpec.ranges false header = some rs) (hrs : rs ≠ []) (hne : offers ≠ [])
    (hoff : ∀ o ∈ offers, (AcceptSpec.tokenOffer o).isSome = true) :
    (answer pf ⟨k, header, offers⟩ = [] ∧ ∀ o ∈ offers, AcceptSpec.qmin (spToken o) rs = 0) ∨
    (answer pf ⟨k, header, offers⟩ ≠ [] ∧ answer pf ⟨k, header, offers⟩ ∈ offers ∧
      AcceptSpec.qmax (spToken (answer pf ⟨k, header, offers⟩)) rs > 0 ∧
      ∀ o ∈ offers, AcceptSpec.qmin (spToken o) rs ≤ AcceptSpec.qmax (spToken (answer pf ⟨k, header, offers⟩)) rs) := by
  have hparse := lemma_parseAccept pf hpf false header rs hr
  have hhdr : header.isEmpty = false := by
    cases header with
    | nil => simp [AcceptSpec.ranges, AcceptSpec.splitOn, AcceptSpec.elements, AcceptSpec.strip] at hr; exact absurd hr hrs
    | cons _ _ => rfl
  have hans : answer pf ⟨k, header, offers⟩ = acceptHeaderMatch (rs.map toA) offers := by
    cases k with
    | accept => exact absurd rfl hk
    | _ => simp only [answer, hhdr, Bool.false_eq_true, if_false, hparse]
  rw [hans]
  have hspecs : rs.map toA ≠ [] := by simpa using hrs
  have hb : ∀ o ∈ offers, AcceptSpec.qmin (spToken o) rs * 1000 ≤ (tq (rs.map toA) o).1 ∧
      (tq (rs.map toA) o).1 ≤ AcceptSpec.qmax (spToken o) rs * 1000 := by
    intro o ho
    cases hm : AcceptSpec.tokenOffer o with
    | none => have := hoff o ho; simp [hm] at this
    | some m =>
      have hsp : spToken o = AcceptSpec.tokenSpecificity m := by simp [spToken, hm]
      rw [hsp]
      apply lemma_quality_bounds
      intro r _
      exact lemma_matchToken o m r hm
  rcases lemma_acceptHeaderMatch (rs.map toA) offers hspecs hne with ⟨h1, h0⟩ | ⟨hmem, hpos, hall⟩
  · left
    refine ⟨h1, ?_⟩
    intro o ho
    have := (hb o ho).1
    rw [h0 o ho] at this
    omega
  · right
    have ha := hb _ hmem
    refine ⟨?_, hmem, by omega, ?_⟩
    · intro e
      have := hoff _ hmem
      rw [e] at this
      revert this; decide
    · intro o ho
      have h1 := (hb o ho).1
      have h2 := hall o ho
      omega


/-! ### all four calls against the oracle -/

/-- the answers satisfy the oracle. For every header string, offer list and kind of call, the answer satisfies
    the oracle: it is an offer or empty; and when the header is inside the RFC 9110 grammar and the offers
    are well formed, it is an offer of maximal strictly positive quality — quality of an offer = q of the
    most specific matching range — or empty when no offer has positive quality. -/
theorem lemma_negotiation_meets_spec (pf : PF) (hpf : PFContract pf) (c : Call) :
    AcceptSpec.negotiationOK (c.kind == Kind.accept) c.header c.offers (answer pf c) = true := by
  unfold AcceptSpec.negotiationOK
  rw [lemma_answer_wf, Bool.true_and]
  obtain ⟨k, header, offers⟩ := c
  simp only []
  by_cases hk : k = Kind.accept
  · subst hk
    simp only [beq_self_eq_true, if_true]
    cases hr : AcceptSpec.ranges true header with
    | none => rfl
    | some rs =>
      simp only []
      cases hos : AcceptSpec.allSome (offers.map AcceptSpec.mediaOffer) with
      | none => rfl
      | some os =>
        simp only []
        obtain ⟨hoff, hmap⟩ := lemma_allSome AcceptSpec.mediaOffer offers os hos
        have hm : os.map AcceptSpec.mediaSpecificity = offers.map spMedia := by
          rw [hmap AcceptSpec.mediaSpecificity (fun _ => 0)]
          apply List.map_congr_left
          intro o _
          unfold spMedia
          cases AcceptSpec.mediaOffer o <;> rfl
        rw [hm]
        by_cases hoe : offers = []
        · subst hoe; simp [AcceptSpec.acceptable, answer]
        · by_cases hrs : rs = []
          · subst hrs
            have hparse := lemma_parseAccept pf hpf true header [] hr
            have hoe' : offers.isEmpty = false := by cases offers <;> simp_all
            have : answer pf ⟨.accept, header, offers⟩ = offers.headD [] := by
              simp only [answer, hoe', Bool.false_eq_true, if_false, hparse, List.map_nil, acceptsWith, List.isEmpty_nil, if_true]
              split <;> rfl
            rw [this]
            cases offers with
            | nil => exact absurd rfl hoe
            | cons o _ => simp [AcceptSpec.acceptable]
          · exact lemma_acceptable_of rs offers spMedia _ hoe hrs
              (lemma_media_rel pf hpf header offers rs hr hrs hoe hoff)
  · have hk' : (k == Kind.accept) = false := by simpa using hk
    simp only [hk', Bool.false_eq_true, if_false]
    cases hr : AcceptSpec.ranges false header with
    | none => rfl
    | some rs =>
      simp only []
      cases hos : AcceptSpec.allSome (offers.map AcceptSpec.tokenOffer) with
      | none => rfl
      | some os =>
        simp only []
        obtain ⟨hoff, hmap⟩ := lemma_allSome AcceptSpec.tokenOffer offers os hos
        have hm : os.map AcceptSpec.tokenSpecificity = offers.map spToken := by
          rw [hmap AcceptSpec.tokenSpecificity (fun _ => 0)]
          apply List.map_congr_left
          intro o _
          unfold spToken
          cases AcceptSpec.tokenOffer o <;> rfl
        rw [hm]
        by_cases hoe : offers = []
        · subst hoe
          have : answer pf ⟨k, header, []⟩ = [] := by
            cases k <;> simp [answer, acceptHeaderMatch]
          simp [AcceptSpec.acceptable, this]
        · by_cases hrs : rs = []
          · subst hrs
            have hparse := lemma_parseAccept pf hpf false header [] hr
            have hoe' : offers.isEmpty = false := by cases offers <;> simp_all
            have : answer pf ⟨k, header, offers⟩ = offers.headD [] := by
              cases k with
              | accept => exact absurd rfl hk
              | _ =>
                simp only [answer, hparse, List.map_nil, acceptHeaderMatch, hoe', Bool.false_eq_true, if_false,
                  List.isEmpty_nil, if_true]
                split <;> simp
            rw [this]
            cases offers with
            | nil => exact absurd rfl hoe
            | cons o _ => simp [AcceptSpec.acceptable]
          · exact lemma_acceptable_of rs offers spToken _ hoe hrs
              (lemma_token_rel pf hpf k hk header offers rs hr hrs hoe hoff)

/-- specificity of a range for an offer string, per kind of call -/
def spOf (media : Bool) (o : Bytes) : AcceptSpec.Range → Nat := if media then spMedia o else spToken o
def offerOK (media : Bool) (o : Bytes) : Bool :=
  if media then (AcceptSpec.mediaOffer o).isSome else (AcceptSpec.tokenOffer o).isSome

theorem lemma_rel (pf : PF) (hpf : PFContract pf) (c : Call) (rs : List AcceptSpec.Range)
    (hr : AcceptSpec.ranges (c.kind == Kind.accept) c.header = some rs) (hrs : rs ≠ []) (hne : c.offers ≠ [])
    (hoff : ∀ o ∈ c.offers, offerOK (c.kind == Kind.accept) o = true) :
    (answer pf c = [] ∧ ∀ o ∈ c.offers, AcceptSpec.qmin (spOf (c.kind == Kind.accept) o) rs = 0) ∨
    (answer pf c ≠ [] ∧ answer pf c ∈ c.offers ∧
      AcceptSpec.qmax (spOf (c.kind == Kind.accept) (answer pf c)) rs > 0 ∧
      ∀ o ∈ c.offers, AcceptSpec.qmin (spOf (c.kind == Kind.accept) o) rs ≤
        AcceptSpec.qmax (spOf (c.kind == Kind.accept) (answer pf c)) rs) := by
  obtain ⟨k, header, offers⟩ := c
  simp only [] at hr hne hoff ⊢
  by_cases hk : k = Kind.accept
  · subst hk
    simp only [beq_self_eq_true, spOf, offerOK, if_true] at hr hoff ⊢
    exact lemma_media_rel pf hpf header offers rs hr hrs hne hoff
  · have hk' : (k == Kind.accept) = false := by simpa using hk
    simp only [hk', spOf, offerOK, Bool.false_eq_true, if_false] at hr hoff ⊢
    exact lemma_token_rel pf hpf k hk header offers rs hr hrs hne hoff


end Rivaas.C19
