import Rivaas.Lemmas.OpenAPIBuild
set_option linter.unusedSimpArgs false
/-
C07 — helper lemmas: sorting, the component list, the projection, and the step from the builder's
invariant to the document-level oracle.
-/
namespace Rivaas.OpenAPI
open List

/-! ## sorting is a permutation -/

theorem insertKey_perm {β} (x : B × β) : ∀ l : List (B × β), insertKey x l ~ x :: l
  | [] => by simp [insertKey]
  | y :: ys => by
    simp only [insertKey]
    split
    · exact Perm.refl _
    · exact ((insertKey_perm x ys).cons y).trans (Perm.swap x y ys)

theorem sortByKey_perm {β} : ∀ l : List (B × β), sortByKey l ~ l
  | [] => by simp [sortByKey]
  | x :: xs => by
    simp only [sortByKey]
    exact (insertKey_perm x _).trans ((sortByKey_perm xs).cons x)

theorem mem_sortByKey {β} {l : List (B × β)} {x : B × β} : x ∈ sortByKey l ↔ x ∈ l := (sortByKey_perm l).mem_iff

theorem insertResp_perm {σ} (x : Resp σ) : ∀ l : List (Resp σ), insertResp x l ~ x :: l
  | [] => by simp [insertResp]
  | y :: ys => by
    simp only [insertResp]
    split
    · exact Perm.refl _
    · exact ((insertResp_perm x ys).cons y).trans (Perm.swap x y ys)

theorem sortResps_perm {σ} : ∀ l : List (Resp σ), sortResps l ~ l
  | [] => by simp [sortResps]
  | x :: xs => by
    simp only [sortResps]
    exact (insertResp_perm x _).trans ((sortResps_perm xs).cons x)

theorem perm_flatMap_congr {α β} {f g : α → List β} : ∀ (l : List α), (∀ a ∈ l, f a ~ g a) → l.flatMap f ~ l.flatMap g
  | [], _ => by simp
  | a :: as, h => by
    simp only [flatMap_cons]
    exact (h a (mem_cons_self ..)).append (perm_flatMap_congr as fun b hb => h b (mem_cons_of_mem _ hb))

theorem nodupB_iff (l : List B) : nodupB l = true ↔ l.Nodup := by
  induction l with
  | nil => simp [nodupB]
  | cons x xs ih => simp [nodupB, ih]

/-! ## the component list -/

theorem keys_setAssoc {β} (k : B) (v : β) : ∀ (l : List (B × β)) (x : B), x ∈ l.map (·.1) → x ∈ (setAssoc k v l).map (·.1)
  | [], x, h => by simp at h
  | (k', v') :: rest, x, h => by
    simp only [setAssoc]
    split
    next hk =>
      simp only [map_cons, mem_cons] at h ⊢
      rcases h with h | h
      · exact Or.inl (h.trans hk)
      · exact Or.inr h
    next =>
      simp only [map_cons, mem_cons] at h ⊢
      rcases h with h | h
      · exact Or.inl h
      · exact Or.inr (keys_setAssoc k v rest x h)

theorem key_mem_setAssoc {β} (k : B) (v : β) : ∀ (l : List (B × β)), k ∈ (setAssoc k v l).map (·.1)
  | [] => by simp [setAssoc]
  | (k', v') :: rest => by
    simp only [setAssoc]
    split
    · simp
    · simp only [map_cons, mem_cons]; exact Or.inr (key_mem_setAssoc k v rest)

theorem componentList_sub : ∀ (st : Schemas) (e : B × IR), e ∈ componentList st → e ∈ st
  | [], e, h => by simp [componentList] at h
  | (k, v) :: rest, e, h => by
    simp only [componentList] at h
    split at h
    · rcases mem_setAssoc k v _ e h with rfl | h'
      · exact mem_cons_self ..
      · exact mem_cons_of_mem _ (componentList_sub rest e h')
    · simp only [mem_cons] at h ⊢
      rcases h with h | h
      · exact Or.inl h
      · exact Or.inr (componentList_sub rest e h)

theorem componentList_keys : ∀ (st : Schemas) (k : B), k ∈ Schemas.keys st → k ∈ (componentList st).map (·.1)
  | [], k, h => by simp [Schemas.keys] at h
  | (k0, v) :: rest, k, h => by
    simp only [Schemas.keys, map_cons, mem_cons] at h
    simp only [componentList]
    split
    · rcases h with rfl | h
      · exact key_mem_setAssoc _ _ _
      · exact keys_setAssoc _ _ _ _ (componentList_keys rest k h)
    · simp only [map_cons, mem_cons]
      rcases h with h | h
      · exact Or.inl h
      · exact Or.inr (componentList_keys rest k h)

/-! ## what `build` guarantees (intermediate representation) -/

theorem inv_nil (env : Env) : Inv env [] [] := fun e he => by simp at he

theorem build_post (env : Env) (ops : List OpIn) (paths : List (B × PathItem IR)) (comps : List (B × IR))
    (h : build env ops = .ok (paths, comps)) :
    (∀ pi ∈ paths, ∀ mo ∈ pi.2, ∀ x ∈ mo.2.schemas, Good (comps.map (·.1)) x) ∧
    (∀ ks ∈ comps, nameOK ks.1 = true ∧ Good (comps.map (·.1)) ks.2) ∧
    (pathsIds paths).Nodup := by
  simp only [build, buildFromGroups] at h
  split at h
  · cases h
  next r heq =>
    simp only [Except.ok.injEq, Prod.mk.injEq] at h
    obtain ⟨rfl, rfl⟩ := h
    obtain ⟨_, hinv, hgood, hnd⟩ := buildGroups_post env _ [] [] [] r.1 r.2 (inv_nil env) nodup_nil
      (fun i hi => by simp at hi) (by rw [heq])
    have hkeys : ∀ k ∈ Schemas.keys r.2, k ∈ (sortByKey (componentList r.2)).map (·.1) := by
      intro k hk
      exact ((sortByKey_perm _).map _).mem_iff.2 (componentList_keys _ k hk)
    refine ⟨?_, ?_, by simpa using hnd⟩
    · intro pi hpi mo hmo x hx
      exact Good.mono hkeys (hgood pi hpi mo hmo x hx)
    · intro ks hks
      have hmem := componentList_sub _ ks (mem_sortByKey.1 hks)
      refine ⟨(hinv ks hmem).1, Good.mono ?_ (hinv ks hmem).2⟩
      intro k hk
      rw [names_nil] at hk
      exact hkeys k hk

/-! ## from the builder's result to the document -/

theorem generate_ok {cfg : ApiCfg} {v : Version} {strict : Bool} {V : Option (Doc Schema → Bool)} {env : Env} {ops : List OpIn}
    {d : Doc Schema} (h : generate cfg v strict V env ops = .ok d) :
    ∃ paths comps, build env ops = .ok (paths, comps) ∧ project cfg strict v paths comps = .ok d := by
  unfold generate at h
  split at h
  · cases h
  next r hb =>
    split at h
    · cases h
    next d' hp =>
      refine ⟨r.1, r.2, by rw [hb], ?_⟩
      cases V with
      | none => simp only [Except.ok.injEq] at h; subst h; exact hp
      | some ok =>
        simp only [] at h
        split at h
        · simp only [Except.ok.injEq] at h; subst h; exact hp
        · cases h

theorem project_ok {cfg : ApiCfg} {strict : Bool} {v : Version} {paths : List (B × PathItem IR)} {comps : List (B × IR)}
    {d : Doc Schema} (h : project cfg strict v paths comps = .ok d) :
    d = applyCfg cfg v (projDoc v paths comps) ∧ ¬ (v = .v30 ∧ paths.isEmpty = true) := by
  unfold project at h
  split at h
  · cases h
  next hne =>
    split at h
    · cases h
    · simp only [Except.ok.injEq] at h
      exact ⟨h.symm, hne⟩

theorem mem_schemas_map {f : IR → Schema} {o : Operation IR} {x : Schema} (hx : x ∈ (o.map f).schemas) :
    ∃ y ∈ o.schemas, x = f y := by
  simp only [Operation.schemas, Operation.map, mem_append, mem_map, Option.mem_toList, mem_filterMap,
    Option.map_eq_some_iff] at hx ⊢
  rcases hx with (⟨p, ⟨p0, hp0, rfl⟩, rfl⟩ | ⟨y, hy, rfl⟩) | ⟨r, hr, hrx⟩
  · exact ⟨p0.schema, Or.inl (Or.inl ⟨p0, hp0, rfl⟩), rfl⟩
  · exact ⟨y, Or.inl (Or.inr hy), rfl⟩
  · have := (sortResps_perm _).mem_iff.1 hr
    simp only [mem_map] at this
    obtain ⟨r0, hr0, rfl⟩ := this
    simp only [Resp.map, Option.map_eq_some_iff] at hrx
    obtain ⟨y, hy, rfl⟩ := hrx
    exact ⟨y, Or.inr ⟨r0, hr0, hy⟩, rfl⟩

/-- every operation of the projected document is the projection of an operation the builder stored -/
theorem mem_projDoc_operations {v : Version} {paths : List (B × PathItem IR)} {comps : List (B × IR)}
    {o : Operation Schema} (ho : o ∈ (projDoc v paths comps).operations) :
    ∃ pi ∈ paths, ∃ mo ∈ pi.2, o = mo.2.map (projSchema v) := by
  simp only [Doc.operations, projDoc, mem_flatMap, mem_map] at ho
  obtain ⟨pi', ⟨pi, hpi, rfl⟩, mo', hmo', rfl⟩ := ho
  simp only [] at hmo'
  have := mem_sortByKey.1 hmo'
  simp only [mem_map] at this
  obtain ⟨mo, hmo, rfl⟩ := this
  exact ⟨pi, hpi, mo, hmo, rfl⟩

theorem mem_projDoc_allSchemas {v : Version} {paths : List (B × PathItem IR)} {comps : List (B × IR)} {x : Schema}
    (hx : x ∈ (projDoc v paths comps).allSchemas) :
    (∃ pi ∈ paths, ∃ mo ∈ pi.2, ∃ y ∈ mo.2.schemas, x = projSchema v y) ∨ (∃ ks ∈ comps, x = projSchema v ks.2) := by
  simp only [Doc.allSchemas, mem_append, mem_flatMap, mem_map] at hx
  rcases hx with ⟨o, ho, hxo⟩ | ⟨ks', hks', rfl⟩
  · obtain ⟨pi, hpi, mo, hmo, rfl⟩ := mem_projDoc_operations ho
    obtain ⟨y, hy, rfl⟩ := mem_schemas_map hxo
    exact Or.inl ⟨pi, hpi, mo, hmo, y, hy, rfl⟩
  · simp only [projDoc, mem_map] at hks'
    obtain ⟨ks, hks, rfl⟩ := hks'
    exact Or.inr ⟨ks, hks, rfl⟩

theorem projDoc_keys (v : Version) (paths : List (B × PathItem IR)) (comps : List (B × IR)) :
    (projDoc v paths comps).schemas.map (·.1) = comps.map (·.1) := by
  simp [projDoc, Function.comp_def]

/-! ## resolving a reference -/

theorem slash_not_ok : nameCharOK '/' = false := by decide
theorem tilde_not_ok : nameCharOK '~' = false := by decide

theorem unescapeToken_id : ∀ (k : B), k.all nameCharOK = true → unescapeToken k = k
  | [], _ => by simp [unescapeToken]
  | c :: rest, h => by
    simp only [all_cons, Bool.and_eq_true] at h
    have hc : c ≠ '~' := fun e => by rw [e, tilde_not_ok] at h; exact absurd h.1 (by simp)
    unfold unescapeToken
    split
    · rename_i heq; simp only [cons.injEq] at heq; exact absurd heq.1 hc
    · rename_i heq; simp only [cons.injEq] at heq; exact absurd heq.1 hc
    · rename_i c' rest' _ _ heq
      simp only [cons.injEq] at heq
      obtain ⟨rfl, rfl⟩ := heq
      rw [unescapeToken_id rest h.2]
    · rename_i heq; cases heq

theorem resolves_of_inNames {keys : List B} {r : B} (hk : ∀ k ∈ keys, nameOK k = true) (h : InNames keys r) :
    resolves keys r = true := by
  obtain ⟨k, hkm, rfl⟩ := h
  have hok := hk k hkm
  simp only [nameOK, Bool.and_eq_true] at hok
  have hcut : cutPrefix (s "#/components/schemas/") (refPrefix ++ k) = some k := by
    have hp : (s "#/components/schemas/").isPrefixOf (s "#/components/schemas/" ++ k) = true := by
      rw [List.isPrefixOf_iff_prefix]; exact List.prefix_append _ _
    simp only [cutPrefix, refPrefix, hp, if_true, List.drop_left]
  simp only [resolves, hcut, Bool.and_eq_true, Bool.not_eq_eq_eq_not, Bool.not_true, unescapeToken_id k hok.2]
  refine ⟨?_, by simpa using hkm⟩
  simp only [contains_eq_mem, decide_eq_false_iff_not]
  intro hmem
  have := (all_eq_true.1 hok.2) '/' hmem
  rw [slash_not_ok] at this
  exact absurd this (by simp)

end Rivaas.OpenAPI
