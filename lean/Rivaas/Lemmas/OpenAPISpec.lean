import Rivaas.Lemmas.OpenAPIProv
set_option linter.unusedSimpArgs false
/-
C07 — helper lemmas: from the shape of the built operations to the Boolean oracle (`opPathParamsOK`,
`wfOperation`, `wfSchema`) on the projected document.
-/
namespace Rivaas.OpenAPI
open List

/-! ## splitting a joined path -/

theorem splitOn_no_sep (sep : Char) : ∀ x : B, sep ∉ x → splitOn sep x = [x]
  | [], _ => by simp [splitOn]
  | c :: cs, h => by
    simp only [mem_cons, not_or] at h
    simp only [splitOn, splitOn_no_sep sep cs h.2]
    have : ¬ c = sep := fun e => h.1 e.symm
    simp [this]

theorem splitOn_append_sep (sep : Char) : ∀ (x rest : B), sep ∉ x → splitOn sep (x ++ sep :: rest) = x :: splitOn sep rest
  | [], rest, _ => by
    simp only [nil_append, splitOn]
    have := splitOn_ne_nil sep rest
    cases h : splitOn sep rest with
    | nil => exact absurd h this
    | cons a as => simp
  | c :: cs, rest, h => by
    simp only [mem_cons, not_or] at h
    simp only [cons_append, splitOn, splitOn_append_sep sep cs rest h.2]
    have : ¬ c = sep := fun e => h.1 e.symm
    simp [this]

theorem mem_splitOn_no_sep (sep : Char) : ∀ (x seg : B), seg ∈ splitOn sep x → sep ∉ seg
  | [], seg, h => by simp only [splitOn, mem_singleton] at h; subst h; simp
  | c :: cs, seg, h => by
    simp only [splitOn] at h
    have ih := mem_splitOn_no_sep sep cs
    cases hsp : splitOn sep cs with
    | nil => exact absurd hsp (splitOn_ne_nil sep cs)
    | cons a as =>
      rw [hsp] at h ih
      simp only at h
      split at h
      · simp only [mem_cons] at h
        rcases h with rfl | h
        · simp
        · exact ih seg (by simpa using h)
      next hne =>
        simp only [mem_cons] at h
        rcases h with rfl | h
        · simp only [mem_cons, not_or]
          exact ⟨fun e => hne e.symm, ih a (mem_cons_self ..)⟩
        · exact ih seg (mem_cons_of_mem _ h)

theorem splitOn_joinWith (sep : Char) : ∀ (l : List B), l ≠ [] → (∀ seg ∈ l, sep ∉ seg) →
    splitOn sep (joinWith [sep] l) = l
  | [], h, _ => absurd rfl h
  | [x], _, h => by simp only [joinWith]; exact splitOn_no_sep sep x (h x (mem_cons_self ..))
  | x :: y :: rest, _, h => by
    simp only [joinWith, append_assoc, singleton_append]
    rw [splitOn_append_sep sep x _ (h x (mem_cons_self ..))]
    rw [splitOn_joinWith sep (y :: rest) (by simp) (fun seg hs => h seg (mem_cons_of_mem _ hs))]

def specSeg (seg : B) : B :=
  match seg with
  | ':' :: name => ['{'] ++ name ++ ['}']
  | _ => seg

theorem specPathKey_eq (route : B) : specPathKey route = joinWith ['/'] ((splitOn '/' route).map specSeg) := rfl

theorem specSeg_no_slash (seg : B) (h : '/' ∉ seg) : '/' ∉ specSeg seg := by
  unfold specSeg
  split
  next name =>
    simp only [mem_cons, not_or] at h
    simp only [singleton_append, cons_append, mem_cons, mem_append, mem_singleton, not_or]
    exact ⟨by decide, ⟨by simp, h.2⟩, by decide⟩
  · exact h

/-- the segments of the path key are the converted segments of the route -/
theorem splitOn_specPathKey (route : B) : splitOn '/' (specPathKey route) = (splitOn '/' route).map specSeg := by
  rw [specPathKey_eq]
  apply splitOn_joinWith
  · simp only [ne_eq, map_eq_nil_iff]; exact splitOn_ne_nil '/' route
  · intro seg hseg
    obtain ⟨seg0, h0, rfl⟩ := mem_map.1 hseg
    exact specSeg_no_slash seg0 (mem_splitOn_no_sep '/' route seg0 h0)

theorem brace_mem_key (route n : B) (hn : n ∈ specRouteParams route) :
    (splitOn '/' (specPathKey route)).contains (['{'] ++ n ++ ['}']) = true := by
  rw [splitOn_specPathKey]
  simp only [specRouteParams, mem_filterMap] at hn
  obtain ⟨seg, hseg, hsn⟩ := hn
  have : seg = ':' :: n := by
    split at hsn
    · simp only [Option.some.injEq] at hsn; subst hsn; rfl
    · cases hsn
  subst this
  simp only [contains_eq_mem, decide_eq_true_eq]
  exact mem_map.2 ⟨':' :: n, hseg, rfl⟩

/-! ## counting a parameter -/

theorem filter_length_of_nodup {α} [BEq α] [LawfulBEq α] (a : α) : ∀ (l : List α), l.Nodup → a ∈ l → (l.filter (· == a)).length = 1
  | [], _, h => by simp at h
  | x :: xs, hnd, h => by
    rw [nodup_cons] at hnd
    simp only [mem_cons] at h
    by_cases hx : x = a
    · subst hx
      have : xs.filter (· == x) = [] := by
        rw [filter_eq_nil_iff]
        intro y hy
        simp only [beq_iff_eq]
        intro e; subst e; exact hnd.1 hy
      simp [filter_cons, this]
    · have hm : a ∈ xs := by
        rcases h with h | h
        · exact absurd h.symm hx
        · exact h
      simp only [filter_cons, beq_iff_eq, hx, if_false]
      exact filter_length_of_nodup a xs hnd.2 hm

theorem filter_params_eq {σ} (n : B) (ps : List (Param σ)) :
    (ps.filter fun p => p.loc == s "path" && p.name == n).length = ((pairsOf ps).filter (· == (s "path", n))).length := by
  induction ps with
  | nil => rfl
  | cons p rest ih =>
    simp only [pairsOf, map_cons, filter_cons]
    have : (p.loc == s "path" && p.name == n) = ((p.loc, p.name) == (s "path", n)) := by
      simp only [Prod.mk.injEq, Bool.beq_eq_decide_eq, Bool.decide_and]
    rw [this]
    split <;> simp_all [pairsOf]

/-! ## the shape survives the projection -/

theorem OpShape.map {route : B} {o : Operation IR} (f : IR → Schema) (h : OpShape route o) : OpShape route (o.map f) := by
  have hp : pairsOf (o.map f).params = pairsOf o.params := by
    simp [pairsOf, Operation.map, Param.map, Function.comp_def]
  refine ⟨?_, by rw [hp]; exact h.nodup, by rw [hp]; exact h.route, ?_, ?_, ?_, ?_⟩
  rotate_left 4
  · intro r hr
    simp only [Operation.map] at hr
    have := (sortResps_perm _).mem_iff.1 hr
    obtain ⟨r0, hr0, rfl⟩ := mem_map.1 this
    exact h.exX r0 hr0
  rotate_left 3
  · intro p hp'
    simp only [Operation.map, mem_map] at hp'
    obtain ⟨p0, hp0, rfl⟩ := hp'
    exact h.styles p0 hp0
  · intro p hp'
    simp only [Operation.map, mem_map] at hp'
    obtain ⟨p0, hp0, rfl⟩ := hp'
    exact h.params p0 hp0
  · intro e
    have := (sortResps_perm (o.resps.map (Resp.map f))).length_eq
    simp only [Operation.map] at e
    rw [e] at this
    simp only [length_nil, length_map] at this
    exact h.respsNe (length_eq_zero_iff.1 this.symm)
  · intro r hr
    simp only [Operation.map] at hr
    have := (sortResps_perm _).mem_iff.1 hr
    obtain ⟨r0, hr0, rfl⟩ := mem_map.1 this
    exact h.resps r0 hr0

/-- the path-parameter clause of the oracle, from the shape -/
theorem opPathParamsOK_of_shape {σ} {route : B} {o : Operation σ} (h : OpShape route o) :
    opPathParamsOK (specPathKey route) o route = true := by
  simp only [opPathParamsOK, all_eq_true, Bool.and_eq_true, beq_iff_eq]
  intro n hn
  have hn' : n ∈ routeParamNames route := by rw [routeParamNames_eq_spec]; exact hn
  refine ⟨⟨brace_mem_key route n hn, ?_⟩, ?_⟩
  · rw [filter_params_eq]
    exact filter_length_of_nodup _ _ h.nodup (h.route n hn')
  · intro p hp
    by_cases hc : p.loc = s "path" ∧ p.name = n
    · simp [hc.1, hc.2, (h.params p hp).2.2 hc.1]
    · simp only [Bool.or_eq_true, Bool.not_eq_eq_eq_not, Bool.not_true, Bool.and_eq_false_imp, beq_iff_eq]
      left
      intro h1
      simp only [beq_eq_false_iff_ne, ne_eq]
      exact fun h2 => hc ⟨h1, h2⟩

end Rivaas.OpenAPI
