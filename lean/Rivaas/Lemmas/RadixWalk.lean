import Rivaas.Lemmas.RadixNodes
import Rivaas.Lemmas.MatchOrder
/-
Layer L1b of C01: the descent of `getRoute` seen as a pure choice of a node (`descend`), what it finds
(soundness, unconditional) and when it finds the reference route (completeness under NoShadow).
-/
namespace Rivaas.RadixL
open Rivaas.Route Rivaas.Radix Rivaas.Match

/-! ### the descent without the context -/

/-- which node the loop of `getRoute` ends at, whether through its wildcard, and the parameter writes
made on the way (names as stored in the nodes) -/
def descend (ns : Nodes) (trail : Bool) : Key → List Bytes → Option (Key × Bool × List (Bytes × Bytes))
  | _, [] => none
  | cur, seg :: rest =>
    let next (cur1 : Key) (push : List (Bytes × Bytes)) : Option (Key × Bool × List (Bytes × Bytes)) :=
      if rest.isEmpty && !trail then some (cur1, false, push)
      else (descend ns trail cur1 rest).map fun r => (r.1, r.2.1, push ++ r.2.2)
    if hasK ns (cur ++ [ESeg.s seg]) then next (cur ++ [ESeg.s seg]) []
    else match (getK ns cur).pname with
      | some key => next (cur ++ [ESeg.p]) [(key, seg)]
      | none => match (getK ns cur).wild with
        | some _ => some (cur, true, [(wildParam, restOfPath (seg :: rest) trail)])
        | none => none

def pushAll (ctx : Ctx) (ps : List (Bytes × Bytes)) : Ctx := ps.foldl (fun c kv => c.push kv.1 kv.2) ctx

/-- the state of `getRoute` (context, local `overflow`) after a sequence of parameter writes -/
def pushAllT (st : Ctx × List (Bytes × Bytes)) (ps : List (Bytes × Bytes)) : Ctx × List (Bytes × Bytes) :=
  ps.foldl (fun c kv => pushT c kv.1 kv.2) st

/-- the end of `getRoute`: the leaf at the node reached, the captured values named after it
(`bindParamNames`), its constraints validated on that context -/
def finish (sat : Nat → Bytes → Bool) (ns : Nodes) (st : Ctx × List (Bytes × Bytes)) (r : Key × Bool × List (Bytes × Bytes)) : Option (Leaf × Ctx) :=
  match (if r.2.1 then (getK ns r.1).wild else (getK ns r.1).leaf) with
  | some lf =>
    if validate sat lf.cons (boundCtx false lf (pushAllT st r.2.2)) then some (lf, boundCtx false lf (pushAllT st r.2.2)) else none
  | none => none

/-- a successful lookup: the leaf together with the context the handler sees -/
def okOf (r : Option Leaf × Ctx) : Option (Leaf × Ctx) := r.1.map fun lf => (lf, r.2)

theorem pushAll_append (ctx : Ctx) (a b : List (Bytes × Bytes)) : pushAll ctx (a ++ b) = pushAll (pushAll ctx a) b := by
  simp [pushAll, List.foldl_append]

theorem pushAllT_append (st : Ctx × List (Bytes × Bytes)) (a b : List (Bytes × Bytes)) :
    pushAllT st (a ++ b) = pushAllT (pushAllT st a) b := by
  simp [pushAllT, List.foldl_append]

theorem finish_push (sat : Nat → Bytes → Bool) (ns : Nodes) (st : Ctx × List (Bytes × Bytes)) (push : List (Bytes × Bytes))
    (r : Key × Bool × List (Bytes × Bytes)) :
    finish sat ns st (r.1, r.2.1, push ++ r.2.2) = finish sat ns (pushAllT st push) r := by
  simp [finish, pushAllT_append]

theorem walk_eq_descend (sat : Nat → Bytes → Bool) (ns : Nodes) (trail : Bool) (cur : Key) (st : Ctx × List (Bytes × Bytes)) (segs : List Bytes) :
    okOf (walkGen false false sat ns trail cur st segs) = (descend ns trail cur segs).bind (finish sat ns st) := by
  induction segs generalizing cur st with
  | nil => simp [walkGen, descend, okOf]
  | cons seg rest ih =>
    have hnext : ∀ (cur1 : Key) (st1 : Ctx × List (Bytes × Bytes)) (push : List (Bytes × Bytes)), st1 = pushAllT st push →
        okOf (if (rest.isEmpty && !trail) = true then
                match (getK ns cur1).leaf with
                | some lf =>
                  if validate sat lf.cons (boundCtx false lf st1) = true then (some lf, boundCtx false lf st1)
                  else (none, boundCtx false lf st1)
                | none => (none, st1.1)
              else walkGen false false sat ns trail cur1 st1 rest) =
          (if (rest.isEmpty && !trail) = true then some (cur1, false, push)
           else (descend ns trail cur1 rest).map fun r => (r.1, r.2.1, push ++ r.2.2)).bind (finish sat ns st) := by
      intro cur1 st1 push hst
      by_cases hl : (rest.isEmpty && !trail) = true
      · simp only [hl, if_true, Option.bind_some, finish, Bool.false_eq_true, if_false, ← hst]
        cases (getK ns cur1).leaf with
        | none => simp [okOf]
        | some lf => by_cases hv : validate sat lf.cons (boundCtx false lf st1) = true <;> simp [okOf, hv]
      · simp only [hl, Bool.false_eq_true, if_false]
        rw [ih cur1 st1, hst]
        cases descend ns trail cur1 rest with
        | none => simp
        | some r => simp [finish_push]
    simp only [walkGen, descend]
    by_cases hs : hasK ns (cur ++ [ESeg.s seg]) = true
    · simp only [hs, if_true]
      exact hnext _ _ [] (by simp [pushAllT])
    · simp only [hs, if_false, Bool.false_eq_true]
      cases hp : (getK ns cur).pname with
      | some key =>
        simp only
        exact hnext _ _ [(key, seg)] (by simp [pushAllT])
      | none =>
        simp only
        cases hw : (getK ns cur).wild with
        | none => simp [okOf]
        | some lf =>
          simp only [Bool.false_or, Option.bind_some, finish, hw, if_true, pushAllT, List.foldl_cons, List.foldl_nil]
          by_cases hv : validate sat lf.cons (boundCtx false lf (pushT st wildParam (restOfPath (seg :: rest) trail))) = true <;> simp [okOf, hv]


/-! ### soundness of the descent (unconditional) -/

/-- the node key `q` (through its wildcard when `w`), read as a pattern without names, matches the segments -/
def matchKey : Key → Bool → List Bytes → Bool → Bool
  | [], false, [], trail => !trail
  | [], true, _ :: _, _ => true
  | ESeg.s a :: q, w, x :: xs, t => a = x && matchKey q w xs t
  | ESeg.p :: q, w, _ :: xs, t => matchKey q w xs t
  | _, _, _, _ => false

theorem descend_shape (ns : Nodes) (trail : Bool) (segs : List Bytes) (cur k : Key) (w : Bool)
    (ps : List (Bytes × Bytes)) (h : descend ns trail cur segs = some (k, w, ps)) :
    ∃ q, k = cur ++ q ∧ matchKey q w segs trail = true := by
  induction segs generalizing cur k w ps with
  | nil => simp [descend] at h
  | cons seg rest ih =>
    have hnext : ∀ (e : ESeg) (push : List (Bytes × Bytes)),
        (if (rest.isEmpty && !trail) = true then some (cur ++ [e], false, push)
         else (descend ns trail (cur ++ [e]) rest).map fun r => (r.1, r.2.1, push ++ r.2.2)) = some (k, w, ps) →
        ∃ q', k = cur ++ e :: q' ∧ w = (if (rest.isEmpty && !trail) = true then false else w) ∧
          (if (rest.isEmpty && !trail) = true then q' = [] else matchKey q' w rest trail = true) := by
      intro e push hh
      by_cases hl : (rest.isEmpty && !trail) = true
      · simp only [hl, if_true, Option.some.injEq, Prod.mk.injEq] at hh
        obtain ⟨h1, h2, _⟩ := hh
        exact ⟨[], by simp [← h1], by simp [hl, ← h2], by simp [hl]⟩
      · simp only [hl, Bool.false_eq_true, if_false] at hh ⊢
        cases hd : descend ns trail (cur ++ [e]) rest with
        | none => simp [hd] at hh
        | some r =>
          obtain ⟨k', w', ps'⟩ := r
          simp only [hd, Option.map_some, Option.some.injEq, Prod.mk.injEq] at hh
          obtain ⟨h1, h2, _⟩ := hh
          subst h1; subst h2
          obtain ⟨q', hq, hm⟩ := ih _ _ _ _ hd
          exact ⟨q', by simp [hq], trivial, hm⟩
    simp only [descend] at h
    by_cases hs : hasK ns (cur ++ [ESeg.s seg]) = true
    · simp only [hs, if_true] at h
      obtain ⟨q', hk, hw, hm⟩ := hnext _ _ h
      refine ⟨ESeg.s seg :: q', hk, ?_⟩
      by_cases hl : (rest.isEmpty && !trail) = true
      · simp only [hl, if_true] at hw hm
        subst hw; subst hm
        simp only [Bool.and_eq_true, List.isEmpty_iff, Bool.not_eq_true'] at hl
        simp [matchKey, hl.1, hl.2]
      · simp only [hl, Bool.false_eq_true, if_false] at hm
        simp [matchKey, hm]
    · simp only [hs, Bool.false_eq_true, if_false] at h
      cases hp : (getK ns cur).pname with
      | some key =>
        simp only [hp] at h
        obtain ⟨q', hk, hw, hm⟩ := hnext _ _ h
        refine ⟨ESeg.p :: q', hk, ?_⟩
        by_cases hl : (rest.isEmpty && !trail) = true
        · simp only [hl, if_true] at hw hm
          subst hw; subst hm
          simp only [Bool.and_eq_true, List.isEmpty_iff, Bool.not_eq_true'] at hl
          simp [matchKey, hl.1, hl.2]
        · simp only [hl, Bool.false_eq_true, if_false] at hm
          simp [matchKey, hm]
      | none =>
        simp only [hp] at h
        cases hw : (getK ns cur).wild with
        | none => simp [hw] at h
        | some lf =>
          simp only [hw, Option.some.injEq, Prod.mk.injEq] at h
          obtain ⟨h1, h2, _⟩ := h
          exact ⟨[], by simp [← h1], by simp [← h2, matchKey]⟩

/-- for a registered entry the nameless reading of its node key is the pattern match of the oracle -/
theorem matchKey_entry (bp : Pat) (hb : bp.all litOK = true) (w : Bool) (trail : Bool) (segs : List Bytes) :
    matchKey (ekeys bp) w segs trail = (matchPat trail (bp ++ (if w then [PSeg.wild] else [])) segs).isSome := by
  induction bp generalizing segs with
  | nil =>
    cases w <;> cases segs <;> cases trail <;> simp [ekeys, matchKey, matchPat]
  | cons a rest ih =>
    simp only [List.all_cons, Bool.and_eq_true] at hb
    cases a with
    | wild => simp [litOK] at hb
    | lit s =>
      cases segs with
      | nil => simp [ekeys, ekey, matchKey, matchPat]
      | cons x xs =>
        have := ih hb.2 xs
        simp only [ekeys] at this
        simp only [ekeys, List.filterMap_cons, ekey, matchKey, List.cons_append, matchPat, this]
        by_cases hsx : s = x <;> simp [hsx]
    | par n =>
      cases segs with
      | nil => simp [ekeys, ekey, matchKey, matchPat]
      | cons x xs =>
        have := ih hb.2 xs
        simp only [ekeys] at this
        simp [ekeys, ekey, matchKey, matchPat, this]


/-! ### completeness of the descent under NoShadow -/

/-- no registered pattern passing through the node `cur` offers, at some later position where it still
agrees with `suf` up to names, a compatible segment of strictly higher priority than `suf`'s -/
def NoShadowAt (L : List Entry) (cur : Key) (suf : Pat) (segs : List Bytes) : Prop :=
  ∀ e' ∈ L, ∀ suf', strip e'.pat cur = some suf' → ∀ (i : Nat) (a b : PSeg) (x : Bytes),
    prefixAgree i suf' suf = true → suf'[i]? = some a → suf[i]? = some b → segs[i]? = some x →
    compat a x = true → kind a ≤ kind b

/-- the parameter writes of the descent along `suf`, with the names the nodes hold -/
def pushesFor (ns : Nodes) (trail : Bool) : Key → Pat → List Bytes → List (Bytes × Bytes)
  | cur, PSeg.lit s :: rest, _ :: xs => pushesFor ns trail (cur ++ [ESeg.s s]) rest xs
  | cur, PSeg.par _ :: rest, x :: xs => ((getK ns cur).pname.getD [], x) :: pushesFor ns trail (cur ++ [ESeg.p]) rest xs
  | _, [PSeg.wild], x :: xs => [(wildParam, restOfPath (x :: xs) trail)]
  | _, _, _ => []

theorem endsWild_cons (a : PSeg) (as : Pat) (ha : a ≠ PSeg.wild) : endsWild (a :: as) = endsWild as := by
  cases as with
  | nil => simp [endsWild, ha]
  | cons b bs => simp [endsWild, List.getLast?_cons_cons]

theorem firstSome_isSome_of_mem {α β} (f : α → Option β) (l : List α) (a : α) (ha : a ∈ l) (h : (f a).isSome = true) :
    (firstSome f l).isSome = true := by
  induction l with
  | nil => simp at ha
  | cons b rest ih =>
    simp only [firstSome]
    cases hb : f b with
    | some v => simp
    | none =>
      simp only [List.mem_cons] at ha
      rcases ha with rfl | ha
      · rw [hb] at h; simp at h
      · simpa using ih ha

theorem lastSome_isSome_of_mem {α β} (f : α → Option β) (l : List α) (a : α) (ha : a ∈ l) (h : (f a).isSome = true) :
    (lastSome f l).isSome = true := by
  induction l with
  | nil => simp at ha
  | cons b rest ih =>
    simp only [lastSome]
    simp only [List.mem_cons] at ha
    rcases ha with rfl | ha
    · cases lastSome f rest <;> simp [h]
    · have := ih ha
      cases hl : lastSome f rest with
      | none => rw [hl] at this; simp at this
      | some v => simp

theorem firstSome_none {α β} (f : α → Option β) (l : List α) (h : ∀ a ∈ l, f a = none) : firstSome f l = none := by
  induction l with
  | nil => rfl
  | cons b rest ih =>
    simp only [firstSome, h b (List.mem_cons_self ..), ih (fun x hx => h x (List.mem_cons_of_mem _ hx))]
    rfl

theorem matchPat_nil_segs (trail : Bool) (suf : Pat) (h : (matchPat trail suf []).isSome = true) : suf = [] ∧ trail = false := by
  cases suf with
  | nil => cases trail <;> simp [matchPat] at h ⊢
  | cons a as =>
    cases a <;> cases as <;> simp [matchPat] at h

theorem ekey_static {seg : PSeg} {x : Bytes} (h : ekey seg = some (ESeg.s x)) : seg = PSeg.lit x := by
  cases seg with
  | lit s =>
    simp only [ekey, Option.some.injEq] at h
    injection h with h; rw [h]
  | par n => simp [ekey] at h
  | wild => simp [ekey] at h

theorem sameShape_of_ekey {a b : PSeg} {e : ESeg} (ha : ekey a = some e) (hb : ekey b = some e) : sameShape a b = true := by
  cases a with
  | wild => simp [ekey] at ha
  | lit s =>
    cases b with
    | wild => simp [ekey] at hb
    | lit s' =>
      simp only [ekey, Option.some.injEq] at ha hb
      rw [← hb] at ha
      injection ha with ha
      simp [sameShape, ha]
    | par n =>
      simp only [ekey, Option.some.injEq] at ha hb
      rw [← hb] at ha
      exact absurd ha (by simp)
  | par n =>
    cases b with
    | wild => simp [ekey] at hb
    | lit s' =>
      simp only [ekey, Option.some.injEq] at ha hb
      rw [← hb] at ha
      exact absurd ha (by simp)
    | par n' => simp [sameShape]

theorem NoShadowAt.step {L : List Entry} {cur : Key} {a : PSeg} {as : Pat} {x : Bytes} {rest : List Bytes} {e : ESeg}
    (h : NoShadowAt L cur (a :: as) (x :: rest)) (he : ekey a = some e) : NoShadowAt L (cur ++ [e]) as rest := by
  intro e' he' suf' hs i a' b' x' hpre ha' hb' hx' hc
  rw [strip_snoc] at hs
  cases hsc : strip e'.pat cur with
  | none => simp [hsc] at hs
  | some sufc =>
    rw [hsc] at hs
    cases sufc with
    | nil => simp [stepSuf] at hs
    | cons seg' tail' =>
      simp only [Option.bind_some, stepSuf] at hs
      by_cases hek : ekey seg' = some e
      · simp only [hek, if_true, Option.some.injEq] at hs
        subst hs
        have hshape : sameShape seg' a = true := sameShape_of_ekey hek he
        exact h e' he' (seg' :: tail') hsc (i + 1) a' b' x' (by simp [prefixAgree, hshape, hpre])
          (by simpa using ha') (by simpa using hb') (by simpa using hx') hc
      · simp [hek] at hs

theorem descend_complete (L : List Entry) (hL : ∀ e ∈ L, e.ok) (trail : Bool) (segs : List Bytes) (hne : segs ≠ []) :
    ∀ (cur : Key) (suf : Pat), (∃ m ∈ L, strip m.pat cur = some suf) →
      (matchPat trail suf segs).isSome = true → NoShadowAt L cur suf segs →
      descend (nodesOf L) trail cur segs =
        some (cur ++ ekeys suf, endsWild suf, pushesFor (nodesOf L) trail cur suf segs) := by
  induction segs with
  | nil => exact absurd rfl hne
  | cons x rest ih =>
    intro cur suf ⟨m, hm, hms⟩ hmatch hns
    -- the continuation after a static or parameter step
    have hnext : ∀ (a : PSeg) (as : Pat) (e : ESeg) (push : List (Bytes × Bytes)), suf = a :: as → ekey a = some e →
        (matchPat trail as rest).isSome = true →
        (if (rest.isEmpty && !trail) = true then some (cur ++ [e], false, push)
         else (descend (nodesOf L) trail (cur ++ [e]) rest).map fun r => (r.1, r.2.1, push ++ r.2.2)) =
          some (cur ++ ekeys (a :: as), endsWild (a :: as), push ++ pushesFor (nodesOf L) trail (cur ++ [e]) as rest) := by
      intro a as e push hsuf hea hm'
      have hawild : a ≠ PSeg.wild := by intro h; subst h; simp [ekey] at hea
      have hstrip : strip m.pat (cur ++ [e]) = some as := by
        rw [strip_snoc, hms, hsuf]; simp [stepSuf, hea]
      by_cases hl : (rest.isEmpty && !trail) = true
      · simp only [hl, if_true]
        simp only [Bool.and_eq_true, List.isEmpty_iff, Bool.not_eq_true'] at hl
        obtain ⟨hr, ht⟩ := hl
        subst hr
        obtain ⟨has, _⟩ := matchPat_nil_segs trail as hm'
        subst has
        have : pushesFor (nodesOf L) trail (cur ++ [e]) [] [] = [] := by simp [pushesFor]
        simp [ekeys, hea, endsWild, hawild, this]
      · simp only [hl, Bool.false_eq_true, if_false]
        have hrne : rest ≠ [] := by
          intro hr; subst hr
          obtain ⟨_, ht⟩ := matchPat_nil_segs trail as hm'
          simp [ht] at hl
        rw [ih hrne (cur ++ [e]) as ⟨m, hm, hstrip⟩ hm' (by rw [hsuf] at hns; exact hns.step hea)]
        simp [ekeys, hea, endsWild_cons a as hawild]
    cases suf with
    | nil => simp [matchPat] at hmatch
    | cons a as =>
      cases a with
      | lit s =>
        have hsx : s = x := by
          cases as <;> simp only [matchPat] at hmatch <;> by_cases h : s = x <;> simp_all
        subst hsx
        have hm' : (matchPat trail as rest).isSome = true := by
          cases as <;> simpa [matchPat] using hmatch
        have hhas : hasK (nodesOf L) (cur ++ [ESeg.s s]) = true := by
          rw [nodesOf_hasK L hL _ (by simp)]
          simp only [List.any_eq_true]
          refine ⟨m, hm, ?_⟩
          rw [strip_snoc, hms]; simp [stepSuf, ekey]
        simp only [descend, hhas, if_true]
        rw [hnext (PSeg.lit s) as (ESeg.s s) [] rfl rfl hm']
        simp [pushesFor]
      | par n =>
        have hm' : (matchPat trail as rest).isSome = true := by
          cases as <;> simpa [matchPat] using hmatch
        have hhas : hasK (nodesOf L) (cur ++ [ESeg.s x]) = false := by
          cases hh : hasK (nodesOf L) (cur ++ [ESeg.s x]) with
          | false => rfl
          | true =>
            exfalso
            rw [nodesOf_hasK L hL _ (by simp)] at hh
            simp only [List.any_eq_true] at hh
            obtain ⟨e', he', hs'⟩ := hh
            rw [strip_snoc] at hs'
            cases hsc : strip e'.pat cur with
            | none => simp [hsc] at hs'
            | some sufc =>
              cases sufc with
              | nil => simp [hsc, stepSuf] at hs'
              | cons seg' tail' =>
                have hseg : seg' = PSeg.lit x := by
                  simp only [hsc, Option.bind_some, stepSuf] at hs'
                  by_cases hk : ekey seg' = some (ESeg.s x)
                  · exact ekey_static hk
                  · simp [hk] at hs'
                subst hseg
                have := hns e' he' _ hsc 0 (PSeg.lit x) (PSeg.par n) x (by simp [prefixAgree]) (by simp) (by simp) (by simp)
                  (by simp [compat])
                simp [kind] at this
        have hpn : (getK (nodesOf L) cur).pname = some ((getK (nodesOf L) cur).pname.getD []) := by
          have : ((getK (nodesOf L) cur).pname).isSome = true := by
            rw [nodesOf_pname L hL]
            exact firstSome_isSome_of_mem _ L m hm (by simp [nameAtS, hms])
          cases hp : (getK (nodesOf L) cur).pname with
          | none => rw [hp] at this; simp at this
          | some v => simp
        simp only [descend, hhas, Bool.false_eq_true, if_false]
        rw [hpn]
        simp only
        rw [hnext (PSeg.par n) as ESeg.p _ rfl rfl hm']
        simp [pushesFor]
      | wild =>
        have has : as = [] := by
          cases as with
          | nil => rfl
          | cons b bs => simp [matchPat] at hmatch
        subst has
        have hhas : hasK (nodesOf L) (cur ++ [ESeg.s x]) = false := by
          cases hh : hasK (nodesOf L) (cur ++ [ESeg.s x]) with
          | false => rfl
          | true =>
            exfalso
            rw [nodesOf_hasK L hL _ (by simp)] at hh
            simp only [List.any_eq_true] at hh
            obtain ⟨e', he', hs'⟩ := hh
            rw [strip_snoc] at hs'
            cases hsc : strip e'.pat cur with
            | none => simp [hsc] at hs'
            | some sufc =>
              cases sufc with
              | nil => simp [hsc, stepSuf] at hs'
              | cons seg' tail' =>
                have hseg : seg' = PSeg.lit x := by
                  simp only [hsc, Option.bind_some, stepSuf] at hs'
                  by_cases hk : ekey seg' = some (ESeg.s x)
                  · exact ekey_static hk
                  · simp [hk] at hs'
                subst hseg
                have := hns e' he' _ hsc 0 (PSeg.lit x) PSeg.wild x (by simp [prefixAgree]) (by simp) (by simp) (by simp)
                  (by simp [compat])
                simp [kind] at this
        have hpn : (getK (nodesOf L) cur).pname = none := by
          rw [nodesOf_pname L hL]
          apply firstSome_none
          intro e' he'
          cases hsc : strip e'.pat cur with
          | none => simp [nameAtS, hsc]
          | some sufc =>
            cases sufc with
            | nil => simp [nameAtS, hsc]
            | cons seg' tail' =>
              cases seg' with
              | lit s' => simp [nameAtS, hsc]
              | wild => simp [nameAtS, hsc]
              | par n' =>
                exfalso
                have := hns e' he' _ hsc 0 (PSeg.par n') PSeg.wild x (by simp [prefixAgree]) (by simp) (by simp) (by simp)
                  (by simp [compat])
                simp [kind] at this
        have hwd : ((getK (nodesOf L) cur).wild).isSome = true := by
          rw [nodesOf_wild L hL]
          exact lastSome_isSome_of_mem _ L m hm (by simp [hms])
        simp only [descend, hhas, Bool.false_eq_true, if_false, hpn]
        cases hw : (getK (nodesOf L) cur).wild with
        | none => rw [hw] at hwd; simp at hwd
        | some lf => simp [ekeys, ekey, endsWild, pushesFor]


/-! ### maximality of the descent (unconditional) -/

theorem strip_append (pat : Pat) (a b : Key) : strip pat (a ++ b) = (strip pat a).bind fun s => strip s b := by
  induction a generalizing pat with
  | nil => simp [strip_nil_key]
  | cons e a' ih =>
    cases pat with
    | nil => simp [strip]
    | cons seg rest =>
      simp only [List.cons_append, strip]
      by_cases h : ekey seg = some e
      · simp only [h, if_true]; exact ih rest
      · simp [h]

theorem strip_cons_inv (suf : Pat) (e : ESeg) (q : Key) (t : Pat) (h : strip suf (e :: q) = some t) :
    ∃ seg suf1, suf = seg :: suf1 ∧ ekey seg = some e ∧ strip suf1 q = some t := by
  cases suf with
  | nil => simp [strip] at h
  | cons seg suf1 =>
    simp only [strip] at h
    by_cases he : ekey seg = some e
    · simp only [he, if_true] at h
      exact ⟨seg, suf1, rfl, he, h⟩
    · simp [he] at h

theorem ekey_param {seg : PSeg} (h : ekey seg = some ESeg.p) : ∃ n, seg = PSeg.par n := by
  cases seg with
  | lit s => simp [ekey] at h
  | par n => exact ⟨n, rfl⟩
  | wild => simp [ekey] at h

/-- **Priority, unconditionally**: the pattern of the node the descent ends at is not beaten by any
registered pattern that matches the same segments — whatever else is registered. -/
theorem descend_max (L : List Entry) (hL : ∀ e ∈ L, e.ok) (trail : Bool) (segs : List Bytes) :
    ∀ (cur q : Key) (w : Bool) (ps : List (Bytes × Bytes)),
      descend (nodesOf L) trail cur segs = some (cur ++ q, w, ps) →
      ∀ (suf : Pat), strip suf q = some (if w then [PSeg.wild] else []) →
      ∀ e' ∈ L, ∀ suf', strip e'.pat cur = some suf' → (matchPat trail suf' segs).isSome = true →
        better suf' suf = false := by
  induction segs with
  | nil => intro cur q w ps h; simp [descend] at h
  | cons x rest ih =>
    intro cur q w ps h suf hsuf e' he' suf' hs' hm'
    -- the continuation after a static or parameter step
    have hnext : ∀ (e : ESeg) (push : List (Bytes × Bytes)),
        (if (rest.isEmpty && !trail) = true then some (cur ++ [e], false, push)
         else (descend (nodesOf L) trail (cur ++ [e]) rest).map fun r => (r.1, r.2.1, push ++ r.2.2)) = some (cur ++ q, w, ps) →
        ∃ seg suf1, suf = seg :: suf1 ∧ ekey seg = some e ∧
          ∀ t', strip e'.pat (cur ++ [e]) = some t' → (matchPat trail t' rest).isSome = true → better t' suf1 = false := by
      intro e push hh
      by_cases hl : (rest.isEmpty && !trail) = true
      · simp only [hl, if_true, Option.some.injEq, Prod.mk.injEq] at hh
        obtain ⟨hk, hw, _⟩ := hh
        have hq : q = [e] := List.append_cancel_left hk.symm
        subst hq; subst hw
        simp only [Bool.false_eq_true, if_false] at hsuf
        obtain ⟨seg, suf1, rfl, hek, hs1⟩ := strip_cons_inv _ _ _ _ hsuf
        rw [strip_nil_key] at hs1
        injection hs1 with hs1
        subst hs1
        refine ⟨seg, [], rfl, hek, ?_⟩
        intro t' _ hmt
        simp only [Bool.and_eq_true, List.isEmpty_iff, Bool.not_eq_true'] at hl
        rw [hl.1] at hmt
        obtain ⟨rfl, _⟩ := matchPat_nil_segs trail t' hmt
        rfl
      · simp only [hl, Bool.false_eq_true, if_false] at hh
        cases hd : descend (nodesOf L) trail (cur ++ [e]) rest with
        | none => simp [hd] at hh
        | some r =>
          obtain ⟨k', w', ps'⟩ := r
          simp only [hd, Option.map_some, Option.some.injEq, Prod.mk.injEq] at hh
          obtain ⟨hk, hw, _⟩ := hh
          subst hw
          obtain ⟨q', hq', _⟩ := descend_shape _ _ _ _ _ _ _ hd
          have hq : q = e :: q' := by
            apply List.append_cancel_left (as := cur)
            rw [← hk, hq']; simp
          subst hq
          obtain ⟨seg, suf1, rfl, hek, hs1⟩ := strip_cons_inv _ _ _ _ hsuf
          refine ⟨seg, suf1, rfl, hek, ?_⟩
          intro t' hst' hmt
          rw [hq'] at hd
          exact ih (cur ++ [e]) q' w' ps' hd suf1 hs1 e' he' t' hst' hmt
    simp only [descend] at h
    by_cases hs : hasK (nodesOf L) (cur ++ [ESeg.s x]) = true
    · -- a static step
      simp only [hs, if_true] at h
      obtain ⟨seg, suf1, rfl, hek, hrec⟩ := hnext _ _ h
      have hseg := ekey_static hek
      subst hseg
      rcases MatchL.matchPat_cons_inv trail suf' x rest hm' with rfl | ⟨t', rfl, ht'⟩ | ⟨n', t', rfl, ht'⟩
      · simp [better, kind]
      · simp only [better, kind, if_true]
        apply hrec t' _ ht'
        rw [strip_snoc, hs']; simp [stepSuf, ekey]
      · simp [better, kind]
    · simp only [hs, Bool.false_eq_true, if_false] at h
      have hnostat : ∀ t', suf' ≠ PSeg.lit x :: t' := by
        intro t' e0
        apply hs
        rw [nodesOf_hasK L hL _ (by simp)]
        simp only [List.any_eq_true]
        refine ⟨e', he', ?_⟩
        rw [strip_snoc, hs', e0]; simp [stepSuf, ekey]
      cases hp : (getK (nodesOf L) cur).pname with
      | some key =>
        simp only [hp] at h
        obtain ⟨seg, suf1, rfl, hek, hrec⟩ := hnext _ _ h
        obtain ⟨n0, rfl⟩ := ekey_param hek
        rcases MatchL.matchPat_cons_inv trail suf' x rest hm' with rfl | ⟨t', rfl, ht'⟩ | ⟨n', t', rfl, ht'⟩
        · simp [better, kind]
        · exact absurd rfl (hnostat t')
        · simp only [better, kind, if_true]
          apply hrec t' _ ht'
          rw [strip_snoc, hs']; simp [stepSuf, ekey]
      | none =>
        simp only [hp] at h
        cases hw : (getK (nodesOf L) cur).wild with
        | none => simp [hw] at h
        | some lf =>
          simp only [hw, Option.some.injEq, Prod.mk.injEq] at h
          obtain ⟨hk, hww, _⟩ := h
          have hq : q = [] := by
            have : cur ++ [] = cur ++ q := by simpa using hk
            exact (List.append_cancel_left this).symm
          subst hq; subst hww
          rw [strip_nil_key] at hsuf
          simp only [if_true, Option.some.injEq] at hsuf
          subst hsuf
          rcases MatchL.matchPat_cons_inv trail suf' x rest hm' with rfl | ⟨t', rfl, ht'⟩ | ⟨n', t', rfl, ht'⟩
          · rfl
          · exact absurd rfl (hnostat t')
          · exfalso
            have : ((getK (nodesOf L) cur).pname).isSome = true := by
              rw [nodesOf_pname L hL]
              exact firstSome_isSome_of_mem _ L e' he' (by simp [nameAtS, hs'])
            rw [hp] at this; simp at this

end Rivaas.RadixL
