import Rivaas.Lemmas.RadixNodes
import Rivaas.Lemmas.MatchOrder
/-
Layer L1b of C01: helpers for the descent of `getRoute` (parameter writes along a pattern, node keys read
as nameless patterns); the search itself is in RadixSearch.
-/
namespace Rivaas.RadixL
open Rivaas.Route Rivaas.Radix Rivaas.Match

/-! ### the descent without the context -/

def pushAll (ctx : Ctx) (ps : List (Bytes × Bytes)) : Ctx := ps.foldl (fun c kv => c.push kv.1 kv.2) ctx

/-- the state of `getRoute` (context, local `overflow`) after a sequence of parameter writes -/
def pushAllT (st : Ctx × List (Bytes × Bytes)) (ps : List (Bytes × Bytes)) : Ctx × List (Bytes × Bytes) :=
  ps.foldl (fun c kv => pushT c kv.1 kv.2) st

/-- a successful lookup: the leaf together with the context the handler sees -/
def okOf (r : Option Leaf × Ctx) : Option (Leaf × Ctx) := r.1.map fun lf => (lf, r.2)

theorem pushAll_append (ctx : Ctx) (a b : List (Bytes × Bytes)) : pushAll ctx (a ++ b) = pushAll (pushAll ctx a) b := by
  simp [pushAll, List.foldl_append]

theorem pushAllT_append (st : Ctx × List (Bytes × Bytes)) (a b : List (Bytes × Bytes)) :
    pushAllT st (a ++ b) = pushAllT (pushAllT st a) b := by
  simp [pushAllT, List.foldl_append]

/-! ### soundness of the descent (unconditional) -/

/-- the node key `q` (through its wildcard when `w`), read as a pattern without names, matches the segments -/
def matchKey : Key → Bool → List Bytes → Bool → Bool
  | [], false, [], trail => !trail
  | [], true, _ :: _, _ => true
  | ESeg.s a :: q, w, x :: xs, t => a = x && matchKey q w xs t
  | ESeg.p :: q, w, _ :: xs, t => matchKey q w xs t
  | _, _, _, _ => false

/-- for a registered entry the nameless reading of its node key is the pattern match of the oracle -/
theorem matchKey_entry (bp : Pat) (hb : bp.all litOK = true) (w : Bool) (trail : Bool) (segs : List Bytes) :
    matchKey (ekeys bp) w segs trail = (matchPat trail (bp ++ (if w then [PSeg.wild] else [])) segs).isSome := by
  induction bp generalizing segs with
  | nil =>
    cases w <;> cases segs <;> cases trail <;> simp [ekeys, matchKey, matchPat]
  | cons a rest ih =>
    simp only [List.all_cons, Bool.and_eq_true] at hb
    cases a with
    | wild => simp [litOK] at hb
    | lit s =>
      cases segs with
      | nil => simp [ekeys, ekey, matchKey, matchPat]
      | cons x xs =>
        have := ih hb.2 xs
        simp only [ekeys] at this
        simp only [ekeys, List.filterMap_cons, ekey, matchKey, List.cons_append, matchPat, this]
        by_cases hsx : s = x <;> simp [hsx]
    | par n =>
      cases segs with
      | nil => simp [ekeys, ekey, matchKey, matchPat]
      | cons x xs =>
        have := ih hb.2 xs
        simp only [ekeys] at this
        simp [ekeys, ekey, matchKey, matchPat, this]


/-! ### completeness of the descent under NoShadow -/

/-- the parameter writes of the descent along `suf`, with the names the nodes hold -/
def pushesFor (ns : Nodes) (trail : Bool) : Key → Pat → List Bytes → List (Bytes × Bytes)
  | cur, PSeg.lit s :: rest, _ :: xs => pushesFor ns trail (cur ++ [ESeg.s s]) rest xs
  | cur, PSeg.par _ :: rest, x :: xs => ((getK ns cur).pname.getD [], x) :: pushesFor ns trail (cur ++ [ESeg.p]) rest xs
  | _, [PSeg.wild], x :: xs => [(wildParam, restOfPath (x :: xs) trail)]
  | _, _, _ => []

theorem endsWild_cons (a : PSeg) (as : Pat) (ha : a ≠ PSeg.wild) : endsWild (a :: as) = endsWild as := by
  cases as with
  | nil => simp [endsWild, ha]
  | cons b bs => simp [endsWild, List.getLast?_cons_cons]

theorem firstSome_isSome_of_mem {α β} (f : α → Option β) (l : List α) (a : α) (ha : a ∈ l) (h : (f a).isSome = true) :
    (firstSome f l).isSome = true := by
  induction l with
  | nil => simp at ha
  | cons b rest ih =>
    simp only [firstSome]
    cases hb : f b with
    | some v => simp
    | none =>
      simp only [List.mem_cons] at ha
      rcases ha with rfl | ha
      · rw [hb] at h; simp at h
      · simpa using ih ha

theorem lastSome_isSome_of_mem {α β} (f : α → Option β) (l : List α) (a : α) (ha : a ∈ l) (h : (f a).isSome = true) :
    (lastSome f l).isSome = true := by
  induction l with
  | nil => simp at ha
  | cons b rest ih =>
    simp only [lastSome]
    simp only [List.mem_cons] at ha
    rcases ha with rfl | ha
    · cases lastSome f rest <;> simp [h]
    · have := ih ha
      cases hl : lastSome f rest with
      | none => rw [hl] at this; simp at this
      | some v => simp

theorem firstSome_none {α β} (f : α → Option β) (l : List α) (h : ∀ a ∈ l, f a = none) : firstSome f l = none := by
  induction l with
  | nil => rfl
  | cons b rest ih =>
    simp only [firstSome, h b (List.mem_cons_self ..), ih (fun x hx => h x (List.mem_cons_of_mem _ hx))]
    rfl

theorem matchPat_nil_segs (trail : Bool) (suf : Pat) (h : (matchPat trail suf []).isSome = true) : suf = [] ∧ trail = false := by
  cases suf with
  | nil => cases trail <;> simp [matchPat] at h ⊢
  | cons a as =>
    cases a <;> cases as <;> simp [matchPat] at h

theorem ekey_static {seg : PSeg} {x : Bytes} (h : ekey seg = some (ESeg.s x)) : seg = PSeg.lit x := by
  cases seg with
  | lit s =>
    simp only [ekey, Option.some.injEq] at h
    injection h with h; rw [h]
  | par n => simp [ekey] at h
  | wild => simp [ekey] at h

theorem sameShape_of_ekey {a b : PSeg} {e : ESeg} (ha : ekey a = some e) (hb : ekey b = some e) : sameShape a b = true := by
  cases a with
  | wild => simp [ekey] at ha
  | lit s =>
    cases b with
    | wild => simp [ekey] at hb
    | lit s' =>
      simp only [ekey, Option.some.injEq] at ha hb
      rw [← hb] at ha
      injection ha with ha
      simp [sameShape, ha]
    | par n =>
      simp only [ekey, Option.some.injEq] at ha hb
      rw [← hb] at ha
      exact absurd ha (by simp)
  | par n =>
    cases b with
    | wild => simp [ekey] at hb
    | lit s' =>
      simp only [ekey, Option.some.injEq] at ha hb
      rw [← hb] at ha
      exact absurd ha (by simp)
    | par n' => simp [sameShape]

/-! ### maximality of the descent (unconditional) -/

theorem strip_append (pat : Pat) (a b : Key) : strip pat (a ++ b) = (strip pat a).bind fun s => strip s b := by
  induction a generalizing pat with
  | nil => simp [strip_nil_key]
  | cons e a' ih =>
    cases pat with
    | nil => simp [strip]
    | cons seg rest =>
      simp only [List.cons_append, strip]
      by_cases h : ekey seg = some e
      · simp only [h, if_true]; exact ih rest
      · simp [h]

theorem strip_cons_inv (suf : Pat) (e : ESeg) (q : Key) (t : Pat) (h : strip suf (e :: q) = some t) :
    ∃ seg suf1, suf = seg :: suf1 ∧ ekey seg = some e ∧ strip suf1 q = some t := by
  cases suf with
  | nil => simp [strip] at h
  | cons seg suf1 =>
    simp only [strip] at h
    by_cases he : ekey seg = some e
    · simp only [he, if_true] at h
      exact ⟨seg, suf1, rfl, he, h⟩
    · simp [he] at h

theorem ekey_param {seg : PSeg} (h : ekey seg = some ESeg.p) : ∃ n, seg = PSeg.par n := by
  cases seg with
  | lit s => simp [ekey] at h
  | par n => exact ⟨n, rfl⟩
  | wild => simp [ekey] at h

end Rivaas.RadixL
