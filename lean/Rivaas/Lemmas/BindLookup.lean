import Rivaas.Model.Bind
import Rivaas.Spec.Bind
/-
C04 helper lemmas: the getters of the model (`Has` / `Get` / `GetAll` of the five sources and of
the prefix getter) agree with the oracle's reading of the source (`present`) on every key that is
not ambiguous for the field.
-/
set_option linter.unusedSimpArgs false
set_option linter.unusedVariables false
namespace Rivaas.Bind
open Spec

theorem lemma_assoc_mem {β} (k : Bytes) : ∀ (l : List (Bytes × β)) (v : β), assoc k l = some v → (k, v) ∈ l
  | [], v, h => by simp [assoc] at h
  | (k', v') :: r, v, h => by
    simp only [assoc] at h
    split at h
    · rename_i hk
      have : k' = k := by simpa using hk
      simp only [Option.some.injEq] at h
      simp [this, h]
    · exact List.mem_cons_of_mem _ (lemma_assoc_mem k r v h)

theorem lemma_assoc_none {β} (k : Bytes) : ∀ (l : List (Bytes × β)), assoc k l = none → ∀ e ∈ l, e.1 ≠ k
  | [], _, e, he => by cases he
  | (k', v') :: r, h, e, he => by
    simp only [assoc] at h
    split at h
    · simp at h
    · rename_i hk
      simp only [List.mem_cons] at he
      rcases he with rfl | he
      · simpa using hk
      · exact lemma_assoc_none k r h e he

theorem lemma_srcOK_nonempty (s : Src) (hs : srcOK s = true) (k : Bytes) (vs : List Bytes)
    (h : assoc k s.kvs = some vs) : vs ≠ [] := by
  have hm := lemma_assoc_mem k s.kvs vs h
  simp only [srcOK, Bool.and_eq_true, List.all_eq_true] at hs
  have := hs.1 (k, vs) hm
  intro e
  simp [e] at this

/-- `prefixGetter.Has` / `Has` on the full key -/
def hasFull (s : Src) (nested : Bool) (full : Bytes) : Bool :=
  baseHas s full || (nested && isQF s.kind && s.kvs.any (fun e => e.1 == full || hasPrefix e.1 (full ++ B ".")))

theorem lemma_has_full (g : Getter) (k : Bytes) : g.has k = hasFull g.src g.nested (g.pre ++ k) := rfl

/-- below a nested struct, some key of a query/form source extends the full key with a dot -/
def dotAmb (s : Src) (nested : Bool) (full : Bytes) : Bool :=
  isQF s.kind && nested && s.kvs.any (fun e => hasPrefix e.1 (full ++ B "."))

/-- a query/form source holds the key only in the slice notation `k[]` -/
def bracketOnly (s : Src) (full : Bytes) : Bool :=
  isQF s.kind && (assoc full s.kvs).isNone && (assoc (full ++ B "[]") s.kvs).isSome

theorem lemma_present_qf (s : Src) (full : Bytes) (hqf : isQF s.kind = true) :
    present s full = (match assoc full s.kvs with
      | some (v :: vs) => some (v :: vs)
      | some [] => some ((assoc (full ++ B "[]") s.kvs).getD [])
      | none => assoc (full ++ B "[]") s.kvs) := by
  unfold present
  cases hk : s.kind <;> simp [isQF, hk] at hqf <;> simp only [hk] <;>
    (cases assoc full s.kvs with
     | none => rfl
     | some l => cases l <;> rfl)

theorem lemma_hasFull_qf (s : Src) (nested : Bool) (hs : srcOK s = true) (full : Bytes)
    (hqf : isQF s.kind = true) (hamb : dotAmb s nested full = false) :
    hasFull s nested full = (present s full).isSome := by
  have hamb' : (nested && s.kvs.any (fun e => hasPrefix e.1 (full ++ B "."))) = false := by
    simpa [dotAmb, hqf] using hamb
  have hH : hasFull s nested full = ((assoc full s.kvs).isSome || (assoc (full ++ B "[]") s.kvs).isSome ||
      (nested && s.kvs.any (fun e => e.1 == full || hasPrefix e.1 (full ++ B ".")))) := by
    unfold hasFull baseHas
    cases hk : s.kind <;> simp [isQF, hk] at hqf <;> simp [isQF]
  rw [lemma_present_qf s full hqf, hH]
  simp only [Bool.and_eq_false_iff] at hamb'
  cases ha : assoc full s.kvs with
  | some vs =>
    have hne := lemma_srcOK_nonempty s hs _ vs ha
    cases vs with
    | nil => exact absurd rfl hne
    | cons v r => simp
  | none =>
    cases hb : assoc (full ++ B "[]") s.kvs with
    | some ws => simp
    | none =>
      simp only [Option.isSome_none, Bool.or_self, Bool.false_or]
      rcases hamb' with hn | hany
      · simp [hn]
      · simp only [List.any_eq_false] at hany
        simp only [Bool.and_eq_false_iff, List.any_eq_false]
        right
        intro e he
        have h1 := lemma_assoc_none _ _ ha e he
        have h2 := hany e he
        simp [h1, h2]

/-- `Has` is "the key is present", for every source -/
theorem lemma_hasFull_present (s : Src) (nested : Bool) (hs : srcOK s = true) (full : Bytes)
    (hamb : dotAmb s nested full = false) :
    hasFull s nested full = (present s full).isSome := by
  cases hk : s.kind with
  | query => exact lemma_hasFull_qf s nested hs full (by simp [isQF, hk]) hamb
  | form => exact lemma_hasFull_qf s nested hs full (by simp [isQF, hk]) hamb
  | path => simp [hasFull, baseHas, present, isQF, hk]
  | header =>
    simp only [hasFull, baseHas, present, isQF, hk, hdrEntry]
    cases List.find? (fun e => canonHeader e.1 == canonHeader full && !e.2.isEmpty) s.kvs <;> simp
  | cookie =>
    simp only [hasFull, baseHas, present, isQF, hk]
    cases ha : assoc full s.kvs with
    | some vs => cases hf : (s.kvs.filter (fun e => e.1 == full)).flatMap (·.2) <;> simp [ha]
    | none =>
      have hn := lemma_assoc_none _ _ ha
      have : s.kvs.filter (fun e => e.1 == full) = [] := by
        simp only [List.filter_eq_nil_iff, beq_iff_eq]
        exact fun e he => hn e he
      simp [this]

/-- first matching entry of an association list, as a filter -/
theorem lemma_filter_assoc : ∀ (l : List (Bytes × List Bytes)) (k : Bytes) (vs : List Bytes),
    assoc k l = some vs → ∃ r, l.filter (fun e => e.1 == k) = (k, vs) :: r
  | [], k, vs, h => by simp [assoc] at h
  | (k', v') :: l, k, vs, h => by
    simp only [assoc] at h
    split at h
    · rename_i hk
      have hk' : k' = k := by simpa using hk
      simp only [Option.some.injEq] at h
      exact ⟨l.filter (fun e => e.1 == k), by simp [List.filter_cons, hk, hk', h]⟩
    · rename_i hk
      obtain ⟨r, hr⟩ := lemma_filter_assoc l k vs h
      exact ⟨r, by simp [List.filter_cons, hk, hr]⟩

/-- `Get` returns the first value of a present key (unless the key is there only as `k[]`) -/
theorem lemma_get_present (s : Src) (hs : srcOK s = true) (full : Bytes) (vs : List Bytes)
    (hp : present s full = some vs) (hb : bracketOnly s full = false) :
    baseGet s full = vs.headD [] := by
  cases hk : s.kind with
  | query =>
    have hqf : isQF s.kind = true := by simp [isQF, hk]
    rw [lemma_present_qf s full hqf] at hp
    simp only [baseGet, hk]
    cases ha : assoc full s.kvs with
    | some l =>
      have hne := lemma_srcOK_nonempty s hs _ l ha
      cases l with
      | nil => exact absurd rfl hne
      | cons v r => rw [ha] at hp; simp at hp; simp [← hp]
    | none =>
      rw [ha] at hp
      simp [bracketOnly, hqf, ha, hp] at hb
  | form =>
    have hqf : isQF s.kind = true := by simp [isQF, hk]
    rw [lemma_present_qf s full hqf] at hp
    simp only [baseGet, hk]
    cases ha : assoc full s.kvs with
    | some l =>
      have hne := lemma_srcOK_nonempty s hs _ l ha
      cases l with
      | nil => exact absurd rfl hne
      | cons v r => rw [ha] at hp; simp at hp; simp [← hp]
    | none =>
      rw [ha] at hp
      simp [bracketOnly, hqf, ha, hp] at hb
  | path =>
    simp only [present, hk] at hp
    simp only [baseGet, hk, hp]
    cases vs <;> rfl
  | header =>
    simp only [present, hk] at hp
    simp only [baseGet, hk, hdrEntry]
    cases hf : List.find? (fun e => canonHeader e.1 == canonHeader full && !e.2.isEmpty) s.kvs with
    | none => rw [hf] at hp; simp at hp
    | some e => rw [hf] at hp; simp at hp; simp [hp]
  | cookie =>
    simp only [present, hk] at hp
    simp only [baseGet, hk]
    cases ha : assoc full s.kvs with
    | none =>
      have hn := lemma_assoc_none _ _ ha
      have : s.kvs.filter (fun e => e.1 == full) = [] := by
        simp only [List.filter_eq_nil_iff, beq_iff_eq]
        exact fun e he => hn e he
      simp [this, ha] at hp
    | some l =>
      have hne := lemma_srcOK_nonempty s hs _ l ha
      obtain ⟨r, hr⟩ := lemma_filter_assoc s.kvs full l ha
      rw [hr] at hp
      cases l with
      | nil => exact absurd rfl hne
      | cons v t =>
        simp only [List.flatMap_cons, List.cons_append] at hp
        simp at hp
        simp [← hp]


theorem lemma_hdr_find : ∀ (l : List (Bytes × List Bytes)) (full : Bytes),
    (∀ e ∈ l, e.2 ≠ [] ∧ canonHeader e.1 = e.1) →
    (l.find? (fun e => canonHeader e.1 == canonHeader full && !e.2.isEmpty)).map (·.2) = assoc (canonHeader full) l
  | [], full, _ => by simp [assoc]
  | (k, v) :: l, full, h => by
    have hk := h (k, v) (by simp)
    have hl : ∀ e ∈ l, e.2 ≠ [] ∧ canonHeader e.1 = e.1 := fun e he => h e (by simp [he])
    simp only [List.find?_cons, assoc, hk.2]
    have hv : v.isEmpty = false := by
      cases v with
      | nil => exact absurd rfl hk.1
      | cons _ _ => rfl
    by_cases hc : k = canonHeader full
    · simp [hc, hv]
    · have : (k == canonHeader full) = false := by simpa using hc
      simp only [this, Bool.false_and]
      exact lemma_hdr_find l full hl

/-- `GetAll` returns all values of a present key, nothing for an absent one -/
theorem lemma_getAll_present (s : Src) (hs : srcOK s = true) (full : Bytes) :
    baseGetAll s full = (present s full).getD [] := by
  cases hk : s.kind with
  | query =>
    have hqf : isQF s.kind = true := by simp [isQF, hk]
    rw [lemma_present_qf s full hqf]
    simp only [baseGetAll, hk]
    cases ha : assoc full s.kvs with
    | some l => cases l <;> simp
    | none => cases assoc (full ++ B "[]") s.kvs <;> simp
  | form =>
    have hqf : isQF s.kind = true := by simp [isQF, hk]
    rw [lemma_present_qf s full hqf]
    simp only [baseGetAll, hk]
    cases ha : assoc full s.kvs with
    | some l => cases l <;> simp
    | none => cases assoc (full ++ B "[]") s.kvs <;> simp
  | path => simp [baseGetAll, present, hk]
  | cookie =>
    simp only [baseGetAll, present, hk]
    cases hf : (s.kvs.filter (fun e => e.1 == full)).flatMap (·.2) with
    | nil => cases (assoc full s.kvs).isSome <;> simp
    | cons v r => simp
  | header =>
    simp only [baseGetAll, present, hk]
    have hall : ∀ e ∈ s.kvs, e.2 ≠ [] ∧ canonHeader e.1 = e.1 := by
      intro e he
      simp only [srcOK, hk, Bool.and_eq_true, List.all_eq_true] at hs
      refine ⟨?_, by simpa using hs.2 e he⟩
      have := hs.1 e he
      intro h0
      simp [h0] at this
    rw [← lemma_hdr_find s.kvs full hall]
    cases List.find? (fun e => canonHeader e.1 == canonHeader full && !e.2.isEmpty) s.kvs <;> simp

/-! ### the field's own key: primary name first, then the aliases -/

/-- what the oracle reads for the keys of a leaf, in terms of the getter: the first key that is
    present decides -/
theorem lemma_lookup (g : Getter) (hs : srcOK g.src = true) (f : FieldInfo)
    (hdot : ∀ k ∈ f.tagName :: f.aliases, dotAmb g.src g.nested (g.pre ++ k) = false) :
    match firstPresent g.src ((f.tagName :: f.aliases).map (g.pre ++ ·)) with
    | some vs => ∃ key, key ∈ f.tagName :: f.aliases ∧ present g.src (g.pre ++ key) = some vs ∧
        lookupField g f = (key, g.get key, true)
    | none => (lookupField g f).2.2 = false := by
  have hhas : ∀ k ∈ f.tagName :: f.aliases, g.has k = (present g.src (g.pre ++ k)).isSome := by
    intro k hk
    rw [lemma_has_full]
    exact lemma_hasFull_present g.src g.nested hs _ (hdot k hk)
  unfold lookupField
  simp only [List.map_cons, firstPresent]
  have h0 := hhas f.tagName (by simp)
  cases hp : present g.src (g.pre ++ f.tagName) with
  | some vs =>
    rw [hp] at h0
    simp only [Option.isSome_some] at h0
    simp only [h0, if_true]
    exact ⟨f.tagName, by simp, hp, rfl⟩
  | none =>
    rw [hp] at h0
    simp only [Option.isSome_none] at h0
    simp only [h0, Bool.false_eq_true, if_false]
    -- aliases
    have hal : ∀ k ∈ f.aliases, g.has k = (present g.src (g.pre ++ k)).isSome := fun k hk => hhas k (by simp [hk])
    generalize f.aliases = as at hal ⊢
    induction as with
    | nil => simp [firstPresent]
    | cons a r ih =>
      simp only [List.map_cons, firstPresent, List.find?_cons]
      have ha := hal a (by simp)
      cases hpa : present g.src (g.pre ++ a) with
      | some vs =>
        rw [hpa] at ha
        simp only [Option.isSome_some] at ha
        simp only [ha]
        exact ⟨a, by simp, hpa, rfl⟩
      | none =>
        rw [hpa] at ha
        simp only [Option.isSome_none] at ha
        simp only [ha]
        have := ih (fun k hk => hal k (by simp [hk]))
        cases hfp : firstPresent g.src (List.map (fun x => g.pre ++ x) r) with
        | some vs =>
          rw [hfp] at this
          obtain ⟨key, hkey, hpk, hl⟩ := this
          refine ⟨key, ?_, hpk, hl⟩
          simp only [List.mem_cons] at hkey ⊢
          rcases hkey with h | h
          · exact Or.inl h
          · exact Or.inr (Or.inr h)
        | none => rw [hfp] at this; exact this

end Rivaas.Bind
