import Rivaas.Spec.Compose
/-
Index-free characterisations of the script look-ups of `Spec/Compose.lean` (used by the soundness
proof of the composition model): "middleware attached before / after time `t`" is a `filterMap`
over `script.take t` / `script.drop (t+1)`; "the `g`-th object of a class was created by op `t`" iff
`t` is a creating op with `g` creating ops before it.
-/
namespace Rivaas.Compose

def indexedFrom {α} (k : Nat) (l : List α) : List (Nat × α) := (l.zipIdx k).map fun (a, i) => (i, a)

theorem indexed_eq_from {α} (l : List α) : indexed l = indexedFrom 0 l := rfl

@[simp] theorem indexedFrom_nil {α} (k : Nat) : indexedFrom k ([] : List α) = [] := rfl

@[simp] theorem indexedFrom_cons {α} (k : Nat) (a : α) (l : List α) :
    indexedFrom k (a :: l) = (k, a) :: indexedFrom (k + 1) l := by
  simp [indexedFrom, List.zipIdx_cons]

theorem indexedFrom_ge {α} (k : Nat) (l : List α) : ∀ p ∈ indexedFrom k l, k ≤ p.1 := by
  induction l generalizing k with
  | nil => simp
  | cons a l ih =>
    intro p hp
    simp only [indexedFrom_cons, List.mem_cons] at hp
    rcases hp with rfl | hp
    · exact Nat.le_refl _
    · exact Nat.le_of_succ_le (ih (k + 1) p hp)

variable (sel : Op → Option (List Hid))

/-- the stamped selection the spec builds -/
def stamped (k : Nat) (l : List Op) : List (Nat × List Hid) :=
  (indexedFrom k l).filterMap fun (i, op) => (sel op).map fun hs => (i, hs)

@[simp] theorem stamped_nil (k : Nat) : stamped sel k [] = [] := rfl

theorem stamped_cons (k : Nat) (a : Op) (l : List Op) :
    stamped sel k (a :: l) = ((sel a).map fun hs => (k, hs)).toList ++ stamped sel (k + 1) l := by
  simp only [stamped, indexedFrom_cons, List.filterMap_cons]
  cases sel a <;> simp

theorem stamped_ge (k : Nat) (l : List Op) : ∀ p ∈ stamped sel k l, k ≤ p.1 := by
  intro p hp
  simp only [stamped, List.mem_filterMap] at hp
  obtain ⟨⟨i, op⟩, hmem, hq⟩ := hp
  have := indexedFrom_ge k l _ hmem
  cases hs : sel op <;> simp [hs] at hq
  subst hq
  exact this

theorem stamped_before (l : List Op) (k t : Nat) :
    ((stamped sel k l).filter (fun p => p.1 < k + t)).map (·.2) = (l.take t).filterMap sel := by
  induction l generalizing k t with
  | nil => simp
  | cons a l ih =>
    cases t with
    | zero =>
      simp only [Nat.add_zero, List.take_zero, List.filterMap_nil, List.map_eq_nil_iff, List.filter_eq_nil_iff]
      intro p hp
      have := stamped_ge sel k _ p hp
      simp; omega
    | succ t =>
      rw [stamped_cons, List.filter_append, List.map_append, List.take_succ_cons, List.filterMap_cons]
      have := ih (k + 1) t
      rw [show k + 1 + t = k + (t + 1) by omega] at this
      rw [this]
      cases hs : sel a <;> simp

theorem stamped_after (l : List Op) (k t : Nat) :
    ((stamped sel k l).filter (fun p => p.1 > k + t)).map (·.2) = (l.drop (t + 1)).filterMap sel := by
  induction l generalizing k t with
  | nil => simp
  | cons a l ih =>
    rw [stamped_cons, List.filter_append, List.map_append]
    have hhead : (((sel a).map fun hs => (k, hs)).toList.filter fun p => p.1 > k + t) = [] := by
      cases sel a <;> simp
    rw [hhead]
    simp only [List.map_nil, List.nil_append, List.drop_succ_cons]
    cases t with
    | zero =>
      have : ((stamped sel (k + 1) l).filter fun p => p.1 > k + 0) = stamped sel (k + 1) l := by
        rw [List.filter_eq_self]
        intro p hp
        have := stamped_ge sel (k + 1) l p hp
        simp; omega
      rw [this]
      simp only [List.drop_zero]
      clear this ih hhead
      induction l generalizing k with
      | nil => simp
      | cons b l ih2 =>
        rw [stamped_cons, List.map_append, List.filterMap_cons, ih2]
        cases sel b <;> simp
    | succ t =>
      have := ih (k + 1) t
      rw [show k + 1 + t = k + (t + 1) by omega] at this
      exact this

/-- `splitAt`, index-free: attached by the ops before `t` / after `t` -/
theorem splitAt_eq (script : List Op) (t : Nat) :
    splitAt script sel t = (((script.take t).filterMap sel).flatten, ((script.drop (t + 1)).filterMap sel).flatten) := by
  have h1 := stamped_before sel script 0 t
  have h2 := stamped_after sel script 0 t
  simp only [Nat.zero_add] at h1 h2
  simp only [splitAt, flat, indexed_eq_from]
  rw [show ((indexedFrom 0 script).filterMap fun x => match x with | (i, op) => (sel op).map fun hs => (i, hs)) =
      stamped sel 0 script from rfl, h1, h2]

/-! ### the `g`-th created object -/

variable (isC : Op → Bool)

theorem filter_indexedFrom_getElem (l : List Op) (k t : Nat) (h : t < l.length) (hc : isC l[t] = true) :
    ((indexedFrom k l).filter fun p => isC p.2)[((l.take t).filter isC).length]? = some (k + t, l[t]) := by
  induction l generalizing k t with
  | nil => simp at h
  | cons a l ih =>
    cases t with
    | zero =>
      simp only [List.take_zero, List.filter_nil, List.length_nil, indexedFrom_cons, List.getElem_cons_zero] at hc ⊢
      simp [hc]
    | succ t =>
      simp only [List.length_cons, Nat.add_lt_add_iff_right] at h
      simp only [List.getElem_cons_succ] at hc
      have := ih (k + 1) t h hc
      rw [show k + 1 + t = k + (t + 1) by omega] at this
      simp only [indexedFrom_cons, List.take_succ_cons, List.filter_cons, List.getElem_cons_succ]
      cases ha : isC a
      · simpa using this
      · simpa using this

theorem nthIdx_of_created (script : List Op) (t : Nat) (h : t < script.length) (hc : isC script[t] = true) :
    nthIdx script isC (cnt isC script t) = some t := by
  have := filter_indexedFrom_getElem isC script 0 t h hc
  simp only [nthIdx, indexed_eq_from, cnt]
  rw [show ((indexedFrom 0 script).filter fun x => match x with | (_, op) => isC op) =
      (indexedFrom 0 script).filter fun p => isC p.2 from rfl, this]
  simp

theorem cnt_succ (script : List Op) (t : Nat) (h : t < script.length) :
    cnt isC script (t + 1) = cnt isC script t + (if isC script[t] then 1 else 0) := by
  simp only [cnt, List.take_add_one, List.getElem?_eq_getElem h, Option.toList_some, List.filter_append,
    List.length_append]
  cases hc : isC script[t] <;> simp [hc]

theorem cnt_mono (script : List Op) (a b : Nat) (h : a ≤ b) : cnt isC script a ≤ cnt isC script b := by
  induction b with
  | zero => have : a = 0 := by omega
            subst this; exact Nat.le_refl _
  | succ b ih =>
    rcases Nat.lt_or_ge a (b + 1) with h' | h'
    · have hab : a ≤ b := by omega
      refine Nat.le_trans (ih hab) ?_
      rcases Nat.lt_or_ge b script.length with hb | hb
      · rw [cnt_succ isC script b hb]; omega
      · simp [cnt, List.take_of_length_le hb, List.take_of_length_le (Nat.le_succ_of_le hb)]
    · have : a = b + 1 := by omega
      subst this; exact Nat.le_refl _

end Rivaas.Compose
