import Rivaas.Lemmas.OpenAPIPath
set_option linter.unusedSimpArgs false
/-
C07 — helper lemmas: the parameter list of an operation (request metadata with the (in, name)
de-duplication of K07g, then the route's remaining path parameters).
-/
namespace Rivaas.OpenAPI
open List

def pairsOf {σ} (ps : List (Param σ)) : List (B × B) := ps.map fun p => (p.loc, p.name)

/-- shape facts about one parameter that do not depend on its schema -/
def ParamOK {σ} (p : Param σ) : Prop := p.name ≠ [] ∧ p.loc ∈ locs ∧ (p.loc = s "path" → p.required = true)

def SpecOK (ps : ParamSpec) : Prop := ps.name ≠ [] ∧ ps.loc ∈ locs ∧ (ps.loc = s "path" → ps.required = true)

theorem paramOfSpec_shape (env : Env) (ps : ParamSpec) (st : Schemas) :
    (paramOfSpec env ps st).1.name = ps.name ∧ (paramOfSpec env ps st).1.loc = ps.loc ∧
      (paramOfSpec env ps st).1.required = ps.required := by
  simp [paramOfSpec]

theorem mdParams_shape (env : Env) : ∀ (l : List ParamSpec) (sk : List (B × B)) (sp : List B) (st : Schemas),
    (pairsOf (mdParams env l sk sp st).1).Nodup ∧
    (∀ x ∈ pairsOf (mdParams env l sk sp st).1, x ∉ sk) ∧
    (∀ p ∈ (mdParams env l sk sp st).1, ∃ ps ∈ l, p.name = ps.name ∧ p.loc = ps.loc ∧ p.required = ps.required) ∧
    (∀ n, n ∈ (mdParams env l sk sp st).2.1 ↔ n ∈ sp ∨ (s "path", n) ∈ pairsOf (mdParams env l sk sp st).1)
  | [], sk, sp, st => by simp [mdParams, pairsOf]
  | ps :: rest, sk, sp, st => by
    simp only [mdParams]
    split
    next hc =>
      obtain ⟨h1, h2, h3, h4⟩ := mdParams_shape env rest sk sp st
      exact ⟨h1, h2, fun p hp => by obtain ⟨q, hq, e⟩ := h3 p hp; exact ⟨q, mem_cons_of_mem _ hq, e⟩, h4⟩
    next hc =>
      have hnot : (ps.loc, ps.name) ∉ sk := by simpa using hc
      obtain ⟨h1, h2, h3, h4⟩ := mdParams_shape env rest ((ps.loc, ps.name) :: sk)
        (if ps.loc = s "path" then ps.name :: sp else sp) (paramOfSpec env ps st).2
      obtain ⟨e1, e2, e3⟩ := paramOfSpec_shape env ps st
      simp only [pairsOf, map_cons, e1, e2] at h1 h2 h4 ⊢
      refine ⟨?_, ?_, ?_, ?_⟩
      · rw [nodup_cons]
        exact ⟨fun hm => h2 _ hm (mem_cons_self ..), h1⟩
      · intro x hx
        simp only [mem_cons] at hx
        rcases hx with rfl | hx
        · exact hnot
        · exact fun hm => h2 x hx (mem_cons_of_mem _ hm)
      · intro p hp
        simp only [mem_cons] at hp
        rcases hp with rfl | hp
        · exact ⟨ps, mem_cons_self .., e1, e2, e3⟩
        · obtain ⟨q, hq, e⟩ := h3 p hp; exact ⟨q, mem_cons_of_mem _ hq, e⟩
      · intro n
        rw [h4 n]
        by_cases hl : ps.loc = s "path"
        · simp only [hl, if_true, mem_cons, Prod.mk.injEq, true_and]
          constructor
          · rintro ((rfl | h) | h)
            · exact Or.inr (Or.inl rfl)
            · exact Or.inl h
            · exact Or.inr (Or.inr h)
          · rintro (h | rfl | h)
            · exact Or.inl (Or.inr h)
            · exact Or.inl (Or.inl rfl)
            · exact Or.inr h
        · simp only [hl, if_false, mem_cons, Prod.mk.injEq]
          constructor
          · rintro (h | h)
            · exact Or.inl h
            · exact Or.inr (Or.inr h)
          · rintro (h | ⟨h, _⟩ | h)
            · exact Or.inl h
            · exact absurd h.symm hl
            · exact Or.inr h

/-! ## the ParamSpecs of a request struct -/

/-- `reflect` gives every struct field a non-empty name -/
def FieldsNamed (flat : List (FieldMeta × Ty)) : Prop := ∀ mt ∈ flat, mt.1.name ≠ []

theorem trimSpace_ne (x : B) (h : trimSpace x ≠ []) : trimSpace x ≠ [] := h

theorem paramOfField_ok {env : Env} {sel : TagSel} {mt : FieldMeta × Ty} {ps : ParamSpec} (hn : mt.1.name ≠ [])
    (h : paramOfField env sel mt = some ps) : SpecOK ps ∧ ps.loc = sel.loc := by
  unfold paramOfField at h
  simp only [] at h
  split at h
  · cases h
  · split at h
    · cases h
    · simp only [Option.some.injEq] at h
      subst h
      refine ⟨⟨?_, ?_, ?_⟩, rfl⟩
      · simp only []
        split
        · exact hn
        · assumption
      · show sel.loc ∈ locs
        cases sel <;> decide
      · intro hl
        have hl' : sel.loc = s "path" := hl
        show isParamRequired env mt.1 mt.2 sel = true
        have : sel = .path := by
          cases sel
          · exact absurd hl' (by decide)
          · rfl
          · exact absurd hl' (by decide)
          · exact absurd hl' (by decide)
        simp [isParamRequired, this]

theorem extractParams_ok {env : Env} {flat : List (FieldMeta × Ty)} (hf : FieldsNamed flat) (sel : TagSel) :
    ∀ ps ∈ extractParamsFromTag env flat sel, SpecOK ps := by
  intro ps hps
  simp only [extractParamsFromTag, mem_filterMap] at hps
  obtain ⟨mt, hmt, h⟩ := hps
  exact (paramOfField_ok (hf mt hmt) h).1

/-- field names in the environment are non-empty (a fact about `reflect`) -/
def EnvNamed (env : Env) : Prop :=
  ∀ e ∈ env, ∀ n p fs, e.2 = Def.struct n p fs → ∀ f ∈ fs, ∀ m t, f = Field.field m t → m.name ≠ []

theorem mem_of_lookup {env : Env} {id : Nat} {d : Def} (h : env.lookup id = some d) : (id, d) ∈ env := by
  induction env with
  | nil => simp [List.lookup] at h
  | cons e rest ih =>
    obtain ⟨k, v⟩ := e
    simp only [List.lookup] at h
    split at h
    next heq =>
      simp only [Option.some.injEq] at h
      subst h
      have : id = k := by simpa using heq
      subst this
      exact mem_cons_self ..
    next => exact mem_cons_of_mem _ (ih h)

theorem flatten_named (env : Env) (henv : EnvNamed env) :
    ∀ (visiting : List Nat) (fs : List Field), (∀ f ∈ fs, ∀ m t, f = Field.field m t → m.name ≠ []) →
      FieldsNamed (flatten env visiting fs) := by
  intro visiting fs
  induction visiting, fs using flatten.induct env with
  | case1 visiting => intro _; rw [flatten]; intro mt hmt; simp at hmt
  | case2 visiting m t rest ih =>
    intro h
    rw [flatten]
    intro mt hmt
    simp only [mem_cons] at hmt
    rcases hmt with rfl | hmt
    · exact h _ (mem_cons_self ..) m t rfl
    · exact ih (fun f hf => h f (mem_cons_of_mem _ hf)) mt hmt
  | case3 visiting id rest ih1 ih2 =>
    intro h
    rw [flatten]
    have hrest := ih2 (fun f hf => h f (mem_cons_of_mem _ hf))
    intro mt hmt
    simp only [mem_append] at hmt
    rcases hmt with hmt | hmt
    · split at hmt
      · simp at hmt
      next hv =>
        split at hmt
        next n p efs hl =>
          exact ih1 hv n p efs hl (fun f hf m t e => henv _ (mem_of_lookup hl) n p efs rfl f hf m t e) mt hmt
        next => simp at hmt
    · exact hrest mt hmt

theorem introspect_ok {env : Env} (henv : EnvNamed env) {t : Ty} {md : Meta} (h : introspect env t = some md) :
    ∀ ps ∈ md.params, SpecOK ps := by
  unfold introspect at h
  split at h
  next id heq =>
    split at h
    next n p fs hl =>
      simp only [Option.some.injEq] at h
      subst h
      have hf : FieldsNamed (flatten env [id] fs) :=
        flatten_named env henv [id] fs (fun f hf m t e => henv _ (mem_of_lookup hl) n p fs rfl f hf m t e)
      intro ps hps
      simp only [mem_append] at hps
      rcases hps with ((hps | hps) | hps) | hps <;> exact extractParams_ok hf _ ps hps
    next => cases h
  next => cases h


/-! ## the shape of a built operation -/

theorem nodup_map_of_inj {α β} {f : α → β} (hf : ∀ a b, f a = f b → a = b) : ∀ {l : List α}, l.Nodup → (l.map f).Nodup
  | [], _ => by simp
  | x :: xs, h => by
    rw [nodup_cons] at h
    simp only [map_cons, nodup_cons, mem_map, not_exists, not_and]
    exact ⟨fun y hy e => h.1 (by rw [← hf _ _ e]; exact hy), nodup_map_of_inj hf h.2⟩

structure OpShape {σ} (route : B) (o : Operation σ) : Prop where
  params : ∀ p ∈ o.params, ParamOK p
  nodup : (pairsOf o.params).Nodup
  route : ∀ n ∈ routeParamNames route, (s "path", n) ∈ pairsOf o.params
  respsNe : o.resps ≠ []
  resps : ∀ r ∈ o.resps, validResponseCode r.code = true ∧ r.description ≠ []
  styles : ∀ p ∈ o.params, styleOK p.loc p.style = true
  /-- a media type never has both `example` and `examples` -/
  exX : ∀ r ∈ o.resps, ¬ (r.hasExample = true ∧ r.exampleNames ≠ [])

theorem pathParams_ok {path : B} (hv : validatePath path = true) : ∀ p ∈ extractPathParams path, ParamOK (σ := IR) p := by
  intro p hp
  simp only [extractPathParams, mem_map] at hp
  obtain ⟨n, hn, rfl⟩ := hp
  exact ⟨(validatePath_names hv).1 n hn, (by decide : s "path" ∈ locs), fun _ => rfl⟩

theorem pairsOf_pathParams (path : B) :
    pairsOf (extractPathParams path) = (routeParamNames path).map fun n => (s "path", n) := by
  simp [pairsOf, extractPathParams, Function.comp_def]

theorem opParams_shape (env : Env) (md : Option Meta) (path : B) (st : Schemas) (hv : validatePath path = true)
    (hmd : ∀ m, md = some m → ∀ ps ∈ m.params, SpecOK ps) :
    (∀ p ∈ (opParams env md (extractPathParams path) st).1, ParamOK p) ∧
    (pairsOf (opParams env md (extractPathParams path) st).1).Nodup ∧
    (∀ n ∈ routeParamNames path, (s "path", n) ∈ pairsOf (opParams env md (extractPathParams path) st).1) := by
  obtain ⟨hne, hnd⟩ := validatePath_names hv
  unfold opParams
  cases md with
  | none =>
    refine ⟨pathParams_ok hv, ?_, ?_⟩
    · rw [pairsOf_pathParams]
      exact nodup_map_of_inj (fun a b h => by simpa using h) hnd
    · intro n hn
      rw [pairsOf_pathParams]
      exact mem_map.2 ⟨n, hn, rfl⟩
  | some m =>
    obtain ⟨h1, _, h3, h4⟩ := mdParams_shape env m.params [] [] st
    simp only []
    refine ⟨?_, ?_, ?_⟩
    · intro p hp
      simp only [mem_append, mem_filter] at hp
      rcases hp with hp | hp
      · obtain ⟨ps, hps, e1, e2, e3⟩ := h3 p hp
        obtain ⟨o1, o2, o3⟩ := hmd m rfl ps hps
        exact ⟨by rw [e1]; exact o1, by rw [e2]; exact o2, by rw [e2, e3]; exact o3⟩
      · exact pathParams_ok hv p hp.1
    · simp only [pairsOf, map_append]
      rw [nodup_append]
      refine ⟨h1, ?_, ?_⟩
      · have : (map (fun p : Param IR => (p.loc, p.name)) (filter (fun p => !(mdParams env m.params [] [] st).2.1.contains p.name)
            (extractPathParams path))).Sublist (pairsOf (extractPathParams path)) :=
          (filter_sublist (l := extractPathParams path)).map _
        refine Nodup.sublist this ?_
        rw [pairsOf_pathParams]
        exact nodup_map_of_inj (fun a b h => by simpa using h) hnd
      · intro a ha b hb hab
        subst hab
        simp only [mem_map, mem_filter] at hb
        obtain ⟨p, ⟨hp, hnot⟩, rfl⟩ := hb
        simp only [extractPathParams, mem_map] at hp
        obtain ⟨n, _, rfl⟩ := hp
        simp only [Bool.not_eq_eq_eq_not, Bool.not_true, contains_eq_mem, decide_eq_false_iff_not] at hnot
        exact hnot ((h4 n).2 (Or.inr ha))
    · intro n hn
      simp only [pairsOf, map_append, mem_append]
      by_cases hs : n ∈ (mdParams env m.params [] [] st).2.1
      · rcases (h4 n).1 hs with h | h
        · simp at h
        · exact Or.inl h
      · right
        refine mem_map.2 ⟨{ name := n, loc := s "path", required := true, schema := strSchema }, ?_, rfl⟩
        simp only [mem_filter, extractPathParams, mem_map]
        exact ⟨⟨n, hn, rfl⟩, by simpa using hs⟩

theorem genResps_shape (env : Env) : ∀ (l : List (Nat × B × Option Ty)) (st : Schemas) (rs : List (Resp IR)) (st' : Schemas),
    genResps env l st = .ok (rs, st') → rs.length = l.length ∧ ∀ r ∈ rs, validResponseCode r.code = true ∧ r.description ≠ []
  | [], st, rs, st', h => by
    simp only [genResps, Except.ok.injEq, Prod.mk.injEq] at h
    obtain ⟨rfl, rfl⟩ := h
    simp
  | (status, text, rt) :: rest, st, rs, st', h => by
    simp only [genResps] at h
    split at h
    · cases h
    next hcode =>
      have hc : validResponseCode (itoa status) = true := by simpa using hcode
      have hd : (if text = [] then s "Response" else text) ≠ [] := by
        split
        · decide
        · assumption
      have step : ∀ (st0 : Schemas) (sch : Option IR) (rr : List (Resp IR) × Schemas),
          genResps env rest st0 = .ok rr → rs = { code := itoa status, description := (if text = [] then s "Response" else text), schema := sch } :: rr.1 →
          rs.length = (rest.length + 1) ∧ ∀ r ∈ rs, validResponseCode r.code = true ∧ r.description ≠ [] := by
        intro st0 sch rr hrr hrs
        obtain ⟨g1, g2⟩ := genResps_shape env rest st0 rr.1 rr.2 hrr
        subst hrs
        refine ⟨by simp [g1], ?_⟩
        intro r hr
        simp only [mem_cons] at hr
        rcases hr with rfl | hr
        · exact ⟨hc, hd⟩
        · exact g2 r hr
      cases rt with
      | none =>
        simp only [] at h
        split at h
        · cases h
        next rr heq =>
          simp only [Except.ok.injEq, Prod.mk.injEq] at h
          exact step st none rr heq h.1.symm
      | some t =>
        simp only [] at h
        split at h
        · split at h
          · cases h
          next rr heq =>
            simp only [Except.ok.injEq, Prod.mk.injEq] at h
            exact step _ _ rr heq h.1.symm
        · split at h
          · cases h
          next rr heq =>
            simp only [Except.ok.injEq, Prod.mk.injEq] at h
            exact step st none rr heq h.1.symm

/-- the shape of what `buildOperation` returns (route valid, field names non-empty) -/
theorem buildOperation_shape (env : Env) (henv : EnvNamed env) (op : OpIn) (st : Schemas) (so : List B)
    (o : Operation IR) (st' : Schemas) (so' : List B) (hv : validatePath op.path = true)
    (h : buildOperation env op st so = .ok (o, st', so')) : OpShape op.path o := by
  unfold buildOperation at h
  simp only [] at h
  split at h
  · cases h
  · have hdef : ∀ r ∈ defaultResps, validResponseCode r.code = true ∧ r.description ≠ [] := by
      intro r hr
      simp only [defaultResps, mem_singleton] at hr
      subst hr
      exact ⟨by decide, by decide⟩
    split at h
    · simp only [Except.ok.injEq, Prod.mk.injEq] at h
      obtain ⟨rfl, _, _⟩ := h
      obtain ⟨p1, p2, p3⟩ := opParams_shape env none op.path st hv (fun m hm => by cases hm)
      refine ⟨p1, p2, p3, by simp [defaultResps], hdef, ?_, ?_⟩
      · intro p hp
        simp only [extractPathParams, mem_map] at hp
        obtain ⟨n, _, rfl⟩ := hp
        simp [styleOK]
      · intro r hr
        simp only [defaultResps, mem_singleton] at hr
        subst hr
        simp
    · have hmd : ∀ m, op.req.bind (introspect env) = some m → ∀ ps ∈ m.params, SpecOK ps := by
        intro m hm
        cases hreq : op.req with
        | none => simp [hreq] at hm
        | some t =>
          simp only [hreq, Option.bind_some] at hm
          exact introspect_ok henv hm
      obtain ⟨p1, p2, p3⟩ := opParams_shape env (op.req.bind (introspect env)) op.path st hv hmd
      split at h
      · cases h
      next hstyle =>
      have hst : ∀ p ∈ (opParams env (op.req.bind (introspect env)) (extractPathParams op.path) st).1,
          styleOK p.loc p.style = true := by
        simpa [all_eq_true] using hstyle
      split at h
      · cases h
      next rr heq =>
        simp only [Except.ok.injEq, Prod.mk.injEq] at h
        obtain ⟨rfl, _, _⟩ := h
        obtain ⟨_, g2⟩ := genResps_shape env _ _ rr.1 rr.2 (by rw [heq])
        refine ⟨p1, p2, p3, ?_, ?_, hst, ?_⟩
        · simp only []
          intro e
          have hl := congrArg List.length e
          simp only [attachEx, length_map, length_nil] at hl
          split at hl
          · simp [defaultResps] at hl
          next hne => rw [length_eq_zero_iff] at hl; rw [hl] at hne; simp at hne
        · simp only []
          intro r' hr'
          obtain ⟨r, hr, hc, hd, _, _⟩ := mem_attachEx hr'
          rw [hc, hd]
          split at hr
          · exact hdef r hr
          · exact g2 r hr
        · simp only []
          intro r' hr'
          obtain ⟨_, _, _, _, _, hx⟩ := mem_attachEx hr'
          exact hx

end Rivaas.OpenAPI
