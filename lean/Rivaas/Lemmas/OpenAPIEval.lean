import Rivaas.Lemmas.OpenAPISort
set_option linter.unusedSimpArgs false
/-
C07 — helper lemmas: evaluating `gen` on concrete inputs. `gen` is defined by well-founded recursion,
which the kernel does not unfold under `decide`; these equations (proved from the definition) are
used to compute the witnesses instead.
-/
namespace Rivaas.OpenAPI

theorem gen_struct_fresh {env : Env} {seen opn : List Nat} {id : Nat} {n p : B} {fs : List Field} {st : Schemas}
    (hl : env.lookup id = some (.struct n p fs)) (hs : id ∉ seen) (hn : schemaName n p ≠ [])
    (hk : hasKey st (schemaName n p) = false) :
    gen env seen opn (.named id) st =
      (refTo (schemaName n p),
       (schemaName n p, objNode (genFields env (id :: seen) [] false (flatten env [id] fs) .nil [] st).2.1
          (genFields env (id :: seen) [] false (flatten env [id] fs) .nil [] st).1) ::
        (genFields env (id :: seen) [] false (flatten env [id] fs) .nil [] st).2.2) := by
  rw [gen]
  split
  next heq => exact absurd (hl.symm.trans heq) (by simp)
  next u' heq => exact absurd (hl.symm.trans heq) (by simp)
  next name' pkg' fs' heq =>
    have := hl.symm.trans heq
    simp only [Option.some.injEq, Def.struct.injEq] at this
    obtain ⟨rfl, rfl, rfl⟩ := this
    simp only [hs, dite_false]
    rw [if_neg (by simp [hk]), if_pos hn]

/-- first writer wins: a struct whose component name is already registered is not generated, whatever
    its fields are -/
theorem gen_struct_known {env : Env} {seen opn : List Nat} {id : Nat} {n p : B} {fs : List Field} {st : Schemas}
    (hl : env.lookup id = some (.struct n p fs)) (hs : id ∉ seen) (hn : schemaName n p ≠ [])
    (hk : hasKey st (schemaName n p) = true) :
    gen env seen opn (.named id) st = (refTo (schemaName n p), st) := by
  rw [gen]
  split
  next heq => exact absurd (hl.symm.trans heq) (by simp)
  next u' heq => exact absurd (hl.symm.trans heq) (by simp)
  next name' pkg' fs' heq =>
    have := hl.symm.trans heq
    simp only [Option.some.injEq, Def.struct.injEq] at this
    obtain ⟨rfl, rfl, rfl⟩ := this
    simp only [hs, dite_false]
    rw [if_pos ⟨hn, hk⟩]

theorem applyConstraints_nil (t : IR) : applyConstraints [] t = t := by
  cases t <;> simp [applyConstraints, Tree.modHead, applyConstraintsHead]

theorem docTags_nil (m : FieldMeta) (t : IR) (hd : m.docT = []) (hx : m.exampleT = []) : docTags m t = t := by
  cases t <;> simp [docTags, Tree.modHead, docTagsHead, hd, hx]

/-- one exported, JSON-tagged field of primitive type without a validate, doc or example tag -/
theorem genFields_one_prim (env : Env) (seen opn : List Nat) (m : FieldMeta) (k : PKind) (st : Schemas)
    (he : m.exported = true) (hj : m.json ≠ s "-") (hv : m.validate = [])
    (hd : m.docT = []) (hx : m.exampleT = []) :
    genFields env seen opn false [(m, .prim k)] .nil [] st =
      (PTree.cons (parseJSONName m.json m.name) (primSchema k) .nil, [], st) := by
  have hreq : isFieldRequired env m (.prim k) = false := by
    simp only [isFieldRequired, isPtrKind, hv]
    decide
  rw [genFields, if_neg (by simp [he]), if_neg hj, genFields, gen]
  simp only [hreq, Bool.false_and, hv, applyConstraints_nil, docTags_nil _ _ hd hx, PTree.set]
  rfl

def fmW (n j : String) : FieldMeta :=
  { name := s n, exported := true, json := s j, validate := [], query := [], path := [], header := [], cookie := [] }

/-- two struct types `a/dup.I{A string}` and `b/dup.I{B bool}`: the same component name `dup.I` (K07h) -/
def envW : Env := [(0, .struct (s "I") (s "a/dup") [.field (fmW "A" "a") (.prim .string)]),
                   (1, .struct (s "I") (s "b/dup") [.field (fmW "B" "b") (.prim .bool)])]

theorem envW_first : (gen envW [] [] (.named 0) []) =
    (refTo (s "dup.I"), [(s "dup.I", objNode [] (.cons (s "a") (primSchema .string) .nil))]) := by
  rw [gen_struct_fresh (n := s "I") (p := s "a/dup") (fs := [.field (fmW "A" "a") (.prim .string)])
    (by decide) (by simp) (by decide) (by decide)]
  rw [flatten, flatten, genFields_one_prim _ _ _ _ _ _ (by decide) (by decide) (by decide) rfl rfl]
  have h1 : schemaName (s "I") (s "a/dup") = s "dup.I" := by decide
  have h2 : parseJSONName (fmW "A" "a").json (fmW "A" "a").name = s "a" := by decide
  simp only [h1, h2]

theorem envW_second : (gen envW [] [] (.named 1) []) =
    (refTo (s "dup.I"), [(s "dup.I", objNode [] (.cons (s "b") (primSchema .bool) .nil))]) := by
  rw [gen_struct_fresh (n := s "I") (p := s "b/dup") (fs := [.field (fmW "B" "b") (.prim .bool)])
    (by decide) (by simp) (by decide) (by decide)]
  rw [flatten, flatten, genFields_one_prim _ _ _ _ _ _ (by decide) (by decide) (by decide) rfl rfl]
  have h1 : schemaName (s "I") (s "b/dup") = s "dup.I" := by decide
  have h2 : parseJSONName (fmW "B" "b").json (fmW "B" "b").name = s "b" := by decide
  simp only [h1, h2]

/-- visiting the two types in the two possible orders registers two different `dup.I` components -/
theorem envW_order_matters :
    (gen envW [] [] (.named 1) (gen envW [] [] (.named 0) []).2).2 ≠
    (gen envW [] [] (.named 0) (gen envW [] [] (.named 1) []).2).2 := by
  rw [envW_first, envW_second]
  rw [gen_struct_known (n := s "I") (p := s "b/dup") (fs := [.field (fmW "B" "b") (.prim .bool)]) (by decide) (by simp)
    (by decide) (by decide)]
  rw [gen_struct_known (n := s "I") (p := s "a/dup") (fs := [.field (fmW "A" "a") (.prim .string)]) (by decide) (by simp)
    (by decide) (by decide)]
  simp [objNode, s]

/-! ## a recursive type, evaluated -/

theorem gen_struct_seen {env : Env} {seen opn : List Nat} {id : Nat} {n p : B} {fs : List Field} {st : Schemas}
    (hl : env.lookup id = some (.struct n p fs)) (hs : id ∈ seen) (hn : schemaName n p ≠ []) :
    gen env seen opn (.named id) st = (refTo (schemaName n p), st) := by
  rw [gen]
  split
  next heq => exact absurd (hl.symm.trans heq) (by simp)
  next u' heq => exact absurd (hl.symm.trans heq) (by simp)
  next name' pkg' fs' heq =>
    have := hl.symm.trans heq
    simp only [Option.some.injEq, Def.struct.injEq] at this
    obtain ⟨rfl, rfl, rfl⟩ := this
    simp only [hs, dite_true]
    rw [if_pos hn]

/-- `type Node struct { Next *Node "json:next" }` -/
def envR : Env := [(0, .struct (s "Node") (s "x/pa") [.field (fmW "Next" "next") (.ptr (.named 0))])]

/-- generating the recursive type terminates with a reference to the component it registers, and the
    component refers to itself -/
theorem envR_eval : gen envR [] [] (.named 0) [] =
    (refTo (s "pa.Node"), [(s "pa.Node", objNode [] (.cons (s "next") (refTo (s "pa.Node")) .nil))]) := by
  rw [gen_struct_fresh (n := s "Node") (p := s "x/pa") (fs := [.field (fmW "Next" "next") (.ptr (.named 0))])
    (by decide) (by simp) (by decide) (by decide)]
  rw [flatten, flatten]
  have hreq : isFieldRequired envR (fmW "Next" "next") (.ptr (.named 0)) = false := by decide
  rw [genFields, if_neg (by decide), if_neg (by decide), genFields, gen,
    gen_struct_seen (n := s "Node") (p := s "x/pa") (fs := [.field (fmW "Next" "next") (.ptr (.named 0))])
      (by decide) (by simp) (by decide)]
  have h1 : schemaName (s "Node") (s "x/pa") = s "pa.Node" := by decide
  have h2 : parseJSONName (fmW "Next" "next").json (fmW "Next" "next").name = s "next" := by decide
  have h3 : (fmW "Next" "next").validate = [] := rfl
  simp only [hreq, Bool.false_and, h1, h2, h3, applyConstraints_nil, docTags_nil (fmW "Next" "next") _ rfl rfl, PTree.set, setNullable, refTo, Tree.modHead]
  rfl

end Rivaas.OpenAPI
