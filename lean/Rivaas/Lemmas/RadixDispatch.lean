import Rivaas.Lemmas.RadixBuild
/-
C01: per-method lookup of the built router against the reference choice, and the small facts the
dispatch theorems (Props/C01) and the compiled-engine theorems (Props/C11) share.
-/
namespace Rivaas.C01
open Rivaas.Route Rivaas.Radix Rivaas.Match Rivaas.MatchL Rivaas.RadixL

/-! ### from the Boolean side conditions of the driver to the hypotheses of the lemmas -/

theorem lemma_normalR (R : List Route) (h : normal R = true) : NormalR R := by
  intro r hr
  simp only [normal, List.all_eq_true] at h
  have := h r hr
  simp only [normalRoute, Bool.and_eq_true, decide_eq_true_eq, List.all_eq_true] at this
  refine ⟨parsePattern_normal _ _ this.1, ?_⟩
  intro c hc
  have := this.2 c hc
  exact List.contains_iff_mem.mp this

theorem lemma_methods (script : List Reg) : ∀ (i : Nat) (R : List Route), specRoutesFrom i script = some R →
    ∀ r ∈ R, ∃ g ∈ script, r.method = g.method := by
  induction script with
  | nil =>
    intro i R h r hr
    simp only [specRoutesFrom, Option.some.injEq] at h
    subst h; simp at hr
  | cons g gs ih =>
    intro i R h r hr
    simp only [specRoutesFrom] at h
    cases hp : parsePattern (regText g) with
    | none => simp [hp] at h
    | some p =>
      cases hrs : specRoutesFrom (i + 1) gs with
      | none => simp [hp, hrs] at h
      | some rest =>
        simp only [hp, hrs, Option.some.injEq] at h
        subst h
        simp only [List.mem_cons] at hr
        rcases hr with rfl | hr
        · exact ⟨g, by simp, rfl⟩
        · obtain ⟨g', hg', hm⟩ := ih (i + 1) rest hrs r hr
          exact ⟨g', by simp [hg'], hm⟩

/-- one method tree of the built router, looked up -/
def lookupM (sat : Nat → Bytes → Bool) (r : Router) (m path : Bytes) : Option (Leaf × Ctx) :=
  (treeOf r m).bind fun t => okOf (getRoute sat t path Ctx.fresh)

theorem lemma_pick_isSome (l : List Route) : (pick none l).isSome = !l.isEmpty := by
  cases l with
  | nil => rfl
  | cons a rest => simp [pick, pick_some_isSome]

theorem lemma_cands_method (sat : Nat → Bytes → Bool) (R : List Route) (m : Bytes) (p : RPath)
    (h : R.filter (·.method = m) = []) : cands sat R m p = [] := by
  unfold cands
  apply List.filter_eq_nil_iff.mpr
  intro r hr hc
  simp only [decide_eq_true_eq] at hc
  have : r ∈ R.filter (·.method = m) := List.mem_filter.mpr ⟨hr, by simp [hc.1]⟩
  rw [h] at this; simp at this

/-- **one method tree against the reference choice** -/
theorem lemma_lookupM (sat : Nat → Bytes → Bool) (noRoute : Bool) (script : List Reg) (R : List Route)
    (hR : specRoutes script = some R) (hN : normal R = true) (hstd : ∀ g ∈ script, g.method ∈ stdMethods)
    (m path : Bytes) (hp : path.head? = some '/')
    (hOw : dReplaced1 sat R m (cutAny path) = false) :
    lookupM sat (build noRoute script) m path =
      (refRoute sat R m (cutAny path)).map fun r =>
        (leafOf r, pushAll Ctx.fresh ((routeMatch sat r (cutAny path)).getD [])) := by
  unfold lookupM
  by_cases hm : m ∈ stdMethods
  · rw [treeOf_build noRoute script R hR m hm]
    by_cases hf : R.filter (·.method = m) = []
    · simp only [hf, if_true, Option.bind_none]
      have : refRoute sat R m (cutAny path) = none := by
        unfold refRoute; rw [lemma_cands_method sat R m _ hf]; rfl
      rw [this]; rfl
    · simp only [hf, if_false, Option.bind_some]
      exact getRoute_ref sat R (lemma_normalR R hN) m path hp hOw
  · have ht : treeOf (build noRoute script) m = none := by simp [treeOf, hm]
    rw [ht]
    have hf : R.filter (·.method = m) = [] := by
      apply List.filter_eq_nil_iff.mpr
      intro r hr hc
      simp only [decide_eq_true_eq] at hc
      obtain ⟨g, hg, hgm⟩ := lemma_methods script 0 R hR r hr
      rw [← hc, hgm] at hm
      exact hm (hstd g hg)
    have : refRoute sat R m (cutAny path) = none := by
      unfold refRoute; rw [lemma_cands_method sat R m _ hf]; rfl
    rw [this]; rfl


theorem lemma_serve_lookup (sat : Nat → Bytes → Bool) (r : Router) (req : Req) :
    serve sat r req =
      match lookupM sat r req.method req.path with
      | some (lf, ctx) => served lf ctx req
      | none => notFound sat r req := by
  unfold serve lookupM okOf
  cases treeOf r req.method with
  | none => rfl
  | some t =>
    simp only [Option.bind_some]
    cases hg : getRoute sat t req.path Ctx.fresh with
    | mk a b =>
      cases a with
      | none => rfl
      | some lf => rfl

theorem lemma_pick_mem (l : List Route) (r : Route) (h : pick none l = some r) : r ∈ l := by
  have hgen : ∀ (l : List Route) (cur : Option Route), pick cur l = some r → cur = some r ∨ r ∈ l := by
    intro l
    induction l with
    | nil => intro cur h; left; simpa [pick] using h
    | cons d ds ih =>
      intro cur h
      cases cur with
      | none =>
        simp only [pick] at h
        rcases ih _ h with h1 | h1
        · right; injection h1 with h1; simp [h1]
        · right; simp [h1]
      | some c =>
        simp only [pick] at h
        split at h
        · rcases ih _ h with h1 | h1
          · left; exact h1
          · right; simp [h1]
        · rcases ih _ h with h1 | h1
          · right; injection h1 with h1; simp [h1]
          · right; simp [h1]
  rcases hgen l none h with h1 | h1
  · cases h1
  · exact h1

/-- a hit in the per-tree table of static routes is a hit of `getRoute` -/
theorem lemma_compiledStatic_sub (sat : Nat → Bytes → Bool) (R : List Route) (hR : NormalR R) (m path : Bytes)
    (hp : path.head? = some '/') (h : compiledStatic (treeFor R m) path = true) :
    (getRoute sat (treeFor R m) path Ctx.fresh).1.isSome = true := by
  have hNP : ∀ r ∈ R, NormalPat r.text r.pat := fun r hr => (hR r hr).1
  rw [treeFor_char R hNP m] at h ⊢
  unfold compiledStatic at h
  simp only at h
  have hpne : path ≠ [] := by intro e; rw [e] at hp; simp at hp
  by_cases hroot : path = ['/']
  · exfalso
    subst hroot
    unfold staticsOf at h
    rw [getStatic_fold] at h
    have : lastSome (fun r : Route => if r.text = ['/'] then some (leafOf r) else none)
        (R.filter fun r => r.method = m && !inTree r) = none := by
      apply lastSome_none
      intro r hr
      have hr' := List.mem_filter.mp hr
      simp only [Bool.and_eq_true, decide_eq_true_eq, Bool.not_eq_true'] at hr'
      obtain ⟨_, hne⟩ := notInTree r hr'.2.2
      have hn := hNP r hr'.1
      have := (render_ne r.pat hne hn.segs).1
      rw [← hn.text] at this
      simp [this]
    rw [this] at h
    simp [getStatic] at h
  · have hnr : ¬ (path = ['/'] ∨ path = []) := by intro h; rcases h with h | h <;> contradiction
    cases hs : getStatic path (staticsOf R m) with
    | none => rw [hs] at h; simp at h
    | some lf => simp [getRoute, getRouteGen, hnr, hs]

theorem lemma_allowed (sat : Nat → Bytes → Bool) (noRoute : Bool) (script : List Reg) (R : List Route)
    (hR : specRoutes script = some R) (hN : normal R = true) (path : Bytes) (hp : path.head? = some '/') :
    allowedMethods sat (build noRoute script) path =
      stdMethods.filter fun m => (lookupM sat (build noRoute script) m path).isSome := by
  unfold allowedMethods
  apply List.filter_congr
  intro m hm
  unfold lookupM okOf
  rw [treeOf_build noRoute script R hR m hm]
  by_cases hf : R.filter (·.method = m) = []
  · simp [hf]
  · simp only [hf, if_false, Option.bind_some, Option.isSome_map]
    cases hg : (getRoute sat (treeFor R m) path Ctx.fresh).1.isSome with
    | true => simp
    | false =>
      simp only [Bool.false_or]
      cases hc : compiledStatic (treeFor R m) path with
      | false => rfl
      | true =>
        have := lemma_compiledStatic_sub sat R (lemma_normalR R hN) m path hp hc
        rw [hg] at this; exact absurd this (by simp)

theorem lemma_mem_methodsOf (req : Req) (m : Bytes) (h : m = req.method ∨ m ∈ stdMethods) : m ∈ methodsOf req := by
  unfold methodsOf
  rcases h with h | h
  · simp [h]
  · simp [h]

end Rivaas.C01
