import Rivaas.Model.Render
import Rivaas.Spec.Render
/-
Helper lemmas for C19 (rendering helpers): fast path of Stringf, the ASCII escaper (fuel adequacy, bit
arithmetic of decodeRuneInJSON, lexing of the escaped text). The property theorems are in Props/C19.
-/
set_option linter.unusedSimpArgs false
namespace Rivaas.C19
open Rivaas Rivaas.Render Rivaas.RenderSpec

/-! ## Stringf -/

theorem lemma_cutPctS (f pre post : Bytes) (h : Render.cutPctS f = some (pre, post)) :
    f = pre ++ '%' :: 's' :: post := by
  induction f generalizing pre with
  | nil => simp [Render.cutPctS] at h
  | cons c r ih =>
    cases r with
    | nil => simp [Render.cutPctS] at h
    | cons d r' =>
      simp only [Render.cutPctS] at h
      by_cases hc : (c == '%' && d == 's') = true
      · simp only [hc, if_true, Option.some.injEq, Prod.mk.injEq] at h
        obtain ⟨rfl, rfl⟩ := h
        simp at hc
        simp [hc.1, hc.2]
      · simp only [hc, if_false, Bool.false_eq_true] at h
        cases hr : Render.cutPctS (d :: r') with
        | none => simp [hr] at h
        | some ab =>
          obtain ⟨a, b⟩ := ab
          simp only [hr, Option.some.injEq, Prod.mk.injEq] at h
          obtain ⟨rfl, rfl⟩ := h
          have := ih a hr
          simp [this]

theorem lemma_countPct_append (a b : Bytes) : Render.countPct (a ++ b) = Render.countPct a + Render.countPct b := by
  simp [Render.countPct, List.filter_append]

theorem lemma_countPct_zero (a : Bytes) (h : Render.countPct a = 0) : '%' ∉ a := by
  intro hm
  have : '%' ∈ a.filter (· == '%') := by simp [List.mem_filter, hm]
  have hl : (a.filter (· == '%')).length = 0 := h
  rw [List.length_eq_zero_iff] at hl
  rw [hl] at this
  simp at this

/-- the fast path decision. The fast path is taken only for one string operand and a format that is
    `pre ++ "%s" ++ post` with no other `%` anywhere; the body it writes is `pre ++ v ++ post`. -/
theorem lemma_fast_path_sound (format : Bytes) (args : List Render.Arg) (body : Bytes)
    (h : Render.fastPath format args = some body) :
    ∃ pre post v, format = pre ++ '%' :: 's' :: post ∧ '%' ∉ pre ∧ '%' ∉ post ∧
      args = [.str v] ∧ body = pre ++ v ++ post := by
  unfold Render.fastPath at h
  match args, h with
  | [.str v], h =>
    simp only [] at h
    cases hc : Render.cutPctS format with
    | none => simp [hc] at h
    | some pp =>
      obtain ⟨pre, post⟩ := pp
      simp only [hc] at h
      by_cases hn : (Render.countPct format != 1) = true
      · simp [hn] at h
      · simp only [hn, if_false, Bool.false_eq_true, Option.some.injEq] at h
        have hf := lemma_cutPctS format pre post hc
        have hcount : Render.countPct format = 1 := by simpa using hn
        rw [hf, lemma_countPct_append] at hcount
        have h1 : Render.countPct ('%' :: 's' :: post) = 1 + Render.countPct post := by
          simp [Render.countPct]; omega
        rw [h1] at hcount
        refine ⟨pre, post, v, hf, lemma_countPct_zero pre (by omega), lemma_countPct_zero post (by omega), rfl, h.symm⟩

def toSpecArg : Render.Arg → RenderSpec.Arg
  | .str s => .str s
  | .other => .other

theorem lemma_sprintfRef_lit (pre rest : Bytes) (args : List RenderSpec.Arg) (h : '%' ∉ pre) :
    RenderSpec.sprintfRef (pre ++ rest) args = (RenderSpec.sprintfRef rest args).map (pre ++ ·) := by
  induction pre with
  | nil => simp
  | cons c p ih =>
    have hc : c ≠ '%' := by intro e; apply h; simp [e]
    have hp : '%' ∉ p := by intro e; apply h; simp [e]
    have : RenderSpec.sprintfRef (c :: (p ++ rest)) args = (RenderSpec.sprintfRef (p ++ rest) args).map (c :: ·) := by
      simp [RenderSpec.sprintfRef, hc]
    simp only [List.cons_append, this, ih hp, Option.map_map]
    congr

theorem lemma_sprintfRef_nopct (post : Bytes) (h : '%' ∉ post) : RenderSpec.sprintfRef post [] = some post := by
  have := lemma_sprintfRef_lit post [] [] h
  simpa [RenderSpec.sprintfRef] using this

theorem lemma_sprintfRef_pcts (post v : Bytes) (args : List RenderSpec.Arg) :
    RenderSpec.sprintfRef ('%' :: 's' :: post) (.str v :: args) = (RenderSpec.sprintfRef post args).map (v ++ ·) := by
  simp [RenderSpec.sprintfRef]


/-! ## escaper -/

/-! ## ASCII purity -/

theorem lemma_hexDigit_lt (n : Nat) (h : n < 16) : hexDigit n < 128 := by
  unfold hexDigit; split <;> omega

theorem lemma_u4_ascii (n : Nat) : ∀ b ∈ u4 n, b < 128 := by
  intro b hb
  simp only [u4, List.mem_cons, List.not_mem_nil, or_false] at hb
  rcases hb with rfl | rfl | rfl | rfl | rfl | rfl
  · omega
  · omega
  all_goals exact lemma_hexDigit_lt _ (Nat.mod_lt _ (by omega))

theorem lemma_escRune_ascii (r : Nat) : ∀ b ∈ escRune r, b < 128 := by
  intro b hb
  unfold escRune at hb
  split at hb
  · exact lemma_u4_ascii _ b hb
  · rcases List.mem_append.1 hb with h | h <;> exact lemma_u4_ascii _ b h

theorem lemma_escapeF_ascii (f : Nat) (l : List Nat) : ∀ b ∈ escapeF f l, b < 128 := by
  induction f generalizing l with
  | zero => intro b hb; simp [escapeF] at hb
  | succ f ih =>
    cases l with
    | nil => intro b hb; simp [escapeF] at hb
    | cons b0 rest =>
      intro b hb
      simp only [escapeF, escapeStep] at hb
      split at hb
      · split at hb
        · rcases List.mem_append.1 hb with h | h
          · exact lemma_escRune_ascii _ b h
          · exact ih _ b h
        · rcases List.mem_append.1 hb with h | h
          · exact lemma_u4_ascii _ b h
          · exact ih _ b h
      · rcases List.mem_cons.1 hb with rfl | h
        · omega
        · exact ih _ b h

/-! ## surrogate arithmetic -/

/-- surrogate arithmetic. For every astral code point the pair written by ASCIIJSON is a high and a
    low surrogate, is the UTF-16 encoding of the code point, and a decoder's `combine` gives it back. -/
theorem lemma_surrogate (r : Nat) (h1 : 0x10000 ≤ r) (h2 : r ≤ 0x10FFFF) :
    combine (hiSur r) (loSur r) = r ∧ 0xD800 ≤ hiSur r ∧ hiSur r ≤ 0xDBFF ∧ 0xDC00 ≤ loSur r ∧ loSur r ≤ 0xDFFF ∧
      utf16 r = [hiSur r, loSur r] := by
  unfold combine hiSur loSur utf16
  have hand : (r - 0x10000) &&& 0x3FF = (r - 0x10000) % 0x400 := Nat.and_two_pow_sub_one_eq_mod _ 10
  have hshr : (r - 0x10000) >>> 10 = (r - 0x10000) / 0x400 := Nat.shiftRight_eq_div_pow _ 10
  rw [hand, hshr]
  refine ⟨by omega, by omega, by omega, by omega, by omega, ?_⟩
  have : ¬ r < 0x10000 := by omega
  simp [this]


theorem lemma_unitsStep_congr (n1 n2 : List Nat → Option (List Nat)) (b : Nat) (rest : List Nat)
    (h : ∀ X, X.length ≤ rest.length → n1 X = n2 X) : unitsStep n1 b rest = unitsStep n2 b rest := by
  unfold unitsStep
  split
  · split
    · split
      · rw [h _ (by simp only [List.length_cons]; omega)]
      · rfl
    · split
      · rw [h _ (by simp only [List.length_cons]; omega)]
      · rfl
    · rfl
  · split
    · rw [h _ (Nat.le_refl _)]
    · split
      · rw [h _ (by simp only [List.length_drop]; omega)]
      · rfl

theorem lemma_unitsF_fuel (f : Nat) : ∀ (l : List Nat) (g : Nat), l.length ≤ f → l.length ≤ g → unitsF f l = unitsF g l := by
  induction f with
  | zero =>
    intro l g hl _
    have : l = [] := List.length_eq_zero_iff.1 (by omega)
    subst this
    cases g <;> rfl
  | succ f ih =>
    intro l g hl hg
    cases l with
    | nil => cases g <;> rfl
    | cons b rest =>
      cases g with
      | zero => simp at hg
      | succ g =>
        simp only [unitsF]
        apply lemma_unitsStep_congr
        intro X hX
        simp only [List.length_cons] at hl hg
        exact ih X g (by omega) (by omega)

theorem lemma_units_nil : units [] = some [] := rfl

theorem lemma_units_cons (b : Nat) (rest : List Nat) : units (b :: rest) = unitsStep units b rest := by
  unfold units
  simp only [List.length_cons, unitsF]
  apply lemma_unitsStep_congr
  intro X hX
  exact lemma_unitsF_fuel _ X _ hX (Nat.le_refl _)

theorem lemma_escapeStep_congr (n1 n2 : List Nat → List Nat) (b : Nat) (rest : List Nat)
    (h : ∀ X, X.length ≤ rest.length → n1 X = n2 X) : escapeStep n1 b rest = escapeStep n2 b rest := by
  unfold escapeStep
  split
  · simp only []
    split
    · rw [h _ (by simp only [List.length_drop]; omega)]
    · rw [h _ (Nat.le_refl _)]
  · rw [h _ (Nat.le_refl _)]

theorem lemma_escapeF_fuel (f : Nat) : ∀ (l : List Nat) (g : Nat), l.length ≤ f → l.length ≤ g → escapeF f l = escapeF g l := by
  induction f with
  | zero =>
    intro l g hl _
    have : l = [] := List.length_eq_zero_iff.1 (by omega)
    subst this
    cases g <;> rfl
  | succ f ih =>
    intro l g hl hg
    cases l with
    | nil => cases g <;> rfl
    | cons b rest =>
      cases g with
      | zero => simp at hg
      | succ g =>
        simp only [escapeF]
        apply lemma_escapeStep_congr
        intro X hX
        simp only [List.length_cons] at hl hg
        exact ih X g (by omega) (by omega)

theorem lemma_escape_nil : escape [] = [] := rfl

theorem lemma_escape_cons (b : Nat) (rest : List Nat) : escape (b :: rest) = escapeStep escape b rest := by
  unfold escape
  simp only [List.length_cons, escapeF]
  apply lemma_escapeStep_congr
  intro X hX
  exact lemma_escapeF_fuel _ X _ hX (Nat.le_refl _)

theorem lemma_escape_ascii (b : Nat) (rest : List Nat) (h : b < 128) : escape (b :: rest) = b :: escape rest := by
  rw [lemma_escape_cons]; unfold escapeStep
  have : ¬ b ≥ 128 := by omega
  simp [this]

theorem lemma_hexVal_hexDigit (d : Nat) (h : d < 16) : hexVal (hexDigit d) = some d := by
  unfold hexVal hexDigit
  by_cases h10 : d < 10
  · simp only [h10, if_true]
    have : 48 ≤ 48 + d ∧ 48 + d ≤ 57 := by omega
    simp only [this, and_self, if_true]
    congr 1; omega
  · simp only [h10, if_false]
    have h1 : ¬ (48 ≤ 87 + d ∧ 87 + d ≤ 57) := by omega
    have h2 : 97 ≤ 87 + d ∧ 87 + d ≤ 102 := by omega
    simp only [h1, if_false, h2, and_self, if_true]
    congr 1; omega

set_option maxRecDepth 100000 in
/-- lead-byte masks of `decodeRuneInJSON`, as ranges -/
theorem lemma_masks : ∀ b0, b0 < 256 →
    ((b0 &&& 0xE0 == 0xC0) = decide (0xC0 ≤ b0 ∧ b0 ≤ 0xDF)) ∧
    ((b0 &&& 0xF0 == 0xE0) = decide (0xE0 ≤ b0 ∧ b0 ≤ 0xEF)) ∧
    ((b0 &&& 0xF8 == 0xF0) = decide (0xF0 ≤ b0 ∧ b0 ≤ 0xF7)) := by decide

theorem lemma_or6 (x y : Nat) (hy : y < 64) : (x <<< 6) ||| y = x * 64 + y := by
  rw [← Nat.shiftLeft_add_eq_or_of_lt (by simpa using hy), Nat.shiftLeft_eq]

theorem lemma_m3F (b : Nat) : b &&& 0x3F = b % 64 := Nat.and_two_pow_sub_one_eq_mod b 6
theorem lemma_m1F (b : Nat) : b &&& 0x1F = b % 32 := Nat.and_two_pow_sub_one_eq_mod b 5
theorem lemma_m0F (b : Nat) : b &&& 0x0F = b % 16 := Nat.and_two_pow_sub_one_eq_mod b 4
theorem lemma_m07 (b : Nat) : b &&& 0x07 = b % 8 := Nat.and_two_pow_sub_one_eq_mod b 3

theorem lemma_dec2 (b0 b1 : Nat) : ((b0 &&& 0x1F) <<< 6) ||| (b1 &&& 0x3F) = (b0 % 32) * 64 + b1 % 64 := by
  rw [lemma_m3F, lemma_m1F, lemma_or6 _ _ (Nat.mod_lt _ (by omega))]

theorem lemma_dec3 (b0 b1 b2 : Nat) :
    ((b0 &&& 0x0F) <<< 12) ||| ((b1 &&& 0x3F) <<< 6) ||| (b2 &&& 0x3F) = (b0 % 16) * 4096 + (b1 % 64) * 64 + b2 % 64 := by
  rw [lemma_m3F, lemma_m3F, lemma_m0F]
  have e : (b0 % 16) <<< 12 = ((b0 % 16) <<< 6) <<< 6 := by rw [← Nat.shiftLeft_add]
  rw [e, ← Nat.shiftLeft_or_distrib, lemma_or6 _ _ (Nat.mod_lt _ (by omega)), lemma_or6 _ _ (Nat.mod_lt _ (by omega))]
  omega

theorem lemma_dec4 (b0 b1 b2 b3 : Nat) :
    ((b0 &&& 0x07) <<< 18) ||| ((b1 &&& 0x3F) <<< 12) ||| ((b2 &&& 0x3F) <<< 6) ||| (b3 &&& 0x3F) =
      (b0 % 8) * 262144 + (b1 % 64) * 4096 + (b2 % 64) * 64 + b3 % 64 := by
  rw [lemma_m3F, lemma_m3F, lemma_m3F, lemma_m07]
  have e1 : (b0 % 8) <<< 18 = (((b0 % 8) <<< 6) <<< 6) <<< 6 := by rw [← Nat.shiftLeft_add, ← Nat.shiftLeft_add]
  have e2 : (b1 % 64) <<< 12 = ((b1 % 64) <<< 6) <<< 6 := by rw [← Nat.shiftLeft_add]
  rw [e1, e2, ← Nat.shiftLeft_or_distrib, ← Nat.shiftLeft_or_distrib, ← Nat.shiftLeft_or_distrib,
    lemma_or6 _ _ (Nat.mod_lt _ (by omega)), lemma_or6 _ _ (Nat.mod_lt _ (by omega)), lemma_or6 _ _ (Nat.mod_lt _ (by omega))]
  omega

theorem lemma_decodeRune2 (b b1 : Nat) (r1 : List Nat) (h128 : ¬ b < 128) (hm : (b &&& 0xE0 == 0xC0) = true) :
    decodeRune (b :: b1 :: r1) = (((b &&& 0x1F) <<< 6) ||| (b1 &&& 0x3F), 2) := by
  unfold decodeRune
  simp only [h128, if_false, hm, if_true]

theorem lemma_decodeRune3 (b b1 b2 : Nat) (r2 : List Nat) (h128 : ¬ b < 128) (hm1 : (b &&& 0xE0 == 0xC0) = false)
    (hm2 : (b &&& 0xF0 == 0xE0) = true) :
    decodeRune (b :: b1 :: b2 :: r2) = (((b &&& 0x0F) <<< 12) ||| ((b1 &&& 0x3F) <<< 6) ||| (b2 &&& 0x3F), 3) := by
  unfold decodeRune
  simp only [h128, if_false, hm1, hm2, if_true, Bool.false_eq_true]

theorem lemma_decodeRune4 (b b1 b2 b3 : Nat) (r3 : List Nat) (h128 : ¬ b < 128) (hm1 : (b &&& 0xE0 == 0xC0) = false)
    (hm2 : (b &&& 0xF0 == 0xE0) = false) (hm3 : (b &&& 0xF8 == 0xF0) = true) :
    decodeRune (b :: b1 :: b2 :: b3 :: r3) =
      (((b &&& 0x07) <<< 18) ||| ((b1 &&& 0x3F) <<< 12) ||| ((b2 &&& 0x3F) <<< 6) ||| (b3 &&& 0x3F), 4) := by
  unfold decodeRune
  simp only [h128, if_false, hm1, hm2, hm3, if_true, Bool.false_eq_true]

theorem lemma_isCont (b : Nat) (h : isCont b = true) : 0x80 ≤ b ∧ b ≤ 0xBF := by
  simpa [isCont] using h

/-- on a well-formed UTF-8 sequence `decodeRuneInJSON` returns its scalar value and its length -/
theorem lemma_decode_valid (b : Nat) (rest : List Nat) (r n : Nat) (h : utf8Head (b :: rest) = some (r, n)) :
    decodeRune (b :: rest) = (r, n) ∧ b ≥ 128 ∧ 2 ≤ n ∧ n ≤ rest.length + 1 ∧ r ≤ 0x10FFFF := by
  cases rest with
  | nil => simp [utf8Head] at h
  | cons b1 r1 =>
    simp only [utf8Head] at h
    by_cases h2 : (0xC2 ≤ b && b ≤ 0xDF) = true
    · simp only [h2, if_true] at h
      by_cases hc : isCont b1 = true
      · simp only [hc, if_true, Option.some.injEq, Prod.mk.injEq] at h
        obtain ⟨hr, hn⟩ := h
        have hb : 0xC2 ≤ b ∧ b ≤ 0xDF := by simpa using h2
        have hb1 := lemma_isCont b1 hc
        have hm := (lemma_masks b (by omega)).1
        have hm' : (b &&& 0xE0 == 0xC0) = true := by rw [hm]; simp; omega
        have h128 : ¬ b < 128 := by omega
        refine ⟨?_, by omega, by omega, by simp; omega, by omega⟩
        rw [lemma_decodeRune2 b b1 r1 h128 hm', lemma_dec2]
        rw [← hr, ← hn]
        simp only [Prod.mk.injEq, and_true]
        omega
      · simp [hc] at h
    · simp only [h2, if_false, Bool.false_eq_true] at h
      cases r1 with
      | nil => simp at h
      | cons b2 r2 =>
        simp only [] at h
        by_cases h3 : (0xE0 ≤ b && b ≤ 0xEF) = true
        · simp only [h3, if_true] at h
          split at h
          · rename_i hcond
            simp only [Option.some.injEq, Prod.mk.injEq] at h
            obtain ⟨hr, hn⟩ := h
            simp only [Bool.and_eq_true, decide_eq_true_eq, Bool.not_eq_true', Bool.and_eq_false_iff, decide_eq_false_iff_not] at hcond
            obtain ⟨⟨⟨hc1, hc2⟩, hlo⟩, hsur⟩ := hcond
            have hb : 0xE0 ≤ b ∧ b ≤ 0xEF := by simpa using h3
            have hb1 := lemma_isCont b1 hc1
            have hb2 := lemma_isCont b2 hc2
            have hm := lemma_masks b (by omega)
            have hm1 : (b &&& 0xE0 == 0xC0) = false := by rw [hm.1]; simp; omega
            have hm2 : (b &&& 0xF0 == 0xE0) = true := by rw [hm.2.1]; simp; omega
            have h128 : ¬ b < 128 := by omega
            refine ⟨?_, by omega, by omega, by simp; omega, by omega⟩
            rw [lemma_decodeRune3 b b1 b2 r2 h128 hm1 hm2, lemma_dec3]
            have e0 : b % 16 = b - 0xE0 := by omega
            have e1 : b1 % 64 = b1 - 0x80 := by omega
            have e2 : b2 % 64 = b2 - 0x80 := by omega
            rw [← hr, ← hn, e0, e1, e2]
          · simp at h
        · simp only [h3, if_false, Bool.false_eq_true] at h
          cases r2 with
          | nil => simp at h
          | cons b3 r3 =>
            simp only [] at h
            by_cases h4 : (0xF0 ≤ b && b ≤ 0xF4) = true
            · simp only [h4, if_true] at h
              split at h
              · rename_i hcond
                simp only [Option.some.injEq, Prod.mk.injEq] at h
                obtain ⟨hr, hn⟩ := h
                simp only [Bool.and_eq_true, decide_eq_true_eq] at hcond
                obtain ⟨⟨⟨⟨hc1, hc2⟩, hc3⟩, hlo⟩, hhi⟩ := hcond
                have hb : 0xF0 ≤ b ∧ b ≤ 0xF4 := by simpa using h4
                have hb1 := lemma_isCont b1 hc1
                have hb2 := lemma_isCont b2 hc2
                have hb3 := lemma_isCont b3 hc3
                have hm := lemma_masks b (by omega)
                have hm1 : (b &&& 0xE0 == 0xC0) = false := by rw [hm.1]; simp; omega
                have hm2 : (b &&& 0xF0 == 0xE0) = false := by rw [hm.2.1]; simp; omega
                have hm3 : (b &&& 0xF8 == 0xF0) = true := by rw [hm.2.2]; simp; omega
                have h128 : ¬ b < 128 := by omega
                refine ⟨?_, by omega, by omega, by simp; omega, by omega⟩
                rw [lemma_decodeRune4 b b1 b2 b3 r3 h128 hm1 hm2 hm3, lemma_dec4]
                have e0 : b % 8 = b - 0xF0 := by omega
                have e1 : b1 % 64 = b1 - 0x80 := by omega
                have e2 : b2 % 64 = b2 - 0x80 := by omega
                have e3 : b3 % 64 = b3 - 0x80 := by omega
                rw [← hr, ← hn, e0, e1, e2, e3]
              · simp at h
            · simp [h4] at h

/-- a decoder reads `\uXXXX` as written by the escaper back as the same code unit -/
theorem lemma_units_u4 (n : Nat) (Y : List Nat) (h : n < 65536) : units (u4 n ++ Y) = (units Y).map (n :: ·) := by
  simp only [u4, List.cons_append, List.nil_append]
  rw [lemma_units_cons]
  simp only [unitsStep, beq_self_eq_true, if_true]
  rw [lemma_hexVal_hexDigit _ (Nat.mod_lt _ (by omega)), lemma_hexVal_hexDigit _ (Nat.mod_lt _ (by omega)),
    lemma_hexVal_hexDigit _ (Nat.mod_lt _ (by omega)), lemma_hexVal_hexDigit _ (Nat.mod_lt _ (by omega))]
  simp only []
  have : n / 4096 % 16 * 4096 + n / 256 % 16 * 256 + n / 16 % 16 * 16 + n % 16 = n := by omega
  rw [this]

theorem lemma_units_escRune (r : Nat) (Y : List Nat) (h : r ≤ 0x10FFFF) :
    units (escRune r ++ Y) = (units Y).map (utf16 r ++ ·) := by
  unfold escRune
  by_cases hb : r ≤ 0xFFFF
  · simp only [hb, if_true]
    rw [lemma_units_u4 r Y (by omega)]
    have : utf16 r = [r] := by unfold utf16; simp; omega
    rw [this]; rfl
  · simp only [hb, if_false]
    obtain ⟨_, h1, h2, h3, h4, h5⟩ := lemma_surrogate r (by omega) h
    rw [List.append_assoc, lemma_units_u4 _ _ (by omega), lemma_units_u4 _ _ (by omega), h5]
    cases units Y <;> rfl

theorem lemma_hexVal_ascii (c v : Nat) (h : hexVal c = some v) : c < 128 := by
  unfold hexVal at h
  split at h
  · omega
  · split at h
    · omega
    · split at h
      · omega
      · simp at h

theorem lemma_simpleEscape_ascii (c u : Nat) (h : simpleEscape c = some u) : c < 128 ∧ c ≠ 117 := by
  unfold simpleEscape at h
  repeat' split at h
  all_goals first | (simp at h; done) | (rename_i hc; simp at hc; omega) | skip
  all_goals simp_all

/-- the escaped text lexes to the same code units. If a JSON text lexes (escapes well formed, every non-ASCII byte part of
    well-formed UTF-8 — what encoding/json emits), the ASCIIJSON text lexes to the same sequence of
    UTF-16 code units: a decoder sees the same strings, keys and tokens. -/
theorem lemma_escape_decodes_same (l : List Nat) (us : List Nat) (h : units l = some us) : units (escape l) = some us := by
  induction hn : l.length using Nat.strongRecOn generalizing l us with
  | _ n ih =>
    cases l with
    | nil => simpa [escape, escapeF] using h
    | cons b rest =>
      rw [lemma_units_cons] at h
      unfold unitsStep at h
      by_cases hb : (b == 92) = true
      · have hb' : b = 92 := by simpa using hb
        subst hb'
        simp only [beq_self_eq_true, if_true] at h
        split at h
        · -- \uXXXX
          rename_i h1 h2 h3 h4 r
          split at h
          · rename_i a b' c d e1 e2 e3 e4
            cases hr : units r with
            | none => simp [hr] at h
            | some ur =>
              have ihr := ih r.length (by simp at hn; omega) r ur hr rfl
              simp only [hr, Option.map_some, Option.some.injEq] at h
              rw [lemma_escape_ascii _ _ (by omega), lemma_escape_ascii _ _ (by omega),
                lemma_escape_ascii _ _ (lemma_hexVal_ascii _ _ e1), lemma_escape_ascii _ _ (lemma_hexVal_ascii _ _ e2),
                lemma_escape_ascii _ _ (lemma_hexVal_ascii _ _ e3), lemma_escape_ascii _ _ (lemma_hexVal_ascii _ _ e4)]
              rw [lemma_units_cons]
              simp only [unitsStep, beq_self_eq_true, if_true, e1, e2, e3, e4, ihr, Option.map_some, h]
          · simp at h
        · -- two-character escape
          rename_i c r hnot
          split at h
          · rename_i u hu
            obtain ⟨hc, hc117⟩ := lemma_simpleEscape_ascii c u hu
            cases hr : units r with
            | none => simp [hr] at h
            | some ur =>
              have ihr := ih r.length (by simp at hn; omega) r ur hr rfl
              simp only [hr, Option.map_some, Option.some.injEq] at h
              rw [lemma_escape_ascii _ _ (by omega), lemma_escape_ascii _ _ hc, lemma_units_cons]
              unfold unitsStep
              simp only [beq_self_eq_true, if_true]
              split
              · rename_i heq
                simp only [List.cons.injEq] at heq
                exact absurd heq.1 hc117
              · rename_i c' r' hnot' heq
                simp only [List.cons.injEq] at heq
                obtain ⟨rfl, rfl⟩ := heq
                simp only [hu, ihr, Option.map_some, h]
              · rename_i heq; simp at heq
          · simp at h
        · simp at h
      · simp only [hb, if_false, Bool.false_eq_true] at h
        by_cases h128 : b < 128
        · simp only [h128, if_true] at h
          cases hr : units rest with
          | none => simp [hr] at h
          | some ur =>
            have ihr := ih rest.length (by simp at hn; omega) rest ur hr rfl
            simp only [hr, Option.map_some, Option.some.injEq] at h
            rw [lemma_escape_ascii _ _ h128, lemma_units_cons]
            simp only [unitsStep, hb, if_false, Bool.false_eq_true, h128, if_true, ihr, Option.map_some, h]
        · simp only [h128, if_false] at h
          split at h
          · rename_i r n hu
            obtain ⟨hd, hge, hn2, hnl, hr⟩ := lemma_decode_valid b rest r n hu
            cases hX : units (rest.drop (n - 1)) with
            | none => simp [hX] at h
            | some ux =>
              have ihx := ih (rest.drop (n - 1)).length (by simp at hn ⊢; omega) _ ux hX rfl
              simp only [hX, Option.map_some, Option.some.injEq] at h
              rw [lemma_escape_cons]
              unfold escapeStep
              have : b ≥ 128 := hge
              simp only [this, if_true, hd]
              have hpos : n > 0 := by omega
              simp only [hpos, if_true]
              rw [lemma_units_escRune r _ hr, ihx]
              simp only [Option.map_some, h]
          · simp at h

end Rivaas.C19
