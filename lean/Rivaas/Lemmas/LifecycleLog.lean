import Rivaas.Lemmas.LifecycleReload
/-
C09 — helper lemmas, part 6: the functions of the oracle on a segmented log (`Segs.log`), reduced to
the segments they are about.
-/
namespace Rivaas.Lifecycle
open Spec

/-- the segments with the kinds of events each may contain -/
def Segs.parts (s : Segs) : Parts :=
  [([.start, .sig], s.starts), ([.ready], s.readies), ([.reqIn], s.reqIns), ([.reload, .sig], s.reloads),
   ([.sig], s.sig), ([.shut, .reqFin], s.shuts), ([.reqFin], s.drain), ([.flush], s.flush),
   ([.stop], s.stops), ([.ret], [Ev.ret]), ([.reload], s.post)]

theorem Segs.log_parts (s : Segs) : s.log = s.parts.log := by
  simp [Segs.log, Segs.parts, Parts.log, List.append_assoc]

/-- every segment contains events of its kinds only -/
structure Segs.WK (s : Segs) : Prop where
  starts : kindsIn [.start, .sig] s.starts
  readies : kindsIn [.ready] s.readies
  reqIns : kindsIn [.reqIn] s.reqIns
  reloads : kindsIn [.reload, .sig] s.reloads
  sig : kindsIn [.sig] s.sig
  shuts : kindsIn [.shut, .reqFin] s.shuts
  drain : kindsIn [.reqFin] s.drain
  flush : kindsIn [.flush] s.flush
  stops : kindsIn [.stop] s.stops
  post : kindsIn [.reload] s.post

theorem Segs.WK.parts {s : Segs} (h : s.WK) : s.parts.WK := by
  intro p hp
  simp only [Segs.parts, List.mem_cons, List.not_mem_nil, or_false] at hp
  rcases hp with rfl | rfl | rfl | rfl | rfl | rfl | rfl | rfl | rfl | rfl | rfl
  · exact h.starts
  · exact h.readies
  · exact h.reqIns
  · exact h.reloads
  · exact h.sig
  · exact h.shuts
  · exact h.drain
  · exact h.flush
  · exact h.stops
  · exact kindsIn_cons (by simp [kind]) (kindsIn_nil _)
  · exact h.post

section loc
variable {s : Segs} (h : s.WK)
include h

theorem Segs.log_startTag : s.log.filterMap startTag = s.starts.filterMap startTag := by
  rw [Segs.log_parts, Parts.filterMap_home startTag .start (by intro e; cases e <;> simp [kind, startTag]) _ h.parts]
  simp [Segs.parts, Parts.home, Parts.log]

theorem Segs.log_startProbe : s.log.all startProbeOk = s.starts.all startProbeOk := by
  rw [Segs.log_parts, Parts.all_home startProbeOk .start (by intro e; cases e <;> simp [kind, startProbeOk]) _ h.parts]
  simp [Segs.parts, Parts.home, Parts.log]

theorem Segs.log_readyProbe (n : Nat) : s.log.all (readyProbeOk n) = s.readies.all (readyProbeOk n) := by
  rw [Segs.log_parts, Parts.all_home (readyProbeOk n) .ready (by intro e; cases e <;> simp [kind, readyProbeOk]) _ h.parts]
  simp [Segs.parts, Parts.home, Parts.log]

theorem Segs.log_readyIdx : s.log.filterMap readyIdx = s.readies.filterMap readyIdx := by
  rw [Segs.log_parts, Parts.filterMap_home readyIdx .ready (by intro e; cases e <;> simp [kind, readyIdx]) _ h.parts]
  simp [Segs.parts, Parts.home, Parts.log]

theorem Segs.log_anyReady : s.log.any isReady = s.readies.any isReady := by
  rw [Segs.log_parts, Parts.any_home isReady .ready (by intro e; cases e <;> simp [kind, isReady]) _ h.parts]
  simp [Segs.parts, Parts.home, Parts.log]

theorem Segs.log_reloadRound : s.log.filterMap reloadRound = ids s.reloads ++ ids s.post := by
  rw [Segs.log_parts, Parts.filterMap_home reloadRound .reload (by intro e; cases e <;> simp [kind, reloadRound]) _ h.parts]
  simp [Segs.parts, Parts.home, Parts.log, ids]

theorem Segs.log_reqInIdx : s.log.filterMap reqInIdx = s.reqIns.filterMap reqInIdx := by
  rw [Segs.log_parts, Parts.filterMap_home reqInIdx .reqIn (by intro e; cases e <;> simp [kind, reqInIdx]) _ h.parts]
  simp [Segs.parts, Parts.home, Parts.log]

theorem Segs.log_shutTag : s.log.filterMap shutTag = s.shuts.filterMap shutTag := by
  rw [Segs.log_parts, Parts.filterMap_home shutTag .shut (by intro e; cases e <;> simp [kind, shutTag]) _ h.parts]
  simp [Segs.parts, Parts.home, Parts.log]

theorem Segs.log_shutProbe (sc : Scenario) : s.log.all (shutProbeOk sc) = s.shuts.all (shutProbeOk sc) := by
  rw [Segs.log_parts, Parts.all_home (shutProbeOk sc) .shut (by intro e; cases e <;> simp [kind, shutProbeOk]) _ h.parts]
  simp [Segs.parts, Parts.home, Parts.log]

theorem Segs.log_reqProbe (sc : Scenario) :
    s.log.all (reqProbeOk sc) = (s.shuts.all (reqProbeOk sc) && s.drain.all (reqProbeOk sc)) := by
  rw [Segs.log_parts, Parts.all_home (reqProbeOk sc) .reqFin (by intro e; cases e <;> simp [kind, reqProbeOk]) _ h.parts]
  simp [Segs.parts, Parts.home, Parts.log]

theorem Segs.log_countFlush : s.log.count Ev.flush = s.flush.count Ev.flush := by
  rw [Segs.log_parts, Parts.count_home Ev.flush _ h.parts]
  simp [Segs.parts, Parts.home, Parts.log, kind]

theorem Segs.log_stopTag : s.log.filterMap stopTag = s.stops.filterMap stopTag := by
  rw [Segs.log_parts, Parts.filterMap_home stopTag .stop (by intro e; cases e <;> simp [kind, stopTag]) _ h.parts]
  simp [Segs.parts, Parts.home, Parts.log]

theorem Segs.log_stopProbe (n : Nat) : s.log.all (stopProbeOk n) = s.stops.all (stopProbeOk n) := by
  rw [Segs.log_parts, Parts.all_home (stopProbeOk n) .stop (by intro e; cases e <;> simp [kind, stopProbeOk]) _ h.parts]
  simp [Segs.parts, Parts.home, Parts.log]

/-- the log is phase-ordered -/
theorem Segs.log_pairwise : s.log.Pairwise R := by
  rw [Segs.log_parts]
  exact Parts.pairwise_R _ h.parts (by simp only [Segs.parts, List.map]; decide)

theorem Segs.log_precedes (p q : Ev → Bool) (kp kq : Kind) (hp : ∀ e, p e = true → kind e = kp)
    (hq : ∀ e, q e = true → kind e = kq) (hr : rk kp < rk kq ∧ rk kp ≠ 0) : precedes p q s.log = true :=
  precedes_of_R p q kp kq hp hq hr (Segs.log_pairwise h)

/-- everything up to `ret` -/
def Segs.front (s : Segs) : List Ev :=
  s.starts ++ s.readies ++ s.reqIns ++ s.reloads ++ s.sig ++ s.shuts ++ s.drain ++ s.flush ++ s.stops

omit h in
theorem Segs.log_front : s.log = s.front ++ Ev.ret :: s.post := by
  simp [Segs.log, Segs.front, List.append_assoc]

theorem Segs.front_noRet : ∀ e ∈ s.front, isRet e = false := by
  intro e he
  have hk : kind e ≠ .ret := by
    simp only [Segs.front, List.mem_append] at he
    rcases he with ((((((((he | he) | he) | he) | he) | he) | he) | he) | he)
    · have := h.starts e he; intro hc; simp [hc] at this
    · have := h.readies e he; intro hc; simp [hc] at this
    · have := h.reqIns e he; intro hc; simp [hc] at this
    · have := h.reloads e he; intro hc; simp [hc] at this
    · have := h.sig e he; intro hc; simp [hc] at this
    · have := h.shuts e he; intro hc; simp [hc] at this
    · have := h.drain e he; intro hc; simp [hc] at this
    · have := h.flush e he; intro hc; simp [hc] at this
    · have := h.stops e he; intro hc; simp [hc] at this
  cases hr : isRet e
  · rfl
  · exact absurd (isRet_kind e hr) hk

/-- `Start` returns exactly once and only reload calls of the environment come after it -/
theorem Segs.log_ret : s.log.any isRet = true ∧ (afterRet s.log).all isReload = true := by
  constructor
  · rw [Segs.log_front]; simp [isRet]
  · rw [Segs.log_front, afterRet_append_of_noRet _ (Segs.front_noRet h), afterRet_ret_cons]
    apply List.all_eq_true.mpr
    intro e he
    apply kind_isReload
    have := h.post e he
    simpa using this

theorem Segs.afterRet_log : afterRet s.log = s.post := by
  rw [Segs.log_front, afterRet_append_of_noRet _ (Segs.front_noRet h), afterRet_ret_cons]

/-- what precedes the shutdown sequence -/
def Segs.before (s : Segs) : List Ev := s.starts ++ s.readies ++ s.reqIns ++ s.reloads ++ s.sig

omit h in
theorem Segs.log_before : s.log = s.before ++ (s.shuts ++ s.drain ++ s.flush ++ s.stops ++ Ev.ret :: s.post) := by
  simp [Segs.log, Segs.before, List.append_assoc]

theorem Segs.before_kinds : kindsIn [.start, .sig, .ready, .reqIn, .reload] s.before := by
  unfold Segs.before
  refine kindsIn_append (kindsIn_append (kindsIn_append (kindsIn_append ?_ ?_) ?_) ?_) ?_
  · exact kindsIn_mono h.starts (by simp)
  · exact kindsIn_mono h.readies (by simp)
  · exact kindsIn_mono h.reqIns (by simp)
  · exact kindsIn_mono h.reloads (by simp)
  · exact kindsIn_mono h.sig (by simp)

/-- neither an OnShutdown hook nor the return of `Start` comes before the stop signal -/
theorem Segs.log_guarded (hs : s.before.any isSig = true) :
    guardedBy isSig isShut s.log = true ∧ guardedBy isSig isRet s.log = true := by
  rw [Segs.log_before]
  constructor
  · apply guardedBy_append_left _ hs
    intro e he
    have := Segs.before_kinds h e he
    cases hx : isShut e
    · rfl
    · rw [isShut_kind e hx] at this; simp at this
  · apply guardedBy_append_left _ hs
    intro e he
    have := Segs.before_kinds h e he
    cases hx : isRet e
    · rfl
    · rw [isRet_kind e hx] at this; simp at this

end loc

end Rivaas.Lifecycle
