import Rivaas.Model.BindAll
import Rivaas.Lemmas.BindPath
import Rivaas.Lemmas.BindFlatten
import Rivaas.Lemmas.BindRef
import Rivaas.Lemmas.BindAll
/-
C04 — `WithAllErrors`: the collecting loop over cached index paths equals the *structural* collecting binder
`refFsAll` (field by field, embedded structs in place), as `lemma_loopAll_eq_ref` says for the plain loop.
-/
set_option linter.unusedSimpArgs false
set_option linter.unusedVariables false
namespace Rivaas.Bind

variable (P : Params) (cfg : Cfg) (nest : NestAll) (tag : Tag)

theorem lemma_prepend_prepend (a b : List Err) (o : OutAll) : (o.prepend b).prepend a = o.prepend (a ++ b) := by
  cases o <;> simp [OutAll.prepend]

theorem lemma_loopAll_append (sty : List Fld) (g : Getter) (d : Nat) :
    ∀ (l1 l2 : List FieldInfo) (e : Val),
      loopAllWith P cfg nest sty (l1 ++ l2) e g d =
        match loopAllWith P cfg nest sty l1 e g d with
        | .done e' es => (loopAllWith P cfg nest sty l2 e' g d).prepend es
        | .panic => .panic
  | [], l2, e => by simp [loopAllWith, lemma_agree_prepend_nil]
  | f :: l1, l2, e => by
    simp only [List.cons_append, loopAllWith]
    split
    · rfl
    · split
      · exact lemma_loopAll_append sty g d l1 l2 e
      · split
        · split
          · rw [lemma_loopAll_append sty g d l1 l2 _]
            cases loopAllWith P cfg nest sty l1 _ g d with
            | panic => rfl
            | done v es' => exact lemma_prepend_prepend _ _ _
          · rw [lemma_loopAll_append sty g d l1 l2 _]
            cases loopAllWith P cfg nest sty l1 _ g d with
            | panic => rfl
            | done v es' => exact lemma_prepend_prepend _ _ _
          · rfl
        · rfl

theorem lemma_actionAll_pj (g : Getter) (d j : Nat) (f : FieldInfo) (cur : Val) :
    fieldActionAll P cfg nest g d (pj j f) cur = fieldActionAll P cfg nest g d f cur := rfl

/-- how the outcome of the loop over the fields of an embedded struct shows in the embedding value -/
def liftOutAll (vs : List Val) (j : Nat) (wrap : Val → Val) : OutAll → OutAll
  | .done y es => .done (.struct (vs.set j (wrap y))) es
  | .panic => .panic

theorem lemma_liftOutAll_prepend (vs : List Val) (j : Nat) (wrap : Val → Val) (es : List Err) (o : OutAll) :
    liftOutAll vs j wrap (o.prepend es) = (liftOutAll vs j wrap o).prepend es := by
  cases o <;> simp [liftOutAll, OutAll.prepend]

theorem lemma_liftOutAll_set (vs : List Val) (j : Nat) (x : Val) (wrap : Val → Val) (o : OutAll) :
    liftOutAll (vs.set j x) j wrap o = liftOutAll vs j wrap o := by
  cases o <;> simp [liftOutAll, List.set_set]

/-- **embedded struct (by value).** The loop over the promoted fields of the struct embedded at
    position `j` acts on that struct alone. -/
theorem lemma_liftAll_struct (sty : List Fld) (j : Nat) (h : FieldHdr) (sub : List Fld) (g : Getter) (d : Nat)
    (hs : sty[j]? = some (h, .struct sub)) :
    ∀ (L : List FieldInfo) (vs cs : List Val), (∀ f ∈ L, f.index ≠ []) → vs[j]? = some (.struct cs) →
      loopAllWith P cfg nest sty (L.map (pj j)) (.struct vs) g d =
        liftOutAll vs j id (loopAllWith P cfg nest sub L (.struct cs) g d)
  | [], vs, cs, _, hv => by
    simp only [List.map_nil, loopAllWith, liftOutAll, id]
    rw [lemma_set_self vs j _ hv]
  | f :: L, vs, cs, hL, hv => by
    have hq : f.index ≠ [] := hL f (by simp)
    have hL' : ∀ f ∈ L, f.index ≠ [] := fun f hf => hL f (by simp [hf])
    obtain ⟨a, r, hidx⟩ : ∃ a r, f.index = a :: r := by
      cases hi : f.index with
      | nil => exact absurd hi hq
      | cons a r => exact ⟨a, r, rfl⟩
    simp only [List.map_cons, loopAllWith, pj, hidx, lemma_reach_struct vs j a r cs hv]
    have hw : wants g { f with index := j :: a :: r } = wants g f := rfl
    rw [hw]
    split
    · simp [liftOutAll]
    · split
      · exact lemma_liftAll_struct sty j h sub g d hs L vs cs hL' hv
      · rw [lemma_updAt_struct sty vs j a r h sub cs id hs hv]
        obtain ⟨cs1, hcs1⟩ := lemma_updAt_shape sub cs a r id
        rw [hcs1]
        have hv1 : (vs.set j (Val.struct cs1))[j]? = some (.struct cs1) := lemma_get_set vs j _ _ hv
        rw [lemma_reach_struct _ j a r cs1 hv1]
        split
        · rename_i cur hcur
          have ha : fieldActionAll P cfg nest g d { f with index := j :: a :: r } cur = fieldActionAll P cfg nest g d f cur := rfl
          rw [ha]
          cases fieldActionAll P cfg nest g d f cur with
          | store nv es =>
            simp only []
            rw [lemma_updAt_struct sty _ j a r h sub cs1 _ hs hv1]
            obtain ⟨cs2, hcs2⟩ := lemma_updAt_shape sub cs1 a r (fun _ => nv)
            rw [hcs2, List.set_set]
            have hv2 : (vs.set j (Val.struct cs2))[j]? = some (.struct cs2) := lemma_get_set vs j _ _ hv
            rw [lemma_liftAll_struct sty j h sub g d hs L _ cs2 hL' hv2, lemma_liftOutAll_prepend, lemma_liftOutAll_set]
          | skip es =>
            simp only []
            rw [lemma_liftAll_struct sty j h sub g d hs L _ cs1 hL' hv1, lemma_liftOutAll_prepend, lemma_liftOutAll_set]
          | panic => simp [liftOutAll]
        · simp [liftOutAll]


/-- **embedded pointer, allocated.** Same through the pointer. -/
theorem lemma_liftAll_ptr (sty : List Fld) (j : Nat) (h : FieldHdr) (sub : List Fld) (g : Getter) (d : Nat)
    (hs : sty[j]? = some (h, .ptr (.struct sub))) :
    ∀ (L : List FieldInfo) (vs cs : List Val), (∀ f ∈ L, f.index ≠ []) → vs[j]? = some (.ptr (.struct cs)) →
      loopAllWith P cfg nest sty (L.map (pj j)) (.struct vs) g d =
        liftOutAll vs j .ptr (loopAllWith P cfg nest sub L (.struct cs) g d)
  | [], vs, cs, _, hv => by
    simp only [List.map_nil, loopAllWith, liftOutAll]
    rw [lemma_set_self vs j _ hv]
  | f :: L, vs, cs, hL, hv => by
    have hq : f.index ≠ [] := hL f (by simp)
    have hL' : ∀ f ∈ L, f.index ≠ [] := fun f hf => hL f (by simp [hf])
    obtain ⟨a, r, hidx⟩ : ∃ a r, f.index = a :: r := by
      cases hi : f.index with
      | nil => exact absurd hi hq
      | cons a r => exact ⟨a, r, rfl⟩
    simp only [List.map_cons, loopAllWith, pj, hidx, lemma_reach_ptr vs j a r _ hv]
    have hw : wants g { f with index := j :: a :: r } = wants g f := rfl
    rw [hw]
    split
    · simp [liftOutAll]
    · split
      · exact lemma_liftAll_ptr sty j h sub g d hs L vs cs hL' hv
      · rw [lemma_updAt_ptr sty vs j a r h (.struct sub) (.struct cs) id hs hv]
        obtain ⟨cs1, hcs1⟩ := lemma_updAt_shape sub cs a r id
        rw [hcs1]
        have hv1 : (vs.set j (Val.ptr (.struct cs1)))[j]? = some (.ptr (.struct cs1)) := lemma_get_set vs j _ _ hv
        rw [lemma_reach_ptr _ j a r _ hv1]
        split
        · rename_i cur hcur
          have ha : fieldActionAll P cfg nest g d { f with index := j :: a :: r } cur = fieldActionAll P cfg nest g d f cur := rfl
          rw [ha]
          cases fieldActionAll P cfg nest g d f cur with
          | store nv es =>
            simp only []
            rw [lemma_updAt_ptr sty _ j a r h (.struct sub) (.struct cs1) _ hs hv1]
            obtain ⟨cs2, hcs2⟩ := lemma_updAt_shape sub cs1 a r (fun _ => nv)
            rw [hcs2, List.set_set]
            have hv2 : (vs.set j (Val.ptr (.struct cs2)))[j]? = some (.ptr (.struct cs2)) := lemma_get_set vs j _ _ hv
            rw [lemma_liftAll_ptr sty j h sub g d hs L _ cs2 hL' hv2, lemma_liftOutAll_prepend, lemma_liftOutAll_set]
          | skip es =>
            simp only []
            rw [lemma_liftAll_ptr sty j h sub g d hs L _ cs1 hL' hv1, lemma_liftOutAll_prepend, lemma_liftOutAll_set]
          | panic => simp [liftOutAll]
        · simp [liftOutAll]

/-- **embedded pointer, nil.** Nothing happens until the first promoted field that receives a
    value; from there on the loop behaves as if the pointer had been allocated beforehand. -/
theorem lemma_liftAll_nil (sty : List Fld) (j : Nat) (h : FieldHdr) (sub : List Fld) (g : Getter) (d : Nat)
    (hs : sty[j]? = some (h, .ptr (.struct sub))) :
    ∀ (L : List FieldInfo) (vs : List Val),
      (∀ f ∈ L, f.index ≠ [] ∧ reach (zero (.struct sub)) f.index ≠ .bad) → vs[j]? = some .nil →
      loopAllWith P cfg nest sty (L.map (pj j)) (.struct vs) g d =
        if L.any (wants g) then
          loopAllWith P cfg nest sty (L.map (pj j)) (.struct (vs.set j (.ptr (zero (.struct sub))))) g d
        else .done (.struct vs) []
  | [], vs, _, hv => by simp [loopAllWith]
  | f :: L, vs, hL, hv => by
    obtain ⟨hq, hbad⟩ := hL f (by simp)
    have hL' : ∀ f ∈ L, f.index ≠ [] ∧ reach (zero (.struct sub)) f.index ≠ .bad := fun f hf => hL f (by simp [hf])
    obtain ⟨a, r, hidx⟩ : ∃ a r, f.index = a :: r := by
      cases hi : f.index with
      | nil => exact absurd hi hq
      | cons a r => exact ⟨a, r, rfl⟩
    have hv0 : (vs.set j (Val.ptr (zero (.struct sub))))[j]? = some (.ptr (zero (.struct sub))) := lemma_get_set vs j _ _ hv
    have hw : wants g { f with index := j :: a :: r } = wants g f := rfl
    by_cases hwf : wants g f = true
    · -- the field receives a value: both sides allocate the same struct
      simp only [List.any_cons, hwf, Bool.true_or, if_true]
      simp only [List.map_cons, loopAllWith, pj, hidx, lemma_reach_nil vs j a r hv,
        lemma_reach_ptr _ j a r _ hv0, hw, hwf]
      rw [hidx] at hbad
      rw [lemma_updAt_nil sty vs j a r h (.struct sub) id hs hv,
        lemma_updAt_ptr sty _ j a r h (.struct sub) _ id hs hv0, List.set_set]
      cases hz : reach (zero (.struct sub)) (a :: r) with
      | bad => exact absurd hz hbad
      | ok x => simp
      | nilptr => simp
    · have hwf' : wants g f = false := by simpa using hwf
      simp only [List.any_cons, hwf', Bool.false_or]
      simp only [List.map_cons, loopAllWith, pj, hidx, lemma_reach_nil vs j a r hv,
        lemma_reach_ptr _ j a r _ hv0, hw, hwf']
      rw [hidx] at hbad
      rw [lemma_liftAll_nil sty j h sub g d hs L vs hL' hv]
      cases hz : reach (zero (.struct sub)) (a :: r) with
      | bad => exact absurd hz hbad
      | ok x => simp
      | nilptr => simp


/-! ### the structural collecting binder -/

/-- the loop body on a field that is not an embedded struct, acting on the field's value: the new value and the
    errors of the field (`none`: panic) -/
def refLeafAll (g : Getter) (d : Nat) (h : FieldHdr) (t : Ty) (v : Val) : Option (Val × List Err) :=
  match mkInfo P tag [] h t with
  | none => some (v, [])
  | some f =>
    if !wants g f then some (v, [])
    else match fieldActionAll P cfg nest g d f v with
      | .store nv es => some (nv, es)
      | .skip es => some (v, es)
      | .panic => none

mutual
def refFldAll (g : Getter) (d : Nat) (h : FieldHdr) : Ty → Val → Option (Val × List Err)
  | .struct sub, v =>
    if !h.exported then some (v, [])
    else if h.anon then
      match v with
      | .struct cs => match refFsAll g d sub cs with
        | some (cs', es) => some (.struct cs', es)
        | none => none
      | _ => none
    else refLeafAll P cfg nest tag g d h (.struct sub) v
  | .ptr (.struct sub), v =>
    if !h.exported then some (v, [])
    else if h.anon then
      match v with
      | .ptr (.struct cs) => match refFsAll g d sub cs with
        | some (cs', es) => some (.ptr (.struct cs'), es)
        | none => none
      | .nil =>
        if (flatten P tag sub).any (wants g) then
          match refFsAll g d sub (zeroFs sub) with
          | some (cs', es) => some (.ptr (.struct cs'), es)
          | none => none
        else some (.nil, [])
      | _ => none
    else refLeafAll P cfg nest tag g d h (.ptr (.struct sub)) v
  | t, v => if !h.exported then some (v, []) else refLeafAll P cfg nest tag g d h t v
def refFsAll (g : Getter) (d : Nat) : List Fld → List Val → Option (List Val × List Err)
  | [], _ => some ([], [])
  | (h, t) :: fs, v :: vs =>
    match refFldAll g d h t v with
    | none => none
    | some (v', es) => match refFsAll g d fs vs with
      | none => none
      | some (vs', es') => some (v' :: vs', es ++ es')
  | _ :: _, [] => none
end

def refOutAll (pre : List Val) : Option (List Val × List Err) → OutAll
  | some (ws, es) => .done (.struct (pre ++ ws)) es
  | none => .panic

def fldOutAll (vs : List Val) (i : Nat) : Option (Val × List Err) → OutAll
  | some (v', es) => .done (.struct (vs.set i v')) es
  | none => .panic

/-- a field that is not an embedded struct: one iteration on the field's own value -/
theorem lemma_loopAll_leaf (sty : List Fld) (g : Getter) (d i : Nat) (h : FieldHdr) (t : Ty) (vs : List Val) (v : Val)
    (hs : sty[i]? = some (h, t)) (hv : vs[i]? = some v) :
    loopAllWith P cfg nest sty ((mkInfo P tag [i] h t).toList) (.struct vs) g d =
      fldOutAll vs i (refLeafAll P cfg nest tag g d h t v) := by
  rw [lemma_mkInfo_idx P tag [i] h t]
  unfold refLeafAll
  cases hm : mkInfo P tag [] h t with
  | none => simp [loopAllWith, fldOutAll, lemma_set_self vs i v hv]
  | some f =>
    simp only [Option.map_some, Option.toList_some, loopAllWith, lemma_reach_one, hv]
    have hw : wants g { f with index := [i] } = wants g f := rfl
    rw [hw]
    by_cases hwf : wants g f = true
    · simp only [hwf, Bool.not_true, Bool.false_eq_true, if_false]
      rw [lemma_updAt_one sty vs i h t v id hs hv]
      simp only [id, lemma_set_self vs i v hv, lemma_reach_one, hv]
      have ha : fieldActionAll P cfg nest g d { f with index := [i] } v = fieldActionAll P cfg nest g d f v := rfl
      rw [ha]
      cases fieldActionAll P cfg nest g d f v with
      | store nv es => simp [lemma_updAt_one sty vs i h t v _ hs hv, loopAllWith, fldOutAll, OutAll.prepend]
      | skip es => simp [loopAllWith, fldOutAll, OutAll.prepend, lemma_set_self vs i v hv]
      | panic => simp [fldOutAll]
    · have hwf' : wants g f = false := by simpa using hwf
      simp [hwf', fldOutAll, loopAllWith, lemma_set_self vs i v hv]


mutual
/-- the loop over what `parseStructType` produced for field `i` acts on the value of field `i`
    exactly as the structural binder does -/
theorem lemma_loopAll_fld (g : Getter) (d : Nat) :
    ∀ (t : Ty) (sty : List Fld) (h : FieldHdr) (i : Nat) (vs : List Val) (v : Val),
      sty[i]? = some (h, t) → vs[i]? = some v → wt t v = true →
      loopAllWith P cfg nest sty (flattenFld P tag [] i h t) (.struct vs) g d =
        fldOutAll vs i (refFldAll P cfg nest tag g d h t v)
  | .struct sub, sty, h, i, vs, v, hs, hv, hw => by
    unfold flattenFld refFldAll
    by_cases hex : h.exported = true
    · simp only [hex, Bool.not_true, Bool.false_eq_true, if_false]
      by_cases han : h.anon = true
      · simp only [han, if_true]
        cases v with
        | struct cs =>
          have hwc : wts sub cs = true := by simpa [wt] using hw
          have hval := lemma_flatten_valid P tag sub cs hwc
          simp only [List.nil_append]
          rw [lemma_flatten_embedded P tag i sub,
            lemma_liftAll_struct P cfg nest sty i h sub g d hs (flatten P tag sub) vs cs (fun f hf => (hval f hf).1) hv]
          have ih := lemma_loopAll_fs g d sub sub 0 cs (lemma_wts_length sub cs hwc) (by simp) (by simpa using hwc)
          simp only [flatten, List.take_zero, List.drop_zero] at ih ⊢
          rw [ih]
          cases refFsAll P cfg nest tag g d sub cs with
          | some r => obtain ⟨cs', es⟩ := r; simp [refOutAll, liftOutAll, fldOutAll]
          | none => simp [refOutAll, liftOutAll, fldOutAll]
        | _ => simp [wt] at hw
      · have han' : h.anon = false := by simpa using han
        simp only [han', Bool.false_eq_true, if_false, List.nil_append]
        exact lemma_loopAll_leaf P cfg nest tag sty g d i h _ vs v hs hv
    · have hex' : h.exported = false := by simpa using hex
      simp [hex', loopAllWith, fldOutAll, lemma_set_self vs i v hv]
  | .ptr (.struct sub), sty, h, i, vs, v, hs, hv, hw => by
    unfold flattenFld refFldAll
    by_cases hex : h.exported = true
    · simp only [hex, Bool.not_true, Bool.false_eq_true, if_false]
      by_cases han : h.anon = true
      · simp only [han, if_true, List.nil_append]
        rw [lemma_flatten_embedded P tag i sub]
        cases v with
        | ptr y =>
          cases y with
          | struct cs =>
            have hwc : wts sub cs = true := by simpa [wt] using hw
            have hval := lemma_flatten_valid P tag sub cs hwc
            rw [lemma_liftAll_ptr P cfg nest sty i h sub g d hs (flatten P tag sub) vs cs (fun f hf => (hval f hf).1) hv]
            have ih := lemma_loopAll_fs g d sub sub 0 cs (lemma_wts_length sub cs hwc) (by simp) (by simpa using hwc)
            simp only [flatten, List.take_zero, List.drop_zero] at ih ⊢
            rw [ih]
            cases refFsAll P cfg nest tag g d sub cs with
            | some r => obtain ⟨cs', es⟩ := r; simp [refOutAll, liftOutAll, fldOutAll]
            | none => simp [refOutAll, liftOutAll, fldOutAll]
          | _ => simp [wt] at hw
        | nil =>
          have hwz : wts sub (zeroFs sub) = true := lemma_wts_zero sub
          have hval := lemma_flatten_valid P tag sub (zeroFs sub) hwz
          rw [lemma_liftAll_nil P cfg nest sty i h sub g d hs (flatten P tag sub) vs
            (fun f hf => by rw [lemma_zero_struct]; exact hval f hf) hv]
          by_cases hany : (flatten P tag sub).any (wants g) = true
          · simp only [hany, if_true]
            have hv0 : (vs.set i (Val.ptr (zero (.struct sub))))[i]? = some (.ptr (.struct (zeroFs sub))) := by
              rw [lemma_get_set vs i _ _ hv, lemma_zero_struct]
            rw [lemma_liftAll_ptr P cfg nest sty i h sub g d hs (flatten P tag sub) _ (zeroFs sub)
              (fun f hf => (hval f hf).1) hv0]
            have ih := lemma_loopAll_fs g d sub sub 0 (zeroFs sub) (lemma_wts_length sub _ hwz) (by simp) (by simpa using hwz)
            simp only [flatten, List.take_zero, List.drop_zero] at ih ⊢
            rw [ih]
            cases refFsAll P cfg nest tag g d sub (zeroFs sub) with
            | some r => obtain ⟨cs', es⟩ := r; simp [refOutAll, liftOutAll, fldOutAll, List.set_set]
            | none => simp [refOutAll, liftOutAll, fldOutAll]
          · have hany' : (flatten P tag sub).any (wants g) = false := by simpa using hany
            simp [hany', fldOutAll, lemma_set_self vs i _ hv]
        | _ => simp [wt] at hw
      · have han' : h.anon = false := by simpa using han
        simp only [han', Bool.false_eq_true, if_false, List.nil_append]
        exact lemma_loopAll_leaf P cfg nest tag sty g d i h _ vs v hs hv
    · have hex' : h.exported = false := by simpa using hex
      simp [hex', loopAllWith, fldOutAll, lemma_set_self vs i v hv]
  | .prim p, sty, h, i, vs, v, hs, hv, hw => by
    simp only [flattenFld, refFldAll]
    by_cases hex : h.exported = true
    · simp only [hex, Bool.not_true, Bool.false_eq_true, if_false, List.nil_append]
      exact lemma_loopAll_leaf P cfg nest tag sty g d i h _ vs v hs hv
    · have hex' : h.exported = false := by simpa using hex
      simp [hex', loopAllWith, fldOutAll, lemma_set_self vs i v hv]
  | .slice e, sty, h, i, vs, v, hs, hv, hw => by
    simp only [flattenFld, refFldAll]
    by_cases hex : h.exported = true
    · simp only [hex, Bool.not_true, Bool.false_eq_true, if_false, List.nil_append]
      exact lemma_loopAll_leaf P cfg nest tag sty g d i h _ vs v hs hv
    · have hex' : h.exported = false := by simpa using hex
      simp [hex', loopAllWith, fldOutAll, lemma_set_self vs i v hv]
  | .map e, sty, h, i, vs, v, hs, hv, hw => by
    simp only [flattenFld, refFldAll]
    by_cases hex : h.exported = true
    · simp only [hex, Bool.not_true, Bool.false_eq_true, if_false, List.nil_append]
      exact lemma_loopAll_leaf P cfg nest tag sty g d i h _ vs v hs hv
    · have hex' : h.exported = false := by simpa using hex
      simp [hex', loopAllWith, fldOutAll, lemma_set_self vs i v hv]
  | .ptr (.prim p), sty, h, i, vs, v, hs, hv, hw => by
    simp only [flattenFld, refFldAll]
    by_cases hex : h.exported = true
    · simp only [hex, Bool.not_true, Bool.false_eq_true, if_false, List.nil_append]
      exact lemma_loopAll_leaf P cfg nest tag sty g d i h _ vs v hs hv
    · have hex' : h.exported = false := by simpa using hex
      simp [hex', loopAllWith, fldOutAll, lemma_set_self vs i v hv]
  | .ptr (.ptr e), sty, h, i, vs, v, hs, hv, hw => by
    simp only [flattenFld, refFldAll]
    by_cases hex : h.exported = true
    · simp only [hex, Bool.not_true, Bool.false_eq_true, if_false, List.nil_append]
      exact lemma_loopAll_leaf P cfg nest tag sty g d i h _ vs v hs hv
    · have hex' : h.exported = false := by simpa using hex
      simp [hex', loopAllWith, fldOutAll, lemma_set_self vs i v hv]
  | .ptr (.slice e), sty, h, i, vs, v, hs, hv, hw => by
    simp only [flattenFld, refFldAll]
    by_cases hex : h.exported = true
    · simp only [hex, Bool.not_true, Bool.false_eq_true, if_false, List.nil_append]
      exact lemma_loopAll_leaf P cfg nest tag sty g d i h _ vs v hs hv
    · have hex' : h.exported = false := by simpa using hex
      simp [hex', loopAllWith, fldOutAll, lemma_set_self vs i v hv]
  | .ptr (.map e), sty, h, i, vs, v, hs, hv, hw => by
    simp only [flattenFld, refFldAll]
    by_cases hex : h.exported = true
    · simp only [hex, Bool.not_true, Bool.false_eq_true, if_false, List.nil_append]
      exact lemma_loopAll_leaf P cfg nest tag sty g d i h _ vs v hs hv
    · have hex' : h.exported = false := by simpa using hex
      simp [hex', loopAllWith, fldOutAll, lemma_set_self vs i v hv]
/-- the loop over the cached table of the fields from position `i` on -/
theorem lemma_loopAll_fs (g : Getter) (d : Nat) :
    ∀ (fs sty : List Fld) (i : Nat) (vs : List Val),
      sty.length = vs.length → sty.drop i = fs → wts fs (vs.drop i) = true →
      loopAllWith P cfg nest sty (flattenFs P tag [] i fs) (.struct vs) g d =
        refOutAll (vs.take i) (refFsAll P cfg nest tag g d fs (vs.drop i))
  | [], sty, i, vs, hlen, hd, hw => by
    have : vs.length ≤ i := by
      have : sty.length ≤ i := by
        cases hlt : decide (sty.length ≤ i) with
        | true => simpa using hlt
        | false =>
          have : i < sty.length := by simpa using hlt
          have : (sty.drop i).length = sty.length - i := List.length_drop
          rw [hd] at this
          simp at this; omega
      omega
    simp [flattenFs, loopAllWith, refFsAll, refOutAll, List.take_of_length_le this]
  | (h, t) :: rest, sty, i, vs, hlen, hd, hw => by
    have hsi : sty[i]? = some (h, t) := by
      have := congrArg (fun l => l[0]?) hd
      simpa using this
    have hd' : sty.drop (i+1) = rest := by
      have := congrArg List.tail hd
      simpa [List.tail_drop] using this
    cases hvd : vs.drop i with
    | nil => rw [hvd] at hw; simp [wts] at hw
    | cons v vrest =>
      rw [hvd] at hw
      simp only [wts, Bool.and_eq_true] at hw
      have hvi : vs[i]? = some v := by
        have := congrArg (fun l => l[0]?) hvd
        simpa using this
      have hvr : vs.drop (i+1) = vrest := by
        have := congrArg List.tail hvd
        simpa [List.tail_drop] using this
      simp only [flattenFs, refFsAll]
      rw [lemma_loopAll_append, lemma_loopAll_fld g d t sty h i vs v hsi hvi hw.1]
      cases hr : refFldAll P cfg nest tag g d h t v with
      | none => simp [fldOutAll, refOutAll]
      | some r =>
        obtain ⟨v', es⟩ := r
        simp only [fldOutAll]
        have hlen' : sty.length = (vs.set i v').length := by simp [hlen]
        have hdrop : (vs.set i v').drop (i+1) = vrest := by
          rw [List.drop_set_of_lt (by omega)]; exact hvr
        rw [lemma_loopAll_fs g d rest sty (i+1) (vs.set i v') hlen' hd' (by rw [hdrop]; exact hw.2), hdrop]
        have hlt : i < vs.length := by
          cases hlt : decide (i < vs.length) with
          | true => simpa using hlt
          | false =>
            have : vs.length ≤ i := by simpa using hlt
            simp [List.getElem?_eq_none this] at hvi
        have htake : (vs.set i v').take (i+1) = vs.take i ++ [v'] := by
          rw [List.take_add_one]
          simp [List.take_set_of_le, hlt]
        cases refFsAll P cfg nest tag g d rest vrest with
        | some r => obtain ⟨ws, es'⟩ := r; simp [refOutAll, htake, OutAll.prepend]
        | none => simp [refOutAll, OutAll.prepend]
end

/-- **the bind loop is the structural binder.** For every struct type, every well-typed
    destination, every getter and every treatment `nest` of nested structs, looping over the cached
    index paths of `parseStructType` computes exactly what the field-by-field recursion computes. -/
theorem lemma_loopAll_eq_ref (g : Getter) (d : Nat) (sty : List Fld) (vs : List Val) (hw : wts sty vs = true) :
    loopAllWith P cfg nest sty (flatten P tag sty) (.struct vs) g d =
      refOutAll [] (refFsAll P cfg nest tag g d sty vs) := by
  have := lemma_loopAll_fs P cfg nest tag g d sty sty 0 vs (lemma_wts_length sty vs hw) (by simp) (by simpa using hw)
  simpa [flatten] using this


end Rivaas.Bind
