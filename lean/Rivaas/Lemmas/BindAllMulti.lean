import Rivaas.Lemmas.BindAllTyped
import Rivaas.Lemmas.BindMultiSound
/-
C04 — `WithAllErrors` from several sources: bindMultiSource in collecting mode is a run over the oracle's phases
(`lemma_bindMultiAll_phases`), every phase starts from a well-typed value (`lemma_bindAll_typed`), and every error a
phase reports is one the oracle admits for that phase (`lemma_runAll`).
-/
set_option linter.unusedSimpArgs false
set_option linter.unusedVariables false
namespace Rivaas.Bind
open Spec

/-- every error of a collecting bind is one of `Spec.causes` -/
theorem lemma_bindAll_errs (P : Params) (hP : FloatSane P) (cfg : Cfg) (tag : Tag) (fs : List Fld) (ivs : List Val)
    (src : Src) (hw : wts fs ivs = true) (hg : inGrammarFs fs = true) (hs : srcOK src = true) :
    match bindAll P cfg tag (.struct fs) (.struct ivs) src with
    | .done _ es => ∀ e ∈ es, e ∈ causes P cfg tag fs (.struct ivs) src
    | .panic => False := by
  have hsp := lemma_bindAtAll_spec P cfg tag hP cfg.maxDepth 0 (by omega) fs ivs { src := src } hw hg hs
  simp only [bindAll]
  cases hr : bindAtAll P cfg tag cfg.maxDepth fs (.struct ivs) { src := src } 0 with
  | panic => rw [hr] at hsp; exact hsp
  | done v es =>
    rw [hr] at hsp
    intro e he
    have h := hsp.1 e he
    simp only [causes, List.mem_append, List.mem_flatMap, List.mem_map,
      List.mem_filter, leavesOf, nodesOf, List.mem_filterMap, items]
    rcases h with ⟨l, hl, c, hc, hh⟩ | ⟨n, hn, hd, he'⟩
    · left
      refine ⟨l, ⟨.leaf l, hl, rfl⟩, c, ?_, hc.symm⟩
      rw [lemma_keyed_top] at hh
      rcases hh with h | ⟨h1, h2⟩
      · exact Or.inl h
      · right
        simp only [h1, if_true, List.mem_cons, List.mem_nil_iff, or_false]
        exact h2
    · right
      exact ⟨n, ⟨⟨.node n, hn, rfl⟩, by simpa using hd⟩, he'.symm⟩

/-- the collecting binds of a multi-source bind, phase by phase -/
def runPhasesAll (P : Params) (cfg : Cfg) (fs : List Fld) : List Phase → Val → OutAll
  | [], cur => .done cur []
  | ph :: rest, cur =>
    match bindAll P cfg ph.src.kind (.struct (phaseFs fs ph)) cur ph.src with
    | .done v es => (runPhasesAll P cfg fs rest v).prepend es
    | .panic => .panic

theorem lemma_runPhasesAll_append (P : Params) (cfg : Cfg) (fs : List Fld) : ∀ (a b : List Phase) (cur : Val),
    runPhasesAll P cfg fs (a ++ b) cur = match runPhasesAll P cfg fs a cur with
      | .done v es => (runPhasesAll P cfg fs b v).prepend es
      | .panic => .panic
  | [], b, cur => by simp [runPhasesAll, lemma_agree_prepend_nil]
  | ph :: a, b, cur => by
    simp only [List.cons_append, runPhasesAll]
    cases bindAll P cfg ph.src.kind (.struct (phaseFs fs ph)) cur ph.src with
    | panic => rfl
    | done v es =>
      simp only
      rw [lemma_runPhasesAll_append P cfg fs a b v]
      cases runPhasesAll P cfg fs a v with
      | panic => rfl
      | done v' es' => exact lemma_prepend_prepend _ _ _

theorem lemma_bindPassAll_phases (P : Params) (cfg : Cfg) (fs fs' : List Fld) (mk : Src → Phase)
    (hk : ∀ s, (mk s).src.kind = s.kind) (hfs : ∀ s, phaseFs fs (mk s) = fs') :
    ∀ (srcs : List Src) (cur : Val) (f : Src → Src) (hf : ∀ s, (f s).kind = s.kind) (hm : ∀ s, (mk s).src = f s),
      bindPassAll P cfg fs (fun _ => .struct fs') (srcs.map f) cur =
        runPhasesAll P cfg fs ((srcs.filter (fun s => mentionsFs s.kind fs)).map mk) cur
  | [], cur, f, _, _ => rfl
  | s :: rest, cur, f, hf, hm => by
    simp only [List.map_cons, bindPassAll, hf, lemma_hasTag_fs, List.filter_cons]
    by_cases ht : mentionsFs s.kind fs = true
    · simp only [ht, if_true, List.map_cons, runPhasesAll, hfs, hm]
      simp only [hf]
      cases bindAll P cfg s.kind (.struct fs') cur (f s) with
      | done v es => simp only; rw [lemma_bindPassAll_phases P cfg fs fs' mk hk hfs rest v f hf hm]
      | panic => rfl
    · have ht' : mentionsFs s.kind fs = false := by simpa using ht
      simp only [ht', Bool.false_eq_true, if_false]
      exact lemma_bindPassAll_phases P cfg fs fs' mk hk hfs rest cur f hf hm

theorem lemma_bindMultiAll_phases (P : Params) (cfg : Cfg) (fs : List Fld) (init : Val) (srcs : List Src) :
    bindMultiAll P cfg fs init srcs =
      if srcs.isEmpty then .done init [.conv] else runPhasesAll P cfg fs (phasesOf fs srcs) init := by
  unfold bindMultiAll phasesOf
  by_cases he : srcs.isEmpty = true
  · simp [he]
  · simp only [he, Bool.false_eq_true, if_false]
    by_cases h1 : (srcs.length == 1) = true
    · simp only [h1, if_true]
      have := lemma_bindPassAll_phases P cfg fs fs (fun s => { src := s, defaultsOnly := false, noDefaults := false })
        (fun _ => rfl) (fun _ => by simp [phaseFs]) srcs init id (fun _ => rfl) (fun _ => rfl)
      simpa using this
    · simp only [h1, Bool.false_eq_true, if_false]
      have hA := lemma_bindPassAll_phases P cfg fs fs
        (fun s => { src := { s with kvs := [] }, defaultsOnly := true, noDefaults := false })
        (fun _ => rfl) (fun _ => by simp [phaseFs]) srcs init (fun s => { s with kvs := [] }) (fun _ => rfl) (fun _ => rfl)
      have hB := fun cur => lemma_bindPassAll_phases P cfg fs (stripFs fs)
        (fun s => { src := s, defaultsOnly := false, noDefaults := true })
        (fun _ => rfl) (fun _ => by simp [phaseFs]) srcs cur id (fun _ => rfl) (fun _ => rfl)
      rw [lemma_runPhasesAll_append, hA]
      cases runPhasesAll P cfg fs (List.map (fun s => ({ src := { s with kvs := [] }, defaultsOnly := true, noDefaults := false } : Phase))
          (List.filter (fun s => mentionsFs s.kind fs) srcs)) init with
      | done v es =>
        have := hB v
        simp only [List.map_id] at this
        simp only [this]
      | panic => rfl

/-- every phase of a collecting run starts from a well-typed value and reports only errors its oracle admits -/
theorem lemma_runAll (P : Params) (hP : FloatSane P) (cfg : Cfg) (fs : List Fld) (hg : inGrammarFs fs = true) :
    ∀ (phs : List Phase), (∀ ph ∈ phs, srcOK ph.src = true) → ∀ ivs : List Val, wts fs ivs = true →
    match runPhasesAll P cfg fs phs (.struct ivs) with
    | .done v es => (∃ rvs, v = .struct rvs ∧ wts fs rvs = true) ∧ ∀ e ∈ es, ∃ ph ∈ phs, PhaseErr P cfg fs ph e
    | .panic => False
  | [], _, ivs, hw => by simp [runPhasesAll, hw]
  | ph :: rest, hs, ivs, hw => by
    have hw' : wts (phaseFs fs ph) ivs = true := by
      unfold phaseFs; split
      · rw [lemma_strip_wts']; exact hw
      · exact hw
    have hg' : inGrammarFs (phaseFs fs ph) = true := by
      unfold phaseFs; split
      · rw [lemma_strip_grammarFs']; exact hg
      · exact hg
    have hb := lemma_bindAll_errs P hP cfg ph.src.kind (phaseFs fs ph) ivs ph.src hw' hg' (hs ph (by simp))
    simp only [runPhasesAll]
    cases hr : bindAll P cfg ph.src.kind (.struct (phaseFs fs ph)) (.struct ivs) ph.src with
    | panic => rw [hr] at hb; exact hb
    | done v es =>
      rw [hr] at hb
      obtain ⟨rvs, hv, hwr⟩ := lemma_bindAll_typed P cfg ph.src.kind (phaseFs fs ph) ivs ph.src v es hw' hg' hr
      subst hv
      have hwr' : wts fs rvs = true := by
        unfold phaseFs at hwr; split at hwr
        · rw [lemma_strip_wts'] at hwr; exact hwr
        · exact hwr
      have ih := lemma_runAll P hP cfg fs hg rest (fun p hp => hs p (by simp [hp])) rvs hwr'
      simp only
      cases hrr : runPhasesAll P cfg fs rest (.struct rvs) with
      | panic => rw [hrr] at ih; exact ih
      | done v2 es2 =>
        rw [hrr] at ih
        simp only [OutAll.prepend]
        refine ⟨ih.1, ?_⟩
        intro e he
        rcases List.mem_append.1 he with he | he
        · exact ⟨ph, by simp, ⟨ivs, hb e he⟩⟩
        · obtain ⟨p, hp, hpe⟩ := ih.2 e he
          exact ⟨p, by simp [hp], hpe⟩

end Rivaas.Bind
