import Rivaas.Model.Bind
import Rivaas.Spec.Bind
import Rivaas.Lemmas.BindVal
/-
C04: the model's conversion (`convPrim`, with the range checks of the repaired code) against the
oracle's reading of "converted value" (`Spec.denote`).
-/
set_option linter.unusedSimpArgs false
set_option linter.unusedVariables false
namespace Rivaas.Bind

/-- the shipped float facts are consistent: a finite value whose float32 conversion is infinite
    lies above MaxFloat32 (checked by the driver on every table entry) -/
def FloatSane (P : Params) : Prop :=
  ∀ s b64 b32 above inf32, (P s).f = some (b64, b32, above, inf32) → inf32 = true → above = true

/-- **K04b, repaired code.** An integer conversion that succeeds yields exactly the parsed number,
    and that number fits the field's width. -/
theorem convert_no_truncation_int (P : Params) (cfg : Cfg) (w : Nat) (s : Bytes) (v : Val)
    (h : convPrim P cfg (.int w) s = some v) :
    ∃ i, (if cfg.baseAuto then (P s).i0 else (P s).i10) = some i ∧ v = .int i ∧ Spec.fitsInt w i := by
  unfold convPrim at h
  simp only at h
  split at h
  · rename_i i hi
    split at h
    · rename_i hr
      refine ⟨i, hi, by simpa using h.symm, ?_⟩
      simpa [inRangeInt, Spec.fitsInt] using hr
    · simp at h
  · simp at h

theorem convert_no_truncation_uint (P : Params) (cfg : Cfg) (w : Nat) (s : Bytes) (v : Val)
    (h : convPrim P cfg (.uint w) s = some v) :
    ∃ n, (if cfg.baseAuto then (P s).u0 else (P s).u10) = some n ∧ v = .uint n ∧ Spec.fitsUint w n := by
  unfold convPrim at h
  simp only at h
  split at h
  · rename_i n hn
    split at h
    · rename_i hr
      refine ⟨n, hn, by simpa using h.symm, ?_⟩
      simpa [inRangeUint, Spec.fitsUint] using hr
    · simp at h
  · simp at h

/-- a float32 conversion that succeeds is the float32 rounding of a value within ±MaxFloat32 — in
    particular a finite value never becomes an infinity -/
theorem convert_no_infinity (P : Params) (hP : FloatSane P) (cfg : Cfg) (s : Bytes) (v : Val)
    (h : convPrim P cfg .f32 s = some v) :
    ∃ b64 b32, (P s).f = some (b64, b32, false, false) ∧ v = .flt b32 := by
  unfold convPrim at h
  simp only at h
  split at h
  · rename_i b64 b32 above inf32 hf
    split at h
    · simp at h
    · rename_i ha
      have ha' : above = false := by simpa using ha
      have hi : inf32 = false := by
        cases hinf : inf32 with
        | false => rfl
        | true => have := hP s _ _ _ _ hf hinf; simp [ha'] at this
      exact ⟨b64, b32, by rw [hf, ha', hi], by simpa using h.symm⟩
  · simp at h

/-- the model's conversion meets the oracle's reading of "converted value" for every leaf kind:
    success yields the denoted value, refusal happens only where the oracle admits an error -/
theorem conv_meets_denote (P : Params) (hP : FloatSane P) (cfg : Cfg) (p : Prim) (s : Bytes) :
    (∀ v, convPrim P cfg p s = some v → (Spec.denote P cfg p s).val = some v) ∧
    (convPrim P cfg p s = none → (Spec.denote P cfg p s).refusable = true) := by
  cases p with
  | str => simp [convPrim, Spec.denote, Spec.Den.of]
  | int w =>
    simp only [convPrim, Spec.denote, Spec.Den.of]
    cases (if cfg.baseAuto then (P s).i0 else (P s).i10) with
    | none => simp
    | some i =>
      have hd : inRangeInt w i = decide (Spec.fitsInt w i) := by
        by_cases h1 : -(2 ^ (bitsOf w - 1) : Int) ≤ i <;> by_cases h2 : i < (2 ^ (bitsOf w - 1) : Int) <;>
          simp [inRangeInt, Spec.fitsInt, h1, h2]
      by_cases hr : Spec.fitsInt w i <;> simp [hr, hd]
  | uint w =>
    simp only [convPrim, Spec.denote, Spec.Den.of]
    cases (if cfg.baseAuto then (P s).u0 else (P s).u10) with
    | none => simp
    | some n =>
      by_cases hr : Spec.fitsUint w n
      · have : inRangeUint w n = true := by simpa [inRangeUint, Spec.fitsUint] using hr
        simp [hr, this]
      · have : inRangeUint w n = false := by simpa [inRangeUint, Spec.fitsUint] using hr
        simp [hr, this]
  | f64 =>
    simp only [convPrim, Spec.denote, Spec.Den.of]
    cases hf : (P s).f with
    | none => simp
    | some x => obtain ⟨a, b, c, d⟩ := x; simp
  | f32 =>
    simp only [convPrim, Spec.denote, Spec.Den.of]
    cases hf : (P s).f with
    | none => simp
    | some x =>
      obtain ⟨a, b, above, inf32⟩ := x
      cases ha : above <;> cases hi : inf32
      · simp
      · have := hP s a b above inf32 hf hi; simp [ha] at this
      · simp
      · simp
  | bool =>
    simp only [convPrim, Spec.denote, Spec.Den.of, parseBool, Spec.boolWord, trueWords, falseWords]
    by_cases h1 : (trimSpace s).map lowerB ∈ [B "true", B "1", B "yes", B "on", B "t", B "y"]
    · have : ([B "true", B "1", B "yes", B "on", B "t", B "y"].contains ((trimSpace s).map lowerB)) = true := by
        simpa using h1
      simp [h1, this]
    · have h1' : ([B "true", B "1", B "yes", B "on", B "t", B "y"].contains ((trimSpace s).map lowerB)) = false := by
        simpa using h1
      by_cases h2 : (trimSpace s).map lowerB ∈ [B "false", B "0", B "no", B "off", B "f", B "n", B ""]
      · have : ([B "false", B "0", B "no", B "off", B "f", B "n", B ""].contains ((trimSpace s).map lowerB)) = true := by
          simpa using h2
        simp [h1, h2]
      · have : ([B "false", B "0", B "no", B "off", B "f", B "n", B ""].contains ((trimSpace s).map lowerB)) = false := by
          simpa using h2
        simp [h1, h2]
  | time =>
    simp only [convPrim, Spec.denote, Spec.Den.of]
    cases cfg.convs.lookup timeKey with
    | some c => simp only []; cases (P s).c.lookup c <;> simp
    | none => simp only []; cases (P s).t <;> simp
  | dur =>
    simp only [convPrim, Spec.denote, Spec.Den.of]
    cases (P s).d <;> simp
  | opq k =>
    simp only [convPrim, Spec.denote, Spec.Den.of]
    cases cfg.convs.lookup k with
    | some c => simp only []; cases (P s).c.lookup c <;> simp
    | none => simp only []; cases (P s).o.lookup k <;> simp


end Rivaas.Bind
