import Rivaas.Model.Radix
import Rivaas.Spec.MatchClass
/-
Layer L1a of C01 (DESIGN.md §3): what the node map of a method tree contains after a sequence of
registrations, stated per access path ("the node reached by the edge labels `k`").
-/
namespace Rivaas.RadixL
open Rivaas.Route Rivaas.Radix Rivaas.Match

/-! ### the node map as a function of the key -/

theorem lookupK_setK (k k' : Key) (f : NodeRec → NodeRec) (ns : Nodes) :
    lookupK k (setK k' f ns) = if k = k' then some (f (getK ns k')) else lookupK k ns := by
  induction ns with
  | nil =>
    by_cases h : k = k'
    · subst h; simp [setK, lookupK, getK]
    · have h' : ¬ k' = k := fun e => h e.symm
      simp [setK, lookupK, h, h']
  | cons a rest ih =>
    obtain ⟨ka, ra⟩ := a
    by_cases hk : ka = k'
    · subst hk
      by_cases h : k = ka
      · subst h; simp [setK, lookupK, getK]
      · have h' : ¬ ka = k := fun e => h e.symm
        simp [setK, lookupK, h, h']
    · by_cases h : k = k'
      · subst h
        have hk' : ¬ ka = k := hk
        simp [setK, lookupK, hk, getK, ih]
      · simp only [setK, hk, if_false, lookupK, ih, h]

theorem getK_setK (k k' : Key) (f : NodeRec → NodeRec) (ns : Nodes) :
    getK (setK k' f ns) k = if k = k' then f (getK ns k') else getK ns k := by
  unfold getK
  rw [lookupK_setK]
  by_cases h : k = k' <;> simp [h, getK]

theorem hasK_setK (k k' : Key) (f : NodeRec → NodeRec) (ns : Nodes) :
    hasK (setK k' f ns) k = (decide (k = k') || hasK ns k) := by
  unfold hasK
  rw [lookupK_setK]
  by_cases h : k = k' <;> simp [h]

end Rivaas.RadixL

namespace Rivaas.RadixL
open Rivaas.Route Rivaas.Radix Rivaas.Match

/-! ### patterns as edge-label sequences -/

def ekey : PSeg → Option ESeg
  | .lit s => some (.s s)
  | .par _ => some .p
  | .wild => none

/-- the access path of the node a pattern ends at (a trailing `*` hangs on that node) -/
def ekeys (pat : Pat) : Key := pat.filterMap ekey

def endsWild (pat : Pat) : Bool := pat.getLast? = some PSeg.wild

/-- segment texts the model's registration sees for a pattern without wildcard -/
def segTexts (pat : Pat) : List Bytes := pat.map renderSeg

/-- a literal the tree registration classifies as static: non-empty, not starting with `:` -/
def litOK : PSeg → Bool
  | .lit s => s ≠ [] && s.head? ≠ some ':'
  | .par _ => true
  | .wild => false

/-- the parameter name a pattern contributes at the node with key `k` (walking from `cur`) -/
def nameAt : Pat → Key → Key → Option Bytes
  | [], _, _ => none
  | .par n :: rest, cur, k => if k = cur then some n else nameAt rest (cur ++ [ESeg.p]) k
  | .lit s :: rest, cur, k => nameAt rest (cur ++ [ESeg.s s]) k
  | .wild :: _, _, _ => none

/-- `k` is one of the nodes strictly below `cur` on the pattern's path -/
def onPath : Pat → Key → Key → Bool
  | [], _, _ => false
  | .par _ :: rest, cur, k => k = cur ++ [ESeg.p] || onPath rest (cur ++ [ESeg.p]) k
  | .lit s :: rest, cur, k => k = cur ++ [ESeg.s s] || onPath rest (cur ++ [ESeg.s s]) k
  | .wild :: _, _, _ => false

theorem nameAt_short (pat : Pat) (cur k : Key) (h : k.length < cur.length) : nameAt pat cur k = none := by
  induction pat generalizing cur with
  | nil => rfl
  | cons a rest ih =>
    cases a with
    | lit s => simp only [nameAt]; exact ih _ (by simp; omega)
    | par n =>
      simp only [nameAt]
      have hne : k ≠ cur := by intro e; subst e; omega
      simp only [hne, if_false]
      exact ih _ (by simp; omega)
    | wild => rfl

theorem onPath_short (pat : Pat) (cur k : Key) (h : k.length ≤ cur.length) : onPath pat cur k = false := by
  induction pat generalizing cur with
  | nil => rfl
  | cons a rest ih =>
    cases a with
    | lit s =>
      simp only [onPath, Bool.or_eq_false_iff, decide_eq_false_iff_not]
      refine ⟨?_, ih _ (by simp; omega)⟩
      intro e; subst e; simp at h; omega
    | par n =>
      simp only [onPath, Bool.or_eq_false_iff, decide_eq_false_iff_not]
      refine ⟨?_, ih _ (by simp; omega)⟩
      intro e; subst e; simp at h; omega
    | wild => rfl

def pnameUpd (name : Bytes) (r : NodeRec) : NodeRec := if r.pname.isNone then { r with pname := some name } else r

theorem childFor_lit (ns : Nodes) (cur : Key) (s : Bytes) (h : litOK (.lit s) = true) :
    childFor ns cur s = (setK (cur ++ [ESeg.s s]) id ns, cur ++ [ESeg.s s]) := by
  simp only [litOK, Bool.and_eq_true, decide_eq_true_eq] at h
  cases s with
  | nil => exact absurd rfl h.1
  | cons c cs =>
    unfold childFor
    split
    · rename_i name heq
      injection heq with h1 h2
      subst h1
      simp at h
    · rfl

theorem childFor_par (ns : Nodes) (cur : Key) (n : Bytes) :
    childFor ns cur (':' :: n) = (setK (cur ++ [ESeg.p]) id (setK cur (pnameUpd n) ns), cur ++ [ESeg.p]) := by
  rfl

/-- what `descendPrefix` leaves behind: the end key, which nodes exist, and the records -/
theorem descend_char (pre : Pat) (hpre : pre.all litOK = true) (ns : Nodes) (cur : Key) :
    (descendPrefix ns cur (segTexts pre)).2 = cur ++ ekeys pre ∧
    ∀ k, ((k ≠ cur ∨ hasK ns cur = true) →
            hasK (descendPrefix ns cur (segTexts pre)).1 k = (hasK ns k || onPath pre cur k)) ∧
         getK (descendPrefix ns cur (segTexts pre)).1 k =
           { getK ns k with pname := (getK ns k).pname <|> nameAt pre cur k } := by
  induction pre generalizing ns cur with
  | nil =>
    refine ⟨by simp [segTexts, descendPrefix, ekeys], ?_⟩
    intro k
    simp [segTexts, descendPrefix, onPath, nameAt]
  | cons a rest ih =>
    simp only [List.all_cons, Bool.and_eq_true] at hpre
    obtain ⟨ha, hrest⟩ := hpre
    cases a with
    | wild => simp [litOK] at ha
    | lit s =>
      have hs : s ≠ [] := by
        simp only [litOK, Bool.and_eq_true, decide_eq_true_eq] at ha; exact ha.1
      have hstep : descendPrefix ns cur (segTexts (PSeg.lit s :: rest)) =
          descendPrefix (setK (cur ++ [ESeg.s s]) id ns) (cur ++ [ESeg.s s]) (segTexts rest) := by
        simp only [segTexts, List.map_cons, renderSeg, descendPrefix, hs, if_false]
        rw [childFor_lit ns cur s ha]
      rw [hstep]
      obtain ⟨h1, h2⟩ := ih hrest (setK (cur ++ [ESeg.s s]) id ns) (cur ++ [ESeg.s s])
      refine ⟨by rw [h1]; simp [ekeys, ekey], ?_⟩
      intro k
      obtain ⟨h2a, h2b⟩ := h2 k
      refine ⟨?_, ?_⟩
      · intro _
        rw [h2a (Or.inr (by rw [hasK_setK]; simp)), hasK_setK]
        simp only [onPath]
        cases hasK ns k <;> simp
      · rw [h2b, getK_setK]
        by_cases hk : k = cur ++ [ESeg.s s]
        · subst hk; simp [nameAt]
        · simp [hk, nameAt]
    | par n =>
      have hstep : descendPrefix ns cur (segTexts (PSeg.par n :: rest)) =
          descendPrefix (setK (cur ++ [ESeg.p]) id (setK cur (pnameUpd n) ns)) (cur ++ [ESeg.p]) (segTexts rest) := by
        simp only [segTexts, List.map_cons, renderSeg, descendPrefix]
        rw [childFor_par]
        simp
      rw [hstep]
      obtain ⟨h1, h2⟩ := ih hrest (setK (cur ++ [ESeg.p]) id (setK cur (pnameUpd n) ns)) (cur ++ [ESeg.p])
      refine ⟨by rw [h1]; simp [ekeys, ekey], ?_⟩
      intro k
      obtain ⟨h2a, h2b⟩ := h2 k
      have hne : cur ++ [ESeg.p] ≠ cur := by
        intro e; have := congrArg List.length e; simp at this
      refine ⟨?_, ?_⟩
      · intro hk0
        rw [h2a (Or.inr (by rw [hasK_setK]; simp)), hasK_setK, hasK_setK]
        simp only [onPath]
        by_cases hk : k = cur
        · subst hk
          rcases hk0 with hk0 | hk0
          · exact absurd rfl hk0
          · simp [hk0]
        · cases hasK ns k <;> simp [hk]
      · have hg : getK (setK (cur ++ [ESeg.p]) id (setK cur (pnameUpd n) ns)) k =
            if k = cur then pnameUpd n (getK ns cur) else getK ns k := by
          rw [getK_setK]
          by_cases hk2 : k = cur ++ [ESeg.p]
          · subst hk2; simp [hne, getK_setK]
          · simp only [hk2, if_false]; exact getK_setK _ _ _ _
        rw [h2b, hg]
        by_cases hk : k = cur
        · subst hk
          rw [nameAt_short rest _ _ (by simp)]
          simp only [if_true, nameAt]
          unfold pnameUpd
          cases hp : (getK ns k).pname <;> simp [hp]
        · simp [hk, nameAt]

end Rivaas.RadixL
