import Rivaas.Model.Radix
import Rivaas.Spec.MatchClass
/-
Layer L1a of C01 (DESIGN.md §3): what the node map of a method tree contains after a sequence of
registrations, stated per access path ("the node reached by the edge labels `k`").
-/
namespace Rivaas.RadixL
open Rivaas.Route Rivaas.Radix Rivaas.Match

/-! ### the node map as a function of the key -/

theorem lookupK_setK (k k' : Key) (f : NodeRec → NodeRec) (ns : Nodes) :
    lookupK k (setK k' f ns) = if k = k' then some (f (getK ns k')) else lookupK k ns := by
  induction ns with
  | nil =>
    by_cases h : k = k'
    · subst h; simp [setK, lookupK, getK]
    · have h' : ¬ k' = k := fun e => h e.symm
      simp [setK, lookupK, h, h']
  | cons a rest ih =>
    obtain ⟨ka, ra⟩ := a
    by_cases hk : ka = k'
    · subst hk
      by_cases h : k = ka
      · subst h; simp [setK, lookupK, getK]
      · have h' : ¬ ka = k := fun e => h e.symm
        simp [setK, lookupK, h, h']
    · by_cases h : k = k'
      · subst h
        have hk' : ¬ ka = k := hk
        simp [setK, lookupK, hk, getK, ih]
      · simp only [setK, hk, if_false, lookupK, ih, h]

theorem getK_setK (k k' : Key) (f : NodeRec → NodeRec) (ns : Nodes) :
    getK (setK k' f ns) k = if k = k' then f (getK ns k') else getK ns k := by
  unfold getK
  rw [lookupK_setK]
  by_cases h : k = k' <;> simp [h, getK]

theorem hasK_setK (k k' : Key) (f : NodeRec → NodeRec) (ns : Nodes) :
    hasK (setK k' f ns) k = (decide (k = k') || hasK ns k) := by
  unfold hasK
  rw [lookupK_setK]
  by_cases h : k = k' <;> simp [h]

end Rivaas.RadixL

namespace Rivaas.RadixL
open Rivaas.Route Rivaas.Radix Rivaas.Match

/-! ### patterns as edge-label sequences -/

def ekey : PSeg → Option ESeg
  | .lit s => some (.s s)
  | .par _ => some .p
  | .wild => none

/-- the access path of the node a pattern ends at (a trailing `*` hangs on that node) -/
def ekeys (pat : Pat) : Key := pat.filterMap ekey

def endsWild (pat : Pat) : Bool := pat.getLast? = some PSeg.wild

/-- segment texts the model's registration sees for a pattern without wildcard -/
def segTexts (pat : Pat) : List Bytes := pat.map renderSeg

/-- a literal the tree registration classifies as static: non-empty, not starting with `:` -/
def litOK : PSeg → Bool
  | .lit s => s ≠ [] && s.head? ≠ some ':'
  | .par _ => true
  | .wild => false

/-- the parameter name a pattern contributes at the node with key `k` (walking from `cur`) -/
def nameAt : Pat → Key → Key → Option Bytes
  | [], _, _ => none
  | .par n :: rest, cur, k => if k = cur then some n else nameAt rest (cur ++ [ESeg.p]) k
  | .lit s :: rest, cur, k => nameAt rest (cur ++ [ESeg.s s]) k
  | .wild :: _, _, _ => none

/-- `k` is one of the nodes strictly below `cur` on the pattern's path -/
def onPath : Pat → Key → Key → Bool
  | [], _, _ => false
  | .par _ :: rest, cur, k => k = cur ++ [ESeg.p] || onPath rest (cur ++ [ESeg.p]) k
  | .lit s :: rest, cur, k => k = cur ++ [ESeg.s s] || onPath rest (cur ++ [ESeg.s s]) k
  | .wild :: _, _, _ => false

theorem nameAt_short (pat : Pat) (cur k : Key) (h : k.length < cur.length) : nameAt pat cur k = none := by
  induction pat generalizing cur with
  | nil => rfl
  | cons a rest ih =>
    cases a with
    | lit s => simp only [nameAt]; exact ih _ (by simp; omega)
    | par n =>
      simp only [nameAt]
      have hne : k ≠ cur := by intro e; subst e; omega
      simp only [hne, if_false]
      exact ih _ (by simp; omega)
    | wild => rfl

theorem onPath_short (pat : Pat) (cur k : Key) (h : k.length ≤ cur.length) : onPath pat cur k = false := by
  induction pat generalizing cur with
  | nil => rfl
  | cons a rest ih =>
    cases a with
    | lit s =>
      simp only [onPath, Bool.or_eq_false_iff, decide_eq_false_iff_not]
      refine ⟨?_, ih _ (by simp; omega)⟩
      intro e; subst e; simp at h; omega
    | par n =>
      simp only [onPath, Bool.or_eq_false_iff, decide_eq_false_iff_not]
      refine ⟨?_, ih _ (by simp; omega)⟩
      intro e; subst e; simp at h; omega
    | wild => rfl

def pnameUpd (name : Bytes) (r : NodeRec) : NodeRec := if r.pname.isNone then { r with pname := some name } else r

theorem childFor_lit (ns : Nodes) (cur : Key) (s : Bytes) (h : litOK (.lit s) = true) :
    childFor ns cur s = (setK (cur ++ [ESeg.s s]) id ns, cur ++ [ESeg.s s]) := by
  simp only [litOK, Bool.and_eq_true, decide_eq_true_eq] at h
  cases s with
  | nil => exact absurd rfl h.1
  | cons c cs =>
    unfold childFor
    split
    · rename_i name heq
      injection heq with h1 h2
      subst h1
      simp at h
    · rfl

theorem childFor_par (ns : Nodes) (cur : Key) (n : Bytes) :
    childFor ns cur (':' :: n) = (setK (cur ++ [ESeg.p]) id (setK cur (pnameUpd n) ns), cur ++ [ESeg.p]) := by
  rfl

/-- what `descendPrefix` leaves behind: the end key, which nodes exist, and the records -/
theorem descend_char (pre : Pat) (hpre : pre.all litOK = true) (ns : Nodes) (cur : Key) :
    (descendPrefix ns cur (segTexts pre)).2 = cur ++ ekeys pre ∧
    ∀ k, ((k ≠ cur ∨ hasK ns cur = true) →
            hasK (descendPrefix ns cur (segTexts pre)).1 k = (hasK ns k || onPath pre cur k)) ∧
         getK (descendPrefix ns cur (segTexts pre)).1 k =
           { getK ns k with pname := (getK ns k).pname <|> nameAt pre cur k } := by
  induction pre generalizing ns cur with
  | nil =>
    refine ⟨by simp [segTexts, descendPrefix, ekeys], ?_⟩
    intro k
    simp [segTexts, descendPrefix, onPath, nameAt]
  | cons a rest ih =>
    simp only [List.all_cons, Bool.and_eq_true] at hpre
    obtain ⟨ha, hrest⟩ := hpre
    cases a with
    | wild => simp [litOK] at ha
    | lit s =>
      have hs : s ≠ [] := by
        simp only [litOK, Bool.and_eq_true, decide_eq_true_eq] at ha; exact ha.1
      have hstep : descendPrefix ns cur (segTexts (PSeg.lit s :: rest)) =
          descendPrefix (setK (cur ++ [ESeg.s s]) id ns) (cur ++ [ESeg.s s]) (segTexts rest) := by
        simp only [segTexts, List.map_cons, renderSeg, descendPrefix, hs, if_false]
        rw [childFor_lit ns cur s ha]
      rw [hstep]
      obtain ⟨h1, h2⟩ := ih hrest (setK (cur ++ [ESeg.s s]) id ns) (cur ++ [ESeg.s s])
      refine ⟨by rw [h1]; simp [ekeys, ekey], ?_⟩
      intro k
      obtain ⟨h2a, h2b⟩ := h2 k
      refine ⟨?_, ?_⟩
      · intro _
        rw [h2a (Or.inr (by rw [hasK_setK]; simp)), hasK_setK]
        simp only [onPath]
        cases hasK ns k <;> simp
      · rw [h2b, getK_setK]
        by_cases hk : k = cur ++ [ESeg.s s]
        · subst hk; simp [nameAt]
        · simp [hk, nameAt]
    | par n =>
      have hstep : descendPrefix ns cur (segTexts (PSeg.par n :: rest)) =
          descendPrefix (setK (cur ++ [ESeg.p]) id (setK cur (pnameUpd n) ns)) (cur ++ [ESeg.p]) (segTexts rest) := by
        simp only [segTexts, List.map_cons, renderSeg, descendPrefix]
        rw [childFor_par]
        simp
      rw [hstep]
      obtain ⟨h1, h2⟩ := ih hrest (setK (cur ++ [ESeg.p]) id (setK cur (pnameUpd n) ns)) (cur ++ [ESeg.p])
      refine ⟨by rw [h1]; simp [ekeys, ekey], ?_⟩
      intro k
      obtain ⟨h2a, h2b⟩ := h2 k
      have hne : cur ++ [ESeg.p] ≠ cur := by
        intro e; have := congrArg List.length e; simp at this
      refine ⟨?_, ?_⟩
      · intro hk0
        rw [h2a (Or.inr (by rw [hasK_setK]; simp)), hasK_setK, hasK_setK]
        simp only [onPath]
        by_cases hk : k = cur
        · subst hk
          rcases hk0 with hk0 | hk0
          · exact absurd rfl hk0
          · simp [hk0]
        · cases hasK ns k <;> simp [hk]
      · have hg : getK (setK (cur ++ [ESeg.p]) id (setK cur (pnameUpd n) ns)) k =
            if k = cur then pnameUpd n (getK ns cur) else getK ns k := by
          rw [getK_setK]
          by_cases hk2 : k = cur ++ [ESeg.p]
          · subst hk2; simp [hne, getK_setK]
          · simp only [hk2, if_false]; exact getK_setK _ _ _ _
        rw [h2b, hg]
        by_cases hk : k = cur
        · subst hk
          rw [nameAt_short rest _ _ (by simp)]
          simp only [if_true, nameAt]
          unfold pnameUpd
          cases hp : (getK ns k).pname <;> simp [hp]
        · simp [hk, nameAt]


/-! ### registration of one pattern -/

def leafUpd (lf : Leaf) (r : NodeRec) : NodeRec := { r with leaf := some lf }
def wildUpd (lf : Leaf) (r : NodeRec) : NodeRec := { r with wild := some lf }

theorem insertStd_cons (lf : Leaf) (ns : Nodes) (cur : Key) (seg : Bytes) (rest : List Bytes) (h : seg ≠ []) :
    insertStd lf ns cur (seg :: rest) =
      insertStd lf (if rest.isEmpty then setK (childFor ns cur seg).2 (leafUpd lf) (childFor ns cur seg).1
                    else (childFor ns cur seg).1) (childFor ns cur seg).2 rest := by
  rw [insertStd]
  simp only [h, if_false]
  rfl

theorem descendPrefix_cons (ns : Nodes) (cur : Key) (seg : Bytes) (rest : List Bytes) (h : seg ≠ []) :
    descendPrefix ns cur (seg :: rest) = descendPrefix (childFor ns cur seg).1 (childFor ns cur seg).2 rest := by
  rw [descendPrefix]
  simp only [h, if_false]

/-- `insertStd` is the prefix descent followed by attaching the leaf at the node reached -/
theorem insertStd_eq (lf : Leaf) (pat : Pat) (hne : pat ≠ []) (hpat : pat.all litOK = true) (ns : Nodes) (cur : Key) :
    insertStd lf ns cur (segTexts pat) =
      setK (descendPrefix ns cur (segTexts pat)).2 (leafUpd lf) (descendPrefix ns cur (segTexts pat)).1 := by
  induction pat generalizing ns cur with
  | nil => exact absurd rfl hne
  | cons a rest ih =>
    simp only [List.all_cons, Bool.and_eq_true] at hpat
    obtain ⟨ha, hrest⟩ := hpat
    have hseg : renderSeg a ≠ [] := by
      cases a with
      | lit s => simp only [litOK, Bool.and_eq_true, decide_eq_true_eq] at ha; exact ha.1
      | par n => simp [renderSeg]
      | wild => simp [litOK] at ha
    simp only [segTexts, List.map_cons]
    rw [insertStd_cons _ _ _ _ _ hseg, descendPrefix_cons _ _ _ _ hseg]
    cases rest with
    | nil =>
      simp only [List.map_nil, List.isEmpty_nil, if_true, insertStd, descendPrefix]
    | cons b rest' =>
      have := ih (by simp) hrest (childFor ns cur (renderSeg a)).1 (childFor ns cur (renderSeg a)).2
      simp only [segTexts] at this
      simp only [List.map_cons, List.isEmpty_cons, Bool.false_eq_true, if_false]
      exact this

/-- a registration as the tree sees it: a body of literals and parameters, possibly a trailing `*`,
and the leaf (handlers, constraints, path text) -/
structure Entry where
  bp : Pat
  w : Bool
  lf : Leaf
deriving DecidableEq, Repr

def Entry.pat (e : Entry) : Pat := e.bp ++ (if e.w then [PSeg.wild] else [])

def Entry.ok (e : Entry) : Prop := e.bp.all litOK = true

/-- registration of one entry into the node map: walk the body, then attach the leaf (or hang the
wildcard) at the node reached -/
def addEntry (ns : Nodes) (e : Entry) : Nodes :=
  setK (descendPrefix ns [] (segTexts e.bp)).2
    (if e.w then wildUpd e.lf else leafUpd e.lf)
    (descendPrefix ns [] (segTexts e.bp)).1

/-- the record of node `k` after registering one entry -/
theorem addEntry_getK (e : Entry) (hb : e.ok) (ns : Nodes) (k : Key) :
    getK (addEntry ns e) k =
      { leaf := if e.w = false ∧ k = ekeys e.bp then some e.lf else (getK ns k).leaf,
        pname := (getK ns k).pname <|> nameAt e.bp [] k,
        wild := if e.w = true ∧ k = ekeys e.bp then some e.lf else (getK ns k).wild } := by
  obtain ⟨h1, h2⟩ := descend_char e.bp hb ns []
  unfold addEntry
  rw [getK_setK, h1]
  simp only [List.nil_append]
  by_cases hk : k = ekeys e.bp
  · subst hk
    rw [(h2 _).2]
    cases hw : e.w <;> simp [wildUpd, leafUpd]
  · simp only [hk, and_false, if_false]
    rw [(h2 k).2]

theorem onPath_end (bp : Pat) (c : Key) (hb : bp.all litOK = true) (h : ekeys bp ≠ []) :
    onPath bp c (c ++ ekeys bp) = true := by
  induction bp generalizing c with
  | nil => exact absurd rfl h
  | cons a rest ih =>
    simp only [List.all_cons, Bool.and_eq_true] at hb
    cases a with
    | lit s =>
      simp only [ekeys, List.filterMap_cons, ekey, onPath]
      by_cases hr : ekeys rest = []
      · simp only [ekeys] at hr; simp [hr]
      · have := ih (c ++ [ESeg.s s]) hb.2 hr
        simp only [ekeys, List.append_assoc, List.singleton_append] at this
        simp [this]
    | par n =>
      simp only [ekeys, List.filterMap_cons, ekey, onPath]
      by_cases hr : ekeys rest = []
      · simp only [ekeys] at hr; simp [hr]
      · have := ih (c ++ [ESeg.p]) hb.2 hr
        simp only [ekeys, List.append_assoc, List.singleton_append] at this
        simp [this]
    | wild => simp [litOK] at hb

theorem addEntry_hasK (e : Entry) (hb : e.ok) (ns : Nodes) (k : Key) (hk : k ≠ []) :
    hasK (addEntry ns e) k = (hasK ns k || onPath e.bp [] k) := by
  obtain ⟨h1, h2⟩ := descend_char e.bp hb ns []
  unfold addEntry
  rw [hasK_setK, h1, (h2 k).1 (Or.inl hk)]
  simp only [List.nil_append]
  by_cases hke : k = ekeys e.bp
  · have : onPath e.bp [] k = true := by
      subst hke
      simpa using onPath_end e.bp [] hb hk
    simp [this]
  · simp [hke]

/-! ### a whole registration sequence -/

def firstSome {α β} (f : α → Option β) : List α → Option β
  | [] => none
  | a :: l => f a <|> firstSome f l

/-- the last element (in list order) on which `f` answers -/
def lastSome {α β} (f : α → Option β) : List α → Option β
  | [] => none
  | a :: l => lastSome f l <|> f a

def leafAt (k : Key) (e : Entry) : Option Leaf := if e.w = false ∧ k = ekeys e.bp then some e.lf else none
def wildAt (k : Key) (e : Entry) : Option Leaf := if e.w = true ∧ k = ekeys e.bp then some e.lf else none

theorem foldl_getK (L : List Entry) (hL : ∀ e ∈ L, e.ok) (ns : Nodes) (k : Key) :
    getK (L.foldl addEntry ns) k =
      { leaf := lastSome (leafAt k) L <|> (getK ns k).leaf,
        pname := (getK ns k).pname <|> firstSome (fun e => nameAt e.bp [] k) L,
        wild := lastSome (wildAt k) L <|> (getK ns k).wild } := by
  induction L generalizing ns with
  | nil => simp [lastSome, firstSome]
  | cons e rest ih =>
    simp only [List.foldl_cons]
    rw [ih (fun x hx => hL x (List.mem_cons_of_mem _ hx)), addEntry_getK e (hL e (List.mem_cons_self ..))]
    simp only [lastSome, firstSome, leafAt, wildAt]
    congr 1
    · cases lastSome (leafAt k) rest <;> simp [leafAt]
      split <;> simp
    · cases (getK ns k).pname <;> simp
    · cases lastSome (wildAt k) rest <;> simp [wildAt]
      split <;> simp

theorem foldl_hasK (L : List Entry) (hL : ∀ e ∈ L, e.ok) (ns : Nodes) (k : Key) (hk : k ≠ []) :
    hasK (L.foldl addEntry ns) k = (hasK ns k || L.any fun e => onPath e.bp [] k) := by
  induction L generalizing ns with
  | nil => simp
  | cons e rest ih =>
    simp only [List.foldl_cons, List.any_cons]
    rw [ih (fun x hx => hL x (List.mem_cons_of_mem _ hx)), addEntry_hasK e (hL e (List.mem_cons_self ..)) ns k hk]
    simp [Bool.or_assoc]

/-! ### live suffixes: what is left of a pattern below the node with key `k` -/

/-- `strip pat k = some suf`: the node with key `k` lies on the pattern's path and `suf` is the rest of
the pattern below it (`none`: the pattern does not pass through that node) -/
def strip : Pat → Key → Option Pat
  | pat, [] => some pat
  | [], _ :: _ => none
  | seg :: rest, e :: es => if ekey seg = some e then strip rest es else none

/-- a pattern the tree can hold: a body of literals and parameters, then possibly one `*` -/
def wfPat (pat : Pat) : Prop := ∃ bp t, pat = bp ++ t ∧ bp.all litOK = true ∧ (t = [] ∨ t = [PSeg.wild])

theorem strip_nil_key (pat : Pat) : strip pat [] = some pat := by
  cases pat <;> rfl

theorem strip_tail_ne (t : Pat) (ht : t = [] ∨ t = [PSeg.wild]) (e : ESeg) (q : Key) : strip t (e :: q) = none := by
  rcases ht with rfl | rfl
  · rfl
  · simp [strip, ekey]

theorem onPath_iff (bp t : Pat) (hb : bp.all litOK = true) (ht : t = [] ∨ t = [PSeg.wild]) (c k : Key) :
    onPath bp c k = true ↔ ∃ q, q ≠ [] ∧ k = c ++ q ∧ (strip (bp ++ t) q).isSome = true := by
  induction bp generalizing c with
  | nil =>
    simp only [onPath, List.nil_append, Bool.false_eq_true, false_iff]
    rintro ⟨q, hq, _, h⟩
    cases q with
    | nil => exact hq rfl
    | cons e q' => rw [strip_tail_ne t ht] at h; simp at h
  | cons a rest ih =>
    simp only [List.all_cons, Bool.and_eq_true] at hb
    have key : ∀ (e : ESeg), ekey a = some e →
        ((k = c ++ [e] ∨ onPath rest (c ++ [e]) k = true) ↔
          ∃ q, q ≠ [] ∧ k = c ++ q ∧ (strip (a :: rest ++ t) q).isSome = true) := by
      intro e he
      constructor
      · rintro (h | h)
        · exact ⟨[e], by simp, h, by simp [strip, he, strip_nil_key]⟩
        · obtain ⟨q, hq, hk, hs⟩ := (ih hb.2 (c ++ [e])).mp h
          exact ⟨e :: q, by simp, by simp [hk], by simpa [strip, he] using hs⟩
      · rintro ⟨q, hq, hk, hs⟩
        cases q with
        | nil => exact absurd rfl hq
        | cons e' q' =>
          simp only [List.cons_append, strip, he] at hs
          by_cases hee : some e = some e'
          · injection hee with hee; subst hee
            simp only [if_true] at hs
            cases q' with
            | nil => left; exact hk
            | cons e2 q2 =>
              right
              exact (ih hb.2 (c ++ [e])).mpr ⟨e2 :: q2, by simp, by simp [hk], hs⟩
          · simp [hee] at hs
    cases a with
    | lit s => simpa [onPath] using key (ESeg.s s) rfl
    | par n => simpa [onPath] using key ESeg.p rfl
    | wild => simp [litOK] at hb

theorem nameAt_prefix (pat : Pat) (c k : Key) (n : Bytes) (h : nameAt pat c k = some n) : c <+: k := by
  induction pat generalizing c with
  | nil => simp [nameAt] at h
  | cons a rest ih =>
    cases a with
    | lit s =>
      simp only [nameAt] at h
      exact (List.prefix_append c [ESeg.s s]).trans (ih _ h)
    | par m =>
      simp only [nameAt] at h
      by_cases hk : k = c
      · subst hk; exact List.prefix_refl _
      · simp only [hk, if_false] at h
        exact (List.prefix_append c [ESeg.p]).trans (ih _ h)
    | wild => simp [nameAt] at h

theorem nameAt_off (pat : Pat) (c : Key) (e e' : ESeg) (q : Key) (hne : e ≠ e') :
    nameAt pat (c ++ [e]) (c ++ e' :: q) = none := by
  cases h : nameAt pat (c ++ [e]) (c ++ e' :: q) with
  | none => rfl
  | some n =>
    exfalso
    have hp := nameAt_prefix _ _ _ _ h
    rw [List.prefix_append_right_inj] at hp
    obtain ⟨t, ht⟩ := hp
    simp only [List.singleton_append] at ht
    injection ht with h1 _
    exact hne h1

/-- the parameter name a pattern declares at the node `k` -/
def nameAtS (pat : Pat) (k : Key) : Option Bytes :=
  match strip pat k with
  | some (PSeg.par n :: _) => some n
  | _ => none

theorem nameAt_eq (bp t : Pat) (hb : bp.all litOK = true) (ht : t = [] ∨ t = [PSeg.wild]) (c q : Key) :
    nameAt bp c (c ++ q) = nameAtS (bp ++ t) q := by
  induction bp generalizing c q with
  | nil =>
    simp only [nameAt, List.nil_append, nameAtS]
    cases q with
    | nil =>
      rw [strip_nil_key]
      rcases ht with rfl | rfl <;> rfl
    | cons e q' => rw [strip_tail_ne t ht]
  | cons a rest ih =>
    simp only [List.all_cons, Bool.and_eq_true] at hb
    cases q with
    | nil =>
      simp only [List.append_nil, nameAtS, strip_nil_key, List.cons_append]
      cases a with
      | lit s =>
        simp only [nameAt]
        exact nameAt_short rest _ _ (by simp)
      | par n => simp [nameAt]
      | wild => simp [litOK] at hb
    | cons e q' =>
      cases a with
      | lit s =>
        simp only [nameAt, nameAtS, List.cons_append, strip, ekey]
        by_cases he : ESeg.s s = e
        · subst he
          have := ih hb.2 (c ++ [ESeg.s s]) q'
          simp only [List.append_assoc, List.singleton_append, nameAtS] at this
          simpa using this
        · have hne : some (ESeg.s s) ≠ some e := by intro h; injection h with h; exact he h
          simp only [hne, if_false]
          exact nameAt_off rest c _ _ q' he
      | par n =>
        simp only [nameAt, nameAtS, List.cons_append, strip, ekey]
        have hck : c ++ e :: q' ≠ c := by
          intro h; have := congrArg List.length h; simp at this
        simp only [hck, if_false]
        by_cases he : ESeg.p = e
        · subst he
          have := ih hb.2 (c ++ [ESeg.p]) q'
          simp only [List.append_assoc, List.singleton_append, nameAtS] at this
          simpa using this
        · have hne : some ESeg.p ≠ some e := by intro h; injection h with h; exact he h
          simp only [hne, if_false]
          exact nameAt_off rest c _ _ q' he
      | wild => simp [litOK] at hb


/-! ### the node map of a registration sequence, in terms of live suffixes -/

/-- one more edge label below a node -/
def stepSuf (e : ESeg) : Pat → Option Pat
  | [] => none
  | seg :: rest => if ekey seg = some e then some rest else none

theorem strip_snoc (pat : Pat) (k : Key) (e : ESeg) : strip pat (k ++ [e]) = (strip pat k).bind (stepSuf e) := by
  induction k generalizing pat with
  | nil =>
    cases pat with
    | nil => simp [strip, stepSuf]
    | cons seg rest =>
      simp only [List.nil_append, strip, strip_nil_key, Option.bind_some, stepSuf]
  | cons e0 k' ih =>
    cases pat with
    | nil => simp [strip]
    | cons seg rest =>
      simp only [List.cons_append, strip]
      by_cases h : ekey seg = some e0
      · simp only [h, if_true]; exact ih rest
      · simp [h]

theorem Entry.wf (e : Entry) (h : e.ok) : ∃ t, e.pat = e.bp ++ t ∧ (t = [] ∨ t = [PSeg.wild]) := by
  refine ⟨if e.w then [PSeg.wild] else [], rfl, ?_⟩
  cases e.w <;> simp

/-- the node map after registering `L` in order, starting from an empty tree -/
def nodesOf (L : List Entry) : Nodes := L.foldl addEntry []

theorem any_congr_mem {α} (l : List α) (f g : α → Bool) (h : ∀ a ∈ l, f a = g a) : l.any f = l.any g := by
  induction l with
  | nil => rfl
  | cons a rest ih =>
    simp only [List.any_cons]
    rw [h a (List.mem_cons_self ..), ih (fun x hx => h x (List.mem_cons_of_mem _ hx))]

theorem firstSome_congr_mem {α β} (l : List α) (f g : α → Option β) (h : ∀ a ∈ l, f a = g a) :
    firstSome f l = firstSome g l := by
  induction l with
  | nil => rfl
  | cons a rest ih =>
    simp only [firstSome]
    rw [h a (List.mem_cons_self ..), ih (fun x hx => h x (List.mem_cons_of_mem _ hx))]

theorem lastSome_congr_mem {α β} (l : List α) (f g : α → Option β) (h : ∀ a ∈ l, f a = g a) :
    lastSome f l = lastSome g l := by
  induction l with
  | nil => rfl
  | cons a rest ih =>
    simp only [lastSome]
    rw [h a (List.mem_cons_self ..), ih (fun x hx => h x (List.mem_cons_of_mem _ hx))]

theorem nodesOf_hasK (L : List Entry) (hL : ∀ e ∈ L, e.ok) (k : Key) (hk : k ≠ []) :
    hasK (nodesOf L) k = L.any fun e => (strip e.pat k).isSome := by
  unfold nodesOf
  rw [foldl_hasK L hL [] k hk]
  have h0 : hasK [] k = false := rfl
  rw [h0, Bool.false_or]
  apply any_congr_mem
  intro e he
  obtain ⟨t, hpat, ht⟩ := e.wf (hL e he)
  rw [hpat]
  have := onPath_iff e.bp t (hL e he) ht [] k
  simp only [List.nil_append] at this
  cases hs : (strip (e.bp ++ t) k).isSome with
  | true => exact this.mpr ⟨k, hk, rfl, hs⟩
  | false =>
    cases ho : onPath e.bp [] k with
    | false => rfl
    | true =>
      obtain ⟨q, _, hq, hq2⟩ := this.mp ho
      subst hq; rw [hs] at hq2; exact absurd hq2 (by simp)

theorem nodesOf_pname (L : List Entry) (hL : ∀ e ∈ L, e.ok) (k : Key) :
    (getK (nodesOf L) k).pname = firstSome (fun e => nameAtS e.pat k) L := by
  unfold nodesOf
  rw [foldl_getK L hL [] k]
  have h0 : (getK [] k).pname = none := rfl
  simp only [h0]
  rw [show (none <|> firstSome (fun e => nameAt e.bp [] k) L) = firstSome (fun e => nameAt e.bp [] k) L by simp]
  apply firstSome_congr_mem
  intro e he
  obtain ⟨t, hpat, ht⟩ := e.wf (hL e he)
  rw [hpat]
  have := nameAt_eq e.bp t (hL e he) ht [] k
  simpa using this

/-- a live suffix is what is left after a prefix in which every segment has an edge label -/
theorem strip_split (pat : Pat) (k : Key) (suf : Pat) (h : strip pat k = some suf) :
    ∃ pre, pat = pre ++ suf ∧ (pre.filterMap ekey).length = pre.length := by
  induction k generalizing pat with
  | nil =>
    rw [strip_nil_key] at h
    injection h with h
    exact ⟨[], by simp [h], rfl⟩
  | cons e q ih =>
    cases pat with
    | nil => simp [strip] at h
    | cons seg rest =>
      simp only [strip] at h
      by_cases he : ekey seg = some e
      · simp only [he, if_true] at h
        obtain ⟨pre, hp, hl⟩ := ih rest h
        exact ⟨seg :: pre, by simp [hp], by simp [List.filterMap_cons, he, hl]⟩
      · simp [he] at h

/-- the entry hangs its leaf exactly at node `k` -/
theorem strip_eq_tail (bp t : Pat) (hb : bp.all litOK = true) (ht : t = [] ∨ t = [PSeg.wild]) (k : Key) :
    strip (bp ++ t) k = some t ↔ k = ekeys bp := by
  induction bp generalizing k with
  | nil =>
    cases k with
    | nil => simp [strip_nil_key, ekeys]
    | cons e q => simp [strip_tail_ne t ht, ekeys]
  | cons a rest ih =>
    simp only [List.all_cons, Bool.and_eq_true] at hb
    have hek : ∃ e, ekey a = some e := by
      cases a with
      | lit s => exact ⟨_, rfl⟩
      | par n => exact ⟨_, rfl⟩
      | wild => simp [litOK] at hb
    obtain ⟨e, he⟩ := hek
    cases k with
    | nil =>
      simp only [strip_nil_key, List.cons_append, Option.some.injEq, ekeys, List.filterMap_cons, he]
      constructor
      · intro h
        have := congrArg List.length h
        simp at this; omega
      · intro h; simp at h
    | cons e' q =>
      simp only [List.cons_append, strip, he, ekeys, List.filterMap_cons]
      by_cases hee : e = e'
      · subst hee
        simp only [if_true, List.cons.injEq, true_and]
        have := ih hb.2 q
        simpa [ekeys] using this
      · have : some e ≠ some e' := by intro h; injection h with h; exact hee h
        simp only [this, if_false, List.cons.injEq]
        constructor
        · intro h; simp at h
        · intro h; exact absurd h.1.symm hee

theorem nodesOf_leaf (L : List Entry) (hL : ∀ e ∈ L, e.ok) (k : Key) :
    (getK (nodesOf L) k).leaf = lastSome (fun e => if strip e.pat k = some [] then some e.lf else none) L := by
  unfold nodesOf
  rw [foldl_getK L hL [] k]
  have h0 : (getK [] k).leaf = none := rfl
  simp only [h0]
  rw [show (lastSome (leafAt k) L <|> none) = lastSome (leafAt k) L by simp]
  apply lastSome_congr_mem
  intro e he
  unfold leafAt Entry.pat
  cases hw : e.w with
  | false =>
    simp only [Bool.false_eq_true, if_false, true_and]
    have := strip_eq_tail e.bp [] (hL e he) (Or.inl rfl) k
    simp only [List.append_nil] at this ⊢
    by_cases hk : k = ekeys e.bp
    · rw [if_pos hk, if_pos (this.mpr hk)]
    · rw [if_neg hk, if_neg (fun h => hk (this.mp h))]
  | true =>
    simp only [if_true, Bool.true_eq_false, false_and, if_false]
    -- a suffix of a wildcard entry always ends in `*`
    have hn : ¬ strip (e.bp ++ [PSeg.wild]) k = some [] := by
      intro h
      obtain ⟨pre, hp, hlen⟩ := strip_split _ _ _ h
      simp only [List.append_nil] at hp
      subst hp
      have hle := List.length_filterMap_le ekey e.bp
      simp only [List.filterMap_append, List.filterMap_cons, ekey, List.filterMap_nil, List.length_append,
        List.length_nil, List.length_cons] at hlen
      omega
    simp [hn]

theorem nodesOf_wild (L : List Entry) (hL : ∀ e ∈ L, e.ok) (k : Key) :
    (getK (nodesOf L) k).wild = lastSome (fun e => if strip e.pat k = some [PSeg.wild] then some e.lf else none) L := by
  unfold nodesOf
  rw [foldl_getK L hL [] k]
  have h0 : (getK [] k).wild = none := rfl
  simp only [h0]
  rw [show (lastSome (wildAt k) L <|> none) = lastSome (wildAt k) L by simp]
  apply lastSome_congr_mem
  intro e he
  unfold wildAt Entry.pat
  cases hw : e.w with
  | true =>
    simp only [if_true, true_and]
    have := strip_eq_tail e.bp [PSeg.wild] (hL e he) (Or.inr rfl) k
    by_cases hk : k = ekeys e.bp
    · rw [if_pos hk, if_pos (this.mpr hk)]
    · rw [if_neg hk, if_neg (fun h => hk (this.mp h))]
  | false =>
    simp only [Bool.false_eq_true, if_false, false_and, List.append_nil]
    -- a suffix of an entry without wildcard contains no `*`
    have hn : ¬ strip e.bp k = some [PSeg.wild] := by
      intro h
      obtain ⟨pre, hp, _⟩ := strip_split _ _ _ h
      have hb := hL e he
      unfold Entry.ok at hb
      rw [hp] at hb
      simp [litOK] at hb
    simp [hn]

end Rivaas.RadixL
