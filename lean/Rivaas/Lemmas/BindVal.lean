import Rivaas.Model.BindTypes
/-
C04 helper lemmas: the hand-written equality test on `Val` decides equality (so `==` in the oracle
is `=`), and `DecidableEq Val` for `decide` witnesses.
-/
namespace Rivaas.Bind

mutual
theorem lemma_beq_iff : ∀ a b : Val, Val.beq a b = true ↔ a = b
  | .int x, b => by cases b <;> simp [Val.beq]
  | .uint x, b => by cases b <;> simp [Val.beq]
  | .flt x, b => by cases b <;> simp [Val.beq]
  | .bool x, b => by cases b <;> simp [Val.beq]
  | .str x, b => by cases b <;> simp [Val.beq]
  | .time x, b => by cases b <;> simp [Val.beq]
  | .nil, b => by cases b <;> simp [Val.beq]
  | .ptr x, b => by
    cases b <;> simp [Val.beq]
    exact lemma_beq_iff x _
  | .list xs, b => by
    cases b <;> simp [Val.beq]
    exact lemma_beqList_iff xs _
  | .map xs, b => by
    cases b <;> simp [Val.beq]
    exact lemma_beqKVs_iff xs _
  | .struct xs, b => by
    cases b <;> simp [Val.beq]
    exact lemma_beqList_iff xs _
theorem lemma_beqList_iff : ∀ a b : List Val, Val.beqList a b = true ↔ a = b
  | [], b => by cases b <;> simp [Val.beqList]
  | x :: xs, b => by
    cases b with
    | nil => simp [Val.beqList]
    | cons y ys =>
      simp only [Val.beqList, Bool.and_eq_true, List.cons.injEq]
      rw [lemma_beq_iff x y, lemma_beqList_iff xs ys]
theorem lemma_beqKVs_iff : ∀ a b : List (Bytes × Val), Val.beqKVs a b = true ↔ a = b
  | [], b => by cases b <;> simp [Val.beqKVs]
  | (k, x) :: xs, b => by
    cases b with
    | nil => simp [Val.beqKVs]
    | cons y ys =>
      obtain ⟨k', y⟩ := y
      simp only [Val.beqKVs, Bool.and_eq_true, List.cons.injEq, Prod.mk.injEq, beq_iff_eq]
      rw [lemma_beq_iff x y, lemma_beqKVs_iff xs ys]
end

theorem lemma_val_beq_eq (a b : Val) : (a == b) = true ↔ a = b := lemma_beq_iff a b

instance : DecidableEq Val := fun a b =>
  if h : Val.beq a b = true then isTrue ((lemma_beq_iff a b).1 h)
  else isFalse (fun e => h ((lemma_beq_iff a b).2 e))

instance : LawfulBEq Val where
  eq_of_beq := fun h => (lemma_beq_iff _ _).1 h
  rfl := (lemma_beq_iff _ _).2 rfl

end Rivaas.Bind
