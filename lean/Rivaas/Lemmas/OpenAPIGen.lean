import Rivaas.Spec.OpenAPI
set_option linter.unusedSimpArgs false
/-
C07 — helper lemmas: the invariant of schema generation (`gen` / `genFields`): every `$ref` emitted
names a registered component or a struct still on the generation stack, registered names are
well formed, `required` lists have no duplicates; all over arbitrary (recursive) type environments.
-/
namespace Rivaas.OpenAPI

/-! ## a predicate on every node head and every reference of a schema tree -/

mutual
  def Tree.All {α} (P : α → Prop) (Q : B → Prop) : Tree α → Prop
    | .ref r => Q r
    | .node h i p a => P h ∧ OTree.All P Q i ∧ PTree.All P Q p ∧ OTree.All P Q a
  def OTree.All {α} (P : α → Prop) (Q : B → Prop) : OTree α → Prop
    | .none => True
    | .some t => Tree.All P Q t
  def PTree.All {α} (P : α → Prop) (Q : B → Prop) : PTree α → Prop
    | .nil => True
    | .cons _ t rest => Tree.All P Q t ∧ PTree.All P Q rest
end

mutual
  theorem Tree.All.mono {α} {P P' : α → Prop} {Q Q' : B → Prop} (hP : ∀ h, P h → P' h) (hQ : ∀ r, Q r → Q' r) :
      ∀ (t : Tree α), Tree.All P Q t → Tree.All P' Q' t
    | .ref r, h => by simp only [Tree.All] at h ⊢; exact hQ r h
    | .node hd i p a, h => by
      simp only [Tree.All] at h ⊢
      exact ⟨hP _ h.1, OTree.All.mono hP hQ i h.2.1, PTree.All.mono hP hQ p h.2.2.1, OTree.All.mono hP hQ a h.2.2.2⟩
  theorem OTree.All.mono {α} {P P' : α → Prop} {Q Q' : B → Prop} (hP : ∀ h, P h → P' h) (hQ : ∀ r, Q r → Q' r) :
      ∀ (t : OTree α), OTree.All P Q t → OTree.All P' Q' t
    | .none, _ => by simp only [OTree.All]
    | .some t, h => by simp only [OTree.All] at h ⊢; exact Tree.All.mono hP hQ t h
  theorem PTree.All.mono {α} {P P' : α → Prop} {Q Q' : B → Prop} (hP : ∀ h, P h → P' h) (hQ : ∀ r, Q r → Q' r) :
      ∀ (t : PTree α), PTree.All P Q t → PTree.All P' Q' t
    | .nil, _ => by simp only [PTree.All]
    | .cons _ t rest, h => by
      simp only [PTree.All] at h ⊢
      exact ⟨Tree.All.mono hP hQ t h.1, PTree.All.mono hP hQ rest h.2⟩
end

mutual
  theorem Tree.All.refs {α} {P : α → Prop} {Q : B → Prop} :
      ∀ (t : Tree α), Tree.All P Q t → ∀ r ∈ Tree.refs t, Q r
    | .ref r0, h => by
      intro r hr
      simp only [Tree.refs, List.mem_singleton] at hr
      subst hr; simpa only [Tree.All] using h
    | .node _ i p a, h => by
      intro r hr
      simp only [Tree.All] at h
      simp only [Tree.refs, List.mem_append] at hr
      rcases hr with (hr | hr) | hr
      · exact OTree.All.refs i h.2.1 r hr
      · exact PTree.All.refs p h.2.2.1 r hr
      · exact OTree.All.refs a h.2.2.2 r hr
  theorem OTree.All.refs {α} {P : α → Prop} {Q : B → Prop} :
      ∀ (t : OTree α), OTree.All P Q t → ∀ r ∈ OTree.refs t, Q r
    | .none, _ => by intro r hr; simp [OTree.refs] at hr
    | .some t, h => by
      intro r hr
      simp only [OTree.All] at h
      simp only [OTree.refs] at hr
      exact Tree.All.refs t h r hr
  theorem PTree.All.refs {α} {P : α → Prop} {Q : B → Prop} :
      ∀ (t : PTree α), PTree.All P Q t → ∀ r ∈ PTree.refs t, Q r
    | .nil, _ => by intro r hr; simp [PTree.refs] at hr
    | .cons _ t rest, h => by
      intro r hr
      simp only [PTree.All] at h
      simp only [PTree.refs, List.mem_append] at hr
      rcases hr with hr | hr
      · exact Tree.All.refs t h.1 r hr
      · exact PTree.All.refs rest h.2 r hr
end

theorem Tree.All.modHead {α} {P : α → Prop} {Q : B → Prop} {f : α → α} (hf : ∀ h, P h → P (f h)) :
    ∀ (t : Tree α), Tree.All P Q t → Tree.All P Q (t.modHead f)
  | .ref _, h => by simpa only [Tree.modHead] using h
  | .node _ _ _ _, h => by
    simp only [Tree.modHead, Tree.All] at h ⊢
    exact ⟨hf _ h.1, h.2⟩

theorem PTree.All.set {α} {P : α → Prop} {Q : B → Prop} (k : B) (v : Tree α) (hv : Tree.All P Q v) :
    ∀ (p : PTree α), PTree.All P Q p → PTree.All P Q (PTree.set k v p)
  | .nil, _ => by simp only [PTree.set, PTree.All]; exact ⟨hv, trivial⟩
  | .cons k' v' rest, h => by
    simp only [PTree.All] at h
    simp only [PTree.set]
    split
    · simp only [PTree.All]; exact ⟨hv, h.2⟩
    · simp only [PTree.All]; exact ⟨h.1, PTree.All.set k v hv rest h.2⟩

theorem PTree.All.insertSorted {α} {P : α → Prop} {Q : B → Prop} (k : B) (v : Tree α) (hv : Tree.All P Q v) :
    ∀ (p : PTree α), PTree.All P Q p → PTree.All P Q (PTree.insertSorted k v p)
  | .nil, _ => by simp only [PTree.insertSorted, PTree.All]; exact ⟨hv, trivial⟩
  | .cons k' v' rest, h => by
    simp only [PTree.All] at h
    simp only [PTree.insertSorted]
    split
    · simp only [PTree.All]; exact ⟨hv, h.1, h.2⟩
    · simp only [PTree.All]; exact ⟨h.1, PTree.All.insertSorted k v hv rest h.2⟩

mutual
  theorem Tree.All.project {α β} {P : α → Prop} {P' : β → Prop} {Q : B → Prop} {f : α → β} (hf : ∀ h, P h → P' (f h)) :
      ∀ (t : Tree α), Tree.All P Q t → Tree.All P' Q (Tree.project f t)
    | .ref _, h => by simpa only [Tree.project, Tree.All] using h
    | .node _ i p a, h => by
      simp only [Tree.All] at h
      simp only [Tree.project, Tree.All]
      exact ⟨hf _ h.1, OTree.All.project hf i h.2.1, PTree.All.project hf p h.2.2.1, OTree.All.project hf a h.2.2.2⟩
  theorem OTree.All.project {α β} {P : α → Prop} {P' : β → Prop} {Q : B → Prop} {f : α → β} (hf : ∀ h, P h → P' (f h)) :
      ∀ (t : OTree α), OTree.All P Q t → OTree.All P' Q (OTree.project f t)
    | .none, _ => by simp only [OTree.project, OTree.All]
    | .some t, h => by
      simp only [OTree.All] at h
      simp only [OTree.project, OTree.All]
      exact Tree.All.project hf t h
  theorem PTree.All.project {α β} {P : α → Prop} {P' : β → Prop} {Q : B → Prop} {f : α → β} (hf : ∀ h, P h → P' (f h)) :
      ∀ (t : PTree α), PTree.All P Q t → PTree.All P' Q (PTree.project f t)
    | .nil, _ => by simp only [PTree.project, PTree.All]
    | .cons k t rest, h => by
      simp only [PTree.All] at h
      simp only [PTree.project]
      exact PTree.All.insertSorted k _ (Tree.All.project hf t h.1) _ (PTree.All.project hf rest h.2)
end

/-! ## the generation invariant -/

/-- the component name a struct on the generation stack will be registered under -/
def structName (env : Env) (id : Nat) : Option B :=
  match env.lookup id with
  | some (.struct n p _) => if schemaName n p ≠ [] then some (schemaName n p) else none
  | _ => none

def seenNames (env : Env) (seen : List Nat) : List B := seen.filterMap (structName env)

def Schemas.keys (st : Schemas) : List B := st.map (·.1)

/-- the names a reference may use: registered components and structs still being generated -/
def names (env : Env) (seen : List Nat) (st : Schemas) : List B := Schemas.keys st ++ seenNames env seen

def InNames (ns : List B) (r : B) : Prop := ∃ k ∈ ns, r = refPrefix ++ k

/-- no duplicate in `required` at any node, every `$ref` within the given names -/
def Good (ns : List B) (t : IR) : Prop := Tree.All (fun h : Head => h.required.Nodup) (InNames ns) t
def GoodP (ns : List B) (p : PTree Head) : Prop := PTree.All (fun h : Head => h.required.Nodup) (InNames ns) p

theorem Good.mono {ns ns' : List B} (h : ∀ k ∈ ns, k ∈ ns') {t : IR} (g : Good ns t) : Good ns' t :=
  Tree.All.mono (fun _ x => x) (fun _ ⟨k, hk, e⟩ => ⟨k, h k hk, e⟩) t g

theorem GoodP.mono {ns ns' : List B} (h : ∀ k ∈ ns, k ∈ ns') {p : PTree Head} (g : GoodP ns p) : GoodP ns' p :=
  PTree.All.mono (fun _ x => x) (fun _ ⟨k, hk, e⟩ => ⟨k, h k hk, e⟩) p g

/-- the registry invariant -/
def Inv (env : Env) (seen : List Nat) (st : Schemas) : Prop :=
  ∀ e ∈ st, nameOK e.1 = true ∧ Good (names env seen st) e.2

theorem hasKey_iff (st : Schemas) (k : B) : hasKey st k = true ↔ k ∈ Schemas.keys st := by
  simp only [hasKey, Schemas.keys, List.any_eq_true, List.mem_map, beq_iff_eq]

theorem good_leaf (ns : List B) (h : Head) (hr : h.required.Nodup) : Good ns (leaf h) := by
  simpa only [Good, leaf, Tree.All, OTree.All, PTree.All, and_true] using hr

theorem good_object (ns : List B) : Good ns objectSchema := good_leaf ns _ (by simp)
theorem good_time (ns : List B) : Good ns timeSchema := good_leaf ns _ (by simp)
theorem good_bytes (ns : List B) : Good ns bytesSchema := good_leaf ns _ (by simp)
theorem good_prim (ns : List B) (k : PKind) : Good ns (primSchema k) := by
  cases k <;> first | exact good_object ns | exact good_leaf ns _ (by simp)

theorem good_ref (ns : List B) (k : B) (hk : k ∈ ns) : Good ns (refTo k) := by
  simp only [Good, refTo, Tree.All]
  exact ⟨k, hk, rfl⟩

theorem good_objNode {ns : List B} {req : List B} {props : PTree Head} (hr : req.Nodup) (hp : GoodP ns props) :
    Good ns (objNode req props) := by
  simp only [Good, objNode, Tree.All, OTree.All, and_true, true_and]
  exact ⟨hr, hp⟩

theorem good_setNullable {ns : List B} {t : IR} (g : Good ns t) : Good ns (setNullable t) := by
  unfold setNullable
  exact Tree.All.modHead (f := fun h : Head => { h with nullable := true }) (fun _ x => x) t g

theorem good_arrayOf {ns : List B} {t : IR} (g : Good ns t) : Good ns (arrayOf t) := by
  simp only [Good, arrayOf, Tree.All, OTree.All, PTree.All, and_true]
  exact ⟨by simp, g⟩

theorem good_mapOf {ns : List B} {t : IR} (g : Good ns t) : Good ns (mapOf t) := by
  simp only [Good, mapOf, Tree.All, OTree.All, PTree.All, true_and]
  exact ⟨by simp, g⟩

theorem applyPart_required (h : Head) (p : B) : (applyPart h p).required = h.required := by
  unfold applyPart
  cases classifyPart p <;> rfl

theorem foldl_applyPart_required (ps : List B) (h : Head) : (ps.foldl applyPart h).required = h.required := by
  induction ps generalizing h with
  | nil => rfl
  | cons p ps ih => simp only [List.foldl_cons, ih, applyPart_required]

theorem applyConstraintsHead_required (v : B) (h : Head) : (applyConstraintsHead v h).required = h.required := by
  unfold applyConstraintsHead
  by_cases hv : v = []
  · simp only [hv, if_true]
  · simp only [hv, if_false, foldl_applyPart_required]
    cases validateFormat v <;> by_cases hc : contains v (s "alphanum") = true <;> simp only [hc, if_true] <;> rfl

theorem good_applyConstraints {ns : List B} (v : B) {t : IR} (g : Good ns t) : Good ns (applyConstraints v t) := by
  unfold applyConstraints
  exact Tree.All.modHead (f := applyConstraintsHead v) (fun h x => by rw [applyConstraintsHead_required]; exact x) t g

theorem good_docTags {ns : List B} (m : FieldMeta) {t : IR} (g : Good ns t) : Good ns (docTags m t) := by
  unfold docTags
  exact Tree.All.modHead (f := docTagsHead m) (fun h x => x) t g

/-! ## component names (K07c) -/

theorem lemma_nameByteOK_iff (c : Char) : nameByteOK c = nameCharOK c := rfl

/-- every byte `sanitizeComponentName` leaves in a name is allowed in a component key -/
theorem sanitize_ok (name : B) : (sanitize name).all nameCharOK = true := by
  simp only [sanitize, List.all_map, List.all_eq_true]
  intro c _
  simp only [Function.comp]
  by_cases h : nameByteOK c = true
  · simp [h, ← lemma_nameByteOK_iff]
  · have : nameByteOK '_' = true := by decide
    simp [h, ← lemma_nameByteOK_iff, this]

theorem lemma_sanitize_length (name : B) : (sanitize name).length = name.length := by simp [sanitize]

/-- `schemaName` is empty (anonymous struct: never registered) or matches `^[a-zA-Z0-9._-]+$` -/
theorem schemaName_wellformed (name pkgPath : B) :
    schemaName name pkgPath = [] ∨ nameOK (schemaName name pkgPath) = true := by
  unfold schemaName
  by_cases h0 : name = []
  · simp [h0]
  · right
    have hne : ∀ x : B, x ≠ [] → nameOK (sanitize x) = true := by
      intro x hx
      simp only [nameOK, Bool.and_eq_true, sanitize_ok, and_true]
      cases x with
      | nil => exact absurd rfl hx
      | cons c cs => simp [sanitize]
    simp only [h0, if_false]
    split
    · exact hne _ h0
    · split
      · exact hne _ h0
      · apply hne
        intro h
        have := congrArg List.length h
        simp [s] at this


/-! ## the invariant through `gen` / `genFields` -/

def GenPost (env : Env) (seen : List Nat) (st : Schemas) (r : IR × Schemas) : Prop :=
  (∀ k ∈ Schemas.keys st, k ∈ Schemas.keys r.2) ∧ Inv env seen r.2 ∧ Good (names env seen r.2) r.1

def FieldsPost (env : Env) (seen : List Nat) (st : Schemas) (r : PTree Head × List B × Schemas) : Prop :=
  (∀ k ∈ Schemas.keys st, k ∈ Schemas.keys r.2.2) ∧ Inv env seen r.2.2 ∧ GoodP (names env seen r.2.2) r.1 ∧ r.2.1.Nodup

theorem names_mono_keys {env : Env} {seen : List Nat} {st st' : Schemas}
    (h : ∀ k ∈ Schemas.keys st, k ∈ Schemas.keys st') : ∀ k ∈ names env seen st, k ∈ names env seen st' := by
  intro k hk
  simp only [names, List.mem_append] at hk ⊢
  rcases hk with hk | hk
  · exact Or.inl (h k hk)
  · exact Or.inr hk

theorem GenPost.refl {env : Env} {seen : List Nat} {st : Schemas} {t : IR} (hinv : Inv env seen st)
    (g : Good (names env seen st) t) : GenPost env seen st (t, st) :=
  ⟨fun _ h => h, hinv, g⟩

theorem GenPost.map {env : Env} {seen : List Nat} {st : Schemas} {r : IR × Schemas} {f : IR → IR}
    (hf : ∀ ns t, Good ns t → Good ns (f t)) (h : GenPost env seen st r) : GenPost env seen st (f r.1, r.2) :=
  ⟨h.1, h.2.1, hf _ _ h.2.2⟩

theorem seenNames_cons_some {env : Env} {id : Nat} {seen : List Nat} {nm : B} (h : structName env id = some nm) :
    seenNames env (id :: seen) = nm :: seenNames env seen := by
  simp [seenNames, List.filterMap_cons, h]

theorem seenNames_cons_none {env : Env} {id : Nat} {seen : List Nat} (h : structName env id = none) :
    seenNames env (id :: seen) = seenNames env seen := by
  simp [seenNames, List.filterMap_cons, h]

theorem names_cons_sub {env : Env} {id : Nat} {seen : List Nat} {st : Schemas} :
    ∀ k ∈ names env seen st, k ∈ names env (id :: seen) st := by
  intro k hk
  simp only [names, List.mem_append] at hk ⊢
  rcases hk with hk | hk
  · exact Or.inl hk
  · right
    cases h : structName env id with
    | none => rw [seenNames_cons_none h]; exact hk
    | some nm => rw [seenNames_cons_some h]; exact List.mem_cons_of_mem _ hk

theorem Inv.push {env : Env} {id : Nat} {seen : List Nat} {st : Schemas} (h : Inv env seen st) :
    Inv env (id :: seen) st := by
  intro e he
  exact ⟨(h e he).1, Good.mono names_cons_sub (h e he).2⟩

theorem structName_of_lookup {env : Env} {id : Nat} {name pkg : B} {fs : List Field}
    (h : env.lookup id = some (.struct name pkg fs)) :
    structName env id = if schemaName name pkg ≠ [] then some (schemaName name pkg) else none := by
  simp only [structName, h]

/-- closing a struct: its name moves from the stack to the registry -/
theorem close_struct {env : Env} {id : Nat} {seen : List Nat} {st2 : Schemas} {nm : B} {sch : IR}
    (hn : structName env id = some nm) (hok : nameOK nm = true)
    (hinv : Inv env (id :: seen) st2) (hs : Good (names env (id :: seen) st2) sch) :
    Inv env seen ((nm, sch) :: st2) ∧ Good (names env seen ((nm, sch) :: st2)) (refTo nm) := by
  have hsub : ∀ k ∈ names env (id :: seen) st2, k ∈ names env seen ((nm, sch) :: st2) := by
    intro k hk
    simp only [names, seenNames_cons_some hn, Schemas.keys, List.map_cons, List.mem_append, List.mem_cons] at hk ⊢
    rcases hk with hk | hk | hk
    · exact Or.inl (Or.inr hk)
    · exact Or.inl (Or.inl hk)
    · exact Or.inr hk
  constructor
  · intro e he
    simp only [List.mem_cons] at he
    rcases he with rfl | he
    · exact ⟨hok, Good.mono hsub hs⟩
    · exact ⟨(hinv e he).1, Good.mono hsub (hinv e he).2⟩
  · apply good_ref
    simp [names, Schemas.keys]

theorem close_anon {env : Env} {id : Nat} {seen : List Nat} {st2 : Schemas}
    (hn : structName env id = none) (hinv : Inv env (id :: seen) st2) : Inv env seen st2 := by
  intro e he
  refine ⟨(hinv e he).1, Good.mono ?_ (hinv e he).2⟩
  intro k hk
  simpa only [names, seenNames_cons_none hn] using hk

theorem names_anon {env : Env} {id : Nat} {seen : List Nat} {st2 : Schemas}
    (hn : structName env id = none) : names env (id :: seen) st2 = names env seen st2 := by
  simp only [names, seenNames_cons_none hn]

theorem gen_genFields_post (env : Env) :
    (∀ (seen opn : List Nat) (t : Ty) (st : Schemas), Inv env seen st → GenPost env seen st (gen env seen opn t st)) ∧
    (∀ (seen opn : List Nat) (projected : Bool) (fs : List (FieldMeta × Ty)) (props : PTree Head) (req : List B)
      (st : Schemas), Inv env seen st → GoodP (names env seen st) props → req.Nodup →
      FieldsPost env seen st (genFields env seen opn projected fs props req st)) := by
  apply gen.mutual_induct env
    (motive1 := fun seen opn t st => Inv env seen st → GenPost env seen st (gen env seen opn t st))
    (motive2 := fun seen opn projected fs props req st => Inv env seen st → GoodP (names env seen st) props → req.Nodup →
      FieldsPost env seen st (genFields env seen opn projected fs props req st))
  -- prim
  · intro seen opn st k hinv
    rw [gen]; exact GenPost.refl hinv (good_prim _ k)
  -- time
  · intro seen opn st hinv
    rw [gen]; exact GenPost.refl hinv (good_time _)
  -- ptr
  · intro seen opn st e ih hinv
    rw [gen]; exact GenPost.map (fun _ _ => good_setNullable) (ih hinv)
  -- slice of bytes
  · intro seen opn st e hb hinv
    rw [gen]; simp only [hb, if_true]; exact GenPost.refl hinv (good_bytes _)
  -- slice
  · intro seen opn st e hb ih hinv
    rw [gen]; simp only [hb, if_false]; exact GenPost.map (fun _ _ => good_arrayOf) (ih hinv)
  -- array
  · intro seen opn st e ih hinv
    rw [gen]; exact GenPost.map (fun _ _ => good_arrayOf) (ih hinv)
  -- map, key not a string
  · intro seen opn st b e hb hinv
    rw [gen]; simp only [hb, if_true]; exact GenPost.refl hinv (good_object _)
  -- map
  · intro seen opn st b e hb ih hinv
    rw [gen]; simp only [hb, if_false]; exact GenPost.map (fun _ _ => good_mapOf) (ih hinv)
  -- named: not in the environment
  · intro seen opn st a hl hinv
    rw [gen]
    split
    next => exact GenPost.refl hinv (good_object _)
    next u heq => exact absurd (hl.symm.trans heq) (by simp)
    next name pkg fs heq => exact absurd (hl.symm.trans heq) (by simp)
  -- named container: []byte
  · intro seen opn st a u hl hb hinv
    rw [gen]
    split
    next heq => exact absurd (hl.symm.trans heq) (by simp)
    next u' heq =>
      have : u' = u := by have := hl.symm.trans heq; simp at this; exact this.symm
      subst this
      simp only [hb, if_true]; exact GenPost.refl hinv (good_bytes _)
    next name pkg fs heq => exact absurd (hl.symm.trans heq) (by simp)
  -- named container: already open
  · intro seen opn st a u hl hb ho hinv
    rw [gen]
    split
    next heq => exact absurd (hl.symm.trans heq) (by simp)
    next u' heq =>
      have : u' = u := by have := hl.symm.trans heq; simp at this; exact this.symm
      subst this
      simp only [hb, ho, if_true, dite_true]; exact GenPost.refl hinv (good_object _)
    next name pkg fs heq => exact absurd (hl.symm.trans heq) (by simp)
  -- named container: in seen (never)
  · intro seen opn st a u hl hb ho hs hinv
    rw [gen]
    split
    next heq => exact absurd (hl.symm.trans heq) (by simp)
    next u' heq =>
      have : u' = u := by have := hl.symm.trans heq; simp at this; exact this.symm
      subst this
      simp only [hb, ho, hs, if_true, dite_false]; exact GenPost.refl hinv (good_object _)
    next name pkg fs heq => exact absurd (hl.symm.trans heq) (by simp)
  -- named container: descend
  · intro seen opn st a u hl hb ho hs ih hinv
    rw [gen]
    split
    next heq => exact absurd (hl.symm.trans heq) (by simp)
    next u' heq =>
      have : u' = u := by have := hl.symm.trans heq; simp at this; exact this.symm
      subst this
      simp only [hb, ho, hs, if_false, dite_false]; exact ih hinv
    next name pkg fs heq => exact absurd (hl.symm.trans heq) (by simp)
  -- struct on the stack
  · intro seen opn st a name pkg fs hl hs hinv
    rw [gen]
    split
    next heq => exact absurd (hl.symm.trans heq) (by simp)
    next u' heq => exact absurd (hl.symm.trans heq) (by simp)
    next name' pkg' fs' heq =>
      have := hl.symm.trans heq
      simp only [Option.some.injEq, Def.struct.injEq] at this
      obtain ⟨rfl, rfl, rfl⟩ := this
      simp only [hs, dite_true]
      by_cases hn : schemaName name pkg = []
      · simp only [hn, ne_eq, not_true_eq_false, if_false]; exact GenPost.refl hinv (good_object _)
      · simp only [ne_eq, hn, not_false_eq_true, if_true]
        refine GenPost.refl hinv (good_ref _ _ ?_)
        simp only [names, List.mem_append]
        right
        simp only [seenNames, List.mem_filterMap]
        exact ⟨a, hs, by rw [structName_of_lookup hl]; simp [hn]⟩
  -- struct already registered
  · intro seen opn st a name pkg fs hl hs nm hk hinv
    rw [gen]
    split
    next heq => exact absurd (hl.symm.trans heq) (by simp)
    next u' heq => exact absurd (hl.symm.trans heq) (by simp)
    next name' pkg' fs' heq =>
      have := hl.symm.trans heq
      simp only [Option.some.injEq, Def.struct.injEq] at this
      obtain ⟨rfl, rfl, rfl⟩ := this
      simp only [hs, dite_false]
      simp only [nm] at hk
      rw [if_pos hk]
      refine GenPost.refl hinv (good_ref _ _ ?_)
      simp only [names, List.mem_append]
      exact Or.inl ((hasKey_iff _ _).1 hk.2)
  -- struct, generated and registered
  · intro seen opn st a name pkg fs hl hs nm hk hn ih hinv
    rw [gen]
    split
    next heq => exact absurd (hl.symm.trans heq) (by simp)
    next u' heq => exact absurd (hl.symm.trans heq) (by simp)
    next name' pkg' fs' heq =>
      have := hl.symm.trans heq
      simp only [Option.some.injEq, Def.struct.injEq] at this
      obtain ⟨rfl, rfl, rfl⟩ := this
      simp only [hs, dite_false]
      simp only [nm] at hk hn
      rw [if_neg hk, if_pos hn]
      obtain ⟨hkeys, hinv2, hprops, hreq⟩ := ih hinv.push (by simp only [GoodP, PTree.All]) List.nodup_nil
      have hsn : structName env a = some (schemaName name pkg) := by rw [structName_of_lookup hl]; simp [hn]
      have hok : nameOK (schemaName name pkg) = true := by
        rcases schemaName_wellformed name pkg with h | h
        · exact absurd h hn
        · exact h
      have hsch := good_objNode hreq hprops
      obtain ⟨hi, hg⟩ := close_struct hsn hok hinv2 hsch
      refine ⟨?_, hi, hg⟩
      intro k hk'
      simp only [Schemas.keys, List.map_cons, List.mem_cons]
      exact Or.inr (hkeys k hk')
  -- anonymous struct, generated inline
  · intro seen opn st a name pkg fs hl hs nm hk hn ih hinv
    rw [gen]
    split
    next heq => exact absurd (hl.symm.trans heq) (by simp)
    next u' heq => exact absurd (hl.symm.trans heq) (by simp)
    next name' pkg' fs' heq =>
      have := hl.symm.trans heq
      simp only [Option.some.injEq, Def.struct.injEq] at this
      obtain ⟨rfl, rfl, rfl⟩ := this
      simp only [hs, dite_false]
      simp only [nm] at hk hn
      rw [if_neg hk, if_neg hn]
      obtain ⟨hkeys, hinv2, hprops, hreq⟩ := ih hinv.push (by simp only [GoodP, PTree.All]) List.nodup_nil
      have hsn : structName env a = none := by rw [structName_of_lookup hl]; simp [hn]
      refine ⟨hkeys, close_anon hsn hinv2, ?_⟩
      rw [← names_anon hsn]
      exact good_objNode hreq hprops
  -- genFields: no field left
  · intro seen opn projected props req st hinv hp hr
    rw [genFields]; exact ⟨fun _ h => h, hinv, hp, hr⟩
  -- genFields: field skipped (unexported / not JSON-tagged in a projection)
  · intro seen opn projected props req st m t rest hc ih hinv hp hr
    rw [genFields, if_pos hc]; exact ih hinv hp hr
  -- genFields: json:"-"
  · intro seen opn projected props req st m t rest hc hj ih hinv hp hr
    rw [genFields, if_neg hc, if_pos hj]; exact ih hinv hp hr
  -- genFields: a field
  · intro seen opn projected props req st m t rest hc hj fieldName r fsch req' ih1 ih2 hinv hp hr
    rw [genFields, if_neg hc, if_neg hj]
    simp only [fieldName, r, fsch, req', dite_eq_ite] at ih1 ih2
    obtain ⟨hk1, hinv1, hg1⟩ := ih1 hinv
    have hp1 : GoodP (names env seen (gen env seen opn t st).2)
        (PTree.set (parseJSONName m.json m.name) (applyConstraints m.validate (docTags m (gen env seen opn t st).1)) props) :=
      PTree.All.set _ _ (good_applyConstraints _ (good_docTags m hg1)) _ (GoodP.mono (names_mono_keys hk1) hp)
    have hr1 : (if (isFieldRequired env m t && !contains m.json (s "omitempty") && !req.contains (parseJSONName m.json m.name)) = true
        then req ++ [parseJSONName m.json m.name] else req).Nodup := by
      split
      next hcond =>
        simp only [Bool.and_eq_true, Bool.not_eq_eq_eq_not, Bool.not_true, List.contains_eq_mem,
          decide_eq_false_iff_not] at hcond
        rw [List.nodup_append]
        refine ⟨hr, by simp, ?_⟩
        intro x hx y hy
        simp only [List.mem_singleton] at hy
        subst hy
        intro heq; subst heq
        exact hcond.2 hx
      next => exact hr
    obtain ⟨hk2, hinv2, hg2, hr2⟩ := ih2 hinv1 hp1 hr1
    exact ⟨fun k hk => hk2 k (hk1 k hk), hinv2, hg2, hr2⟩


end Rivaas.OpenAPI
