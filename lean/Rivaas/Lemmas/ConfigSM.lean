import Rivaas.Model.ConfigSM
/-
C14 — the invariant of the statement-level machine (`Model/ConfigSM.lean`) running `modelLoad`, and its
preservation by every step of every thread.
-/
namespace Rivaas.ConfigSM
open Rivaas.Config Rivaas.ConfigSkel

@[simp] theorem upd_same {α : Type} (f : Nat → α) (i : Nat) (a : α) : upd f i a i = a := by simp [upd]
theorem upd_other {α : Type} (f : Nat → α) (i j : Nat) (a : α) (h : j ≠ i) : upd f i a j = f j := by simp [upd, h]

/-- what loader `l` on input `inp` knows from the statements it has passed (locals only) -/
structure Local (schema : Bool) (nv : Nat) (inp : LoadInput) (l : LState) : Prop where
  pcle : l.done = none → l.pc ≤ 9
  src : l.done = none → 2 ≤ l.pc → ∃ maps, loadSources inp.srcs 0 [] = .ok maps ∧ l.cand = mergeAll maps
  sch : l.done = none → 3 ≤ l.pc → (schema && schemaRejects l.cand) = false
  val : l.done = none → 4 ≤ l.pc → firstRejecting l.cand nv = none
  dfT : l.done = none → 6 ≤ l.pc → l.deferred = true
  bnd : l.done = none → 7 ≤ l.pc → inp.bind ≠ some .reject
  /-- what the call returned is the stage the coarse `load` reports (which does not depend on the state) -/
  res : ∀ r, l.done = some r → ∀ st, (load schema nv st inp).2 = r

/-- the loader is between `c.mu.Lock()` and its return -/
def holds (l : LState) : Prop := l.done = none ∧ 5 ≤ l.pc

/-- shared state against the linearised state while loader `l` holds the write lock -/
structure Rel (schema : Bool) (nv : Nat) (inp : LoadInput) (l : LState) (conc abs : State) : Prop where
  early : l.pc ≤ 7 → conc = abs
  mid : l.pc = 8 → conc.values = abs.values ∧
    conc.bound = (match inp.bind with | some (.ok f) => f | _ => abs.bound)
  late : l.pc = 9 → conc = (load schema nv abs inp).1

structure Inv (schema : Bool) (nv : Nat) (inputs : List LoadInput) (st0 : State) (s : Sys) : Prop where
  loc : ∀ t inp, inputs[t]? = some inp → Local schema nv inp (s.ls t)
  own : ∀ t, s.writer = some t ↔ holds (s.ls t)
  idle : s.writer = none → s.conc = (absOf schema nv inputs st0 s.ops).1
  held : ∀ t inp, s.writer = some t → inputs[t]? = some inp →
    Rel schema nv inp (s.ls t) s.conc (absOf schema nv inputs st0 s.ops).1
  rd : ∀ r, (s.rphase r = 1 ∨ s.rphase r = 2) → r ∈ s.rlocks
  excl : s.writer ≠ none → s.rlocks = []
  seen : s.seen = (absOf schema nv inputs st0 s.ops).2

theorem inv_init (schema : Bool) (nv : Nat) (inputs : List LoadInput) (st0 : State) :
    Inv schema nv inputs st0 (Sys.init st0) where
  loc := by
    intro t inp _
    constructor <;> intros <;> simp_all [Sys.init, LState.init]
  own := by intro t; simp [Sys.init, holds, LState.init]
  idle := by intro _; simp [Sys.init, Sys.conc, absOf]
  held := by intro t inp h; simp [Sys.init] at h
  rd := by intro r h; simp [Sys.init] at h
  excl := by intro h; simp [Sys.init] at h
  seen := by simp [Sys.init, absOf]

/-- a loader that returns without having changed the shared state: the coarse `load` does not change it either -/
theorem load_fail_of (schema : Bool) (nv : Nat) (inp : LoadInput) (abs : State) :
    (∃ i, loadSources inp.srcs 0 [] = .error i) ∨
    (∃ maps, loadSources inp.srcs 0 [] = .ok maps ∧
      ((schema && schemaRejects (mergeAll maps)) = true ∨
       (∃ i, firstRejecting (mergeAll maps) nv = some i) ∨ inp.bind = some .reject)) →
    (load schema nv abs inp).1 = abs := by
  intro h
  rcases h with ⟨i, hi⟩ | ⟨maps, hm, h⟩
  · simp [load, hi]
  · simp only [load, hm]
    by_cases hs : (schema && schemaRejects (mergeAll maps)) = true
    · simp [hs]
    · simp only [hs]
      cases hv : firstRejecting (mergeAll maps) nv with
      | some i => simp
      | none =>
        rcases h with h | ⟨i, h⟩ | h
        · exact absurd h hs
        · rw [hv] at h; cases h
        · simp [h]

/-- a loader that passed every test: what the coarse `load` installs -/
theorem load_ok_of (schema : Bool) (nv : Nat) (inp : LoadInput) (abs : State) (maps : List Kvs)
    (hm : loadSources inp.srcs 0 [] = .ok maps)
    (hs : (schema && schemaRejects (mergeAll maps)) = false)
    (hv : firstRejecting (mergeAll maps) nv = none) (hb : inp.bind ≠ some .reject) :
    (load schema nv abs inp).1 =
      ⟨mergeAll maps, match inp.bind with | some (.ok f) => f | _ => abs.bound⟩ := by
  simp only [load, hm, hs, hv]
  cases hbb : inp.bind with
  | none => simp
  | some b =>
    cases b with
    | reject => exact absurd hbb hb
    | ok f => simp


variable {schema : Bool} {nv : Nat} {inputs : List LoadInput} {st0 : State}

theorem inv_reader {s : Sys} (h : Inv schema nv inputs st0 s) (r : Nat) :
    Inv schema nv inputs st0 (stepReader s r) := by
  unfold stepReader
  split
  · rename_i hph
    split
    · rename_i hw
      exact { loc := h.loc, own := h.own, idle := h.idle, held := h.held, seen := h.seen
              excl := fun hx => absurd hw hx
              rd := by
                intro r' hr'
                by_cases e : r' = r
                · subst e; exact List.mem_cons_self ..
                · simp only [upd_other _ _ _ _ e] at hr'
                  exact List.mem_cons_of_mem _ (h.rd r' hr') }
    · exact h
  · rename_i hph
    have hmem : r ∈ s.rlocks := h.rd r (Or.inl hph)
    have hw : s.writer = none := by
      cases hw : s.writer with
      | none => rfl
      | some t =>
        have := h.excl (by rw [hw]; simp)
        rw [this] at hmem; cases hmem
    have hidle := h.idle hw
    exact { loc := h.loc, own := h.own
            idle := by intro _; simp only [absOf]; exact hidle
            held := by intro t inp ht; rw [hw] at ht; cases ht
            excl := h.excl
            rd := by
              intro r' hr'
              by_cases e : r' = r
              · subst e; exact hmem
              · simp only [upd_other _ _ _ _ e] at hr'
                exact h.rd r' hr'
            seen := by
              have hv : s.values = (absOf schema nv inputs st0 s.ops).1.values := by
                rw [← hidle]; rfl
              simp [absOf, h.seen, hv] }
  · rename_i hph
    exact { loc := h.loc, own := h.own, idle := h.idle, held := h.held, seen := h.seen
            excl := by intro hx; simp [h.excl hx]
            rd := by
              intro r' hr'
              by_cases e : r' = r
              · subst e; simp at hr'
              · simp only [upd_other _ _ _ _ e] at hr'
                exact (List.mem_erase_of_ne e).mpr (h.rd r' hr') }
  · exact h

/-- frame rule for a step of loader `t`: only `ls t`, the writer (between `none` and `some t`), the shared
    state and `ops` may change; the obligations of `t` itself are the hypotheses -/
theorem inv_frame {s s' : Sys} (h : Inv schema nv inputs st0 s) (t : Nat) (inp : LoadInput)
    (hin : inputs[t]? = some inp)
    (hls : ∀ u, u ≠ t → s'.ls u = s.ls u)
    (hr : s'.rlocks = s.rlocks) (hp : s'.rphase = s.rphase) (hsn : s'.seen = s.seen)
    (hloc : Local schema nv inp (s'.ls t))
    (hown : s'.writer = some t ↔ holds (s'.ls t))
    (hw : s'.writer = s.writer ∨ (s.writer = none ∧ s'.writer = some t) ∨ (s.writer = some t ∧ s'.writer = none))
    (hexcl : s'.writer ≠ none → s.rlocks = [])
    (hfr : ∀ u, u ≠ t → s.writer = some u →
      s'.conc = s.conc ∧ (absOf schema nv inputs st0 s'.ops).1 = (absOf schema nv inputs st0 s.ops).1)
    (hidle : s'.writer = none → s'.conc = (absOf schema nv inputs st0 s'.ops).1)
    (hheld : s'.writer = some t → Rel schema nv inp (s'.ls t) s'.conc (absOf schema nv inputs st0 s'.ops).1)
    (hseen : (absOf schema nv inputs st0 s'.ops).2 = (absOf schema nv inputs st0 s.ops).2) :
    Inv schema nv inputs st0 s' where
  loc := by
    intro u inp' hu
    by_cases e : u = t
    · subst e; rw [hin] at hu; cases hu; exact hloc
    · rw [hls u e]; exact h.loc u inp' hu
  own := by
    intro u
    by_cases e : u = t
    · subst e; exact hown
    · rw [hls u e]
      rcases hw with hw | ⟨h1, h2⟩ | ⟨h1, h2⟩
      · rw [hw]; exact h.own u
      · have hnu : ¬ holds (s.ls u) := fun hh => by
          have := (h.own u).mpr hh; rw [h1] at this; cases this
        constructor
        · intro hh; rw [h2] at hh; cases hh; exact absurd rfl e
        · intro hh; exact absurd hh hnu
      · have hnu : ¬ holds (s.ls u) := fun hh => by
          have := (h.own u).mpr hh; rw [h1] at this; cases this; exact e rfl
        constructor
        · intro hh; rw [h2] at hh; cases hh
        · intro hh; exact absurd hh hnu
  idle := hidle
  held := by
    intro u inp' hu hiu
    by_cases e : u = t
    · subst e; rw [hin] at hiu; cases hiu; exact hheld hu
    · have hsu : s.writer = some u := by
        rcases hw with hw | ⟨_, h2⟩ | ⟨_, h2⟩
        · rw [← hw]; exact hu
        · rw [h2] at hu; cases hu; exact absurd rfl e
        · rw [h2] at hu; cases hu
      obtain ⟨hc, ha⟩ := hfr u e hsu
      rw [hls u e, hc, ha]; exact h.held u inp' hsu hiu
  rd := by rw [hr, hp]; exact h.rd
  excl := by intro hx; rw [hr]; exact hexcl hx
  seen := by rw [hsn, hseen]; exact h.seen

theorem absOf_commit (ops : List Op) (t : Nat) (inp : LoadInput) (hin : inputs[t]? = some inp) :
    absOf schema nv inputs st0 (.commit t :: ops) =
      ((load schema nv (absOf schema nv inputs st0 ops).1 inp).1, (absOf schema nv inputs st0 ops).2) := by
  simp [absOf, hin]

section eqns
variable {prog : List Step} {inp : LoadInput} {s : Sys} {t : Nat}

theorem sl_done {r : Stage} (hd : (s.ls t).done = some r) : stepLoader prog schema nv inp s t = s := by
  simp [stepLoader, hd]
theorem sl_argCheck (hd : (s.ls t).done = none) (hk : prog[(s.ls t).pc]? = some .argCheck) :
    stepLoader prog schema nv inp s t = next s t (s.ls t) := by simp [stepLoader, hd, hk]
theorem sl_loadSources (hd : (s.ls t).done = none) (hk : prog[(s.ls t).pc]? = some .loadSources) :
    stepLoader prog schema nv inp s t =
      match loadSources inp.srcs 0 [] with
      | .error i => finish s t (s.ls t) (.source i)
      | .ok maps => next s t { s.ls t with cand := mergeAll maps } := by
  simp only [stepLoader, hd, hk]; cases loadSources inp.srcs 0 [] <;> rfl
theorem sl_schema (hd : (s.ls t).done = none) (hk : prog[(s.ls t).pc]? = some .schema) :
    stepLoader prog schema nv inp s t =
      if schema && schemaRejects (s.ls t).cand then finish s t (s.ls t) .schema else next s t (s.ls t) := by
  simp [stepLoader, hd, hk]
theorem sl_validators {b : Bool} (hd : (s.ls t).done = none) (hk : prog[(s.ls t).pc]? = some (.validators b)) :
    stepLoader prog schema nv inp s t =
      match firstRejecting (s.ls t).cand nv with
      | some i => finish s t (s.ls t) (.validator i)
      | none => next s t (s.ls t) := by
  simp only [stepLoader, hd, hk]; cases firstRejecting (s.ls t).cand nv <;> rfl
theorem sl_lock (hd : (s.ls t).done = none) (hk : prog[(s.ls t).pc]? = some .lock) :
    stepLoader prog schema nv inp s t =
      if s.writer = none ∧ s.rlocks = [] then next { s with writer := some t } t (s.ls t) else s := by
  simp [stepLoader, hd, hk]
theorem sl_deferUnlock (hd : (s.ls t).done = none) (hk : prog[(s.ls t).pc]? = some .deferUnlock) :
    stepLoader prog schema nv inp s t = next s t { s.ls t with deferred := true } := by simp [stepLoader, hd, hk]
theorem sl_bindAndValidate (hd : (s.ls t).done = none) (hk : prog[(s.ls t).pc]? = some .bindAndValidate) :
    stepLoader prog schema nv inp s t =
      match inp.bind with
      | some .reject => finish s t (s.ls t) .binding
      | _ => next s t (s.ls t) := by
  simp only [stepLoader, hd, hk]; rcases inp.bind with _ | _ | _ <;> rfl
theorem sl_bind (hd : (s.ls t).done = none) (hk : prog[(s.ls t).pc]? = some .bind) :
    stepLoader prog schema nv inp s t =
      match inp.bind with
      | some (.ok fresh) => next { s with bound := fresh } t (s.ls t)
      | _ => next s t (s.ls t) := by
  simp only [stepLoader, hd, hk]; rcases inp.bind with _ | _ | _ <;> rfl
theorem sl_swap (hd : (s.ls t).done = none) (hk : prog[(s.ls t).pc]? = some .swap) :
    stepLoader prog schema nv inp s t = next { s with values := (s.ls t).cand } t (s.ls t) := by
  simp [stepLoader, hd, hk]
theorem sl_retNil (hd : (s.ls t).done = none) (hk : prog[(s.ls t).pc]? = some .retNil) :
    stepLoader prog schema nv inp s t = finish s t (s.ls t) .ok := by simp [stepLoader, hd, hk]
end eqns

theorem modelLoad_get :
    modelLoad[0]? = some .argCheck ∧ modelLoad[1]? = some .loadSources ∧ modelLoad[2]? = some .schema ∧
    modelLoad[3]? = some (.validators true) ∧ modelLoad[4]? = some .lock ∧ modelLoad[5]? = some .deferUnlock ∧
    modelLoad[6]? = some .bindAndValidate ∧ modelLoad[7]? = some .bind ∧ modelLoad[8]? = some .swap ∧
    modelLoad[9]? = some .retNil := by decide

/-- a loader that is not between `Lock` and its return moves on without touching shared state -/
theorem inv_next_free {s : Sys} (h : Inv schema nv inputs st0 s) (t : Nat) (inp : LoadInput)
    (hin : inputs[t]? = some inp) (l' : LState) (_hd' : l'.done = none) (hpc : l'.pc + 1 ≤ 4)
    (hnh : ¬ holds (s.ls t))
    (hloc : Local schema nv inp { l' with pc := l'.pc + 1 }) :
    Inv schema nv inputs st0 (next s t l') := by
  have hwt : s.writer ≠ some t := fun e => hnh ((h.own t).mp e)
  refine inv_frame h t inp hin (fun u e => by simp [next, upd_other _ _ _ _ e]) rfl rfl rfl ?_ ?_ (Or.inl rfl)
    (fun hx => h.excl hx) (fun u _ _ => ⟨rfl, rfl⟩) h.idle (fun e => absurd e hwt) rfl
  · simpa [next] using hloc
  · simp only [next, upd_same]
    constructor
    · intro e; exact absurd e hwt
    · intro hh; have := hh.2; simp at this; omega

/-- a loader returns: shared state as it is; `habs`: the coarse `load` maps the linearised state to … -/
theorem inv_finish {s : Sys} (h : Inv schema nv inputs st0 s) (t : Nat) (inp : LoadInput)
    (hin : inputs[t]? = some inp) (r : Stage) (_hd : (s.ls t).done = none)
    (hres : ∀ st, (load schema nv st inp).2 = r)
    (hdf : holds (s.ls t) → (s.ls t).deferred = true)
    (hidle : ¬ holds (s.ls t) → (load schema nv (absOf schema nv inputs st0 s.ops).1 inp).1 = (absOf schema nv inputs st0 s.ops).1)
    (hheld : holds (s.ls t) → s.conc = (load schema nv (absOf schema nv inputs st0 s.ops).1 inp).1) :
    Inv schema nv inputs st0 (finish s t (s.ls t) r) := by
  have hown := h.own t
  by_cases hh : holds (s.ls t)
  · have hw : s.writer = some t := hown.mpr hh
    have hdt := hdf hh
    refine inv_frame h t inp hin (fun u e => by simp [finish, upd_other _ _ _ _ e]) rfl rfl rfl ?_ ?_
      (Or.inr (Or.inr ⟨hw, by simp [finish, hdt, hw]⟩)) (fun hx => h.excl (by rw [hw]; simp))
      (fun u e hu => by rw [hw] at hu; cases hu; exact absurd rfl e) ?_ ?_ ?_
    · refine ⟨?_, ?_, ?_, ?_, ?_, ?_, ?_⟩
      all_goals first
        | (intro r' hr'; simp [finish] at hr'; subst hr'; exact hres)
        | (intro hx; simp [finish] at hx)
    · simp [finish, hdt, hw, holds]
    · intro _; simp only [finish, absOf_commit _ _ _ hin]; exact hheld hh
    · intro hx; simp [finish, hdt, hw] at hx
    · simp [finish, absOf_commit _ _ _ hin]
  · have hwt : s.writer ≠ some t := fun e => hh (hown.mp e)
    have hwe : (if (s.ls t).deferred && s.writer == some t then none else s.writer) = s.writer := by
      have : (s.writer == some t) = false := by simpa using hwt
      simp [this]
    refine inv_frame h t inp hin (fun u e => by simp [finish, upd_other _ _ _ _ e]) rfl rfl rfl ?_ ?_
      (Or.inl (by simp only [finish]; exact hwe)) (fun hx => h.excl (by simp only [finish, hwe] at hx; exact hx))
      (fun u e hu => ⟨rfl, by simp [finish, absOf_commit _ _ _ hin, hidle hh]⟩) ?_ ?_ ?_
    · refine ⟨?_, ?_, ?_, ?_, ?_, ?_, ?_⟩
      all_goals first
        | (intro r' hr'; simp [finish] at hr'; subst hr'; exact hres)
        | (intro hx; simp [finish] at hx)
    · simp only [finish, hwe, upd_same]
      constructor
      · intro e; exact absurd e hwt
      · intro hx; simp [holds] at hx
    · intro hx; simp only [finish, hwe] at hx
      simp only [finish, absOf_commit _ _ _ hin, hidle hh]; exact h.idle hx
    · intro hx; simp only [finish, hwe] at hx; exact absurd hx hwt
    · simp [finish, absOf_commit _ _ _ hin]

/-- the lock holder moves on, possibly writing the shared state -/
theorem inv_next_held {s : Sys} (h : Inv schema nv inputs st0 s) (t : Nat) (inp : LoadInput)
    (hin : inputs[t]? = some inp) (hw : s.writer = some t) (v : Kvs) (b : List (Bytes × Bytes))
    (l' : LState) (hd' : l'.done = none) (hpc : 5 ≤ l'.pc + 1)
    (hloc : Local schema nv inp { l' with pc := l'.pc + 1 })
    (hrel : Rel schema nv inp { l' with pc := l'.pc + 1 } ⟨v, b⟩ (absOf schema nv inputs st0 s.ops).1) :
    Inv schema nv inputs st0 (next { s with values := v, bound := b } t l') := by
  refine inv_frame h t inp hin (fun u e => by simp [next, upd_other _ _ _ _ e]) rfl rfl rfl ?_ ?_ (Or.inl rfl)
    (fun hx => h.excl hx) (fun u e hu => by rw [hw] at hu; cases hu; exact absurd rfl e) ?_ ?_ rfl
  · simpa [next] using hloc
  · simp only [next, upd_same, holds]
    constructor
    · intro _; exact ⟨hd', hpc⟩
    · intro _; exact hw
  · intro hx; simp only [next] at hx; rw [hw] at hx; cases hx
  · intro _; simpa [next, Sys.conc] using hrel

theorem inv_loader {s : Sys} (h : Inv schema nv inputs st0 s) (t : Nat) (inp : LoadInput)
    (hin : inputs[t]? = some inp) :
    Inv schema nv inputs st0 (stepLoader modelLoad schema nv inp s t) := by
  obtain ⟨g0, g1, g2, g3, g4, g5, g6, g7, g8, g9⟩ := modelLoad_get
  have hL := h.loc t inp hin
  cases hd : (s.ls t).done with
  | some r => rw [sl_done hd]; exact h
  | none =>
    have hpc := hL.pcle hd
    have hown := h.own t
    rcases (by omega : (s.ls t).pc = 0 ∨ (s.ls t).pc = 1 ∨ (s.ls t).pc = 2 ∨ (s.ls t).pc = 3 ∨ (s.ls t).pc = 4 ∨
        (s.ls t).pc = 5 ∨ (s.ls t).pc = 6 ∨ (s.ls t).pc = 7 ∨ (s.ls t).pc = 8 ∨ (s.ls t).pc = 9)
      with k | k | k | k | k | k | k | k | k | k
    · -- argCheck
      rw [sl_argCheck hd (by rw [k]; exact g0)]
      refine inv_next_free h t inp hin _ hd (by omega) (fun hh => by have := hh.2; omega) ?_
      constructor <;> intros <;> simp_all
    · -- loadSources
      have hnh : ¬ holds (s.ls t) := fun hh => by have := hh.2; omega
      rw [sl_loadSources hd (by rw [k]; exact g1)]
      cases hm : loadSources inp.srcs 0 [] with
      | error i =>
        exact inv_finish h t inp hin _ hd (fun st => by simp [load, hm]) (fun hh => absurd hh hnh)
          (fun _ => load_fail_of schema nv inp _ (Or.inl ⟨i, hm⟩)) (fun hh => absurd hh hnh)
      | ok maps =>
        refine inv_next_free h t inp hin _ hd (by simp only []; omega) hnh ?_
        refine ⟨fun _ => ?_, fun _ hx => ?_, fun _ hx => ?_, fun _ hx => ?_, fun _ hx => ?_, fun _ hx => ?_,
          fun r hr => by simp [hd] at hr⟩ <;>
          (try simp only [k] at hx) <;> (try simp only [k]) <;> try omega
        exact ⟨maps, hm, rfl⟩
    · -- schema
      have hnh : ¬ holds (s.ls t) := fun hh => by have := hh.2; omega
      obtain ⟨maps, hm, hc⟩ := hL.src hd (by omega)
      rw [sl_schema hd (by rw [k]; exact g2)]
      split
      · rename_i hrej
        have hrej' : (schema && schemaRejects (mergeAll maps)) = true := by rw [← hc]; exact hrej
        exact inv_finish h t inp hin _ hd (fun st => by simp only [load, hm, hrej']; rfl) (fun hh => absurd hh hnh)
          (fun _ => load_fail_of schema nv inp _ (Or.inr ⟨maps, hm, Or.inl hrej'⟩))
          (fun hh => absurd hh hnh)
      · rename_i hrej
        refine inv_next_free h t inp hin _ hd (by omega) hnh ?_
        refine ⟨fun _ => ?_, fun _ hx => ?_, fun _ hx => ?_, fun _ hx => ?_, fun _ hx => ?_, fun _ hx => ?_,
          fun r hr => by simp [hd] at hr⟩ <;>
          (try simp only [k] at hx) <;> (try simp only [k]) <;> try omega
        · exact ⟨maps, hm, hc⟩
        · simpa using hrej
    · -- validators
      have hnh : ¬ holds (s.ls t) := fun hh => by have := hh.2; omega
      obtain ⟨maps, hm, hc⟩ := hL.src hd (by omega)
      have hs := hL.sch hd (by omega)
      rw [sl_validators hd (by rw [k]; exact g3)]
      cases hv : firstRejecting (s.ls t).cand nv with
      | some i =>
        rw [hc] at hv hs
        exact inv_finish h t inp hin _ hd (fun st => by simp [load, hm, hs, hv]) (fun hh => absurd hh hnh)
          (fun _ => load_fail_of schema nv inp _ (Or.inr ⟨maps, hm, Or.inr (Or.inl ⟨i, hv⟩)⟩))
          (fun hh => absurd hh hnh)
      | none =>
        refine inv_next_free h t inp hin _ hd (by omega) hnh ?_
        refine ⟨fun _ => ?_, fun _ hx => ?_, fun _ hx => ?_, fun _ hx => ?_, fun _ hx => ?_, fun _ hx => ?_,
          fun r hr => by simp [hd] at hr⟩ <;>
          (try simp only [k] at hx) <;> (try simp only [k]) <;> try omega
        all_goals first | exact ⟨maps, hm, hc⟩ | exact hs
    · -- lock
      have hnh : ¬ holds (s.ls t) := fun hh => by have := hh.2; omega
      obtain ⟨maps, hm, hc⟩ := hL.src hd (by omega)
      have hs := hL.sch hd (by omega)
      have hv := hL.val hd (by omega)
      rw [sl_lock hd (by rw [k]; exact g4)]
      split
      · rename_i hfree
        have hidle := h.idle hfree.1
        refine inv_frame h t inp hin (fun u e => by simp [next, upd_other _ _ _ _ e]) rfl rfl rfl ?_ ?_
          (Or.inr (Or.inl ⟨hfree.1, rfl⟩)) (fun _ => hfree.2)
          (fun u e hu => by rw [hfree.1] at hu; cases hu) ?_ ?_ rfl
        · simp only [next, upd_same]
          refine ⟨fun _ => ?_, fun _ hx => ?_, fun _ hx => ?_, fun _ hx => ?_, fun _ hx => ?_, fun _ hx => ?_,
          fun r hr => by simp [hd] at hr⟩ <;>
            (try simp only [k] at hx) <;> (try simp only [k]) <;> try omega
          all_goals first | exact ⟨maps, hm, hc⟩ | exact hs | exact hv
        · simp only [next, upd_same, holds]
          exact ⟨fun _ => ⟨hd, by omega⟩, fun _ => trivial⟩
        · intro hx; simp [next] at hx
        · intro _
          simp only [next, upd_same]
          exact ⟨fun _ => hidle, fun hx => by simp only [k] at hx; omega, fun hx => by simp only [k] at hx; omega⟩
      · exact h
    · -- deferUnlock
      have hh : holds (s.ls t) := ⟨hd, by omega⟩
      have hw := hown.mpr hh
      have hR := h.held t inp hw hin
      obtain ⟨maps, hm, hc⟩ := hL.src hd (by omega)
      have hs := hL.sch hd (by omega)
      have hv := hL.val hd (by omega)
      rw [sl_deferUnlock hd (by rw [k]; exact g5)]
      refine inv_next_held h t inp hin hw s.values s.bound _ hd (by simp only []; omega) ?_ ?_
      · refine ⟨fun _ => ?_, fun _ hx => ?_, fun _ hx => ?_, fun _ hx => ?_, fun _ hx => ?_, fun _ hx => ?_,
          fun r hr => by simp [hd] at hr⟩ <;>
          (try simp only [k] at hx) <;> (try simp only [k]) <;> try omega
        all_goals first | exact ⟨maps, hm, hc⟩ | exact hs | exact hv
      · exact ⟨fun _ => hR.early (by omega), fun hx => by simp only [k] at hx; omega, fun hx => by simp only [k] at hx; omega⟩
    · -- bindAndValidate
      have hh : holds (s.ls t) := ⟨hd, by omega⟩
      have hw := hown.mpr hh
      have hR := h.held t inp hw hin
      obtain ⟨maps, hm, hc⟩ := hL.src hd (by omega)
      have hs := hL.sch hd (by omega)
      have hv := hL.val hd (by omega)
      have hdf := hL.dfT hd (by omega)
      rw [sl_bindAndValidate hd (by rw [k]; exact g6)]
      have hnext : inp.bind ≠ some .reject → Inv schema nv inputs st0 (next s t (s.ls t)) := by
        intro hb
        refine inv_next_held h t inp hin hw s.values s.bound _ hd (by omega) ?_ ?_
        · refine ⟨fun _ => ?_, fun _ hx => ?_, fun _ hx => ?_, fun _ hx => ?_, fun _ hx => ?_, fun _ hx => ?_,
          fun r hr => by simp [hd] at hr⟩ <;>
            (try simp only [k] at hx) <;> (try simp only [k]) <;> try omega
          all_goals first | exact ⟨maps, hm, hc⟩ | exact hs | exact hv | exact hdf | exact hb
        · exact ⟨fun _ => hR.early (by omega), fun hx => by simp only [k] at hx; omega, fun hx => by simp only [k] at hx; omega⟩
      rcases hb : inp.bind with _ | f | _
      · exact hnext (by rw [hb]; simp)
      · exact hnext (by rw [hb]; simp)
      · exact inv_finish h t inp hin _ hd (fun st => by rw [hc] at hs hv; simp [load, hm, hs, hv, hb]) (fun _ => hdf)
          (fun hn => absurd hh hn)
          (fun _ => by
            rw [load_fail_of schema nv inp _ (Or.inr ⟨maps, hm, Or.inr (Or.inr hb)⟩)]
            exact hR.early (by omega))
    · -- bind
      have hh : holds (s.ls t) := ⟨hd, by omega⟩
      have hw := hown.mpr hh
      have hR := h.held t inp hw hin
      obtain ⟨maps, hm, hc⟩ := hL.src hd (by omega)
      have hs := hL.sch hd (by omega)
      have hv := hL.val hd (by omega)
      have hdf := hL.dfT hd (by omega)
      have hb := hL.bnd hd (by omega)
      have hca : s.conc = (absOf schema nv inputs st0 s.ops).1 := hR.early (by omega)
      rw [sl_bind hd (by rw [k]; exact g7)]
      have hloc : Local schema nv inp { s.ls t with pc := (s.ls t).pc + 1 } := by
        refine ⟨fun _ => ?_, fun _ hx => ?_, fun _ hx => ?_, fun _ hx => ?_, fun _ hx => ?_, fun _ hx => ?_,
          fun r hr => by simp [hd] at hr⟩ <;>
          (try simp only [k] at hx) <;> (try simp only [k]) <;> try omega
        all_goals first | exact ⟨maps, hm, hc⟩ | exact hs | exact hv | exact hdf | exact hb
      rcases hbb : inp.bind with _ | f | _
      · refine inv_next_held h t inp hin hw s.values s.bound _ hd (by omega) hloc ?_
        refine ⟨fun hx => by simp only [k] at hx; omega, fun _ => ?_, fun hx => by simp only [k] at hx; omega⟩
        rw [← hca]; exact ⟨rfl, by simp [hbb, Sys.conc]⟩
      · refine inv_next_held h t inp hin hw s.values f _ hd (by omega) hloc ?_
        refine ⟨fun hx => by simp only [k] at hx; omega, fun _ => ?_, fun hx => by simp only [k] at hx; omega⟩
        rw [← hca]; exact ⟨rfl, by simp [hbb]⟩
      · exact absurd hbb hb
    · -- swap
      have hh : holds (s.ls t) := ⟨hd, by omega⟩
      have hw := hown.mpr hh
      have hR := h.held t inp hw hin
      obtain ⟨maps, hm, hc⟩ := hL.src hd (by omega)
      have hs := hL.sch hd (by omega)
      have hv := hL.val hd (by omega)
      have hdf := hL.dfT hd (by omega)
      have hb := hL.bnd hd (by omega)
      obtain ⟨_, hbd⟩ := hR.mid k
      rw [sl_swap hd (by rw [k]; exact g8)]
      refine inv_next_held h t inp hin hw (s.ls t).cand s.bound _ hd (by omega) ?_ ?_
      · refine ⟨fun _ => ?_, fun _ hx => ?_, fun _ hx => ?_, fun _ hx => ?_, fun _ hx => ?_, fun _ hx => ?_,
          fun r hr => by simp [hd] at hr⟩ <;>
          (try simp only [k] at hx) <;> (try simp only [k]) <;> try omega
        all_goals first | exact ⟨maps, hm, hc⟩ | exact hs | exact hv | exact hdf | exact hb
      · refine ⟨fun hx => by simp only [k] at hx; omega, fun hx => by simp only [k] at hx; omega, fun _ => ?_⟩
        rw [load_ok_of schema nv inp _ maps hm (by rw [← hc]; exact hs) (by rw [← hc]; exact hv) hb, hc]
        have hbd' : s.bound = _ := hbd
        rw [hbd']
    · -- retNil
      have hh : holds (s.ls t) := ⟨hd, by omega⟩
      have hw := hown.mpr hh
      have hR := h.held t inp hw hin
      rw [sl_retNil hd (by rw [k]; exact g9)]
      obtain ⟨maps, hm, hc⟩ := hL.src hd (by omega)
      have hs := hL.sch hd (by omega)
      have hv := hL.val hd (by omega)
      have hb := hL.bnd hd (by omega)
      rw [hc] at hs hv
      refine inv_finish h t inp hin _ hd (fun st => ?_) (fun _ => hL.dfT hd (by omega)) (fun hn => absurd hh hn)
        (fun _ => hR.late k)
      simp only [load, hm, hs, hv]
      rcases hbb : inp.bind with _ | f | _
      · rfl
      · rfl
      · exact absurd hbb hb

/-- every step of every thread preserves the invariant -/
theorem inv_step {s : Sys} (h : Inv schema nv inputs st0 s) (a : Act) :
    Inv schema nv inputs st0 (step modelLoad schema nv inputs s a) := by
  cases a with
  | loader t =>
    simp only [step]
    cases hin : inputs[t]? with
    | none => exact h
    | some inp => exact inv_loader h t inp hin
  | reader r => exact inv_reader h r

theorem inv_run {s : Sys} (h : Inv schema nv inputs st0 s) (sched : List Act) :
    Inv schema nv inputs st0 (run modelLoad schema nv inputs s sched) := by
  induction sched generalizing s with
  | nil => exact h
  | cons a rest ih => exact ih (inv_step h a)

/-! ### the coarse `runSched` on the linearisation -/

/-- `runSched`, forwards, returning the final state as well -/
def coarse (schema : Bool) (nv : Nat) (inputs : List LoadInput) : State → List Op → State × List (Nat × Kvs)
  | st, [] => (st, [])
  | st, .commit i :: rest =>
    match inputs[i]? with
    | some inp => coarse schema nv inputs (load schema nv st inp).1 rest
    | none => coarse schema nv inputs st rest
  | st, .read r :: rest =>
    let c := coarse schema nv inputs st rest
    (c.1, (r, st.values) :: c.2)

theorem runSched_coarse (st : State) (ops : List Op) (acc : List (Nat × Kvs)) :
    runSched schema nv inputs st ops acc = acc.reverse ++ (coarse schema nv inputs st ops).2 := by
  induction ops generalizing st acc with
  | nil => simp [runSched, coarse]
  | cons op rest ih =>
    cases op with
    | commit i =>
      simp only [runSched, coarse]
      cases inputs[i]? <;> simp [ih]
    | read r => simp [runSched, coarse, ih]

theorem coarse_snoc (st : State) (ops : List Op) (op : Op) :
    coarse schema nv inputs st (ops ++ [op]) =
      (let c := coarse schema nv inputs st ops
       match op with
       | .commit i => (match inputs[i]? with | some inp => (load schema nv c.1 inp).1 | none => c.1, c.2)
       | .read r => (c.1, c.2 ++ [(r, c.1.values)])) := by
  induction ops generalizing st with
  | nil => cases op <;> simp [coarse] <;> split <;> simp
  | cons o rest ih =>
    cases o with
    | commit i =>
      simp only [List.cons_append, coarse]
      cases inputs[i]? <;> simp only [] <;> rw [ih]
    | read r =>
      simp only [List.cons_append, coarse]
      rw [ih]
      cases op <;> simp

theorem absOf_coarse (ops : List Op) :
    absOf schema nv inputs st0 ops =
      ((coarse schema nv inputs st0 ops.reverse).1, (coarse schema nv inputs st0 ops.reverse).2.reverse) := by
  induction ops with
  | nil => simp [absOf, coarse]
  | cons op rest ih =>
    cases op with
    | commit i => simp only [absOf, List.reverse_cons, coarse_snoc, ih]; cases inputs[i]? <;> rfl
    | read r => simp [absOf, List.reverse_cons, coarse_snoc, ih]

end Rivaas.ConfigSM
