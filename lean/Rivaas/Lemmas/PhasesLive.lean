import Rivaas.Lemmas.PhasesSim
/-
C12 — deadlock freedom of the goroutine-level model ("Freeze and Warmup are safe to call from many
goroutines"): an ownership invariant — a `Once` body that has been entered and not left is owned by
exactly one live goroutine; goroutines blocked on a `Once` exist only while it is running — and from it:
in every reachable state in which some goroutine has not finished, some goroutine can take an effective step.
-/
namespace Rivaas.Phases

def frun (f : FPc) : Bool := f = .flags || f = .inWarmup || f = .tail
def wrun (w : WPc) : Bool := w = .drained || w = .registered || w = .compiled

/-- the freeze owner is the goroutine inside `doWarmup` -/
def nested (s : St) : Bool := s.wByFreeze && s.core.fpc == .inWarmup

structure Own (s : St) : Prop where
  f_one : s.status.count .inFreeze = if frun s.core.fpc then 1 else 0
  w_one : s.status.count .inWarmup + (if nested s then 1 else 0) = if wrun s.core.wpc then 1 else 0
  bf : 0 < s.status.count .blockedF → frun s.core.fpc = true
  bw : 0 < s.status.count .blockedW → wrun s.core.wpc = true

/-- positions that only some kinds of goroutine can be in -/
structure WT (kinds : List Kind) (s : St) : Prop where
  entry : ∀ i : Nat, s.status[i]? = some Status.atEntry → ∃ t v g, kinds[i]? = some (Kind.request t v g)
  frozen : ∀ i : Nat, s.status[i]? = some Status.atFrozen → ∃ t v g, kinds[i]? = some (Kind.request t v g)
  checked : ∀ i : Nat, s.status[i]? = some Status.atChecked → ∃ r, kinds[i]? = some (Kind.register r)
  len : s.status.length = kinds.length

/-! ### counting -/

theorem lemma_count_cons (a x : Status) (t : List Status) :
    (a :: t).count x = t.count x + (if a = x then 1 else 0) := by
  rw [List.count_cons]
  by_cases h : a = x
  · have : (a == x) = true := by simpa using h
    simp [h]
  · have : (a == x) = false := by simpa using h
    simp [this, h]

theorem lemma_count_set (l : List Status) (i : Nat) (old new x : Status) (h : l[i]? = some old) :
    (l.set i new).count x + (if old = x then 1 else 0) = l.count x + (if new = x then 1 else 0) := by
  induction l generalizing i with
  | nil => simp at h
  | cons a t ih =>
    cases i with
    | zero =>
      simp only [List.getElem?_cons_zero, Option.some.injEq] at h
      subst h
      simp only [List.set_cons_zero, lemma_count_cons]
      omega
    | succ j =>
      simp only [List.getElem?_cons_succ] at h
      have := ih j h
      simp only [List.set_cons_succ, lemma_count_cons]
      omega

theorem lemma_count_pos (l : List Status) (x : Status) : 0 < l.count x ↔ ∃ i : Nat, l[i]? = some x := by
  rw [List.count_pos_iff, List.mem_iff_getElem?]

theorem lemma_count_map_fix (l : List Status) (f : Status → Status) (x : Status)
    (h : ∀ y, f y = x ↔ y = x) : (l.map f).count x = l.count x := by
  induction l with
  | nil => rfl
  | cons a t ih =>
    simp only [List.map_cons, List.count_cons, ih]
    by_cases ha : a = x
    · have : f a = x := (h a).2 ha
      have hb1 : (f a == x) = true := by simpa using this
      have hb2 : (a == x) = true := by simpa using ha
      rw [hb1, hb2]
    · have : f a ≠ x := fun e => ha ((h a).1 e)
      have hb1 : (f a == x) = false := by simpa using this
      have hb2 : (a == x) = false := by simpa using ha
      rw [hb1, hb2]

theorem lemma_count_map_none (l : List Status) (f : Status → Status) (x : Status)
    (h : ∀ y, f y ≠ x) : (l.map f).count x = 0 := by
  rw [List.count_eq_zero]
  intro hm
  obtain ⟨y, _, hy⟩ := List.mem_map.1 hm
  exact h y hy

def wakeWf (st : Status) : Status := if st = .blockedW then .finished else st

theorem lemma_wakeW_status (s : St) : (wakeW s).status = s.status.map wakeWf := rfl

theorem lemma_wakeW_counts (s : St) :
    (wakeW s).status.count .inFreeze = s.status.count .inFreeze ∧
    (wakeW s).status.count .inWarmup = s.status.count .inWarmup ∧
    (wakeW s).status.count .blockedF = s.status.count .blockedF ∧
    (wakeW s).status.count .blockedW = 0 := by
  rw [lemma_wakeW_status]
  refine ⟨lemma_count_map_fix _ _ _ ?_, lemma_count_map_fix _ _ _ ?_, lemma_count_map_fix _ _ _ ?_,
    lemma_count_map_none _ _ _ ?_⟩
  all_goals intro y; cases y <;> simp [wakeWf]

def wakeFf (p : Status × Kind) : Status := if p.1 = .blockedF then afterFreeze p.2 else p.1

theorem lemma_wakeF_status (kinds : List Kind) (s : St) :
    (wakeF kinds s).status = (s.status.zip kinds).map wakeFf := rfl

theorem lemma_afterFreeze_ne (k : Kind) :
    afterFreeze k ≠ .inFreeze ∧ afterFreeze k ≠ .inWarmup ∧ afterFreeze k ≠ .blockedF ∧ afterFreeze k ≠ .blockedW ∧
    afterFreeze k ≠ .atEntry ∧ afterFreeze k ≠ .atChecked := by
  cases k <;> simp [afterFreeze]

theorem lemma_count_zip_fix (l : List Status) (ks : List Kind) (x : Status) (hlen : l.length = ks.length)
    (h : ∀ p : Status × Kind, wakeFf p = x ↔ p.1 = x) : ((l.zip ks).map wakeFf).count x = l.count x := by
  induction l generalizing ks with
  | nil => simp
  | cons a t ih =>
    cases ks with
    | nil => simp at hlen
    | cons k ks' =>
      simp only [List.zip_cons_cons, List.map_cons, List.count_cons]
      rw [ih ks' (by simpa using hlen)]
      by_cases ha : a = x
      · have : wakeFf (a, k) = x := (h (a, k)).2 ha
        have hb1 : (wakeFf (a, k) == x) = true := by simpa using this
        have hb2 : (a == x) = true := by simpa using ha
        rw [hb1, hb2]
      · have : wakeFf (a, k) ≠ x := fun e => ha ((h (a, k)).1 e)
        have hb1 : (wakeFf (a, k) == x) = false := by simpa using this
        have hb2 : (a == x) = false := by simpa using ha
        rw [hb1, hb2]

theorem lemma_wakeF_counts (kinds : List Kind) (s : St) (hlen : s.status.length = kinds.length) :
    (wakeF kinds s).status.count .inFreeze = s.status.count .inFreeze ∧
    (wakeF kinds s).status.count .inWarmup = s.status.count .inWarmup ∧
    (wakeF kinds s).status.count .blockedW = s.status.count .blockedW ∧
    (wakeF kinds s).status.count .blockedF = 0 := by
  rw [lemma_wakeF_status]
  have hne := lemma_afterFreeze_ne
  refine ⟨lemma_count_zip_fix _ _ _ hlen ?_, lemma_count_zip_fix _ _ _ hlen ?_,
    lemma_count_zip_fix _ _ _ hlen ?_, ?_⟩
  · rintro ⟨st, k⟩
    simp only [wakeFf]
    split
    · rename_i hb; simp [hb, (hne k).1]
    · simp
  · rintro ⟨st, k⟩
    simp only [wakeFf]
    split
    · rename_i hb; simp [hb, (hne k).2.1]
    · simp
  · rintro ⟨st, k⟩
    simp only [wakeFf]
    split
    · rename_i hb; simp [hb, (hne k).2.2.2.1]
    · simp
  · rw [List.count_eq_zero]
    intro hm
    obtain ⟨⟨st, k⟩, _, hy⟩ := List.mem_map.1 hm
    simp only [wakeFf] at hy
    split at hy
    · exact (hne k).2.2.1 hy
    · rename_i hb; exact hb hy


/-! ### the ownership invariant depends on four counts and three fields -/

theorem lemma_own_of_sig (s s' : St)
    (h1 : s'.status.count .inFreeze = s.status.count .inFreeze)
    (h2 : s'.status.count .inWarmup = s.status.count .inWarmup)
    (h3 : s'.status.count .blockedF = s.status.count .blockedF)
    (h4 : s'.status.count .blockedW = s.status.count .blockedW)
    (h5 : s'.core.fpc = s.core.fpc) (h6 : s'.core.wpc = s.core.wpc) (h7 : s'.wByFreeze = s.wByFreeze)
    (hO : Own s) : Own s' :=
  { f_one := by rw [h1, h5]; exact hO.f_one
    w_one := by
      have : nested s' = nested s := by simp [nested, h5, h7]
      rw [h2, h6, this]; exact hO.w_one
    bf := by rw [h3, h5]; exact hO.bf
    bw := by rw [h4, h6]; exact hO.bw }

/-- a status that takes no part in the ownership invariant -/
def neutral (st : Status) : Bool :=
  st != .inFreeze && st != .inWarmup && st != .blockedF && st != .blockedW

theorem lemma_count_set_neutral (l : List Status) (i : Nat) (old new x : Status) (h : l[i]? = some old)
    (ho : old ≠ x) (hn : new ≠ x) : (l.set i new).count x = l.count x := by
  have := lemma_count_set l i old new x h
  simp only [ho, hn, if_false] at this
  omega

theorem lemma_own_set_neutral (s : St) (i : Nat) (old new : Status) (h : s.status[i]? = some old)
    (ho : neutral old = true) (hn : neutral new = true) (core' : Core)
    (hf : core'.fpc = s.core.fpc) (hw : core'.wpc = s.core.wpc) (hO : Own s) :
    Own (setStatus { s with core := core' } i new) := by
  simp only [neutral, Bool.and_eq_true, bne_iff_ne, ne_eq] at ho hn
  exact lemma_own_of_sig s _
    (lemma_count_set_neutral _ i old new _ h ho.1.1.1 hn.1.1.1)
    (lemma_count_set_neutral _ i old new _ h ho.1.1.2 hn.1.1.2)
    (lemma_count_set_neutral _ i old new _ h ho.1.2 hn.1.2)
    (lemma_count_set_neutral _ i old new _ h ho.2 hn.2) hf hw rfl hO

/-- mutations do not move the two program positions -/
theorem lemma_mut_ctl (c : Core) (op : Op) (h : op.isBody = false) :
    (c.step op).fpc = c.fpc ∧ (c.step op).wpc = c.wpc := by
  cases op with
  | register r =>
    simp only [Core.step]
    split
    · exact ⟨rfl, rfl⟩
    · split
      · exact ⟨rfl, rfl⟩
      · split
        · exact ⟨(lemma_reg_fields _ r).2.2.2.2.2.2.2.2.1, (lemma_reg_fields _ r).2.2.2.2.2.2.2.2.2⟩
        · exact ⟨rfl, rfl⟩
  | whereInt r =>
    simp only [Core.step]
    split
    · exact ⟨rfl, rfl⟩
    · split
      · exact ⟨rfl, rfl⟩
      · split
        · exact ⟨(lemma_reg_fields _ r).2.2.2.2.2.2.2.2.1, (lemma_reg_fields _ r).2.2.2.2.2.2.2.2.2⟩
        · exact ⟨rfl, rfl⟩
  | setName r =>
    simp only [Core.step]
    split
    · exact ⟨rfl, rfl⟩
    · split <;> exact ⟨rfl, rfl⟩
  | enterFreeze => simp [Op.isBody] at h
  | freezeCallWarmup => simp [Op.isBody] at h
  | enterWarmup => simp [Op.isBody] at h
  | warmupStep => simp [Op.isBody] at h
  | freezeFinish => simp [Op.isBody] at h


/-! ### `Own` under every kind of step -/

theorem lemma_afterFreeze_neutral (k : Kind) : neutral (afterFreeze k) = true := by
  cases k <;> simp [afterFreeze, neutral]

theorem lemma_own_callFreeze (s : St) (i : Nat) (k : Kind) (st : Status) (hs : s.status[i]? = some st)
    (hn : neutral st = true) (hO : Own s) : Own (callFreeze s i k) := by
  unfold callFreeze
  have hn' := hn
  simp only [neutral, Bool.and_eq_true, bne_iff_ne, ne_eq] at hn'
  cases hf : s.core.fpc with
  | done =>
    exact lemma_own_set_neutral s i st _ hs hn (lemma_afterFreeze_neutral k) s.core rfl rfl hO
  | idle =>
    simp only
    have hcore : (s.core.step .enterFreeze) = { s.core with serving := true, frozen := true, fpc := .flags } := by
      simp [Core.step, hf]
    have h0 : s.status.count .inFreeze = 0 := by have := hO.f_one; simpa [hf, frun] using this
    have hc := lemma_count_set s.status i st .inFreeze .inFreeze hs
    simp only [hn'.1.1.1, if_false, if_true] at hc
    exact
      { f_one := by
          show (s.status.set i .inFreeze).count .inFreeze = if frun (s.core.step .enterFreeze).fpc then 1 else 0
          rw [hcore]; simp [frun]; omega
        w_one := by
          show (s.status.set i .inFreeze).count .inWarmup + (if nested _ then 1 else 0) = _
          have hnest : nested (setStatus { s with core := s.core.step .enterFreeze } i .inFreeze) = false := by
            simp [nested, setStatus, hcore]
          have hnest0 : nested s = false := by simp [nested, hf]
          have := hO.w_one
          rw [hnest0] at this
          rw [hnest, lemma_count_set_neutral _ i st .inFreeze _ hs hn'.1.1.2 (by simp), hcore]
          exact this
        bf := by intro _; show frun (s.core.step .enterFreeze).fpc = true; rw [hcore]; rfl
        bw := by
          show 0 < (s.status.set i .inFreeze).count .blockedW → wrun (s.core.step .enterFreeze).wpc = true
          rw [lemma_count_set_neutral _ i st .inFreeze _ hs hn'.2 (by simp), hcore]
          exact hO.bw }
  | flags =>
    simp only
    have hc := lemma_count_set s.status i st .blockedF .blockedF hs
    exact
      { f_one := by
          show (s.status.set i .blockedF).count .inFreeze = _
          rw [lemma_count_set_neutral _ i st .blockedF _ hs hn'.1.1.1 (by simp)]; exact hO.f_one
        w_one := by
          show (s.status.set i .blockedF).count .inWarmup + _ = _
          rw [lemma_count_set_neutral _ i st .blockedF _ hs hn'.1.1.2 (by simp)]; exact hO.w_one
        bf := by intro _; show frun s.core.fpc = true; rw [hf]; rfl
        bw := by
          show 0 < (s.status.set i .blockedF).count .blockedW → _
          rw [lemma_count_set_neutral _ i st .blockedF _ hs hn'.2 (by simp)]; exact hO.bw }
  | inWarmup =>
    simp only
    exact
      { f_one := by
          show (s.status.set i .blockedF).count .inFreeze = _
          rw [lemma_count_set_neutral _ i st .blockedF _ hs hn'.1.1.1 (by simp)]; exact hO.f_one
        w_one := by
          show (s.status.set i .blockedF).count .inWarmup + _ = _
          rw [lemma_count_set_neutral _ i st .blockedF _ hs hn'.1.1.2 (by simp)]; exact hO.w_one
        bf := by intro _; show frun s.core.fpc = true; rw [hf]; rfl
        bw := by
          show 0 < (s.status.set i .blockedF).count .blockedW → _
          rw [lemma_count_set_neutral _ i st .blockedF _ hs hn'.2 (by simp)]; exact hO.bw }
  | tail =>
    simp only
    exact
      { f_one := by
          show (s.status.set i .blockedF).count .inFreeze = _
          rw [lemma_count_set_neutral _ i st .blockedF _ hs hn'.1.1.1 (by simp)]; exact hO.f_one
        w_one := by
          show (s.status.set i .blockedF).count .inWarmup + _ = _
          rw [lemma_count_set_neutral _ i st .blockedF _ hs hn'.1.1.2 (by simp)]; exact hO.w_one
        bf := by intro _; show frun s.core.fpc = true; rw [hf]; rfl
        bw := by
          show 0 < (s.status.set i .blockedF).count .blockedW → _
          rw [lemma_count_set_neutral _ i st .blockedF _ hs hn'.2 (by simp)]; exact hO.bw }


theorem lemma_drain_ctl (c : Core) : (drain c).fpc = c.fpc ∧ (drain c).wpc = .drained := ⟨rfl, rfl⟩

/-- an explicit `Warmup()` begins -/
theorem lemma_own_warmupStart (s : St) (i : Nat) (hs : s.status[i]? = some .start) (hO : Own s) :
    Own (stepActor [] s i .warmup .start).1 := by
  simp only [stepActor]
  cases hw : s.core.wpc with
  | done => exact lemma_own_set_neutral s i .start .finished hs rfl rfl s.core rfl rfl hO
  | idle =>
    simp only
    have hcore : s.core.step .enterWarmup = drain s.core := by simp [Core.step, hw]
    have hw0 := hO.w_one
    have hwr : wrun s.core.wpc = false := by rw [hw]; rfl
    rw [hwr] at hw0
    simp only [Bool.false_eq_true, if_false] at hw0
    have hcnt0 : s.status.count .inWarmup = 0 := by omega
    have hnest0 : nested s = false := by
      cases hn : nested s with
      | false => rfl
      | true => rw [hn] at hw0; simp at hw0
    have hc := lemma_count_set s.status i .start .inWarmup .inWarmup hs
    simp only [if_true] at hc
    exact
      { f_one := by
          show (s.status.set i .inWarmup).count .inFreeze = if frun (s.core.step .enterWarmup).fpc then 1 else 0
          rw [lemma_count_set_neutral _ i .start .inWarmup _ hs (by simp) (by simp), hcore]; exact hO.f_one
        w_one := by
          show (s.status.set i .inWarmup).count .inWarmup + (if nested _ then 1 else 0) =
            if wrun (s.core.step .enterWarmup).wpc then 1 else 0
          have hnest : nested (setStatus { s with core := s.core.step .enterWarmup } i .inWarmup) = nested s := by
            simp [nested, setStatus, hcore, drain]
          rw [hnest, hnest0, hcore]
          simp [drain, wrun]
          simp at hc
          omega
        bf := by
          show 0 < (s.status.set i .inWarmup).count .blockedF → frun (s.core.step .enterWarmup).fpc = true
          rw [lemma_count_set_neutral _ i .start .inWarmup _ hs (by simp) (by simp), hcore]; exact hO.bf
        bw := by intro _; show wrun (s.core.step .enterWarmup).wpc = true; rw [hcore]; rfl }
  | drained =>
    simp only
    exact
      { f_one := by
          show (s.status.set i .blockedW).count .inFreeze = _
          rw [lemma_count_set_neutral _ i .start .blockedW _ hs (by simp) (by simp)]; exact hO.f_one
        w_one := by
          show (s.status.set i .blockedW).count .inWarmup + _ = _
          rw [lemma_count_set_neutral _ i .start .blockedW _ hs (by simp) (by simp)]; exact hO.w_one
        bf := by
          show 0 < (s.status.set i .blockedW).count .blockedF → _
          rw [lemma_count_set_neutral _ i .start .blockedW _ hs (by simp) (by simp)]; exact hO.bf
        bw := by intro _; show wrun s.core.wpc = true; rw [hw]; rfl }
  | registered =>
    simp only
    exact
      { f_one := by
          show (s.status.set i .blockedW).count .inFreeze = _
          rw [lemma_count_set_neutral _ i .start .blockedW _ hs (by simp) (by simp)]; exact hO.f_one
        w_one := by
          show (s.status.set i .blockedW).count .inWarmup + _ = _
          rw [lemma_count_set_neutral _ i .start .blockedW _ hs (by simp) (by simp)]; exact hO.w_one
        bf := by
          show 0 < (s.status.set i .blockedW).count .blockedF → _
          rw [lemma_count_set_neutral _ i .start .blockedW _ hs (by simp) (by simp)]; exact hO.bf
        bw := by intro _; show wrun s.core.wpc = true; rw [hw]; rfl }
  | compiled =>
    simp only
    exact
      { f_one := by
          show (s.status.set i .blockedW).count .inFreeze = _
          rw [lemma_count_set_neutral _ i .start .blockedW _ hs (by simp) (by simp)]; exact hO.f_one
        w_one := by
          show (s.status.set i .blockedW).count .inWarmup + _ = _
          rw [lemma_count_set_neutral _ i .start .blockedW _ hs (by simp) (by simp)]; exact hO.w_one
        bf := by
          show 0 < (s.status.set i .blockedW).count .blockedF → _
          rw [lemma_count_set_neutral _ i .start .blockedW _ hs (by simp) (by simp)]; exact hO.bf
        bw := by intro _; show wrun s.core.wpc = true; rw [hw]; rfl }


theorem lemma_ctl (c : Core) (op : Op)
    (h : op = .enterFreeze ∨ op = .freezeCallWarmup ∨ op = .warmupStep ∨ op = .freezeFinish) :
    (c.step op).fpc = (ctlStep (c.fpc, c.wpc) op).1 ∧ (c.step op).wpc = (ctlStep (c.fpc, c.wpc) op).2 := by
  have := lemma_ctlStep c op h
  exact ⟨congrArg Prod.fst this, congrArg Prod.snd this⟩

theorem lemma_wpc_cases (w : WPc) : w = .idle ∨ w = .drained ∨ w = .registered ∨ w = .compiled ∨ w = .done := by
  cases w <;> simp

/-- control effect of the three body operations of the freeze owner, by case -/
theorem lemma_fcw (c : Core) (hf : c.fpc = .flags) :
    (c.wpc = .done → (c.step .freezeCallWarmup).fpc = .tail ∧ (c.step .freezeCallWarmup).wpc = .done) ∧
    (c.wpc = .idle → (c.step .freezeCallWarmup).fpc = .inWarmup ∧ (c.step .freezeCallWarmup).wpc = .drained) ∧
    (wrun c.wpc = true → (c.step .freezeCallWarmup).fpc = .inWarmup ∧ (c.step .freezeCallWarmup).wpc = c.wpc) := by
  obtain ⟨h1, h2⟩ := lemma_ctl c .freezeCallWarmup (by simp)
  rw [hf] at h1 h2
  refine ⟨?_, ?_, ?_⟩
  · intro hw; rw [hw] at h1 h2; simp [ctlStep] at h1 h2; exact ⟨h1, h2⟩
  · intro hw; rw [hw] at h1 h2; simp [ctlStep] at h1 h2; exact ⟨h1, h2⟩
  · intro hw
    rcases lemma_wpc_cases c.wpc with h | h | h | h | h <;> rw [h] at hw h1 h2 <;> simp [wrun] at hw <;>
      simp [ctlStep] at h1 h2 <;> exact ⟨h1, by rw [h]; exact h2⟩

theorem lemma_ws (c : Core) :
    (c.wpc = .drained → (c.step .warmupStep).fpc = c.fpc ∧ (c.step .warmupStep).wpc = .registered) ∧
    (c.wpc = .registered → (c.step .warmupStep).fpc = c.fpc ∧ (c.step .warmupStep).wpc = .compiled) ∧
    (c.wpc = .compiled → (c.step .warmupStep).fpc = (if c.fpc = .inWarmup then .tail else c.fpc) ∧
        (c.step .warmupStep).wpc = .done) ∧
    (wrun c.wpc = false → (c.step .warmupStep).fpc = c.fpc ∧ (c.step .warmupStep).wpc = c.wpc) := by
  obtain ⟨h1, h2⟩ := lemma_ctl c .warmupStep (by simp)
  refine ⟨?_, ?_, ?_, ?_⟩
  · intro hw; rw [hw] at h1 h2; simp [ctlStep] at h1 h2; exact ⟨h1, h2⟩
  · intro hw; rw [hw] at h1 h2; simp [ctlStep] at h1 h2; exact ⟨h1, h2⟩
  · intro hw; rw [hw] at h1 h2; simp [ctlStep] at h1 h2; exact ⟨h1, h2⟩
  · intro hw
    rcases lemma_wpc_cases c.wpc with h | h | h | h | h <;> rw [h] at hw h1 h2 <;> simp [wrun] at hw <;>
      simp [ctlStep] at h1 h2 <;> exact ⟨h1, by rw [h]; exact h2⟩

theorem lemma_ff (c : Core) (hf : c.fpc = .tail) :
    (c.step .freezeFinish).fpc = .done ∧ (c.step .freezeFinish).wpc = c.wpc := by
  obtain ⟨h1, h2⟩ := lemma_ctl c .freezeFinish (by simp)
  rw [hf] at h1 h2
  simp [ctlStep] at h1 h2
  exact ⟨h1, h2⟩

/-- `Own` for a state whose status list is unchanged -/
theorem lemma_own_same_status (s : St) (core' : Core) (w' : Bool) (hO : Own s)
    (hf : frun core'.fpc = frun s.core.fpc)
    (hw : (if nested { s with core := core', wByFreeze := w' } then 1 else 0) + (if wrun s.core.wpc then 1 else 0) =
          (if nested s then 1 else 0) + (if wrun core'.wpc then 1 else 0))
    (hbw : wrun s.core.wpc = true → wrun core'.wpc = true) :
    Own { s with core := core', wByFreeze := w' } :=
  { f_one := by show s.status.count .inFreeze = _; rw [hf]; exact hO.f_one
    w_one := by
      show s.status.count .inWarmup + (if nested { s with core := core', wByFreeze := w' } then 1 else 0) =
        if wrun core'.wpc then 1 else 0
      have := hO.w_one
      omega
    bf := by show _ → frun core'.fpc = true; rw [hf]; exact hO.bf
    bw := by intro hx; exact hbw (hO.bw hx) }

/-- the owner of the `freezeOnce` body takes a step -/
theorem lemma_own_inFreeze (kinds : List Kind) (s : St) (i : Nat) (k : Kind)
    (hs : s.status[i]? = some .inFreeze) (hI : Inv s.core) (hlen : s.status.length = kinds.length)
    (hO : Own s) : Own (stepActor kinds s i k .inFreeze).1 := by
  have hstep : (stepActor kinds s i k .inFreeze).1 =
      (match s.core.fpc with
        | .flags => { s with core := s.core.step .freezeCallWarmup, wByFreeze := decide (s.core.wpc = .idle) }
        | .inWarmup =>
          if s.wByFreeze then
            (if s.core.wpc = .compiled then wakeW { s with core := s.core.step .warmupStep }
             else { s with core := s.core.step .warmupStep })
          else s
        | .tail => setStatus (wakeF kinds { s with core := s.core.step .freezeFinish }) i (afterFreeze k)
        | _ => s) := by
    cases k <;> rfl
  rw [hstep]
  cases hf : s.core.fpc with
  | idle => exact hO
  | done => exact hO
  | flags =>
    simp only
    obtain ⟨hA, hB, hC⟩ := lemma_fcw s.core hf
    have hn0 : nested s = false := by simp [nested, hf]
    rcases lemma_wpc_cases s.core.wpc with hw | hw | hw | hw | hw
    · obtain ⟨hf', hw'⟩ := hB hw
      refine lemma_own_same_status s _ _ hO (by rw [hf', hf]; rfl) ?_ (by intro _; rw [hw']; rfl)
      have : nested { s with core := s.core.step .freezeCallWarmup, wByFreeze := decide (s.core.wpc = .idle) } = true := by
        simp [nested, hf', hw]
      rw [this, hn0, hw', hw]; rfl
    · obtain ⟨hf', hw'⟩ := hC (by rw [hw]; rfl)
      refine lemma_own_same_status s _ _ hO (by rw [hf', hf]; rfl) ?_ (by intro h; rw [hw']; exact h)
      have : nested { s with core := s.core.step .freezeCallWarmup, wByFreeze := decide (s.core.wpc = .idle) } = false := by
        simp [nested, hw]
      rw [this, hn0, hw']
    · obtain ⟨hf', hw'⟩ := hC (by rw [hw]; rfl)
      refine lemma_own_same_status s _ _ hO (by rw [hf', hf]; rfl) ?_ (by intro h; rw [hw']; exact h)
      have : nested { s with core := s.core.step .freezeCallWarmup, wByFreeze := decide (s.core.wpc = .idle) } = false := by
        simp [nested, hw]
      rw [this, hn0, hw']
    · obtain ⟨hf', hw'⟩ := hC (by rw [hw]; rfl)
      refine lemma_own_same_status s _ _ hO (by rw [hf', hf]; rfl) ?_ (by intro h; rw [hw']; exact h)
      have : nested { s with core := s.core.step .freezeCallWarmup, wByFreeze := decide (s.core.wpc = .idle) } = false := by
        simp [nested, hw]
      rw [this, hn0, hw']
    · obtain ⟨hf', hw'⟩ := hA hw
      refine lemma_own_same_status s _ _ hO (by rw [hf', hf]; rfl) ?_ (by intro h; rw [hw']; rw [hw] at h; exact h)
      have : nested { s with core := s.core.step .freezeCallWarmup, wByFreeze := decide (s.core.wpc = .idle) } = false := by
        simp [nested, hf']
      rw [this, hn0, hw', hw]
  | inWarmup =>
    simp only
    by_cases hwb : s.wByFreeze = true
    · rw [if_pos hwb]
      obtain ⟨hD, hR, hC, hN⟩ := lemma_ws s.core
      have hn1 : nested s = true := by simp [nested, hf, hwb]
      have hiw := hI.in_warmup hf
      rcases lemma_wpc_cases s.core.wpc with hw | hw | hw | hw | hw
      · exact absurd hw hiw.1
      · obtain ⟨hf', hw'⟩ := hD hw
        have hne : ¬ (s.core.wpc = WPc.compiled) := by rw [hw]; simp
        rw [if_neg hne]
        have := lemma_own_same_status s (s.core.step .warmupStep) s.wByFreeze hO (by rw [hf']) (by
          have : nested { s with core := s.core.step .warmupStep, wByFreeze := s.wByFreeze } = true := by
            simp [nested, hf', hf, hwb]
          rw [this, hn1, hw', hw]; rfl) (by intro _; rw [hw']; rfl)
        exact this
      · obtain ⟨hf', hw'⟩ := hR hw
        have hne : ¬ (s.core.wpc = WPc.compiled) := by rw [hw]; simp
        rw [if_neg hne]
        have := lemma_own_same_status s (s.core.step .warmupStep) s.wByFreeze hO (by rw [hf']) (by
          have : nested { s with core := s.core.step .warmupStep, wByFreeze := s.wByFreeze } = true := by
            simp [nested, hf', hf, hwb]
          rw [this, hn1, hw', hw]; rfl) (by intro _; rw [hw']; rfl)
        exact this
      · obtain ⟨hf', hw'⟩ := hC hw
        rw [hf] at hf'
        simp only [if_true] at hf'
        rw [if_pos hw]
        obtain ⟨c1, c2, c3, c4⟩ := lemma_wakeW_counts { s with core := s.core.step .warmupStep }
        have hfo := hO.f_one
        have hwo := hO.w_one
        rw [hn1, hw] at hwo
        have hcnt : s.status.count .inWarmup = 0 := by simp [wrun] at hwo; exact hwo
        exact
          { f_one := by
              show (wakeW _).status.count .inFreeze = if frun (s.core.step .warmupStep).fpc then 1 else 0
              rw [c1, hf']; rw [hf] at hfo; exact hfo
            w_one := by
              show (wakeW _).status.count .inWarmup + (if nested (wakeW _) then 1 else 0) =
                if wrun (s.core.step .warmupStep).wpc then 1 else 0
              have : nested (wakeW { s with core := s.core.step .warmupStep }) = false := by
                simp [nested, wakeW, hf']
              rw [c2, this, hw']
              show s.status.count .inWarmup + 0 = 0
              omega
            bf := by intro _; show frun (s.core.step .warmupStep).fpc = true; rw [hf']; rfl
            bw := by
              show 0 < (wakeW _).status.count .blockedW → _
              rw [c4]; intro hx; omega }
      · exact absurd hw hiw.2
    · rw [if_neg hwb]
      exact hO
  | tail =>
    simp only
    obtain ⟨hf', hw'⟩ := lemma_ff s.core hf
    have hwd : s.core.wpc = .done := hI.tail_done (Or.inl hf)
    obtain ⟨c1, c2, c3, c4⟩ := lemma_wakeF_counts kinds { s with core := s.core.step .freezeFinish } hlen
    have hfo := hO.f_one
    rw [hf] at hfo
    have hwo := hO.w_one
    have hn0 : nested s = false := by simp [nested, hf]
    rw [hn0, hwd] at hwo
    have hi : i < s.status.length := by
      rcases Nat.lt_or_ge i s.status.length with h | h
      · exact h
      · rw [List.getElem?_eq_none h] at hs; cases hs
    have hsi : (wakeF kinds { s with core := s.core.step .freezeFinish }).status[i]? = some .inFreeze := by
      rw [lemma_wakeF_status, List.getElem?_map]
      have hz : (s.status.zip kinds)[i]? = some (.inFreeze, kinds[i]'(hlen ▸ hi)) := by
        rw [List.getElem?_zip_eq_some]
        exact ⟨hs, by simp [hlen ▸ hi]⟩
      show Option.map wakeFf ((s.status.zip kinds)[i]?) = _
      rw [hz]
      simp [wakeFf]
    have hne := lemma_afterFreeze_ne k
    have g1 := lemma_count_set _ i .inFreeze (afterFreeze k) .inFreeze hsi
    have g2 := lemma_count_set_neutral _ i .inFreeze (afterFreeze k) .inWarmup hsi (by simp) hne.2.1
    have g3 := lemma_count_set_neutral _ i .inFreeze (afterFreeze k) .blockedF hsi (by simp) hne.2.2.1
    have g4 := lemma_count_set_neutral _ i .inFreeze (afterFreeze k) .blockedW hsi (by simp) hne.2.2.2.1
    simp only [hne.1, if_true, if_false] at g1
    exact
      { f_one := by
          show ((wakeF kinds _).status.set i (afterFreeze k)).count .inFreeze = if frun (s.core.step .freezeFinish).fpc then 1 else 0
          rw [hf']
          rw [c1] at g1
          have : s.status.count .inFreeze = 1 := by simpa [frun] using hfo
          show _ = 0
          have g1' : ((wakeF kinds { s with core := s.core.step .freezeFinish }).status.set i (afterFreeze k)).count .inFreeze + 1 =
              s.status.count .inFreeze + 0 := g1
          omega
        w_one := by
          show ((wakeF kinds _).status.set i (afterFreeze k)).count .inWarmup + (if nested _ then 1 else 0) =
            if wrun (s.core.step .freezeFinish).wpc then 1 else 0
          have : nested (setStatus (wakeF kinds { s with core := s.core.step .freezeFinish }) i (afterFreeze k)) = false := by
            simp [nested, setStatus, wakeF, hf']
          rw [this, g2, c2, hw', hwd]
          exact hwo
        bf := by
          show 0 < ((wakeF kinds _).status.set i (afterFreeze k)).count .blockedF → _
          rw [g3, c4]; intro hx; omega
        bw := by
          show 0 < ((wakeF kinds _).status.set i (afterFreeze k)).count .blockedW → wrun (s.core.step .freezeFinish).wpc = true
          rw [g4, c3, hw']; exact hO.bw }


/-- the owner of the `warmupOnce` body (explicit `Warmup()`) takes a step -/
theorem lemma_own_inWarmup (kinds : List Kind) (s : St) (i : Nat) (k : Kind)
    (hs : s.status[i]? = some .inWarmup) (hO : Own s) : Own (stepActor kinds s i k .inWarmup).1 := by
  have hstep : (stepActor kinds s i k .inWarmup).1 =
      (if s.core.wpc = .compiled then setStatus (wakeW { s with core := s.core.step .warmupStep }) i .finished
       else { s with core := s.core.step .warmupStep }) := by
    cases k <;> rfl
  rw [hstep]
  obtain ⟨hD, hR, hC, hN⟩ := lemma_ws s.core
  -- this goroutine is the owner: the freeze owner is not nested, exactly one explicit owner
  have hpos : 0 < s.status.count .inWarmup := (lemma_count_pos _ _).2 ⟨i, hs⟩
  have hwo := hO.w_one
  have hwr : wrun s.core.wpc = true := by
    cases h : wrun s.core.wpc with
    | true => rfl
    | false => rw [h] at hwo; simp at hwo; omega
  have hn0 : nested s = false := by
    cases h : nested s with
    | false => rfl
    | true => rw [h, hwr] at hwo; simp at hwo; omega
  rw [hn0, hwr] at hwo
  have hcnt : s.status.count .inWarmup = 1 := by simpa using hwo
  by_cases hc : s.core.wpc = .compiled
  · rw [if_pos hc]
    obtain ⟨hf', hw'⟩ := hC hc
    obtain ⟨c1, c2, c3, c4⟩ := lemma_wakeW_counts { s with core := s.core.step .warmupStep }
    have hsi : (wakeW { s with core := s.core.step .warmupStep }).status[i]? = some .inWarmup := by
      rw [lemma_wakeW_status, List.getElem?_map]
      show Option.map wakeWf (s.status[i]?) = _
      rw [hs]; rfl
    have g1 := lemma_count_set _ i .inWarmup .finished .inWarmup hsi
    have g0 := lemma_count_set_neutral _ i .inWarmup .finished .inFreeze hsi (by simp) (by simp)
    have g3 := lemma_count_set_neutral _ i .inWarmup .finished .blockedF hsi (by simp) (by simp)
    have g4 := lemma_count_set_neutral _ i .inWarmup .finished .blockedW hsi (by simp) (by simp)
    have hfr : frun (s.core.step .warmupStep).fpc = frun s.core.fpc := by
      rw [hf']
      by_cases hi : s.core.fpc = .inWarmup
      · rw [if_pos hi, hi]; rfl
      · rw [if_neg hi]
    exact
      { f_one := by
          show ((wakeW _).status.set i .finished).count .inFreeze = if frun (s.core.step .warmupStep).fpc then 1 else 0
          rw [g0, c1, hfr]; exact hO.f_one
        w_one := by
          show ((wakeW _).status.set i .finished).count .inWarmup + (if nested _ then 1 else 0) =
            if wrun (s.core.step .warmupStep).wpc then 1 else 0
          have hnest : nested (setStatus (wakeW { s with core := s.core.step .warmupStep }) i .finished) = false := by
            simp only [nested, setStatus, wakeW, hf']
            by_cases hi : s.core.fpc = .inWarmup
            · simp [hi]
            · simp [hi]
          rw [hnest, hw']
          simp only [if_true] at g1
          rw [c2] at g1
          show _ + 0 = 0
          have : ((wakeW { s with core := s.core.step .warmupStep }).status.set i .finished).count .inWarmup + 1 =
            s.status.count .inWarmup + 0 := g1
          omega
        bf := by
          show 0 < ((wakeW _).status.set i .finished).count .blockedF → frun (s.core.step .warmupStep).fpc = true
          rw [g3, c3, hfr]; exact hO.bf
        bw := by
          show 0 < ((wakeW _).status.set i .finished).count .blockedW → _
          rw [g4, c4]; intro hx; omega }
  · rw [if_neg hc]
    rcases lemma_wpc_cases s.core.wpc with hw | hw | hw | hw | hw
    · rw [hw] at hwr; simp [wrun] at hwr
    · obtain ⟨hf', hw'⟩ := hD hw
      refine lemma_own_same_status s (s.core.step .warmupStep) s.wByFreeze hO (by rw [hf']) ?_ (by intro _; rw [hw']; rfl)
      have : nested { s with core := s.core.step .warmupStep, wByFreeze := s.wByFreeze } = nested s := by
        simp [nested, hf']
      rw [this, hw', hw]; rfl
    · obtain ⟨hf', hw'⟩ := hR hw
      refine lemma_own_same_status s (s.core.step .warmupStep) s.wByFreeze hO (by rw [hf']) ?_ (by intro _; rw [hw']; rfl)
      have : nested { s with core := s.core.step .warmupStep, wByFreeze := s.wByFreeze } = nested s := by
        simp [nested, hf']
      rw [this, hw', hw]; rfl
    · exact absurd hw hc
    · rw [hw] at hwr; simp [wrun] at hwr

/-! ### positions and kinds -/

theorem lemma_getElem_set (l : List Status) (i j : Nat) (new x : Status) (h : (l.set i new)[j]? = some x) :
    (j = i ∧ new = x) ∨ l[j]? = some x := by
  by_cases hij : i = j
  · subst hij
    by_cases hl : i < l.length
    · simp [hl] at h; exact Or.inl ⟨rfl, h⟩
    · simp [hl] at h
  · rw [List.getElem?_set_ne hij] at h
    exact Or.inr h

theorem lemma_wt_set (kinds : List Kind) (s : St) (i : Nat) (new : Status) (core' : Core) (w' : Bool)
    (hW : WT kinds s)
    (h1 : new = .atEntry → ∃ t v g, kinds[i]? = some (Kind.request t v g))
    (h2 : new = .atFrozen → ∃ t v g, kinds[i]? = some (Kind.request t v g))
    (h3 : new = .atChecked → ∃ r, kinds[i]? = some (Kind.register r)) :
    WT kinds { core := core', status := s.status.set i new, wByFreeze := w' } :=
  { entry := by
      intro j hj
      rcases lemma_getElem_set s.status i j new _ hj with ⟨rfl, hn⟩ | h
      · exact h1 hn
      · exact hW.entry j h
    frozen := by
      intro j hj
      rcases lemma_getElem_set s.status i j new _ hj with ⟨rfl, hn⟩ | h
      · exact h2 hn
      · exact hW.frozen j h
    checked := by
      intro j hj
      rcases lemma_getElem_set s.status i j new _ hj with ⟨rfl, hn⟩ | h
      · exact h3 hn
      · exact hW.checked j h
    len := by simp [hW.len] }

theorem lemma_wt_wakeW (kinds : List Kind) (s : St) (hW : WT kinds s) : WT kinds (wakeW s) :=
  { entry := by
      intro j hj
      rw [lemma_wakeW_status, List.getElem?_map] at hj
      cases h : s.status[j]? with
      | none => rw [h] at hj; cases hj
      | some st =>
        rw [h] at hj
        simp only [Option.map_some, Option.some.injEq, wakeWf] at hj
        split at hj
        · cases hj
        · exact hW.entry j (by rw [h, hj])
    frozen := by
      intro j hj
      rw [lemma_wakeW_status, List.getElem?_map] at hj
      cases h : s.status[j]? with
      | none => rw [h] at hj; cases hj
      | some st =>
        rw [h] at hj
        simp only [Option.map_some, Option.some.injEq, wakeWf] at hj
        split at hj
        · cases hj
        · exact hW.frozen j (by rw [h, hj])
    checked := by
      intro j hj
      rw [lemma_wakeW_status, List.getElem?_map] at hj
      cases h : s.status[j]? with
      | none => rw [h] at hj; cases hj
      | some st =>
        rw [h] at hj
        simp only [Option.map_some, Option.some.injEq, wakeWf] at hj
        split at hj
        · cases hj
        · exact hW.checked j (by rw [h, hj])
    len := by rw [lemma_wakeW_status]; simp [hW.len] }

theorem lemma_afterFreeze_frozen (k : Kind) (h : afterFreeze k = .atFrozen) : ∃ t v g, k = Kind.request t v g := by
  cases k <;> simp [afterFreeze] at h
  exact ⟨_, _, _, rfl⟩

theorem lemma_wt_wakeF (kinds : List Kind) (s : St) (hW : WT kinds s) : WT kinds (wakeF kinds s) := by
  have key : ∀ j : Nat, ∀ x : Status, (wakeF kinds s).status[j]? = some x →
      (s.status[j]? = some x) ∨ (∃ k, kinds[j]? = some k ∧ x = afterFreeze k) := by
    intro j x hj
    rw [lemma_wakeF_status, List.getElem?_map] at hj
    cases hz : (s.status.zip kinds)[j]? with
    | none => rw [hz] at hj; cases hj
    | some p =>
      obtain ⟨st, k⟩ := p
      rw [hz] at hj
      obtain ⟨h1, h2⟩ := List.getElem?_zip_eq_some.1 hz
      simp only [Option.map_some, Option.some.injEq, wakeFf] at hj
      split at hj
      · exact Or.inr ⟨k, h2, hj.symm⟩
      · exact Or.inl (by rw [h1, hj])
  exact
    { entry := by
        intro j hj
        rcases key j _ hj with h | ⟨k, _, hk⟩
        · exact hW.entry j h
        · exact absurd hk.symm (lemma_afterFreeze_ne k).2.2.2.2.1
      frozen := by
        intro j hj
        rcases key j _ hj with h | ⟨k, hk1, hk⟩
        · exact hW.frozen j h
        · obtain ⟨t, v, g, rfl⟩ := lemma_afterFreeze_frozen k hk.symm
          exact ⟨t, v, g, hk1⟩
      checked := by
        intro j hj
        rcases key j _ hj with h | ⟨k, _, hk⟩
        · exact hW.checked j h
        · exact absurd hk.symm (lemma_afterFreeze_ne k).2.2.2.2.2
      len := by rw [lemma_wakeF_status]; simp [hW.len] }


theorem lemma_wt_core (kinds : List Kind) (s : St) (core' : Core) (w' : Bool) (hW : WT kinds s) :
    WT kinds { s with core := core', wByFreeze := w' } :=
  { entry := hW.entry, frozen := hW.frozen, checked := hW.checked, len := hW.len }

theorem lemma_wt_setStatus (kinds : List Kind) (s : St) (i : Nat) (new : Status) (hW : WT kinds s)
    (h1 : new = .atEntry → ∃ t v g, kinds[i]? = some (Kind.request t v g))
    (h2 : new = .atFrozen → ∃ t v g, kinds[i]? = some (Kind.request t v g))
    (h3 : new = .atChecked → ∃ r, kinds[i]? = some (Kind.register r)) : WT kinds (setStatus s i new) :=
  lemma_wt_set kinds s i new s.core s.wByFreeze hW h1 h2 h3

theorem lemma_wt_afterFreeze (kinds : List Kind) (s : St) (i : Nat) (k : Kind) (hk : kinds[i]? = some k)
    (hW : WT kinds s) : WT kinds (setStatus s i (afterFreeze k)) :=
  lemma_wt_setStatus kinds s i _ hW
    (fun h => absurd h (lemma_afterFreeze_ne k).2.2.2.2.1)
    (fun h => by obtain ⟨t, v, g, rfl⟩ := lemma_afterFreeze_frozen k h; exact ⟨t, v, g, hk⟩)
    (fun h => absurd h (lemma_afterFreeze_ne k).2.2.2.2.2)

theorem lemma_wt_callFreeze (kinds : List Kind) (s : St) (i : Nat) (k : Kind) (hk : kinds[i]? = some k)
    (hW : WT kinds s) : WT kinds (callFreeze s i k) := by
  unfold callFreeze
  cases s.core.fpc with
  | done => exact lemma_wt_afterFreeze kinds s i k hk hW
  | idle =>
    exact lemma_wt_setStatus kinds _ i _ (lemma_wt_core kinds s _ _ hW) (by simp) (by simp) (by simp)
  | flags => exact lemma_wt_setStatus kinds s i _ hW (by simp) (by simp) (by simp)
  | inWarmup => exact lemma_wt_setStatus kinds s i _ hW (by simp) (by simp) (by simp)
  | tail => exact lemma_wt_setStatus kinds s i _ hW (by simp) (by simp) (by simp)

theorem lemma_wt_step (kinds : List Kind) (s : St) (i : Nat) (k : Kind) (st : Status)
    (hk : kinds[i]? = some k) (hW : WT kinds s) : WT kinds (stepActor kinds s i k st).1 := by
  cases st with
  | inFreeze =>
    have hstep : (stepActor kinds s i k .inFreeze).1 =
        (match s.core.fpc with
          | .flags => { s with core := s.core.step .freezeCallWarmup, wByFreeze := decide (s.core.wpc = .idle) }
          | .inWarmup =>
            if s.wByFreeze then
              (if s.core.wpc = .compiled then wakeW { s with core := s.core.step .warmupStep }
               else { s with core := s.core.step .warmupStep })
            else s
          | .tail => setStatus (wakeF kinds { s with core := s.core.step .freezeFinish }) i (afterFreeze k)
          | _ => s) := by
      cases k <;> rfl
    rw [hstep]
    cases s.core.fpc with
    | idle => exact hW
    | done => exact hW
    | flags => exact lemma_wt_core kinds s _ _ hW
    | inWarmup =>
      simp only
      split
      · split
        · exact lemma_wt_wakeW kinds _ (lemma_wt_core kinds s _ _ hW)
        · exact lemma_wt_core kinds s _ _ hW
      · exact hW
    | tail =>
      exact lemma_wt_afterFreeze kinds _ i k hk (lemma_wt_wakeF kinds _ (lemma_wt_core kinds s _ _ hW))
  | inWarmup =>
    have hstep : (stepActor kinds s i k .inWarmup).1 =
        (if s.core.wpc = .compiled then setStatus (wakeW { s with core := s.core.step .warmupStep }) i .finished
         else { s with core := s.core.step .warmupStep }) := by
      cases k <;> rfl
    rw [hstep]
    split
    · exact lemma_wt_setStatus kinds _ i _ (lemma_wt_wakeW kinds _ (lemma_wt_core kinds s _ _ hW))
        (by simp) (by simp) (by simp)
    · exact lemma_wt_core kinds s _ _ hW
  | blockedF => cases k <;> exact hW
  | blockedW => cases k <;> exact hW
  | finished => cases k <;> exact hW
  | atEntry =>
    cases k with
    | request t v g => exact lemma_wt_callFreeze kinds s i _ hk hW
    | _ => exact hW
  | atFrozen =>
    cases k with
    | request t v g => exact lemma_wt_setStatus kinds s i _ hW (by simp) (by simp) (by simp)
    | _ => exact hW
  | atChecked =>
    cases k with
    | register r =>
      exact lemma_wt_setStatus kinds _ i _ (lemma_wt_core kinds s _ _ hW) (by simp) (by simp) (by simp)
    | _ => exact hW
  | start =>
    cases k with
    | request t v g => exact lemma_wt_setStatus kinds s i _ hW (fun _ => ⟨t, v, g, hk⟩) (by simp) (by simp)
    | freeze => exact lemma_wt_callFreeze kinds s i _ hk hW
    | warmup =>
      simp only [stepActor]
      cases s.core.wpc with
      | done => exact lemma_wt_setStatus kinds s i _ hW (by simp) (by simp) (by simp)
      | idle =>
        exact lemma_wt_setStatus kinds _ i _ (lemma_wt_core kinds s _ _ hW) (by simp) (by simp) (by simp)
      | drained => exact lemma_wt_setStatus kinds s i _ hW (by simp) (by simp) (by simp)
      | registered => exact lemma_wt_setStatus kinds s i _ hW (by simp) (by simp) (by simp)
      | compiled => exact lemma_wt_setStatus kinds s i _ hW (by simp) (by simp) (by simp)
    | register r =>
      simp only [stepActor]
      cases registerRes s.core r with
      | accepted => exact lemma_wt_setStatus kinds s i _ hW (by simp) (by simp) (fun _ => ⟨r, hk⟩)
      | rejected => exact lemma_wt_setStatus kinds s i _ hW (by simp) (by simp) (by simp)
      | na => exact lemma_wt_setStatus kinds s i _ hW (by simp) (by simp) (by simp)
    | whereInt r =>
      exact lemma_wt_setStatus kinds _ i _ (lemma_wt_core kinds s _ _ hW) (by simp) (by simp) (by simp)
    | setName r =>
      exact lemma_wt_setStatus kinds _ i _ (lemma_wt_core kinds s _ _ hW) (by simp) (by simp) (by simp)
    | urlFor r => exact lemma_wt_setStatus kinds s i _ hW (by simp) (by simp) (by simp)
    | whereBad r => exact lemma_wt_setStatus kinds s i _ hW (by simp) (by simp) (by simp)

/-- `Own` under every scheduler step -/
theorem lemma_own_step (kinds : List Kind) (s : St) (i : Nat) (k : Kind) (st : Status)
    (hs : s.status[i]? = some st) (hI : Inv s.core) (hW : WT kinds s) (hO : Own s) :
    Own (stepActor kinds s i k st).1 := by
  cases st with
  | inFreeze => exact lemma_own_inFreeze kinds s i k hs hI hW.len hO
  | inWarmup => exact lemma_own_inWarmup kinds s i k hs hO
  | blockedF => cases k <;> exact hO
  | blockedW => cases k <;> exact hO
  | finished => cases k <;> exact hO
  | atEntry =>
    cases k with
    | request t v g => exact lemma_own_callFreeze s i _ .atEntry hs rfl hO
    | _ => exact hO
  | atFrozen =>
    cases k with
    | request t v g => exact lemma_own_set_neutral s i .atFrozen .finished hs rfl rfl s.core rfl rfl hO
    | _ => exact hO
  | atChecked =>
    cases k with
    | register r =>
      obtain ⟨h1, h2⟩ := lemma_mut_ctl s.core (.register r) rfl
      exact lemma_own_set_neutral s i .atChecked .finished hs rfl rfl _ h1 h2 hO
    | _ => exact hO
  | start =>
    cases k with
    | request t v g => exact lemma_own_set_neutral s i .start .atEntry hs rfl rfl s.core rfl rfl hO
    | freeze => exact lemma_own_callFreeze s i _ .start hs rfl hO
    | warmup =>
      have := lemma_own_warmupStart s i hs hO
      simpa [stepActor] using this
    | register r =>
      simp only [stepActor]
      cases registerRes s.core r with
      | accepted => exact lemma_own_set_neutral s i .start .atChecked hs rfl rfl s.core rfl rfl hO
      | rejected => exact lemma_own_set_neutral s i .start .finished hs rfl rfl s.core rfl rfl hO
      | na => exact lemma_own_set_neutral s i .start .finished hs rfl rfl s.core rfl rfl hO
    | whereInt r =>
      obtain ⟨h1, h2⟩ := lemma_mut_ctl s.core (.whereInt r) rfl
      exact lemma_own_set_neutral s i .start .finished hs rfl rfl _ h1 h2 hO
    | setName r =>
      obtain ⟨h1, h2⟩ := lemma_mut_ctl s.core (.setName r) rfl
      exact lemma_own_set_neutral s i .start .finished hs rfl rfl _ h1 h2 hO
    | urlFor r => exact lemma_own_set_neutral s i .start .finished hs rfl rfl s.core rfl rfl hO
    | whereBad r => exact lemma_own_set_neutral s i .start .finished hs rfl rfl s.core rfl rfl hO


/-! ### progress -/

/-- releasing goroutine `i` changes the state -/
def Effective (kinds : List Kind) (s : St) (i : Nat) : Prop := (step kinds s i).1 ≠ s

theorem lemma_step_eq (kinds : List Kind) (s : St) (i : Nat) (k : Kind) (st : Status)
    (hk : kinds[i]? = some k) (hs : s.status[i]? = some st) : step kinds s i = stepActor kinds s i k st := by
  simp [step, hk, hs]

theorem lemma_status_differs (s s' : St) (i : Nat) (a b : Status) (h : s.status[i]? = some a)
    (h' : s'.status[i]? = some b) (hab : a ≠ b) : s' ≠ s := by
  intro e
  rw [e, h] at h'
  exact hab (Option.some.inj h')

theorem lemma_lt_of_get {l : List Status} {i : Nat} {x : Status} (h : l[i]? = some x) : i < l.length := by
  rcases Nat.lt_or_ge i l.length with h' | h'
  · exact h'
  · rw [List.getElem?_eq_none h'] at h; cases h

theorem lemma_callFreeze_status (s : St) (i : Nat) (k : Kind) (hi : i < s.status.length) :
    ∃ b, (callFreeze s i k).status[i]? = some b ∧ (b = afterFreeze k ∨ b = .inFreeze ∨ b = .blockedF) := by
  unfold callFreeze
  cases s.core.fpc with
  | done => exact ⟨_, lemma_setStatus_self s i _ hi, Or.inl rfl⟩
  | idle => exact ⟨_, lemma_setStatus_self _ i _ hi, Or.inr (Or.inl rfl)⟩
  | flags => exact ⟨_, lemma_setStatus_self s i _ hi, Or.inr (Or.inr rfl)⟩
  | inWarmup => exact ⟨_, lemma_setStatus_self s i _ hi, Or.inr (Or.inr rfl)⟩
  | tail => exact ⟨_, lemma_setStatus_self s i _ hi, Or.inr (Or.inr rfl)⟩

/-- a goroutine that is parked outside the two `Once` bodies, or has not started, can always go on -/
theorem lemma_eff_neutral (kinds : List Kind) (s : St) (i : Nat) (st : Status) (hW : WT kinds s)
    (hs : s.status[i]? = some st)
    (hst : st = .start ∨ st = .atEntry ∨ st = .atFrozen ∨ st = .atChecked) : Effective kinds s i := by
  have hi := lemma_lt_of_get hs
  obtain ⟨k, hk⟩ : ∃ k, kinds[i]? = some k := ⟨kinds[i]'(hW.len ▸ hi), by simp [hW.len ▸ hi]⟩
  unfold Effective
  rw [lemma_step_eq kinds s i k st hk hs]
  rcases hst with rfl | rfl | rfl | rfl
  · -- start
    cases k with
    | request t v g =>
      exact lemma_status_differs s _ i _ _ hs (lemma_setStatus_self s i .atEntry hi) (by simp)
    | freeze =>
      obtain ⟨b, hb, hb'⟩ := lemma_callFreeze_status s i .freeze hi
      refine lemma_status_differs s _ i _ b hs hb ?_
      rcases hb' with rfl | rfl | rfl <;> simp [afterFreeze]
    | warmup =>
      simp only [stepActor]
      cases s.core.wpc with
      | done => exact lemma_status_differs s _ i _ _ hs (lemma_setStatus_self s i .finished hi) (by simp)
      | idle => exact lemma_status_differs s _ i _ _ hs (lemma_setStatus_self _ i .inWarmup hi) (by simp)
      | drained => exact lemma_status_differs s _ i _ _ hs (lemma_setStatus_self s i .blockedW hi) (by simp)
      | registered => exact lemma_status_differs s _ i _ _ hs (lemma_setStatus_self s i .blockedW hi) (by simp)
      | compiled => exact lemma_status_differs s _ i _ _ hs (lemma_setStatus_self s i .blockedW hi) (by simp)
    | register r =>
      simp only [stepActor]
      cases registerRes s.core r with
      | accepted => exact lemma_status_differs s _ i _ _ hs (lemma_setStatus_self s i .atChecked hi) (by simp)
      | rejected => exact lemma_status_differs s _ i _ _ hs (lemma_setStatus_self s i .finished hi) (by simp)
      | na => exact lemma_status_differs s _ i _ _ hs (lemma_setStatus_self s i .finished hi) (by simp)
    | whereInt r => exact lemma_status_differs s _ i _ _ hs (lemma_setStatus_self _ i .finished hi) (by simp)
    | setName r => exact lemma_status_differs s _ i _ _ hs (lemma_setStatus_self _ i .finished hi) (by simp)
    | urlFor r => exact lemma_status_differs s _ i _ _ hs (lemma_setStatus_self s i .finished hi) (by simp)
    | whereBad r => exact lemma_status_differs s _ i _ _ hs (lemma_setStatus_self s i .finished hi) (by simp)
  · -- atEntry: a request
    obtain ⟨t, v, g, hk'⟩ := hW.entry i hs
    rw [hk] at hk'
    cases hk'
    obtain ⟨b, hb, hb'⟩ := lemma_callFreeze_status s i (.request t v g) hi
    refine lemma_status_differs s _ i _ b hs hb ?_
    rcases hb' with rfl | rfl | rfl <;> simp [afterFreeze]
  · obtain ⟨t, v, g, hk'⟩ := hW.frozen i hs
    rw [hk] at hk'
    cases hk'
    exact lemma_status_differs s _ i _ _ hs (lemma_setStatus_self s i .finished hi) (by simp)
  · obtain ⟨r, hk'⟩ := hW.checked i hs
    rw [hk] at hk'
    cases hk'
    exact lemma_status_differs s _ i _ _ hs (lemma_setStatus_self _ i .finished hi) (by simp)

theorem lemma_wpc_differs (s s' : St) (h : s'.core.wpc ≠ s.core.wpc) : s' ≠ s := fun e => h (by rw [e])
theorem lemma_fpc_differs (s s' : St) (h : s'.core.fpc ≠ s.core.fpc) : s' ≠ s := fun e => h (by rw [e])

theorem lemma_ws_changes (c : Core) (h : wrun c.wpc = true) : (c.step .warmupStep).wpc ≠ c.wpc := by
  obtain ⟨hD, hR, hC, _⟩ := lemma_ws c
  rcases lemma_wpc_cases c.wpc with hw | hw | hw | hw | hw
  · rw [hw] at h; simp [wrun] at h
  · rw [(hD hw).2, hw]; simp
  · rw [(hR hw).2, hw]; simp
  · rw [(hC hw).2, hw]; simp
  · rw [hw] at h; simp [wrun] at h

theorem lemma_wakeW_core (s : St) : (wakeW s).core = s.core := rfl
theorem lemma_wakeF_core (kinds : List Kind) (s : St) : (wakeF kinds s).core = s.core := rfl

/-- the explicit owner of `doWarmup` can always go on -/
theorem lemma_eff_inWarmup (kinds : List Kind) (s : St) (i : Nat) (hW : WT kinds s) (hO : Own s)
    (hs : s.status[i]? = some .inWarmup) : Effective kinds s i := by
  have hi := lemma_lt_of_get hs
  obtain ⟨k, hk⟩ : ∃ k, kinds[i]? = some k := ⟨kinds[i]'(hW.len ▸ hi), by simp [hW.len ▸ hi]⟩
  have hpos : 0 < s.status.count .inWarmup := (lemma_count_pos _ _).2 ⟨i, hs⟩
  have hwr : wrun s.core.wpc = true := by
    have hwo := hO.w_one
    cases h : wrun s.core.wpc with
    | true => rfl
    | false => rw [h] at hwo; simp at hwo; omega
  unfold Effective
  rw [lemma_step_eq kinds s i k _ hk hs]
  have hstep : (stepActor kinds s i k .inWarmup).1 =
      (if s.core.wpc = .compiled then setStatus (wakeW { s with core := s.core.step .warmupStep }) i .finished
       else { s with core := s.core.step .warmupStep }) := by
    cases k <;> rfl
  rw [hstep]
  apply lemma_wpc_differs
  split
  · exact lemma_ws_changes s.core hwr
  · exact lemma_ws_changes s.core hwr

/-- the owner of the `freezeOnce` body can go on, or waits for an explicit owner of `doWarmup` -/
theorem lemma_eff_inFreeze (kinds : List Kind) (s : St) (i : Nat) (hW : WT kinds s) (hO : Own s) (hI : Inv s.core)
    (hs : s.status[i]? = some .inFreeze) :
    Effective kinds s i ∨ ∃ j : Nat, s.status[j]? = some Status.inWarmup := by
  have hi := lemma_lt_of_get hs
  obtain ⟨k, hk⟩ : ∃ k, kinds[i]? = some k := ⟨kinds[i]'(hW.len ▸ hi), by simp [hW.len ▸ hi]⟩
  have hpos : 0 < s.status.count .inFreeze := (lemma_count_pos _ _).2 ⟨i, hs⟩
  have hfr : frun s.core.fpc = true := by
    have hfo := hO.f_one
    cases h : frun s.core.fpc with
    | true => rfl
    | false => rw [h] at hfo; simp at hfo; omega
  have hstep : (stepActor kinds s i k .inFreeze).1 =
      (match s.core.fpc with
        | .flags => { s with core := s.core.step .freezeCallWarmup, wByFreeze := decide (s.core.wpc = .idle) }
        | .inWarmup =>
          if s.wByFreeze then
            (if s.core.wpc = .compiled then wakeW { s with core := s.core.step .warmupStep }
             else { s with core := s.core.step .warmupStep })
          else s
        | .tail => setStatus (wakeF kinds { s with core := s.core.step .freezeFinish }) i (afterFreeze k)
        | _ => s) := by
    cases k <;> rfl
  unfold Effective
  rw [lemma_step_eq kinds s i k _ hk hs, hstep]
  cases hf : s.core.fpc with
  | idle => rw [hf] at hfr; simp [frun] at hfr
  | done => rw [hf] at hfr; simp [frun] at hfr
  | flags =>
    left
    simp only
    apply lemma_fpc_differs
    obtain ⟨hA, hB, hC⟩ := lemma_fcw s.core hf
    show (s.core.step .freezeCallWarmup).fpc ≠ s.core.fpc
    rcases lemma_wpc_cases s.core.wpc with hw | hw | hw | hw | hw
    · rw [(hB hw).1, hf]; simp
    · rw [(hC (by rw [hw]; rfl)).1, hf]; simp
    · rw [(hC (by rw [hw]; rfl)).1, hf]; simp
    · rw [(hC (by rw [hw]; rfl)).1, hf]; simp
    · rw [(hA hw).1, hf]; simp
  | tail =>
    left
    simp only
    apply lemma_fpc_differs
    show (s.core.step .freezeFinish).fpc ≠ s.core.fpc
    rw [(lemma_ff s.core hf).1, hf]; simp
  | inWarmup =>
    have hiw := hI.in_warmup hf
    have hwr : wrun s.core.wpc = true := by
      rcases lemma_wpc_cases s.core.wpc with hw | hw | hw | hw | hw
      · exact absurd hw hiw.1
      · rw [hw]; rfl
      · rw [hw]; rfl
      · rw [hw]; rfl
      · exact absurd hw hiw.2
    by_cases hwb : s.wByFreeze = true
    · left
      simp only
      rw [if_pos hwb]
      apply lemma_wpc_differs
      split
      · exact lemma_ws_changes s.core hwr
      · exact lemma_ws_changes s.core hwr
    · right
      have hn0 : nested s = false := by simp [nested, hwb]
      have hwo := hO.w_one
      rw [hn0, hwr] at hwo
      have : 0 < s.status.count .inWarmup := by simp at hwo; omega
      exact (lemma_count_pos _ _).1 this

/-- **Deadlock freedom.** In a state that satisfies the invariants, if some goroutine has not finished then
    some goroutine can take a step that changes the state. -/
theorem lemma_progress (kinds : List Kind) (s : St) (hW : WT kinds s) (hO : Own s) (hI : Inv s.core)
    (h : ∃ (i : Nat) (st : Status), s.status[i]? = some st ∧ st ≠ .finished) : ∃ i, Effective kinds s i := by
  obtain ⟨i, st, hs, hne⟩ := h
  -- an owner of the freeze body
  have hF : (∃ j : Nat, s.status[j]? = some Status.inFreeze) → ∃ i, Effective kinds s i := by
    rintro ⟨j, hj⟩
    rcases lemma_eff_inFreeze kinds s j hW hO hI hj with h | ⟨j', hj'⟩
    · exact ⟨j, h⟩
    · exact ⟨j', lemma_eff_inWarmup kinds s j' hW hO hj'⟩
  cases st with
  | finished => exact absurd rfl hne
  | start => exact ⟨i, lemma_eff_neutral kinds s i _ hW hs (Or.inl rfl)⟩
  | atEntry => exact ⟨i, lemma_eff_neutral kinds s i _ hW hs (Or.inr (Or.inl rfl))⟩
  | atFrozen => exact ⟨i, lemma_eff_neutral kinds s i _ hW hs (Or.inr (Or.inr (Or.inl rfl)))⟩
  | atChecked => exact ⟨i, lemma_eff_neutral kinds s i _ hW hs (Or.inr (Or.inr (Or.inr rfl)))⟩
  | inWarmup => exact ⟨i, lemma_eff_inWarmup kinds s i hW hO hs⟩
  | inFreeze => exact hF ⟨i, hs⟩
  | blockedF =>
    have hfr := hO.bf ((lemma_count_pos _ _).2 ⟨i, hs⟩)
    have hfo := hO.f_one
    rw [hfr] at hfo
    exact hF ((lemma_count_pos _ _).1 (by simp at hfo; omega))
  | blockedW =>
    have hwr := hO.bw ((lemma_count_pos _ _).2 ⟨i, hs⟩)
    have hwo := hO.w_one
    rw [hwr] at hwo
    cases hn : nested s with
    | false =>
      rw [hn] at hwo
      have : 0 < s.status.count .inWarmup := by simp at hwo; omega
      obtain ⟨j, hj⟩ := (lemma_count_pos _ _).1 this
      exact ⟨j, lemma_eff_inWarmup kinds s j hW hO hj⟩
    | true =>
      -- the freeze owner runs `doWarmup` itself
      have hfpc : s.core.fpc = .inWarmup := by
        simp only [nested, Bool.and_eq_true, beq_iff_eq] at hn; exact hn.2
      have hfo := hO.f_one
      rw [hfpc] at hfo
      exact hF ((lemma_count_pos _ _).1 (by simp [frun] at hfo; omega))

theorem lemma_own_init (n : Nat) : Own (St.init n) := by
  have h : ∀ x : Status, x ≠ .start → (List.replicate n Status.start).count x = 0 := by
    intro x hx
    rw [List.count_eq_zero]
    intro hm
    exact hx (List.eq_of_mem_replicate hm)
  exact
    { f_one := by simp [St.init, Core.init, frun, h]
      w_one := by simp [St.init, Core.init, wrun, nested, h]
      bf := by simp [St.init, h]
      bw := by simp [St.init, h] }

theorem lemma_wt_init (kinds : List Kind) : WT kinds (St.init kinds.length) :=
  { entry := by intro i hi; simp only [St.init, List.getElem?_replicate] at hi; split at hi <;> simp at hi
    frozen := by intro i hi; simp only [St.init, List.getElem?_replicate] at hi; split at hi <;> simp at hi
    checked := by intro i hi; simp only [St.init, List.getElem?_replicate] at hi; split at hi <;> simp at hi
    len := by simp [St.init] }

/-- the invariants hold after every schedule -/
theorem lemma_run_live (kinds : List Kind) (sched : List Nat) (s : St) (m : Spec.Mon) (hR : Rel s m)
    (hW : WT kinds s) (hO : Own s) (hv : ∀ i ∈ sched, i < kinds.length) :
    WT kinds (runFrom kinds s sched).1 ∧ Own (runFrom kinds s sched).1 ∧ Inv (runFrom kinds s sched).1.core := by
  induction sched generalizing s m with
  | nil => exact ⟨hW, hO, hR.inv⟩
  | cons i rest ih =>
    have hi : i < kinds.length := hv i (by simp)
    obtain ⟨k, hk⟩ : ∃ k, kinds[i]? = some k := ⟨kinds[i], by simp [hi]⟩
    obtain ⟨st, hst⟩ : ∃ st, s.status[i]? = some st :=
      ⟨s.status[i]'(hW.len ▸ hi), by simp [hW.len, hi]⟩
    have hstep : step kinds s i = stepActor kinds s i k st := lemma_step_eq kinds s i k st hk hst
    obtain ⟨m1, _, hR1⟩ := lemma_stepActor kinds s m hR i k st hst
    have hW1 := lemma_wt_step kinds s i k st hk hW
    have hO1 := lemma_own_step kinds s i k st hst hR.inv hW hO
    have := ih (stepActor kinds s i k st).1 m1 hR1 hW1 hO1 (fun j hj => hv j (by simp [hj]))
    simp only [runFrom, hstep]
    exact this

end Rivaas.Phases
